package cdesc

import (
	"fmt"

	"verifharness/vh"
)

// GenUniverse draws a type universe: one of four fixed shapes or a random graph.
func GenUniverse(r *vh.Rand, tag string) (*Universe, string) {
	u := &Universe{Tag: tag}
	msg := func(pkg int, refs ...int) Node {
		sh := make([]int, len(refs))
		return Node{Kind: KMsg, Pkg: pkg, Refs: refs, Shape: sh}
	}
	shape := r.Intn(10)
	switch shape {
	case 0: // chain, across packages
		u.Nodes = []Node{msg(1, 1), msg(1, 2), msg(0, 3), msg(0)}
		return u, "chain"
	case 1: // two roots sharing a sub-schema
		u.Nodes = []Node{msg(1, 2), msg(1, 2, 3), msg(0, 3), {Kind: KEnum, Pkg: 0}}
		return u, "shared"
	case 2: // mutual recursion + self reference
		u.Nodes = []Node{msg(0, 1), msg(0, 0, 2), msg(0, 2)}
		return u, "recursive"
	case 3: // disjoint
		u.Nodes = []Node{msg(0, 1), msg(0), msg(1, 3), msg(1)}
		return u, "disjoint"
	}
	n := r.Range(2, 7)
	npkg := r.Range(1, 3)
	for i := 0; i < n; i++ {
		nd := Node{Pkg: r.Intn(npkg)}
		if i > 0 && r.Chance(20) {
			nd.Kind = KEnum
		}
		u.Nodes = append(u.Nodes, nd)
	}
	for i := range u.Nodes {
		if u.Nodes[i].Kind == KEnum {
			continue
		}
		var cand []int
		for j := range u.Nodes {
			if u.Nodes[j].Pkg <= u.Nodes[i].Pkg {
				cand = append(cand, j)
			}
		}
		nr := r.Intn(4)
		for k := 0; k < nr; k++ {
			j := vh.Pick(r, cand)
			sh := FSingle
			switch r.Intn(6) {
			case 0:
				sh = FList
			case 1:
				if u.Nodes[j].Kind == KMsg {
					sh = FMap
				}
			}
			u.Nodes[i].Refs = append(u.Nodes[i].Refs, j)
			u.Nodes[i].Shape = append(u.Nodes[i].Shape, sh)
		}
	}
	for i := range u.Nodes {
		if u.Nodes[i].Refs == nil {
			u.Nodes[i].Refs = []int{}
			u.Nodes[i].Shape = []int{}
		}
		// some messages whose references are all single messages are oneof wrappers
		n := &u.Nodes[i]
		if n.Kind == KMsg && len(n.Refs) > 0 && r.Chance(20) {
			all := true
			for k, j := range n.Refs {
				if n.Shape[k] != FSingle || u.Nodes[j].Kind != KMsg {
					all = false
				}
			}
			n.Wrapper = all
		}
	}
	return u, "random"
}

// WithBad gives one or two message nodes a field of an unsupported type, so that they
// (and the types that reach them) cannot be reflected.
func WithBad(r *vh.Rand, u *Universe) {
	ms := MsgNodes(u)
	for n := r.Range(1, 2); n > 0 && len(ms) > 0; n-- {
		i := vh.Pick(r, ms)
		if u.Nodes[i].Wrapper {
			continue // an unsupported member would not be a oneof wrapper any more
		}
		u.Nodes[i].Bad = r.Range(1, len(u.Nodes[i].Refs)+1)
	}
}

// MsgNodes lists the message nodes.
func MsgNodes(u *Universe) []int {
	var out []int
	for i, n := range u.Nodes {
		if n.Kind == KMsg {
			out = append(out, i)
		}
	}
	return out
}

// GenRich draws a universe and decorates it with features outside the Coq model:
// exposed oneofs and oneof wrapper messages. For oracle-only streams.
func GenRich(r *vh.Rand, tag string) (*Universe, string) {
	u, why := GenUniverse(r, tag)
	for i := range u.Nodes {
		n := &u.Nodes[i]
		if n.Kind != KMsg || len(n.Refs) == 0 {
			continue
		}
		allSingleMsg := true
		var singles []int
		for k, j := range n.Refs {
			if n.Shape[k] != FSingle || u.Nodes[j].Kind != KMsg {
				allSingleMsg = false
			}
			if n.Shape[k] == FSingle {
				singles = append(singles, k)
			}
		}
		switch {
		case n.Wrapper || n.Bad > 0:
		case allSingleMsg && r.Chance(25):
			n.Wrapper = true
		case len(singles) > 0 && r.Chance(50):
			// exposed oneofs over runs of consecutively declared single references
			var runs [][]int
			for _, k := range singles {
				if len(runs) > 0 && runs[len(runs)-1][len(runs[len(runs)-1])-1] == k-1 {
					runs[len(runs)-1] = append(runs[len(runs)-1], k)
				} else {
					runs = append(runs, []int{k})
				}
			}
			for _, run := range runs {
				if len(n.Expose) >= 2 || !r.Chance(70) {
					continue
				}
				lo := r.Intn(len(run))
				hi := r.Range(lo+1, len(run))
				n.Expose = append(n.Expose, append([]int{}, run[lo:hi]...))
			}
		}
	}
	return u, "rich-" + why
}

// GenDistinctPkgs: n messages, each in a proto package of its own; some have a field of a message of an earlier package.
// First uses of these types on one shared cache each meet a package the cache has not seen.
func GenDistinctPkgs(r *vh.Rand, tag string) (*Universe, string) {
	u := &Universe{Tag: tag}
	n := r.Range(3, 6)
	for i := 0; i < n; i++ {
		nd := Node{Kind: KMsg, Pkg: i, Refs: []int{}, Shape: []int{}}
		if i > 0 && r.Chance(35) {
			nd.Refs, nd.Shape = []int{r.Intn(i)}, []int{FSingle}
		}
		u.Nodes = append(u.Nodes, nd)
	}
	return u, "distinct-packages"
}

// GenCollide draws a universe and adds one or two pairs of messages with ONE schema name: a message
// N<a> nested in a message M<p>, and a top-level message M<p>_N<a> of the same package (valid
// protobuf; lib/j5schema names both pkg.M<p>_N<a>). The two differ in their reference fields
// whenever the draw allows it, and other messages refer to one of them or to both.
func GenCollide(r *vh.Rand, tag string) (*Universe, string) {
	u, why := GenUniverse(r, tag)
	for pairs := r.Range(1, 2); pairs > 0; pairs-- {
		var parents []int
		for i, n := range u.Nodes {
			if n.Kind == KMsg && n.Nest == 0 && n.Twin == 0 {
				parents = append(parents, i)
			}
		}
		if len(parents) == 0 {
			break
		}
		p := vh.Pick(r, parents)
		pkg := u.Nodes[p].Pkg
		var cand []int
		for j := range u.Nodes {
			if u.Nodes[j].Pkg <= pkg {
				cand = append(cand, j)
			}
		}
		draw := func() ([]int, []int) {
			refs, shape := []int{}, []int{}
			for k := r.Intn(3); k > 0; k-- {
				refs = append(refs, vh.Pick(r, cand))
				shape = append(shape, FSingle)
			}
			return refs, shape
		}
		a := len(u.Nodes)
		b := a + 1
		ra, sa := draw()
		rb, sb := draw()
		if fmt.Sprint(ra) == fmt.Sprint(rb) {
			// make them differ: the twin gets one more field
			rb = append(append([]int{}, rb...), vh.Pick(r, cand))
			sb = append(append([]int{}, sb...), FSingle)
		}
		u.Nodes = append(u.Nodes,
			Node{Kind: KMsg, Pkg: pkg, Nest: p + 1, Refs: ra, Shape: sa},
			Node{Kind: KMsg, Pkg: pkg, Twin: a + 1, Refs: rb, Shape: sb})
		// referrers: messages of a package that may import pkg
		for i := range u.Nodes[:a] {
			n := &u.Nodes[i]
			if n.Kind != KMsg || n.Pkg < pkg || n.Wrapper || !r.Chance(40) {
				continue
			}
			switch r.Intn(3) {
			case 0:
				n.Refs, n.Shape = append(n.Refs, a), append(n.Shape, FSingle)
			case 1:
				n.Refs, n.Shape = append(n.Refs, b), append(n.Shape, FSingle)
			default:
				n.Refs, n.Shape = append(n.Refs, a, b), append(n.Shape, FSingle, FSingle)
			}
		}
	}
	return u, "collide-" + why
}

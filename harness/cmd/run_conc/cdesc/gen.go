package cdesc

import "verifharness/vh"

// GenUniverse draws a type universe: one of four fixed shapes or a random graph.
func GenUniverse(r *vh.Rand, tag string) (*Universe, string) {
	u := &Universe{Tag: tag}
	msg := func(pkg int, refs ...int) Node {
		sh := make([]int, len(refs))
		return Node{Kind: KMsg, Pkg: pkg, Refs: refs, Shape: sh}
	}
	shape := r.Intn(10)
	switch shape {
	case 0: // chain, across packages
		u.Nodes = []Node{msg(1, 1), msg(1, 2), msg(0, 3), msg(0)}
		return u, "chain"
	case 1: // two roots sharing a sub-schema
		u.Nodes = []Node{msg(1, 2), msg(1, 2, 3), msg(0, 3), {Kind: KEnum, Pkg: 0}}
		return u, "shared"
	case 2: // mutual recursion + self reference
		u.Nodes = []Node{msg(0, 1), msg(0, 0, 2), msg(0, 2)}
		return u, "recursive"
	case 3: // disjoint
		u.Nodes = []Node{msg(0, 1), msg(0), msg(1, 3), msg(1)}
		return u, "disjoint"
	}
	n := r.Range(2, 7)
	npkg := r.Range(1, 3)
	for i := 0; i < n; i++ {
		nd := Node{Pkg: r.Intn(npkg)}
		if i > 0 && r.Chance(20) {
			nd.Kind = KEnum
		}
		u.Nodes = append(u.Nodes, nd)
	}
	for i := range u.Nodes {
		if u.Nodes[i].Kind == KEnum {
			continue
		}
		var cand []int
		for j := range u.Nodes {
			if u.Nodes[j].Pkg <= u.Nodes[i].Pkg {
				cand = append(cand, j)
			}
		}
		nr := r.Intn(4)
		for k := 0; k < nr; k++ {
			j := vh.Pick(r, cand)
			sh := FSingle
			switch r.Intn(6) {
			case 0:
				sh = FList
			case 1:
				if u.Nodes[j].Kind == KMsg {
					sh = FMap
				}
			}
			u.Nodes[i].Refs = append(u.Nodes[i].Refs, j)
			u.Nodes[i].Shape = append(u.Nodes[i].Shape, sh)
		}
	}
	for i := range u.Nodes {
		if u.Nodes[i].Refs == nil {
			u.Nodes[i].Refs = []int{}
			u.Nodes[i].Shape = []int{}
		}
	}
	return u, "random"
}

// MsgNodes lists the message nodes.
func MsgNodes(u *Universe) []int {
	var out []int
	for i, n := range u.Nodes {
		if n.Kind == KMsg {
			out = append(out, i)
		}
	}
	return out
}

//go:build verif

package main

import (
	"bufio"
	"bytes"
	"encoding/json"
	"fmt"
	"os"
	"os/exec"
	"path/filepath"
	"strings"
	"time"

	"verifharness/vh"
)

// buildWorker builds cmd/run_conc/worker with the race detector (falling back to a
// plain build when the race runtime cannot be linked here).
func buildWorker(out string) (bin string, race bool, err error) {
	exe, err := os.Executable()
	if err != nil {
		return "", false, err
	}
	harness := filepath.Join(filepath.Dir(filepath.Dir(filepath.Dir(exe))), "harness")
	if _, err := os.Stat(filepath.Join(harness, "go.mod")); err != nil {
		return "", false, fmt.Errorf("harness module not found next to %s", exe)
	}
	bin = filepath.Join(out, "conc_worker")
	try := func(args ...string) error {
		cmd := exec.Command("go", append(append([]string{"build"}, args...), "-o", bin, "./cmd/run_conc/worker")...)
		cmd.Dir = harness
		b, err := cmd.CombinedOutput()
		if err != nil {
			return fmt.Errorf("%v: %s", err, b)
		}
		return nil
	}
	if e := try("-race"); e == nil {
		return bin, true, nil
	} else if e2 := try(); e2 == nil {
		return bin, false, fmt.Errorf("race build failed (%v); plain build used", e)
	} else {
		return "", false, e2
	}
}

// raceOracle runs rounds of real goroutines in crash-isolated worker processes.
func raceOracle(cfg *vh.Config, res *vh.Result, rounds int, caseBase int) (int, error) {
	bin, race, berr := buildWorker(cfg.Out)
	if bin == "" {
		return 0, berr
	}
	defer os.Remove(bin)
	if berr != nil {
		res.Notes = append(res.Notes, berr.Error())
	}
	if race {
		res.Notes = append(res.Notes, "concurrent first-use rounds ran under the Go race detector (go build -race)")
	}
	start, calls := 0, 0
	raceSeen := false // after the first report the remaining rounds run on, looking for wrong results and crashes
	for attempt := 0; start < rounds && attempt < 20; attempt++ {
		cmd := exec.Command(bin, "-seed", fmt.Sprint(cfg.Seed), "-start", fmt.Sprint(start), "-rounds", fmt.Sprint(rounds))
		gorace := "GORACE=halt_on_error=1 history_size=2"
		if raceSeen {
			gorace = "GORACE=halt_on_error=0 history_size=1"
		}
		cmd.Env = append(os.Environ(), gorace)
		var stderr bytes.Buffer
		cmd.Stderr = &stderr
		stdout, err := cmd.StdoutPipe()
		if err != nil {
			return 0, err
		}
		if err := cmd.Start(); err != nil {
			return 0, err
		}
		// a real hang is reported by the worker's own watchdog within seconds; this is the backstop for a machine under heavy load
		timer := time.AfterFunc(time.Duration(240+rounds/2)*time.Second, func() { _ = cmd.Process.Kill() })
		last, ended, hung := start, false, false
		var running map[string]any
		sc := bufio.NewScanner(stdout)
		sc.Buffer(make([]byte, 1<<20), 1<<24)
		for sc.Scan() {
			var m map[string]json.RawMessage
			if json.Unmarshal(sc.Bytes(), &m) != nil {
				continue
			}
			if v, ok := m["begin"]; ok {
				_ = json.Unmarshal(v, &last)
				running = nil
			}
			if v, ok := m["running"]; ok {
				// what the worker is about to run (goroutines, calls, types): the input of a failure that ends the worker
				running = nil
				_ = json.Unmarshal(v, &running)
			}
			if v, ok := m["fail"]; ok {
				var f map[string]any
				_ = json.Unmarshal(v, &f)
				got, _ := json.Marshal(f["got"])
				want, _ := json.Marshal(f["want"])
				f["seed"] = cfg.Seed
				res.Count("race:result-differs")
				sig := "C10 concurrent first use: call result differs from the result of the call run alone"
				if g, ok := f["got"].(map[string]any); ok {
					if _, p := g["panic"]; p {
						sig = "C10 concurrent first use: call panics, unlike the call run alone"
					}
				}
				if f["mode"] == "retained-result" {
					// one goroutine, two consecutive encodes: the first result was read after the second call
					sig = "C10 encode result retained by the caller is overwritten by a later encode on the codec (the returned bytes are not the caller's own)"
				}
				res.Fail(vh.Failure{Case: caseBase + last, Stream: "goroutines", Sig: sig,
					Clause: "each call returns the same result it returns when run alone", Input: f, Got: string(got), Want: string(want)})
			}
			if v, ok := m["hang"]; ok {
				// the worker's watchdog: goroutines were running and no call completed for several seconds
				var h map[string]any
				_ = json.Unmarshal(v, &h)
				hung = true
				h["seed"] = cfg.Seed
				h["how"] = fmt.Sprintf("harness/cmd/run_conc/worker -seed %d -start %d -rounds %d (go build -race ./cmd/run_conc/worker)", cfg.Seed, last, last+1)
				blocked, _ := json.Marshal(h["blocked"])
				res.Count("race:hang")
				res.Fail(vh.Failure{Case: caseBase + last, Stream: "goroutines", Sig: "C10 concurrent calls on one codec stop returning: goroutines blocked for good (deadlock)",
					Clause: "concurrent calls complete without deadlock", Input: h, Got: string(blocked)})
			}
			if v, ok := m["end"]; ok {
				ended = true
				_ = v
				var n int
				_ = json.Unmarshal(m["calls"], &n)
				calls += n
			}
		}
		werr := cmd.Wait()
		timedOut := !timer.Stop()
		se := stderr.String()
		in := map[string]any{"seed": cfg.Seed, "round": last, "how": "harness/cmd/run_conc/worker -seed S -start ROUND -rounds ROUND+1 (built with -race)"}
		if running != nil {
			in["in_flight"] = running
		}
		if strings.Contains(se, "WARNING: DATA RACE") && !raceSeen {
			// halt_on_error=1: the worker stopped at the first report, in round [last]; that round
			// and the rest are run again without halting
			raceSeen = true
			res.Count("race:data-race-report")
			res.Fail(vh.Failure{Case: caseBase + last, Stream: "goroutines", Sig: "C10 concurrent first use: race detector report",
				Clause: "concurrent calls complete without data races", Input: in, Got: firstReport(se)})
			start = last
			continue
		}
		switch {
		case ended:
			start = rounds
		case hung:
			start = last + 1
		case timedOut:
			res.Count("race:timeout")
			res.Fail(vh.Failure{Case: caseBase + last, Stream: "goroutines", Sig: "C10 concurrent first use: worker does not finish (deadlock)",
				Clause: "concurrent calls complete without deadlock", Input: in, Got: tail(se, 1500)})
			start = last + 1
		default:
			res.Count("race:worker-crash")
			// the same signature as for a forced-schedule case whose process dies (isolate.go)
			sig := "C10 concurrent first use: worker crashed"
			if what := fatalLine(se); what != "" {
				sig = "C10 concurrent first use: process dies with " + what
			}
			in["frames_of_the_code_under_test"] = j5Frames(se, 12)
			res.Fail(vh.Failure{Case: caseBase + last, Stream: "goroutines", Sig: sig,
				Clause: "concurrent calls complete without runtime crashes", Input: in, Got: fmt.Sprintf("%v: %s", werr, tail(se, 1500))})
			start = last + 1
		}
	}
	res.Distribution["race:rounds"] = rounds
	res.Distribution["race:calls"] = calls
	return rounds, nil
}

func firstReport(se string) string {
	i := strings.Index(se, "WARNING: DATA RACE")
	s := se[i:]
	if j := strings.Index(s, "=================="); j > 0 {
		s = s[:j]
	}
	return tail2(s, 2500)
}

func tail(s string, n int) string {
	if len(s) > n {
		return s[len(s)-n:]
	}
	return s
}

func tail2(s string, n int) string {
	if len(s) > n {
		return s[:n]
	}
	return s
}

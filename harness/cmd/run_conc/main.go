// run_conc: implementation runner for the concurrency family (C10).
package main

import "verifharness/vh"

func main() { vh.Main() }

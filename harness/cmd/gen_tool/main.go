// gen_tool: translator for the tool family (coq/gen/SwaggerGen.v, coq/gen/PrintGen.v).
package main

import "verifharness/gen"

func main() { gen.Main() }

package main

import (
	"fmt"
	"go/ast"
	"go/token"
	"path/filepath"
	"sort"
	"strconv"
	"strings"

	"google.golang.org/protobuf/reflect/protoreflect"
	"google.golang.org/protobuf/types/descriptorpb"
	"verifharness/gen"
)

func init() { gen.Register("PrintGen.v", genPrint) }

func charVal(e ast.Expr) (int, bool) {
	bl, ok := e.(*ast.BasicLit)
	if !ok {
		return 0, false
	}
	switch bl.Kind {
	case token.CHAR:
		s, err := strconv.Unquote(bl.Value)
		if err != nil || len(s) == 0 {
			return 0, false
		}
		return int([]rune(s)[0]), true
	case token.INT:
		v, err := strconv.ParseInt(bl.Value, 0, 64)
		return int(v), err == nil
	}
	return 0, false
}

// litsIn lists the char/int literal values inside an expression, in source order.
func litsIn(n ast.Node) []int {
	var out []int
	ast.Inspect(n, func(m ast.Node) bool {
		if e, ok := m.(ast.Expr); ok {
			if v, ok := charVal(e); ok {
				out = append(out, v)
			}
		}
		return true
	})
	return out
}

func nList(xs []int) string {
	q := make([]string, len(xs))
	for i, x := range xs {
		q[i] = strconv.Itoa(x)
	}
	return "[" + strings.Join(q, "; ") + "]"
}

func genPrint(repo string) (string, error) {
	var sb strings.Builder
	sb.WriteString("From Coq Require Import String List NArith.\nImport ListNotations.\nLocal Open Scope string_scope.\nLocal Open Scope N_scope.\n")

	_, walk, err := gen.ParseFile(filepath.Join(repo, "internal/j5s/protoprint/optionreflect/walk.go"))
	if err != nil {
		return "", err
	}
	pts := funcDecl(walk, "prototextString")
	ine := funcDecl(walk, "indexNeedEscapeInString")
	ms := funcDecl(walk, "marshalSingular")
	if pts == nil || ine == nil || ms == nil {
		return "", fmt.Errorf("walk.go: prototextString/indexNeedEscapeInString/marshalSingular not found")
	}
	// outputASCII := true
	outputASCII := "?"
	ast.Inspect(pts.Body, func(n ast.Node) bool {
		if as, ok := n.(*ast.AssignStmt); ok && len(as.Lhs) == 1 {
			if id, ok := as.Lhs[0].(*ast.Ident); ok && id.Name == "outputASCII" {
				if v, ok := as.Rhs[0].(*ast.Ident); ok {
					outputASCII = v.Name
				}
			}
		}
		return true
	})
	// the switch on r inside the escape branch: case chars -> appended byte (single-byte appends only)
	type esc struct{ c, e int }
	var escs []esc
	var escapeCond []int
	ast.Inspect(pts.Body, func(n ast.Node) bool {
		sw, ok := n.(*ast.SwitchStmt)
		if !ok {
			return true
		}
		if id, ok := sw.Tag.(*ast.Ident); ok && id.Name == "r" {
			for _, c := range sw.Body.List {
				cc := c.(*ast.CaseClause)
				if cc.List == nil {
					continue
				}
				// the appended byte: out = append(out, 'n') or append(out, byte(r))
				app := -1
				ast.Inspect(cc, func(m ast.Node) bool {
					if ce, ok := m.(*ast.CallExpr); ok {
						if f, ok := ce.Fun.(*ast.Ident); ok && f.Name == "append" && len(ce.Args) == 2 {
							if v, ok := charVal(ce.Args[1]); ok {
								app = v
							} else {
								app = -2 // the character itself
							}
						}
					}
					return true
				})
				for _, e := range cc.List {
					if v, ok := charVal(e); ok {
						a := app
						if a == -2 {
							a = v
						}
						escs = append(escs, esc{v, a})
					}
				}
			}
			return false
		}
		// the tagless switch: its second case is the escape condition
		if sw.Tag == nil {
			for _, c := range sw.Body.List {
				cc := c.(*ast.CaseClause)
				if len(cc.List) == 1 && strings.Contains(exprString(cc.List[0]), "r.") && len(escapeCond) == 0 {
					lits := litsIn(cc.List[0])
					if len(lits) == 4 {
						escapeCond = lits
					}
				}
			}
		}
		return true
	})
	sort.Slice(escs, func(i, j int) bool { return escs[i].c < escs[j].c })
	sb.WriteString("(* internal/j5s/protoprint/optionreflect/walk.go prototextString *)\n")
	fmt.Fprintf(&sb, "Definition output_ascii : string := %s.\n", gen.CoqString(outputASCII))
	var rows []string
	for _, e := range escs {
		rows = append(rows, fmt.Sprintf("(%d, %d)", e.c, e.e))
	}
	sb.WriteString("(* the short escapes: character -> byte written after the backslash *)\n")
	fmt.Fprintf(&sb, "Definition short_escapes : list (N * N) := [%s].\n", strings.Join(rows, "; "))
	sb.WriteString("(* literals of the escape condition: r below space, r equal to double quote, backslash, 0x7f *)\n")
	fmt.Fprintf(&sb, "Definition escape_condition : list N := %s.\n", nList(escapeCond))
	fmt.Fprintf(&sb, "Definition index_need_escape_literals : list N := %s.\n", nList(litsIn(ine.Body)))

	// marshalSingular: kinds per arm and the strconv function used
	var armRows []string
	ast.Inspect(ms.Body, func(n ast.Node) bool {
		sw, ok := n.(*ast.SwitchStmt)
		if !ok {
			return true
		}
		if id, ok := sw.Tag.(*ast.Ident); !ok || id.Name != "kind" {
			return true
		}
		for _, c := range sw.Body.List {
			cc := c.(*ast.CaseClause)
			var kinds []string
			for _, e := range cc.List {
				kinds = append(kinds, typeName(e))
			}
			fn := ""
			ast.Inspect(cc, func(m ast.Node) bool {
				if ce, ok := m.(*ast.CallExpr); ok && fn == "" {
					switch f := ce.Fun.(type) {
					case *ast.SelectorExpr:
						if x, ok := f.X.(*ast.Ident); ok && x.Name == "strconv" {
							fn = "strconv." + f.Sel.Name
						}
					case *ast.Ident:
						if f.Name == "prototextString" || f.Name == "fFloat" {
							fn = f.Name
						}
					}
				}
				return true
			})
			for _, k := range kinds {
				armRows = append(armRows, fmt.Sprintf("(%s, %s)", gen.CoqString(k), gen.CoqString(fn)))
			}
		}
		return false
	})
	sb.WriteString("(* marshalSingular: field kind -> rendering function of the arm *)\n")
	fmt.Fprintf(&sb, "Definition marshal_arms : list (string * string) := [%s].\n", strings.Join(armRows, "; "))

	// contextRefName: the loop guard
	_, pp, err := gen.ParseFile(filepath.Join(repo, "internal/j5s/protoprint/protoprint.go"))
	if err != nil {
		return "", err
	}
	crn := funcDecl(pp, "contextRefName")
	if crn == nil {
		return "", fmt.Errorf("protoprint.go: contextRefName not found")
	}
	guard := "?"
	ast.Inspect(crn.Body, func(n ast.Node) bool {
		be, ok := n.(*ast.BinaryExpr)
		if !ok {
			return true
		}
		if ce, ok := be.X.(*ast.CallExpr); ok {
			if f, ok := ce.Fun.(*ast.Ident); ok && f.Name == "len" && len(ce.Args) == 1 && typeName(ce.Args[0]) == "refPath" {
				if bl, ok := be.Y.(*ast.BasicLit); ok {
					guard = be.Op.String() + " " + bl.Value
				}
			}
		}
		return true
	})
	sb.WriteString("(* protoprint.go contextRefName: the guard `len(refPath) <op> <n>` that stops the stripping *)\n")
	fmt.Fprintf(&sb, "Definition strip_guard : string := %s.\n", gen.CoqString(guard))

	// statementKeywords: the words a relative type name must not start with (fix 5e02f98)
	var kws []string
	for _, d := range pp.Decls {
		gd, ok := d.(*ast.GenDecl)
		if !ok || gd.Tok != token.VAR {
			continue
		}
		for _, sp := range gd.Specs {
			vs, ok := sp.(*ast.ValueSpec)
			if !ok || len(vs.Names) != 1 || vs.Names[0].Name != "statementKeywords" || len(vs.Values) != 1 {
				continue
			}
			cl, ok := vs.Values[0].(*ast.CompositeLit)
			if !ok {
				continue
			}
			for _, el := range cl.Elts {
				kv, ok := el.(*ast.KeyValueExpr)
				if !ok {
					continue
				}
				if bl, ok := kv.Key.(*ast.BasicLit); ok && bl.Kind == token.STRING {
					if v, ok := kv.Value.(*ast.Ident); ok && v.Name == "true" {
						k, _ := strconv.Unquote(bl.Value)
						kws = append(kws, k)
					}
				}
			}
		}
	}
	sort.Strings(kws)
	kwTerms := make([]string, len(kws))
	for i, k := range kws {
		kwTerms[i] = gen.NList([]byte(k))
	}
	sb.WriteString("(* protoprint.go statementKeywords (sorted): a relative type name starting with one of them is printed .full.Name *)\n")
	fmt.Fprintf(&sb, "Definition statement_keywords : list (list N) := [%s].\n", strings.Join(kwTerms, "; "))
	// the two uses in contextRefName
	kwUses := 0
	ast.Inspect(crn.Body, func(n ast.Node) bool {
		if ix, ok := n.(*ast.IndexExpr); ok && typeName(ix.X) == "statementKeywords" {
			kwUses++
		}
		return true
	})
	fmt.Fprintf(&sb, "Definition statement_keyword_checks : N := %d.\n", kwUses)

	// OptionsFor: option field number per parent kind, against descriptor.proto
	_, bld, err := gen.ParseFile(filepath.Join(repo, "internal/j5s/protoprint/optionreflect/builder.go"))
	if err != nil {
		return "", err
	}
	var of *ast.FuncDecl
	for _, d := range bld.Decls {
		if fd, ok := d.(*ast.FuncDecl); ok && fd.Name.Name == "OptionsFor" {
			of = fd
		}
	}
	if of == nil {
		return "", fmt.Errorf("builder.go: OptionsFor not found")
	}
	var optRows, descRows []string
	descOf := map[string]protoreflect.MessageDescriptor{
		"MessageDescriptor":   (&descriptorpb.DescriptorProto{}).ProtoReflect().Descriptor(),
		"FieldDescriptor":     (&descriptorpb.FieldDescriptorProto{}).ProtoReflect().Descriptor(),
		"MethodDescriptor":    (&descriptorpb.MethodDescriptorProto{}).ProtoReflect().Descriptor(),
		"ServiceDescriptor":   (&descriptorpb.ServiceDescriptorProto{}).ProtoReflect().Descriptor(),
		"EnumDescriptor":      (&descriptorpb.EnumDescriptorProto{}).ProtoReflect().Descriptor(),
		"EnumValueDescriptor": (&descriptorpb.EnumValueDescriptorProto{}).ProtoReflect().Descriptor(),
		"OneofDescriptor":     (&descriptorpb.OneofDescriptorProto{}).ProtoReflect().Descriptor(),
	}
	ast.Inspect(of.Body, func(n ast.Node) bool {
		ts, ok := n.(*ast.TypeSwitchStmt)
		if !ok {
			return true
		}
		for _, c := range ts.Body.List {
			cc := c.(*ast.CaseClause)
			num := -1
			ast.Inspect(cc, func(m ast.Node) bool {
				if as, ok := m.(*ast.AssignStmt); ok && len(as.Rhs) == 1 {
					if v, ok := charVal(as.Rhs[0]); ok {
						num = v
					}
				}
				return true
			})
			for _, e := range cc.List {
				k := typeName(e)
				optRows = append(optRows, fmt.Sprintf("(%s, %d)", gen.CoqString(k), num))
				if md, ok := descOf[k]; ok {
					descRows = append(descRows, fmt.Sprintf("(%s, %d)", gen.CoqString(k), md.Fields().ByName("options").Number()))
				}
			}
		}
		return false
	})
	sb.WriteString("(* optionreflect/builder.go OptionsFor: number of the options field per parent kind, and the same read from descriptor.proto *)\n")
	fmt.Fprintf(&sb, "Definition options_field_numbers : list (string * N) := [%s].\n", strings.Join(optRows, "; "))
	fmt.Fprintf(&sb, "Definition descriptor_options_numbers : list (string * N) := [%s].\n", strings.Join(descRows, "; "))
	return sb.String(), nil
}

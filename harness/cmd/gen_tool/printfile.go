package main

// PrintFileGen.v: the tables and the source text of the decision functions of the file layer of
// protoprint (element order, option order, Simplify), read from /repo on every run.

import (
	"bytes"
	"fmt"
	"go/ast"
	"go/printer"
	"go/token"
	"path/filepath"
	"strconv"
	"strings"

	"verifharness/gen"
)

func init() { gen.Register("PrintFileGen.v", genPrintFile) }

// methodDecl finds func (recv T) name.
func methodDecl(f *ast.File, recv, name string) *ast.FuncDecl {
	for _, d := range f.Decls {
		fd, ok := d.(*ast.FuncDecl)
		if !ok || fd.Name.Name != name || fd.Recv == nil || len(fd.Recv.List) != 1 {
			continue
		}
		if typeName(fd.Recv.List[0].Type) == recv {
			return fd
		}
	}
	return nil
}

// bodyText prints a function body with go/printer and collapses white space.
func bodyText(fset *token.FileSet, fd *ast.FuncDecl) string {
	var buf bytes.Buffer
	_ = printer.Fprint(&buf, fset, fd.Body)
	return strings.Join(strings.Fields(buf.String()), " ")
}

func coqStrings(xs []string) string {
	q := make([]string, len(xs))
	for i, x := range xs {
		q[i] = gen.CoqString(x)
	}
	return "[" + strings.Join(q, "; ") + "]"
}

func genPrintFile(repo string) (string, error) {
	var sb strings.Builder
	sb.WriteString("From Coq Require Import String List NArith.\nImport ListNotations.\nLocal Open Scope string_scope.\nLocal Open Scope N_scope.\n")
	dir := filepath.Join(repo, "internal/j5s/protoprint")

	// ---- elements.go: typeOrder per descriptor type, and Less
	efs, el, err := gen.ParseFile(filepath.Join(dir, "elements.go"))
	if err != nil {
		return "", err
	}
	add := methodDecl(el, "sourceElements", "add")
	less := methodDecl(el, "sourceElements", "Less")
	if add == nil || less == nil {
		return "", fmt.Errorf("elements.go: sourceElements.add / Less not found")
	}
	initial := "?"
	var rows []string
	ast.Inspect(add.Body, func(n ast.Node) bool {
		switch t := n.(type) {
		case *ast.AssignStmt:
			if len(t.Lhs) == 1 && typeName(t.Lhs[0]) == "typeOrder" && t.Tok == token.DEFINE {
				if bl, ok := t.Rhs[0].(*ast.BasicLit); ok {
					initial = bl.Value
				}
			}
		case *ast.TypeSwitchStmt:
			for _, c := range t.Body.List {
				cc := c.(*ast.CaseClause)
				val := "?"
				for _, st := range cc.Body {
					if as, ok := st.(*ast.AssignStmt); ok && len(as.Lhs) == 1 && typeName(as.Lhs[0]) == "typeOrder" {
						if bl, ok := as.Rhs[0].(*ast.BasicLit); ok {
							val = bl.Value
						}
					}
				}
				for _, e := range cc.List {
					rows = append(rows, fmt.Sprintf("(%s, %s)", gen.CoqString(typeName(e)), val))
				}
			}
			return false
		}
		return true
	})
	if _, err := strconv.Atoi(initial); err != nil {
		return "", fmt.Errorf("elements.go: initial typeOrder not a literal")
	}
	sb.WriteString("(* elements.go sourceElements.add: typeOrder of the descriptor types with an arm, and of every other type *)\n")
	fmt.Fprintf(&sb, "Definition type_orders : list (string * N) := [%s].\n", strings.Join(rows, "; "))
	fmt.Fprintf(&sb, "Definition type_order_default : N := %s.\n", initial)
	sb.WriteString("(* elements.go sourceElements.Less, as printed by go/printer *)\n")
	fmt.Fprintf(&sb, "Definition less_source : string := %s.\n", gen.CoqString(bodyText(efs, less)))

	// ---- types.go: the order in which printMessage / printFile add the elements of a body
	_, ty, err := gen.ParseFile(filepath.Join(dir, "types.go"))
	if err != nil {
		return "", err
	}
	_, pp, err := gen.ParseFile(filepath.Join(dir, "protoprint.go"))
	if err != nil {
		return "", err
	}
	addOrder := func(fd *ast.FuncDecl) []string {
		// the collection each `elements.add(x.Get(idx))` ranges over, in source order
		var out []string
		ast.Inspect(fd.Body, func(n ast.Node) bool {
			ce, ok := n.(*ast.CallExpr)
			if !ok {
				return true
			}
			se, ok := ce.Fun.(*ast.SelectorExpr)
			if !ok || se.Sel.Name != "add" || len(ce.Args) != 1 {
				return true
			}
			switch a := ce.Args[0].(type) {
			case *ast.CallExpr:
				if g, ok := a.Fun.(*ast.SelectorExpr); ok && g.Sel.Name == "Get" {
					out = append(out, typeName(g.X))
				}
			case *ast.Ident:
				out = append(out, a.Name)
			}
			return true
		})
		return out
	}
	pm := methodDecl(ty, "fileBuilder", "printMessage")
	pf := methodDecl(pp, "fileBuilder", "printFile")
	if pm == nil || pf == nil {
		return "", fmt.Errorf("printMessage / printFile not found")
	}
	sb.WriteString("(* the order in which the elements of a body are added before sorting *)\n")
	fmt.Fprintf(&sb, "Definition message_add_order : list string := %s.\n", coqStrings(addOrder(pm)))
	fmt.Fprintf(&sb, "Definition file_add_order : list string := %s.\n", coqStrings(addOrder(pf)))
	// the kinds of file options printFile prints
	var kinds []string
	ast.Inspect(pf.Body, func(n ast.Node) bool {
		sw, ok := n.(*ast.SwitchStmt)
		if !ok {
			return true
		}
		for _, c := range sw.Body.List {
			for _, e := range c.(*ast.CaseClause).List {
				kinds = append(kinds, typeName(e))
			}
		}
		return false
	})
	fmt.Fprintf(&sb, "Definition file_option_kinds : list string := %s.\n", coqStrings(kinds))
	// printField: the label words
	pfld := methodDecl(ty, "fileBuilder", "printField")
	var labels []string
	if pfld != nil {
		ast.Inspect(pfld.Body, func(n ast.Node) bool {
			if as, ok := n.(*ast.AssignStmt); ok && len(as.Lhs) == 1 && typeName(as.Lhs[0]) == "label" {
				if bl, ok := as.Rhs[0].(*ast.BasicLit); ok && bl.Kind == token.STRING {
					s, _ := strconv.Unquote(bl.Value)
					labels = append(labels, s)
				}
			}
			return true
		})
	}
	fmt.Fprintf(&sb, "Definition label_words : list string := %s.\n", coqStrings(labels))

	// ---- options.go: parseOption (default depth, the names that are not simplified), optionsFor sort key
	ofs, op, err := gen.ParseFile(filepath.Join(dir, "options.go"))
	if err != nil {
		return "", err
	}
	po := funcDecl(op, "parseOption")
	if po == nil {
		return "", fmt.Errorf("options.go: parseOption not found")
	}
	depthDefault := "?"
	var noSimplify []string
	ast.Inspect(po.Body, func(n ast.Node) bool {
		switch t := n.(type) {
		case *ast.AssignStmt:
			if len(t.Lhs) == 1 && typeName(t.Lhs[0]) == "maxDepth" && t.Tok == token.ASSIGN {
				if bl, ok := t.Rhs[0].(*ast.BasicLit); ok {
					depthDefault = bl.Value
				}
			}
		case *ast.IfStmt:
			// if opt.Desc.FullName() == "name" { simplify = false }
			if be, ok := t.Cond.(*ast.BinaryExpr); ok && be.Op == token.EQL {
				if bl, ok := be.Y.(*ast.BasicLit); ok && bl.Kind == token.STRING {
					sets := false
					for _, st := range t.Body.List {
						if as, ok := st.(*ast.AssignStmt); ok && len(as.Lhs) == 1 && typeName(as.Lhs[0]) == "simplify" {
							if id, ok := as.Rhs[0].(*ast.Ident); ok && id.Name == "false" {
								sets = true
							}
						}
					}
					if sets {
						s, _ := strconv.Unquote(bl.Value)
						noSimplify = append(noSimplify, s)
					}
				}
			}
		}
		return true
	})
	sb.WriteString("(* options.go parseOption: the depth passed to Simplify when the option is in no table, and the options that are never simplified *)\n")
	fmt.Fprintf(&sb, "Definition simplify_default_depth : N := %s.\n", depthDefault)
	fmt.Fprintf(&sb, "Definition never_simplified : list string := %s.\n", coqStrings(noSimplify))
	if of := methodDecl(op, "fileBuilder", "optionsFor"); of != nil {
		sb.WriteString("(* options.go optionsFor, as printed by go/printer *)\n")
		fmt.Fprintf(&sb, "Definition options_for_source : string := %s.\n", gen.CoqString(bodyText(ofs, of)))
	} else {
		return "", fmt.Errorf("options.go: optionsFor not found")
	}

	// ---- optionreflect: Simplify and optionsByLocation.Less
	ofs2, od, err := gen.ParseFile(filepath.Join(dir, "optionreflect/option.go"))
	if err != nil {
		return "", err
	}
	simp := methodDecl(od, "OptionDefinition", "Simplify")
	if simp == nil {
		return "", fmt.Errorf("option.go: Simplify not found")
	}
	sb.WriteString("(* optionreflect/option.go Simplify, as printed by go/printer *)\n")
	fmt.Fprintf(&sb, "Definition simplify_source : string := %s.\n", gen.CoqString(bodyText(ofs2, simp)))
	bfs, bd, err := gen.ParseFile(filepath.Join(dir, "optionreflect/builder.go"))
	if err != nil {
		return "", err
	}
	ol := methodDecl(bd, "optionsByLocation", "Less")
	if ol == nil {
		return "", fmt.Errorf("builder.go: optionsByLocation.Less not found")
	}
	sb.WriteString("(* optionreflect/builder.go optionsByLocation.Less, as printed by go/printer *)\n")
	fmt.Fprintf(&sb, "Definition option_less_source : string := %s.\n", gen.CoqString(bodyText(bfs, ol)))
	return sb.String(), nil
}

package main

import (
	"fmt"
	"go/ast"
	"go/token"
	"path/filepath"
	"reflect"
	"regexp"
	"sort"
	"strconv"
	"strings"

	"verifharness/gen"
)

func init() { gen.Register("SwaggerGen.v", genSwagger) }

func funcDecl(f *ast.File, name string) *ast.FuncDecl {
	for _, d := range f.Decls {
		if fd, ok := d.(*ast.FuncDecl); ok && fd.Name.Name == name {
			return fd
		}
	}
	return nil
}

// typeName renders *pkg.T / pkg.T / T as "T".
func typeName(e ast.Expr) string {
	switch t := e.(type) {
	case *ast.StarExpr:
		return typeName(t.X)
	case *ast.SelectorExpr:
		return t.Sel.Name
	case *ast.Ident:
		return t.Name
	}
	return "?"
}

// switchArms returns the case type names of the first type switch in body whose
// tag expression (printed) contains tagHint; clauses of nested switches are not included.
func switchArms(body ast.Node, tagHint string) (arms []string, hasDefault bool, found bool) {
	ast.Inspect(body, func(n ast.Node) bool {
		if found {
			return false
		}
		ts, ok := n.(*ast.TypeSwitchStmt)
		if !ok {
			return true
		}
		if !strings.Contains(exprString(ts.Assign), tagHint) {
			return true
		}
		found = true
		for _, c := range ts.Body.List {
			cc := c.(*ast.CaseClause)
			if cc.List == nil {
				hasDefault = true
			}
			for _, e := range cc.List {
				arms = append(arms, typeName(e))
			}
		}
		return false
	})
	return
}

func exprString(n ast.Node) string {
	var sb strings.Builder
	ast.Inspect(n, func(m ast.Node) bool {
		switch t := m.(type) {
		case *ast.Ident:
			sb.WriteString(t.Name)
			sb.WriteByte('.')
		}
		return true
	})
	return sb.String()
}

func coqStrList(xs []string) string {
	q := make([]string, len(xs))
	for i, x := range xs {
		q[i] = gen.CoqString(x)
	}
	return "[" + strings.Join(q, "; ") + "]"
}

var tagName = regexp.MustCompile(`name=([A-Za-z0-9_]+)`)

// oneofWrappers maps Go wrapper struct names (Field_String_) of message msg to proto field names, read from
// the struct tags of the generated code.
func oneofWrappers(f *ast.File, msg string) map[string]string {
	out := map[string]string{}
	for _, d := range f.Decls {
		gd, ok := d.(*ast.GenDecl)
		if !ok || gd.Tok != token.TYPE {
			continue
		}
		for _, sp := range gd.Specs {
			ts := sp.(*ast.TypeSpec)
			st, ok := ts.Type.(*ast.StructType)
			if !ok || !strings.HasPrefix(ts.Name.Name, msg+"_") || len(st.Fields.List) != 1 {
				continue
			}
			fl := st.Fields.List[0]
			if fl.Tag == nil {
				continue
			}
			tag, err := strconv.Unquote(fl.Tag.Value)
			if err != nil {
				continue
			}
			pb := reflect.StructTag(tag).Get("protobuf")
			if !strings.Contains(pb, "oneof") {
				continue
			}
			if m := tagName.FindStringSubmatch(pb); m != nil {
				out[ts.Name.Name] = m[1]
			}
		}
	}
	return out
}

// callStringArgs lists, in source order, the string literal in argument position arg of every call
// to pkg.fn inside node.
func callStringArgs(node ast.Node, pkg, fn string, arg int) []string {
	var out []string
	ast.Inspect(node, func(n ast.Node) bool {
		ce, ok := n.(*ast.CallExpr)
		if !ok {
			return true
		}
		se, ok := ce.Fun.(*ast.SelectorExpr)
		if !ok || se.Sel.Name != fn {
			return true
		}
		if id, ok := se.X.(*ast.Ident); !ok || id.Name != pkg {
			return true
		}
		if arg < len(ce.Args) {
			if bl, ok := ce.Args[arg].(*ast.BasicLit); ok && bl.Kind == token.STRING {
				if s, err := strconv.Unquote(bl.Value); err == nil {
					out = append(out, s)
				}
			}
		}
		return true
	})
	return out
}

// binaryStringOperands lists string literals that are the right operand of `+` or of ==/!= inside node.
func plusLiterals(node ast.Node) []string {
	var out []string
	ast.Inspect(node, func(n ast.Node) bool {
		be, ok := n.(*ast.BinaryExpr)
		if !ok {
			return true
		}
		if bl, ok := be.Y.(*ast.BasicLit); ok && bl.Kind == token.STRING {
			if s, err := strconv.Unquote(bl.Value); err == nil {
				out = append(out, be.Op.String()+" "+s)
			}
		}
		return true
	})
	return out
}

func genSwagger(repo string) (string, error) {
	var sb strings.Builder
	sb.WriteString("From Coq Require Import String List.\nImport ListNotations.\nLocal Open Scope string_scope.\n")

	// ---- convertSchema arms vs Field alternatives
	_, conv, err := gen.ParseFile(filepath.Join(repo, "internal/export/convert.go"))
	if err != nil {
		return "", err
	}
	_, pb, err := gen.ParseFile(filepath.Join(repo, "gen/j5/schema/v1/schema_j5pb/schema.pb.go"))
	if err != nil {
		return "", err
	}
	wrappers := oneofWrappers(pb, "Field")
	if len(wrappers) == 0 {
		return "", fmt.Errorf("schema.pb.go: no oneof wrappers for Field found")
	}
	var alts []string
	for _, v := range wrappers {
		alts = append(alts, v)
	}
	sort.Strings(alts)
	cs := funcDecl(conv, "convertSchema")
	if cs == nil {
		return "", fmt.Errorf("convert.go: func convertSchema not found")
	}
	arms, hasDefault, ok := switchArms(cs.Body, "schema.Type")
	if !ok {
		return "", fmt.Errorf("convert.go: type switch on schema.Type not found in convertSchema")
	}
	var armNames []string
	for _, a := range arms {
		n, ok := wrappers[a]
		if !ok {
			return "", fmt.Errorf("convert.go: convertSchema arm %s is not a Field oneof wrapper", a)
		}
		armNames = append(armNames, n)
	}
	sort.Strings(armNames)
	sb.WriteString("(* gen/j5/schema/v1/schema_j5pb/schema.pb.go: alternatives of j5.schema.v1.Field.type (oneof wrapper structs) *)\n")
	fmt.Fprintf(&sb, "Definition field_alternatives : list string := %s.\n", coqStrList(alts))
	sb.WriteString("(* internal/export/convert.go convertSchema: case arms of the switch on schema.Type, as Field.type alternative names *)\n")
	fmt.Fprintf(&sb, "Definition convert_schema_arms : list string := %s.\n", coqStrList(armNames))
	fmt.Fprintf(&sb, "Definition convert_schema_default_is_error : bool := %v.\n", hasDefault)

	// ---- ConvertRootSchema arms
	crs := funcDecl(conv, "ConvertRootSchema")
	if crs == nil {
		return "", fmt.Errorf("convert.go: func ConvertRootSchema not found")
	}
	rw := oneofWrappers(pb, "RootSchema")
	rarms, _, ok := switchArms(crs.Body, "schema.Type")
	if !ok {
		return "", fmt.Errorf("convert.go: type switch not found in ConvertRootSchema")
	}
	var rnames, ralts []string
	for _, a := range rarms {
		rnames = append(rnames, rw[a])
	}
	for _, v := range rw {
		ralts = append(ralts, v)
	}
	sort.Strings(rnames)
	sort.Strings(ralts)
	fmt.Fprintf(&sb, "Definition root_alternatives : list string := %s.\n", coqStrList(ralts))
	fmt.Fprintf(&sb, "Definition convert_root_arms : list string := %s.\n", coqStrList(rnames))

	// ---- addStructure suffix dispatch, buildMethod conventions
	_, bp, err := gen.ParseFile(filepath.Join(repo, "internal/structure/build_package.go"))
	if err != nil {
		return "", err
	}
	as := funcDecl(bp, "addStructure")
	bm := funcDecl(bp, "buildMethod")
	btm := funcDecl(bp, "buildTopicMethod")
	if as == nil || bm == nil || btm == nil {
		return "", fmt.Errorf("build_package.go: addStructure/buildMethod/buildTopicMethod not found")
	}
	sb.WriteString("(* internal/structure/build_package.go addStructure: strings.HasSuffix literals in source order *)\n")
	fmt.Fprintf(&sb, "Definition add_structure_suffixes : list string := %s.\n", coqStrList(callStringArgs(as.Body, "strings", "HasSuffix", 1)))
	sb.WriteString("(* buildMethod / buildTopicMethod: string literals that are right operands of a binary operator (op, literal) *)\n")
	fmt.Fprintf(&sb, "Definition build_method_literals : list string := %s.\n", coqStrList(plusLiterals(bm.Body)))
	fmt.Fprintf(&sb, "Definition build_topic_method_literals : list string := %s.\n", coqStrList(plusLiterals(btm.Body)))
	harms, _, ok := switchArms(bm.Body, "httpOpt.Pattern")
	if !ok {
		return "", fmt.Errorf("build_package.go: switch on httpOpt.Pattern not found")
	}
	sb.WriteString("(* buildMethod: arms of the switch on httpOpt.Pattern, in source order *)\n")
	fmt.Fprintf(&sb, "Definition http_rule_arms : list string := %s.\n", coqStrList(harms))
	fmt.Fprintf(&sb, "Definition invalid_path_chars : list string := %s.\n", coqStrList(callStringArgs(bm.Body, "strings", "ContainsAny", 1)))

	// ---- fillRequest: HasBody expression and the ":" prefix
	_, pfs, err := gen.ParseFile(filepath.Join(repo, "internal/j5client/package_from_source.go"))
	if err != nil {
		return "", err
	}
	mfs := funcDecl(pfs, "methodFromSource")
	fr := funcDecl(pfs, "fillRequest")
	if mfs == nil || fr == nil {
		return "", fmt.Errorf("package_from_source.go: methodFromSource/fillRequest not found")
	}
	hasBody := "?"
	ast.Inspect(mfs.Body, func(n ast.Node) bool {
		kv, ok := n.(*ast.KeyValueExpr)
		if !ok {
			return true
		}
		if id, ok := kv.Key.(*ast.Ident); ok && id.Name == "HasBody" {
			if be, ok := kv.Value.(*ast.BinaryExpr); ok {
				hasBody = typeName(be.X) + " " + be.Op.String() + " " + typeName(be.Y)
			} else {
				hasBody = "not a binary expression"
			}
		}
		return true
	})
	sb.WriteString("(* internal/j5client/package_from_source.go methodFromSource: the HasBody expression *)\n")
	fmt.Fprintf(&sb, "Definition has_body_expr : string := %s.\n", gen.CoqString(hasBody))
	fmt.Fprintf(&sb, "Definition fill_request_prefixes : list string := %s.\n",
		coqStrList(append(callStringArgs(fr.Body, "strings", "HasPrefix", 1), callStringArgs(fr.Body, "strings", "TrimPrefix", 1)...)))
	fmt.Fprintf(&sb, "Definition fill_request_split : list string := %s.\n", coqStrList(callStringArgs(fr.Body, "strings", "Split", 1)))

	// ---- collectPackageRefs walkRefs arms; walkSchemaFields descent arms
	_, jp, err := gen.ParseFile(filepath.Join(repo, "internal/j5client/j5package.go"))
	if err != nil {
		return "", err
	}
	cpr := funcDecl(jp, "collectPackageRefs")
	if cpr == nil {
		return "", fmt.Errorf("j5package.go: collectPackageRefs not found")
	}
	var allSwitches [][]string
	ast.Inspect(cpr.Body, func(n ast.Node) bool {
		if ts, ok := n.(*ast.TypeSwitchStmt); ok {
			var a []string
			for _, c := range ts.Body.List {
				for _, e := range c.(*ast.CaseClause).List {
					a = append(a, typeName(e))
				}
			}
			allSwitches = append(allSwitches, a)
		}
		return true
	})
	sb.WriteString("(* internal/j5client/j5package.go collectPackageRefs: arms of its type switches (root schema kinds; field kinds) *)\n")
	for i, a := range allSwitches {
		fmt.Fprintf(&sb, "Definition collect_refs_switch_%d : list string := %s.\n", i, coqStrList(a))
	}
	_, sw, err := gen.ParseFile(filepath.Join(repo, "lib/j5schema/schema_walk.go"))
	if err != nil {
		return "", err
	}
	wsf := funcDecl(sw, "walkSchemaFields")
	if wsf == nil {
		return "", fmt.Errorf("schema_walk.go: walkSchemaFields not found")
	}
	i := 0
	ast.Inspect(wsf.Body, func(n ast.Node) bool {
		if ts, ok := n.(*ast.TypeSwitchStmt); ok {
			var a []string
			for _, c := range ts.Body.List {
				for _, e := range c.(*ast.CaseClause).List {
					a = append(a, typeName(e))
				}
			}
			fmt.Fprintf(&sb, "Definition walk_fields_switch_%d : list string := %s.\n", i, coqStrList(a))
			i++
		}
		return true
	})
	// number of parameters of walkSchemaFields (a cycle guard adds one)
	np := 0
	for _, p := range wsf.Type.Params.List {
		if len(p.Names) == 0 {
			np++
		}
		np += len(p.Names)
	}
	fmt.Fprintf(&sb, "Definition walk_fields_params : nat := %d.\n", np)

	// ---- buildListRequest: the callback's switch on the scalar field type: per arm the add* calls in its body
	_, lst, err := gen.ParseFile(filepath.Join(repo, "internal/j5client/list.go"))
	if err != nil {
		return "", err
	}
	bl := funcDecl(lst, "buildListRequest")
	if bl == nil {
		return "", fmt.Errorf("list.go: func buildListRequest not found")
	}
	type listArm struct {
		alt   string
		calls []string
	}
	var larms []listArm
	enumCalls := []string{}
	ast.Inspect(bl.Body, func(n ast.Node) bool {
		ts, ok := n.(*ast.TypeSwitchStmt)
		if !ok {
			return true
		}
		tag := exprString(ts.Assign)
		for _, st := range ts.Body.List {
			cc, ok := st.(*ast.CaseClause)
			if !ok || len(cc.List) == 0 {
				continue
			}
			tn := typeName(cc.List[0])
			calls := map[string]bool{}
			for _, b := range cc.Body {
				ast.Inspect(b, func(m ast.Node) bool {
					if _, inner := m.(*ast.TypeSwitchStmt); inner {
						return false // the nested switch has its own arms
					}
					if ce, ok := m.(*ast.CallExpr); ok {
						if id, ok := ce.Fun.(*ast.Ident); ok && strings.HasPrefix(id.Name, "add") {
							calls[id.Name] = true
						}
						// the enum arm appends to out.FilterableFields itself
						if id, ok := ce.Fun.(*ast.Ident); ok && id.Name == "append" && len(ce.Args) > 0 && strings.Contains(exprString(ce.Args[0]), "FilterableFields") {
							calls["addFilter"] = true
						}
					}
					return true
				})
			}
			var cl []string
			for _, c := range []string{"addFilter", "addSort", "addSearch"} {
				if calls[c] {
					cl = append(cl, c)
				}
			}
			switch {
			case strings.Contains(tag, "Proto.Type"):
				alt := strings.ToLower(strings.TrimSuffix(strings.TrimPrefix(tn, "Field_"), "_"))
				larms = append(larms, listArm{alt: alt, calls: cl})
			case tn == "EnumField":
				enumCalls = cl
			}
		}
		return true
	})
	if len(larms) == 0 {
		return "", fmt.Errorf("list.go: the switch on st.Proto.Type was not found in buildListRequest")
	}
	sb.WriteString("(* internal/j5client/list.go buildListRequest: per arm of the switch on the scalar field type (source order) the add* functions its body calls; the EnumField arm *)\n")
	var lparts []string
	for _, a := range larms {
		lparts = append(lparts, fmt.Sprintf("(%s, %s)", gen.CoqString(a.alt), coqStrList(a.calls)))
	}
	fmt.Fprintf(&sb, "Definition list_scalar_arms : list (string * list string) := [%s].\n", strings.Join(lparts, "; "))
	fmt.Fprintf(&sb, "Definition list_enum_arm : list string := %s.\n", coqStrList(enumCalls))
	return sb.String(), nil
}

package main

import (
	"fmt"
	"go/ast"
	"go/token"
	"sort"
	"strconv"

	"path/filepath"
	"strings"
	"verifharness/gen"
)

// packageLevel lists the package-level variables and the functions of a file.
func packageLevel(f *ast.File) (vars map[string]bool, specs map[*ast.ValueSpec]bool, funcs map[string]*ast.FuncDecl) {
	vars, specs, funcs = map[string]bool{}, map[*ast.ValueSpec]bool{}, map[string]*ast.FuncDecl{}
	for _, d := range f.Decls {
		switch x := d.(type) {
		case *ast.GenDecl:
			if x.Tok != token.VAR {
				continue
			}
			for _, sp := range x.Specs {
				if vs, ok := sp.(*ast.ValueSpec); ok {
					specs[vs] = true
					for _, n := range vs.Names {
						vars[n.Name] = true
					}
				}
			}
		case *ast.FuncDecl:
			if x.Recv == nil {
				funcs[x.Name.Name] = x
			}
		}
	}
	return
}

// stateRefs: the package-level variables of the file that fn reads or writes, directly or through the
// package's own plain functions it calls (transitively), as "var:<name>"; and the calls it makes, as
// "call:<selector or name>", in source order of the function itself.
func stateRefs(f *ast.File, fn string) (refs []string, calls []string) {
	vars, specs, funcs := packageLevel(f)
	seenFn := map[string]bool{}
	seenRef := map[string]bool{}
	var visitFn func(name string, top bool)
	visitFn = func(name string, top bool) {
		fd := funcs[name]
		if fd == nil || fd.Body == nil || seenFn[name] {
			return
		}
		seenFn[name] = true
		ast.Inspect(fd.Body, func(n ast.Node) bool {
			switch x := n.(type) {
			case *ast.Ident:
				if !vars[x.Name] {
					return true
				}
				pkgLevel := x.Obj == nil
				if x.Obj != nil {
					if vs, ok := x.Obj.Decl.(*ast.ValueSpec); ok && specs[vs] {
						pkgLevel = true
					}
				}
				if pkgLevel && !seenRef[x.Name] {
					seenRef[x.Name] = true
					refs = append(refs, "var:"+x.Name)
				}
			case *ast.CallExpr:
				switch c := x.Fun.(type) {
				case *ast.Ident:
					if top {
						calls = append(calls, "call:"+c.Name)
					}
					if _, ok := funcs[c.Name]; ok && c.Obj != nil {
						if _, isFn := c.Obj.Decl.(*ast.FuncDecl); isFn {
							visitFn(c.Name, false)
						}
					}
				case *ast.SelectorExpr:
					if id, ok := c.X.(*ast.Ident); ok && top {
						calls = append(calls, "call:"+id.Name+"."+c.Sel.Name)
					}
				}
			case *ast.GoStmt:
				refs = append(refs, "go-statement")
			}
			return true
		})
	}
	visitFn(fn, true)
	sort.Strings(refs)
	return
}

// readerTable: the entries of `var wellKnownStringPatterns = map[string]string{...}` with keys and values
// resolved (string literals, constants of the file, id62.PatternString = pat).
func readerTable(f *ast.File, pat string) ([][2]string, error) {
	var out [][2]string
	found := false
	resolve := func(e ast.Expr) (string, bool) {
		switch x := e.(type) {
		case *ast.BasicLit:
			if x.Kind == token.STRING {
				s, err := strconv.Unquote(x.Value)
				return s, err == nil
			}
		case *ast.Ident:
			return gen.StringVar(f, x.Name)
		case *ast.SelectorExpr:
			if id, ok := x.X.(*ast.Ident); ok && id.Name == "id62" && x.Sel.Name == "PatternString" {
				return pat, true
			}
		}
		return "", false
	}
	var err error
	ast.Inspect(f, func(n ast.Node) bool {
		vs, ok := n.(*ast.ValueSpec)
		if !ok || len(vs.Names) != 1 || vs.Names[0].Name != "wellKnownStringPatterns" || len(vs.Values) != 1 {
			return true
		}
		cl, ok := vs.Values[0].(*ast.CompositeLit)
		if !ok {
			return true
		}
		found = true
		for _, el := range cl.Elts {
			kv, ok := el.(*ast.KeyValueExpr)
			if !ok {
				err = fmt.Errorf("wellKnownStringPatterns: element is not key: value")
				return false
			}
			k, ok1 := resolve(kv.Key)
			v, ok2 := resolve(kv.Value)
			if !ok1 || !ok2 {
				err = fmt.Errorf("wellKnownStringPatterns: entry cannot be resolved to strings")
				return false
			}
			out = append(out, [2]string{k, v})
		}
		return false
	})
	if err == nil && !found {
		err = fmt.Errorf("schema_from_proto.go: wellKnownStringPatterns is not a map literal variable")
	}
	return out, err
}

func init() { gen.Register("Id62Gen.v", genId62) }

// Id62Gen.v: the published pattern string, and how the compiler (writer) and
// the schema reader refer to it.
func genId62(repo string) (string, error) {
	_, f, err := gen.ParseFile(filepath.Join(repo, "lib/id62/uuid62.go"))
	if err != nil {
		return "", err
	}
	pat, ok := gen.StringVar(f, "PatternString")
	if !ok {
		return "", fmt.Errorf("lib/id62/uuid62.go: PatternString is not a string literal variable")
	}
	_, w, err := gen.ParseFile(filepath.Join(repo, "internal/j5s/j5convert/fields.go"))
	if err != nil {
		return "", err
	}
	_, r, err := gen.ParseFile(filepath.Join(repo, "lib/j5schema/schema_from_proto.go"))
	if err != nil {
		return "", err
	}
	var sb strings.Builder
	sb.WriteString("From Coq Require Import String List NArith.\nImport ListNotations.\nLocal Open Scope string_scope.\nLocal Open Scope N_scope.\n")
	fmt.Fprintf(&sb, "(* lib/id62/uuid62.go: var PatternString = %q *)\n", pat)
	fmt.Fprintf(&sb, "Definition pattern_string : list N := %s.\n", gen.NList([]byte(pat)))
	sb.WriteString("(* references to id62.PatternString in the compiler (fields.go) and the reader (schema_from_proto.go),\n   and literal copies of the pattern text in either *)\n")
	fmt.Fprintf(&sb, "Definition writer_refs : N := %d.\n", gen.CountSelector(w, "id62", "PatternString"))
	fmt.Fprintf(&sb, "Definition reader_refs : N := %d.\n", gen.CountSelector(r, "id62", "PatternString"))
	fmt.Fprintf(&sb, "Definition literal_copies : N := %d.\n", gen.CountStringLit(w, pat)+gen.CountStringLit(r, pat))
	// the reader's table of recognised patterns: (pattern, format), in source order
	tab, err := readerTable(r, pat)
	if err != nil {
		return "", err
	}
	sb.WriteString("(* lib/j5schema/schema_from_proto.go: var wellKnownStringPatterns, keys and values resolved *)\n")
	sb.WriteString("Definition reader_patterns : list (list N * list N) := [")
	for i, e := range tab {
		if i > 0 {
			sb.WriteString("; ")
		}
		fmt.Fprintf(&sb, "(%s, %s)", gen.NList([]byte(e[0])), gen.NList([]byte(e[1])))
	}
	sb.WriteString("].\n")
	idf, ok := gen.StringVar(r, "id62Format")
	if !ok {
		return "", fmt.Errorf("schema_from_proto.go: id62Format is not a string constant")
	}
	fmt.Fprintf(&sb, "Definition reader_id62_format : list N := %s.\n", gen.NList([]byte(idf)))
	// package-level state of lib/id62 and what NewHash touches of it
	vars, _, _ := packageLevel(f)
	var vnames []string
	for v := range vars {
		vnames = append(vnames, v)
	}
	sort.Strings(vnames)
	refs, calls := stateRefs(f, "NewHash")
	q := func(xs []string) string {
		ys := make([]string, len(xs))
		for i, x := range xs {
			ys[i] = gen.CoqString(x)
		}
		return "[" + strings.Join(ys, "; ") + "]"
	}
	sb.WriteString("(* lib/id62/uuid62.go: package-level variables; the ones NewHash (and the package functions it calls)\n   reads or writes; the calls NewHash makes, in source order *)\n")
	fmt.Fprintf(&sb, "Definition package_vars : list string := %s.\n", q(vnames))
	fmt.Fprintf(&sb, "Definition newhash_state_refs : list string := %s.\n", q(refs))
	fmt.Fprintf(&sb, "Definition newhash_calls : list string := %s.\n", q(calls))
	return sb.String(), nil
}

package main

import (
	"fmt"

	"path/filepath"
	"strings"
	"verifharness/gen"
)

func init() { gen.Register("Id62Gen.v", genId62) }

// Id62Gen.v: the published pattern string, and how the compiler (writer) and
// the schema reader refer to it.
func genId62(repo string) (string, error) {
	_, f, err := gen.ParseFile(filepath.Join(repo, "lib/id62/uuid62.go"))
	if err != nil {
		return "", err
	}
	pat, ok := gen.StringVar(f, "PatternString")
	if !ok {
		return "", fmt.Errorf("lib/id62/uuid62.go: PatternString is not a string literal variable")
	}
	_, w, err := gen.ParseFile(filepath.Join(repo, "internal/j5s/j5convert/fields.go"))
	if err != nil {
		return "", err
	}
	_, r, err := gen.ParseFile(filepath.Join(repo, "lib/j5schema/schema_from_proto.go"))
	if err != nil {
		return "", err
	}
	var sb strings.Builder
	sb.WriteString("From Coq Require Import List NArith.\nImport ListNotations.\nLocal Open Scope N_scope.\n")
	fmt.Fprintf(&sb, "(* lib/id62/uuid62.go: var PatternString = %q *)\n", pat)
	fmt.Fprintf(&sb, "Definition pattern_string : list N := %s.\n", gen.NList([]byte(pat)))
	sb.WriteString("(* references to id62.PatternString in the compiler (fields.go) and the reader (schema_from_proto.go),\n   and literal copies of the pattern text in either *)\n")
	fmt.Fprintf(&sb, "Definition writer_refs : N := %d.\n", gen.CountSelector(w, "id62", "PatternString"))
	fmt.Fprintf(&sb, "Definition reader_refs : N := %d.\n", gen.CountSelector(r, "id62", "PatternString"))
	fmt.Fprintf(&sb, "Definition literal_copies : N := %d.\n", gen.CountStringLit(w, pat)+gen.CountStringLit(r, pat))
	return sb.String(), nil
}

// gen_id62: translator for the id62 family (coq/gen/Id62Gen.v).
package main

import "verifharness/gen"

func main() { gen.Main() }

package main

// The whole compiled file as a descriptor of family tool's file model
// (coq/model/ProtoPrintFile.v [dfile]) and the types of its imports ([xsymtab]).
// Mirrors harness/cmd/run_tool/filemodel.go dfileTerm / impTerm (that package is a
// command, it cannot be imported); fields come from dfieldTerm (view.go). Used by
// the C04File stream: the hypotheses of C04_text_checked (wf_dfile_b, print order)
// are evaluated on this term, and the model chain print -> parse -> decode -> read
// is compared with what the real reflector reads from the really printed text.

import (
	"fmt"
	"sort"
	"strings"

	"google.golang.org/protobuf/reflect/protoreflect"
	"google.golang.org/protobuf/types/descriptorpb"

	"verifharness/vh"
)

type fileDump struct{ unsupported string }

func (fd *fileDump) skip(format string, a ...any) {
	if fd.unsupported == "" {
		fd.unsupported = fmt.Sprintf(format, a...)
	}
}

func dKey(d protoreflect.Descriptor) string {
	loc := d.ParentFile().SourceLocations().ByDescriptor(d)
	return fmt.Sprintf("{| k_line := %d; k_idx := %d |}", loc.StartLine, d.Index())
}

func dCmt(d protoreflect.Descriptor) string {
	loc := d.ParentFile().SourceLocations().ByDescriptor(d)
	det := make([]string, len(loc.LeadingDetachedComments))
	for i, c := range loc.LeadingDetachedComments {
		det[i] = vh.BytesTerm(c)
	}
	return fmt.Sprintf("{| c_det := [%s]; c_lead := %s |}", strings.Join(det, ";"), vh.BytesTerm(loc.LeadingComments))
}

func (fd *fileDump) opts(d protoreflect.Descriptor) string {
	s, err := dOpts(d)
	if err != nil {
		fd.skip("options of %s: %v", d.FullName(), err)
		return "[]"
	}
	return s
}

func (fd *fileDump) field(f protoreflect.FieldDescriptor) string {
	if f.Kind() == protoreflect.GroupKind {
		fd.skip("group field")
	}
	s, err := dfieldTerm(f)
	if err != nil {
		fd.skip("field %s: %v", f.FullName(), err)
		return ""
	}
	return s
}

func (fd *fileDump) enum(e protoreflect.EnumDescriptor) string {
	if e.ReservedNames().Len() > 0 || e.ReservedRanges().Len() > 0 {
		fd.skip("reserved in enum %s", e.FullName())
	}
	vs := make([]string, e.Values().Len())
	for i := range vs {
		v := e.Values().Get(i)
		vs[i] = fmt.Sprintf("{| v_key := %s; v_cm := %s; v_name := %s; v_num := %s; v_opts := %s |}",
			dKey(v), dCmt(v), vh.BytesTerm(string(v.Name())), vh.ZTerm(int64(v.Number())), fd.opts(v))
	}
	return fmt.Sprintf("DEnum %s %s %s %s [%s]", dKey(e), dCmt(e), vh.BytesTerm(string(e.Name())), fd.opts(e), strings.Join(vs, ";"))
}

func (fd *fileDump) msg(m protoreflect.MessageDescriptor) string {
	if m.ReservedNames().Len() > 0 || m.ReservedRanges().Len() > 0 || m.ExtensionRanges().Len() > 0 || m.Extensions().Len() > 0 {
		fd.skip("reserved / extension ranges / nested extensions in %s", m.FullName())
	}
	var body []string
	for i := 0; i < m.Fields().Len(); i++ {
		f := m.Fields().Get(i)
		if o := f.ContainingOneof(); o != nil && !o.IsSynthetic() {
			continue
		}
		body = append(body, "DField "+fd.field(f))
	}
	for i := 0; i < m.Oneofs().Len(); i++ {
		o := m.Oneofs().Get(i)
		if o.IsSynthetic() {
			continue
		}
		fs := make([]string, o.Fields().Len())
		for k := range fs {
			fs[k] = fd.field(o.Fields().Get(k))
		}
		body = append(body, fmt.Sprintf("DOneof %s %s %s %s [%s]", dKey(o), dCmt(o), vh.BytesTerm(string(o.Name())), fd.opts(o), strings.Join(fs, ";")))
	}
	for i := 0; i < m.Messages().Len(); i++ {
		if n := m.Messages().Get(i); !n.IsMapEntry() {
			body = append(body, fd.msg(n))
		}
	}
	for i := 0; i < m.Enums().Len(); i++ {
		body = append(body, fd.enum(m.Enums().Get(i)))
	}
	return fmt.Sprintf("DMsg %s %s %s %s [%s]", dKey(m), dCmt(m), vh.BytesTerm(string(m.Name())), fd.opts(m), strings.Join(body, ";"))
}

// dfileDump renders f as a dfile; unsupported != "" when the file uses a construct outside the model.
func dfileDump(f protoreflect.FileDescriptor) (term string, unsupported string) {
	fd := &fileDump{}
	if f.Syntax() != protoreflect.Proto3 {
		fd.skip("not proto3")
	}
	imports := make([]string, f.Imports().Len())
	for i := range imports {
		imp := f.Imports().Get(i)
		if imp.IsPublic || imp.IsWeak {
			fd.skip("public / weak import")
		}
		imports[i] = vh.BytesTerm(imp.Path())
	}
	var fopts []string
	if fo, ok := f.Options().(*descriptorpb.FileOptions); ok && fo != nil {
		refl := fo.ProtoReflect()
		fields := refl.Descriptor().Fields()
		for i := 0; i < fields.Len(); i++ {
			x := fields.Get(i)
			if !refl.Has(x) {
				continue
			}
			switch x.Kind() {
			case protoreflect.BoolKind:
				fopts = append(fopts, fmt.Sprintf("(%s, TIdent %s)", vh.BytesTerm(string(x.Name())), vh.BytesTerm(fmt.Sprint(refl.Get(x).Bool()))))
			case protoreflect.StringKind:
				fopts = append(fopts, fmt.Sprintf("(%s, TLit %s)", vh.BytesTerm(string(x.Name())), vh.BytesTerm("\""+refl.Get(x).String()+"\"")))
			default:
				fd.skip("file option %s is not printed", x.Name())
			}
		}
		if len(refl.GetUnknown()) > 0 {
			fd.skip("unknown file options")
		}
		refl.Range(func(x protoreflect.FieldDescriptor, _ protoreflect.Value) bool {
			if x.IsExtension() {
				fd.skip("file option (%s) is not printed", x.FullName())
			}
			return true
		})
	}
	if f.Extensions().Len() > 0 || f.Services().Len() > 0 {
		fd.skip("extensions / services")
	}
	var body []string
	for i := 0; i < f.Messages().Len(); i++ {
		body = append(body, fd.msg(f.Messages().Get(i)))
	}
	for i := 0; i < f.Enums().Len(); i++ {
		body = append(body, fd.enum(f.Enums().Get(i)))
	}
	term = fmt.Sprintf("{| d_pkg := %s; d_imports := [%s]; d_fopts := [%s]; d_exts := []; d_body := [%s] |}",
		dQname(string(f.Package())), strings.Join(imports, ";"), strings.Join(fopts, ";"), strings.Join(body, ";"))
	return term, fd.unsupported
}

// impDump: the types and packages of the files f imports.
func impDump(f protoreflect.FileDescriptor) string {
	ref := func(d protoreflect.Descriptor) string {
		pkg := string(d.ParentFile().Package())
		path := strings.TrimPrefix(string(d.FullName()), pkg+".")
		return fmt.Sprintf("(%s, %s)", dQname(pkg), dQname(path))
	}
	var types []string
	pkgs := map[string]bool{}
	var walk func(ms protoreflect.MessageDescriptors, es protoreflect.EnumDescriptors)
	walk = func(ms protoreflect.MessageDescriptors, es protoreflect.EnumDescriptors) {
		for i := 0; i < ms.Len(); i++ {
			types = append(types, ref(ms.Get(i)))
			walk(ms.Get(i).Messages(), ms.Get(i).Enums())
		}
		for i := 0; i < es.Len(); i++ {
			types = append(types, ref(es.Get(i)))
		}
	}
	for i := 0; i < f.Imports().Len(); i++ {
		imp := f.Imports().Get(i).FileDescriptor
		if imp == nil {
			continue
		}
		pkgs[string(imp.Package())] = true
		walk(imp.Messages(), imp.Enums())
	}
	names := make([]string, 0, len(pkgs))
	for p := range pkgs {
		names = append(names, p)
	}
	sort.Strings(names)
	q := make([]string, len(names))
	for i, p := range names {
		q[i] = dQname(p)
	}
	return fmt.Sprintf("{| x_types := [%s]; x_pkgs := [%s] |}", strings.Join(types, ";"), strings.Join(q, ";"))
}

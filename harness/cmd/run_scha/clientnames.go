package main

// Client property names through flatten levels (/repo 96a1ec3: checkClientPropertyNames).
// An object whose client properties - its own and those hoisted from singular object fields
// with flatten = true, at any depth - use one JSON name twice is refused by the reader: such a
// package is not a valid declaration. The random streams therefore never draw one (the flatten
// flag is dropped on a clash); pinned packages WITH a clash expect: compiles, the reader refuses.

import (
	"strings"

	"github.com/iancoleman/strcase"

	"verifharness/vh"
)

// the objects every compile unit declares next to Foo, with their client property names
var fixedRefs = map[string][]string{"Bar": {"x"}, "Baz": {"y"}}

func fixedRefsTerm() string {
	return "[(" + vh.BytesTerm("Bar") + ", [" + vh.BytesTerm("x") + "]); (" + vh.BytesTerm("Baz") + ", [" + vh.BytesTerm("y") + "])]"
}

// two property names with the same proto field name have the same JSON name
func nameKey(n string) string { return strcase.ToSnake(n) }

func isFlat(p Prop) bool { return p.PK == PSingle && p.T.Kind == TObject && p.T.Flatten }

// dedupFields drops the flatten flag of a field whose hoisted names would clash with a name of
// the enclosing object (or with what another flattened field hoists), recursively; it returns
// the client names (as keys) of the object.
func dedupFields(fs []NField) []string {
	seen := map[string]bool{}
	for _, f := range fs {
		seen[nameKey(f.P.Name)] = true // every sibling name, flattened or not: a dropped flag makes the field's own name a client name
	}
	var out []string
	for i := range fs {
		f := &fs[i]
		var hoisted []string
		if f.Inl != nil {
			hoisted = dedupFields(f.Inl.Fields)
		} else if f.P.T.Kind == TObject {
			hoisted = fixedRefs[f.P.T.refName()]
		}
		if !isFlat(f.P) {
			out = append(out, nameKey(f.P.Name))
			continue
		}
		clash := false
		var keys []string
		for _, h := range hoisted {
			k := nameKey(h)
			keys = append(keys, k)
			if seen[k] {
				clash = true
			}
		}
		if clash {
			f.P.T.Flatten = false
			out = append(out, nameKey(f.P.Name))
			continue
		}
		for _, k := range keys {
			seen[k] = true
		}
		out = append(out, keys...)
	}
	return out
}

func dedupProps(props []genDecl) {
	fs := make([]NField, len(props))
	for i := range props {
		fs[i].P = props[i].P
	}
	dedupFields(fs)
	for i := range props {
		props[i].P = fs[i].P
	}
}

// the reader's refusal (error class, not its text: the two fixed parts of the message)
func isClientNameClash(errText string) bool {
	return strings.Contains(errText, "client properties of") && strings.Contains(errText, "is used twice")
}

// pinned packages with a clash (and one without, through a oneof, which has no client properties)
type clashTree struct {
	what  string
	s     NSchema
	clash bool
}

func pinnedClashTrees() []clashTree {
	str := func(name string) NField { return NField{P: Prop{Name: name, T: FTy{Kind: TStr}}} }
	obj := func(name string, flatten bool, inner ...NField) NField {
		return NField{P: Prop{Name: name, T: FTy{Kind: TObject, Flatten: flatten}}, Inl: &NSchema{Kind: "object", Fields: inner}}
	}
	fixed := func(name, ref string) NField {
		return NField{P: Prop{Name: name, T: FTy{Kind: TObject, Flatten: true, Ref: ref}}}
	}
	root := func(fs ...NField) NSchema { return NSchema{Kind: "object", Fields: fs} }
	return []clashTree{
		{"a property and a property of a flattened child", root(str("a"), obj("in", true, str("a"))), true},
		{"two flattened children with the same property", root(obj("p", true, str("a")), obj("q", true, str("a"))), true},
		{"two levels deep", root(str("a"), obj("in", true, str("b"), obj("mid", true, str("a")))), true},
		{"inside a nested object", root(str("a"), obj("wrap", false, str("a"), obj("in", true, str("a")))), true},
		{"two flattened fields of the same declared object", root(fixed("p", "Bar"), fixed("q", "Bar"), obj("other", false, str("x"))), true},
		{"no clash: foo_bar and fooBar have one proto field name at different levels, the JSON names are the declared ones", root(str("foo_bar"), obj("in", true, str("fooBar"))), false},
		{"no clash: the child is not flattened", root(str("a"), obj("in", false, str("a"))), false},
		{"no clash: different names through two levels", root(str("a"), obj("in", true, str("b"), obj("mid", true, str("c")))), false},
	}
}

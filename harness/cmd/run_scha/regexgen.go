package main

// Generator of regular expressions inside the RE2 fragment modelled by
// coq/model/Regex.v (literals, escapes \d \w \s \D \W \S and escaped punctuation,
// '.', classes with ranges, groups, alternation, * + ? {n} {n,} {n,m} and lazy forms, ^ $), of
// texts that match / nearly match them, and of patterns Go's regexp refuses.

import (
	"fmt"
	"regexp"
	"strings"

	"verifharness/vh"
)

type rx interface {
	render() string
	sample(r *vh.Rand) string // a text the expression matches (anchors ignored)
}

type rxLit struct{ c rune }
type rxEsc struct{ e byte } // d w s D W S
type rxDot struct{}
type rxClass struct {
	neg   bool
	items []string // rendered items: "a", "a-z", `\d`
	pool  []rune   // members (for sampling; of the non-negated set)
}
type rxCat struct{ parts []rx }
type rxAlt struct{ alts []rx }
type rxGroup struct {
	capture bool
	inner   rx
}
type rxQuant struct {
	inner  rx
	op     string // * + ? {n} {n,} {n,m}
	lo, hi int    // hi < 0: unbounded
}
type rxBol struct{}
type rxEol struct{}

const rxSpecial = `\.+*?()|[]{}^$`

func (x rxLit) render() string {
	if strings.ContainsRune(rxSpecial, x.c) {
		return `\` + string(x.c)
	}
	return string(x.c)
}
func (x rxLit) sample(*vh.Rand) string { return string(x.c) }

func (x rxEsc) render() string { return `\` + string(x.e) }
func (x rxEsc) sample(r *vh.Rand) string {
	switch x.e {
	case 'd':
		return string(rune('0' + r.Intn(10)))
	case 'w':
		return vh.Pick(r, []string{"a", "Z", "5", "_"})
	case 's':
		return vh.Pick(r, []string{" ", "\t", "\n"})
	case 'D':
		return vh.Pick(r, []string{"a", "-", "é"})
	case 'W':
		return vh.Pick(r, []string{"-", " ", "日"})
	}
	return vh.Pick(r, []string{"a", "0", "😀"}) // S
}

func (rxDot) render() string           { return "." }
func (rxDot) sample(r *vh.Rand) string { return vh.Pick(r, []string{"a", "0", " ", "é", "-"}) }

func (x rxClass) render() string {
	s := "["
	if x.neg {
		s += "^"
	}
	return s + strings.Join(x.items, "") + "]"
}
func (x rxClass) sample(r *vh.Rand) string {
	if !x.neg {
		return string(x.pool[r.Intn(len(x.pool))])
	}
	for _, c := range []rune{'#', 'q', 'Q', '7', 'é', ' ', '~'} {
		in := false
		for _, p := range x.pool {
			if p == c {
				in = true
			}
		}
		if !in {
			return string(c)
		}
	}
	return "日"
}

func (x rxCat) render() string {
	var sb strings.Builder
	for _, p := range x.parts {
		sb.WriteString(p.render())
	}
	return sb.String()
}
func (x rxCat) sample(r *vh.Rand) string {
	var sb strings.Builder
	for _, p := range x.parts {
		sb.WriteString(p.sample(r))
	}
	return sb.String()
}

func (x rxAlt) render() string {
	parts := make([]string, len(x.alts))
	for i, a := range x.alts {
		parts[i] = a.render()
	}
	return strings.Join(parts, "|")
}
func (x rxAlt) sample(r *vh.Rand) string { return x.alts[r.Intn(len(x.alts))].sample(r) }

func (x rxGroup) render() string {
	if x.capture {
		return "(" + x.inner.render() + ")"
	}
	return "(?:" + x.inner.render() + ")"
}
func (x rxGroup) sample(r *vh.Rand) string { return x.inner.sample(r) }

func (x rxQuant) render() string { return x.inner.render() + x.op }
func (x rxQuant) sample(r *vh.Rand) string {
	hi := x.hi
	if hi < 0 {
		hi = x.lo + 2
	}
	n := r.Range(x.lo, hi)
	var sb strings.Builder
	for i := 0; i < n; i++ {
		sb.WriteString(x.inner.sample(r))
	}
	return sb.String()
}

func (rxBol) render() string         { return "^" }
func (rxBol) sample(*vh.Rand) string { return "" }
func (rxEol) render() string         { return "$" }
func (rxEol) sample(*vh.Rand) string { return "" }

var rxLitPool = []rune{'a', 'b', 'c', 'x', 'Z', '0', '7', '-', '_', ',', ':', '/', '@', ' ', '.', '+', '(', '|', '$', 'é', '日'}

func genClass(r *vh.Rand) rx {
	c := rxClass{neg: r.Chance(20)}
	add := func(lo, hi rune) {
		if lo == hi {
			c.items = append(c.items, string(lo))
		} else {
			c.items = append(c.items, string(lo)+"-"+string(hi))
		}
		for x := lo; x <= hi; x++ {
			c.pool = append(c.pool, x)
		}
	}
	for i, n := 0, r.Range(1, 3); i < n; i++ {
		switch r.Intn(7) {
		case 0:
			add('a', 'z')
		case 1:
			add('A', 'F')
		case 2:
			add('0', '9')
		case 3:
			lo := rune('a' + r.Intn(20))
			add(lo, lo+rune(r.Intn(5)))
		case 4:
			c.items = append(c.items, `\d`)
			for x := '0'; x <= '9'; x++ {
				c.pool = append(c.pool, x)
			}
		case 5:
			x := vh.Pick(r, []rune{'_', ':', '.', '+', 'é', '/'})
			add(x, x)
		default:
			c.items = append(c.items, `\w`)
			c.pool = append(c.pool, 'a', 'Z', '5', '_')
		}
	}
	if r.Chance(15) {
		c.items = append(c.items, "-") // a trailing - is a literal
		c.pool = append(c.pool, '-')
	}
	return c
}

func genAtom(r *vh.Rand, depth int) (x rx, counted bool) {
	switch k := r.Intn(10); {
	case k < 4:
		return rxLit{vh.Pick(r, rxLitPool)}, false
	case k == 4:
		return rxEsc{vh.Pick(r, []byte("dwsDWS"))}, false
	case k == 5:
		return rxDot{}, false
	case k < 8 || depth <= 0:
		return genClass(r), false
	}
	inner, c := genAlt(r, depth-1)
	return rxGroup{capture: r.Chance(60), inner: inner}, c
}

func genCat(r *vh.Rand, depth int) (rx, bool) {
	var parts []rx
	counted := false
	for i, n := 0, r.Range(0, 4); i < n; i++ {
		a, c := genAtom(r, depth)
		if r.Chance(35) {
			q := rxQuant{inner: a}
			switch r.Intn(6) {
			case 0:
				q.op, q.lo, q.hi = "*", 0, -1
			case 1:
				q.op, q.lo, q.hi = "+", 1, -1
			case 2:
				q.op, q.lo, q.hi = "?", 0, 1
			default:
				if c { // no counted repetition of a counted repetition
					q.op, q.lo, q.hi = "*", 0, -1
					break
				}
				lo := r.Intn(4)
				switch r.Intn(3) {
				case 0:
					q.op, q.lo, q.hi = fmt.Sprintf("{%d}", lo), lo, lo
				case 1:
					q.op, q.lo, q.hi = fmt.Sprintf("{%d,}", lo), lo, -1
				default:
					hi := lo + r.Intn(3)
					q.op, q.lo, q.hi = fmt.Sprintf("{%d,%d}", lo, hi), lo, hi
				}
				c = true
			}
			if r.Chance(15) {
				q.op += "?" // lazy: the same language
			}
			a = q
		}
		counted = counted || c
		parts = append(parts, a)
	}
	return rxCat{parts}, counted
}

func genAlt(r *vh.Rand, depth int) (rx, bool) {
	n := 1
	if r.Chance(25) {
		n = r.Range(2, 3)
	}
	var alts []rx
	counted := false
	for i := 0; i < n; i++ {
		c, k := genCat(r, depth)
		counted = counted || k
		alts = append(alts, c)
	}
	if len(alts) == 1 {
		return alts[0], counted
	}
	return rxAlt{alts}, counted
}

// patAST: the expression behind each generated pattern text (for sampling texts)
var patAST = map[string]rx{}

// genPattern: a pattern of the fragment; mostly anchored (as validation patterns are)
func genPattern(r *vh.Rand) string {
	for {
		body, _ := genAlt(r, 2)
		var x rx = body
		switch r.Intn(10) {
		case 0: // unanchored
		case 1:
			x = rxCat{[]rx{rxBol{}, groupIfAlt(body)}}
		case 2:
			x = rxCat{[]rx{groupIfAlt(body), rxEol{}}}
		default:
			x = rxCat{[]rx{rxBol{}, groupIfAlt(body), rxEol{}}}
		}
		p := x.render()
		if len(p) > 40 {
			continue
		}
		if _, err := regexp.Compile(p); err != nil {
			panic("genPattern produced a pattern Go refuses: " + p + ": " + err.Error())
		}
		patAST[p] = x
		return p
	}
}

func groupIfAlt(x rx) rx {
	if _, ok := x.(rxAlt); ok {
		return rxGroup{capture: false, inner: x}
	}
	return x
}

// genBadPattern: a pattern Go's regexp refuses, of a kind the Coq parser calls ill-formed
func genBadPattern(r *vh.Rand) string {
	for {
		good := genPattern(r)
		inner := strings.TrimSuffix(strings.TrimPrefix(good, "^"), "$")
		simple := vh.Pick(r, []string{"a", "ab0", "a-z", "x_:", "0-9A"}) // inside an unclosed class: nothing the class syntax treats specially
		p := vh.Pick(r, []string{"[" + simple, inner + "(", inner + ")x", "*" + inner, "a**" + inner, "a+*", "[z-a]" + inner,
			"x{2000}", "x{3,2}", "(?=" + inner + ")", "(?!a)", `(a)\1`, inner + `\`, "[^" + simple, "(" + inner, "+", "a|*"})
		if _, err := regexp.Compile(p); err == nil {
			continue
		}
		return p
	}
}

// patternTexts: texts around the language of the pattern
func patternTexts(r *vh.Rand, pat string) []string {
	x, ok := patAST[pat]
	if !ok {
		return []string{"", "a", "aa", "[", "x1"}
	}
	out := []string{"", "a"}
	for i := 0; i < 4; i++ {
		s := x.sample(r)
		out = append(out, s)
		rs := []rune(s)
		switch r.Intn(5) {
		case 0:
			out = append(out, s+"!")
		case 1:
			out = append(out, "é"+s)
		case 2:
			if len(rs) > 0 {
				out = append(out, string(rs[:len(rs)-1]))
			}
		case 3:
			if len(rs) > 0 {
				rs[r.Intn(len(rs))] = vh.Pick(r, []rune{'!', 'q', '0', ' ', '日'})
				out = append(out, string(rs))
			}
		default:
			out = append(out, s+"\n", s+s)
		}
	}
	return out
}

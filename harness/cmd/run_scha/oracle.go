package main

// The declared meaning of a j5s property, written directly in Go (an
// independent reading of schema.proto / README, using Go's regexp and the
// published id62 pattern): what the direct oracle compares the real validator's
// verdict with.

import (
	"math"
	"regexp"
	"strings"
	"unicode/utf8"

)

var uuidRe = regexp.MustCompile(`^[0-9a-fA-F]{8}-[0-9a-fA-F]{4}-[0-9a-fA-F]{4}-[0-9a-fA-F]{4}-[0-9a-fA-F]{12}$`)

func isZero(v Value) bool {
	switch v.Kind {
	case "int":
		if v.IsU64 {
			return v.U == 0
		}
		return v.I == 0
	case "str", "bytes":
		return v.S == ""
	case "bool":
		return !v.B
	case "enum":
		return v.I == 0
	case "float":
		return math.Float64bits(v.F) == 0 // +0; -0 is a set value (protobuf)
	}
	return false
}

func valueEq(a, b Value) bool {
	if a.Kind != b.Kind {
		return false
	}
	switch a.Kind {
	case "int":
		if a.IsU64 || b.IsU64 {
			au, bu := uint64(a.I), uint64(b.I)
			if a.IsU64 {
				au = a.U
			}
			if b.IsU64 {
				bu = b.U
			}
			return (a.IsU64 || a.I >= 0) && (b.IsU64 || b.I >= 0) && au == bu
		}
		return a.I == b.I
	case "str", "bytes":
		return a.S == b.S
	case "bool":
		return a.B == b.B
	case "enum":
		return a.I == b.I
	case "float":
		return a.F == b.F // as numbers: +0 = -0, NaN equals nothing
	case "msg":
		return a.I == b.I
	}
	return false
}

func isTrue(b *bool) bool { return b != nil && *b }

// enum option number by (short or prefixed) name; 0 when unknown
func optionNumber(env EnumEnv, name string) int64 {
	full := func(n string) string {
		if !strings.HasPrefix(n, env.Prefix) {
			return env.Prefix + n
		}
		return n
	}
	for i, o := range env.Options {
		if full(name) == full(o) {
			return int64(i + 1)
		}
	}
	if env.Unspecified != "" && full(name) == full(env.Unspecified) {
		return 0 // the explicit zero option
	}
	return -1
}

func tyOK(env EnumEnv, t FTy, v Value) bool {
	switch t.Kind {
	case TInt:
		if t.Int == nil {
			return true
		}
		// compare in a domain that holds both int64 bounds and uint64 values
		cmp := func(b int64) int { // sign of v - b
			if v.IsU64 {
				if b < 0 || v.U > uint64(b) {
					return 1
				} else if v.U < uint64(b) {
					return -1
				}
				return 0
			}
			switch {
			case v.I > b:
				return 1
			case v.I < b:
				return -1
			}
			return 0
		}
		if m := t.Int.Min; m != nil {
			c := cmp(*m)
			if c < 0 || (c == 0 && isTrue(t.Int.XMin)) {
				return false
			}
		}
		if m := t.Int.Max; m != nil {
			c := cmp(*m)
			if c > 0 || (c == 0 && isTrue(t.Int.XMax)) {
				return false
			}
		}
		if m := t.Int.Mult; m != nil && *m != 0 { // the declared meaning of multipleOf (the compiler refuses the rule)
			if v.IsU64 {
				if *m < 0 && v.U%uint64(-*m) != 0 || *m > 0 && v.U%uint64(*m) != 0 {
					return false
				}
			} else if v.I%*m != 0 {
				return false
			}
		}
		return true
	case TStr:
		if t.Str == nil {
			return true
		}
		n := uint64(utf8.RuneCountInString(v.S))
		if t.Str.Min != nil && n < *t.Str.Min {
			return false
		}
		if t.Str.Max != nil && n > *t.Str.Max {
			return false
		}
		if t.Str.Pat != nil && !regexp.MustCompile(*t.Str.Pat).MatchString(v.S) {
			return false
		}
		return true
	case TBytes:
		if t.Len == nil {
			return true
		}
		n := uint64(len(v.S))
		if t.Len.Min != nil && n < *t.Len.Min {
			return false
		}
		if t.Len.Max != nil && n > *t.Len.Max {
			return false
		}
		return true
	case TBool:
		if t.HasBool && t.Const != nil {
			return v.B == *t.Const
		}
		return true
	case TEnum:
		if v.I < 0 || v.I > int64(len(env.Options)) {
			return false // not a defined value
		}
		if t.Enum != nil {
			if len(t.Enum.In) > 0 {
				found := false
				for _, n := range t.Enum.In {
					if optionNumber(env, n) == v.I {
						found = true
					}
				}
				if !found {
					return false
				}
			}
			for _, n := range t.Enum.NotIn {
				if optionNumber(env, n) == v.I {
					return false
				}
			}
		}
		return true
	case TKey:
		switch t.KF {
		case KUuid:
			return uuidRe.MatchString(v.S)
		case KId62:
			return id62Text(v.S) // the declared meaning, not the pattern the code under test publishes
		case KCustom:
			return regexp.MustCompile(t.KPat).MatchString(v.S)
		}
		return true
	}
	return true
}

func isPrimary(p Prop) bool {
	return p.T.Kind == TKey && p.T.Entity != nil && p.T.Entity.Primary != nil && *p.T.Entity.Primary
}

func isMsgKind(k TyKind) bool { return k >= TDate }

// keyPlacementOK: entity.primaryKey has a declared meaning only on a singular key
// property (schema.proto: "only valid in the keys object of an entity"); inside
// an array or a map the oracle does not judge the declaration.
func keyPlacementOK(p Prop) bool { return p.PK == PSingle || !isPrimary(p) }

func patternCompiles(pat string) bool {
	_, err := regexp.Compile(pat)
	return err == nil
}

// patternsOK: every pattern the declaration carries is a valid RE2 expression
// id62Text: key:id62 as the schema language defines it — 22 characters of 0-9 A-Z a-z
// (RulesSpec.id62_text). Independent of lib/id62's PatternString, so that a change of the
// published pattern shows as a verdict that differs from the declared rule.
func id62Text(s string) bool {
	if len(s) != 22 {
		return false
	}
	for i := 0; i < len(s); i++ {
		c := s[i]
		if !(c >= '0' && c <= '9' || c >= 'A' && c <= 'Z' || c >= 'a' && c <= 'z') {
			return false
		}
	}
	return true
}

func patternsOK(p Prop) bool {
	switch p.T.Kind {
	case TStr:
		return p.T.Str == nil || p.T.Str.Pat == nil || patternCompiles(*p.T.Str.Pat)
	case TKey:
		return p.T.KF != KCustom || patternCompiles(p.T.KPat)
	}
	return true
}

// uniqueOnMessages: uniqueItems = true on an array whose items are messages
func uniqueOnMessages(p Prop) bool {
	return p.PK == PArray && p.Arr != nil && isTrue(p.Arr.Uniq) && isMsgKind(p.T.Kind)
}

// ruleSem: does the value of the compiled field satisfy what the property
// declares? (patterns must compile: patternsOK)
func ruleSem(env EnumEnv, p Prop, fv FValue) bool {
	must := p.Req || (p.PK == PSingle && isPrimary(p))
	switch p.PK {
	case PSingle:
		if fv.Absent {
			return !must
		}
		if must && !p.Opt && !isMsgKind(p.T.Kind) && isZero(fv.One) {
			return false // an implicit-presence scalar at its default value is not populated
		}
		return tyOK(env, p.T, fv.One)
	case PMap:
		if must && len(fv.List) == 0 {
			return false
		}
		if m := p.MapR; m != nil {
			n := uint64(len(fv.List))
			if m.Min != nil && n < *m.Min {
				return false
			}
			if m.Max != nil && n > *m.Max {
				return false
			}
		}
		for _, v := range fv.List {
			if !tyOK(env, p.T, v) {
				return false
			}
		}
		return true
	case PArray:
		if must && len(fv.List) == 0 {
			return false
		}
		if a := p.Arr; a != nil {
			n := uint64(len(fv.List))
			if a.Min != nil && n < *a.Min {
				return false
			}
			if a.Max != nil && n > *a.Max {
				return false
			}
			if isTrue(a.Uniq) {
				for i := range fv.List {
					for j := i + 1; j < len(fv.List); j++ {
						if valueEq(fv.List[i], fv.List[j]) {
							return false
						}
					}
				}
			}
		}
		for _, v := range fv.List {
			if !tyOK(env, p.T, v) {
				return false
			}
		}
		return true
	}
	return true
}

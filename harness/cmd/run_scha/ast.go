package main

// The second way into the compiler: the source AST (sourcedef_j5pb.SourceFile)
// built directly from the generated declarations and converted with
// j5convert.ConvertJ5File (lib/verifshim/scha), linked with protodesc against
// the generated registry. It reaches what j5s text cannot say: negative integer
// bounds and rules messages that are present but empty.

import (
	"fmt"

	"github.com/pentops/j5/gen/j5/schema/v1/schema_j5pb"
	"github.com/pentops/j5/gen/j5/sourcedef/v1/sourcedef_j5pb"
	_ "github.com/pentops/j5/j5types/any_j5t"
	_ "github.com/pentops/j5/j5types/date_j5t"
	_ "github.com/pentops/j5/j5types/decimal_j5t"
	"github.com/pentops/j5/lib/verifshim/scha"
	"google.golang.org/protobuf/proto"
	"google.golang.org/protobuf/reflect/protodesc"
	"google.golang.org/protobuf/reflect/protoregistry"
	_ "google.golang.org/protobuf/types/known/timestamppb"
)

// genAST switches the generators to the declarations only the AST can express
var genAST bool

func blankRefs(f *schema_j5pb.Field) {
	switch t := f.GetType().(type) {
	case *schema_j5pb.Field_Enum:
		t.Enum.GetRef().Package = ""
	case *schema_j5pb.Field_Object:
		t.Object.GetRef().Package = ""
	case *schema_j5pb.Field_Oneof:
		t.Oneof.GetRef().Package = ""
	case *schema_j5pb.Field_Array:
		blankRefs(t.Array.Items)
		if t.Array.Ext != nil && t.Array.Ext.SingleForm == nil {
			t.Array.Ext = nil
		}
	case *schema_j5pb.Field_Map:
		blankRefs(t.Map.ItemSchema)
		t.Map.KeySchema = nil
	}
}

func sourceProp(env EnumEnv, p Prop) *schema_j5pb.ObjectProperty {
	op := proto.Clone(p.toProto(env, 0)).(*schema_j5pb.ObjectProperty)
	op.ProtoField = nil
	blankRefs(op.Schema)
	return op
}

func sourceFile(kind string, env EnumEnv, objDesc string, props []Prop) *sourcedef_j5pb.SourceFile {
	enum := &schema_j5pb.Enum{Name: env.Name, Description: env.Desc}
	if env.ExplicitPrefix {
		enum.Prefix = env.Prefix
	}
	for _, f := range env.InfoFields {
		enum.Info = append(enum.Info, &schema_j5pb.Enum_OptionInfoField{Name: f[0], Label: f[1], Description: f[2]})
	}
	if env.Unspecified != "" {
		enum.Options = append(enum.Options, &schema_j5pb.Enum_Option{Name: env.Unspecified, Description: env.UnspecDesc, Info: env.UnspecInfo})
	}
	for i, o := range env.Options {
		d := ""
		if i < len(env.OptDescs) {
			d = env.OptDescs[i]
		}
		enum.Options = append(enum.Options, &schema_j5pb.Enum_Option{Name: o, Description: d, Info: env.optInfo(i)})
	}
	str := func(name string) *schema_j5pb.ObjectProperty {
		return &schema_j5pb.ObjectProperty{Name: name, Schema: &schema_j5pb.Field{Type: &schema_j5pb.Field_String_{String_: &schema_j5pb.StringField{}}}}
	}
	var ps []*schema_j5pb.ObjectProperty
	for _, p := range props {
		ps = append(ps, sourceProp(env, p))
	}
	root := &sourcedef_j5pb.RootElement{Type: &sourcedef_j5pb.RootElement_Object{Object: &sourcedef_j5pb.Object{Def: &schema_j5pb.Object{Name: "Foo", Description: objDesc, Properties: ps}}}}
	if kind == "oneof" {
		root = &sourcedef_j5pb.RootElement{Type: &sourcedef_j5pb.RootElement_Oneof{Oneof: &sourcedef_j5pb.Oneof{Def: &schema_j5pb.Oneof{Name: "Foo", Description: objDesc, Properties: ps}}}}
	}
	return &sourcedef_j5pb.SourceFile{
		Path:    "foo/v1/a.j5s",
		Package: &sourcedef_j5pb.Package{Name: "foo.v1"},
		Elements: []*sourcedef_j5pb.RootElement{
			{Type: &sourcedef_j5pb.RootElement_Enum{Enum: enum}},
			{Type: &sourcedef_j5pb.RootElement_Object{Object: &sourcedef_j5pb.Object{Def: &schema_j5pb.Object{Name: "Bar", Properties: []*schema_j5pb.ObjectProperty{str("x")}}}}},
			{Type: &sourcedef_j5pb.RootElement_Object{Object: &sourcedef_j5pb.Object{Def: &schema_j5pb.Object{Name: "Baz", Properties: []*schema_j5pb.ObjectProperty{
				{Name: "y", Schema: &schema_j5pb.Field{Type: &schema_j5pb.Field_Integer{Integer: &schema_j5pb.IntegerField{Format: schema_j5pb.IntegerField_FORMAT_INT32}}}}}}}}},
			{Type: &sourcedef_j5pb.RootElement_Oneof{Oneof: &sourcedef_j5pb.Oneof{Def: &schema_j5pb.Oneof{Name: "Pick", Properties: []*schema_j5pb.ObjectProperty{str("c")}}}}},
			{Type: &sourcedef_j5pb.RootElement_Oneof{Oneof: &sourcedef_j5pb.Oneof{Def: &schema_j5pb.Oneof{Name: "Choice", Properties: []*schema_j5pb.ObjectProperty{str("a"),
				{Name: "b", Schema: &schema_j5pb.Field{Type: &schema_j5pb.Field_Integer{Integer: &schema_j5pb.IntegerField{Format: schema_j5pb.IntegerField_FORMAT_INT32}}}}}}}}},
			root,
		},
	}
}

// compileAST converts and links the AST; the result has the shape compileUnit returns.
func compileAST(kind string, env EnumEnv, objDesc string, props []Prop) (c compiled) {
	defer func() {
		if r := recover(); r != nil {
			c.panic = r
		}
	}()
	fdps, err := scha.ConvertSource(sourceFile(kind, env, objDesc, props))
	if err != nil {
		c.err = err
		return
	}
	for _, fdp := range fdps {
		if fdp.GetName() != "foo/v1/a.j5s.proto" {
			continue
		}
		fd, err := protodesc.NewFile(fdp, protoregistry.GlobalFiles)
		if err != nil {
			c.err = fmt.Errorf("link: %w", err)
			return
		}
		c.file = fd
		c.files = append(c.files, fd)
	}
	if c.file == nil {
		c.err = fmt.Errorf("converted file a.j5s.proto not in output")
	}
	return
}

// compileRoot: through the j5s text, or (genAST) through the AST
func compileRoot(kind string, env EnumEnv, objDesc string, props []Prop) (compiled, string) {
	src := FileRoot(kind, env, "Foo", objDesc, props)
	if extra := env.ExtraFiles(); extra != nil { // several files: text path only
		files := map[string]string{"foo/v1/a.j5s": src}
		all := src
		for name, text := range extra {
			files[name] = text
			all += "\n# ---- " + name + "\n" + text
		}
		return compileFiles(files), all
	}
	if genAST {
		return compileAST(kind, env, objDesc, props), "(built as source AST, the text is an approximation)\n" + src
	}
	return compileUnit(src), src
}

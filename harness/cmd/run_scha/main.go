package main

import "verifharness/vh"

func main() { vh.Main() }

package main

// C04: reflecting compiled descriptors back into J5 schemas yields the declared
// schema. Stream 1: write_object vs the annotations the real compiler emits
// (shared with C12). Stream 2: read_object (model of the reader) on the observed
// annotations vs the real reflector's ToJ5Root, from the in-memory descriptors.
// Direct oracle: declared schema (normalised for representation-only
// differences) vs reflected schema, and reflected-from-printed-text vs
// reflected-from-memory.

import (
	"context"
	"fmt"
	"sort"
	"strings"

	"github.com/iancoleman/strcase"
	"github.com/pentops/j5/gen/j5/ext/v1/ext_j5pb"
	"github.com/pentops/j5/gen/j5/list/v1/list_j5pb"
	"github.com/pentops/j5/gen/j5/schema/v1/schema_j5pb"
	"github.com/pentops/j5/lib/j5schema"
	"github.com/pentops/j5/lib/verifshim/compile"
	"github.com/pentops/j5/lib/verifshim/tool"
	"google.golang.org/protobuf/encoding/protojson"
	"google.golang.org/protobuf/proto"
	"google.golang.org/protobuf/reflect/protodesc"
	"google.golang.org/protobuf/reflect/protoreflect"
	"google.golang.org/protobuf/types/descriptorpb"
	"google.golang.org/protobuf/types/known/timestamppb"

	"verifharness/vh"
)

func init() { vh.Register("C04", runC04) }

// ---------------------------------------------------------------- Prop <-> schema_j5pb

func filtering(l *LPay) *list_j5pb.FilteringConstraint {
	if !l.Filterable && len(l.Filters) == 0 {
		// the j5s text "filtering.filterable = false" makes the message present
		if !l.Sortable && !l.Searchable && !l.DefaultSort {
			return &list_j5pb.FilteringConstraint{}
		}
		return nil
	}
	return &list_j5pb.FilteringConstraint{Filterable: l.Filterable, DefaultFilters: l.Filters}
}
func sorting(l *LPay) *list_j5pb.SortingConstraint {
	if !l.Sortable && !l.DefaultSort {
		return nil
	}
	return &list_j5pb.SortingConstraint{Sortable: l.Sortable, DefaultSort: l.DefaultSort}
}

func lpayFromMsg(m proto.Message) *LPay {
	if m == nil || !m.ProtoReflect().IsValid() {
		return nil
	}
	p, ok := lpayOf(m.ProtoReflect())
	if !ok {
		return &LPay{Filters: []string{"\x00unrepresentable"}}
	}
	return &p
}

func (t FTy) toProto(env EnumEnv) *schema_j5pb.Field {
	l := t.List
	switch t.Kind {
	case TInt:
		f := &schema_j5pb.IntegerField{Format: schema_j5pb.IntegerField_Format(t.IK + 1)}
		if r := t.Int; r != nil {
			f.Rules = &schema_j5pb.IntegerField_Rules{Minimum: r.Min, Maximum: r.Max, ExclusiveMinimum: r.XMin, ExclusiveMaximum: r.XMax, MultipleOf: r.Mult}
		}
		if l != nil {
			f.ListRules = &list_j5pb.IntegerRules{Filtering: filtering(l), Sorting: sorting(l)}
		}
		return &schema_j5pb.Field{Type: &schema_j5pb.Field_Integer{Integer: f}}
	case TStr:
		f := &schema_j5pb.StringField{Format: t.SFormat}
		if r := t.Str; r != nil {
			f.Rules = &schema_j5pb.StringField_Rules{Pattern: r.Pat, MinLength: r.Min, MaxLength: r.Max}
		}
		if l != nil {
			f.ListRules = &list_j5pb.OpenTextRules{}
			if l.Searchable {
				f.ListRules.Searching = &list_j5pb.SearchingConstraint{Searchable: true}
			}
		}
		return &schema_j5pb.Field{Type: &schema_j5pb.Field_String_{String_: f}}
	case TBytes:
		f := &schema_j5pb.BytesField{}
		if r := t.Len; r != nil {
			f.Rules = &schema_j5pb.BytesField_Rules{MinLength: r.Min, MaxLength: r.Max}
		}
		return &schema_j5pb.Field{Type: &schema_j5pb.Field_Bytes{Bytes: f}}
	case TBool:
		f := &schema_j5pb.BoolField{}
		if t.HasBool {
			f.Rules = &schema_j5pb.BoolField_Rules{Const: t.Const}
		}
		if l != nil {
			f.ListRules = &list_j5pb.BoolRules{Filtering: filtering(l)}
		}
		return &schema_j5pb.Field{Type: &schema_j5pb.Field_Bool{Bool: f}}
	case TEnum:
		f := &schema_j5pb.EnumField{Schema: &schema_j5pb.EnumField_Ref{Ref: &schema_j5pb.Ref{Package: "foo.v1", Schema: env.Name}}}
		if r := t.Enum; r != nil {
			f.Rules = &schema_j5pb.EnumField_Rules{In: r.In, NotIn: r.NotIn}
		}
		if l != nil {
			f.ListRules = &list_j5pb.EnumRules{Filtering: filtering(l)}
		}
		return &schema_j5pb.Field{Type: &schema_j5pb.Field_Enum{Enum: f}}
	case TKey:
		f := &schema_j5pb.KeyField{}
		switch t.KF {
		case KInformal:
			f.Format = &schema_j5pb.KeyFormat{Type: &schema_j5pb.KeyFormat_Informal_{Informal: &schema_j5pb.KeyFormat_Informal{}}}
		case KCustom:
			f.Format = &schema_j5pb.KeyFormat{Type: &schema_j5pb.KeyFormat_Custom_{Custom: &schema_j5pb.KeyFormat_Custom{Pattern: t.KPat}}}
		case KUuid:
			f.Format = &schema_j5pb.KeyFormat{Type: &schema_j5pb.KeyFormat_Uuid{Uuid: &schema_j5pb.KeyFormat_UUID{}}}
		case KId62:
			f.Format = &schema_j5pb.KeyFormat{Type: &schema_j5pb.KeyFormat_Id62{Id62: &schema_j5pb.KeyFormat_ID62{}}}
		}
		if e := t.Entity; e != nil {
			f.Entity = &schema_j5pb.EntityKey{TenantKey: e.TenantKey}
			if e.Primary != nil {
				f.Entity.Type = &schema_j5pb.EntityKey_PrimaryKey{PrimaryKey: *e.Primary}
			} else if e.ForeignE != nil {
				f.Entity.Type = &schema_j5pb.EntityKey_ForeignKey{ForeignKey: &schema_j5pb.EntityRef{Package: *e.ForeignP, Entity: *e.ForeignE}}
			}
		}
		if l != nil {
			f.ListRules = &list_j5pb.KeyRules{Filtering: filtering(l)}
		}
		return &schema_j5pb.Field{Type: &schema_j5pb.Field_Key{Key: f}}
	case TFloat:
		f := &schema_j5pb.FloatField{Format: schema_j5pb.FloatField_FORMAT_FLOAT32}
		if t.F64 {
			f.Format = schema_j5pb.FloatField_FORMAT_FLOAT64
		}
		if l != nil {
			f.ListRules = &list_j5pb.FloatRules{Filtering: filtering(l), Sorting: sorting(l)}
		}
		if t.FloatR {
			f.Rules = &schema_j5pb.FloatField_Rules{Minimum: ptr(1.5)}
		}
		return &schema_j5pb.Field{Type: &schema_j5pb.Field_Float{Float: f}}
	case TDate:
		f := &schema_j5pb.DateField{}
		if r := t.Txt; r != nil {
			f.Rules = &schema_j5pb.DateField_Rules{Minimum: r.Min, Maximum: r.Max, ExclusiveMinimum: r.XMin, ExclusiveMaximum: r.XMax}
		}
		if l != nil {
			f.ListRules = &list_j5pb.DateRules{Filtering: filtering(l)}
		}
		return &schema_j5pb.Field{Type: &schema_j5pb.Field_Date{Date: f}}
	case TDecimal:
		f := &schema_j5pb.DecimalField{}
		if r := t.Txt; r != nil {
			f.Rules = &schema_j5pb.DecimalField_Rules{Minimum: r.Min, Maximum: r.Max, ExclusiveMinimum: r.XMin, ExclusiveMaximum: r.XMax}
		}
		if l != nil {
			f.ListRules = &list_j5pb.DecimalRules{Filtering: filtering(l), Sorting: sorting(l)}
		}
		return &schema_j5pb.Field{Type: &schema_j5pb.Field_Decimal{Decimal: f}}
	case TTimestamp:
		f := &schema_j5pb.TimestampField{}
		if r := t.TS; r != nil {
			f.Rules = &schema_j5pb.TimestampField_Rules{ExclusiveMinimum: r.XMin, ExclusiveMaximum: r.XMax}
			if r.Min != nil {
				f.Rules.Minimum = &timestamppb.Timestamp{Seconds: *r.Min}
			}
			if r.Max != nil {
				f.Rules.Maximum = &timestamppb.Timestamp{Seconds: *r.Max}
			}
		}
		if l != nil {
			f.ListRules = &list_j5pb.TimestampRules{Filtering: filtering(l), Sorting: sorting(l)}
		}
		return &schema_j5pb.Field{Type: &schema_j5pb.Field_Timestamp{Timestamp: f}}
	case TAny:
		f := &schema_j5pb.AnyField{OnlyDefined: t.AnyOD, Types: t.AnyT}
		if l != nil {
			f.ListRules = &list_j5pb.AnyRules{Filtering: filtering(l)}
		}
		return &schema_j5pb.Field{Type: &schema_j5pb.Field_Any{Any: f}}
	case TObject:
		of := &schema_j5pb.ObjectField{
			Schema: &schema_j5pb.ObjectField_Ref{Ref: &schema_j5pb.Ref{Package: "foo.v1", Schema: t.refName()}}, Flatten: t.Flatten}
		if r := t.ObjR; r != nil {
			of.Rules = &schema_j5pb.ObjectField_Rules{MinProperties: r.Min, MaxProperties: r.Max}
		}
		return &schema_j5pb.Field{Type: &schema_j5pb.Field_Object{Object: of}}
	case TOneof:
		f := &schema_j5pb.OneofField{Schema: &schema_j5pb.OneofField_Ref{Ref: &schema_j5pb.Ref{Package: "foo.v1", Schema: t.refName()}}}
		if t.OneofR {
			f.Rules = &schema_j5pb.OneofField_Rules{}
		}
		if l != nil {
			f.ListRules = &list_j5pb.OneofRules{Filtering: filtering(l)}
		}
		return &schema_j5pb.Field{Type: &schema_j5pb.Field_Oneof{Oneof: f}}
	}
	panic("kind")
}

// toProto: the ObjectProperty a Prop denotes, with proto field path [number].
func (p Prop) toProto(env EnumEnv, number int32) *schema_j5pb.ObjectProperty {
	op := &schema_j5pb.ObjectProperty{Name: p.Name, Required: p.Req, ExplicitlyOptional: p.Opt, Description: p.Desc, ProtoField: []int32{number}}
	item := p.T.toProto(env)
	switch p.PK {
	case PSingle:
		op.Schema = item
	case PArray:
		a := &schema_j5pb.ArrayField{Items: item, Ext: &schema_j5pb.ArrayField_Ext{SingleForm: p.Single}}
		if r := p.Arr; r != nil {
			a.Rules = &schema_j5pb.ArrayField_Rules{MinItems: r.Min, MaxItems: r.Max, UniqueItems: r.Uniq}
		}
		op.Schema = &schema_j5pb.Field{Type: &schema_j5pb.Field_Array{Array: a}}
	case PMap:
		m := &schema_j5pb.MapField{ItemSchema: item, KeySchema: &schema_j5pb.Field{Type: &schema_j5pb.Field_String_{}}}
		if r := p.MapR; r != nil {
			m.Rules = &schema_j5pb.MapField_Rules{MinPairs: r.Min, MaxPairs: r.Max}
		}
		if p.MapExt != nil {
			m.Ext = &schema_j5pb.MapField_Ext{SingleForm: p.MapExt.Single}
		}
		op.Schema = &schema_j5pb.Field{Type: &schema_j5pb.Field_Map{Map: m}}
	}
	return op
}

func ftyFromProto(f *schema_j5pb.Field) (FTy, bool) {
	switch t := f.GetType().(type) {
	case *schema_j5pb.Field_Integer:
		if t.Integer.Format < 1 || t.Integer.Format > 4 {
			return FTy{}, false
		}
		out := FTy{Kind: TInt, IK: IKind(t.Integer.Format - 1), List: lpayFromMsg(t.Integer.ListRules)}
		if r := t.Integer.Rules; r != nil {
			out.Int = &IntRules{Min: r.Minimum, Max: r.Maximum, XMin: r.ExclusiveMinimum, XMax: r.ExclusiveMaximum, Mult: r.MultipleOf}
		}
		return out, true
	case *schema_j5pb.Field_String_:
		out := FTy{Kind: TStr}
		if t.String_ == nil {
			return out, true
		}
		out.SFormat = t.String_.Format
		if r := t.String_.Rules; r != nil {
			out.Str = &StrRules{Pat: r.Pattern, Min: r.MinLength, Max: r.MaxLength}
		}
		if t.String_.ListRules != nil {
			out.List = &LPay{Searchable: t.String_.ListRules.GetSearching().GetSearchable()}
		}
		return out, true
	case *schema_j5pb.Field_Bytes:
		out := FTy{Kind: TBytes}
		if r := t.Bytes.Rules; r != nil {
			out.Len = &LenRules{Min: r.MinLength, Max: r.MaxLength}
		}
		return out, true
	case *schema_j5pb.Field_Bool:
		out := FTy{Kind: TBool, List: lpayFromMsg(t.Bool.ListRules)}
		if r := t.Bool.Rules; r != nil {
			out.HasBool, out.Const = true, r.Const
		}
		return out, true
	case *schema_j5pb.Field_Enum:
		out := FTy{Kind: TEnum, List: lpayFromMsg(t.Enum.ListRules)}
		if r := t.Enum.Rules; r != nil {
			out.Enum = &EnumRules{In: r.In, NotIn: r.NotIn}
		}
		return out, true
	case *schema_j5pb.Field_Key:
		out := FTy{Kind: TKey, List: lpayFromMsg(t.Key.ListRules)}
		switch ft := t.Key.GetFormat().GetType().(type) {
		case *schema_j5pb.KeyFormat_Informal_:
			out.KF = KInformal
		case *schema_j5pb.KeyFormat_Custom_:
			out.KF, out.KPat = KCustom, ft.Custom.Pattern
		case *schema_j5pb.KeyFormat_Uuid:
			out.KF = KUuid
		case *schema_j5pb.KeyFormat_Id62:
			out.KF = KId62
		}
		if e := t.Key.Entity; e != nil {
			ek := &EntityKey{TenantKey: e.TenantKey}
			switch et := e.Type.(type) {
			case *schema_j5pb.EntityKey_PrimaryKey:
				ek.Primary = ptr(et.PrimaryKey)
			case *schema_j5pb.EntityKey_ForeignKey:
				ek.ForeignP, ek.ForeignE = ptr(et.ForeignKey.GetPackage()), ptr(et.ForeignKey.GetEntity())
			}
			out.Entity = ek
		}
		return out, true
	case *schema_j5pb.Field_Float:
		if t.Float.Format != schema_j5pb.FloatField_FORMAT_FLOAT32 && t.Float.Format != schema_j5pb.FloatField_FORMAT_FLOAT64 {
			return FTy{}, false
		}
		return FTy{Kind: TFloat, F64: t.Float.Format == schema_j5pb.FloatField_FORMAT_FLOAT64, FloatR: t.Float.Rules != nil, List: lpayFromMsg(t.Float.ListRules)}, true
	case *schema_j5pb.Field_Date:
		out := FTy{Kind: TDate, List: lpayFromMsg(t.Date.ListRules)}
		if r := t.Date.Rules; r != nil {
			out.Txt = &TxtRules{Min: r.Minimum, Max: r.Maximum, XMin: r.ExclusiveMinimum, XMax: r.ExclusiveMaximum}
		}
		return out, true
	case *schema_j5pb.Field_Decimal:
		out := FTy{Kind: TDecimal, List: lpayFromMsg(t.Decimal.ListRules)}
		if r := t.Decimal.Rules; r != nil {
			out.Txt = &TxtRules{Min: r.Minimum, Max: r.Maximum, XMin: r.ExclusiveMinimum, XMax: r.ExclusiveMaximum}
		}
		return out, true
	case *schema_j5pb.Field_Timestamp:
		out := FTy{Kind: TTimestamp, List: lpayFromMsg(t.Timestamp.ListRules)}
		if r := t.Timestamp.Rules; r != nil {
			out.TS = &TSRules{XMin: r.ExclusiveMinimum, XMax: r.ExclusiveMaximum}
			if r.Minimum != nil {
				out.TS.Min = ptr(r.Minimum.Seconds)
			}
			if r.Maximum != nil {
				out.TS.Max = ptr(r.Maximum.Seconds)
			}
		}
		return out, true
	case *schema_j5pb.Field_Any:
		return FTy{Kind: TAny, AnyOD: t.Any.OnlyDefined, AnyT: t.Any.Types, List: lpayFromMsg(t.Any.ListRules)}, true
	case *schema_j5pb.Field_Object:
		out := FTy{Kind: TObject, Flatten: t.Object.Flatten}
		if ref := t.Object.GetRef(); ref != nil && ref.Package == "foo.v1" && ref.Schema != "Bar" {
			out.Ref = ref.Schema // (anything unexpected fails the rebuild check in propFromProto)
		}
		if r := t.Object.Rules; r != nil {
			out.ObjR = &ObjRules{Min: r.MinProperties, Max: r.MaxProperties}
		}
		return out, true
	case *schema_j5pb.Field_Oneof:
		out := FTy{Kind: TOneof, OneofR: t.Oneof.Rules != nil, List: lpayFromMsg(t.Oneof.ListRules)}
		if ref := t.Oneof.GetRef(); ref != nil && ref.Package == "foo.v1" && ref.Schema != "Choice" {
			out.Ref = ref.Schema
		}
		return out, true
	}
	return FTy{}, false
}

// propFromProto abstracts a reflected property; ok=false when the abstraction
// loses anything (checked by rebuilding).
func propFromProto(env EnumEnv, op *schema_j5pb.ObjectProperty) (Prop, bool) {
	p := Prop{Name: op.Name, Req: op.Required, Opt: op.ExplicitlyOptional, Desc: op.Description}
	var ok bool
	switch t := op.GetSchema().GetType().(type) {
	case *schema_j5pb.Field_Array:
		p.PK = PArray
		if r := t.Array.Rules; r != nil {
			p.Arr = &ArrRules{Min: r.MinItems, Max: r.MaxItems, Uniq: r.UniqueItems}
		}
		p.Single = t.Array.GetExt().SingleForm
		p.T, ok = ftyFromProto(t.Array.Items)
	case *schema_j5pb.Field_Map:
		p.PK = PMap
		if r := t.Map.Rules; r != nil {
			p.MapR = &MapRules{Min: r.MinPairs, Max: r.MaxPairs}
		}
		if e := t.Map.Ext; e != nil {
			p.MapExt = &MapExt{Single: e.SingleForm}
		}
		p.T, ok = ftyFromProto(t.Map.ItemSchema)
	default:
		p.T, ok = ftyFromProto(op.Schema)
	}
	if !ok || len(op.ProtoField) != 1 {
		return p, false
	}
	return p, proto.Equal(p.toProto(env, op.ProtoField[0]), op)
}

// ---------------------------------------------------------------- normal form (mirrors norm_prop)

func shortName(env EnumEnv, n string) string { return strings.TrimPrefix(n, env.Prefix) }

func cleanDesc(d string) string {
	if d == "" {
		return ""
	}
	var out []string
	blank := 0
	for _, l := range strings.Split(d, "\n") {
		l = strings.TrimSpace(l)
		if l == "" {
			if len(out) > 0 {
				blank++
			}
			continue
		}
		if strings.HasPrefix(l, "#") {
			continue
		}
		for ; blank > 0; blank-- {
			out = append(out, "") // a paragraph break between two lines survives
		}
		out = append(out, l)
	}
	return strings.Join(out, "\n")
}

// descPlain: the description survives the reader's commentDescription unchanged
func descPlain(d string) bool { return cleanDesc(d) == d }

// descExpressible: the j5s text can say this description (no padded lines)
func descExpressible(d string) bool {
	for _, l := range strings.Split(d, "\n") {
		if strings.TrimSpace(l) != l {
			return false
		}
	}
	return true
}

func normProp(env EnumEnv, p Prop) Prop {
	q := p // the description stays as declared
	q.Req = p.Req || (isPrimary(p) && p.PK != PMap)
	t := p.T
	switch t.Kind {
	case TInt:
		if r := t.Int; r != nil {
			n := &IntRules{Min: r.Min, Max: r.Max, Mult: r.Mult}
			if r.Min != nil && isTrue(r.XMin) {
				n.XMin = ptr(true)
			}
			if r.Max != nil && isTrue(r.XMax) {
				n.XMax = ptr(true)
			}
			t.Int = n
		}
	case TBytes:
		if t.Len == nil {
			t.Len = &LenRules{}
		}
	case TBool:
		if t.Const == nil {
			t.HasBool = false
		}
	case TEnum:
		n := &EnumRules{}
		if r := t.Enum; r != nil {
			for _, x := range r.In {
				n.In = append(n.In, shortName(env, x))
			}
			for _, x := range r.NotIn {
				n.NotIn = append(n.NotIn, shortName(env, x))
			}
		}
		t.Enum = n
	case TKey:
		if e := t.Entity; e != nil {
			n := *e
			if n.Primary != nil && !*n.Primary {
				n.Primary = nil
			}
			t.Entity = &n
		}
	case TTimestamp:
		if r := t.TS; r != nil {
			n := &TSRules{Min: r.Min, Max: r.Max}
			if r.Min != nil && isTrue(r.XMin) {
				n.XMin = ptr(true)
			}
			if r.Max != nil && isTrue(r.XMax) {
				n.XMax = ptr(true)
			}
			t.TS = n
		}
	case TObject:
		if r := t.ObjR; r != nil && r.Min == nil && r.Max == nil {
			t.ObjR = nil // rules without content: present = absent
		}
	case TOneof:
		t.OneofR = false // OneofField.Rules has no fields
	}
	q.T = t
	// the reader reports (empty) array rules whenever the field carries a repeated
	// constraint, i.e. also when only the items have one
	if p.PK == PArray && p.Arr == nil && itemsCarryConstraint(p.T) {
		q.Arr = &ArrRules{}
	}
	if p.PK == PMap && p.MapR == nil && itemsCarryConstraint(p.T) {
		q.MapR = &MapRules{}
	}
	return q
}

// does buildField emit a (buf.validate.field) for this item type?
func itemsCarryConstraint(t FTy) bool {
	switch t.Kind {
	case TInt:
		return t.Int != nil
	case TStr:
		return t.Str != nil
	case TBytes:
		return t.Len != nil
	case TBool:
		return t.HasBool
	case TEnum:
		return true
	case TKey:
		return t.KF != KNone
	case TTimestamp:
		return t.TS != nil
	case TObject:
		return t.ObjR != nil
	case TOneof:
		return t.OneofR
	}
	return false
}

// collapse a diff path to the component that names the rule group, so that a
// signature does not depend on which individual rule values were generated
func collapse(paths []string, isMap bool) []string {
	set := map[string]bool{}
	for _, p := range paths {
		if isMap {
			if i := strings.Index(p, ".itemSchema"); i >= 0 {
				p = p[:i+len(".itemSchema")]
			}
		}
		for _, stop := range []string{".rules", ".listRules", ".format", ".entity"} {
			if i := strings.Index(p, stop+"."); i >= 0 {
				p = p[:i+len(stop)]
			}
		}
		set[p] = true
	}
	var out []string
	for p := range set {
		out = append(out, p)
	}
	sort.Strings(out)
	return out
}

// ---------------------------------------------------------------- reflection

func retype(files []protoreflect.FileDescriptor, path string) (protoreflect.FileDescriptor, error) {
	set := &descriptorpb.FileDescriptorSet{}
	for _, f := range compile.WithDeps(files) {
		b, err := proto.Marshal(compile.ToProto(f))
		if err != nil {
			return nil, err
		}
		fdp := &descriptorpb.FileDescriptorProto{}
		if err := proto.Unmarshal(b, fdp); err != nil {
			return nil, err
		}
		set.File = append(set.File, fdp)
	}
	reg, err := protodesc.NewFiles(set)
	if err != nil {
		return nil, err
	}
	return reg.FindFileByPath(path)
}

// reflectStripped: the object reflected from the in-memory descriptors after
// removing the options of the value fields of its map entries — what the
// printed text can at most carry (map<K,V> syntax has no place for them)
func reflectStripped(files []protoreflect.FileDescriptor, path string, msg protoreflect.Name) (r reflected) {
	defer func() {
		if p := recover(); p != nil {
			r.panic = p
		}
	}()
	set := &descriptorpb.FileDescriptorSet{}
	for _, f := range compile.WithDeps(files) {
		b, err := proto.Marshal(compile.ToProto(f))
		if err != nil {
			r.err = err
			return
		}
		fdp := &descriptorpb.FileDescriptorProto{}
		if err := proto.Unmarshal(b, fdp); err != nil {
			r.err = err
			return
		}
		if fdp.GetName() == path {
			for _, m := range fdp.MessageType {
				if m.GetName() != string(msg) {
					continue
				}
				// `optional` on a repeated field is not printable either (and protodesc
				// refuses it); the reader ignores it there: drop it with its synthetic oneof
				for _, f := range m.Field {
					if f.GetLabel() == descriptorpb.FieldDescriptorProto_LABEL_REPEATED {
						f.Proto3Optional = nil
						f.OneofIndex = nil
					}
				}
				used := map[int32]int32{}
				var decls []*descriptorpb.OneofDescriptorProto
				for _, f := range m.Field {
					if f.OneofIndex != nil {
						if _, ok := used[*f.OneofIndex]; !ok {
							used[*f.OneofIndex] = int32(len(decls))
							decls = append(decls, m.OneofDecl[*f.OneofIndex])
						}
						f.OneofIndex = proto.Int32(used[*f.OneofIndex])
					}
				}
				m.OneofDecl = decls
				for _, n := range m.NestedType {
					if n.GetOptions().GetMapEntry() {
						for _, f := range n.Field {
							if f.GetNumber() == 2 {
								f.Options = nil
							}
						}
					}
				}
			}
		}
		set.File = append(set.File, fdp)
	}
	reg, err := protodesc.NewFiles(set)
	if err != nil {
		r.err = err
		return
	}
	fd, err := reg.FindFileByPath(path)
	if err != nil {
		r.err = err
		return
	}
	md := fd.Messages().ByName(msg)
	if md == nil {
		r.err = fmt.Errorf("message missing")
		return
	}
	return reflectObject(md)
}

type reflected struct {
	obj     *schema_j5pb.Object
	enum    *schema_j5pb.Enum // the enum the sentinel property zz refers to
	isOneof bool
	md      protoreflect.MessageDescriptor
	err     error
	panic   any
}

func reflectObject(md protoreflect.MessageDescriptor) (r reflected) {
	r.md = md
	defer func() {
		if p := recover(); p != nil {
			r.panic = p
		}
	}()
	s, err := j5schema.NewSchemaCache().Schema(md)
	if err != nil {
		r.err = err
		return
	}
	root := s.ToJ5Root()
	r.obj = root.GetObject()
	if o := root.GetOneof(); o != nil {
		// a oneof root has the same shape: name, description, properties
		r.obj = &schema_j5pb.Object{Name: o.Name, Description: o.Description, Properties: o.Properties}
		r.isOneof = true
	}
	if r.obj == nil {
		r.err = fmt.Errorf("root schema is neither an object nor a oneof")
		return
	}
	var ps j5schema.PropertySet
	switch st := s.(type) {
	case *j5schema.ObjectSchema:
		ps = st.Properties
	case *j5schema.OneofSchema:
		ps = st.Properties
	}
	if zz := ps.ByJSONName("zz"); zz != nil {
		if ef, ok := zz.Schema.(*j5schema.EnumField); ok {
			r.enum = ef.Schema().ToJ5Root().GetEnum()
		}
	}
	return
}

// the same object reflected from the printed .proto text, parsed the way the
// toolchain reads generated files back (protosrc compiler, comments kept)
func reflectFromText(f protoreflect.FileDescriptor, msg protoreflect.Name) (r reflected, text string) {
	defer func() {
		if p := recover(); p != nil {
			r.panic = p
		}
	}()
	text, err := compile.PrintFile(context.Background(), f)
	if err != nil {
		r.err = fmt.Errorf("print: %w", err)
		return
	}
	parsed, err := tool.ParseProto(context.Background(), map[string]string{"foo/v1/a.proto": text}, []string{"foo/v1/a.proto"})
	if err != nil {
		r.err = fmt.Errorf("parse printed text: %w", err)
		return
	}
	rf, err := retype(parsed, "foo/v1/a.proto")
	if err != nil {
		r.err = fmt.Errorf("retype: %w", err)
		return
	}
	md := rf.Messages().ByName(msg)
	if md == nil {
		r.err = fmt.Errorf("message missing in re-parsed text")
		return
	}
	return reflectObject(md), text
}

// diffPaths: the JSON paths on which two messages differ.
func diffPaths(a, b proto.Message) []string {
	var ja, jb map[string]any
	_ = unmarshalJSON(a, &ja)
	_ = unmarshalJSON(b, &jb)
	var out []string
	var walk func(prefix string, x, y any)
	walk = func(prefix string, x, y any) {
		mx, okx := x.(map[string]any)
		my, oky := y.(map[string]any)
		if okx || oky {
			if !okx {
				mx = map[string]any{}
				if x != nil {
					out = append(out, prefix)
					return
				}
			}
			if !oky {
				my = map[string]any{}
				if y != nil {
					out = append(out, prefix)
					return
				}
			}
			if (x == nil) != (y == nil) && len(mx) == 0 && len(my) == 0 {
				out = append(out, prefix) // {} vs absent
				return
			}
			keys := map[string]bool{}
			for k := range mx {
				keys[k] = true
			}
			for k := range my {
				keys[k] = true
			}
			var ks []string
			for k := range keys {
				ks = append(ks, k)
			}
			sort.Strings(ks)
			for _, k := range ks {
				walk(prefix+"."+k, mx[k], my[k])
			}
			return
		}
		if fmt.Sprint(x) != fmt.Sprint(y) {
			out = append(out, prefix)
		}
	}
	walk("", ja, jb)
	return out
}

func unmarshalJSON(m proto.Message, into *map[string]any) error {
	b, err := protojson.MarshalOptions{EmitUnpopulated: false}.Marshal(m)
	if err != nil {
		return err
	}
	return jsonUnmarshal(b, into)
}

func shapeOf(p Prop) string {
	s := itemTypeName[p.T.Kind]
	if p.T.Kind == TKey {
		s += []string{"", ":informal", ":custom", ":uuid", ":id62"}[p.T.KF]
	}
	switch p.PK {
	case PArray:
		return "array of " + s
	case PMap:
		return "map of " + s
	}
	return s
}

func runC04(cfg *vh.Config) error {
	res := vh.NewResult("C04", cfg.Seed)
	res.Rule = "objects of 2-7 properties (every 32nd unit 11-24; the first unit 16 pinned ones) over every field type (integer x4, string, bytes, bool, enum, key x5 formats with entity keys, float x2, date, decimal, timestamp, any, object (flatten), oneof), each plain / required / optional / array (rules, singleForm) / map, every validation rule absent / zero / boundary, both values of every boolean, list rules (filtering, default filters, sorting, default sort, searching), descriptions; non-trivial = distinct property declaration carrying at least one rule, flag, format or annotation"
	cf := &vh.CasesFile{
		Header: "From Coq Require Import String List NArith ZArith.\nFrom J5V.lib Require Import Outcome.\nFrom J5V.model Require Import ProtoPrintLit ProtoPrint ProtoPrintFile.\nFrom J5V.model Require Import RulesDecl RulesRead RulesEnum RulesNested RulesInlineEnum RulesCompile RulesReadCorr.",
		Type:   "c04case",
		Check:  "c04_check",
	}
	// consecutive seeds of vh.NewRand are one draw apart (state = seed*G + c, each draw adds G):
	// fork, so that VERIF_SEED=1,2,3 are unrelated streams
	r := cfg.R.Fork("C04")
	genTSBounds, genKeyWellKnown = false, true
	genMapExt = true
	defer func() { genMapExt = false }()
	nObj := cfg.Scale(260, 4000)
	distinct := vh.Distinct{}
	caseNo := 0
	evals := 0
	for u := 0; u < nObj; u++ {
		genAST = r.Chance(25)
		if genAST {
			res.Count("unit-via-ast")
		}
		env := genEnum(r)
		kind := "object"
		if r.Chance(15) {
			kind = "oneof"
		}
		var props []genDecl
		nProps := r.Range(2, 7)
		if u%32 == 5 {
			// pinned: objects with more than 10 properties (field numbers of two digits:
			// the printed order of the fields is the numeric one, not the order of the
			// number's text; seeded C04-E)
			nProps = r.Range(11, 24)
			res.Count("object-with-more-than-10-properties")
		}
		if u == 0 {
			genAST = false
			env = theEnumZ
			kind = "object"
			props = pinnedC04()
			nProps = 0
			res.Count("unit-pinned")
		}
		for i, n := 0, nProps; i < n; i++ {
			gd := genProp04(r, propName(r, i), env)
			if refused(gd.Class) {
				continue // compile failures are C12's stream
			}
			if gd.P.T.Kind == TEnum && env.Unspecified != "" && env.Unspecified != "UNSPECIFIED" && env.Unspecified != env.Prefix+"UNSPECIFIED" {
				gd.P.T.Enum = nil // the odd-UNSPECIFIED finding (below) would spill into every name of in / not-in
			}
			if kind == "oneof" && (gd.P.PK != PSingle || gd.P.Opt) {
				continue // members of a proto oneof are singular and have presence already
			}
			props = append(props, gd)
		}
		if len(props) == 0 {
			continue
		}
		dedupProps(props) // client property names through flatten levels: a clash is not a valid package (pinned ones: nested stream)
		objDesc := genDesc(r)
		var pl []Prop
		for _, p := range props {
			pl = append(pl, p.P)
		}
		pl = append(pl, sentinel)
		c, src := compileRoot(kind, env, objDesc, pl)
		evals++
		res.Count(kind)
		var dterms []string
		for _, p := range props {
			dterms = append(dterms, p.P.XCoq())
			if p.P.MapExt != nil {
				res.Count("decl:map with ext")
			}
			res.Count("decl:" + shapeOf(p.P))
			distinct.Add(p.P.Coq())
		}
		input := map[string]any{"j5s": src}
		if c.err != nil || c.panic != nil {
			res.Count("compile-failed")
			res.Fail(vh.Failure{Case: caseNo, Stream: "compile", Sig: "C04 valid declaration does not compile: " + firstWords(fmt.Sprint(c.err, c.panic), 8),
				Clause: "the package compiles", Input: input, Got: fmt.Sprint(c.err, c.panic)})
			caseNo++
			continue
		}
		md := c.file.Messages().ByName("Foo")
		if md == nil || md.Fields().Len() != len(pl) {
			res.Fail(vh.Failure{Case: caseNo, Stream: "compile", Sig: "C04 compiled object has a different number of fields", Clause: "same properties", Input: input, Got: "shape"})
			caseNo++
			continue
		}
		var outs []string
		for i := range props {
			outs = append(outs, foutTerm(md.Fields().Get(i)))
		}
		mem := reflectObject(md)
		txt, text := reflectFromText(c.file, "Foo")
		// ---- stream: the reader's check of client property names (through flatten levels) vs tree_names_ok
		{
			clash := mem.err != nil && isClientNameClash(mem.err.Error())
			cf.Terms = append(cf.Terms, fmt.Sprintf("C04Names %s (MT (RO %s %s (Some %s) [%s]) []) %s", fixedRefsTerm(), vh.BytesTerm("Foo"), vh.BytesTerm(""),
				map[string]string{"object": "RObject", "oneof": "ROneof"}[kind], strings.Join(outs, ";"), vh.BoolTerm(clash)))
			res.Cases = append(res.Cases, vh.CaseRec{Case: caseNo, Stream: "client-names", Input: input, Impl: map[string]any{"reader_refuses_name_clash": clash}})
			res.Count("client-names")
		}
		// ---- stream: model reader vs real reflector
		refl := `(Err "reflect")`
		if mem.panic != nil {
			refl = `(Panic "reflect")`
		}
		var reflProps []*schema_j5pb.ObjectProperty
		if mem.obj != nil {
			reflProps = mem.obj.Properties
			var terms []string
			for i := range props {
				if i >= len(reflProps) {
					break
				}
				ap, ok := propFromProto(env, reflProps[i])
				if !ok || len(reflProps[i].ProtoField) != 1 {
					terms = append(terms, "None")
					res.Count("reflected-unrepresentable")
					continue
				}
				terms = append(terms, rxTerm(ap, reflProps[i].ProtoField[0]))
			}
			refl = "(Ok [" + strings.Join(terms, ";") + "])"
		}
		// the direct oracle's verdict per property (declared = reflected), compared in
		// Coq with rt_ok: the exactness theorem says they coincide
		var same []string
		for i, p := range props {
			eq := false
			if i < len(reflProps) {
				eq = proto.Equal(normProp(env, p.P).toProto(env, int32(i+1)), reflProps[i])
			}
			same = append(same, vh.BoolTerm(eq))
		}
		cf.Terms = append(cf.Terms, fmt.Sprintf("C04Case %s [%s] [%s] %s [%s]", env.Coq(), strings.Join(dterms, ";"), strings.Join(outs, ";"), refl, strings.Join(same, ";")))
		res.Cases = append(res.Cases, vh.CaseRec{Case: caseNo, Stream: "object", Input: input, Impl: map[string]any{"reflected": protoString(mem.obj), "error": fmt.Sprint(mem.err), "panic": fmt.Sprint(mem.panic)}})
		res.Sample(map[string]any{"j5s": src, "reflected": protoString(mem.obj)}, 3)

		// ---- the head of the root schema: kind, name, description
		{
			kindTerm := map[string]string{"object": "RObject", "oneof": "ROneof"}
			obsOpt := "None"
			if mo, ok := proto.GetExtension(md.Options(), ext_j5pb.E_Message).(*ext_j5pb.MessageOptions); ok && mo != nil {
				switch mo.Type.(type) {
				case *ext_j5pb.MessageOptions_Object:
					obsOpt = "(Some RObject)"
				case *ext_j5pb.MessageOptions_Oneof:
					obsOpt = "(Some ROneof)"
				}
			}
			reflHead := "None"
			if mem.obj != nil {
				rk := "RObject"
				if mem.isOneof {
					rk = "ROneof"
				}
				reflHead = fmt.Sprintf("(Some (%s, %s, %s))", rk, vh.BytesTerm(mem.obj.Name), vh.BytesTerm(mem.obj.Description))
			}
			if mem.obj != nil { // (an object that does not reflect because of a property is reported below)
				cf.Terms = append(cf.Terms, fmt.Sprintf("C04Root %s %s %s %s %s %s %s", kindTerm[kind], vh.BytesTerm("Foo"), vh.BytesTerm(objDesc),
					vh.BytesTerm(string(md.Name())), vh.BytesTerm(declaredComment(md)), obsOpt, reflHead))
				res.Cases = append(res.Cases, vh.CaseRec{Case: caseNo, Stream: "root", Input: input, Impl: map[string]any{"reflected_head": reflHead}})
				res.Count("root")
			}
		}

		// ---- the decoder of the text clause: each compiled field as a descriptor of the file
		// model (option trees as the printer walks them) vs the annotation record dumped above
		for i := range props {
			dt, err := dfieldTerm(md.Fields().Get(i))
			if err != nil {
				res.Count("view-skipped")
				continue
			}
			cf.Terms = append(cf.Terms, fmt.Sprintf("C04View %s %s", dt, outs[i]))
			res.Cases = append(res.Cases, vh.CaseRec{Case: caseNo, Stream: "view", Input: map[string]any{"j5s": props[i].P.J5S(env)}, Impl: map[string]any{"annotations": outs[i]}})
			res.Count("view")
		}

		// ---- the whole file through the models of the text path: print -> parse -> decode ->
		// read in Coq vs the real reflector on the really printed and re-parsed text; and the
		// descriptor-side hypotheses of C04_text_checked evaluated on the real descriptor
		if txt.panic == nil && (txt.obj != nil || txt.err != nil) && !strings.HasPrefix(fmt.Sprint(txt.err), "print:") && !strings.HasPrefix(fmt.Sprint(txt.err), "parse printed text:") {
			dterm, unsupported := dfileDump(c.file)
			if unsupported != "" {
				res.Count("file-outside-model")
			} else {
				textRefl := `(Err "reflect")`
				if txt.obj != nil {
					var terms []string
					for _, rp := range txt.obj.Properties {
						ap, ok := propFromProto(env, rp)
						if !ok || len(rp.ProtoField) != 1 {
							terms = append(terms, "None")
							res.Count("text-reflected-unrepresentable")
							continue
						}
						terms = append(terms, fmt.Sprintf("(Some (RP %s [%d]))", ap.Coq(), rp.ProtoField[0]))
					}
					textRefl = "(Ok [" + strings.Join(terms, ";") + "])"
				}
				cf.Terms = append(cf.Terms, fmt.Sprintf("C04File %s %s %s %s %s", env.Coq(), impDump(c.file), dterm, vh.BytesTerm("Foo"), textRefl))
				res.Cases = append(res.Cases, vh.CaseRec{Case: caseNo, Stream: "file", Input: map[string]any{"j5s": src, "proto": text}, Impl: map[string]any{"reflected_from_text": protoString(txt.obj), "error": fmt.Sprint(txt.err)}})
				res.Count("file")
			}
		}

		// ---- the enum as a root schema: declared vs compiled vs reflected
		ed := c.file.Enums().ByName(protoreflect.Name(env.Name))
		if ed == nil {
			res.Fail(vh.Failure{Case: caseNo, Stream: "enum", Sig: "C04 compiled file has no enum of the declared name", Clause: "for every object, oneof and enum", Input: input, Got: "missing"})
		} else {
			var vals []string
			for i := 0; i < ed.Values().Len(); i++ {
				v := ed.Values().Get(i)
				var vinfo map[string]string
				if x, ok := proto.GetExtension(v.Options(), ext_j5pb.E_EnumValue).(*ext_j5pb.EnumValueOptions); ok && x != nil {
					vinfo = x.Info
				}
				vals = append(vals, fmt.Sprintf("(%s, (%d)%%Z, %s, %s)", vh.BytesTerm(string(v.Name())), v.Number(), vh.BytesTerm(declaredComment(v)), infoTerm(vinfo)))
			}
			var efields [][3]string
			if x, ok := proto.GetExtension(ed.Options(), ext_j5pb.E_Enum).(*ext_j5pb.EnumOptions); ok && x != nil {
				for _, f := range x.InfoFields {
					efields = append(efields, [3]string{f.Name, f.Label, f.Description})
				}
			}
			obsEnum := fmt.Sprintf("(EO %s [%s] %s)", vh.BytesTerm(declaredComment(ed)), strings.Join(vals, ";"), infoFieldsTerm(efields))
			reflEnum := `(Err "reflect")`
			if mem.panic != nil {
				reflEnum = `(Panic "reflect")`
			}
			if mem.enum != nil {
				var ros []string
				for _, o := range mem.enum.Options {
					ros = append(ros, fmt.Sprintf("(%s, (%d)%%Z, %s, %s)", vh.BytesTerm(o.Name), o.Number, vh.BytesTerm(o.Description), infoTerm(o.Info)))
				}
				var rfields [][3]string
				for _, f := range mem.enum.Info {
					rfields = append(rfields, [3]string{f.Name, f.Label, f.Description})
				}
				reflEnum = fmt.Sprintf("(Ok (RE %s %s [%s] %s))", vh.BytesTerm(mem.enum.Description), vh.BytesTerm(mem.enum.Prefix), strings.Join(ros, ";"), infoFieldsTerm(rfields))
				if mem.enum.Name != env.Name {
					reflEnum = `(Err "outside the model")`
				}
				// direct oracle: the declared enum
				want := expectedEnum(env)
				evals++
				if !proto.Equal(want, mem.enum) {
					sig := "C04 enum: reflected schema differs from the declared one at " + strings.Join(collapse(diffPaths(want, mem.enum), false), " ")
					if env.Unspecified != "" && env.Unspecified != "UNSPECIFIED" && env.Unspecified != env.Prefix+"UNSPECIFIED" && allUnder(diffPaths(want, mem.enum), []string{".prefix", ".options"}) {
						sig = "C04 enum whose explicit first option is another name ending in UNSPECIFIED: the reflected prefix and option names are derived from it"
					}
					res.Fail(vh.Failure{Case: caseNo, Stream: "enum", Sig: sig,
						Clause: "for every object, oneof and enum: the schema the source declared", Input: map[string]any{"j5s": env.J5S()}, Got: protoString(mem.enum), Want: protoString(want)})
				} else {
					res.Count("enum-equal")
				}
				if txt.enum != nil && !proto.Equal(txt.enum, mem.enum) {
					res.Fail(vh.Failure{Case: caseNo, Stream: "text", Sig: "C04 enum schema reflected from the printed .proto text differs from the in-memory one", Clause: "the same schema is obtained from the generated .proto text", Input: map[string]any{"j5s": env.J5S(), "proto": text}, Got: protoString(txt.enum), Want: protoString(mem.enum)})
				}
			}
			// ---- the text clause: the reader's view of every field after print + parse
			if txt.md != nil && mem.obj != nil && txt.obj != nil && txt.md.Fields().Len() == md.Fields().Len() {
				var touts []string
				for i := range props {
					touts = append(touts, foutTerm(txt.md.Fields().Get(i)))
				}
				sameSchema := true
				for i := range props {
					if i >= len(mem.obj.Properties) || i >= len(txt.obj.Properties) || !proto.Equal(mem.obj.Properties[i], txt.obj.Properties[i]) {
						sameSchema = false
					}
				}
				cf.Terms = append(cf.Terms, fmt.Sprintf("C04Text [%s] [%s] %s", strings.Join(outs, ";"), strings.Join(touts, ";"), vh.BoolTerm(sameSchema)))
				res.Cases = append(res.Cases, vh.CaseRec{Case: caseNo, Stream: "text", Input: input, Impl: map[string]any{"same_schema": sameSchema}})
				res.Count("text-view")
				if strings.Join(outs, ";") == strings.Join(touts, ";") {
					res.Count("text-view-identical")
				}
			}
			if mem.enum == nil && mem.err != nil && mem.panic == nil {
				// the enum is reached through the object; the object did not reflect (reported below)
				res.Count("enum-not-reflected")
			} else {
				cf.Terms = append(cf.Terms, fmt.Sprintf("C04Enum %s %s %s", env.DeclCoq(), obsEnum, reflEnum))
				res.Cases = append(res.Cases, vh.CaseRec{Case: caseNo, Stream: "enum", Input: map[string]any{"j5s": env.J5S()}, Impl: map[string]any{"compiled": obsEnum, "reflected": protoString(mem.enum)}})
				res.Count("enum")
			}
		}

		// ---- direct oracle 1: declared vs reflected
		switch {
		case mem.panic != nil:
			res.Count("reflect-panic")
			res.Fail(vh.Failure{Case: caseNo, Stream: "reflect", Sig: "C04 reflecting the compiled object panics: " + firstWords(fmt.Sprint(mem.panic), 8), Clause: "reflection yields the declared schema", Input: input, Got: fmt.Sprint(mem.panic)})
		case mem.err != nil:
			res.Count("reflect-error")
			sig := "C04 reflecting the compiled object fails: " + firstWords(mem.err.Error(), 8)
			if strings.Contains(mem.err.Error(), "is not compatible with list.unique_string") {
				for _, p := range props {
					t := p.P.T
					if t.Kind == TKey && t.KF == KCustom && t.List != nil && p.P.PK != PMap && (t.KPat == wellKnownPatterns[0] || t.KPat == wellKnownPatterns[1] || t.KPat == wellKnownPatterns[2]) {
						sig = "C04 key:custom whose pattern is one of the reader's well-known patterns (date / number / id62) and which carries list rules: the reader fails (string format is not compatible with list.unique_string), the object does not reflect"
					}
				}
			}
			if strings.Contains(mem.err.Error(), "open_text and format") {
				for _, p := range props {
					t := p.P.T
					if t.Kind == TStr && t.List != nil && t.Str != nil && t.Str.Pat != nil && (*t.Str.Pat == wellKnownPatterns[0] || *t.Str.Pat == wellKnownPatterns[1] || *t.Str.Pat == wellKnownPatterns[2]) {
						sig = "C04 string whose pattern is one of the reader's well-known patterns (date / number / id62) and which carries list rules: the reader fails (open_text and format do not match), the object does not reflect"
					}
				}
			}
			res.Fail(vh.Failure{Case: caseNo, Stream: "reflect", Sig: sig, Clause: "reflection yields the declared schema", Input: input, Got: mem.err.Error()})
		default:
			res.Count("reflected")
			if mem.isOneof != (kind == "oneof") {
				res.Fail(vh.Failure{Case: caseNo, Stream: "reflect", Sig: "C04 root schema kind differs (object vs oneof)", Clause: "for every object, oneof and enum", Input: input, Got: protoString(mem.obj)})
			}
			if mem.obj.Name != "Foo" || mem.obj.Description != objDesc {
				res.Fail(vh.Failure{Case: caseNo, Stream: "reflect", Sig: "C04 object name/description differs", Clause: "descriptions", Input: input, Got: protoString(mem.obj)})
			}
			if len(reflProps) != len(pl) {
				res.Fail(vh.Failure{Case: caseNo, Stream: "reflect", Sig: "C04 number of properties differs", Clause: "same property names, order", Input: input, Got: protoString(mem.obj)})
			}
			for i, p := range props {
				if i >= len(reflProps) {
					break
				}
				evals++
				want := normProp(env, p.P).toProto(env, int32(i+1))
				if proto.Equal(want, reflProps[i]) {
					res.Count("property-equal")
					continue
				}
				raw := diffPaths(want, reflProps[i])
				if !descExpressible(p.P.Desc) { // a padded description cannot be written in j5s text: not judged
					var rest []string
					for _, x := range raw {
						if x != ".description" {
							rest = append(rest, x)
						}
					}
					if raw = rest; len(raw) == 0 {
						res.Count("property-not-judged")
						continue
					}
				}
				res.Count("property-differs")
				paths := collapse(raw, p.P.PK == PMap)
				sigs := explain(p, raw, want, reflProps[i])
				if sigs == nil {
					sigs = []string{fmt.Sprintf("C04 %s: reflected schema differs from the declared one at %s", shapeOf(p.P), strings.Join(paths, " "))}
				}
				for _, sig := range sigs {
					res.Fail(vh.Failure{Case: caseNo, Stream: "reflect", Sig: sig,
						Clause: "reflection yields the declared schema", Input: map[string]any{"j5s": p.P.J5S(env), "object": src},
						Got: protoString(reflProps[i]), Want: protoString(want)})
				}
			}
		}
		// ---- direct oracle 2: the printed text reflects to the same schema
		switch {
		case txt.panic != nil || txt.err != nil:
			if mem.obj != nil {
				res.Fail(vh.Failure{Case: caseNo, Stream: "text", Sig: "C04 reflecting the printed .proto text fails: " + firstWords(fmt.Sprint(txt.err, txt.panic), 8), Clause: "the same schema is obtained from the generated .proto text", Input: map[string]any{"j5s": src, "proto": text}, Got: fmt.Sprint(txt.err, txt.panic)})
			}
		case mem.obj != nil:
			res.Count("text-reflected")
			if !proto.Equal(mem.obj, txt.obj) {
				// one failure per differing property; the signature names where the two
				// reflected schemas differ (collapsed to the rule group)
				reported := map[string]bool{}
				stripped := reflectStripped(c.files, string(c.file.Path()), "Foo")
				for i, p := range props {
					if i >= len(mem.obj.Properties) || i >= len(txt.obj.Properties) || proto.Equal(mem.obj.Properties[i], txt.obj.Properties[i]) {
						continue
					}
					what := "plain"
					if p.P.PK == PMap {
						what = "map"
					}
					paths := collapse(diffPaths(mem.obj.Properties[i], txt.obj.Properties[i]), false)
					sig := fmt.Sprintf("C04 text: %s property reflected from the printed .proto text differs from the in-memory one at %s", what, strings.Join(paths, " "))
					if p.P.PK == PMap && stripped.obj != nil && i < len(stripped.obj.Properties) && proto.Equal(stripped.obj.Properties[i], txt.obj.Properties[i]) {
						sig = "C04 text: options on the value field of a map entry cannot be written in map<,> syntax; the printed text reflects exactly as the descriptor without them does"
					}
					if !reported[sig] {
						reported[sig] = true
						res.Fail(vh.Failure{Case: caseNo, Stream: "text", Sig: sig, Clause: "the same schema is obtained from the generated .proto text",
							Input: map[string]any{"j5s": p.P.J5S(env), "proto": text}, Got: protoString(txt.obj.Properties[i]), Want: protoString(mem.obj.Properties[i])})
					}
				}
				if len(reported) == 0 {
					res.Fail(vh.Failure{Case: caseNo, Stream: "text", Sig: "C04 text: object reflected from the printed .proto text differs from the in-memory one outside its properties", Clause: "the same schema is obtained from the generated .proto text",
						Input: map[string]any{"j5s": src, "proto": text}, Got: protoString(txt.obj), Want: protoString(mem.obj)})
				}
			}
		}
		caseNo++
	}
	genMapExt = false
	runLink(cfg.R.Fork("C04-link"), cfg, res, cf, &caseNo, &evals)
	runNested(cfg.R.Fork("C04-nested"), cfg, res, cf, &caseNo, &evals)
	runInlineEnums(cfg.R.Fork("C04-inline-enum"), cfg, res, cf, &caseNo, &evals)
	res.Evaluations = evals
	res.Distinct = len(distinct)
	per := 120
	shards, err := cf.WriteShards(cfg.Out, "cases", per)
	if err != nil {
		return err
	}
	for i := range res.Cases {
		res.Cases[i].Shard = fmt.Sprintf("cases_%d", i/per)
		res.Cases[i].Pos = i % per
	}
	res.Shards = shards
	return res.Write(cfg.Out)
}

// rxTerm: a reflected property in the extended language (RulesCompile.rxprop):
// the property, integer multipleOf, MapField.Ext
func rxTerm(ap Prop, field int32) string {
	mult := "None"
	if ap.T.Kind == TInt && ap.T.Int != nil {
		mult = optZ(ap.T.Int.Mult)
	}
	ext := "None"
	if ap.PK == PMap && ap.MapExt != nil {
		ext = "(Some " + optS(ap.MapExt.Single) + ")"
	}
	return fmt.Sprintf("(Some (RXP (RP %s [%d]) %s %s))", ap.Coq(), field, mult, ext)
}

// runLink: the validity premise of the statement ("valid j5s packages"): two properties
// of one object whose proto field names (strcase.ToSnake of the property name) coincide
// do not link. Objects of plain properties with names drawn so that they collide now and
// then (the same name twice; fooBar next to foo_bar; aB next to a_b); the model's
// compile_object refuses exactly those.
func runLink(r *vh.Rand, cfg *vh.Config, res *vh.Result, cf *vh.CasesFile, caseNo *int, evals *int) {
	genAST = false
	env := theEnum
	pools := [][]string{{"a", "b", "c", "fooBar", "foo_bar", "fooBAR", "aB", "a_b", "x1", "x_1", "someURL", "someUrl", "some_url", "id", "iD"}}
	for u, n := 0, cfg.Scale(40, 600); u < n; u++ {
		k := r.Range(2, 5)
		var pl []Prop
		seen := map[string]int{}
		collide := false
		for i := 0; i < k; i++ {
			name := vh.Pick(r, pools[0])
			if r.Chance(40) {
				name = fmt.Sprintf("%s%d", name, i) // mostly distinct
			}
			sn := strcase.ToSnake(name)
			if _, dup := seen[sn]; dup {
				collide = true
			}
			seen[sn] = i
			t := vh.Pick(r, []FTy{{Kind: TStr}, {Kind: TInt, IK: I32}, {Kind: TBool}})
			pl = append(pl, Prop{Name: name, T: t})
		}
		c, src := compileRoot("object", env, "", append(append([]Prop{}, pl...), sentinel))
		*evals++
		ok := c.err == nil && c.panic == nil
		var xs []string
		for _, p := range pl {
			xs = append(xs, p.XCoq())
		}
		res.Count("link")
		if collide {
			res.Count("link-collision")
		}
		input := map[string]any{"j5s": src}
		switch {
		case c.panic != nil:
			res.Fail(vh.Failure{Case: *caseNo, Stream: "link", Sig: "C04 link: the compiler panics on an object with colliding property names", Clause: "valid j5s packages", Input: input, Got: fmt.Sprint(c.panic)})
		case ok && collide:
			res.Fail(vh.Failure{Case: *caseNo, Stream: "link", Sig: "C04 link: an object with two properties of the same proto field name compiles", Clause: "valid j5s packages (property names distinct up to strcase.ToSnake)", Input: input, Got: "compiles"})
		case !ok && !collide:
			res.Fail(vh.Failure{Case: *caseNo, Stream: "link", Sig: "C04 link: an object with pairwise different proto field names does not compile: " + firstWords(fmt.Sprint(c.err), 8), Clause: "valid j5s packages", Input: input, Got: fmt.Sprint(c.err)})
		}
		cf.Terms = append(cf.Terms, fmt.Sprintf("C04Link %s [%s] %s", env.Coq(), strings.Join(xs, ";"), vh.BoolTerm(ok)))
		res.Cases = append(res.Cases, vh.CaseRec{Case: *caseNo, Stream: "link", Input: input, Impl: map[string]any{"compiles": ok, "error": fmt.Sprint(c.err)}})
		*caseNo++
	}
}

func protoString(m proto.Message) string {
	if m == nil || !m.ProtoReflect().IsValid() {
		return "<nil>"
	}
	return protojson.MarshalOptions{}.Format(m)
}

func dedup(xs []string) []string {
	var out []string
	for i, x := range xs {
		if i == 0 || x != xs[i-1] {
			out = append(out, x)
		}
	}
	return out
}

// asymmetryClass: the known writer/reader asymmetries, recognised from the
// declaration; the class signature is used only when every differing path lies
// where the asymmetry explains it, so that any other difference on the same
// property keeps its own (path-based) signature.
type asymmetry struct {
	sig     string
	allowed []string
	// guard (optional): what the known defect leaves intact must be intact — otherwise the
	// difference is not (only) the known one and reports under its own signature
	guard func(want, got *schema_j5pb.ObjectProperty) bool
}

func itemField(op *schema_j5pb.ObjectProperty) *schema_j5pb.Field {
	switch t := op.GetSchema().GetType().(type) {
	case *schema_j5pb.Field_Array:
		return t.Array.GetItems()
	case *schema_j5pb.Field_Map:
		return t.Map.GetItemSchema()
	}
	return op.GetSchema()
}

// a declared key item that reads back as a key without its format, or (when it carries neither an
// entity annotation nor list rules) as a string: entity and list rules must have survived
func keyExtrasIntact(want, got *schema_j5pb.ObjectProperty) bool {
	w := itemField(want).GetKey()
	if w == nil {
		return true
	}
	wl := w.ListRules
	if want.GetSchema().GetMap() != nil {
		wl = nil // list rules of map values do not reach the reader (a class of its own)
	}
	switch g := itemField(got).GetType().(type) {
	case *schema_j5pb.Field_Key:
		return proto.Equal(w.Entity, g.Key.Entity) && proto.Equal(wl, g.Key.ListRules)
	case *schema_j5pb.Field_String_:
		return w.Entity == nil && wl == nil && g.String_.ListRules == nil
	}
	return false
}

// a declared string whose pattern is the id62 pattern reads back as key:id62 — and nothing else
func stringAsID62Key(want, got *schema_j5pb.ObjectProperty) bool {
	g := itemField(got).GetKey()
	return g != nil && g.GetFormat().GetId62() != nil && g.Entity == nil && g.ListRules == nil
}

func asymmetryClasses(p genDecl) []asymmetry {
	item := ".schema"
	switch p.P.PK {
	case PArray:
		item = ".schema.array.items"
	case PMap:
		item = ".schema.map.itemSchema"
	}
	t := p.P.T
	if p.P.PK == PMap {
		t.List = nil // list rules of map values do not reach the reader (own class below)
	}
	var out []asymmetry
	add := func(sig string, allowed ...string) { out = append(out, asymmetry{sig: sig, allowed: allowed}) }
	guarded := func(g func(want, got *schema_j5pb.ObjectProperty) bool) { out[len(out)-1].guard = g }
	// independent of the item type
	if !descPlain(p.P.Desc) && descExpressible(p.P.Desc) {
		add("C04 description with a line starting with '#': the reader's commentDescription drops the line", ".description")
	}
	if p.P.PK != PSingle && p.P.Opt {
		add("C04 array or map with optional = true: explicitlyOptional is read back for singular properties only", ".explicitlyOptional")
	}
	// by item type (at most one)
	wk := func(i int) bool {
		return t.Kind == TStr && t.SFormat == nil && t.Str != nil && t.Str.Pat != nil && *t.Str.Pat == wellKnownPatterns[i]
	}
	if p.P.PK == PMap && p.P.T.List != nil {
		add("C04 map: list rules of the item schema are written on the entry's value field and not read back", item+"."+itemTypeName[t.Kind]+".listRules")
	}
	if t.Kind == TObject && t.ObjR != nil && (t.ObjR.Min != nil || t.ObjR.Max != nil) {
		add("C04 object rules: minProperties / maxProperties compile to an empty (buf.validate.field) and are not read back", item+".object.rules")
	}
	switch {
	case t.Kind == TStr && t.SFormat != nil:
		add("C04 string format: StringField.format is not written to the descriptor and does not read back", item+".string.format")
	case wk(2):
		add("C04 string whose pattern is the published id62 pattern: reads back as key:id62", item+".string", item+".key")
		guarded(stringAsID62Key)
	case wk(0) || wk(1):
		add("C04 string whose pattern is the reader's well-known date / number pattern: reads back as format date / number without the pattern", item+".string.format", item+".string.rules.pattern")
	case t.Kind == TAny && (t.AnyOD || len(t.AnyT) > 0) && p.P.PK != PSingle:
		add("C04 array of any with onlyDefined / types: (j5.ext.v1.field).any is replaced by the array annotation", item+".any.onlyDefined", item+".any.types")
	case t.Kind == TKey && (t.KF == KCustom || t.KF == KInformal) && p.P.PK != PSingle && !(t.KF == KInformal && t.List != nil && p.P.PK == PArray):
		// (an informal key item WITH list rules is recognised through its unique_string foreign key)
		add("C04 array of key:custom / key:informal: the format lives in (j5.ext.v1.field).key, which the array annotation replaces", item+".key", item+".string")
		guarded(keyExtrasIntact)
	case t.Kind == TKey && t.KF == KCustom && t.KPat == wellKnownPatterns[2] && t.List == nil:
		add("C04 key:custom whose pattern is the published id62 pattern: reads back as key:id62", item+".key.format")
	case t.Kind == TKey && t.KF == KNone && t.List != nil:
		add("C04 key without format but with list rules: reads back as key:informal", item+".key.format")
	case t.Kind == TKey && t.KF == KNone && p.P.PK != PSingle && t.Entity == nil:
		add("C04 array of key without format: (j5.ext.v1.field) is the array's, the items read back as string", item+".key", item+".string")
		guarded(keyExtrasIntact)
	case (t.Kind == TDate || t.Kind == TDecimal) && t.Txt != nil && p.P.PK != PSingle:
		add("C04 array of date/decimal with rules: the rules live in (j5.ext.v1.field), which the array annotation overwrites", item+".date.rules", item+".decimal.rules")
	case t.Kind == TObject && t.Flatten && p.P.PK != PSingle:
		add("C04 array of flattened object: flatten lives in (j5.ext.v1.field), which the array annotation overwrites", item+".object.flatten")
	}
	return out
}

// explain: the known asymmetries that together account for every differing
// path (each used one accounts for at least one path); nil when some path is
// left unexplained — the difference then keeps its own path-based signature.
func explain(p genDecl, raw []string, want, got *schema_j5pb.ObjectProperty) []string {
	var sigs []string
	var allowed []string
	for _, a := range asymmetryClasses(p) {
		if a.guard != nil && !a.guard(want, got) {
			continue
		}
		used := false
		for _, path := range raw {
			if allUnder([]string{path}, a.allowed) {
				used = true
			}
		}
		if used {
			sigs = append(sigs, a.sig)
			allowed = append(allowed, a.allowed...)
		}
	}
	if len(sigs) == 0 || !allUnder(raw, allowed) {
		return nil
	}
	return sigs
}

func allUnder(paths, prefixes []string) bool {
	for _, p := range paths {
		ok := false
		for _, pre := range prefixes {
			if p == pre || strings.HasPrefix(p, pre+".") {
				ok = true
			}
		}
		if !ok {
			return false
		}
	}
	return len(paths) > 0
}


// expectedEnum: the schema_j5pb.Enum a declaration denotes (mirrors norm_enum)
func expectedEnum(env EnumEnv) *schema_j5pb.Enum {
	out := &schema_j5pb.Enum{Name: env.Name, Description: env.Desc, Prefix: env.Prefix}
	for _, f := range env.InfoFields {
		out.Info = append(out.Info, &schema_j5pb.Enum_OptionInfoField{Name: f[0], Label: f[1], Description: f[2]})
	}
	out.Options = append(out.Options, &schema_j5pb.Enum_Option{Name: "UNSPECIFIED", Number: 0, Description: env.UnspecDesc, Info: env.UnspecInfo})
	for i, o := range env.Options {
		d := ""
		if i < len(env.OptDescs) {
			d = env.OptDescs[i]
		}
		out.Options = append(out.Options, &schema_j5pb.Enum_Option{Name: strings.TrimPrefix(o, env.Prefix), Number: int32(i + 1), Description: d, Info: env.optInfo(i)})
	}
	return out
}

package main

// Declarations of j5s properties as the generator makes them: one Go mirror of
// coq/model/RulesDecl.v with three renderers — j5s source text, Coq term, and a
// short human-readable form for replay files.

import (
	"fmt"
	"sort"
	"strings"
	"time"

	"verifharness/vh"
)

type IKind int

const (
	I32 IKind = iota
	I64
	U32
	U64
)

var ikindJ5 = []string{"INT32", "INT64", "UINT32", "UINT64"}
var ikindCoq = []string{"I32", "I64", "U32", "U64"}

type IntRules struct {
	Min, Max   *int64
	XMin, XMax *bool
	Mult       *int64 // rules.multipleOf (schema.proto:313): beside int_rules in the Coq model (xprop.x_mult)
}

// MapField.Ext (present, with its optional single form): xprop.x_map_ext
type MapExt struct{ Single *string }
type StrRules struct {
	Pat      *string
	Min, Max *uint64
}
type LenRules struct{ Min, Max *uint64 }
type EnumRules struct{ In, NotIn []string }
type ArrRules struct {
	Min, Max *uint64
	Uniq     *bool
}
type MapRules struct{ Min, Max *uint64 }
type TxtRules struct {
	Min, Max   *string
	XMin, XMax *bool
}

// TimestampField.Rules: bounds in whole seconds
type TSRules struct {
	Min, Max   *int64
	XMin, XMax *bool
}

// ObjectField.Rules
type ObjRules struct{ Min, Max *uint64 }

type KFmt int

const (
	KNone KFmt = iota
	KInformal
	KCustom
	KUuid
	KId62
)

type LPay struct {
	Filterable, Sortable, Searchable, DefaultSort bool
	Filters                                       []string
}

type EntityKey struct {
	Primary   *bool   // primary_key arm
	ForeignP  *string // foreign_key.package
	ForeignE  *string // foreign_key.entity
	TenantKey *string
}

type TyKind int

const (
	TInt TyKind = iota
	TStr
	TBytes
	TBool
	TEnum
	TKey
	TFloat
	TDate
	TDecimal
	TTimestamp
	TAny
	TObject
	TOneof
)

type FTy struct {
	Kind    TyKind
	IK      IKind
	Int     *IntRules
	Str     *StrRules
	Len     *LenRules
	HasBool bool  // bool rules present
	Const   *bool // bool const
	Enum    *EnumRules
	KF      KFmt
	KPat    string
	Entity  *EntityKey
	F64     bool
	Txt     *TxtRules
	Flatten bool
	List    *LPay
	SFormat *string  // StringField.format
	AnyOD   bool     // AnyField.only_defined
	AnyT    []string // AnyField.types
	FloatR  bool      // FloatField.rules present (minimum = 1.5): the compiler refuses them
	TS      *TSRules  // TimestampField.rules
	ObjR    *ObjRules // ObjectField.rules
	OneofR  bool      // OneofField.rules present (an empty message; only the source AST can say it)
	Ref     string    // reference target of an object / oneof field: "" = Bar / Choice, or "Baz" / "Pick"
}

// refName: the schema an object / oneof field refers to
func (t FTy) refName() string {
	if t.Ref != "" {
		return t.Ref
	}
	if t.Kind == TOneof {
		return "Choice"
	}
	return "Bar"
}

type PKind int

const (
	PSingle PKind = iota
	PArray
	PMap
)

type Prop struct {
	Name     string
	Req, Opt bool
	PK       PKind
	Arr      *ArrRules
	MapR     *MapRules
	Single   *string // array ext single_form
	MapExt   *MapExt // map ext
	T        FTy
	Desc     string
}

type EnumEnv struct {
	Name    string   // enum name in the file
	Prefix  string   // effective prefix
	Options []string // declared option names (short or prefixed), without an explicit UNSPECIFIED
	// how the enum is written in the source
	ExplicitPrefix bool     // prefix = "..." is written
	Unspecified    string   // explicit first option standing for 0 ("" = none)
	Where          int      // where the enum is declared: 0 the file of the object, 1 another file of the package (foo/v1/e.j5s), 2 an imported package (bar.v1)
	Desc           string   // description of the enum
	OptDescs       []string // description per option (parallel to Options)
	UnspecDesc     string
	OptInfos       []map[string]string // info per option (parallel to Options)
	UnspecInfo     map[string]string
	InfoFields     [][3]string // the enum's info fields: name, label, description
}

// EnumDecl renders the declaration as a Coq enum_decl.
// infoTerm: a map<string,string> as (key, value) pairs sorted by key
func infoTerm(m map[string]string) string {
	keys := make([]string, 0, len(m))
	for k := range m {
		keys = append(keys, k)
	}
	sort.Strings(keys)
	parts := make([]string, len(keys))
	for i, k := range keys {
		parts[i] = fmt.Sprintf("(%s, %s)", vh.BytesTerm(k), vh.BytesTerm(m[k]))
	}
	return "[" + strings.Join(parts, ";") + "]"
}

func infoFieldsTerm(fs [][3]string) string {
	parts := make([]string, len(fs))
	for i, f := range fs {
		parts[i] = fmt.Sprintf("(%s, %s, %s)", vh.BytesTerm(f[0]), vh.BytesTerm(f[1]), vh.BytesTerm(f[2]))
	}
	return "[" + strings.Join(parts, ";") + "]"
}

func (e EnumEnv) optInfo(i int) map[string]string {
	if i < len(e.OptInfos) {
		return e.OptInfos[i]
	}
	return nil
}

func (e EnumEnv) DeclCoq() string {
	var opts []string
	if e.Unspecified != "" {
		opts = append(opts, fmt.Sprintf("(%s, %s, %s)", vh.BytesTerm(e.Unspecified), vh.BytesTerm(e.UnspecDesc), infoTerm(e.UnspecInfo)))
	}
	for i, o := range e.Options {
		d := ""
		if i < len(e.OptDescs) {
			d = e.OptDescs[i]
		}
		opts = append(opts, fmt.Sprintf("(%s, %s, %s)", vh.BytesTerm(o), vh.BytesTerm(d), infoTerm(e.optInfo(i))))
	}
	return fmt.Sprintf("(ED %s %s [%s] %s)", vh.BytesTerm(e.Desc), vh.BytesTerm(e.Prefix), strings.Join(opts, ";"), infoFieldsTerm(e.InfoFields))
}

func (e EnumEnv) J5S() string {
	var sb strings.Builder
	fmt.Fprintf(&sb, "enum %s {\n", e.Name)
	if e.Desc != "" {
		fmt.Fprintf(&sb, "\t| %s\n\n", e.Desc)
	}
	if e.ExplicitPrefix {
		fmt.Fprintf(&sb, "\tprefix = %s\n", q(e.Prefix))
	}
	for _, f := range e.InfoFields {
		fmt.Fprintf(&sb, "\tinfo {\n\t\tname = %s\n", q(f[0]))
		if f[1] != "" {
			fmt.Fprintf(&sb, "\t\tlabel = %s\n", q(f[1]))
		}
		if f[2] != "" {
			fmt.Fprintf(&sb, "\t\tdescription = %s\n", q(f[2]))
		}
		sb.WriteString("\t}\n")
	}
	opt := func(name, desc string, info map[string]string) {
		if desc == "" && len(info) == 0 {
			fmt.Fprintf(&sb, "\toption %s\n", name)
			return
		}
		fmt.Fprintf(&sb, "\toption %s {\n", name)
		if desc != "" {
			fmt.Fprintf(&sb, "\t\t| %s\n", desc)
		}
		keys := make([]string, 0, len(info))
		for k := range info {
			keys = append(keys, k)
		}
		sort.Strings(keys)
		for _, k := range keys {
			fmt.Fprintf(&sb, "\t\tinfo.%s = %s\n", k, q(info[k]))
		}
		sb.WriteString("\t}\n")
	}
	if e.Unspecified != "" {
		opt(e.Unspecified, e.UnspecDesc, e.UnspecInfo)
	}
	for i, o := range e.Options {
		d := ""
		if i < len(e.OptDescs) {
			d = e.OptDescs[i]
		}
		opt(o, d, e.optInfo(i))
	}
	sb.WriteString("}\n")
	return sb.String()
}

// ---------------------------------------------------------------- Coq terms

func optZ(p *int64) string {
	if p == nil {
		return "None"
	}
	return fmt.Sprintf("(Some (%d)%%Z)", *p)
}
func optN(p *uint64) string {
	if p == nil {
		return "None"
	}
	return fmt.Sprintf("(Some %d)", *p)
}
func optB(p *bool) string {
	if p == nil {
		return "None"
	}
	return "(Some " + vh.BoolTerm(*p) + ")"
}
// patterns are emitted as code points (the Coq regular-expression model reads code points)
func optRunes(p *string) string {
	if p == nil {
		return "None"
	}
	return "(Some " + vh.RunesTerm(*p) + ")"
}
func optS(p *string) string {
	if p == nil {
		return "None"
	}
	return "(Some " + vh.BytesTerm(*p) + ")"
}
func strList(xs []string) string {
	parts := make([]string, len(xs))
	for i, x := range xs {
		parts[i] = vh.BytesTerm(x)
	}
	return "[" + strings.Join(parts, ";") + "]"
}

func (l *LPay) Coq() string {
	if l == nil {
		return "None"
	}
	return fmt.Sprintf("(Some (LP %s %s %s %s %s))", vh.BoolTerm(l.Filterable), vh.BoolTerm(l.Sortable), vh.BoolTerm(l.Searchable), vh.BoolTerm(l.DefaultSort), strList(l.Filters))
}

func (t *TxtRules) Coq() string {
	if t == nil {
		return "None"
	}
	return fmt.Sprintf("(Some (TR %s %s %s %s))", optS(t.Min), optS(t.Max), optB(t.XMin), optB(t.XMax))
}

func (e *EntityKey) Coq() string {
	if e == nil {
		return "None"
	}
	ty := "None"
	if e.Primary != nil {
		ty = "(Some (EPrimary " + vh.BoolTerm(*e.Primary) + "))"
	} else if e.ForeignE != nil {
		ty = fmt.Sprintf("(Some (EForeign %s %s))", vh.BytesTerm(*e.ForeignP), vh.BytesTerm(*e.ForeignE))
	}
	return fmt.Sprintf("(Some (EK %s %s))", ty, optS(e.TenantKey))
}

func (t FTy) Coq() string {
	switch t.Kind {
	case TInt:
		r := "None"
		if t.Int != nil {
			r = fmt.Sprintf("(Some (IR %s %s %s %s))", optZ(t.Int.Min), optZ(t.Int.Max), optB(t.Int.XMin), optB(t.Int.XMax))
		}
		return fmt.Sprintf("(TInt %s %s %s)", ikindCoq[t.IK], r, t.List.Coq())
	case TStr:
		r := "None"
		if t.Str != nil {
			r = fmt.Sprintf("(Some (SR %s %s %s))", optRunes(t.Str.Pat), optN(t.Str.Min), optN(t.Str.Max))
		}
		return fmt.Sprintf("(TStr %s %s %s)", optS(t.SFormat), r, t.List.Coq())
	case TBytes:
		r := "None"
		if t.Len != nil {
			r = fmt.Sprintf("(Some (LR %s %s))", optN(t.Len.Min), optN(t.Len.Max))
		}
		return fmt.Sprintf("(TBytes %s)", r)
	case TBool:
		r := "None"
		if t.HasBool {
			r = "(Some " + optB(t.Const) + ")"
		}
		return fmt.Sprintf("(TBool %s %s)", r, t.List.Coq())
	case TEnum:
		r := "None"
		if t.Enum != nil {
			r = fmt.Sprintf("(Some (ER %s %s))", strList(t.Enum.In), strList(t.Enum.NotIn))
		}
		return fmt.Sprintf("(TEnum %s %s)", r, t.List.Coq())
	case TKey:
		f := "None"
		switch t.KF {
		case KInformal:
			f = "(Some KInformal)"
		case KCustom:
			f = "(Some (KCustom " + vh.RunesTerm(t.KPat) + "))"
		case KUuid:
			f = "(Some KUuid)"
		case KId62:
			f = "(Some KId62)"
		}
		return fmt.Sprintf("(TKey %s %s %s)", f, t.Entity.Coq(), t.List.Coq())
	case TFloat:
		return fmt.Sprintf("(TFloat %s %s %s)", vh.BoolTerm(t.F64), vh.BoolTerm(t.FloatR), t.List.Coq())
	case TDate:
		return fmt.Sprintf("(TDate %s %s)", t.Txt.Coq(), t.List.Coq())
	case TDecimal:
		return fmt.Sprintf("(TDecimal %s %s)", t.Txt.Coq(), t.List.Coq())
	case TTimestamp:
		r := "None"
		if t.TS != nil {
			r = fmt.Sprintf("(Some (TSR %s %s %s %s))", optZ(t.TS.Min), optZ(t.TS.Max), optB(t.TS.XMin), optB(t.TS.XMax))
		}
		return fmt.Sprintf("(TTimestamp %s %s)", r, t.List.Coq())
	case TAny:
		return fmt.Sprintf("(TAny %s %s %s)", vh.BoolTerm(t.AnyOD), strList(t.AnyT), t.List.Coq())
	case TObject:
		r := "None"
		if t.ObjR != nil {
			r = fmt.Sprintf("(Some (OBR %s %s))", optN(t.ObjR.Min), optN(t.ObjR.Max))
		}
		return fmt.Sprintf("(TObject %s %s %s)", vh.BytesTerm(t.refName()), vh.BoolTerm(t.Flatten), r)
	case TOneof:
		return fmt.Sprintf("(TOneof %s %s %s)", vh.BytesTerm(t.refName()), vh.BoolTerm(t.OneofR), t.List.Coq())
	}
	panic("unknown type kind")
}

func (p Prop) Coq() string {
	var ty string
	switch p.PK {
	case PSingle:
		ty = "(PSingle " + p.T.Coq() + ")"
	case PArray:
		r := "None"
		if p.Arr != nil {
			r = fmt.Sprintf("(Some (AR %s %s %s))", optN(p.Arr.Min), optN(p.Arr.Max), optB(p.Arr.Uniq))
		}
		ty = fmt.Sprintf("(PArray %s %s %s)", r, optS(p.Single), p.T.Coq())
	case PMap:
		r := "None"
		if p.MapR != nil {
			r = fmt.Sprintf("(Some (MR %s %s))", optN(p.MapR.Min), optN(p.MapR.Max))
		}
		ty = fmt.Sprintf("(PMap %s %s)", r, p.T.Coq())
	}
	return fmt.Sprintf("(P %s %s %s %s %s)", vh.BytesTerm(p.Name), vh.BoolTerm(p.Req), vh.BoolTerm(p.Opt), ty, vh.BytesTerm(p.Desc))
}

// XCoq: the declaration in the extended language of model/RulesCompile.v
func (p Prop) XCoq() string {
	mult := "None"
	if p.T.Kind == TInt && p.T.Int != nil {
		mult = optZ(p.T.Int.Mult)
	}
	ext := "None"
	if p.PK == PMap && p.MapExt != nil {
		ext = "(Some " + optS(p.MapExt.Single) + ")"
	}
	return fmt.Sprintf("(XP %s %s %s)", p.Coq(), mult, ext)
}

func (e EnumEnv) Coq() string {
	zero := "None"
	if e.Unspecified != "" {
		zero = "(Some " + vh.BytesTerm(e.Unspecified) + ")"
	}
	return fmt.Sprintf("(EE %s %s %s)", vh.BytesTerm(e.Prefix), zero, strList(e.Options))
}

// the package of an enum declared outside the package under test (Where = 2)
const enumPackage = "bar.v1"

// RefName: how a field of the object under test names the enum
func (e EnumEnv) RefName() string {
	if e.Where == 2 {
		return enumPackage + "." + e.Name
	}
	return e.Name
}

// ExtraFiles: the source file holding the enum when it is not declared next to the object
func (e EnumEnv) ExtraFiles() map[string]string {
	switch e.Where {
	case 1:
		return map[string]string{"foo/v1/e.j5s": "package foo.v1\n\n" + e.J5S()}
	case 2:
		return map[string]string{"bar/v1/e.j5s": "package " + enumPackage + "\n\n" + e.J5S()}
	}
	return nil
}

// SourceNote: the enum declaration as part of a reported input
func (e EnumEnv) SourceNote() string {
	where := [...]string{"same file as the object", "file foo/v1/e.j5s of the same package", "file bar/v1/e.j5s, package " + enumPackage + " (imported)"}[e.Where]
	return "# enum declared in: " + where + "\n" + e.J5S()
}

// stdZero: the explicit zero option is spelled UNSPECIFIED (with or without the prefix)
func (e EnumEnv) stdZero() bool {
	return e.Unspecified == "UNSPECIFIED" || e.Unspecified == e.Prefix+"UNSPECIFIED"
}

// ---------------------------------------------------------------- j5s text

func q(s string) string {
	// BCL string literal: backslash and double quote escaped
	s = strings.ReplaceAll(s, `\`, `\\`)
	s = strings.ReplaceAll(s, `"`, `\"`)
	return `"` + s + `"`
}

func qList(xs []string) string {
	parts := make([]string, len(xs))
	for i, x := range xs {
		parts[i] = q(x)
	}
	return "[" + strings.Join(parts, ", ") + "]"
}

func (l *LPay) lines(prefix string) []string {
	if l == nil {
		return nil
	}
	var out []string
	// an all-false payload still has to make the message present
	if l.Filterable || (!l.Sortable && !l.Searchable && !l.DefaultSort && len(l.Filters) == 0) {
		out = append(out, fmt.Sprintf("%slistRules.filtering.filterable = %v", prefix, l.Filterable))
	}
	if len(l.Filters) > 0 {
		out = append(out, fmt.Sprintf("%slistRules.filtering.defaultFilters = %s", prefix, qList(l.Filters)))
	}
	if l.Sortable {
		out = append(out, prefix+"listRules.sorting.sortable = true")
	}
	if l.DefaultSort {
		out = append(out, prefix+"listRules.sorting.defaultSort = true")
	}
	if l.Searchable {
		out = append(out, prefix+"listRules.searching.searchable = true")
	}
	return out
}

// typeTag and the attribute lines of a field type; prefix is "" for a plain
// property and "items.<type>." for array items.
func (t FTy) j5s(enum EnumEnv, prefix string) (tag string, lines []string) {
	add := func(format string, a ...any) { lines = append(lines, prefix+fmt.Sprintf(format, a...)) }
	switch t.Kind {
	case TInt:
		tag = "integer:" + ikindJ5[t.IK]
		if r := t.Int; r != nil {
			if r.Min != nil {
				add("rules.minimum = %d", *r.Min)
			}
			if r.Max != nil {
				add("rules.maximum = %d", *r.Max)
			}
			if r.XMin != nil {
				add("rules.exclusiveMinimum = %v", *r.XMin)
			}
			if r.XMax != nil {
				add("rules.exclusiveMaximum = %v", *r.XMax)
			}
			if r.Mult != nil {
				add("rules.multipleOf = %d", *r.Mult)
			}
		}
	case TStr:
		tag = "string"
		if t.SFormat != nil {
			add("format = %s", q(*t.SFormat))
		}
		if r := t.Str; r != nil {
			if r.Pat != nil {
				add("rules.pattern = %s", q(*r.Pat))
			}
			if r.Min != nil {
				add("rules.minLength = %d", *r.Min)
			}
			if r.Max != nil {
				add("rules.maxLength = %d", *r.Max)
			}
		}
	case TBytes:
		tag = "bytes"
		if r := t.Len; r != nil {
			if r.Min != nil {
				add("rules.minLength = %d", *r.Min)
			}
			if r.Max != nil {
				add("rules.maxLength = %d", *r.Max)
			}
		}
	case TBool:
		tag = "bool"
		if t.HasBool && t.Const != nil {
			add("rules.const = %v", *t.Const)
		}
	case TEnum:
		tag = "enum:" + enum.RefName()
		if r := t.Enum; r != nil {
			if len(r.In) > 0 {
				add("rules.in = %s", qList(r.In))
			}
			if len(r.NotIn) > 0 {
				add("rules.notIn = %s", qList(r.NotIn))
			}
		}
	case TKey:
		tag = "key"
		switch t.KF {
		case KInformal:
			tag = "key:informal"
		case KCustom:
			tag = "key:custom"
			add("format.custom.pattern = %s", q(t.KPat))
		case KUuid:
			tag = "key:uuid"
		case KId62:
			tag = "key:id62"
		}
		if e := t.Entity; e != nil {
			if e.Primary != nil {
				add("entity.primaryKey = %v", *e.Primary)
			}
			if e.ForeignE != nil {
				add("entity.foreignKey.package = %s", q(*e.ForeignP))
				add("entity.foreignKey.entity = %s", q(*e.ForeignE))
			}
			if e.TenantKey != nil {
				add("entity.tenantKey = %s", q(*e.TenantKey))
			}
		}
	case TFloat:
		tag = "float:FLOAT32"
		if t.F64 {
			tag = "float:FLOAT64"
		}
		if t.FloatR {
			add("rules.minimum = 1.5")
		}
	case TDate, TDecimal:
		tag = "date"
		if t.Kind == TDecimal {
			tag = "decimal"
		}
		if r := t.Txt; r != nil {
			if r.Min != nil {
				add("rules.minimum = %s", q(*r.Min))
			}
			if r.Max != nil {
				add("rules.maximum = %s", q(*r.Max))
			}
			if r.XMin != nil {
				add("rules.exclusiveMinimum = %v", *r.XMin)
			}
			if r.XMax != nil {
				add("rules.exclusiveMaximum = %v", *r.XMax)
			}
		}
	case TTimestamp:
		tag = "timestamp"
		if r := t.TS; r != nil {
			if r.Min != nil {
				add("rules.minimum = %s", q(time.Unix(*r.Min, 0).UTC().Format(time.RFC3339)))
			}
			if r.Max != nil {
				add("rules.maximum = %s", q(time.Unix(*r.Max, 0).UTC().Format(time.RFC3339)))
			}
			if r.XMin != nil {
				add("rules.exclusiveMinimum = %v", *r.XMin)
			}
			if r.XMax != nil {
				add("rules.exclusiveMaximum = %v", *r.XMax)
			}
		}
	case TAny:
		tag = "any"
		if t.AnyOD {
			add("onlyDefined = true")
		}
		if len(t.AnyT) > 0 {
			add("types = %s", qList(t.AnyT))
		}
	case TObject:
		tag = "object:" + t.refName()
		if t.Flatten {
			add("flatten = true")
		}
		if r := t.ObjR; r != nil {
			if r.Min != nil {
				add("rules.minProperties = %d", *r.Min)
			}
			if r.Max != nil {
				add("rules.maxProperties = %d", *r.Max)
			}
		}
	case TOneof:
		tag = "oneof:" + t.refName()
	}
	lines = append(lines, t.List.lines(prefix)...)
	return tag, lines
}

var itemTypeName = map[TyKind]string{TInt: "integer", TStr: "string", TBytes: "bytes", TBool: "bool", TEnum: "enum", TKey: "key",
	TFloat: "float", TDate: "date", TDecimal: "decimal", TTimestamp: "timestamp", TAny: "any", TObject: "object", TOneof: "oneof"}

func (p Prop) J5S(enum EnumEnv) string {
	var sb strings.Builder
	var tag string
	var lines []string
	switch p.PK {
	case PSingle:
		tag, lines = p.T.j5s(enum, "")
	case PArray:
		itag, ilines := p.T.j5s(enum, "items."+itemTypeName[p.T.Kind]+".")
		tag = "array:" + itag
		if r := p.Arr; r != nil {
			if r.Min != nil {
				lines = append(lines, fmt.Sprintf("rules.minItems = %d", *r.Min))
			}
			if r.Max != nil {
				lines = append(lines, fmt.Sprintf("rules.maxItems = %d", *r.Max))
			}
			if r.Uniq != nil {
				lines = append(lines, fmt.Sprintf("rules.uniqueItems = %v", *r.Uniq))
			}
		}
		if p.Single != nil {
			lines = append(lines, "ext.singleForm = "+q(*p.Single))
		}
		lines = append(lines, ilines...)
	case PMap:
		itag, ilines := p.T.j5s(enum, "itemSchema."+itemTypeName[p.T.Kind]+".")
		tag = "map:" + itag
		if r := p.MapR; r != nil {
			if r.Min != nil {
				lines = append(lines, fmt.Sprintf("rules.minPairs = %d", *r.Min))
			}
			if r.Max != nil {
				lines = append(lines, fmt.Sprintf("rules.maxPairs = %d", *r.Max))
			}
		}
		if p.MapExt != nil && p.MapExt.Single != nil {
			lines = append(lines, "ext.singleForm = "+q(*p.MapExt.Single))
		}
		lines = append(lines, ilines...)
	}
	fmt.Fprintf(&sb, "\tfield %s %s {\n", p.Name, tag)
	if p.Desc != "" {
		for _, l := range strings.Split(p.Desc, "\n") {
			if l == "" {
				sb.WriteString("\t\t|\n") // paragraph break
				continue
			}
			fmt.Fprintf(&sb, "\t\t| %s\n", l)
		}
	}
	if p.Req {
		sb.WriteString("\t\trequired = true\n")
	}
	if p.Opt {
		sb.WriteString("\t\toptional = true\n")
	}
	for _, l := range lines {
		sb.WriteString("\t\t" + l + "\n")
	}
	sb.WriteString("\t}\n")
	return sb.String()
}

// File renders one compile unit: package foo.v1, the enum, Bar, Choice and the
// object under test.
func File(enum EnumEnv, objName, objDesc string, props []Prop) string {
	return FileRoot("object", enum, objName, objDesc, props)
}

// FileRoot: kind is "object" (properties are fields) or "oneof" (properties are options).
func FileRoot(kind string, enum EnumEnv, objName, objDesc string, props []Prop) string {
	var sb strings.Builder
	sb.WriteString("package foo.v1\n\n")
	switch enum.Where {
	case 0:
		sb.WriteString(enum.J5S())
	case 2:
		sb.WriteString("import " + enumPackage + "\n")
	}
	sb.WriteString("\nobject Bar {\n\tfield x string\n}\n\nobject Baz {\n\tfield y integer:INT32\n}\n\noneof Choice {\n\toption a string\n\toption b integer:INT32\n}\n\noneof Pick {\n\toption c string\n}\n\n")
	fmt.Fprintf(&sb, "%s %s {\n", kind, objName)
	if objDesc != "" {
		fmt.Fprintf(&sb, "\t| %s\n\n", objDesc)
	}
	for _, p := range props {
		txt := p.J5S(enum)
		if kind == "oneof" {
			txt = strings.Replace(txt, "\tfield ", "\toption ", 1)
		}
		sb.WriteString(txt)
		sb.WriteString("\n")
	}
	sb.WriteString("}\n")
	return sb.String()
}

package main

// C12 for inline types: declaration trees of objects (nested.go NSchema) whose
// properties the validator can evaluate, compiled through j5s text or the source AST;
// values of the root message with embedded messages of the inline types, validated by
// the real protovalidate-go (every violation counts, at any depth), against the Coq
// model (RulesNestedSem.validate_tree, case C12Tree) and the recursive Go reading of the
// declared rules (ruleTree over oracle.go ruleSem).

import (
	"fmt"
	"strings"

	"buf.build/gen/go/bufbuild/protovalidate/protocolbuffers/go/buf/validate"
	"github.com/bufbuild/protovalidate-go"
	"google.golang.org/protobuf/reflect/protoreflect"
	"google.golang.org/protobuf/types/dynamicpb"

	"verifharness/vh"
)

type MValue struct {
	Fvs   []FValue
	Inner [][]MValue // per inline type of the schema, in declaration order
}

func (m MValue) Coq() string {
	fs := make([]string, len(m.Fvs))
	for i, f := range m.Fvs {
		fs[i] = f.Coq()
	}
	in := make([]string, len(m.Inner))
	for i, l := range m.Inner {
		xs := make([]string, len(l))
		for k, x := range l {
			xs[k] = x.Coq()
		}
		in[i] = "[" + strings.Join(xs, ";") + "]"
	}
	return fmt.Sprintf("(MV [%s] [%s])", strings.Join(fs, ";"), strings.Join(in, ";"))
}

func (m MValue) String() string {
	var parts []string
	k := 0
	for _, f := range m.Fvs {
		s := f.String()
		if strings.Contains(s, "{#") && k < len(m.Inner) {
			var xs []string
			for _, x := range m.Inner[k] {
				xs = append(xs, x.String())
			}
			s += "=" + strings.Join(xs, "|")
		}
		parts = append(parts, s)
	}
	return "<" + strings.Join(parts, "; ") + ">"
}

// genNSchemaC12: objects only, every property evaluable and with its keys placed
func genNSchemaC12(r *vh.Rand, env EnumEnv, kind string, depth int, counter *int) NSchema {
	s := NSchema{Kind: kind}
	n := r.Range(1, 4)
	for i := 0; i < n; i++ {
		name := propName(r, i)
		if depth > 0 && r.Chance(50) {
			ik := "object"
			p := Prop{Name: name, T: FTy{Kind: TObject}}
			if r.Chance(30) {
				ik = "oneof"
				p.T = FTy{Kind: TOneof}
			}
			shape := r.Intn(5)
			if kind == "oneof" {
				shape = 4 // options are singular
			}
			switch shape {
			case 0:
				p.PK = PArray
				if a := (&ArrRules{Min: optU(r, 2), Max: optU(r, 3)}); a.Min != nil || a.Max != nil {
					p.Arr = a
				}
				p.Req = r.Chance(25)
			case 1:
				p.PK = PMap
				if m := (&MapRules{Min: optU(r, 2), Max: optU(r, 3)}); m.Min != nil || m.Max != nil {
					p.MapR = m
				}
			default:
				p.Req = r.Chance(35)
				p.Opt = !p.Req && r.Chance(25)
				if kind == "oneof" {
					p.Req, p.Opt = r.Chance(10), false
				}
			}
			inner := genNSchemaC12(r, env, ik, depth-1, counter)
			if r.Chance(50) {
				*counter++
				nm := fmt.Sprintf("Inner%d", *counter)
				inner.Name = &nm
			}
			s.Fields = append(s.Fields, NField{P: p, Inl: &inner})
			continue
		}
		for {
			scope := "c12"
			if r.Chance(12) {
				scope = "all"
			}
			gd := genProp(r, name, scope, env)
			if kind == "oneof" && (gd.P.PK != PSingle || gd.P.Opt || isPrimary(gd.P)) {
				continue
			}
			if kind == "oneof" && !r.Chance(15) {
				gd.P.Req = false
			}
			if gd.Class == "" && keyPlacementOK(gd.P) && patternsOK(gd.P) && !uniqueOnMessages(gd.P) && len(fieldValues(r, gd.P)) > 0 {
				s.Fields = append(s.Fields, NField{P: gd.P})
				break
			}
		}
	}
	return s
}

// genMValue: a value of the schema; mostly what the declaration allows
func genMValue(r *vh.Rand, env EnumEnv, s NSchema, good int) MValue {
	var mv MValue
	chosen := -1 // a oneof: the member that is set (-1: none)
	if s.Kind == "oneof" && !r.Chance(12) {
		chosen = r.Intn(len(s.Fields))
	}
	for i, f := range s.Fields {
		if s.Kind == "oneof" && i != chosen {
			mv.Fvs = append(mv.Fvs, FValue{Absent: true})
			if f.Inl != nil {
				mv.Inner = append(mv.Inner, nil)
			}
			continue
		}
		if f.Inl == nil {
			cands := fieldValues(r, f.P)
			if s.Kind == "oneof" {
				var set []FValue
				for _, c := range cands {
					if !c.Absent {
						set = append(set, c)
					}
				}
				cands = set
			}
			if len(cands) == 0 {
				mv.Fvs = append(mv.Fvs, FValue{Absent: true})
				continue
			}
			fv := vh.Pick(r, cands)
			if r.Chance(good) {
				var ok []FValue
				for _, c := range cands {
					if propSem(env, s, f.P, c) {
						ok = append(ok, c)
					}
				}
				if len(ok) > 0 {
					fv = vh.Pick(r, ok)
				}
			}
			mv.Fvs = append(mv.Fvs, fv)
			continue
		}
		n := 1
		switch f.P.PK {
		case PSingle:
			if s.Kind != "oneof" && (r.Chance(25) || (!f.P.Req && r.Chance(15))) {
				n = 0
			}
		default:
			n = r.Intn(4)
		}
		var fv FValue
		var ms []MValue
		for k := 0; k < n; k++ {
			ms = append(ms, genMValue(r, env, *f.Inl, good))
		}
		switch f.P.PK {
		case PSingle:
			if n == 0 {
				fv = FValue{Absent: true}
			} else {
				fv = FValue{One: Value{Kind: "msg", I: 1}}
			}
		case PArray:
			fv = FValue{Many: true}
			for k := 0; k < n; k++ {
				fv.List = append(fv.List, Value{Kind: "msg", I: int64(k + 1)})
			}
		case PMap:
			fv = FValue{IsMap: true}
			for k := 0; k < n; k++ {
				fv.List = append(fv.List, Value{Kind: "msg", I: int64(k + 1)})
				fv.Keys = append(fv.Keys, fmt.Sprintf("k%d", k))
			}
		}
		mv.Fvs = append(mv.Fvs, fv)
		mv.Inner = append(mv.Inner, ms)
	}
	return mv
}

// ruleTree: the declared rules of every property, and of every embedded message, recursively
// propSem: a property of an object on its own; an option of a oneof as a member
func propSem(env EnumEnv, s NSchema, p Prop, fv FValue) bool {
	if s.Kind == "oneof" {
		return memberSem(env, p, fv)
	}
	return ruleSem(env, p, fv)
}

func ruleTree(env EnumEnv, s NSchema, mv MValue) bool {
	ok := true
	k := 0
	for i, f := range s.Fields {
		if !propSem(env, s, f.P, mv.Fvs[i]) {
			ok = false
		}
		if f.Inl != nil {
			for _, x := range mv.Inner[k] {
				if !ruleTree(env, *f.Inl, x) {
					ok = false
				}
			}
			k++
		}
	}
	return ok
}

func buildTree(md protoreflect.MessageDescriptor, s NSchema, mv MValue) protoreflect.Message {
	msg := dynamicpb.NewMessage(md)
	k := 0
	for i, f := range s.Fields {
		fd := md.Fields().Get(i)
		if f.Inl == nil {
			setField(msg, fd, mv.Fvs[i])
			continue
		}
		vals := mv.Inner[k]
		k++
		switch {
		case fd.IsMap():
			nmd := fd.MapValue().Message()
			m := msg.Mutable(fd).Map()
			for j, x := range vals {
				m.Set(protoreflect.ValueOfString(mv.Fvs[i].Keys[j]).MapKey(), protoreflect.ValueOfMessage(buildTree(nmd, *f.Inl, x)))
			}
		case fd.IsList():
			l := msg.Mutable(fd).List()
			for _, x := range vals {
				l.Append(protoreflect.ValueOfMessage(buildTree(fd.Message(), *f.Inl, x)))
			}
		default:
			if len(vals) == 1 {
				msg.Set(fd, protoreflect.ValueOfMessage(buildTree(fd.Message(), *f.Inl, vals[0])))
			}
		}
	}
	return msg
}

func validateTree(val protovalidate.Validator, md protoreflect.MessageDescriptor, s NSchema, mv MValue) (vd verdict) {
	defer func() {
		if r := recover(); r != nil {
			vd = verdict{Err: "other", Problem: fmt.Sprintf("panic: %v", r)}
		}
	}()
	return classify(val.Validate(buildTree(md, s, mv).Interface()), func(els []*validate.FieldPathElement) bool { return pathInTree(s, els) })
}

// pathInTree: the violation is about a field of the root message or of an embedded message
// of an inline type (the path runs through inline fields only). Violations inside values of
// referenced or well-known types (j5.types.any.v1.Any has constraints of its own) are not
// about the declaration tree, as in the flat stream.
func pathInTree(s NSchema, els []*validate.FieldPathElement) bool {
	cur := s
	for i, el := range els {
		idx := int(el.GetFieldNumber()) - 1
		if idx < 0 || idx >= len(cur.Fields) {
			return false
		}
		if i == len(els)-1 {
			return true
		}
		f := cur.Fields[idx]
		if f.Inl == nil {
			return false
		}
		cur = *f.Inl
	}
	return false
}

func runNestedC12(r *vh.Rand, cfg *vh.Config, val protovalidate.Validator, res *vh.Result, cf *vh.CasesFile, caseNo *int, evals *int) {
	n := cfg.Scale(40, 600)
	for u := 0; u < n; u++ {
		genAST = r.Chance(25)
		env := theEnum
		if r.Chance(30) {
			env = theEnumZ
		} else if r.Chance(20) {
			env = oddEnum(vh.Pick(r, oddFirst), 0) // first option merely ends in UNSPECIFIED: an ordinary option
		}
		counter := 0
		kind := "object"
		if r.Chance(15) {
			kind = "oneof"
		}
		s := genNSchemaC12(r, env, kind, 2, &counter)
		hasInline := false
		for _, f := range s.Fields {
			hasInline = hasInline || f.Inl != nil
		}
		if !hasInline {
			continue
		}
		src := nestedFile(env, s)
		var c compiled
		if genAST {
			c = compileNestedAST(env, s)
			src = "(built as source AST, the text is an approximation)\n" + src
		} else {
			c = compileUnit(src)
		}
		input := map[string]any{"j5s": src}
		if c.err != nil || c.panic != nil {
			res.Fail(vh.Failure{Case: *caseNo, Stream: "nested", Sig: "C12 nested: valid declaration does not compile: " + firstWords(fmt.Sprint(c.err, c.panic), 8),
				Clause: "for all valid j5s field declarations (the declaration compiles)", Input: input, Got: fmt.Sprint(c.err, c.panic)})
			*caseNo++
			continue
		}
		md := c.file.Messages().ByName("Foo")
		if md == nil || md.Fields().Len() != len(s.Fields) {
			res.Fail(vh.Failure{Case: *caseNo, Stream: "nested", Sig: "C12 nested: compiled message has another shape", Clause: "the declaration compiles", Input: input, Got: "shape"})
			*caseNo++
			continue
		}
		var vals []string
		for k := 0; k < 8; k++ {
			mv := genMValue(r, env, s, 80)
			vd := validateTree(val, md, s, mv)
			declared := ruleTree(env, s, mv)
			*evals++
			res.Count("nested-message")
			res.Count("nested-message-" + vd.String())
			vt, ok := vd.Coq()
			in := map[string]any{"j5s": src, "value": mv.String()}
			switch {
			case !ok:
				res.Fail(vh.Failure{Case: *caseNo, Stream: "nested", Sig: "C12 nested: the validator fails on a message with embedded messages: " + firstWords(vd.Problem, 8),
					Clause: "the standard validator evaluates the compiled constraints", Input: in, Got: vd.Problem})
				continue
			case vd.Err != "":
				res.Fail(vh.Failure{Case: *caseNo, Stream: "nested", Sig: "C12 nested: validator returns a " + vd.Err + " error on a tree all of whose properties it can evaluate: " + firstWords(vd.Problem, 8),
					Clause: "the validator returns a verdict for every message of the compiled type", Input: in, Got: vd.Problem})
			case declared != vd.Accept:
				res.Fail(vh.Failure{Case: *caseNo, Stream: "nested", Sig: "C12 nested: the validator's verdict on a message with embedded messages differs from the declared rules applied recursively",
					Clause: "the validator accepts a value iff it satisfies the declared rules (embedded messages included)", Input: in,
					Got:    map[string]any{"validator_accepts": vd.Accept, "violations": vd.Ids}, Want: map[string]any{"declared_rules_satisfied": declared}})
			}
			vals = append(vals, fmt.Sprintf("(%s, %s, %s)", mv.Coq(), vt, specTerm(true, declared)))
		}
		cf.Terms = append(cf.Terms, fmt.Sprintf("C12Tree %s %s %s [%s]", env.Coq(), s.Coq(), mtreeTerm(md), strings.Join(vals, ";")))
		res.Cases = append(res.Cases, vh.CaseRec{Case: *caseNo, Stream: "nested", Input: input, Impl: map[string]any{"messages": len(vals)}})
		res.Count("nested")
		*caseNo++
	}
	genAST = false
}

// ---------------------------------------------------------------- the options of a oneof

// memberSem: the declared meaning of an option of a oneof (RulesOneof.member_sem): it may be
// absent unless required; when set — the default value included — its rules hold
func memberSem(env EnumEnv, p Prop, fv FValue) bool {
	if fv.Absent && p.Req {
		return false
	}
	q := p
	q.Req, q.Opt = false, true
	return ruleSem(env, q, fv)
}

func runOneofC12(r *vh.Rand, cfg *vh.Config, val protovalidate.Validator, res *vh.Result, cf *vh.CasesFile, caseNo *int, evals *int) {
	n := cfg.Scale(40, 600)
	for u := 0; u < n; u++ {
		genAST = r.Chance(25)
		env := theEnum
		if r.Chance(30) {
			env = theEnumZ
		} else if r.Chance(20) {
			env = oddEnum(vh.Pick(r, oddFirst), 0) // first option merely ends in UNSPECIFIED: an ordinary option
		}
		if r.Chance(25) {
			env.Where = 1 + r.Intn(2) // the enum in another file of the package / in an imported package
			genAST = false            // several source files: text path (the generator draws AST-only forms otherwise)
		}
		var props []Prop
		for i, k := 0, r.Range(2, 4); i < k; i++ {
			for {
				gd := genProp(r, propName(r, i), "c12", env)
				p := gd.P
				if gd.Class == "" && p.PK == PSingle && !p.Opt && !isPrimary(p) && patternsOK(p) && len(fieldValues(r, p)) > 0 {
					if !r.Chance(20) {
						p.Req = false // mostly: a oneof with a required option has one admissible member only
					}
					props = append(props, p)
					break
				}
			}
		}
		c, src := compileRoot("oneof", env, "", props)
		input := map[string]any{"j5s": src}
		if c.err != nil || c.panic != nil {
			res.Fail(vh.Failure{Case: *caseNo, Stream: "oneof", Sig: "C12 oneof: valid declaration does not compile: " + firstWords(fmt.Sprint(c.err, c.panic), 8),
				Clause: "for all valid j5s field declarations (the declaration compiles)", Input: input, Got: fmt.Sprint(c.err, c.panic)})
			*caseNo++
			continue
		}
		md := c.file.Messages().ByName("Foo")
		if md == nil || md.Fields().Len() != len(props) {
			res.Fail(vh.Failure{Case: *caseNo, Stream: "oneof", Sig: "C12 oneof: compiled message has another shape", Clause: "the declaration compiles", Input: input, Got: "shape"})
			*caseNo++
			continue
		}
		var decls, outs, msgs []string
		for i, p := range props {
			decls = append(decls, p.Coq())
			outs = append(outs, foutTerm(md.Fields().Get(i)))
		}
		for k := 0; k < 8; k++ {
			fvs := make([]FValue, len(props))
			for i := range fvs {
				fvs[i] = FValue{Absent: true}
			}
			if !r.Chance(12) { // one member set (now and then none)
				i := r.Intn(len(props))
				var set, good []FValue
				for _, c := range fieldValues(r, props[i]) {
					if !c.Absent {
						set = append(set, c)
						if memberSem(env, props[i], c) {
							good = append(good, c)
						}
					}
				}
				if len(set) == 0 {
					continue
				}
				fvs[i] = vh.Pick(r, set)
				if len(good) > 0 && r.Chance(60) {
					fvs[i] = vh.Pick(r, good)
				}
			}
			declared := true
			var shown, terms []string
			for i, p := range props {
				if !memberSem(env, p, fvs[i]) {
					declared = false
				}
				shown = append(shown, fvs[i].String())
				terms = append(terms, fvs[i].Coq())
			}
			vd := validateMessage(val, md, fvs)
			*evals++
			res.Count("oneof-message")
			res.Count("oneof-message-" + vd.String())
			vt, ok := vd.Coq()
			in := map[string]any{"j5s": src, "values": shown}
			switch {
			case !ok:
				res.Fail(vh.Failure{Case: *caseNo, Stream: "oneof", Sig: "C12 oneof: the validator fails: " + firstWords(vd.Problem, 8),
					Clause: "the standard validator evaluates the compiled constraints", Input: in, Got: vd.Problem})
				continue
			case vd.Err != "":
				res.Fail(vh.Failure{Case: *caseNo, Stream: "oneof", Sig: "C12 oneof: validator returns a " + vd.Err + " error on options it can evaluate: " + firstWords(vd.Problem, 8),
					Clause: "the validator returns a verdict for every message of the compiled type", Input: in, Got: vd.Problem})
			case declared != vd.Accept:
				res.Fail(vh.Failure{Case: *caseNo, Stream: "oneof", Sig: "C12 oneof: the validator's verdict differs from the declared rules of the option that is set",
					Clause: "the validator accepts a value iff it satisfies the declared rules", Input: in,
					Got:    map[string]any{"validator_accepts": vd.Accept, "violations": vd.Ids}, Want: map[string]any{"declared_rules_satisfied": declared}})
			}
			msgs = append(msgs, fmt.Sprintf("([%s], %s, %s)", strings.Join(terms, ";"), vt, specTerm(true, declared)))
		}
		cf.Terms = append(cf.Terms, fmt.Sprintf("C12Oneof %s [%s] [%s] [%s]", env.Coq(), strings.Join(decls, ";"), strings.Join(outs, ";"), strings.Join(msgs, ";")))
		res.Cases = append(res.Cases, vh.CaseRec{Case: *caseNo, Stream: "oneof", Input: input, Impl: map[string]any{"messages": len(msgs)}})
		res.Count("oneof")
		*caseNo++
	}
	genAST = false
}

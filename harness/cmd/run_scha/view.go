package main

// The field descriptor of family tool's file model (coq/model/ProtoPrintFile.v
// [dfield]) for a compiled field: label, type, names, number, comment and the option
// trees as protoprint walks them (lib/verifshim/tool OptionTrees). Mirrors
// harness/cmd/run_tool/filemodel.go fieldTerm (that package is a command, it cannot
// be imported). Used by the C04View stream: RulesView.view_field of this term must
// be the annotation record this harness dumps for the same field.

import (
	"fmt"
	"sort"
	"strings"

	"github.com/pentops/j5/lib/verifshim/tool"
	"google.golang.org/protobuf/reflect/protoreflect"

	"verifharness/vh"
)

func dQname(s string) string {
	if s == "" {
		return "[]"
	}
	parts := strings.Split(s, ".")
	q := make([]string, len(parts))
	for i, p := range parts {
		q[i] = vh.BytesTerm(p)
	}
	return "[" + strings.Join(q, ";") + "]"
}

func dPn(s string) string {
	abs := "false"
	if strings.HasPrefix(s, ".") {
		abs = "true"
		s = s[1:]
	}
	return fmt.Sprintf("{| pn_abs := %s; pn_name := %s |}", abs, dQname(s))
}

// a leaf of an option tree: a quoted string or a number is a literal, anything else an identifier
func dLeaf(s string) string {
	if s != "" && (s[0] == '"' || s[0] == '-' || (s[0] >= '0' && s[0] <= '9')) {
		return "TLit " + vh.BytesTerm(s)
	}
	return "TIdent " + vh.BytesTerm(s)
}

func dRaw(f tool.OptionField) string {
	switch f.FieldType {
	case tool.OptionMessage:
		parts := make([]string, len(f.Children))
		for i, c := range f.Children {
			parts[i] = "(" + vh.BytesTerm(c.Key) + ", " + dRaw(c) + ")"
		}
		return "(RMsg [" + strings.Join(parts, ";") + "])"
	case tool.OptionArray:
		parts := make([]string, len(f.Children))
		for i, c := range f.Children {
			parts[i] = dRaw(c)
		}
		return "(RList [" + strings.Join(parts, ";") + "])"
	}
	return "(RScalar (" + dLeaf(f.ScalarValue) + "))"
}

func dOpts(d protoreflect.Descriptor) (string, error) {
	trees, err := tool.OptionTrees(d)
	if err != nil {
		return "", err
	}
	sort.SliceStable(trees, func(i, j int) bool { return trees[i].FullName > trees[j].FullName })
	parts := make([]string, len(trees))
	for i, t := range trees {
		line := int32(0)
		if t.HasLine {
			line = t.Line
		}
		parts[i] = fmt.Sprintf("{| o_key := {| k_line := %d; k_idx := %d |}; o_full := %s; o_name := %s; o_val := %s |}",
			line, t.Index, dQname(t.FullName), dPn(t.RefName), dRaw(t.Root))
	}
	return "[" + strings.Join(parts, ";") + "]", nil
}

func dVt(f protoreflect.FieldDescriptor) string {
	split := func(d protoreflect.Descriptor) (string, string) {
		pkg := string(d.ParentFile().Package())
		full := string(d.FullName())
		if pkg == "" {
			return "", full
		}
		return pkg, strings.TrimPrefix(full, pkg+".")
	}
	switch f.Kind() {
	case protoreflect.MessageKind:
		pkg, path := split(f.Message())
		return fmt.Sprintf("(DRef %s %s)", dQname(pkg), dQname(path))
	case protoreflect.EnumKind:
		pkg, path := split(f.Enum())
		return fmt.Sprintf("(DRef %s %s)", dQname(pkg), dQname(path))
	}
	return "(DScalar " + vh.BytesTerm(f.Kind().String()) + ")"
}

// dfieldTerm: the Coq term of type ProtoPrintFile.dfield for a field
func dfieldTerm(f protoreflect.FieldDescriptor) (string, error) {
	label := "LNone"
	var ty string
	if f.IsMap() {
		ty = fmt.Sprintf("(DMapT %s %s %s)", vh.BytesTerm(f.MapKey().Kind().String()), vh.BytesTerm(string(f.Message().Name())), dVt(f.MapValue()))
	} else {
		ty = "(DSingle " + dVt(f) + ")"
		if f.IsList() {
			label = "LRepeated"
		} else if f.HasOptionalKeyword() {
			label = "LOptional"
		}
	}
	opts, err := dOpts(f)
	if err != nil {
		return "", err
	}
	loc := f.ParentFile().SourceLocations().ByDescriptor(f)
	det := make([]string, len(loc.LeadingDetachedComments))
	for i, c := range loc.LeadingDetachedComments {
		det[i] = vh.BytesTerm(c)
	}
	return fmt.Sprintf("{| f_key := {| k_line := %d; k_idx := %d |}; f_cm := {| c_det := [%s]; c_lead := %s |}; f_label := %s; f_type := %s; f_name := %s; f_num := %d; f_json := %s; f_opts := %s |}",
		loc.StartLine, f.Index(), strings.Join(det, ";"), vh.BytesTerm(loc.LeadingComments), label, ty, vh.BytesTerm(string(f.Name())), f.Number(), vh.BytesTerm(f.JSONName()), opts), nil
}

package main

// C04 for schemas declared inline (README "Inline Types"): generated declaration trees
// (an object Foo whose object / oneof fields — singular, array items, map values —
// declare their type in place, two levels deep), compiled through j5s text or the source
// AST; the tree of nested messages the real compiler emits and the root schema the real
// reflector returns for every message of it, as Coq terms (case C04Tree, model
// RulesNested.v), plus the direct oracle: every nested schema is named Outer_Inner, has
// the declared description and properties, and the declaring field refers to it.

import (
	"context"
	"fmt"
	"strings"

	"github.com/iancoleman/strcase"
	"github.com/pentops/j5/gen/j5/ext/v1/ext_j5pb"
	"github.com/pentops/j5/gen/j5/schema/v1/schema_j5pb"
	"github.com/pentops/j5/gen/j5/sourcedef/v1/sourcedef_j5pb"
	"github.com/pentops/j5/lib/j5schema"
	"github.com/pentops/j5/lib/verifshim/compile"
	"github.com/pentops/j5/lib/verifshim/scha"
	"github.com/pentops/j5/lib/verifshim/tool"
	"google.golang.org/protobuf/proto"
	"google.golang.org/protobuf/reflect/protodesc"
	"google.golang.org/protobuf/reflect/protoreflect"
	"google.golang.org/protobuf/reflect/protoregistry"
	"google.golang.org/protobuf/types/descriptorpb"

	"verifharness/vh"
)

type NSchema struct {
	Kind   string  // object | oneof
	Name   *string // the name an inline declaration states (nil: default = ToCamel(field name))
	Desc   string
	Fields []NField
}

type NField struct {
	P   Prop
	Inl *NSchema
}

func genNSchema(r *vh.Rand, env EnumEnv, kind string, depth int, counter *int) NSchema {
	s := NSchema{Kind: kind, Desc: genDesc(r)}
	if r.Chance(8) {
		s.Desc = "# heading" // outside the fragment (commentDescription drops the line)
	}
	n := r.Range(1, 4)
	for i := 0; i < n; i++ {
		name := propName(r, i)
		if depth > 0 && r.Chance(55) {
			// a field whose type is declared inline
			ik := "object"
			t := FTy{Kind: TObject}
			if r.Chance(35) {
				ik = "oneof"
				t = FTy{Kind: TOneof}
			}
			p := Prop{Name: name, T: t, Desc: genDesc(r)}
			if kind != "oneof" {
				switch r.Intn(5) {
				case 0:
					p.PK = PArray
					if a := (&ArrRules{Min: optU(r, 3), Max: optU(r, 6)}); a.Min != nil || a.Max != nil {
						p.Arr = a
					}
				case 1:
					p.PK = PMap
					if m := (&MapRules{Min: optU(r, 3), Max: optU(r, 6)}); m.Min != nil || m.Max != nil {
						p.MapR = m
					}
				default:
					p.Req = r.Chance(25)
					p.Opt = !p.Req && r.Chance(25)
					if ik == "object" && r.Chance(20) {
						p.T.Flatten = true
					}
				}
			}
			inner := genNSchema(r, env, ik, depth-1, counter)
			if r.Chance(50) {
				*counter++
				nm := fmt.Sprintf("Inner%d", *counter)
				inner.Name = &nm
			}
			s.Fields = append(s.Fields, NField{P: p, Inl: &inner})
			continue
		}
		gd := genProp04(r, name, env)
		for refused(gd.Class) || readerFails(gd.P) || (kind == "oneof" && (gd.P.PK != PSingle || gd.P.Opt)) ||
			(gd.P.T.Kind == TEnum && env.Unspecified != "" && env.Unspecified != "UNSPECIFIED" && env.Unspecified != env.Prefix+"UNSPECIFIED") {
			gd = genProp04(r, name, env)
		}
		s.Fields = append(s.Fields, NField{P: gd.P})
	}
	return s
}

// declarations on which the reader returns an error (known findings of the flat stream):
// a whole tree would fail to reflect
func readerFails(p Prop) bool {
	t := p.T
	wk := func(s string) bool {
		return s == wellKnownPatterns[0] || s == wellKnownPatterns[1] || s == wellKnownPatterns[2]
	}
	if p.PK == PMap || t.List == nil {
		return false
	}
	return (t.Kind == TStr && t.Str != nil && t.Str.Pat != nil && wk(*t.Str.Pat)) || (t.Kind == TKey && t.KF == KCustom && wk(t.KPat))
}

func optU(r *vh.Rand, max int) *uint64 {
	if r.Chance(40) {
		return nil
	}
	return ptr(uint64(r.Intn(max + 1)))
}

func (s NSchema) innerName(f NField) string {
	if f.Inl.Name != nil {
		return *f.Inl.Name
	}
	return strcase.ToCamel(f.P.Name)
}

// ---- Coq term of the declaration tree

func (s NSchema) Coq() string {
	k := "RObject"
	if s.Kind == "oneof" {
		k = "ROneof"
	}
	name := "None"
	if s.Name != nil {
		name = "(Some " + vh.BytesTerm(*s.Name) + ")"
	}
	fs := make([]string, len(s.Fields))
	for i, f := range s.Fields {
		inl := "None"
		if f.Inl != nil {
			inl = "(Some " + f.Inl.Coq() + ")"
		}
		fs[i] = fmt.Sprintf("NF %s %s", f.P.Coq(), inl)
	}
	return fmt.Sprintf("(NS %s %s %s [%s])", k, name, vh.BytesTerm(s.Desc), strings.Join(fs, ";"))
}

// ---- j5s text

func indentBlock(s string, tabs int) string {
	pre := strings.Repeat("\t", tabs)
	lines := strings.Split(strings.TrimRight(s, "\n"), "\n")
	for i, l := range lines {
		if l != "" {
			lines[i] = pre + l
		}
	}
	return strings.Join(lines, "\n") + "\n"
}

// body: the lines between the braces of a schema block (one tab deep)
func (s NSchema) body(env EnumEnv) string {
	var sb strings.Builder
	for _, f := range s.Fields {
		txt := f.P.J5S(env)
		if f.Inl != nil {
			// `object:Bar {` -> `object {`, then the inline declaration before the closing brace
			txt = strings.Replace(txt, ":"+f.P.T.refName()+" {", " {", 1)
			txt = strings.TrimSuffix(txt, "\t}\n")
			var in strings.Builder
			if f.Inl.Name != nil {
				fmt.Fprintf(&in, "\t%s.name = %s\n", f.Inl.Kind, q(*f.Inl.Name))
			}
			if f.Inl.Desc != "" {
				fmt.Fprintf(&in, "\t%s.description = %s\n", f.Inl.Kind, q(f.Inl.Desc))
			}
			in.WriteString(f.Inl.body(env))
			txt += indentBlock(in.String(), 1) + "\t}\n"
		}
		if s.Kind == "oneof" {
			txt = strings.Replace(txt, "\tfield ", "\toption ", 1)
		}
		sb.WriteString(txt)
		sb.WriteString("\n")
	}
	return sb.String()
}

func nestedFile(env EnumEnv, s NSchema) string {
	var sb strings.Builder
	sb.WriteString("package foo.v1\n\n")
	sb.WriteString(env.J5S())
	sb.WriteString("\nobject Bar {\n\tfield x string\n}\n\nobject Baz {\n\tfield y integer:INT32\n}\n\noneof Choice {\n\toption a string\n\toption b integer:INT32\n}\n\noneof Pick {\n\toption c string\n}\n\n")
	fmt.Fprintf(&sb, "%s Foo {\n", s.Kind)
	if s.Desc != "" {
		fmt.Fprintf(&sb, "\t| %s\n\n", s.Desc)
	}
	sb.WriteString(s.body(env))
	sb.WriteString("}\n")
	return sb.String()
}

// ---- source AST

func (s NSchema) sourceProps(env EnumEnv) []*schema_j5pb.ObjectProperty {
	var out []*schema_j5pb.ObjectProperty
	for _, f := range s.Fields {
		op := sourceProp(env, f.P)
		if f.Inl != nil {
			name := ""
			if f.Inl.Name != nil {
				name = *f.Inl.Name
			}
			item := op.Schema
			switch t := op.Schema.Type.(type) {
			case *schema_j5pb.Field_Array:
				item = t.Array.Items
			case *schema_j5pb.Field_Map:
				item = t.Map.ItemSchema
			}
			switch t := item.Type.(type) {
			case *schema_j5pb.Field_Object:
				t.Object.Schema = &schema_j5pb.ObjectField_Object{Object: &schema_j5pb.Object{Name: name, Description: f.Inl.Desc, Properties: f.Inl.sourceProps(env)}}
			case *schema_j5pb.Field_Oneof:
				t.Oneof.Schema = &schema_j5pb.OneofField_Oneof{Oneof: &schema_j5pb.Oneof{Name: name, Description: f.Inl.Desc, Properties: f.Inl.sourceProps(env)}}
			}
		}
		out = append(out, op)
	}
	return out
}

func compileNestedAST(env EnumEnv, s NSchema) (c compiled) {
	defer func() {
		if r := recover(); r != nil {
			c.panic = r
		}
	}()
	sf := sourceFile(s.Kind, env, s.Desc, nil)
	switch root := sf.Elements[len(sf.Elements)-1].Type.(type) {
	case *sourcedef_j5pb.RootElement_Object:
		root.Object.Def.Properties = s.sourceProps(env)
	case *sourcedef_j5pb.RootElement_Oneof:
		root.Oneof.Def.Properties = s.sourceProps(env)
	}
	fdps, err := scha.ConvertSource(sf)
	if err != nil {
		c.err = err
		return
	}
	for _, fdp := range fdps {
		if fdp.GetName() != "foo/v1/a.j5s.proto" {
			continue
		}
		fd, err := protodesc.NewFile(fdp, protoregistry.GlobalFiles)
		if err != nil {
			c.err = fmt.Errorf("link: %w", err)
			return
		}
		c.file = fd
		c.files = append(c.files, fd)
	}
	if c.file == nil {
		c.err = fmt.Errorf("converted file a.j5s.proto not in output")
	}
	return
}

// ---- what the compiler emitted: the tree of messages

func realNested(md protoreflect.MessageDescriptor) []protoreflect.MessageDescriptor {
	var out []protoreflect.MessageDescriptor
	for i := 0; i < md.Messages().Len(); i++ {
		if n := md.Messages().Get(i); !n.IsMapEntry() {
			out = append(out, n)
		}
	}
	return out
}

func mtreeTerm(md protoreflect.MessageDescriptor) string {
	opt := "None"
	if mo, ok := proto.GetExtension(md.Options(), ext_j5pb.E_Message).(*ext_j5pb.MessageOptions); ok && mo != nil {
		switch mo.Type.(type) {
		case *ext_j5pb.MessageOptions_Object:
			opt = "(Some RObject)"
		case *ext_j5pb.MessageOptions_Oneof:
			opt = "(Some ROneof)"
		}
	}
	fs := make([]string, md.Fields().Len())
	for i := range fs {
		fs[i] = foutTerm(md.Fields().Get(i))
	}
	var ns []string
	for _, n := range realNested(md) {
		ns = append(ns, mtreeTerm(n))
	}
	return fmt.Sprintf("(MT (RO %s %s %s [%s]) [%s])", vh.BytesTerm(string(md.Name())), vh.BytesTerm(declaredComment(md)), opt, strings.Join(fs, ";"), strings.Join(ns, ";"))
}

// ---- what the reflector returns, per message of the tree

type reflNode struct {
	r     reflected
	inner []*reflNode
}

func reflectTree(md protoreflect.MessageDescriptor) *reflNode {
	n := &reflNode{r: reflectObject(md)}
	for _, x := range realNested(md) {
		n.inner = append(n.inner, reflectTree(x))
	}
	return n
}

func (n *reflNode) ok() bool {
	if n.r.obj == nil {
		return false
	}
	for _, x := range n.inner {
		if !x.ok() {
			return false
		}
	}
	return true
}

func (n *reflNode) firstErr() string {
	if n.r.obj == nil {
		return fmt.Sprint(n.r.err, n.r.panic)
	}
	for _, x := range n.inner {
		if e := x.firstErr(); e != "" {
			return e
		}
	}
	return ""
}

func (n *reflNode) term(env EnumEnv, res *vh.Result) string {
	k := "RObject"
	if n.r.isOneof {
		k = "ROneof"
	}
	var ps []string
	for _, rp := range n.r.obj.Properties {
		ap, ok := propFromProto(env, rp)
		if !ok || len(rp.ProtoField) != 1 {
			ps = append(ps, "None")
			res.Count("nested-reflected-unrepresentable")
			continue
		}
		ps = append(ps, fmt.Sprintf("(Some (RP %s [%d]))", ap.Coq(), rp.ProtoField[0]))
	}
	var in []string
	for _, x := range n.inner {
		in = append(in, x.term(env, res))
	}
	return fmt.Sprintf("(OT %s %s %s [%s] [%s])", k, vh.BytesTerm(n.r.obj.Name), vh.BytesTerm(n.r.obj.Description), strings.Join(ps, ";"), strings.Join(in, ";"))
}

// ---- the direct oracle: declared tree vs reflected tree

func (s NSchema) judge(env EnumEnv, path []string, n *reflNode, res *vh.Result, caseNo int, src string) {
	fail := func(sig, got, want string, input map[string]any) {
		res.Fail(vh.Failure{Case: caseNo, Stream: "nested", Sig: sig, Clause: "for every object and oneof (inline types): reflection yields the declared schema", Input: input, Got: got, Want: want})
	}
	whole := map[string]any{"j5s": src}
	wantName := strings.Join(path, "_")
	if n.r.isOneof != (s.Kind == "oneof") {
		fail("C04 nested: schema kind differs (object vs oneof)", protoString(n.r.obj), s.Kind, whole)
	}
	if n.r.obj.Name != wantName {
		fail("C04 nested: an inline schema is not named <Outer>_<Inner>", n.r.obj.Name, wantName, whole)
	}
	if n.r.obj.Description != s.Desc {
		if !descPlain(s.Desc) {
			fail("C04 description with a line starting with '#': the reader's commentDescription drops the line", n.r.obj.Description, s.Desc, whole)
		} else {
			fail("C04 nested: description of an inline schema differs", n.r.obj.Description, s.Desc, whole)
		}
	}
	if len(n.r.obj.Properties) != len(s.Fields) {
		fail("C04 nested: number of properties differs", protoString(n.r.obj), fmt.Sprint(len(s.Fields)), whole)
		return
	}
	k := 0
	for i, f := range s.Fields {
		p := f.P
		if f.Inl != nil {
			p.T.Ref = strings.Join(append(append([]string{}, path...), s.innerName(f)), "_")
		}
		want := normProp(env, p).toProto(env, int32(i+1))
		got := n.r.obj.Properties[i]
		if proto.Equal(want, got) {
			res.Count("nested-property-equal")
		} else {
			raw := diffPaths(want, got)
			if !descExpressible(p.Desc) { // a padded description cannot be written in j5s text: not judged
				var rest []string
				for _, x := range raw {
					if x != ".description" {
						rest = append(rest, x)
					}
				}
				raw = rest
			}
			if len(raw) == 0 {
				res.Count("nested-property-not-judged")
			} else {
				sigs := explain(genDecl{P: p}, raw, want, got)
				if sigs == nil {
					sigs = []string{fmt.Sprintf("C04 nested %s: reflected schema differs from the declared one at %s", shapeOf(p), strings.Join(collapse(raw, p.PK == PMap), " "))}
				}
				for _, sig := range sigs {
					fail(sig, protoString(got), protoString(want), map[string]any{"j5s": p.J5S(env), "object": src})
				}
			}
		}
		if f.Inl != nil {
			if k >= len(n.inner) {
				fail("C04 nested: no nested message for an inline schema", "", s.innerName(f), whole)
				continue
			}
			f.Inl.judge(env, append(append([]string{}, path...), s.innerName(f)), n.inner[k], res, caseNo, src)
			k++
		}
	}
}

// ---- second clause for trees: the printed .proto text reflects to the same schemas

// textTree: print the file with the real printer, parse it the way the toolchain reads
// generated files back, reflect every message of the tree
func textTree(f protoreflect.FileDescriptor) (n *reflNode, text string, err error) {
	defer func() {
		if p := recover(); p != nil {
			err = fmt.Errorf("panic: %v", p)
		}
	}()
	text, err = compile.PrintFile(context.Background(), f)
	if err != nil {
		return nil, text, fmt.Errorf("print: %w", err)
	}
	parsed, err := tool.ParseProto(context.Background(), map[string]string{"foo/v1/a.proto": text}, []string{"foo/v1/a.proto"})
	if err != nil {
		return nil, text, fmt.Errorf("parse printed text: %w", err)
	}
	rf, err := retype(parsed, "foo/v1/a.proto")
	if err != nil {
		return nil, text, fmt.Errorf("retype: %w", err)
	}
	md := rf.Messages().ByName("Foo")
	if md == nil {
		return nil, text, fmt.Errorf("message missing in re-parsed text")
	}
	return reflectTree(md), text, nil
}

// strippedTree: the in-memory tree without the options on the value fields of map entries
// (what map<,> syntax cannot carry), reflected
func strippedTree(files []protoreflect.FileDescriptor, path string) (n *reflNode, err error) {
	defer func() {
		if p := recover(); p != nil {
			err = fmt.Errorf("panic: %v", p)
		}
	}()
	set := &descriptorpb.FileDescriptorSet{}
	var strip func(m *descriptorpb.DescriptorProto)
	strip = func(m *descriptorpb.DescriptorProto) {
		for _, x := range m.NestedType {
			if x.GetOptions().GetMapEntry() {
				for _, f := range x.Field {
					if f.GetNumber() == 2 {
						f.Options = nil
					}
				}
			} else {
				strip(x)
			}
		}
	}
	for _, f := range compile.WithDeps(files) {
		b, err := proto.Marshal(compile.ToProto(f))
		if err != nil {
			return nil, err
		}
		fdp := &descriptorpb.FileDescriptorProto{}
		if err := proto.Unmarshal(b, fdp); err != nil {
			return nil, err
		}
		if fdp.GetName() == path {
			for _, m := range fdp.MessageType {
				strip(m)
			}
		}
		set.File = append(set.File, fdp)
	}
	reg, err := protodesc.NewFiles(set)
	if err != nil {
		return nil, err
	}
	fd, err := reg.FindFileByPath(path)
	if err != nil {
		return nil, err
	}
	md := fd.Messages().ByName("Foo")
	if md == nil {
		return nil, fmt.Errorf("message missing")
	}
	return reflectTree(md), nil
}

// judgeText: per message of the tree, the schema reflected from the text against the in-memory one
func judgeText(mem, txt, stripped *reflNode, res *vh.Result, caseNo int, src, text string) {
	fail := func(sig, got, want string) {
		res.Fail(vh.Failure{Case: caseNo, Stream: "nested-text", Sig: sig, Clause: "the same schema is obtained from the generated .proto text (inline types)",
			Input: map[string]any{"j5s": src, "proto": text}, Got: got, Want: want})
	}
	if mem.r.obj == nil || txt.r.obj == nil {
		if (mem.r.obj == nil) != (txt.r.obj == nil) {
			fail("C04 nested text: a message of the tree reflects from only one of text and memory", fmt.Sprint(txt.r.err, txt.r.panic), fmt.Sprint(mem.r.err, mem.r.panic))
		}
		return
	}
	res.Count("nested-text-message")
	if !proto.Equal(mem.r.obj, txt.r.obj) {
		explained := false
		if len(mem.r.obj.Properties) == len(txt.r.obj.Properties) && mem.r.obj.Name == txt.r.obj.Name && mem.r.obj.Description == txt.r.obj.Description {
			explained = true
			for i := range mem.r.obj.Properties {
				if proto.Equal(mem.r.obj.Properties[i], txt.r.obj.Properties[i]) {
					continue
				}
				isMap := mem.r.obj.Properties[i].GetSchema().GetMap() != nil
				if !(isMap && stripped != nil && stripped.r.obj != nil && i < len(stripped.r.obj.Properties) && proto.Equal(stripped.r.obj.Properties[i], txt.r.obj.Properties[i])) {
					explained = false
				}
			}
		}
		if explained {
			fail("C04 text: options on the value field of a map entry cannot be written in map<,> syntax; the printed text reflects exactly as the descriptor without them does", protoString(txt.r.obj), protoString(mem.r.obj))
		} else {
			fail("C04 nested text: a schema of the tree reflected from the printed .proto text differs from the in-memory one", protoString(txt.r.obj), protoString(mem.r.obj))
		}
	}
	if len(mem.inner) != len(txt.inner) {
		fail("C04 nested text: the re-parsed message has another number of nested messages", fmt.Sprint(len(txt.inner)), fmt.Sprint(len(mem.inner)))
		return
	}
	for i := range mem.inner {
		var st *reflNode
		if stripped != nil && i < len(stripped.inner) {
			st = stripped.inner[i]
		}
		judgeText(mem.inner[i], txt.inner[i], st, res, caseNo, src, text)
	}
}

// runNested: the stream; terms are appended to cf, cases / failures to res
func runNested(r *vh.Rand, cfg *vh.Config, res *vh.Result, cf *vh.CasesFile, caseNo *int, evals *int) {
	n := cfg.Scale(50, 800)
	pins := pinnedClashTrees()
	for u := -len(pins); u < n; u++ {
		genAST = r.Chance(25)
		env := genEnum(r)
		kind := "object"
		if r.Chance(15) {
			kind = "oneof"
		}
		counter := 0
		depth := 2
		if u >= 0 && u%8 == 0 {
			depth = 3 // pinned: inline types nested four levels deep (schema names with three underscores; seeded C04-H)
		}
		s := genNSchema(r, env, kind, depth, &counter)
		var pin *clashTree
		if u < 0 {
			// pinned: client property names through flatten levels (/repo 96a1ec3)
			pin = &pins[u+len(pins)]
			s, env = pin.s, theEnum
			res.Count("nested-pinned-client-names")
		} else {
			dedupFields(s.Fields) // a clash is not a valid package: the flatten flag is dropped
		}
		hasInline := false
		for _, f := range s.Fields {
			hasInline = hasInline || f.Inl != nil
		}
		if !hasInline {
			continue
		}
		src := nestedFile(env, s)
		var c compiled
		if genAST {
			c = compileNestedAST(env, s)
			src = "(built as source AST, the text is an approximation)\n" + src
			res.Count("nested-via-ast")
		} else {
			c = compileUnit(src)
		}
		*evals++
		input := map[string]any{"j5s": src}
		if c.err != nil || c.panic != nil {
			res.Fail(vh.Failure{Case: *caseNo, Stream: "nested", Sig: "C04 nested: valid declaration does not compile: " + firstWords(fmt.Sprint(c.err, c.panic), 8),
				Clause: "the package compiles", Input: input, Got: fmt.Sprint(c.err, c.panic)})
			*caseNo++
			continue
		}
		md := c.file.Messages().ByName("Foo")
		if md == nil {
			res.Fail(vh.Failure{Case: *caseNo, Stream: "nested", Sig: "C04 nested: compiled file has no message Foo", Clause: "the package compiles", Input: input, Got: "missing"})
			*caseNo++
			continue
		}
		rt := reflectTree(md)
		// the names check of the reader against the model's (tree_names_ok) on every compiled tree
		clash := isClientNameClash(rt.firstErr())
		cf.Terms = append(cf.Terms, fmt.Sprintf("C04Names %s %s %s", fixedRefsTerm(), mtreeTerm(md), vh.BoolTerm(clash)))
		res.Cases = append(res.Cases, vh.CaseRec{Case: *caseNo, Stream: "client-names", Input: input, Impl: map[string]any{"reader_refuses_name_clash": clash, "error": rt.firstErr()}})
		res.Count("client-names")
		if clash {
			res.Count("client-names-clash-refused")
		}
		if pin != nil && pin.clash {
			if !clash {
				res.Fail(vh.Failure{Case: *caseNo, Stream: "client-names", Sig: "C04 client names: a package whose client property names clash through flattening (" + pin.what + ") is not refused by the reader",
					Clause: "valid j5s packages (client property names of an object pairwise different through flatten levels); the reader refuses the others", Input: input,
					Got: map[string]any{"reflects": rt.ok(), "error": rt.firstErr()}, Want: "client properties of <object>: property name is used twice"})
			}
			*caseNo++
			continue
		}
		refl := "None"
		if rt.ok() {
			refl = "(Some " + rt.term(env, res) + ")"
		}
		cf.Terms = append(cf.Terms, fmt.Sprintf("C04Tree %s %s %s %s %s", env.Coq(), vh.BytesTerm("Foo"), s.Coq(), mtreeTerm(md), refl))
		res.Cases = append(res.Cases, vh.CaseRec{Case: *caseNo, Stream: "nested", Input: input, Impl: map[string]any{"reflected": protoString(rt.r.obj), "error": rt.firstErr()}})
		res.Count("nested")
		if rt.ok() {
			s.judge(env, []string{"Foo"}, rt, res, *caseNo, src)
			// the second clause on the tree
			if tt, text, err := textTree(c.file); err != nil {
				res.Fail(vh.Failure{Case: *caseNo, Stream: "nested-text", Sig: "C04 nested text: reflecting the printed .proto text fails: " + firstWords(err.Error(), 8),
					Clause: "the same schema is obtained from the generated .proto text (inline types)", Input: map[string]any{"j5s": src, "proto": text}, Got: err.Error()})
			} else {
				st, _ := strippedTree(c.files, string(c.file.Path()))
				judgeText(rt, tt, st, res, *caseNo, src, text)
			}
		} else {
			sig := "C04 nested: reflecting the compiled tree fails: " + firstWords(rt.firstErr(), 8)
			res.Fail(vh.Failure{Case: *caseNo, Stream: "nested", Sig: sig, Clause: "reflection yields the declared schema", Input: input, Got: rt.firstErr()})
		}
		*caseNo++
	}
	genAST = false
	_ = j5schema.NewSchemaCache
}

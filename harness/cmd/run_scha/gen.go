package main

// Generators: property declarations (every rule absent / zero / boundary / both
// booleans) and, for a declaration, candidate values around every boundary the
// rules induce.

import (
	"fmt"
	"math"
	"regexp"
	"sort"
	"strings"

	"verifharness/vh"
)

func ptr[T any](v T) *T { return &v }

var theEnum = EnumEnv{Name: "Color", Prefix: "COLOR_", Options: []string{"RED", "GREEN", "BLUE", "DARK_RED"}}

// the same enum with its zero option declared explicitly (rules can then name it)
var theEnumZ = EnumEnv{Name: "Color", Prefix: "COLOR_", Unspecified: "UNSPECIFIED", Options: []string{"RED", "GREEN", "BLUE", "DARK_RED"}}

// first options whose name ends in UNSPECIFIED without being the zero spelling (UNSPECIFIED or
// <prefix>UNSPECIFIED): ordinary options, numbered 1, value 0 stays the implicit <prefix>UNSPECIFIED;
// the enum's summary for references (enumTypeRef: names in rules.in / rules.notIn) and the compiled enum
// (visitEnumNode) have to agree on that
var oddFirst = []string{"OLD_UNSPECIFIED", "LEVEL_UNSPECIFIED", "X_UNSPECIFIED"}

func oddEnum(first string, where int) EnumEnv {
	e := theEnum
	e.Options = append([]string{first}, theEnum.Options...)
	e.Where = where
	return e
}

// pinnedOddC12: enum fields restricting such an enum by names before and after the odd option
func pinnedOddC12(env EnumEnv) []genDecl {
	mk := func(name string, p Prop) genDecl { p.Name = name; return genDecl{P: p} }
	u := func(v uint64) *uint64 { return &v }
	first, last := env.Options[0], env.Options[len(env.Options)-1]
	return []genDecl{
		mk("pinOddIn", Prop{T: FTy{Kind: TEnum, Enum: &EnumRules{In: []string{last}}}}),
		mk("pinOddNotIn", Prop{T: FTy{Kind: TEnum, Enum: &EnumRules{NotIn: []string{env.Options[1]}}}}),
		mk("pinOddInFirst", Prop{T: FTy{Kind: TEnum, Enum: &EnumRules{In: []string{first, env.Prefix + env.Options[2]}}}}),
		mk("pinOddNotInFirst", Prop{Req: true, T: FTy{Kind: TEnum, Enum: &EnumRules{NotIn: []string{env.Prefix + first}}}}),
		mk("pinOddArr", Prop{PK: PArray, Arr: &ArrRules{Min: u(1)}, T: FTy{Kind: TEnum, Enum: &EnumRules{In: []string{env.Options[1], last}}}}),
		mk("pinOddPlain", Prop{T: FTy{Kind: TEnum}}),
	}
}

// genEnum: the enum of a compile unit: default or explicit prefix, options
// written short or prefixed, an explicit UNSPECIFIED now and then, descriptions
func genEnum(r *vh.Rand) EnumEnv {
	e := EnumEnv{Name: "Color", Prefix: "COLOR_"}
	if r.Chance(30) {
		e.ExplicitPrefix = true
		e.Prefix = vh.Pick(r, []string{"CLR_", "COLOR_", "C_"})
	}
	pool := []string{"RED", "GREEN", "BLUE", "DARK_RED", "X1"}
	n := r.Range(2, len(pool))
	for i := 0; i < n; i++ {
		o := pool[i]
		if r.Chance(25) {
			o = e.Prefix + o
		}
		e.Options = append(e.Options, o)
		d := ""
		if r.Chance(30) {
			d = genDesc(r)
		}
		e.OptDescs = append(e.OptDescs, d)
	}
	if r.Chance(20) {
		e.Unspecified = "UNSPECIFIED"
		if r.Bool() {
			e.Unspecified = e.Prefix + "UNSPECIFIED"
		}
		if r.Chance(30) {
			e.UnspecDesc = "nothing"
		}
		if r.Chance(30) {
			// another first option ending in UNSPECIFIED: since /repo a65e1f2 an ordinary
			// option (number 1), value 0 stays the implicit <prefix>UNSPECIFIED
			e.Options = append([]string{vh.Pick(r, oddFirst)}, e.Options...)
			e.OptDescs = append([]string{e.UnspecDesc}, e.OptDescs...)
			e.Unspecified, e.UnspecDesc = "", ""
		}
	}
	if r.Chance(40) {
		e.Desc = genDesc(r)
	}
	// info fields of the enum and info of its options
	if r.Chance(30) {
		for i, n := 0, r.Range(1, 2); i < n; i++ {
			f := [3]string{vh.Pick(r, []string{"hex", "label", "weight"}) + fmt.Sprint(i), "", ""}
			if r.Bool() {
				f[1] = vh.Pick(r, []string{"Hex", "A label", "é"})
			}
			if r.Chance(40) {
				f[2] = "describes " + f[0]
			}
			e.InfoFields = append(e.InfoFields, f)
		}
		e.OptInfos = make([]map[string]string, len(e.Options))
		for i := range e.Options {
			if r.Chance(60) {
				m := map[string]string{}
				for _, f := range e.InfoFields {
					if r.Chance(70) {
						m[f[0]] = vh.Pick(r, []string{"ff0000", "", "two words", "é日"})
					}
				}
				if len(m) > 0 {
					e.OptInfos[i] = m
				}
			}
		}
		if e.Unspecified != "" && r.Chance(40) {
			e.UnspecInfo = map[string]string{e.InfoFields[0][0]: "none"}
		}
	}
	return e
}

// patterns of the one form the Coq correspondence can decide: ^[ranges]{n}$
var patterns = []string{"^[a-z]{3}$", "^[0-9A-F]{4}$", "^[a-c0-2]{2}$", "^[A-Za-z]{1}$", "^[0-9]{5}$"}

// patterns Go's regexp (RE2, which CEL's matches() uses) refuses to compile; the
// j5 compiler copies them into string.pattern unchecked
var badPatterns = []string{"[", "(", "a)", "(?=a)", "a{2000}", "(a)\\1", "*a", "a**", "[z-a]"}

func init() {
	for _, p := range badPatterns {
		if _, err := regexp.Compile(p); err == nil {
			panic("badPatterns: " + p + " compiles")
		}
	}
	for _, p := range patterns {
		regexp.MustCompile(p)
	}
}

// bounds the j5s text language can express: BCL has no negative integer literal
func boundRange(k IKind) (lo, hi int64) {
	_, hi = kindRange(k)
	return 0, hi
}

func kindRange(k IKind) (lo, hi int64) {
	switch k {
	case I32:
		return math.MinInt32, math.MaxInt32
	case I64:
		return math.MinInt64, math.MaxInt64
	case U32:
		return 0, math.MaxUint32
	default:
		return 0, math.MaxInt64 // declared bounds are int64
	}
}

func optBool(r *vh.Rand) *bool {
	switch r.Intn(3) {
	case 0:
		return nil
	case 1:
		return ptr(false)
	}
	return ptr(true)
}

func smallLen(r *vh.Rand) *uint64 {
	switch r.Intn(4) {
	case 0:
		return nil
	case 1:
		return ptr(uint64(0))
	}
	return ptr(uint64(r.Range(1, 6)))
}

func genLPay(r *vh.Rand, sortable, searchable bool) *LPay {
	if !r.Chance(25) {
		return nil
	}
	p := &LPay{}
	if searchable {
		p.Searchable = true
		return p
	}
	p.Filterable = r.Bool()
	if r.Chance(30) {
		p.Filters = []string{"a"}
	}
	if sortable {
		p.Sortable = r.Bool()
		p.DefaultSort = r.Bool()
	}
	return p
}

// class: "" admissible; otherwise the reason the declaration is outside the
// admissible set (the compiler is expected to fail, or C12 is known not to hold).
type genDecl struct {
	P     Prop
	Class string
}

func genIntRules(r *vh.Rand, k IKind) (*IntRules, string) {
	if r.Chance(15) {
		return nil, ""
	}
	lo, hi := boundRange(k)
	if genAST {
		lo, _ = kindRange(k) // the AST can hold negative bounds
	}
	pick := func() int64 {
		switch r.Intn(8) {
		case 0:
			return 0
		case 1:
			return lo
		case 2:
			return hi
		case 3:
			if lo < 0 {
				return -int64(r.Range(1, 50))
			}
			return int64(r.Range(1, 50))
		case 4:
			return hi - int64(r.Intn(3))
		case 5:
			return lo + int64(r.Intn(3))
		}
		return int64(r.Range(1, 200))
	}
	ir := &IntRules{}
	class := ""
	if r.Chance(70) {
		ir.Min = ptr(pick())
	}
	if r.Chance(70) {
		ir.Max = ptr(pick())
	}
	ir.XMin = optBool(r)
	ir.XMax = optBool(r)
	if ir.Min != nil && ir.Max != nil && *ir.Min > *ir.Max {
		if r.Chance(85) {
			*ir.Min, *ir.Max = *ir.Max, *ir.Min
		} else {
			class = "compile-error" // minimum > maximum is rejected
		}
	}
	if class == "" && k != I64 && r.Chance(8) { // a bound outside the format's range
		class = "compile-error" // a bound outside the format's range is rejected
		out := int64(5000000000)
		if k == U64 {
			class = ""
		} else if r.Bool() {
			ir.Max, ir.Min = ptr(out), nil
		} else {
			ir.Min, ir.Max = ptr(out+int64(r.Intn(3))), nil
		}
	}
	if ir.XMin != nil && !*ir.XMin && ir.Min == nil {
		class = "compile-error"
	}
	if ir.XMax != nil && !*ir.XMax && ir.Max == nil {
		class = "compile-error"
	}
	if class == "" && r.Chance(6) {
		// schema.proto:313; buf.validate has no such rule, the compiler refuses it
		ir.Mult = ptr(int64(vh.Pick(r, []int{1, 2, 3, 10})))
		class = "refused-multiple-of"
	}
	return ir, class
}

// refused: the compiler is expected to reject the declaration
func refused(class string) bool {
	return class == "compile-error" || strings.HasPrefix(class, "refused-")
}

func genFTy(r *vh.Rand, scope string, env EnumEnv) (FTy, string) {
	// scope "c12": types with validation semantics; "all": every type
	n := 7
	if scope == "all" {
		n = 13
	}
	switch r.Intn(n) {
	case 0, 1:
		k := IKind(r.Intn(4))
		ir, class := genIntRules(r, k)
		return FTy{Kind: TInt, IK: k, Int: ir, List: genLPay(r, true, false)}, class
	case 2:
		t := FTy{Kind: TStr}
		if r.Chance(80) {
			sr := &StrRules{Min: smallLen(r), Max: smallLen(r)}
			if sr.Min != nil && sr.Max != nil && *sr.Min > *sr.Max {
				*sr.Min, *sr.Max = *sr.Max, *sr.Min
			}
			if r.Chance(40) {
				sr.Pat = ptr(vh.Pick(r, patterns))
				if scope == "c12" && r.Chance(60) {
					sr.Pat = ptr(genPattern(r)) // any expression of the modelled RE2 fragment
				}
			}
			t.Str = sr
		}
		t.List = genLPay(r, false, true)
		if scope == "all" && r.Chance(12) {
			t.SFormat = ptr(vh.Pick(r, []string{"uri", "date", "email", "uuid"}))
		}
		if scope == "c12" && t.Str != nil && r.Chance(7) {
			t.Str.Pat = ptr(vh.Pick(r, badPatterns))
			if r.Bool() {
				t.Str.Pat = ptr(genBadPattern(r))
			}
			return t, "refused-pattern" // regexp.Compile refuses it: a compile error (before 1eb1bda it compiled and the validator failed on every message of the type)
		}
		return t, ""
	case 3:
		t := FTy{Kind: TBytes}
		if r.Chance(80) {
			lr := &LenRules{Min: smallLen(r), Max: smallLen(r)}
			if lr.Min != nil && lr.Max != nil && *lr.Min > *lr.Max {
				*lr.Min, *lr.Max = *lr.Max, *lr.Min
			}
			t.Len = lr
		}
		return t, ""
	case 4:
		t := FTy{Kind: TBool}
		class := ""
		if r.Chance(60) {
			t.HasBool = true
			t.Const = ptr(r.Bool())
			class = "bool-const" // reader nil dereference (#17, C18); compile is fine
		}
		t.List = genLPay(r, false, false)
		return t, class
	case 5:
		t := FTy{Kind: TEnum}
		class := ""
		if r.Chance(70) {
			er := &EnumRules{}
			name := func() string {
				o := strings.TrimPrefix(vh.Pick(r, env.Options), env.Prefix)
				if r.Chance(30) {
					o = env.Prefix + o
				}
				return o
			}
			for i := r.Intn(3); i > 0; i-- {
				er.In = append(er.In, name())
			}
			for i := r.Intn(3); i > 0; i-- {
				er.NotIn = append(er.NotIn, name())
			}
			if env.stdZero() && r.Chance(35) { // the explicit zero option can be named
				z := vh.Pick(r, []string{"UNSPECIFIED", env.Prefix + "UNSPECIFIED", env.Unspecified})
				if r.Chance(65) {
					er.NotIn = append(er.NotIn, z)
				} else {
					er.In = append(er.In, z)
				}
			}
			if r.Chance(4) {
				er.NotIn = append(er.NotIn, vh.Pick(r, []string{"PURPLE", "UNSPECIFIED", "red"}))
				class = "compile-error"
			}
			if len(er.In) > 0 || len(er.NotIn) > 0 {
				t.Enum = er
			}
		}
		t.List = genLPay(r, false, false)
		if t.List != nil && len(t.List.Filters) > 0 {
			// default filters of an enum field name options of the enum (short or prefixed);
			// anything else is a compile error since /repo fb0e252
			o := strings.TrimPrefix(vh.Pick(r, env.Options), env.Prefix)
			if r.Chance(30) {
				o = env.Prefix + o
			}
			t.List.Filters = []string{o}
			if r.Chance(15) {
				t.List.Filters = []string{o, "NOPE"}
				if class == "" {
					class = "refused-enum-default-filter"
				}
			}
		}
		return t, class
	case 6:
		t := FTy{Kind: TKey, KF: KFmt(r.Intn(5))}
		class := ""
		if t.KF == KCustom {
			t.KPat = vh.Pick(r, patterns)
			if genKeyWellKnown && r.Chance(35) {
				// the custom pattern is also written as the validation pattern, where the reader's
				// well-known table sees it
				t.KPat = vh.Pick(r, wellKnownPatterns)
			}
			if scope == "c12" && r.Chance(50) {
				// (not the empty pattern: KeyFormat.Custom.pattern is a required value of the source schema)
				for t.KPat = genPattern(r); t.KPat == ""; t.KPat = genPattern(r) {
				}
			}
		}
		if r.Chance(30) {
			e := &EntityKey{}
			switch r.Intn(3) {
			case 0:
				e.Primary = ptr(r.Chance(70))
			case 1:
				e.ForeignP, e.ForeignE = ptr("other.v1"), ptr("thing")
			}
			if r.Chance(30) {
				e.TenantKey = ptr("account")
			}
			if e.Primary != nil || e.ForeignE != nil || e.TenantKey != nil {
				t.Entity = e
			}
		}
		t.List = genLPay(r, false, false)
		if scope == "c12" && t.KF == KCustom && class == "" && r.Chance(12) {
			t.KPat = vh.Pick(r, badPatterns)
			class = "refused-pattern"
		}
		return t, class
	case 7:
		t := FTy{Kind: TFloat, F64: r.Bool(), List: genLPay(r, true, false)}
		if r.Chance(10) {
			t.FloatR = true
			return t, "compile-error" // "TODO: float rules not implemented"
		}
		return t, ""
	case 8:
		t := FTy{Kind: TDate, List: genLPay(r, false, false)}
		if r.Chance(50) {
			t.Txt = genTxtRules(r, []string{"2020-01-01", "1999-12-31", "2024-02-29"})
		}
		return t, ""
	case 9:
		t := FTy{Kind: TDecimal, List: genLPay(r, true, false)}
		if r.Chance(50) {
			t.Txt = genTxtRules(r, []string{"0", "10.5", "-3.25", "100"})
		}
		return t, ""
	case 10:
		t := FTy{Kind: TTimestamp, List: genLPay(r, true, false)}
		if r.Chance(40) {
			ts := &TSRules{XMin: optBool(r), XMax: optBool(r)}
			// j5s text cannot set a timestamp attribute ("unsupported scalar type"): bounds through the AST only
			// (C04 quantifies over j5s packages: what no .j5s file can say is not generated there)
			if genAST && genTSBounds && r.Chance(60) {
				ts.Min = ptr(int64(r.Range(0, 2000000000)))
			}
			if genAST && genTSBounds && r.Chance(60) {
				ts.Max = ptr(int64(r.Range(0, 2000000000)))
			}
			if ts.Min != nil || ts.Max != nil || ts.XMin != nil || ts.XMax != nil || genAST {
				t.TS = ts
			}
		}
		return t, ""
	case 11:
		t := FTy{Kind: TObject, Flatten: r.Chance(40)}
		if r.Chance(40) {
			t.Ref = "Baz" // a second object of the compile unit
		}
		if r.Chance(35) {
			or := &ObjRules{Min: smallLen(r), Max: smallLen(r)}
			if or.Min != nil || or.Max != nil || genAST {
				t.ObjR = or
			}
		}
		return t, ""
	case 12:
		if r.Bool() {
			t := FTy{Kind: TAny, List: genLPay(r, false, false)}
			if r.Chance(40) {
				t.AnyOD = r.Bool()
				if r.Bool() {
					t.AnyT = []string{"foo.v1.Bar"}
				}
			}
			return t, ""
		}
		t := FTy{Kind: TOneof, OneofR: genAST && r.Chance(30), List: genLPay(r, false, false)}
		if r.Chance(40) {
			t.Ref = "Pick" // a second oneof of the compile unit
		}
		return t, ""
	}
	panic("unreachable")
}

func genTxtRules(r *vh.Rand, vals []string) *TxtRules {
	t := &TxtRules{XMin: optBool(r), XMax: optBool(r)}
	if r.Chance(60) {
		t.Min = ptr(vh.Pick(r, vals))
	}
	if r.Chance(60) {
		t.Max = ptr(vh.Pick(r, vals))
	}
	if t.Min == nil && t.Max == nil && t.XMin == nil && t.XMax == nil {
		return nil
	}
	return t
}

// genProp04: a property over every field type, as array or map now and then,
// with descriptions (now and then one the reader treats specially)
func genProp04(r *vh.Rand, name string, env EnumEnv) genDecl {
	gd := genProp(r, name, "all", env)
	if gd.P.PK == PSingle && !gd.P.Opt && r.Chance(8) && gd.P.T.Kind != TOneof && gd.P.T.Kind != TAny {
		gd.P.PK = PMap
		if r.Chance(60) {
			mr := &MapRules{Min: smallLen(r), Max: smallLen(r)}
			if mr.Min != nil || mr.Max != nil {
				gd.P.MapR = mr
			}
		}
		if genMapExt && r.Chance(40) {
			gd.P.MapExt = &MapExt{Single: ptr("pair")}
			if genAST && r.Chance(30) {
				gd.P.MapExt = &MapExt{}
			}
		}
	}
	// a string whose pattern is one of the reader's well-known patterns
	if gd.P.T.Kind == TStr && gd.P.T.SFormat == nil && r.Chance(8) {
		if gd.P.T.Str == nil {
			gd.P.T.Str = &StrRules{}
		}
		gd.P.T.Str.Pat = ptr(vh.Pick(r, wellKnownPatterns))
	}
	// optional = true on an array or a map
	if gd.P.PK != PSingle && !gd.P.Req && gd.Class == "" && !isPrimary(gd.P) && !genAST && r.Chance(6) { // (the AST path links with protodesc, which refuses proto3_optional on a repeated field)
		gd.P.Opt = true
	}
	if gd.P.Desc != "" && r.Chance(10) {
		ds := []string{"# not a description", "two  spaces", "first line\n# second\nthird",
			"first para\n\nsecond para", "a\n\n\nb (two blank lines)", "one\ntwo\n\nthree"} // paragraph breaks survive since 5c4fce2
		if genAST {
			ds = append(ds, "ends with space ") // the j5s text cannot say it
		}
		gd.P.Desc = vh.Pick(r, ds)
	}
	return gd
}

// lib/j5schema wellKnownStringPatterns
// switches of the C04 run: timestamp bounds (sayable through the source AST only) are
// not generated, custom keys now and then carry one of the reader's well-known patterns
var genTSBounds, genKeyWellKnown = true, false

// MapField.Ext is generated only for the streams whose Coq cases carry the extended
// declaration (xprop): the flat C04 object stream and the C12 field stream
var genMapExt = false

var wellKnownPatterns = []string{`^\d{4}-\d{2}-\d{2}$`, `^\d(.?\d)?$`, "^[0-9A-Za-z]{22}$"}

// propName: property names as j5s writes them (lowerCamel), with the shapes
// strcase.ToSnake treats differently: a capital after a lower-case letter, digits,
// adjacent capitals, an underscore; the index keeps the proto names distinct
func propName(r *vh.Rand, i int) string {
	return fmt.Sprintf(vh.Pick(r, []string{"f%d", "f%d", "fooBar%d", "x%dY", "aBC%d", "foo_bar%d", "f%dId", "someURL%d"}), i)
}

var descWords = []string{"the", "quick", "id", "of", "a", "thing", "x2", "value.", "(unit)"}

func genDesc(r *vh.Rand) string {
	if !r.Chance(35) {
		return ""
	}
	var w []string
	for i := r.Range(1, 4); i > 0; i-- {
		w = append(w, vh.Pick(r, descWords))
	}
	return strings.Join(w, " ")
}

func genProp(r *vh.Rand, name string, scope string, env EnumEnv) genDecl {
	t, class := genFTy(r, scope, env)
	forceArray := false
	if scope == "c12" && class == "" && r.Chance(9) {
		// arrays of floats and of message-typed items: the items carry no rule, the
		// array rules (counts, uniqueness) apply
		t = FTy{Kind: vh.Pick(r, []TyKind{TFloat, TFloat, TTimestamp, TDate, TDecimal, TAny, TObject, TOneof})}
		t.F64 = r.Bool()
		if t.Kind == TObject && r.Bool() {
			t.Ref = "Baz"
		}
		if t.Kind == TOneof && r.Bool() {
			t.Ref = "Pick"
		}
		forceArray = true
	}
	p := Prop{Name: name, T: t, Desc: genDesc(r)}
	if forceArray || (r.Chance(30) && t.Kind != TOneof) {
		p.PK = PArray
		if forceArray || r.Chance(70) {
			ar := &ArrRules{Min: smallLen(r), Max: smallLen(r), Uniq: optBool(r)}
			if ar.Min != nil && ar.Max != nil && *ar.Min > *ar.Max {
				*ar.Min, *ar.Max = *ar.Max, *ar.Min
			}
			if ar.Uniq != nil && *ar.Uniq && t.Kind >= TDate && class == "" {
				class = "refused-unique" // a compile error (before 7a3975a it compiled and repeated.unique failed on any non-empty list of messages)
			}
			p.Arr = ar
		}
		if r.Chance(20) {
			p.Single = ptr("item")
		}
	}
	if p.PK == PSingle && scope == "c12" && r.Chance(8) && t.Kind < TFloat {
		p.PK = PMap
		p.T.List = nil // list rules of map values are not read back (C04 known finding), irrelevant here
		if p.T.Kind == TKey {
			p.T.Entity = nil
		}
	}
	if p.PK == PMap && r.Chance(60) {
		mr := &MapRules{Min: smallLen(r), Max: smallLen(r)}
		if mr.Min != nil && mr.Max != nil && *mr.Min > *mr.Max {
			*mr.Min, *mr.Max = *mr.Max, *mr.Min
		}
		if mr.Min != nil || mr.Max != nil {
			p.MapR = mr
		}
	}
	if genMapExt && p.PK == PMap && r.Chance(35) {
		p.MapExt = &MapExt{Single: ptr("pair")}
		if genAST && r.Chance(30) {
			p.MapExt = &MapExt{} // present but empty: the text cannot say it
		}
	}
	switch r.Intn(5) {
	case 0:
		p.Req = true
	case 1:
		if p.PK == PSingle {
			p.Opt = true
		}
	}
	if r.Chance(2) {
		p.Req, p.Opt = true, true
		class = "compile-error"
	}
	if p.Opt && t.Kind == TKey && t.Entity != nil && t.Entity.Primary != nil && *t.Entity.Primary {
		class = "compile-error" // primary key forces required
	}
	if genAST {
		presentButEmpty(r, &p)
	} else {
		normalise(&p)
	}
	return genDecl{P: p, Class: class}
}

// the AST can hold rules messages that are present but empty
func presentButEmpty(r *vh.Rand, p *Prop) {
	if !r.Chance(25) {
		return
	}
	switch p.T.Kind {
	case TInt:
		if p.T.Int == nil {
			p.T.Int = &IntRules{}
		}
	case TStr:
		if p.T.Str == nil {
			p.T.Str = &StrRules{}
		}
	case TBytes:
		if p.T.Len == nil {
			p.T.Len = &LenRules{}
		}
	case TBool:
		if !p.T.HasBool {
			p.T.HasBool = true
		}
	case TEnum:
		if p.T.Enum == nil {
			p.T.Enum = &EnumRules{}
		}
	}
	if p.PK == PArray && p.Arr == nil && r.Bool() {
		p.Arr = &ArrRules{}
	}
	if p.PK == PMap && p.MapR == nil && r.Bool() {
		p.MapR = &MapRules{}
	}
}

// the j5s text cannot express a rules message that is present but empty
func normalise(p *Prop) {
	if r := p.T.Int; r != nil && r.Min == nil && r.Max == nil && r.XMin == nil && r.XMax == nil && r.Mult == nil {
		p.T.Int = nil
	}
	if r := p.T.Str; r != nil && r.Pat == nil && r.Min == nil && r.Max == nil {
		p.T.Str = nil
	}
	if r := p.T.Len; r != nil && r.Min == nil && r.Max == nil {
		p.T.Len = nil
	}
	if r := p.Arr; r != nil && r.Min == nil && r.Max == nil && r.Uniq == nil {
		p.Arr = nil
	}
	if p.T.HasBool && p.T.Const == nil {
		p.T.HasBool = false
	}
}

// ---------------------------------------------------------------- values

func intValues(r *vh.Rand, k IKind, ir *IntRules) []Value {
	lo, hi := kindRange(k)
	seen := map[int64]bool{}
	var out []Value
	add := func(v int64) {
		if v < lo || v > hi || seen[v] {
			return
		}
		seen[v] = true
		out = append(out, Value{Kind: "int", I: v})
	}
	add(0)
	add(1)
	add(-1)
	add(lo)
	add(hi)
	if ir != nil {
		for _, b := range []*int64{ir.Min, ir.Max} {
			if b != nil {
				for d := int64(-2); d <= 2; d++ {
					if (d < 0 && *b < math.MinInt64-d) || (d > 0 && *b > math.MaxInt64-d) {
						continue
					}
					add(*b + d)
				}
				// where a truncated bound would land
				add(int64(int32(*b)))
				add(int64(int32(*b)) - 1)
				add(int64(int32(*b)) + 1)
				add(int64(uint32(*b)))
				add(int64(uint32(*b)) + 1)
			}
		}
	}
	for i := 0; i < 3; i++ {
		add(int64(r.Range(-300, 300)))
	}
	if k == U64 {
		out = append(out, Value{Kind: "int", IsU64: true, U: math.MaxUint64}, Value{Kind: "int", IsU64: true, U: uint64(math.MaxInt64) + 1})
	}
	return out
}

var runeAlphabet = []string{"a", "b", "z", "A", "F", "0", "2", "9", "é", "日", "😀", "-", "_", " "}

func strOfLen(r *vh.Rand, n int, ascii bool) string {
	var sb strings.Builder
	for i := 0; i < n; i++ {
		if ascii {
			sb.WriteString(runeAlphabet[r.Intn(8)])
		} else {
			sb.WriteString(vh.Pick(r, runeAlphabet))
		}
	}
	return sb.String()
}

// a string matching / nearly matching ^[ranges]{n}$
func patternStrings(r *vh.Rand, pat string) []string {
	var class string
	var n int
	if _, ok := patAST[pat]; ok || !strings.HasPrefix(pat, "^[") || !strings.Contains(pat, "]{") {
		return patternTexts(r, pat) // not of the class-count form: sampled from the expression (or fixed texts for an ill-formed one)
	}
	if _, err := fmt.Sscanf(pat[strings.Index(pat, "{"):], "{%d}$", &n); err != nil {
		return nil
	}
	class = pat[2:strings.Index(pat, "]")]
	var members []byte
	for i := 0; i+2 < len(class); i += 3 {
		for c := class[i]; c <= class[i+2]; c++ {
			members = append(members, c)
		}
	}
	mk := func(k int) string {
		b := make([]byte, k)
		for i := range b {
			b[i] = members[r.Intn(len(members))]
		}
		return string(b)
	}
	out := []string{mk(n), mk(n), mk(n + 1), mk(n) + "!", "é" + mk(n)}
	if n > 0 {
		out = append(out, mk(n-1))
		s := []byte(mk(n))
		s[r.Intn(n)] = '!'
		out = append(out, string(s))
		// boundary characters of the class
		s2 := []byte(mk(n))
		s2[0] = class[0] - 1
		out = append(out, string(s2))
		s3 := []byte(mk(n))
		s3[n-1] = class[len(class)-1] + 1
		out = append(out, string(s3))
	}
	return out
}

func strValues(r *vh.Rand, sr *StrRules) []Value {
	set := map[string]bool{}
	var out []Value
	add := func(s string) {
		if !set[s] {
			set[s] = true
			out = append(out, Value{Kind: "str", S: s})
		}
	}
	add("")
	add("a")
	if sr != nil {
		for _, b := range []*uint64{sr.Min, sr.Max} {
			if b != nil {
				for d := -1; d <= 1; d++ {
					n := int(*b) + d
					if n >= 0 {
						add(strOfLen(r, n, true))
						add(strOfLen(r, n, false)) // multi-byte runes: length counts characters
					}
				}
			}
		}
		if sr.Pat != nil {
			for _, s := range patternStrings(r, *sr.Pat) {
				add(s)
			}
		}
	}
	add(strOfLen(r, r.Range(0, 8), false))
	return out
}

func bytesValues(r *vh.Rand, lr *LenRules) []Value {
	set := map[string]bool{}
	var out []Value
	add := func(n int) {
		if n < 0 {
			return
		}
		s := string(r.Bytes(n))
		if !set[s] {
			set[s] = true
			out = append(out, Value{Kind: "bytes", S: s})
		}
	}
	add(0)
	add(1)
	if lr != nil {
		for _, b := range []*uint64{lr.Min, lr.Max} {
			if b != nil {
				add(int(*b) - 1)
				add(int(*b))
				add(int(*b) + 1)
			}
		}
	}
	out = append(out, Value{Kind: "bytes", S: "\x00"}, Value{Kind: "bytes", S: "\xc3\xa9\xff"})
	return out
}

const hexdigits = "0123456789abcdefABCDEF"
const alnum = "0123456789abcdefghijklmnopqrstuvwxyzABCDEFGHIJKLMNOPQRSTUVWXYZ"

func randFrom(r *vh.Rand, alphabet string, n int) string {
	b := make([]byte, n)
	for i := range b {
		b[i] = alphabet[r.Intn(len(alphabet))]
	}
	return string(b)
}

func uuidLike(r *vh.Rand) []string {
	u := func() string {
		return randFrom(r, hexdigits, 8) + "-" + randFrom(r, hexdigits, 4) + "-" + randFrom(r, hexdigits, 4) + "-" + randFrom(r, hexdigits, 4) + "-" + randFrom(r, hexdigits, 12)
	}
	a := u()
	b := []byte(u())
	b[r.Intn(36)] = 'g'
	c := []byte(u())
	c[8] = '_'
	d := u()
	return []string{a, u(), string(b), string(c), d[:35], d + "0", strings.ReplaceAll(d, "-", ""), "{" + d + "}", strings.ToUpper(d), " " + d,
		d[:8] + d[9:13] + "-" + "-" + d[14:], "00000000-0000-0000-0000-000000000000"}
}

func keyValues(r *vh.Rand, t FTy) []Value {
	strs := []string{"", "a", "abc"}
	switch t.KF {
	case KUuid:
		strs = append(strs, uuidLike(r)...)
	case KId62:
		s := randFrom(r, alnum, 22)
		b := []byte(randFrom(r, alnum, 22))
		b[r.Intn(22)] = '_'
		strs = append(strs, s, randFrom(r, alnum, 22), s[:21], s+"0", string(b), strings.Repeat("0", 22), strings.Repeat("z", 22), "é"+s[:21], s+"\n")
	case KCustom:
		strs = append(strs, patternStrings(r, t.KPat)...)
	default:
		strs = append(strs, uuidLike(r)[0], randFrom(r, alnum, 22), "日本")
	}
	set := map[string]bool{}
	var out []Value
	for _, s := range strs {
		if !set[s] {
			set[s] = true
			out = append(out, Value{Kind: "str", S: s})
		}
	}
	return out
}

func scalarValues(r *vh.Rand, t FTy) []Value {
	switch t.Kind {
	case TInt:
		return intValues(r, t.IK, t.Int)
	case TStr:
		return strValues(r, t.Str)
	case TBytes:
		return bytesValues(r, t.Len)
	case TBool:
		return []Value{{Kind: "bool", B: false}, {Kind: "bool", B: true}}
	case TEnum:
		var out []Value
		for _, n := range []int64{0, 1, 2, 3, 4, 5, 6, -1, 100, math.MaxInt32, math.MinInt32} {
			out = append(out, Value{Kind: "enum", I: n})
		}
		return out
	case TKey:
		return keyValues(r, t)
	case TFloat:
		var out []Value
		for _, f := range []float64{0, math.Copysign(0, -1), 1.5, -1.5, 0.25, 3, 1e10, math.NaN(), math.Inf(1), math.Inf(-1)} {
			if !t.F64 {
				f = float64(float32(f))
			}
			out = append(out, Value{Kind: "float", F: f})
		}
		return out
	}
	return []Value{{Kind: "msg", I: 0}, {Kind: "msg", I: 1}, {Kind: "msg", I: 2}}
}

func fieldValues(r *vh.Rand, p Prop) []FValue {
	vals := scalarValues(r, p.T)
	var out []FValue
	switch p.PK {
	case PSingle:
		if p.Opt || p.T.Kind >= TDate {
			out = append(out, FValue{Absent: true})
		}
		for _, v := range vals {
			out = append(out, FValue{One: v})
		}
	case PArray:
		if len(vals) == 0 {
			return nil
		}
		out = append(out, FValue{Many: true})
		lens := map[int]bool{1: true, 2: true}
		if p.Arr != nil {
			for _, b := range []*uint64{p.Arr.Min, p.Arr.Max} {
				if b != nil {
					for d := -1; d <= 1; d++ {
						if n := int(*b) + d; n > 0 {
							lens[n] = true
						}
					}
				}
			}
		}
		var ns []int
		for n := range lens {
			ns = append(ns, n)
		}
		sort.Ints(ns)
		for _, n := range ns {
			// distinct items where possible, then one with a duplicate
			var l []Value
			perm := r.Intn(len(vals))
			for i := 0; i < n; i++ {
				l = append(l, vals[(perm+i)%len(vals)])
			}
			out = append(out, FValue{Many: true, List: l})
			if n >= 2 {
				d := append([]Value{}, l...)
				d[n-1] = d[r.Intn(n-1)]
				out = append(out, FValue{Many: true, List: d})
			}
		}
		// every single candidate as a one-item list (per-item rules)
		for _, v := range vals {
			out = append(out, FValue{Many: true, List: []Value{v}})
		}
		// map iteration order above is random: sort for determinism
		sortFValues(out)
	case PMap:
		if len(vals) == 0 {
			return nil
		}
		out = append(out, FValue{IsMap: true})
		lens := map[int]bool{1: true, 2: true}
		if p.MapR != nil {
			for _, b := range []*uint64{p.MapR.Min, p.MapR.Max} {
				if b != nil {
					for d := -1; d <= 1; d++ {
						if n := int(*b) + d; n > 0 {
							lens[n] = true
						}
					}
				}
			}
		}
		var ns []int
		for n := range lens {
			ns = append(ns, n)
		}
		sort.Ints(ns)
		mk := func(l []Value) FValue {
			f := FValue{IsMap: true, List: l}
			for i := range l {
				f.Keys = append(f.Keys, fmt.Sprintf("k%d", i))
			}
			return f
		}
		for _, n := range ns {
			var l []Value
			perm := r.Intn(len(vals))
			for i := 0; i < n; i++ {
				l = append(l, vals[(perm+i)%len(vals)])
			}
			out = append(out, mk(l))
		}
		for _, v := range vals {
			out = append(out, mk([]Value{v}))
		}
	}
	return out
}

func sortFValues(vs []FValue) {
	key := func(f FValue) string { return f.Coq() }
	for i := 1; i < len(vs); i++ {
		for j := i; j > 0 && key(vs[j]) < key(vs[j-1]); j-- {
			vs[j], vs[j-1] = vs[j-1], vs[j]
		}
	}
}

// ---- pinned declarations: classes a realistic regression needs, not left to the draw ----

// pinnedC12: compiled under theEnumZ (explicit UNSPECIFIED first option) as the first unit of every run
func pinnedC12() []genDecl {
	mk := func(name string, p Prop) genDecl { p.Name = name; return genDecl{P: p} }
	u := func(v uint64) *uint64 { return &v }
	return []genDecl{
		// unsigned minimum 0, exclusive: "greater than 0" (seeded C12-A / C12-G)
		mk("pinU32", Prop{T: FTy{Kind: TInt, IK: U32, Int: &IntRules{Min: ptr(int64(0)), XMin: ptr(true)}}}),
		mk("pinU64", Prop{T: FTy{Kind: TInt, IK: U64, Int: &IntRules{Min: ptr(int64(0)), XMin: ptr(true), Max: ptr(int64(10))}}}),
		mk("pinU32Incl", Prop{T: FTy{Kind: TInt, IK: U32, Int: &IntRules{Min: ptr(int64(0))}}}),
		// signed bounds at both inclusivities
		mk("pinI32", Prop{T: FTy{Kind: TInt, IK: I32, Int: &IntRules{Min: ptr(int64(1)), Max: ptr(int64(5)), XMin: ptr(false), XMax: ptr(true)}}}),
		// bool const = false (seeded C12-E)
		mk("pinBoolFalse", Prop{Req: false, T: FTy{Kind: TBool, HasBool: true, Const: ptr(false)}}),
		mk("pinBoolTrue", Prop{T: FTy{Kind: TBool, HasBool: true, Const: ptr(true)}}),
		// key formats (seeded C12-B shares constraints between key fields; C12-F changes the id62 pattern)
		mk("pinId62", Prop{T: FTy{Kind: TKey, KF: KId62}}),
		mk("pinId62b", Prop{Req: true, T: FTy{Kind: TKey, KF: KId62}}),
		mk("pinUuid", Prop{T: FTy{Kind: TKey, KF: KUuid}}),
		mk("pinUuidArr", Prop{PK: PArray, Arr: &ArrRules{Min: u(1), Uniq: ptr(true)}, T: FTy{Kind: TKey, KF: KUuid}}),
		// enum in / not-in under an explicit UNSPECIFIED first option (seeded C12-C / C12-H)
		mk("pinEnumIn", Prop{T: FTy{Kind: TEnum, Enum: &EnumRules{In: []string{"RED", "COLOR_BLUE"}}}}),
		mk("pinEnumNotIn", Prop{T: FTy{Kind: TEnum, Enum: &EnumRules{NotIn: []string{"GREEN", "UNSPECIFIED"}}}}),
		// required over presence kinds (seeded C12-D)
		mk("pinReqStr", Prop{Req: true, T: FTy{Kind: TStr, Str: &StrRules{Min: u(1)}}}),
		mk("pinOptStr", Prop{Opt: true, T: FTy{Kind: TStr, Str: &StrRules{Min: u(2)}}}),
		mk("pinReqObj", Prop{Req: true, T: FTy{Kind: TObject}}),
		mk("pinReqArr", Prop{Req: true, PK: PArray, T: FTy{Kind: TStr}}),
	}
}

// pinnedC04: one object of 16 properties (more than 10: two-digit field numbers, seeded C04-E)
// with the combinations the seeded changes of C04 need
func pinnedC04() []genDecl {
	mk := func(name string, p Prop) genDecl { p.Name = name; return genDecl{P: p} }
	u := func(v uint64) *uint64 { return &v }
	return []genDecl{
		// optional x message-typed (seeded C04-D / C04-G)
		mk("pinOptTs", Prop{Opt: true, T: FTy{Kind: TTimestamp}}),
		mk("pinOptObj", Prop{Opt: true, T: FTy{Kind: TObject}}),
		mk("pinOptDate", Prop{Opt: true, T: FTy{Kind: TDate}}),
		mk("pinOptDecimal", Prop{Opt: true, T: FTy{Kind: TDecimal}}),
		mk("pinOptAny", Prop{Opt: true, T: FTy{Kind: TAny}}),
		mk("pinOptStr", Prop{Opt: true, T: FTy{Kind: TStr}}),
		// uniqueItems on scalar items, both values; array rules without item rules (seeded C04-A)
		mk("pinUniqF", Prop{PK: PArray, Arr: &ArrRules{Uniq: ptr(false)}, T: FTy{Kind: TFloat, F64: true}}),
		mk("pinUniqT", Prop{PK: PArray, Arr: &ArrRules{Uniq: ptr(true), Min: u(0)}, T: FTy{Kind: TStr}}),
		mk("pinArrTs", Prop{PK: PArray, Arr: &ArrRules{Max: u(3)}, T: FTy{Kind: TTimestamp}}),
		// enum rules naming the explicit zero option (seeded C04-B)
		mk("pinEnumNotIn", Prop{T: FTy{Kind: TEnum, Enum: &EnumRules{NotIn: []string{"DARK_RED", "COLOR_UNSPECIFIED"}}}}),
		// bool const both values (seeded C04-C)
		mk("pinBoolF", Prop{T: FTy{Kind: TBool, HasBool: true, Const: ptr(false)}}),
		mk("pinBoolT", Prop{T: FTy{Kind: TBool, HasBool: true, Const: ptr(true)}}),
		// key formats with entity keys (seeded C04-F)
		mk("pinKeyCustom", Prop{T: FTy{Kind: TKey, KF: KCustom, KPat: "^[a-z]{3}$"}}),
		mk("pinKeyInformal", Prop{T: FTy{Kind: TKey, KF: KInformal, Entity: &EntityKey{TenantKey: ptr("account")}}}),
		mk("pinKeyUuid", Prop{Req: true, T: FTy{Kind: TKey, KF: KUuid, Entity: &EntityKey{ForeignP: ptr("foo.v1"), ForeignE: ptr("bar")}}}),
		// the settings this round added to the language
		mk("pinMapExt", Prop{PK: PMap, MapExt: &MapExt{Single: ptr("pair")}, T: FTy{Kind: TStr}, Desc: "first para\n\nsecond para"}),
	}
}

package main

// C04 for enums declared inline in a field (model/RulesInlineEnum.v): units
//   object Foo { field <name> [array:|map:]enum { enum.name / enum.prefix / enum.description
//   option ...  rules ... } ... }
// through j5s text or the source AST; per inline field the emitted field, the nested enum
// and what the reflector returns for both, as Coq terms (case C04InlineEnum), plus the
// direct oracle (the field refers to <Outer>_<Name>; the enum has the effective prefix,
// numbers 0..n, short names, descriptions).

import (
	"fmt"
	"strings"

	"github.com/iancoleman/strcase"
	"github.com/pentops/j5/gen/j5/ext/v1/ext_j5pb"
	"github.com/pentops/j5/gen/j5/schema/v1/schema_j5pb"
	"github.com/pentops/j5/gen/j5/sourcedef/v1/sourcedef_j5pb"
	"github.com/pentops/j5/lib/j5schema"
	"github.com/pentops/j5/lib/verifshim/scha"
	"google.golang.org/protobuf/proto"
	"google.golang.org/protobuf/reflect/protodesc"
	"google.golang.org/protobuf/reflect/protoreflect"
	"google.golang.org/protobuf/reflect/protoregistry"

	"verifharness/vh"
)

type inlineEnumField struct {
	P            Prop
	E            EnumEnv // Name / Prefix are the effective ones
	ExplicitName bool
}

func genInlineEnum(r *vh.Rand, field string, k int) (EnumEnv, bool) {
	e := EnumEnv{Name: strcase.ToCamel(field)}
	explicit := r.Chance(50)
	if explicit {
		e.Name = fmt.Sprintf("Kind%d", k)
	}
	e.Prefix = strcase.ToScreamingSnake(e.Name) + "_"
	if r.Chance(35) {
		e.ExplicitPrefix = true
		// (distinct per field: the values of sibling enums share the scope of the message)
		e.Prefix = fmt.Sprintf(vh.Pick(r, []string{"K%d_", "KIND_%d_", "E%d_"}), k)
	}
	pool := []string{"A", "B", "DARK_RED", "X1"}
	for i, n := 0, r.Range(1, len(pool)); i < n; i++ {
		o := pool[i]
		if r.Chance(25) {
			o = e.Prefix + o
		}
		e.Options = append(e.Options, o)
		d := ""
		if r.Chance(30) {
			d = genDesc(r)
		}
		e.OptDescs = append(e.OptDescs, d)
	}
	if r.Chance(25) {
		e.Unspecified = "UNSPECIFIED"
		if r.Bool() {
			e.Unspecified = e.Prefix + "UNSPECIFIED"
		}
		if r.Chance(40) {
			e.UnspecDesc = "nothing"
		}
		if r.Chance(10) {
			// since /repo a65e1f2 an ordinary first option
			e.Options = append([]string{"X_UNSPECIFIED"}, e.Options...)
			e.OptDescs = append([]string{e.UnspecDesc}, e.OptDescs...)
			e.Unspecified, e.UnspecDesc = "", ""
		}
	}
	if r.Chance(40) {
		e.Desc = genDesc(r)
	}
	if r.Chance(6) && (e.Unspecified == "" || e.stdZero()) {
		e.Desc = "# heading" // outside the fragment (one oddity at a time)
	}
	return e, explicit
}

func (f inlineEnumField) ienumTerm() string {
	name, prefix := "None", "None"
	if f.ExplicitName {
		name = "(Some " + vh.BytesTerm(f.E.Name) + ")"
	}
	if f.E.ExplicitPrefix {
		prefix = "(Some " + vh.BytesTerm(f.E.Prefix) + ")"
	}
	var opts []string
	if f.E.Unspecified != "" {
		opts = append(opts, fmt.Sprintf("(%s, %s, [])", vh.BytesTerm(f.E.Unspecified), vh.BytesTerm(f.E.UnspecDesc)))
	}
	for i, o := range f.E.Options {
		opts = append(opts, fmt.Sprintf("(%s, %s, [])", vh.BytesTerm(o), vh.BytesTerm(f.E.OptDescs[i])))
	}
	return fmt.Sprintf("(IE %s %s %s [%s] [])", name, prefix, vh.BytesTerm(f.E.Desc), strings.Join(opts, ";"))
}

func (f inlineEnumField) j5s() string {
	txt := f.P.J5S(f.E)
	txt = strings.Replace(txt, ":"+f.E.Name+" {", " {", 1)
	txt = strings.TrimSuffix(txt, "\t}\n")
	var in strings.Builder
	if f.ExplicitName {
		fmt.Fprintf(&in, "\t\tenum.name = %s\n", q(f.E.Name))
	}
	if f.E.ExplicitPrefix {
		fmt.Fprintf(&in, "\t\tenum.prefix = %s\n", q(f.E.Prefix))
	}
	if f.E.Desc != "" {
		fmt.Fprintf(&in, "\t\tenum.description = %s\n", q(f.E.Desc))
	}
	body := f.E.J5S()
	if i := strings.Index(body, "\toption "); i >= 0 {
		in.WriteString(indentBlock(strings.TrimSuffix(body[i:], "}\n"), 1))
	}
	return txt + in.String() + "\t}\n"
}

func sourceEnum(env EnumEnv, name string) *schema_j5pb.Enum {
	enum := &schema_j5pb.Enum{Name: name, Description: env.Desc}
	if env.ExplicitPrefix {
		enum.Prefix = env.Prefix
	}
	if env.Unspecified != "" {
		enum.Options = append(enum.Options, &schema_j5pb.Enum_Option{Name: env.Unspecified, Description: env.UnspecDesc})
	}
	for i, o := range env.Options {
		enum.Options = append(enum.Options, &schema_j5pb.Enum_Option{Name: o, Description: env.OptDescs[i]})
	}
	return enum
}

func compileInlineEnumAST(top EnumEnv, fields []inlineEnumField, plain []Prop, order []int) (c compiled) {
	defer func() {
		if r := recover(); r != nil {
			c.panic = r
		}
	}()
	sf := sourceFile("object", top, "", nil)
	var ps []*schema_j5pb.ObjectProperty
	for _, k := range order {
		if k >= 0 {
			f := fields[k]
			op := sourceProp(f.E, f.P)
			item := op.Schema
			switch t := op.Schema.Type.(type) {
			case *schema_j5pb.Field_Array:
				item = t.Array.Items
			case *schema_j5pb.Field_Map:
				item = t.Map.ItemSchema
			}
			name := ""
			if f.ExplicitName {
				name = f.E.Name
			}
			item.GetEnum().Schema = &schema_j5pb.EnumField_Enum{Enum: sourceEnum(f.E, name)}
			ps = append(ps, op)
		} else {
			ps = append(ps, sourceProp(top, plain[-k-1]))
		}
	}
	sf.Elements[len(sf.Elements)-1].Type.(*sourcedef_j5pb.RootElement_Object).Object.Def.Properties = ps
	fdps, err := scha.ConvertSource(sf)
	if err != nil {
		c.err = err
		return
	}
	for _, fdp := range fdps {
		if fdp.GetName() != "foo/v1/a.j5s.proto" {
			continue
		}
		fd, err := protodesc.NewFile(fdp, protoregistry.GlobalFiles)
		if err != nil {
			c.err = fmt.Errorf("link: %w", err)
			return
		}
		c.file = fd
		c.files = append(c.files, fd)
	}
	if c.file == nil {
		c.err = fmt.Errorf("converted file a.j5s.proto not in output")
	}
	return
}

// enumOf: the enum schema behind a reflected property (singular, array items, map values)
func enumOf(fs j5schema.FieldSchema) *schema_j5pb.Enum {
	switch t := fs.(type) {
	case *j5schema.ArrayField:
		return enumOf(t.Schema)
	case *j5schema.MapField:
		return enumOf(t.Schema)
	case *j5schema.EnumField:
		return t.Schema().ToJ5Root().GetEnum()
	}
	return nil
}

func enumOutTerm(ed protoreflect.EnumDescriptor) string {
	var vals []string
	for i := 0; i < ed.Values().Len(); i++ {
		v := ed.Values().Get(i)
		var vinfo map[string]string
		if x, ok := proto.GetExtension(v.Options(), ext_j5pb.E_EnumValue).(*ext_j5pb.EnumValueOptions); ok && x != nil {
			vinfo = x.Info
		}
		vals = append(vals, fmt.Sprintf("(%s, (%d)%%Z, %s, %s)", vh.BytesTerm(string(v.Name())), v.Number(), vh.BytesTerm(declaredComment(v)), infoTerm(vinfo)))
	}
	return fmt.Sprintf("(EO %s [%s] [])", vh.BytesTerm(declaredComment(ed)), strings.Join(vals, ";"))
}

func runInlineEnums(r *vh.Rand, cfg *vh.Config, res *vh.Result, cf *vh.CasesFile, caseNo *int, evals *int) {
	n := cfg.Scale(40, 600)
	for u := 0; u < n; u++ {
		genAST = r.Chance(25)
		top := genEnum(r)
		var fields []inlineEnumField
		var plain []Prop
		var order []int // >= 0: index into fields; < 0: -(index into plain) - 1
		var names []string
		for i, k := 0, r.Range(1, 4); i < k; i++ {
			name := propName(r, i)
			names = append(names, name)
			if i > 0 && r.Chance(35) {
				gd := genProp04(r, name, top)
				for refused(gd.Class) || readerFails(gd.P) || gd.P.T.Kind == TEnum {
					gd = genProp04(r, name, top)
				}
				plain = append(plain, gd.P)
				order = append(order, -len(plain))
				continue
			}
			e, explicit := genInlineEnum(r, name, i)
			var gd genDecl
			for {
				gd = genProp04(r, name, e)
				if gd.P.T.Kind == TEnum && !refused(gd.Class) {
					break
				}
			}
			if !e.stdZero() && e.Unspecified != "" {
				gd.P.T.Enum = nil // the odd-UNSPECIFIED finding would spill into every name of in / not-in
			}
			fields = append(fields, inlineEnumField{P: gd.P, E: e, ExplicitName: explicit})
			order = append(order, len(fields)-1)
		}
		// source text
		var sb strings.Builder
		sb.WriteString("package foo.v1\n\n")
		sb.WriteString(top.J5S())
		sb.WriteString("\nobject Bar {\n\tfield x string\n}\n\nobject Baz {\n\tfield y integer:INT32\n}\n\noneof Choice {\n\toption a string\n\toption b integer:INT32\n}\n\noneof Pick {\n\toption c string\n}\n\nobject Foo {\n")
		for _, k := range order {
			if k >= 0 {
				sb.WriteString(fields[k].j5s())
			} else {
				sb.WriteString(plain[-k-1].J5S(top))
			}
			sb.WriteString("\n")
		}
		sb.WriteString("}\n")
		src := sb.String()
		var c compiled
		if genAST {
			c = compileInlineEnumAST(top, fields, plain, order)
			src = "(built as source AST, the text is an approximation)\n" + src
		} else {
			c = compileUnit(src)
		}
		*evals++
		input := map[string]any{"j5s": src}
		if c.err != nil || c.panic != nil {
			res.Fail(vh.Failure{Case: *caseNo, Stream: "inline-enum", Sig: "C04 inline enum: valid declaration does not compile: " + firstWords(fmt.Sprint(c.err, c.panic), 8),
				Clause: "the package compiles", Input: input, Got: fmt.Sprint(c.err, c.panic)})
			*caseNo++
			continue
		}
		md := c.file.Messages().ByName("Foo")
		if md == nil || md.Fields().Len() != len(order) {
			res.Fail(vh.Failure{Case: *caseNo, Stream: "inline-enum", Sig: "C04 inline enum: compiled message has another shape", Clause: "the package compiles", Input: input, Got: "shape"})
			*caseNo++
			continue
		}
		mem := reflectObject(md)
		var objSchema *j5schema.ObjectSchema
		if s, err := j5schema.NewSchemaCache().Schema(md); err == nil {
			objSchema, _ = s.(*j5schema.ObjectSchema)
		}
		for pos, k := range order {
			if k < 0 {
				continue
			}
			f := fields[k]
			fd := md.Fields().Get(pos)
			ed := md.Enums().ByName(protoreflect.Name(f.E.Name))
			fin := map[string]any{"j5s": f.j5s(), "object": src}
			if ed == nil {
				res.Fail(vh.Failure{Case: *caseNo, Stream: "inline-enum", Sig: "C04 inline enum: no nested enum of the declared (or default) name", Clause: "for every object, oneof and enum", Input: fin, Got: "missing " + f.E.Name})
				continue
			}
			refl, reflEnum := "None", "None"
			var gotProp *schema_j5pb.ObjectProperty
			var gotEnum *schema_j5pb.Enum
			if mem.obj != nil && pos < len(mem.obj.Properties) && objSchema != nil {
				gotProp = mem.obj.Properties[pos]
				refEnv := f.E
				refEnv.Name = "Foo_" + f.E.Name // the schema the reflected field refers to
				if ap, ok := propFromProto(refEnv, gotProp); ok && len(gotProp.ProtoField) == 1 {
					refl = fmt.Sprintf("(Some (RP %s [%d]))", ap.Coq(), gotProp.ProtoField[0])
				}
				if pp := objSchema.Properties.ByJSONName(f.P.Name); pp != nil {
					gotEnum = enumOf(pp.Schema)
				}
				if gotEnum != nil {
					var ros []string
					for _, o := range gotEnum.Options {
						ros = append(ros, fmt.Sprintf("(%s, (%d)%%Z, %s, %s)", vh.BytesTerm(o.Name), o.Number, vh.BytesTerm(o.Description), infoTerm(o.Info)))
					}
					reflEnum = fmt.Sprintf("(Some (%s, RE %s %s [%s] []))", vh.BytesTerm(gotEnum.Name), vh.BytesTerm(gotEnum.Description), vh.BytesTerm(gotEnum.Prefix), strings.Join(ros, ";"))
				}
			}
			cf.Terms = append(cf.Terms, fmt.Sprintf("C04InlineEnum [%s] %d %s %s %s %s %s %s %s", vh.BytesTerm("Foo"), pos, f.P.Coq(), f.ienumTerm(),
				foutTerm(fd), vh.BytesTerm(string(ed.Name())), enumOutTerm(ed), refl, reflEnum))
			res.Cases = append(res.Cases, vh.CaseRec{Case: *caseNo, Stream: "inline-enum", Input: fin, Impl: map[string]any{"reflected": protoString(gotProp), "enum": protoString(gotEnum)}})
			res.Count("inline-enum")
			// ---- direct oracle
			if mem.obj == nil {
				res.Fail(vh.Failure{Case: *caseNo, Stream: "inline-enum", Sig: "C04 inline enum: reflecting the compiled object fails: " + firstWords(fmt.Sprint(mem.err, mem.panic), 8), Clause: "reflection yields the declared schema", Input: fin, Got: fmt.Sprint(mem.err, mem.panic)})
				continue
			}
			declEnv := f.E
			declEnv.Name = "Foo_" + f.E.Name // the schema the field refers to
			want := normProp(f.E, f.P).toProto(declEnv, int32(pos+1))
			if !proto.Equal(want, gotProp) {
				raw := diffPaths(want, gotProp)
				if !descExpressible(f.P.Desc) {
					var rest []string
					for _, x := range raw {
						if x != ".description" {
							rest = append(rest, x)
						}
					}
					raw = rest
				}
				if len(raw) > 0 {
					sigs := explain(genDecl{P: f.P}, raw, want, gotProp)
					if sigs == nil {
						sigs = []string{fmt.Sprintf("C04 inline enum %s: reflected property differs from the declared one at %s", shapeOf(f.P), strings.Join(collapse(raw, f.P.PK == PMap), " "))}
					}
					for _, sig := range sigs {
						res.Fail(vh.Failure{Case: *caseNo, Stream: "inline-enum", Sig: sig, Clause: "reflection yields the declared schema", Input: fin, Got: protoString(gotProp), Want: protoString(want)})
					}
				}
			} else {
				res.Count("inline-enum-property-equal")
			}
			wantEnum := expectedEnum(declEnv)
			switch {
			case gotEnum == nil:
				res.Fail(vh.Failure{Case: *caseNo, Stream: "inline-enum", Sig: "C04 inline enum: the reflected property has no enum schema", Clause: "for every object, oneof and enum", Input: fin, Got: protoString(gotProp)})
			case !proto.Equal(wantEnum, gotEnum):
				sig := "C04 inline enum: reflected enum differs from the declared one at " + strings.Join(collapse(diffPaths(wantEnum, gotEnum), false), " ")
				if f.E.Unspecified != "" && !f.E.stdZero() && allUnder(diffPaths(wantEnum, gotEnum), []string{".prefix", ".options"}) {
					sig = "C04 enum whose explicit first option is another name ending in UNSPECIFIED: the reflected prefix and option names are derived from it"
				}
				if !descPlain(f.E.Desc) && allUnder(diffPaths(wantEnum, gotEnum), []string{".description"}) {
					sig = "C04 description with a line starting with '#': the reader's commentDescription drops the line"
				}
				res.Fail(vh.Failure{Case: *caseNo, Stream: "inline-enum", Sig: sig, Clause: "for every object, oneof and enum: the schema the source declared", Input: fin, Got: protoString(gotEnum), Want: protoString(wantEnum)})
			default:
				res.Count("inline-enum-equal")
			}
		}
		*caseNo++
	}
	genAST = false
}

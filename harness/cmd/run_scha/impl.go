package main

// The implementation side: compile a j5s compile unit in memory with the real
// compiler, dump what it emitted for each field as a Coq term of type [fout]
// (coq/model/RulesDecl.v), validate dynamic messages with the real
// protovalidate-go, reflect the descriptors with the real lib/j5schema.

import (
	"context"
	"errors"
	"fmt"
	"io"
	"log"
	"math"
	"sort"
	"strings"

	"buf.build/gen/go/bufbuild/protovalidate/protocolbuffers/go/buf/validate"
	"github.com/bufbuild/protovalidate-go"
	"github.com/pentops/j5/gen/j5/ext/v1/ext_j5pb"
	"github.com/pentops/j5/gen/j5/list/v1/list_j5pb"
	"github.com/pentops/j5/lib/verifshim/compile"
	"google.golang.org/protobuf/proto"
	"google.golang.org/protobuf/reflect/protoreflect"
	"google.golang.org/protobuf/types/descriptorpb"
	"google.golang.org/protobuf/types/dynamicpb"

	"verifharness/vh"
)

func init() { log.SetOutput(io.Discard) } // the compiler logs every walker error

type compiled struct {
	files []protoreflect.FileDescriptor
	file  protoreflect.FileDescriptor
	err   error
	panic any
}

func compileUnit(src string) compiled {
	return compileFiles(map[string]string{"foo/v1/a.j5s": src})
}

// compileFiles: package foo.v1 of the given source files (the object under test is in foo/v1/a.j5s)
func compileFiles(content map[string]string) (c compiled) {
	defer func() {
		if r := recover(); r != nil {
			c.panic = r
		}
	}()
	files, err := compile.Compile(context.Background(), content, "foo.v1")
	if err != nil {
		c.err = err
		return
	}
	c.files = files
	for _, f := range files {
		if strings.HasSuffix(f.Path(), "a.j5s.proto") {
			c.file = f
		}
	}
	if c.file == nil {
		c.err = fmt.Errorf("compiled file a.j5s.proto not in output")
	}
	return
}

// ---------------------------------------------------------------- fout dump

func coqOptU64(p *uint64) string {
	if p == nil {
		return "None"
	}
	return fmt.Sprintf("(Some %d)", *p)
}
func coqOptBool(p *bool) string {
	if p == nil {
		return "None"
	}
	return "(Some " + vh.BoolTerm(*p) + ")"
}
func coqOptStr(p *string) string {
	if p == nil {
		return "None"
	}
	return "(Some " + vh.BytesTerm(*p) + ")"
}
func zlist(xs []int32) string {
	parts := make([]string, len(xs))
	for i, x := range xs {
		parts[i] = fmt.Sprintf("(%d)%%Z", x)
	}
	return "[" + strings.Join(parts, ";") + "]"
}

// tycTerm abstracts FieldConstraints.type; the second result rebuilds the
// constraint from the abstraction so that anything the abstraction loses is
// detected (-> COther).
func tycTerm(fc *validate.FieldConstraints) (string, *validate.FieldConstraints) {
	switch t := fc.GetType().(type) {
	case nil:
		return "", &validate.FieldConstraints{}
	case *validate.FieldConstraints_Int32:
		ub, lb := "NoUb", "NoLb"
		r := &validate.Int32Rules{}
		switch b := t.Int32.GetLessThan().(type) {
		case *validate.Int32Rules_Lt:
			ub = fmt.Sprintf("(Lt (%d)%%Z)", b.Lt)
			r.LessThan = &validate.Int32Rules_Lt{Lt: b.Lt}
		case *validate.Int32Rules_Lte:
			ub = fmt.Sprintf("(Lte (%d)%%Z)", b.Lte)
			r.LessThan = &validate.Int32Rules_Lte{Lte: b.Lte}
		}
		switch b := t.Int32.GetGreaterThan().(type) {
		case *validate.Int32Rules_Gt:
			lb = fmt.Sprintf("(Gt (%d)%%Z)", b.Gt)
			r.GreaterThan = &validate.Int32Rules_Gt{Gt: b.Gt}
		case *validate.Int32Rules_Gte:
			lb = fmt.Sprintf("(Gte (%d)%%Z)", b.Gte)
			r.GreaterThan = &validate.Int32Rules_Gte{Gte: b.Gte}
		}
		return fmt.Sprintf("(CInt I32 %s %s)", ub, lb), &validate.FieldConstraints{Type: &validate.FieldConstraints_Int32{Int32: r}}
	case *validate.FieldConstraints_Int64:
		ub, lb := "NoUb", "NoLb"
		r := &validate.Int64Rules{}
		switch b := t.Int64.GetLessThan().(type) {
		case *validate.Int64Rules_Lt:
			ub = fmt.Sprintf("(Lt (%d)%%Z)", b.Lt)
			r.LessThan = &validate.Int64Rules_Lt{Lt: b.Lt}
		case *validate.Int64Rules_Lte:
			ub = fmt.Sprintf("(Lte (%d)%%Z)", b.Lte)
			r.LessThan = &validate.Int64Rules_Lte{Lte: b.Lte}
		}
		switch b := t.Int64.GetGreaterThan().(type) {
		case *validate.Int64Rules_Gt:
			lb = fmt.Sprintf("(Gt (%d)%%Z)", b.Gt)
			r.GreaterThan = &validate.Int64Rules_Gt{Gt: b.Gt}
		case *validate.Int64Rules_Gte:
			lb = fmt.Sprintf("(Gte (%d)%%Z)", b.Gte)
			r.GreaterThan = &validate.Int64Rules_Gte{Gte: b.Gte}
		}
		return fmt.Sprintf("(CInt I64 %s %s)", ub, lb), &validate.FieldConstraints{Type: &validate.FieldConstraints_Int64{Int64: r}}
	case *validate.FieldConstraints_Uint32:
		ub, lb := "NoUb", "NoLb"
		r := &validate.UInt32Rules{}
		switch b := t.Uint32.GetLessThan().(type) {
		case *validate.UInt32Rules_Lt:
			ub = fmt.Sprintf("(Lt (%d)%%Z)", b.Lt)
			r.LessThan = &validate.UInt32Rules_Lt{Lt: b.Lt}
		case *validate.UInt32Rules_Lte:
			ub = fmt.Sprintf("(Lte (%d)%%Z)", b.Lte)
			r.LessThan = &validate.UInt32Rules_Lte{Lte: b.Lte}
		}
		switch b := t.Uint32.GetGreaterThan().(type) {
		case *validate.UInt32Rules_Gt:
			lb = fmt.Sprintf("(Gt (%d)%%Z)", b.Gt)
			r.GreaterThan = &validate.UInt32Rules_Gt{Gt: b.Gt}
		case *validate.UInt32Rules_Gte:
			lb = fmt.Sprintf("(Gte (%d)%%Z)", b.Gte)
			r.GreaterThan = &validate.UInt32Rules_Gte{Gte: b.Gte}
		}
		return fmt.Sprintf("(CInt U32 %s %s)", ub, lb), &validate.FieldConstraints{Type: &validate.FieldConstraints_Uint32{Uint32: r}}
	case *validate.FieldConstraints_Uint64:
		ub, lb := "NoUb", "NoLb"
		r := &validate.UInt64Rules{}
		switch b := t.Uint64.GetLessThan().(type) {
		case *validate.UInt64Rules_Lt:
			ub = fmt.Sprintf("(Lt (%d)%%Z)", b.Lt)
			r.LessThan = &validate.UInt64Rules_Lt{Lt: b.Lt}
		case *validate.UInt64Rules_Lte:
			ub = fmt.Sprintf("(Lte (%d)%%Z)", b.Lte)
			r.LessThan = &validate.UInt64Rules_Lte{Lte: b.Lte}
		}
		switch b := t.Uint64.GetGreaterThan().(type) {
		case *validate.UInt64Rules_Gt:
			lb = fmt.Sprintf("(Gt (%d)%%Z)", b.Gt)
			r.GreaterThan = &validate.UInt64Rules_Gt{Gt: b.Gt}
		case *validate.UInt64Rules_Gte:
			lb = fmt.Sprintf("(Gte (%d)%%Z)", b.Gte)
			r.GreaterThan = &validate.UInt64Rules_Gte{Gte: b.Gte}
		}
		return fmt.Sprintf("(CInt U64 %s %s)", ub, lb), &validate.FieldConstraints{Type: &validate.FieldConstraints_Uint64{Uint64: r}}
	case *validate.FieldConstraints_String_:
		s := t.String_
		r := &validate.StringRules{MinLen: s.MinLen, MaxLen: s.MaxLen, Pattern: s.Pattern}
		uuid := false
		if wk, ok := s.GetWellKnown().(*validate.StringRules_Uuid); ok {
			uuid = wk.Uuid
			r.WellKnown = &validate.StringRules_Uuid{Uuid: wk.Uuid}
			if !wk.Uuid { // uuid: false is distinguishable from absent; the abstraction does not keep it
				return "COther", nil
			}
		}
		return fmt.Sprintf("(CStr %s %s %s %s)", coqOptU64(s.MinLen), coqOptU64(s.MaxLen), optRunes(s.Pattern), vh.BoolTerm(uuid)),
			&validate.FieldConstraints{Type: &validate.FieldConstraints_String_{String_: r}}
	case *validate.FieldConstraints_Bytes:
		return fmt.Sprintf("(CBytes %s %s)", coqOptU64(t.Bytes.MinLen), coqOptU64(t.Bytes.MaxLen)),
			&validate.FieldConstraints{Type: &validate.FieldConstraints_Bytes{Bytes: &validate.BytesRules{MinLen: t.Bytes.MinLen, MaxLen: t.Bytes.MaxLen}}}
	case *validate.FieldConstraints_Bool:
		return fmt.Sprintf("(CBool %s)", coqOptBool(t.Bool.Const)),
			&validate.FieldConstraints{Type: &validate.FieldConstraints_Bool{Bool: &validate.BoolRules{Const: t.Bool.Const}}}
	case *validate.FieldConstraints_Enum:
		if t.Enum.DefinedOnly == nil {
			return "COther", nil
		}
		return fmt.Sprintf("(CEnum %s %s %s)", vh.BoolTerm(*t.Enum.DefinedOnly), zlist(t.Enum.In), zlist(t.Enum.NotIn)),
			&validate.FieldConstraints{Type: &validate.FieldConstraints_Enum{Enum: &validate.EnumRules{DefinedOnly: t.Enum.DefinedOnly, In: t.Enum.In, NotIn: t.Enum.NotIn}}}
	case *validate.FieldConstraints_Timestamp:
		ub, lb := "NoUb", "NoLb"
		r := &validate.TimestampRules{}
		secs := func(ts interface {
			GetSeconds() int64
			GetNanos() int32
		}) (int64, bool) {
			return ts.GetSeconds(), ts.GetNanos() == 0
		}
		ok := true
		switch b := t.Timestamp.GetLessThan().(type) {
		case *validate.TimestampRules_Lt:
			s, o := secs(b.Lt)
			ok = ok && o
			ub = fmt.Sprintf("(Lt (%d)%%Z)", s)
			r.LessThan = &validate.TimestampRules_Lt{Lt: b.Lt}
		case *validate.TimestampRules_Lte:
			s, o := secs(b.Lte)
			ok = ok && o
			ub = fmt.Sprintf("(Lte (%d)%%Z)", s)
			r.LessThan = &validate.TimestampRules_Lte{Lte: b.Lte}
		}
		switch b := t.Timestamp.GetGreaterThan().(type) {
		case *validate.TimestampRules_Gt:
			s, o := secs(b.Gt)
			ok = ok && o
			lb = fmt.Sprintf("(Gt (%d)%%Z)", s)
			r.GreaterThan = &validate.TimestampRules_Gt{Gt: b.Gt}
		case *validate.TimestampRules_Gte:
			s, o := secs(b.Gte)
			ok = ok && o
			lb = fmt.Sprintf("(Gte (%d)%%Z)", s)
			r.GreaterThan = &validate.TimestampRules_Gte{Gte: b.Gte}
		}
		if !ok {
			return "COther", nil
		}
		return fmt.Sprintf("(CTimestamp %s %s)", ub, lb), &validate.FieldConstraints{Type: &validate.FieldConstraints_Timestamp{Timestamp: r}}
	case *validate.FieldConstraints_Map:
		mr := t.Map
		values := "None"
		r := &validate.MapRules{MinPairs: mr.MinPairs, MaxPairs: mr.MaxPairs}
		if mr.Values != nil {
			it, back := tycTerm(mr.Values)
			if it == "" && back != nil {
				it = "CEmpty" // a FieldConstraints without a type
			}
			if it == "" || back == nil || mr.Values.Required != nil {
				return "COther", nil
			}
			values = "(Some " + it + ")"
			r.Values = back
		}
		return fmt.Sprintf("(CMap %s %s %s)", coqOptU64(mr.MinPairs), coqOptU64(mr.MaxPairs), values),
			&validate.FieldConstraints{Type: &validate.FieldConstraints_Map{Map: r}}
	case *validate.FieldConstraints_Repeated:
		rr := t.Repeated
		items := "None"
		r := &validate.RepeatedRules{MinItems: rr.MinItems, MaxItems: rr.MaxItems, Unique: rr.Unique}
		if rr.Items != nil {
			it, back := tycTerm(rr.Items)
			if it == "" && back != nil {
				it = "CEmpty" // a FieldConstraints without a type
			}
			if it == "" || back == nil || rr.Items.Required != nil {
				return "COther", nil
			}
			items = "(Some " + it + ")"
			r.Items = back
		}
		return fmt.Sprintf("(CRep %s %s %s %s)", coqOptU64(rr.MinItems), coqOptU64(rr.MaxItems), coqOptBool(rr.Unique), items),
			&validate.FieldConstraints{Type: &validate.FieldConstraints_Repeated{Repeated: r}}
	}
	return "COther", nil
}

func constraintTerm(fd protoreflect.FieldDescriptor) string {
	if !proto.HasExtension(fd.Options(), validate.E_Field) {
		return "None"
	}
	fc, ok := proto.GetExtension(fd.Options(), validate.E_Field).(*validate.FieldConstraints)
	if !ok || fc == nil {
		return "(Some (C false (Some COther)))"
	}
	ty, back := tycTerm(fc)
	req := fc.GetRequired()
	if back != nil {
		back.Required = fc.Required
		if fc.Required != nil && !*fc.Required {
			back = nil // required: false is not what j5 writes
		}
	}
	if back == nil || !proto.Equal(back, fc) {
		return fmt.Sprintf("(Some (C %s (Some COther)))", vh.BoolTerm(req))
	}
	if ty == "" {
		return fmt.Sprintf("(Some (C %s None))", vh.BoolTerm(req))
	}
	return fmt.Sprintf("(Some (C %s (Some %s)))", vh.BoolTerm(req), ty)
}

func txtRulesTerm(min, max *string, xmin, xmax *bool) string {
	return fmt.Sprintf("(Some (TR %s %s %s %s))", coqOptStr(min), coqOptStr(max), coqOptBool(xmin), coqOptBool(xmax))
}

func extTerm(fd protoreflect.FieldDescriptor) string {
	if !proto.HasExtension(fd.Options(), ext_j5pb.E_Field) {
		return "None"
	}
	fo, ok := proto.GetExtension(fd.Options(), ext_j5pb.E_Field).(*ext_j5pb.FieldOptions)
	if !ok || fo == nil || fo.Description != "" {
		return "(Some XOther)"
	}
	var term string
	var back *ext_j5pb.FieldOptions
	switch t := fo.Type.(type) {
	case *ext_j5pb.FieldOptions_Array:
		term = "(XArray " + coqOptStr(t.Array.SingleForm) + ")"
		back = &ext_j5pb.FieldOptions{Type: &ext_j5pb.FieldOptions_Array{Array: &ext_j5pb.ArrayField{SingleForm: t.Array.SingleForm}}}
	case *ext_j5pb.FieldOptions_Map:
		term = "(XMap " + coqOptStr(t.Map.SingleForm) + ")"
		back = &ext_j5pb.FieldOptions{Type: &ext_j5pb.FieldOptions_Map{Map: &ext_j5pb.MapField{SingleForm: t.Map.SingleForm}}}
	case *ext_j5pb.FieldOptions_Object:
		term = "(XObject " + vh.BoolTerm(t.Object.Flatten) + ")"
		back = &ext_j5pb.FieldOptions{Type: &ext_j5pb.FieldOptions_Object{Object: &ext_j5pb.ObjectField{Flatten: t.Object.Flatten}}}
	case *ext_j5pb.FieldOptions_Enum:
		term, back = "XEnum", &ext_j5pb.FieldOptions{Type: &ext_j5pb.FieldOptions_Enum{Enum: &ext_j5pb.EnumField{}}}
	case *ext_j5pb.FieldOptions_Oneof:
		term, back = "XOneof", &ext_j5pb.FieldOptions{Type: &ext_j5pb.FieldOptions_Oneof{Oneof: &ext_j5pb.OneofField{}}}
	case *ext_j5pb.FieldOptions_String_:
		term, back = "XString", &ext_j5pb.FieldOptions{Type: &ext_j5pb.FieldOptions_String_{String_: &ext_j5pb.StringField{}}}
	case *ext_j5pb.FieldOptions_Integer:
		term, back = "XInteger", &ext_j5pb.FieldOptions{Type: &ext_j5pb.FieldOptions_Integer{Integer: &ext_j5pb.IntegerField{}}}
	case *ext_j5pb.FieldOptions_Float:
		term, back = "XFloat", &ext_j5pb.FieldOptions{Type: &ext_j5pb.FieldOptions_Float{Float: &ext_j5pb.FloatField{}}}
	case *ext_j5pb.FieldOptions_Bool:
		term, back = "XBool", &ext_j5pb.FieldOptions{Type: &ext_j5pb.FieldOptions_Bool{Bool: &ext_j5pb.BoolField{}}}
	case *ext_j5pb.FieldOptions_Bytes:
		term, back = "XBytes", &ext_j5pb.FieldOptions{Type: &ext_j5pb.FieldOptions_Bytes{Bytes: &ext_j5pb.BytesField{}}}
	case *ext_j5pb.FieldOptions_Timestamp:
		term, back = "XTimestamp", &ext_j5pb.FieldOptions{Type: &ext_j5pb.FieldOptions_Timestamp{Timestamp: &ext_j5pb.TimestampField{}}}
	case *ext_j5pb.FieldOptions_Key:
		kf := &ext_j5pb.KeyField{}
		f := "None"
		switch kt := t.Key.Type.(type) {
		case *ext_j5pb.KeyField_Pattern:
			f = "(Some (KCustom " + vh.RunesTerm(kt.Pattern) + "))"
			kf.Type = &ext_j5pb.KeyField_Pattern{Pattern: kt.Pattern}
		case *ext_j5pb.KeyField_Format_:
			switch kt.Format {
			case ext_j5pb.KeyField_FORMAT_UNSPECIFIED:
				f = "(Some KInformal)"
			case ext_j5pb.KeyField_FORMAT_UUID:
				f = "(Some KUuid)"
			case ext_j5pb.KeyField_FORMAT_ID62:
				f = "(Some KId62)"
			default:
				return "(Some XOther)"
			}
			kf.Type = &ext_j5pb.KeyField_Format_{Format: kt.Format}
		}
		term, back = "(XKey "+f+")", &ext_j5pb.FieldOptions{Type: &ext_j5pb.FieldOptions_Key{Key: kf}}
	case *ext_j5pb.FieldOptions_Any:
		term = fmt.Sprintf("(XAny %s %s)", vh.BoolTerm(t.Any.OnlyDefined), strList(t.Any.Types))
		back = &ext_j5pb.FieldOptions{Type: &ext_j5pb.FieldOptions_Any{Any: &ext_j5pb.AnyField{OnlyDefined: t.Any.OnlyDefined, Types: t.Any.Types}}}
	case *ext_j5pb.FieldOptions_Date:
		r := "None"
		b := &ext_j5pb.DateField{}
		if rr := t.Date.Rules; rr != nil {
			r = txtRulesTerm(rr.Minimum, rr.Maximum, rr.ExclusiveMinimum, rr.ExclusiveMaximum)
			b.Rules = &ext_j5pb.DateField_Rules{Minimum: rr.Minimum, Maximum: rr.Maximum, ExclusiveMinimum: rr.ExclusiveMinimum, ExclusiveMaximum: rr.ExclusiveMaximum}
		}
		term, back = "(XDate "+r+")", &ext_j5pb.FieldOptions{Type: &ext_j5pb.FieldOptions_Date{Date: b}}
	case *ext_j5pb.FieldOptions_Decimal:
		r := "None"
		b := &ext_j5pb.DecimalField{}
		if rr := t.Decimal.Rules; rr != nil {
			r = txtRulesTerm(rr.Minimum, rr.Maximum, rr.ExclusiveMinimum, rr.ExclusiveMaximum)
			b.Rules = &ext_j5pb.DecimalField_Rules{Minimum: rr.Minimum, Maximum: rr.Maximum, ExclusiveMinimum: rr.ExclusiveMinimum, ExclusiveMaximum: rr.ExclusiveMaximum}
		}
		term, back = "(XDecimal "+r+")", &ext_j5pb.FieldOptions{Type: &ext_j5pb.FieldOptions_Decimal{Decimal: b}}
	default:
		return "(Some XOther)"
	}
	if !proto.Equal(back, fo) {
		return "(Some XOther)"
	}
	return "(Some " + term + ")"
}

// payload of a list rules message (IntegerRules, KeyRules, OpenTextRules, ...):
// read generically; ok=false when it holds anything the payload does not keep.
func lpayOf(m protoreflect.Message) (LPay, bool) {
	var p LPay
	ok := true
	m.Range(func(fd protoreflect.FieldDescriptor, v protoreflect.Value) bool {
		switch fd.Name() {
		case "filtering":
			v.Message().Range(func(f2 protoreflect.FieldDescriptor, v2 protoreflect.Value) bool {
				switch f2.Name() {
				case "filterable":
					p.Filterable = v2.Bool()
				case "default_filters":
					l := v2.List()
					for i := 0; i < l.Len(); i++ {
						p.Filters = append(p.Filters, l.Get(i).String())
					}
				default:
					ok = false
				}
				return true
			})
		case "sorting":
			v.Message().Range(func(f2 protoreflect.FieldDescriptor, v2 protoreflect.Value) bool {
				switch f2.Name() {
				case "sortable":
					p.Sortable = v2.Bool()
				case "default_sort":
					p.DefaultSort = v2.Bool()
				default:
					ok = false
				}
				return true
			})
		case "searching":
			v.Message().Range(func(f2 protoreflect.FieldDescriptor, v2 protoreflect.Value) bool {
				switch f2.Name() {
				case "searchable":
					p.Searchable = v2.Bool()
				default:
					ok = false
				}
				return true
			})
		default:
			ok = false
		}
		return true
	})
	return p, ok
}

func listTerm(fd protoreflect.FieldDescriptor) string {
	if !proto.HasExtension(fd.Options(), list_j5pb.E_Field) {
		return "None"
	}
	fc, ok := proto.GetExtension(fd.Options(), list_j5pb.E_Field).(*list_j5pb.FieldConstraint)
	if !ok || fc == nil {
		return "(Some (LOtherArm, LP false false false false []))"
	}
	arm := "LOtherArm"
	var pm proto.Message
	switch t := fc.Type.(type) {
	case *list_j5pb.FieldConstraint_Double:
		arm, pm = "LDouble", t.Double
	case *list_j5pb.FieldConstraint_Float:
		arm, pm = "LFloat", t.Float
	case *list_j5pb.FieldConstraint_Int32:
		arm, pm = "LInt32", t.Int32
	case *list_j5pb.FieldConstraint_Int64:
		arm, pm = "LInt64", t.Int64
	case *list_j5pb.FieldConstraint_Uint32:
		arm, pm = "LUint32", t.Uint32
	case *list_j5pb.FieldConstraint_Uint64:
		arm, pm = "LUint64", t.Uint64
	case *list_j5pb.FieldConstraint_Bool:
		arm, pm = "LBool", t.Bool
	case *list_j5pb.FieldConstraint_Enum:
		arm, pm = "LEnum", t.Enum
	case *list_j5pb.FieldConstraint_Oneof:
		arm, pm = "LOneof", t.Oneof
	case *list_j5pb.FieldConstraint_Timestamp:
		arm, pm = "LTimestamp", t.Timestamp
	case *list_j5pb.FieldConstraint_Date:
		arm, pm = "LDate", t.Date
	case *list_j5pb.FieldConstraint_Decimal:
		arm, pm = "LDecimal", t.Decimal
	case *list_j5pb.FieldConstraint_Any:
		arm, pm = "LAny", t.Any
	case *list_j5pb.FieldConstraint_String_:
		switch w := t.String_.WellKnown.(type) {
		case *list_j5pb.StringRules_OpenText:
			arm, pm = "LStrOpenText", w.OpenText
		case *list_j5pb.StringRules_ForeignKey:
			switch k := w.ForeignKey.Type.(type) {
			case *list_j5pb.ForeignKeyRules_UniqueString:
				arm, pm = "LStrFkUnique", k.UniqueString
			case *list_j5pb.ForeignKeyRules_Uuid:
				arm, pm = "LStrFkUuid", k.Uuid
			case *list_j5pb.ForeignKeyRules_Id62:
				arm, pm = "LStrFkId62", k.Id62
			}
		}
	}
	if pm == nil {
		return "(Some (LOtherArm, LP false false false false []))"
	}
	p, ok := lpayOf(pm.ProtoReflect())
	if !ok {
		arm = "LOtherArm"
	}
	return fmt.Sprintf("(Some (%s, LP %s %s %s %s %s))", arm, vh.BoolTerm(p.Filterable), vh.BoolTerm(p.Sortable), vh.BoolTerm(p.Searchable), vh.BoolTerm(p.DefaultSort), strList(p.Filters))
}

func keyTerm(fd protoreflect.FieldDescriptor) string {
	if fd.IsMap() {
		fd = fd.MapValue() // the item's annotations are on the value field of the entry
	}
	if !proto.HasExtension(fd.Options(), ext_j5pb.E_Key) {
		return "None"
	}
	k, ok := proto.GetExtension(fd.Options(), ext_j5pb.E_Key).(*ext_j5pb.PSMKeyFieldOptions)
	if !ok || k == nil {
		return "None"
	}
	fk := "None"
	if k.ForeignKey != nil {
		fk = fmt.Sprintf("(Some (%s, %s))", vh.BytesTerm(k.ForeignKey.Package), vh.BytesTerm(k.ForeignKey.Entity))
	}
	return fmt.Sprintf("(Some (KX %s %s %s))", vh.BoolTerm(k.PrimaryKey), fk, coqOptStr(k.TenantType))
}

func kindTerm(fd protoreflect.FieldDescriptor) string {
	if fd.IsMap() {
		return "(KdMapEntry " + kindTerm(fd.MapValue()) + ")"
	}
	switch fd.Kind() {
	case protoreflect.Int32Kind:
		return "KdInt32"
	case protoreflect.Int64Kind:
		return "KdInt64"
	case protoreflect.Uint32Kind:
		return "KdUint32"
	case protoreflect.Uint64Kind:
		return "KdUint64"
	case protoreflect.StringKind:
		return "KdString"
	case protoreflect.BytesKind:
		return "KdBytes"
	case protoreflect.BoolKind:
		return "KdBool"
	case protoreflect.FloatKind:
		return "KdFloat"
	case protoreflect.DoubleKind:
		return "KdDouble"
	case protoreflect.EnumKind:
		return "KdEnum"
	case protoreflect.MessageKind:
		// a message of the unit's package: object or oneof by its (j5.ext.v1.message) option, named
		// by its path inside the package
		if md := fd.Message(); md.ParentFile().Package() == "foo.v1" && !md.IsMapEntry() {
			name := vh.BytesTerm(strings.TrimPrefix(string(md.FullName()), "foo.v1."))
			if mo, ok := proto.GetExtension(md.Options(), ext_j5pb.E_Message).(*ext_j5pb.MessageOptions); ok && mo != nil {
				switch mo.Type.(type) {
				case *ext_j5pb.MessageOptions_Object:
					return "(KdMsgObject " + name + ")"
				case *ext_j5pb.MessageOptions_Oneof:
					return "(KdMsgOneof " + name + ")"
				}
			}
			return "KdOther"
		}
		switch fd.Message().FullName() {
		case "google.protobuf.Timestamp":
			return "KdTimestamp"
		case "j5.types.date.v1.Date":
			return "KdDate"
		case "j5.types.decimal.v1.Decimal":
			return "KdDecimal"
		case "j5.types.any.v1.Any":
			return "KdAny"
		}
	}
	return "KdOther"
}

// the description the compiler stored as leading comment, with its framing
// (" " before each line, "\n" at the end) removed
func declaredComment(fd protoreflect.Descriptor) string {
	loc := fd.ParentFile().SourceLocations().ByDescriptor(fd)
	c := loc.LeadingComments
	if c == "" {
		return ""
	}
	c = strings.TrimSuffix(c, "\n")
	lines := strings.Split(c, "\n")
	for i := range lines {
		lines[i] = strings.TrimPrefix(lines[i], " ")
	}
	return strings.Join(lines, "\n")
}

// optionalKeyword: proto3_optional as the compiler wrote it. protoreflect's
// HasOptionalKeyword answers false for every repeated field whatever the descriptor says;
// descriptors linked by protocompile (the j5s text path) give access to the raw
// FieldDescriptorProto. (In the AST path protodesc.NewFile refuses the flag on a repeated
// field, so the two agree there.)
func optionalKeyword(fd protoreflect.FieldDescriptor) bool {
	if raw, ok := fd.(interface {
		FieldDescriptorProto() *descriptorpb.FieldDescriptorProto
	}); ok {
		return raw.FieldDescriptorProto().GetProto3Optional()
	}
	return fd.HasOptionalKeyword()
}

func foutTerm(fd protoreflect.FieldDescriptor) string {
	return fmt.Sprintf("(FO %s %s %d %s %s %s %s %s %s %s %s %s)",
		vh.BytesTerm(fd.JSONName()), vh.BytesTerm(string(fd.Name())), fd.Number(), kindTerm(fd),
		vh.BoolTerm(fd.IsList() || fd.IsMap()), vh.BoolTerm(optionalKeyword(fd)), vh.BoolTerm(fd.HasPresence()),
		constraintTerm(fd), extTerm(fd), listTerm(fd), keyTerm(fd), vh.BytesTerm(declaredComment(fd)))
}

// ---------------------------------------------------------------- validation

type Value struct {
	Kind  string // int str bytes bool enum float msg
	I     int64  // msg: the content id (0 = empty message; equal ids = equal messages)
	U     uint64 // for uint64 beyond int64
	S     string
	B     bool
	F     float64 // float: the value (already rounded to float32 for FLOAT32 fields)
	IsU64 bool
}

type FValue struct {
	Absent bool
	Many   bool
	IsMap  bool // List holds the values, Keys the (pairwise different) keys
	One    Value
	List   []Value
	Keys   []string
}

func (v Value) Coq() string {
	switch v.Kind {
	case "int":
		if v.IsU64 {
			return fmt.Sprintf("(VInt (%d)%%Z)", v.U)
		}
		return fmt.Sprintf("(VInt (%d)%%Z)", v.I)
	case "str":
		return "(VStr " + vh.RunesTerm(v.S) + ")"
	case "bytes":
		return "(VBytes " + vh.BytesTerm(v.S) + ")"
	case "bool":
		return "(VBool " + vh.BoolTerm(v.B) + ")"
	case "enum":
		return fmt.Sprintf("(VEnum (%d)%%Z)", v.I)
	case "float":
		return fmt.Sprintf("(VFloat %d)", math.Float64bits(v.F))
	case "msg":
		return fmt.Sprintf("(VMsg %d)", v.I)
	}
	panic("value kind")
}

func (f FValue) Coq() string {
	if f.Absent {
		return "FAbsent"
	}
	if f.IsMap {
		parts := make([]string, len(f.List))
		for i, v := range f.List {
			parts[i] = "(" + vh.BytesTerm(f.Keys[i]) + ", " + v.Coq() + ")"
		}
		return "(FMap [" + strings.Join(parts, ";") + "])"
	}
	if f.Many {
		parts := make([]string, len(f.List))
		for i, v := range f.List {
			parts[i] = v.Coq()
		}
		return "(FMany [" + strings.Join(parts, ";") + "])"
	}
	return "(FOne " + f.One.Coq() + ")"
}

func (f FValue) String() string {
	if f.Absent {
		return "absent"
	}
	show := func(v Value) string {
		switch v.Kind {
		case "int":
			if v.IsU64 {
				return fmt.Sprint(v.U)
			}
			return fmt.Sprint(v.I)
		case "str":
			return fmt.Sprintf("%q", v.S)
		case "bytes":
			return fmt.Sprintf("bytes(%x)", v.S)
		case "bool":
			return fmt.Sprint(v.B)
		case "enum":
			return fmt.Sprintf("enum(%d)", v.I)
		case "float":
			if v.F == 0 && math.Signbit(v.F) {
				return "-0"
			}
			return fmt.Sprint(v.F)
		}
		return fmt.Sprintf("{#%d}", v.I)
	}
	if f.IsMap {
		parts := make([]string, len(f.List))
		for i, v := range f.List {
			parts[i] = f.Keys[i] + ":" + show(v)
		}
		return "{" + strings.Join(parts, ",") + "}"
	}
	if f.Many {
		parts := make([]string, len(f.List))
		for i, v := range f.List {
			parts[i] = show(v)
		}
		return "[" + strings.Join(parts, ",") + "]"
	}
	return show(f.One)
}

func pvalue(fd protoreflect.FieldDescriptor, v Value) protoreflect.Value {
	switch fd.Kind() {
	case protoreflect.Int32Kind:
		return protoreflect.ValueOfInt32(int32(v.I))
	case protoreflect.Int64Kind:
		return protoreflect.ValueOfInt64(v.I)
	case protoreflect.Uint32Kind:
		return protoreflect.ValueOfUint32(uint32(v.I))
	case protoreflect.Uint64Kind:
		if v.IsU64 {
			return protoreflect.ValueOfUint64(v.U)
		}
		return protoreflect.ValueOfUint64(uint64(v.I))
	case protoreflect.StringKind:
		return protoreflect.ValueOfString(v.S)
	case protoreflect.BytesKind:
		return protoreflect.ValueOfBytes([]byte(v.S))
	case protoreflect.BoolKind:
		return protoreflect.ValueOfBool(v.B)
	case protoreflect.EnumKind:
		return protoreflect.ValueOfEnum(protoreflect.EnumNumber(v.I))
	case protoreflect.FloatKind:
		return protoreflect.ValueOfFloat32(float32(v.F))
	case protoreflect.DoubleKind:
		return protoreflect.ValueOfFloat64(v.F)
	case protoreflect.MessageKind:
		return protoreflect.ValueOfMessage(messageWithID(fd.Message(), v.I))
	}
	panic("unsupported kind " + fd.Kind().String())
}

type verdict struct {
	Accept  bool
	Err     string // "" | "compile" (*protovalidate.CompilationError) | "runtime" (*protovalidate.RuntimeError) | "other" (another error, or a panic)
	Problem string // text of the error / panic
	Ids     []string
}

// Coq term of type verdict (RulesDecl.v); ok=false when the model has no such outcome
func (v verdict) Coq() (string, bool) {
	switch v.Err {
	case "":
		if v.Accept {
			return "VAccept", true
		}
		return "VReject", true
	case "compile":
		return "(VError ECompile)", true
	case "runtime":
		return "(VError ERuntime)", true
	}
	return "", false
}

func (v verdict) String() string {
	switch {
	case v.Err != "":
		return v.Err + " error"
	case v.Accept:
		return "accept"
	}
	return "reject"
}

// messageWithID: a message of the given type whose content is determined by id
// (0 = empty; different ids = different messages), valid for the constraints
// the well-known j5 types carry themselves
func messageWithID(md protoreflect.MessageDescriptor, id int64) protoreflect.Message {
	m := dynamicpb.NewMessage(md)
	if id == 0 {
		return m
	}
	set := func(name string, v protoreflect.Value) {
		if fd := md.Fields().ByName(protoreflect.Name(name)); fd != nil {
			m.Set(fd, v)
		}
	}
	switch md.FullName() {
	case "foo.v1.Bar":
		set("x", protoreflect.ValueOfString(fmt.Sprintf("m%d", id)))
	case "foo.v1.Choice":
		set("a", protoreflect.ValueOfString(fmt.Sprintf("m%d", id)))
	case "foo.v1.Baz":
		set("y", protoreflect.ValueOfInt32(int32(id)))
	case "foo.v1.Pick":
		set("c", protoreflect.ValueOfString(fmt.Sprintf("m%d", id)))
	case "google.protobuf.Timestamp":
		set("seconds", protoreflect.ValueOfInt64(id))
	case "j5.types.date.v1.Date":
		set("year", protoreflect.ValueOfInt32(int32(2000+id)))
		set("month", protoreflect.ValueOfInt32(1))
		set("day", protoreflect.ValueOfInt32(1))
	case "j5.types.decimal.v1.Decimal":
		set("value", protoreflect.ValueOfString(fmt.Sprint(id)))
	case "j5.types.any.v1.Any":
		set("type_name", protoreflect.ValueOfString("foo.v1.Bar"))
		set("proto", protoreflect.ValueOfBytes([]byte{byte(id)}))
	}
	return m
}

// classify turns the validator's result into a verdict; count decides which
// violations are about the field(s) under test
func classify(err error, count func(els []*validate.FieldPathElement) bool) (vd verdict) {
	if err == nil {
		return verdict{Accept: true}
	}
	var ve *protovalidate.ValidationError
	if !errors.As(err, &ve) {
		var ce *protovalidate.CompilationError
		var re *protovalidate.RuntimeError
		switch {
		case errors.As(err, &ce):
			return verdict{Err: "compile", Problem: err.Error()}
		case errors.As(err, &re):
			return verdict{Err: "runtime", Problem: err.Error()}
		}
		return verdict{Err: "other", Problem: err.Error()}
	}
	vd.Accept = true
	for _, v := range ve.Violations {
		// violations raised inside a populated message value (j5.types.date.v1.Date
		// has constraints of its own) have longer paths and are not about this field
		if count(v.Proto.GetField().GetElements()) {
			vd.Accept = false
			vd.Ids = append(vd.Ids, v.Proto.GetConstraintId())
		}
	}
	sort.Strings(vd.Ids)
	return vd
}

// validateField sets only field fd of a fresh message to fv and reports what
// the real validator returns (violations on that field only).
func validateField(val protovalidate.Validator, md protoreflect.MessageDescriptor, fd protoreflect.FieldDescriptor, fv FValue) (vd verdict) {
	defer func() {
		if r := recover(); r != nil {
			vd = verdict{Err: "other", Problem: fmt.Sprintf("panic: %v", r)}
		}
	}()
	msg := dynamicpb.NewMessage(md)
	setField(msg, fd, fv)
	return classify(val.Validate(msg), func(els []*validate.FieldPathElement) bool {
		return len(els) == 1 && els[0].GetFieldNumber() == int32(fd.Number())
	})
}

func setField(msg protoreflect.Message, fd protoreflect.FieldDescriptor, fv FValue) {
	switch {
	case fv.Absent:
	case fv.IsMap:
		m := msg.Mutable(fd).Map()
		for i, v := range fv.List {
			m.Set(protoreflect.ValueOfString(fv.Keys[i]).MapKey(), pvalue(fd.MapValue(), v))
		}
	case fv.Many:
		l := msg.Mutable(fd).List()
		for _, v := range fv.List {
			l.Append(pvalue(fd, v))
		}
	default:
		msg.Set(fd, pvalue(fd, fv.One))
	}
}

// validateMessage sets the first len(fvs) fields and reports what the real
// validator returns (violations on these fields only; violations inside
// populated message values do not count).
func validateMessage(val protovalidate.Validator, md protoreflect.MessageDescriptor, fvs []FValue) (vd verdict) {
	defer func() {
		if r := recover(); r != nil {
			vd = verdict{Err: "other", Problem: fmt.Sprintf("panic: %v", r)}
		}
	}()
	msg := dynamicpb.NewMessage(md)
	for i, fv := range fvs {
		setField(msg, md.Fields().Get(i), fv)
	}
	return classify(val.Validate(msg), func(els []*validate.FieldPathElement) bool {
		return len(els) == 1 && int(els[0].GetFieldNumber()) <= len(fvs)
	})
}

package main

import "encoding/json"

func jsonUnmarshal(b []byte, into *map[string]any) error { return json.Unmarshal(b, into) }

package main

// C12: compiled validation constraints accept exactly what the j5s rules allow.
// Stream 1 (writer tie): generated property declarations -> real compiler ->
// emitted annotations, dumped as Coq terms, compared in Coq with write_prop.
// Stream 2 (validator tie): dynamic messages of the compiled type with values
// around every induced boundary -> real protovalidate-go verdict, compared in
// Coq with validate_sem on the *observed* annotations.
// Direct oracle: declared meaning evaluated in Go (oracle.go) vs real verdict.

import (
	"fmt"
	"regexp"
	"strings"

	"github.com/pentops/j5/lib/id62"

	"github.com/bufbuild/protovalidate-go"
	"google.golang.org/protobuf/reflect/protoreflect"

	"verifharness/vh"
)

func init() { vh.Register("C12", runC12) }

var sentinel = Prop{Name: "zz", T: FTy{Kind: TEnum}}

type unitResult struct {
	props []genDecl
	obs   []string // Coq term of outcome fout per prop
	ok    []bool
	md    protoreflect.MessageDescriptor
	note  string
}

func obsFail(c compiled) string {
	if c.panic != nil {
		return `(Panic "compile")`
	}
	return `(Err "compile")`
}

// compileProps compiles the properties as one object (plus the sentinel); when
// that fails, each property alone, so that the failure is attributed.
func compileProps(env EnumEnv, props []genDecl) []unitResult {
	build := func(ps []genDecl) (unitResult, compiled) {
		var pl []Prop
		for _, p := range ps {
			pl = append(pl, p.P)
		}
		pl = append(pl, sentinel)
		c, _ := compileRoot("object", env, "", pl)
		u := unitResult{props: ps}
		if c.err != nil || c.panic != nil {
			for range ps {
				u.obs = append(u.obs, obsFail(c))
				u.ok = append(u.ok, false)
			}
			u.note = fmt.Sprint(c.err, c.panic)
			return u, c
		}
		md := c.file.Messages().ByName("Foo")
		if md == nil || md.Fields().Len() != len(pl) {
			for range ps {
				u.obs = append(u.obs, `(Err "shape")`)
				u.ok = append(u.ok, false)
			}
			u.note = "compiled message Foo missing or has a different number of fields"
			return u, c
		}
		u.md = md
		for i := range ps {
			u.obs = append(u.obs, "(Ok "+foutTerm(md.Fields().Get(i))+")")
			u.ok = append(u.ok, true)
		}
		return u, c
	}
	u, c := build(props)
	if (c.err == nil && c.panic == nil) || len(props) == 1 {
		return []unitResult{u}
	}
	var out []unitResult
	for _, p := range props {
		u1, _ := build([]genDecl{p})
		out = append(out, u1)
	}
	return out
}

func c12Sig(p genDecl, fv FValue, declared bool, vd verdict) string {
	if p.P.Opt && fv.Absent && declared && !vd.Accept {
		return "C12 optional field not populated: validator applies the rules to the zero value (proto3_optional emitted without a synthetic oneof, so the compiled field has no presence)"
	}
	dir := "rejects a value the declared rules allow"
	if !declared {
		dir = "accepts a value the declared rules forbid"
	}
	return fmt.Sprintf("C12 %s of %s: validator %s [%s]", shapeName(p.P), itemTypeName[p.P.T.Kind], dir, strings.Join(vd.Ids, ","))
}

func shapeName(p Prop) string {
	switch p.PK {
	case PArray:
		return "array"
	case PMap:
		return "map"
	}
	return "field"
}

// errorSig: the validator returned an error instead of a verdict. The two known
// classes get a narrow signature; anything else is reported under its own text.
func errorSig(p Prop, vd verdict) string {
	switch {
	case vd.Err == "compile" && !patternsOK(p):
		kind := "string rules.pattern"
		if p.T.Kind == TKey {
			kind = "key:custom format.custom.pattern"
		}
		return "C12 " + kind + " that is not a valid RE2 expression compiles: the validator returns a compilation error for every message of the type"
	case vd.Err == "runtime" && uniqueOnMessages(p):
		return fmt.Sprintf("C12 array of %s with rules.uniqueItems = true: the validator returns a runtime error instead of a verdict (repeated.unique has no overload for lists of messages)", itemTypeName[p.T.Kind])
	}
	return fmt.Sprintf("C12 %s of %s: validator returns a %s error instead of a verdict: %s", shapeName(p), itemTypeName[p.T.Kind], vd.Err, firstWords(vd.Problem, 8))
}

func specTerm(judged bool, declared bool) string {
	if !judged {
		return "None"
	}
	return "(Some " + vh.BoolTerm(declared) + ")"
}

func runC12(cfg *vh.Config) error {
	res := vh.NewResult("C12", cfg.Seed)
	res.Rule = "declarations: integer (4 formats; minimum/maximum absent, 0, format min/max, near them; exclusive flags absent/false/true), string (min/max length absent/0/1-6, pattern incl. patterns RE2 rejects), bytes, bool const, enum in/not-in (short and prefixed names; enum with / without an explicit zero option, or with a first option merely ending in UNSPECIFIED = an ordinary option; declared in the same file, another file of the package, an imported package), key (none/informal/custom incl. ill-formed patterns/uuid/id62, primary key), float and message-typed fields; each plain, required, optional, or as array (min/max items absent/0/1-6, unique absent/false/true, also on float and message items) or map; values: below/at/above every bound, multi-byte strings, (non-)matching patterns, undefined enum numbers, absent vs zero, +0/-0/NaN, lists with and without duplicates (messages with equal and different content); non-trivial = distinct declaration carrying at least one rule, required flag or format"
	cf := &vh.CasesFile{
		Header: "From Coq Require Import String List NArith ZArith.\nFrom J5V.lib Require Import Outcome.\nFrom J5V.model Require Import RulesDecl RulesRead RulesNested RulesNestedSem RulesOneof RulesCompile RulesCorr.",
		Type:   "c12case",
		Check:  "c12_check",
	}
	r := cfg.R.Fork("C12")
	val, err := protovalidate.New()
	if err != nil {
		return err
	}
	nUnits := cfg.Scale(170, 2500)
	distinct := vh.Distinct{}
	caseNo := 0
	evals := 0
	env := theEnum // per compile unit: with or without an explicit zero option

	// ---- whole messages: one candidate value per field
	messages := func(ur unitResult) {
		if len(ur.props) < 2 {
			return
		}
		cands := make([][]FValue, len(ur.props))
		judged := true
		var firstBad *Prop
		for i, p := range ur.props {
			if !ur.ok[i] {
				return
			}
			cands[i] = fieldValues(r, p.P)
			if len(cands[i]) == 0 {
				return
			}
			if !keyPlacementOK(p.P) || !patternsOK(p.P) {
				judged = false
			}
			if firstBad == nil && (!patternsOK(p.P) || uniqueOnMessages(p.P)) {
				pp := p.P
				firstBad = &pp
			}
		}
		var msgs, outs, decls []string
		for i, p := range ur.props {
			outs = append(outs, foutTerm(ur.md.Fields().Get(i)))
			decls = append(decls, p.P.Coq())
		}
		var src []string
		for _, p := range ur.props {
			src = append(src, p.P.J5S(env))
		}
		reported := map[string]bool{}
		for k := 0; k < 6; k++ {
			fvs := make([]FValue, len(ur.props))
			var shown, terms []string
			declared := true
			for i, p := range ur.props {
				fvs[i] = vh.Pick(r, cands[i])
				if judged && r.Chance(75) { // mostly values the declaration allows, so that whole messages are accepted often enough
					var good []FValue
					for _, c := range cands[i] {
						if ruleSem(env, p.P, c) {
							good = append(good, c)
						}
					}
					if len(good) > 0 {
						fvs[i] = vh.Pick(r, good)
					}
				}
				if judged && !ruleSem(env, p.P, fvs[i]) {
					declared = false
				}
				shown = append(shown, fvs[i].String())
				terms = append(terms, fvs[i].Coq())
			}
			vd := validateMessage(val, ur.md, fvs)
			evals++
			res.Count("message")
			res.Count("message-" + vd.String())
			vt, ok := vd.Coq()
			input := map[string]any{"j5s": strings.Join(src, ""), "values": shown, "enum": env.SourceNote()}
			switch {
			case !ok:
				res.Fail(vh.Failure{Case: caseNo, Stream: "message", Sig: "C12 message: the validator fails on a whole message: " + firstWords(vd.Problem, 8),
					Clause: "the standard validator evaluates the compiled constraints", Input: input, Got: vd.Problem})
				continue
			case vd.Err != "":
				sig := "C12 message: validator returns a " + vd.Err + " error on a message all of whose properties it can evaluate: " + firstWords(vd.Problem, 8)
				if firstBad != nil {
					sig = errorSig(*firstBad, vd)
				}
				if !reported[sig] {
					reported[sig] = true
					res.Fail(vh.Failure{Case: caseNo, Stream: "message", Sig: sig,
						Clause: "the validator returns a verdict for every message of the compiled type", Input: input, Got: vd.Problem})
				}
			case judged && declared != vd.Accept:
				res.Fail(vh.Failure{Case: caseNo, Stream: "message", Sig: "C12 message: the validator's verdict on a whole message differs from the conjunction of the declared rules of its properties",
					Clause: "the validator accepts a message iff every property satisfies its declared rules", Input: input,
					Got:    map[string]any{"validator_accepts": vd.Accept, "violations": vd.Ids}, Want: map[string]any{"declared_rules_satisfied": declared}})
			}
			msgs = append(msgs, fmt.Sprintf("([%s], %s, %s)", strings.Join(terms, ";"), vt, specTerm(judged, declared)))
		}
		cf.Terms = append(cf.Terms, fmt.Sprintf("C12Obj %s [%s] [%s] [%s]", env.Coq(), strings.Join(decls, ";"), strings.Join(outs, ";"), strings.Join(msgs, ";")))
		res.Cases = append(res.Cases, vh.CaseRec{Case: caseNo, Stream: "message", Input: map[string]any{"j5s": strings.Join(src, "")}, Impl: map[string]any{"messages": len(msgs)}})
		caseNo++
	}

	// ---- one property at a time
	fields := func(ur unitResult) {
		for i, p := range ur.props {
			idx := i
			res.Count("decl")
			res.Count("decl:" + itemTypeName[p.P.T.Kind])
			if p.Class != "" {
				res.Count("class:" + p.Class)
			}
			dterm := p.P.XCoq()
			if p.P.Req || p.P.Opt || p.P.PK != PSingle || p.P.T.Int != nil || p.P.T.Str != nil || p.P.T.Len != nil || p.P.T.HasBool || p.P.T.Enum != nil || (p.P.T.Kind == TKey && p.P.T.KF != KNone) {
				distinct.Add(dterm)
			}
			var pairs []string
			var implVals []map[string]any
			if ur.ok[i] && strings.HasPrefix(p.Class, "refused-") {
				res.Fail(vh.Failure{Case: caseNo, Stream: "compile", Sig: "C12 " + p.Class + ": a declaration whose rule buf.validate cannot enforce compiles (multipleOf / uniqueItems on messages / a pattern regexp.Compile refuses must be compile errors)",
					Clause: "a compiled constraint accepts exactly what the declared rules allow", Input: map[string]any{"j5s": p.P.J5S(env)}, Got: ur.obs[i]})
			}
			if ur.ok[i] {
				res.Count("compiled")
				fd := ur.md.Fields().Get(i)
				judged := keyPlacementOK(p.P) && patternsOK(p.P)
				if !judged {
					res.Count("not-judged")
				}
				reported := map[string]bool{}
				for _, fv := range fieldValues(r, p.P) {
					vd := validateField(val, ur.md, fd, fv)
					evals++
					res.Count(vd.String())
					declared := judged && ruleSem(env, p.P, fv)
					input := map[string]any{"j5s": p.P.J5S(env), "value": fv.String()}
					if p.P.T.Kind == TEnum {
						input["enum"] = env.SourceNote()
						if n := fv.One.I; p.P.PK == PSingle && !fv.Absent && n >= 1 && n <= int64(len(env.Options)) {
							input["value_is_option"] = env.Options[n-1]
						}
					}
					vt, ok := vd.Coq()
					switch {
					case !ok:
						res.Fail(vh.Failure{Case: caseNo, Stream: "validate", Sig: "C12 validator fails: " + firstWords(vd.Problem, 6),
							Clause: "the standard validator evaluates the compiled constraints", Input: input, Got: vd.Problem})
						continue
					case vd.Err != "":
						if sig := errorSig(p.P, vd); !reported[sig] {
							reported[sig] = true
							res.Fail(vh.Failure{Case: caseNo, Stream: "validate", Sig: sig,
								Clause: "the validator returns a verdict (accept iff the declared rules hold) for every value of the compiled field", Input: input,
								Got: vd.Problem, Want: map[string]any{"declared_rules_satisfied": specTerm(judged, declared)}})
						}
					case judged && declared != vd.Accept:
						res.Fail(vh.Failure{Case: caseNo, Stream: "validate", Sig: c12Sig(p, fv, declared, vd),
							Clause: "the validator accepts a value iff it satisfies the declared rules", Input: input,
							Got:    map[string]any{"validator_accepts": vd.Accept, "violations": vd.Ids}, Want: map[string]any{"declared_rules_satisfied": declared}})
					}
					pairs = append(pairs, fmt.Sprintf("(%s, %s, %s)", fv.Coq(), vt, specTerm(judged, declared)))
					if len(implVals) < 6 {
						implVals = append(implVals, map[string]any{"value": fv.String(), "validator": vd.String()})
					}
				}
			} else {
				res.Count("compile-failed")
				if !refused(p.Class) {
					res.Count("compile-failed-unexpected")
					res.Fail(vh.Failure{Case: caseNo, Stream: "compile", Sig: "C12 valid field declaration does not compile: " + firstWords(ur.note, 10),
						Clause: "for all valid j5s field declarations (the declaration compiles)", Input: map[string]any{"j5s": p.P.J5S(env)}, Got: ur.note})
				}
			}
			cf.Terms = append(cf.Terms, fmt.Sprintf("C12Case %s %d %s %s [%s]", env.Coq(), idx, dterm, ur.obs[i], strings.Join(pairs, ";")))
			res.Cases = append(res.Cases, vh.CaseRec{Case: caseNo, Stream: "decl", Input: map[string]any{"j5s": p.P.J5S(env), "class": p.Class, "index": idx},
				Impl: map[string]any{"emitted": ur.obs[i], "verdicts": implVals, "note": ur.note}})
			if p.Class == "" && ur.ok[i] {
				res.Sample(map[string]any{"j5s": p.P.J5S(env), "emitted": ur.obs[i], "verdicts": implVals}, 6)
			}
			caseNo++
		}
	}

	genMapExt = true
	defer func() { genMapExt = false }()
	for u := 0; u < nUnits; u++ {
		genAST = r.Chance(25)
		env = theEnum
		if r.Chance(30) {
			env = theEnumZ
			res.Count("unit-explicit-zero-option")
		}
		var props []genDecl
		switch {
		case u == 0:
			env = theEnumZ
			props = pinnedC12()
			res.Count("unit-pinned")
		case u <= len(oddFirst):
			// a first option that merely ends in UNSPECIFIED, the enum declared next to the
			// object / in another file of the package / in an imported package
			env = oddEnum(oddFirst[u-1], u-1)
			props = pinnedOddC12(env)
			res.Count("unit-pinned")
		default:
			if r.Chance(20) {
				env = oddEnum(vh.Pick(r, oddFirst), 0)
			}
			if r.Chance(30) {
				env.Where = 1 + r.Intn(2)
			}
		}
		if len(env.Options) > 0 && strings.HasSuffix(env.Options[0], "UNSPECIFIED") {
			res.Count("unit-first-option-ends-in-unspecified")
		}
		if env.Where != 0 {
			genAST = false // several source files: text path
			res.Count([...]string{"", "unit-enum-in-another-file", "unit-enum-in-imported-package"}[env.Where])
		}
		if genAST {
			res.Count("unit-via-ast")
		}
		for i, n := 0, r.Range(2, 6); i < n && u > 0; i++ {
			scope := "c12"
			if r.Chance(12) {
				scope = "all"
			}
			props = append(props, genProp(r, propName(r, i), scope, env))
		}
		// declarations expected not to compile go alone; so do those with an
		// ill-formed pattern (they make every message of their type unvalidatable,
		// which would hide the verdicts on the other fields)
		var together []genDecl
		var units [][]genDecl
		for _, p := range props {
			if refused(p.Class) {
				units = append(units, []genDecl{p})
			} else {
				together = append(together, p)
			}
		}
		if len(together) > 0 {
			units = append([][]genDecl{together}, units...)
		}
		for _, up := range units {
			for _, ur := range compileProps(env, up) {
				messages(ur)
				fields(ur)
			}
		}
	}
	// ---- the regular-expression engine on its own: the Coq parser + derivative matcher
	// against Go's regexp (which CEL's matches() uses), on expressions of the fragment,
	// on ill-formed ones, and on texts around their languages
	genMapExt = false
	rr := cfg.R.Fork("C12Re")
	for i, n := 0, cfg.Scale(260, 4000); i < n; i++ {
		var pat string
		switch {
		case i < len(patterns):
			pat = patterns[i]
		case i < len(patterns)+len(badPatterns):
			pat = badPatterns[i-len(patterns)]
		case i == len(patterns)+len(badPatterns):
			pat = id62.PatternString
		case rr.Chance(15):
			pat = genBadPattern(rr)
		default:
			pat = genPattern(rr)
		}
		re, cerr := regexp.Compile(pat)
		var pairs []string
		var shown []map[string]any
		if cerr == nil {
			texts := patternTexts(rr, pat)
			if _, ok := patAST[pat]; !ok {
				texts = patternStrings(rr, pat)
			}
			for _, s := range texts {
				m := re.MatchString(s)
				evals++
				pairs = append(pairs, fmt.Sprintf("(%s, %s)", vh.RunesTerm(s), vh.BoolTerm(m)))
				if len(shown) < 5 {
					shown = append(shown, map[string]any{"text": s, "match": m})
				}
				if m {
					res.Count("regex-match")
				} else {
					res.Count("regex-nomatch")
				}
			}
			res.Count("regex-compiles")
		} else {
			res.Count("regex-refused")
		}
		cf.Terms = append(cf.Terms, fmt.Sprintf("C12Re %s %s [%s]", vh.RunesTerm(pat), vh.BoolTerm(cerr == nil), strings.Join(pairs, ";")))
		res.Cases = append(res.Cases, vh.CaseRec{Case: caseNo, Stream: "regex", Input: map[string]any{"pattern": pat}, Impl: map[string]any{"compiles": cerr == nil, "matches": shown}})
		caseNo++
	}
	runNestedC12(cfg.R.Fork("C12-nested"), cfg, val, res, cf, &caseNo, &evals)
	runOneofC12(cfg.R.Fork("C12-oneof"), cfg, val, res, cf, &caseNo, &evals)
	res.Evaluations = evals
	res.Distinct = len(distinct)
	per := 400
	shards, err := cf.WriteShards(cfg.Out, "cases", per)
	if err != nil {
		return err
	}
	for i := range res.Cases {
		res.Cases[i].Shard = fmt.Sprintf("cases_%d", i/per)
		res.Cases[i].Pos = i % per
	}
	res.Shards = shards
	return res.Write(cfg.Out)
}

func firstWords(s string, n int) string {
	w := strings.Fields(s)
	if len(w) > n {
		w = w[:n]
	}
	return strings.Join(w, " ")
}

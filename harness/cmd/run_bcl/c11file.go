package main

// C11 stream `humanfile`: diagnostics of OTHER producers than the bare parser, rendered by the real
// ErrorsWithSource.HumanString: the j5s lint entry point (protobuild.LintFile through lib/verifshim/compile)
// returns the parser's diagnostics with a file name (errpos.AddSourceFile / setFilenames) and the
// diagnostics of the schema walk (internal/bcl ParseAST) with a file name AND a context path (err.Ctx).
// Each is emitted as CHumanTextG (file name, positions, context path, message read from the returned
// *ErrorsWithSource) and the whole text is compared byte for byte with BclErrposGen.human_text_g_bytes.

import (
	"context"
	"fmt"
	"strings"
	"time"

	"github.com/pentops/j5/lib/verifshim/compile"
	"verifharness/vh"
)

var humanFileTemplates = []string{
	"package foo.v1\n\nobject Foo {\n\tfield a string\n\tfield b = \n}\n",
	"package foo.v1\n\nobject Foo {\n\tfield a strin\n}\n",
	"package foo.v1\n\nobject Foo {\n\tbogus x\n}\n",
	"package foo.v1\n\nobject Foo {\n\tfield a string {\n\t\trequired = zzz\n\t}\n}\n",
	"package foo.v1\n\nobject Foo {\n\t| déscription \U0001F600\n\tfield a string {\n\t\trequired = zzz\n\t}\n}\n",
	"package foo.v1\n\nobject Foo {\n\tfield a integer:INT32 {\n\t\trules.minimum = \"x\"\n\t\trules.nope = 1\n\t}\n}\n",
	"package foo.v1\n\nenum Bar {\n\toption A\n\toption B {\n\t\tnope = 1\n\t}\n}\n",
	"package foo.v1\n\nobject Foo {\n\tfield a object:Nope\n\tfield a string\n}\n}\n",
	"package foo.v1\n\noneof Foo {\n\toption a object {\n\t\tfield x key:id62 {\n\t\t\tprimary = 7\n\t\t}\n\t}\n}\n",
	"package foo.v1\n\"unterminated\n",
	"package foo.v1\n\nobject Foo {\n\tfield a string // c\n\tfield b ? string\n}\n",
	"package foo.v1\n\nentity Foo {\n\tkey id key:id62 {\n\t\tprimary = maybe\n\t}\n}\n",
}

type humanFileObs struct {
	ok    bool
	text  string
	items []string
	desc  string
	ctx   bool
	file  bool
}

func runHumanFile(cfg *vh.Config, cf *vh.CasesFile, res *vh.Result, caseNo *int, r *vh.Rand) {
	n := cfg.Scale(60, 1500)
	for i := 0; i < n; i++ {
		src := humanFileTemplates[i%len(humanFileTemplates)]
		if i >= len(humanFileTemplates) {
			src = mutate(r, src)
		}
		name := vh.Pick(r, []string{"foo/v1/a.j5s", "foo/v1/long_name-2.j5s", "foo/v1/ü.j5s"})
		ctxN := r.Intn(4)
		g := guard(20*time.Second, func() humanFileObs {
			set, err := compile.NewSet(&compile.Files{Content: map[string]string{name: src}}, nil)
			if err != nil {
				return humanFileObs{}
			}
			ws, _ := set.LintFile(context.Background(), name, src)
			if ws == nil || len(ws.Errors) == 0 {
				return humanFileObs{}
			}
			o := humanFileObs{ok: true}
			for _, e := range ws.Errors {
				posT := "None"
				if e.Pos != nil {
					fnT := "None"
					if e.Pos.Filename != nil {
						o.file = true
						fnT = "(Some " + vh.BytesTerm(*e.Pos.Filename) + ")"
					}
					posT = fmt.Sprintf("(Some (%s,(%s,%s),(%s,%s)))", fnT, zlit(e.Pos.Start.Line), zlit(e.Pos.Start.Column), zlit(e.Pos.End.Line), zlit(e.Pos.End.Column))
				}
				ctxT := "None"
				if e.Ctx != nil {
					o.ctx = true
					parts := make([]string, 0, len(e.Ctx))
					for _, p := range e.Ctx {
						parts = append(parts, vh.BytesTerm(p))
					}
					ctxT = "(Some " + listTerm(parts) + ")"
				}
				msgT := "None"
				if e.Err != nil {
					msgT = "(Some " + vh.BytesTerm(e.Err.Error()) + ")"
				}
				o.items = append(o.items, fmt.Sprintf("(%s,%s,%s)", posT, ctxT, msgT))
				o.desc += fmt.Sprintf(" [pos=%v ctx=%v]", e.Pos, []string(e.Ctx))
			}
			o.text = ws.HumanString(ctxN)
			return o
		})
		inS := fmt.Sprintf("LintFile(%q, %q) context=%d", name, src, ctxN)
		switch {
		case g.Panic != nil || g.Timeout:
			msg := fmt.Sprint(g.Panic)
			if strings.Contains(msg, "HumanString") || strings.Contains(msg, "errpos") {
				res.Fail(vh.Failure{Case: *caseNo, Stream: "humanfile", Sig: "C11 HumanString panic: " + panicClass(g.Panic), Clause: "rendering diagnostics against the source never fails", Input: inS, Got: msg})
			} else {
				res.Count("humanfile_lint_failed")
			}
		case !g.Val.ok:
			res.Count("humanfile_no_diagnostics")
		default:
			res.Count("human_file")
			if g.Val.ctx {
				res.Count("human_file_with_context_path")
			}
			if g.Val.file {
				res.Count("human_file_with_file_name")
			}
			cf.Terms = append(cf.Terms, fmt.Sprintf("CHumanTextG %s %s %s %s", vh.BytesTerm(src), zlit(ctxN), listTerm(g.Val.items), vh.BytesTerm(g.Val.text)))
			res.Cases = append(res.Cases, vh.CaseRec{Case: *caseNo, Stream: "humanfile", Input: inS + g.Val.desc, Impl: g.Val.text})
		}
		*caseNo++
	}
}

package main

import (
	"context"
	"fmt"
	"os"
	"path/filepath"
	"strings"
	"time"

	"github.com/pentops/j5/cmd/j5/verifcli"
	"github.com/pentops/j5/lib/verifshim/bcl"
	"verifharness/vh"
)

func init() { vh.Register("C09", runC09) }

type fmtObs struct {
	out string
	err error
}

// fmtPropertyFails checks C09's clauses for one (source, formatted) pair of a source the parser accepts:
// "" when they hold, else which one fails.
func fmtPropertyFails(src, out string) string {
	p1 := guard(5*time.Second, func() bcl.ParseResult { return bcl.ParseFile(src, true) })
	if p1.Panic != nil || p1.Timeout || p1.Val.ErrKind != "" || p1.Val.TreeNil {
		return "" // not a source the parser accepts
	}
	p2 := guard(5*time.Second, func() bcl.ParseResult { return bcl.ParseFile(out, true) })
	if p2.Panic != nil || p2.Timeout || p2.Val.ErrKind != "" || p2.Val.TreeNil {
		return "rejected by the parser"
	}
	d1, ok1 := docOf(src)
	d2, ok2 := docOf(out)
	if !ok1 || !ok2 || strings.Join(d1, "\n") != strings.Join(d2, "\n") {
		return "denotes a different document"
	}
	if again, err := bcl.FmtPublic(out); err != nil || again != out {
		return "formatting twice changes the text"
	}
	return ""
}

func runC09(cfg *vh.Config) error {
	res := vh.NewResult("C09", cfg.Seed)
	res.Rule = "inputs: formatter templates (escapable and non-ASCII string contents, regexes with slashes, nested arrays, inline/block comments, multi-line descriptions, blank-line and indentation patterns), the repository's .j5s/.bcl/fixture files, grammar-generated files (1/5 mutated), windows of repository files, random <=3-token sequences, a pinned byte-level corpus (valid 2/3/4-byte characters, Unicode spaces, every kind of invalid UTF-8, in every literal kind and position), pinned templates for empty arrays, runs of empty description lines, shared-line fragments and trailing multi-line comments; plus the write path (j5 j5s fmt --file/--dir --write on temporary files that are longer, shorter and equal to the formatted text); plus the command's write decision on file trees (names separating walk order from string order, look-alike extensions, a rejected file at a chosen walk position, --file / --dir / both / missing, with and without --write) compared with model/BclCli.run_fmt; plus direct ties of tokenSource and reformatDescription on random literals; non-trivial = distinct input the parser accepts with at least one statement"
	cf := &vh.CasesFile{
		Header: "From Coq Require Import String List NArith ZArith.\nFrom J5V.model Require Import BclFmtCorr.",
		Type:   "fmtcase",
		Check:  "fmt_check",
	}
	distinct := vh.Distinct{}
	caseNo := 0
	r := cfg.R
	inputs := fmtInputs(cfg, "c09", cfg.Scale(800, 25000), cfg.Scale(350, 12000), cfg.Scale(200, 8000))
	for _, in := range inputs {
		src := in.src
		inS := fmt.Sprintf("%q", src)
		res.Count("input_" + in.stream)
		fg := guard(5*time.Second, func() fmtObs { o, err := bcl.Fmt(src); return fmtObs{o, err} })
		pr := guard(5*time.Second, func() bcl.ParseResult { return bcl.ParseFile(src, true) })
		parserAccepts := pr.Panic == nil && !pr.Timeout && pr.Val.ErrKind == "" && !pr.Val.TreeNil
		if fg.Panic != nil || fg.Timeout {
			res.Fail(vh.Failure{Case: caseNo, Stream: in.stream, Sig: "C09 Fmt panic: " + panicClass(fg.Panic), Clause: "the formatter's output is accepted by the parser", Input: inS, Got: fmt.Sprint(fg.Panic)})
			caseNo++
			continue
		}
		ok := fg.Val.err == nil
		out := fg.Val.out
		if parserAccepts {
			res.Count("parser_accepts")
			if strings.TrimSpace(out) != "" {
				distinct.Add(src)
			}
			if !ok {
				res.Fail(vh.Failure{Case: caseNo, Stream: in.stream, Sig: "C09 formatter rejects a file the parser accepts", Clause: "for every source file the parser accepts", Input: inS, Got: fg.Val.err.Error()})
			} else {
				p2 := guard(5*time.Second, func() bcl.ParseResult { return bcl.ParseFile(out, true) })
				if p2.Panic != nil || p2.Timeout || p2.Val.ErrKind != "" || p2.Val.TreeNil {
					res.Fail(vh.Failure{Case: caseNo, Stream: in.stream, Sig: "C09 formatter output rejected by the parser", Clause: "the formatter's output is accepted by the parser", Input: inS, Got: fmt.Sprintf("%q: %s", out, p2.Val.ErrText)})
				} else {
					d1, ok1 := docOf(src)
					d2, ok2 := docOf(out)
					if !ok1 || !ok2 || strings.Join(d1, "\n") != strings.Join(d2, "\n") {
						first := ""
						for i := 0; i < len(d1) || i < len(d2); i++ {
							a, b := "", ""
							if i < len(d1) {
								a = d1[i]
							}
							if i < len(d2) {
								b = d2[i]
							}
							if a != b {
								first = fmt.Sprintf("statement %d: %s  ->  %s", i, a, b)
								break
							}
						}
						res.Fail(vh.Failure{Case: caseNo, Stream: in.stream, Sig: "C09 formatter output denotes a different document", Clause: "denotes the same document", Input: inS, Got: first})
					}
				}
				f2 := guard(5*time.Second, func() fmtObs { o, err := bcl.Fmt(out); return fmtObs{o, err} })
				if f2.Panic != nil || f2.Val.err != nil || f2.Val.out != out {
					res.Fail(vh.Failure{Case: caseNo, Stream: in.stream, Sig: "C09 formatting twice changes the text", Clause: "formatting the output a second time changes nothing", Input: inS, Got: fmt.Sprintf("%q then %q (err %v)", out, f2.Val.out, f2.Val.err)})
				}
			}
		} else if ok {
			res.Count("formatter_only_accepts")
		} else {
			res.Count("rejected")
		}
		if in.emit {
			cf.Terms = append(cf.Terms, fmt.Sprintf("CFmt %s %s %s", vh.BytesTerm(src), vh.BoolTerm(ok), vh.BytesTerm(out)))
			res.Cases = append(res.Cases, vh.CaseRec{Case: caseNo, Stream: in.stream, Input: inS, Impl: map[string]any{"ok": ok, "out": out}})
			if ok && len(src) < 50 && out != src {
				res.Sample(map[string]any{"input": src, "formatted": out}, 8)
			}
		}
		caseNo++
	}

	// ---- the write path: `j5 j5s fmt --write` (runJ5sFmt) on real files. What is left on disk must be exactly
	// the formatter's output (shorter, longer or equal to what was there), and a second run must leave it alone.
	{
		tmp, err := os.MkdirTemp("", "c09write")
		if err != nil {
			return err
		}
		defer os.RemoveAll(tmp)
		type wcase struct{ src, want, stream string }
		var wcases []wcase
		budget := cfg.Scale(150, 3000)
		for _, in := range inputs {
			if len(wcases) >= budget {
				break
			}
			// the command formats with internal/bcl.Fmt (a wrapper of parser.Fmt): that is what must end up in the file
			if o, err := bcl.FmtPublic(in.src); err == nil {
				wcases = append(wcases, wcase{in.src, o, in.stream})
				if po, perr := bcl.Fmt(in.src); perr != nil || po != o {
					// the wrapper changes the text: the property must hold for what it returns
					res.Count("wrapper_differs")
					if why := fmtPropertyFails(in.src, o); why != "" {
						res.Fail(vh.Failure{Case: caseNo, Stream: "write", Sig: "C09 bcl.Fmt (the command's formatter) output: " + why, Clause: "the formatter's output is accepted by the parser and denotes the same document; formatting twice changes nothing", Input: fmt.Sprintf("%q", in.src), Got: fmt.Sprintf("%q", o)})
					}
				}
				// the same file with trailing blank lines and spaces: the formatted text is shorter than the file
				padded := in.src + "\n\n   \n\t\n\n"
				if o2, err := bcl.FmtPublic(padded); err == nil && len(wcases) < budget {
					wcases = append(wcases, wcase{padded, o2, in.stream})
				}
			}
		}
		readBack := func(p string) string { b, _ := os.ReadFile(p); return string(b) }
		for i, wc := range wcases {
			res.Count("write_file")
			p := filepath.Join(tmp, fmt.Sprintf("f%d.j5s", i))
			if err := os.WriteFile(p, []byte(wc.src), 0644); err != nil {
				return err
			}
			inS := fmt.Sprintf("fmt --file --write on %q", wc.src)
			wg := guard(10*time.Second, func() error { return verifcli.J5sFmt(context.Background(), "", p, true) })
			switch {
			case wg.Panic != nil || wg.Timeout:
				res.Fail(vh.Failure{Case: caseNo, Stream: "write", Sig: "C09 fmt --write panic: " + panicClass(wg.Panic), Clause: "fmt --write replaces the file content with the formatter's output", Input: inS, Got: fmt.Sprint(wg.Panic)})
			case wg.Val != nil:
				res.Fail(vh.Failure{Case: caseNo, Stream: "write", Sig: "C09 fmt --write fails on a file the formatter accepts", Clause: "fmt --write replaces the file content with the formatter's output", Input: inS, Got: wg.Val.Error()})
			default:
				if got := readBack(p); got != wc.want {
					res.Fail(vh.Failure{Case: caseNo, Stream: "write", Sig: "C09 fmt --write leaves a file that is not the formatter's output", Clause: "the formatter's output (as fmt --write leaves it in the file) is accepted by the parser and denotes the same document", Input: inS, Got: fmt.Sprintf("%q", got), Want: fmt.Sprintf("%q", wc.want)})
				} else {
					wg2 := guard(10*time.Second, func() error { return verifcli.J5sFmt(context.Background(), "", p, true) })
					if got2 := readBack(p); wg2.Panic != nil || wg2.Val != nil || got2 != wc.want {
						res.Fail(vh.Failure{Case: caseNo, Stream: "write", Sig: "C09 a second fmt --write changes the file", Clause: "formatting the output a second time changes nothing", Input: inS, Got: fmt.Sprintf("%q (err %v)", got2, wg2.Val)})
					}
				}
			}
			_ = os.Remove(p)
			caseNo++
		}
		// --dir --write: every .j5s file below the directory, also in sub-directories; other files untouched
		nDir := cfg.Scale(8, 120)
		for k := 0; k < nDir && len(wcases) >= 3; k++ {
			res.Count("write_dir")
			d := filepath.Join(tmp, fmt.Sprintf("d%d", k))
			_ = os.MkdirAll(filepath.Join(d, "sub", "deeper"), 0755)
			pick := []wcase{wcases[(3*k)%len(wcases)], wcases[(3*k+1)%len(wcases)], wcases[(3*k+2)%len(wcases)]}
			paths := []string{filepath.Join(d, "a.j5s"), filepath.Join(d, "sub", "b.j5s"), filepath.Join(d, "sub", "deeper", "c.j5s")}
			for i, pc := range pick {
				_ = os.WriteFile(paths[i], []byte(pc.src), 0644)
			}
			other := filepath.Join(d, "sub", "notes.txt")
			_ = os.WriteFile(other, []byte("x   =   1\n"), 0644)
			inS := fmt.Sprintf("fmt --dir --write on %q, sub/%q, sub/deeper/%q", pick[0].src, pick[1].src, pick[2].src)
			wg := guard(20*time.Second, func() error { return verifcli.J5sFmt(context.Background(), d, "", true) })
			switch {
			case wg.Panic != nil || wg.Timeout:
				res.Fail(vh.Failure{Case: caseNo, Stream: "write", Sig: "C09 fmt --write panic: " + panicClass(wg.Panic), Clause: "fmt --write replaces the file content with the formatter's output", Input: inS, Got: fmt.Sprint(wg.Panic)})
			case wg.Val != nil:
				res.Fail(vh.Failure{Case: caseNo, Stream: "write", Sig: "C09 fmt --write fails on a file the formatter accepts", Clause: "fmt --write replaces the file content with the formatter's output", Input: inS, Got: wg.Val.Error()})
			default:
				for i, pc := range pick {
					if got := readBack(paths[i]); got != pc.want {
						res.Fail(vh.Failure{Case: caseNo, Stream: "write", Sig: "C09 fmt --write leaves a file that is not the formatter's output", Clause: "the formatter's output (as fmt --write leaves it in the file) is accepted by the parser and denotes the same document", Input: inS, Got: fmt.Sprintf("file %d: %q", i, got), Want: fmt.Sprintf("%q", pc.want)})
						break
					}
				}
				if readBack(other) != "x   =   1\n" {
					res.Fail(vh.Failure{Case: caseNo, Stream: "write", Sig: "C09 fmt --write touched a file that is not a .j5s source", Clause: "fmt --write replaces the file content with the formatter's output", Input: inS, Got: readBack(other)})
				}
			}
			_ = os.RemoveAll(d)
			caseNo++
		}
	}

	// ---- the write decision of the command against model/BclCli.v (stream cli)
	{
		var good []string
		for _, in := range inputs {
			if len(good) >= 60 {
				break
			}
			if _, err := bcl.FmtPublic(in.src); err == nil && len(in.src) > 0 && len(in.src) < 400 {
				good = append(good, in.src)
			}
		}
		if err := runCliStream(cfg, res, cf, &caseNo, good); err != nil {
			return err
		}
	}

	// ---- direct ties: tokenSource and reformatDescription
	litPieces := []string{"a", "b c", "\\", "\"", "\n", "/", "//", "*", "*/", "é", "日本", "\t", " ", "​", "\U0001F600", "\x01", "|", " ", "'"}
	for i := 0; i < cfg.Scale(300, 8000); i++ {
		ty := vh.Pick(r, []int{5, 6, 6, 6, 7, 7, 8, 9, 10, 11, 12, 13, 16, 17, 25, 0, 3})
		var sb strings.Builder
		for k := r.Range(0, 5); k > 0; k-- {
			sb.WriteString(vh.Pick(r, litPieces))
		}
		lit := sb.String()
		got := bcl.TokenSource(ty, lit)
		res.Count("token_source")
		cf.Terms = append(cf.Terms, fmt.Sprintf("CTokSrc %d %s %s", ty, vh.RunesTerm(lit), vh.RunesTerm(got)))
		res.Cases = append(res.Cases, vh.CaseRec{Case: caseNo, Stream: "tokensource", Input: fmt.Sprintf("type %d %q", ty, lit), Impl: got})
		caseNo++
	}
	words := []string{"a", "word", "Description", "é", "日本語", "x  y", "tab\tin", "nb sp", strings.Repeat("W", 40), strings.Repeat("V", 78), strings.Repeat("U", 81), "", " ", "  "}
	for i := 0; i < cfg.Scale(300, 8000); i++ {
		var lines []string
		for k := r.Range(1, 5); k > 0; k-- {
			var ws []string
			for j := r.Range(0, 12); j > 0; j-- {
				ws = append(ws, vh.Pick(r, words))
			}
			lines = append(lines, strings.Join(ws, " "))
		}
		in := strings.Join(lines, "\n")
		w := vh.Pick(r, []int{80, 76, 72, 40, 10, 0, -4})
		got := bcl.ReformatDescription(in, w)
		res.Count("reflow")
		// the re-flow is a fixed point: feeding its own output back gives the same lines
		again := bcl.ReformatDescription(strings.Join(got, "\n"), w)
		if strings.Join(again, "\n") != strings.Join(got, "\n") {
			res.Fail(vh.Failure{Case: caseNo, Stream: "reflow", Sig: "C09 description re-flow is not a fixed point", Clause: "formatting the output a second time changes nothing", Input: fmt.Sprintf("%q width %d", in, w), Got: fmt.Sprintf("%q then %q", got, again)})
		}
		cf.Terms = append(cf.Terms, fmt.Sprintf("CReflow %s %s %s", vh.RunesTerm(in), zlit(w), linesTerm(got)))
		res.Cases = append(res.Cases, vh.CaseRec{Case: caseNo, Stream: "reflow", Input: fmt.Sprintf("%q width %d", in, w), Impl: got})
		caseNo++
	}

	res.Evaluations = caseNo
	res.Distinct = len(distinct)
	const per = 400
	shards, err := cf.WriteShards(cfg.Out, "cases", per)
	if err != nil {
		return err
	}
	for i := range res.Cases {
		res.Cases[i].Shard = fmt.Sprintf("cases_%d", i/per)
		res.Cases[i].Pos = i % per
	}
	res.Shards = shards
	return res.Write(cfg.Out)
}

package main

// C11 stream "covguided": a deterministic coverage-guided corpus for parser.ParseFile.
//
// The runner binary is not built with -cover (its build flags are shared by every family), so
// the coverage feedback loop runs in a verif-tagged test of the repository,
// /repo/internal/bcl/verifbcl/verifcov_test.go (TestVerifCoverage). Once per run the runner
// writes the seed inputs (the repository corpus, grammar-generated files, the lexTails inputs
// and the persistent corpus testdata/c11_cov_corpus.txt) to a file and runs
//
//	go test -tags verif -count=1 -run TestVerifCoverage -coverpkg=<parser>,<errpos> -coverprofile=<out>/cov_profile.txt ./internal/bcl/verifbcl/
//
// in the repository. The test parses every seed, then VERIF_COV_MUTANTS mutants of seeds and of
// inputs already kept (byte flip/insert/delete, token insertion, splice of two inputs, truncation,
// duplication, line windows; math/rand seeded from VERIF_SEED), in both modes and with the
// diagnostics rendered, and keeps an input iff testing.Coverage() (fraction of basic blocks of the
// two packages reached so far) strictly increased. The kept inputs and every input of the
// persistent corpus then go through the ordinary C11 oracle and (a bounded number in the quick
// tier) through the Coq correspondence. The cover profile gives the statement / function coverage
// that ends up in evidence/C11.json (cov_* keys of the distribution, two notes).
//
// Nothing is written inside the repository: seeds, kept corpus and profile live in cfg.Out.
// If go test cannot be built or run in time the stream degrades to the persistent corpus, the
// run says so (note "coverage-guided stream unavailable: ...", counter covguided_unavailable)
// and the check is not failed by that.
//
// To refresh the persistent corpus after the parser changed:
//
//	VERIF_COV_MUTANTS=800000 .build/bin/run_bcl -prop C11 -tier quick -seed 7 -out /tmp/x     (about 90 s; several seeds)
//	grep -v '^[cl#]' /tmp/x/cov_kept.txt | cut -f2 | awk 'length($0) < 700' >> harness/cmd/run_bcl/testdata/c11_cov_corpus.txt   (then sort -u)
//
// Coverage reached (unchanged from 20,000 to 1,500,000 mutants, seeds 1, 2, 3, 7, 8, 9): 467 of the 503
// statements of lexer.go / token.go / parser.go / errors.go / expressions.go / file.go. The other 36 cannot
// be reached from ParseFile by any input (line numbers of /repo 11b0ed7; the evidence note "statement
// blocks ... not reached" lists the current ones: a block in it that is not explained here is an input class the corpus lost):
//
//	lexer.go:104-106   AllTokens `if !ok { return nil, false, err }`: NextToken only returns errors built by
//	                   Lexer.errf, which are *errpos.Err, so errpos.AsError cannot fail.
//	lexer.go:220-226   NextToken `if keyword, ok := asKeyword(lit); ok`: the keyword table is empty (all four
//	                   keywords are commented out in token.go); with it token.go:138-140 (Token.String keyword arm),
//	                   167-169 (init loop over keywords), 179-181 (asKeyword hit).
//	parser.go:15-17    ParseFile "unexpected lexer error": see lexer.go:104.
//	parser.go:27       ParseFile "unexpected walk error" and parser.go:133-134 fragmentsToFile "unexpected fragment
//	                   type": nextFragment produces only the five fragment types of the switch, so Walk returns nil or HadErrors.
//	parser.go:155-157  currentPos `if w.offset == 0`: every caller has popped a token before.
//	parser.go:164-166  popToken past the end `if eofToken.Type == EOF`: AllTokens drops the EOF token, so the token list
//	                   never ends in EOF (the synthetic-EOF arm below it is the one that runs).
//	parser.go:234-236  nextFragment `case EOF`: walkFragments tests nextType() == EOF before calling it.
//	parser.go:266-268  nextFragment `if err != nil` after popDescription, which has no failing return.
//	parser.go:286-288  popType mismatch and parser.go:643-645 its handling in walkValueAssign: both callers of
//	                   walkValueAssign have just seen ASSIGN as the next token.
//	parser.go:472-474  popTag STRING arm `if err != nil`: popValue on a STRING token takes the literal arm.
//	parser.go:593-595  walkStatement COMMENT arm `if err != nil`: a line comment runs to the end of the line, so the
//	                   token after COMMENT is EOL or the end of input.
//	token.go:155-157   TokenType.String "token(N)": only for the unnamed marker types (literal_beg, ...), never produced.
//	token.go:202-220   IsKeyword (func), IsIdentifier; errors.go:28-32 unexpectedTokenError.Error (addError uses msg()),
//	                   errors.go:62-64 WithoutPosition (errpos.AsErrors calls it only for errors that are not *errpos.Err);
//	                   expressions.go:16-34 Ident.String / GoString / AsStringValue, 56-58 Reference.GoString, 64-66
//	                   Reference.AsString; file.go:27-29 TypeError.Error: no caller on the ParseFile path (schema layer,
//	                   value conversions, %#v printing).
//
// statements.go, value.go, description.go, fmt.go (AST accessors, value conversions, the formatter: C09 / C19 and the
// schema layer) are other entry points and stay at 0 here. In package errpos ParseFile + HumanString reach 93 of 217
// statements; the rest is error decoration (AddContext, AddPosition, AddFilename, AddSourceFile, MustAddSource,
// Errors.Append, ...) and, in humanString, the arms for a diagnostic without position, with a context, or with a
// line / column outside the source: reaching one of those from ParseFile would itself be a C11 violation
// (the oracle checks it directly; stream 5 drives them through bcl.HumanStringOf with arbitrary positions).

import (
	"bufio"
	"bytes"
	"context"
	_ "embed"
	"fmt"
	"go/ast"
	goparser "go/parser"
	"go/token"
	"os"
	"os/exec"
	"path/filepath"
	"sort"
	"strconv"
	"strings"
	"syscall"
	"time"

	"verifharness/vh"
)

//go:embed testdata/c11_cov_corpus.txt
var covPersistent string

const (
	covModule    = "github.com/pentops/j5/"
	covPkgParser = "github.com/pentops/j5/internal/bcl/internal/parser"
	covPkgErrpos = "github.com/pentops/j5/internal/bcl/errpos"
)

// the files C11 is about; the rest of package parser (fmt.go, description.go, statements.go, value.go)
// is reported too but belongs to other entry points
var covCoreFiles = map[string]bool{"lexer.go": true, "token.go": true, "parser.go": true, "errors.go": true, "expressions.go": true, "file.go": true}

type covInput struct {
	src  string
	emit bool
}

type covSeed struct{ tag, src string }

func covPersistentInputs() []string {
	var out []string
	for _, line := range strings.Split(covPersistent, "\n") {
		line = strings.TrimSpace(line)
		if line == "" || line[0] == '#' {
			continue
		}
		if s, err := strconv.Unquote(line); err == nil {
			out = append(out, s)
		}
	}
	return out
}

// covGuided returns the inputs of stream "covguided" and records the coverage figures in res.
func covGuided(cfg *vh.Config, res *vh.Result, corpus []string) []covInput {
	persistent := covPersistentInputs()
	res.Rule += "; coverage-guided: the inputs (lexer sub-automaton inputs, grammar files, repository files, a pinned corpus, and mutants of all of these) that reached a basic block of packages parser / errpos no earlier input reached, measured by testing.Coverage under go test -coverpkg"
	kept, err := covRun(cfg, res, corpus, persistent)
	if err != nil {
		res.Count("covguided_unavailable")
		res.Notes = append(res.Notes, "coverage-guided stream unavailable: "+clip(err.Error(), 600))
		kept = nil
	}
	// the stream: what this run kept (mutants first: they are new), then everything pinned earlier
	seen := map[string]bool{}
	var ordered []covSeed
	add := func(tag, src string) {
		if !seen[src] {
			seen[src] = true
			ordered = append(ordered, covSeed{tag, src})
		}
	}
	for _, k := range kept {
		if strings.Contains(k.tag, "!") { // panicked / did not terminate in the test: the oracle must see it
			add(k.tag, k.src)
		}
	}
	for _, k := range kept {
		if k.tag == "m" {
			add(k.tag, k.src)
		}
	}
	for _, k := range kept {
		add(k.tag, k.src)
	}
	for _, p := range persistent {
		add("p", p)
	}
	budget := cfg.Scale(150, 1<<30)
	var out []covInput
	for _, k := range ordered {
		// long inputs go through the oracle only (the 10,001-deep array of the pinned corpus is far beyond what the
		// model evaluates in Coq in reasonable time; stream 4c emits the 1,500-deep one)
		e := budget > 0 && len(k.src) <= cfg.Scale(600, 4000)
		if e {
			budget--
			res.Count("covguided_emitted")
		}
		res.Count("covguided_inputs")
		out = append(out, covInput{k.src, e})
	}
	res.Distribution["cov_persistent_inputs"] = len(persistent)
	return out
}

func covRun(cfg *vh.Config, res *vh.Result, corpus, persistent []string) ([]covSeed, error) {
	started := time.Now()
	// ---- seeds (d): lexTails, persistent corpus, grammar files, repository corpus; short inputs first, so that
	// the blocks a short input reaches are credited to it and not to a whole file
	var seeds []covSeed
	for _, s := range lexTails() {
		seeds = append(seeds, covSeed{"l", s})
	}
	for _, s := range persistent {
		seeds = append(seeds, covSeed{"p", s})
	}
	g := &srcGen{r: cfg.R.Fork("covguided")}
	for i := 0; i < 200; i++ {
		seeds = append(seeds, covSeed{"g", g.file(5)})
	}
	for _, s := range corpus {
		seeds = append(seeds, covSeed{"c", s})
	}
	sort.SliceStable(seeds, func(i, j int) bool { return len(seeds[i].src) < len(seeds[j].src) })
	inPath := filepath.Join(cfg.Out, "cov_seeds.txt")
	keptPath := filepath.Join(cfg.Out, "cov_kept.txt")
	profPath := filepath.Join(cfg.Out, "cov_profile.txt")
	for _, p := range []string{keptPath, profPath} {
		_ = os.Remove(p)
	}
	var sb strings.Builder
	for _, s := range seeds {
		fmt.Fprintf(&sb, "%s\t%q\n", s.tag, s.src)
	}
	if err := os.WriteFile(inPath, []byte(sb.String()), 0o644); err != nil {
		return nil, err
	}
	mutants := cfg.Scale(20000, 200000)
	if v, err := strconv.Atoi(os.Getenv("VERIF_COV_MUTANTS")); err == nil && v >= 0 {
		mutants = v
	}
	res.Distribution["cov_seed_inputs"] = len(seeds)

	// ---- the feedback loop, in the repository's test binary
	env := covEnv(
		"VERIF_COV_INPUTS="+inPath, "VERIF_COV_OUT="+keptPath,
		fmt.Sprintf("VERIF_SEED=%d", cfg.Seed), fmt.Sprintf("VERIF_COV_MUTANTS=%d", mutants))
	out, err := covExec(120*time.Second, env, "go", "test", "-tags", "verif", "-count=1", "-timeout", "110s", "-run", "^TestVerifCoverage$", "-v",
		"-coverpkg="+covPkgParser+","+covPkgErrpos, "-coverprofile="+profPath, "./internal/bcl/verifbcl/")
	if err != nil {
		return nil, fmt.Errorf("go test in %s: %v: %s", repoDir(), err, clip(tailOf(out, 400), 400))
	}
	if !strings.Contains(out, "--- PASS: TestVerifCoverage") {
		return nil, fmt.Errorf("TestVerifCoverage did not run (is internal/bcl/verifbcl/verifcov_test.go present in %s?): %s", repoDir(), clip(tailOf(out, 300), 300))
	}
	kept, summary, err := covReadKept(keptPath)
	if err != nil {
		return nil, err
	}
	for _, k := range []string{"mutants", "kept", "kept_seeds", "kept_mutants", "panics", "timeouts"} {
		if v, err := strconv.Atoi(summary[k]); err == nil {
			res.Distribution["cov_"+k] = v
		}
	}
	if summary["budget_exhausted"] == "1" {
		res.Count("covguided_budget_exhausted")
		res.Notes = append(res.Notes, "coverage-guided mutation loop cut short by its wall-clock budget after "+summary["mutants"]+" mutants (the kept corpus of this run depends on machine load)")
	}
	res.Distribution["cov_rounds"] = 1 + mutants // one pass over the seeds, then one greedy step per mutant
	byTag := map[string]int{}
	for _, k := range kept {
		byTag[k.tag]++
	}
	for t, n := range byTag {
		res.Distribution["cov_kept_from_"+covTagName(t)] = n
	}

	// ---- the profile
	if err := covReport(res, profPath, env); err != nil {
		// the corpus is still good; only the figures are missing
		res.Count("covguided_profile_unavailable")
		res.Notes = append(res.Notes, "coverage profile unavailable: "+clip(err.Error(), 400))
	}
	res.Distribution["cov_wall_ms"] = int(time.Since(started).Milliseconds())
	res.Notes = append(res.Notes, fmt.Sprintf("coverage-guided corpus: %d seed inputs, %d mutants, %d kept (%s); block coverage by testing.Coverage %s -> %s (seeds) -> %s (mutants)",
		len(seeds), mutants, len(kept), covTagSummary(byTag), summary["coverage_start"], summary["coverage_seeds"], summary["coverage_end"]))
	for i, k := range kept {
		if i%7 == 0 && len(k.src) > 0 && len(k.src) < 60 && k.tag == "m" {
			res.Sample(map[string]any{"stream": "covguided", "input": k.src, "kept": "mutant that reached a new basic block"}, 14)
		}
	}
	return kept, nil
}

func covTagName(t string) string {
	base, st, _ := strings.Cut(t, "!")
	n := map[string]string{"l": "lextail", "p": "persistent", "g": "grammar", "c": "corpus", "m": "mutant"}[base]
	if n == "" {
		n = base
	}
	if st != "" {
		n += "_" + st
	}
	return n
}

func covTagSummary(byTag map[string]int) string {
	var ks []string
	for t := range byTag {
		ks = append(ks, t)
	}
	sort.Strings(ks)
	var parts []string
	for _, t := range ks {
		parts = append(parts, fmt.Sprintf("%s %d", covTagName(t), byTag[t]))
	}
	return strings.Join(parts, ", ")
}

func tailOf(s string, n int) string {
	s = strings.TrimSpace(s)
	if len(s) > n {
		return s[len(s)-n:]
	}
	return s
}

// covEnv: the only Go environment that builds this repository (see BUILDING.md)
func covEnv(extra ...string) []string {
	var env []string
	for _, kv := range os.Environ() {
		k, _, _ := strings.Cut(kv, "=")
		switch k {
		case "GOTOOLCHAIN", "GOSUMDB", "GOFLAGS", "GOPROXY", "VERIF_SEED", "VERIF_COV_INPUTS", "VERIF_COV_OUT", "VERIF_COV_MUTANTS":
			continue
		}
		env = append(env, kv)
	}
	env = append(env, "GOFLAGS=-mod=mod", "GOPROXY=off")
	return append(env, extra...)
}

// covExec runs a command in the repository, in its own process group, killed as a group at the deadline.
func covExec(d time.Duration, env []string, name string, args ...string) (string, error) {
	ctx, cancel := context.WithTimeout(context.Background(), d)
	defer cancel()
	cmd := exec.Command(name, args...)
	cmd.Dir = repoDir()
	cmd.Env = env
	cmd.SysProcAttr = &syscall.SysProcAttr{Setpgid: true}
	var buf bytes.Buffer
	cmd.Stdout, cmd.Stderr = &buf, &buf
	if err := cmd.Start(); err != nil {
		return "", err
	}
	done := make(chan error, 1)
	go func() { done <- cmd.Wait() }()
	select {
	case err := <-done:
		return buf.String(), err
	case <-ctx.Done():
		_ = syscall.Kill(-cmd.Process.Pid, syscall.SIGKILL)
		<-done
		return buf.String(), fmt.Errorf("no result after %v", d)
	}
}

func covReadKept(path string) ([]covSeed, map[string]string, error) {
	f, err := os.Open(path)
	if err != nil {
		return nil, nil, err
	}
	defer f.Close()
	summary := map[string]string{}
	var kept []covSeed
	sc := bufio.NewScanner(f)
	sc.Buffer(make([]byte, 1<<20), 1<<26)
	for sc.Scan() {
		line := sc.Text()
		if line == "" {
			continue
		}
		if line[0] == '#' {
			k, v, _ := strings.Cut(line[1:], " ")
			summary[k] = v
			continue
		}
		tag, q, ok := strings.Cut(line, "\t")
		if !ok {
			return nil, nil, fmt.Errorf("%s: malformed line %q", path, clip(line, 60))
		}
		s, err := strconv.Unquote(q)
		if err != nil {
			return nil, nil, fmt.Errorf("%s: %v", path, err)
		}
		kept = append(kept, covSeed{tag, s})
	}
	if _, ok := summary["kept"]; !ok {
		return nil, nil, fmt.Errorf("%s: no summary (the test did not finish)", path)
	}
	return kept, summary, sc.Err()
}

// ---- cover profile -> statement and function coverage per package and file

type covBlock struct {
	file           string // import path of the file
	l0, c0, l1, c1 int
	stmts, count   int
}

func covParseProfile(path string) ([]covBlock, error) {
	b, err := os.ReadFile(path)
	if err != nil {
		return nil, err
	}
	// a block can appear more than once; merge by position
	idx := map[string]int{}
	var out []covBlock
	for i, line := range strings.Split(string(b), "\n") {
		if i == 0 || line == "" {
			continue
		}
		// file:startLine.startCol,endLine.endCol numStmts count
		colon := strings.LastIndex(line, ":")
		if colon < 0 {
			return nil, fmt.Errorf("%s:%d: malformed", path, i+1)
		}
		var bl covBlock
		bl.file = line[:colon]
		if _, err := fmt.Sscanf(line[colon+1:], "%d.%d,%d.%d %d %d", &bl.l0, &bl.c0, &bl.l1, &bl.c1, &bl.stmts, &bl.count); err != nil {
			return nil, fmt.Errorf("%s:%d: %v", path, i+1, err)
		}
		key := line[:strings.Index(line, " ")]
		if j, ok := idx[key]; ok {
			out[j].count += bl.count
			continue
		}
		idx[key] = len(out)
		out = append(out, bl)
	}
	return out, nil
}

func covPkgKey(file string) string {
	switch filepath.ToSlash(filepath.Dir(file)) {
	case covPkgParser:
		return "parser"
	case covPkgErrpos:
		return "errpos"
	}
	return strings.ReplaceAll(strings.TrimPrefix(filepath.Dir(file), covModule), "/", "_")
}

// covFuncNames maps "line" -> "Recv.Name" for the function declarations of one source file.
func covFuncNames(file string) map[int]string {
	out := map[int]string{}
	path := filepath.Join(repoDir(), strings.TrimPrefix(file, covModule))
	fset := token.NewFileSet()
	f, err := goparser.ParseFile(fset, path, nil, goparser.SkipObjectResolution)
	if err != nil {
		return out
	}
	for _, d := range f.Decls {
		fd, ok := d.(*ast.FuncDecl)
		if !ok {
			continue
		}
		name := fd.Name.Name
		if fd.Recv != nil && len(fd.Recv.List) == 1 {
			t := fd.Recv.List[0].Type
			if st, ok := t.(*ast.StarExpr); ok {
				t = st.X
			}
			if id, ok := t.(*ast.Ident); ok {
				name = id.Name + "." + name
			}
		}
		out[fset.Position(fd.Pos()).Line] = name
	}
	return out
}

func covReport(res *vh.Result, profPath string, env []string) error {
	blocks, err := covParseProfile(profPath)
	if err != nil {
		return err
	}
	if len(blocks) == 0 {
		return fmt.Errorf("empty cover profile")
	}
	type agg struct{ cov, tot int }
	pkgS, fileS, coreS := map[string]*agg{}, map[string]*agg{}, &agg{}
	get := func(m map[string]*agg, k string) *agg {
		if m[k] == nil {
			m[k] = &agg{}
		}
		return m[k]
	}
	var uncoveredCore []string
	for _, b := range blocks {
		base := filepath.Base(b.file)
		pk := covPkgKey(b.file)
		fa := get(fileS, pk+"/"+base)
		fa.tot += b.stmts
		if b.count > 0 {
			fa.cov += b.stmts
		}
		if base == "verif_export.go" { // the verification facade inside package parser: not repository code
			continue
		}
		pa := get(pkgS, pk)
		pa.tot += b.stmts
		if b.count > 0 {
			pa.cov += b.stmts
		}
		if pk == "parser" && covCoreFiles[base] {
			coreS.tot += b.stmts
			if b.count > 0 {
				coreS.cov += b.stmts
			} else if b.stmts > 0 {
				uncoveredCore = append(uncoveredCore, fmt.Sprintf("%s:%d-%d", base, b.l0, b.l1))
			}
		}
	}
	for k, a := range pkgS {
		res.Distribution["cov_stmts_covered_"+k] = a.cov
		res.Distribution["cov_stmts_total_"+k] = a.tot
	}
	for k, a := range fileS {
		res.Distribution["cov_stmts_covered_"+k] = a.cov
		res.Distribution["cov_stmts_total_"+k] = a.tot
	}
	res.Distribution["cov_stmts_covered_parser_core"] = coreS.cov
	res.Distribution["cov_stmts_total_parser_core"] = coreS.tot

	// functions: go tool cover -func
	out, err := covExec(60*time.Second, env, "go", "tool", "cover", "-func="+profPath)
	if err != nil {
		return fmt.Errorf("go tool cover -func: %v: %s", err, tailOf(out, 200))
	}
	pkgF, fileF := map[string]*agg{}, map[string]*agg{}
	names := map[string]map[int]string{}
	var uncovCore, uncovOther []string
	for _, line := range strings.Split(out, "\n") {
		fs := strings.Fields(line)
		if len(fs) != 3 || !strings.HasSuffix(fs[2], "%") || !strings.HasSuffix(fs[0], ":") {
			continue // also the "total:" line
		}
		loc := strings.Split(strings.TrimSuffix(fs[0], ":"), ":") // file:line
		if len(loc) != 2 {
			continue
		}
		file, base := loc[0], filepath.Base(loc[0])
		ln, _ := strconv.Atoi(loc[1])
		pct, _ := strconv.ParseFloat(strings.TrimSuffix(fs[2], "%"), 64)
		pk := covPkgKey(file)
		fa := get(fileF, pk+"/"+base)
		fa.tot++
		if pct > 0 {
			fa.cov++
		}
		if base == "verif_export.go" {
			continue
		}
		pa := get(pkgF, pk)
		pa.tot++
		if pct > 0 {
			pa.cov++
			continue
		}
		if names[file] == nil {
			names[file] = covFuncNames(file)
		}
		name := names[file][ln]
		if name == "" {
			name = fs[1]
		}
		if pk == "parser" && covCoreFiles[base] {
			uncovCore = append(uncovCore, base+":"+name)
		} else {
			uncovOther = append(uncovOther, pk+"/"+base+":"+name)
		}
	}
	if len(pkgF) == 0 {
		return fmt.Errorf("go tool cover -func printed no functions: %s", tailOf(out, 200))
	}
	for k, a := range pkgF {
		res.Distribution["cov_funcs_covered_"+k] = a.cov
		res.Distribution["cov_funcs_total_"+k] = a.tot
	}
	for k, a := range fileF {
		res.Distribution["cov_funcs_covered_"+k] = a.cov
		res.Distribution["cov_funcs_total_"+k] = a.tot
	}
	res.Notes = append(res.Notes,
		fmt.Sprintf("functions not reached by ParseFile + HumanString under the covguided corpus: in lexer/token/parser/errors/expressions/file.go: %s; elsewhere in packages parser and errpos (other entry points: formatter, value conversions, AST accessors, error decoration): %s (verif_export.go is left out of the package totals)",
			strings.Join(uncovCore, " "), strings.Join(uncovOther, " ")),
		fmt.Sprintf("statement blocks of lexer/token/parser/errors/expressions/file.go not reached (file:lines): %s", strings.Join(uncoveredCore, " ")))
	return nil
}

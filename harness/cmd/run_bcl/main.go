// run_bcl: implementation runner for the bcl family (C11, C19, C09).
package main

import "verifharness/vh"

func main() { vh.Main() }

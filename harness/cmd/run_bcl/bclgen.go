package main

// Shared by the bcl-family runners: corpus loading, input generators and
// Coq term emitters for positions, tokens and node dumps.

import (
	"fmt"
	"os"
	"path/filepath"
	"sort"
	"strings"
	"time"

	"github.com/pentops/j5/lib/verifshim/bcl"
	"verifharness/vh"
)

func repoDir() string {
	if d := os.Getenv("VERIF_REPO"); d != "" {
		return d
	}
	return "/repo"
}

// corpus: the repository's own BCL / j5s sources and the formatter fixtures.
func loadCorpus() []string {
	var files []string
	root := repoDir()
	_ = filepath.Walk(root, func(p string, info os.FileInfo, err error) error {
		if err != nil {
			return nil
		}
		if info.IsDir() {
			if info.Name() == ".git" || info.Name() == "node_modules" {
				return filepath.SkipDir
			}
			return nil
		}
		if strings.HasSuffix(p, ".j5s") || strings.HasSuffix(p, ".bcl") ||
			(strings.Contains(p, "internal/bcl/internal/parser/testdata") && strings.HasSuffix(p, ".txt")) {
			files = append(files, p)
		}
		return nil
	})
	sort.Strings(files)
	var out []string
	for _, f := range files {
		b, err := os.ReadFile(f)
		if err == nil && len(b) < 64*1024 {
			out = append(out, string(b))
		}
	}
	return out
}

// the token alphabet, each with a canonical literal (24 entries): every token
// type the lexer can emit, a space, a character no token starts with, and an
// unterminated string.
var alphabet = []string{
	"\n", "ab", "\"s\"", "/r/", "12", "1.5", "true", "// c", "/* b */", "| d",
	"=", "{", "}", "[", "]", ".", ",", ":", "+", "!", "?",
	" ", "#", "\"u",
}


// lexTails: every sub-automaton of the lexer (string, regex, block comment, line comment,
// description, number, identifier, stray character) crossed with every way its literal can
// continue and end: closed, cut by a newline, cut by the end of input (no final newline),
// with valid escapes, an invalid escape, a lone backslash at the end. These are the inputs on
// which a lexer loop can fail to stop or report a position past the end.
func lexTails() []string {
	var out []string
	bodies := []string{"", "x", "é b"}
	for _, q := range []string{"\"", "/"} { // string and regex share the shape open, body, escapes, close
		escs := []string{"", "\\\\", "\\" + q, "\\\n", "\\q", "\\é", "\\"}
		if q == "/" {
			escs = []string{"", "//", "\\/", "\\q", "\\"}
		}
		for _, b1 := range bodies {
			if q == "/" && b1 == "" {
				continue // "//" is a comment
			}
			for _, e := range escs {
				for _, b2 := range []string{"", "y"} {
					for _, end := range []string{q, "", "\n", q + "\n", q + q} {
						out = append(out, q+b1+e+b2+end)
					}
				}
			}
		}
	}
	for _, b := range []string{"", "c", "*", "/", "c\nd", "**", "*/x"} {
		for _, end := range []string{"*/", "", "*", "\n", "*/\n"} {
			out = append(out, "/*"+b+end)
		}
	}
	for _, lead := range []string{"//", "|", "| ", "|\t"} {
		for _, b := range []string{"", "c", "é", "c  ", "\"", "/*"} {
			for _, end := range []string{"", "\n", "\r\n"} {
				out = append(out, lead+b+end)
			}
		}
	}
	for _, n := range []string{"1", "1.", "1.2", "1.2.", "1..", "1.2.3", ".5", "1e5", "٣", "1_0", "-1"} {
		for _, end := range []string{"", "\n", " ", "a"} {
			out = append(out, n+end)
		}
	}
	for _, c := range []string{"#", "@", "-", "$", "\\", "'", "\x00", "\xff", "\u2028"} {
		for _, end := range []string{"", "\n", "a"} {
			out = append(out, c+end)
		}
	}
	return out
}

// all sequences over the alphabet of length <= n, rendered with sep between tokens
func sequences(n int, sep string) []string {
	out := []string{""}
	level := []string{""}
	for k := 1; k <= n; k++ {
		var next []string
		for _, p := range level {
			for _, a := range alphabet {
				if k == 1 {
					next = append(next, a)
				} else {
					next = append(next, p+sep+a)
				}
			}
		}
		out = append(out, next...)
		level = next
	}
	return out
}

var insertable = []string{
	"\n", " ", "\t", "ab", "x.y", "\"s\"", "\"a\\\"b\"", "\"a\\\\\"", "\"a\\\nb\"", "/r/", "/a//b/", "12", "1.5", "1.2.3", "true", "false",
	"// c", "/* b */", "/* m\nl */", "/*", "| d", "|", "=", "+=", "{", "}", "[", "]", ".", ",", ":", "+", "!", "?", "#", "\"", "\\", "/",
	"é", "日本", " ", " ", "٣", "\U0001F600", "\xff", "\xe2\x82", "\r", "\x00", "\v", "_", "true.x", "a_1",
}

// splitPieces cuts a source text into rough tokens (runs of word characters,
// single other characters), keeping whitespace as pieces, for token-level mutation.
func splitPieces(s string) []string {
	var out []string
	cur := ""
	flush := func() {
		if cur != "" {
			out = append(out, cur)
			cur = ""
		}
	}
	inStr := false
	for _, r := range s {
		c := string(r)
		if inStr {
			cur += c
			if r == '"' && !strings.HasSuffix(cur, "\\\"") {
				inStr = false
				flush()
			}
			continue
		}
		switch {
		case r == '"':
			flush()
			cur = c
			inStr = true
		case r == '_' || r >= 0x80 || (r >= '0' && r <= '9') || (r >= 'a' && r <= 'z') || (r >= 'A' && r <= 'Z'):
			cur += c
		default:
			flush()
			out = append(out, c)
		}
	}
	flush()
	return out
}

// window picks a run of 1..maxLines consecutive lines of a corpus file.
func window(r *vh.Rand, file string, maxLines int) string {
	lines := strings.SplitAfter(file, "\n")
	if len(lines) == 0 {
		return ""
	}
	n := r.Range(1, maxLines)
	i := r.Intn(len(lines))
	j := i + n
	if j > len(lines) {
		j = len(lines)
	}
	return strings.Join(lines[i:j], "")
}

// mutate applies 1..3 token-level mutations (deletion, insertion, swap, duplication,
// truncation, multi-byte character at a line end).
func mutate(r *vh.Rand, src string) string {
	p := splitPieces(src)
	for k := r.Range(1, 3); k > 0; k-- {
		if len(p) == 0 {
			p = []string{vh.Pick(r, insertable)}
			continue
		}
		i := r.Intn(len(p))
		switch r.Intn(7) {
		case 0: // delete
			p = append(p[:i:i], p[i+1:]...)
		case 1, 2: // insert
			q := append([]string{}, p[:i]...)
			q = append(q, vh.Pick(r, insertable))
			p = append(q, p[i:]...)
		case 3: // swap
			j := r.Intn(len(p))
			p[i], p[j] = p[j], p[i]
		case 4: // duplicate
			q := append([]string{}, p[:i]...)
			q = append(q, p[i])
			p = append(q, p[i:]...)
		case 5: // truncate
			p = p[:i]
		case 6: // multi-byte character before a newline
			for j := i; j < len(p); j++ {
				if p[j] == "\n" {
					p[j] = vh.Pick(r, []string{"é", "日", "\U0001F600", " ", "\xff"}) + "\n"
					break
				}
			}
		}
	}
	return strings.Join(p, "")
}

// randomSoup concatenates random insertable pieces.
func randomSoup(r *vh.Rand, maxPieces int) string {
	var sb strings.Builder
	for k := r.Range(0, maxPieces); k > 0; k-- {
		sb.WriteString(vh.Pick(r, insertable))
		if r.Chance(35) {
			sb.WriteString(" ")
		}
	}
	return sb.String()
}

// ---- a grammar-based generator of mostly valid source ------------------------

type srcGen struct {
	r *vh.Rand
}

func (g *srcGen) ident() string {
	return vh.Pick(g.r, []string{"a", "b", "foo", "bar_1", "object", "field", "true", "false", "é1", "x9", "Name", "k"})
}

func (g *srcGen) ref() string {
	n := 1
	if g.r.Chance(30) {
		n = g.r.Range(2, 3)
	}
	parts := make([]string, n)
	for i := range parts {
		parts[i] = g.ident()
	}
	sep := "."
	if g.r.Chance(8) {
		sep = " . "
	}
	return strings.Join(parts, sep)
}

func (g *srcGen) strLit() string {
	pieces := []string{"a", "b c", "value", "\\\\", "\\\"", "\\\n", "é", "日本", "\t", " ", "​", "\U0001F600", "/", "//", "*", "|", "{", "#", "\r", "\x01", "'"}
	if g.r.Chance(12) { // the escaped newline as the only escape
		return "\"" + vh.Pick(g.r, []string{"a", "line one", ""}) + "\\\n" + vh.Pick(g.r, []string{"b", "line two", "", "c\\\nd"}) + "\""
	}
	var sb strings.Builder
	sb.WriteString("\"")
	for k := g.r.Range(0, 4); k > 0; k-- {
		sb.WriteString(vh.Pick(g.r, pieces))
	}
	sb.WriteString("\"")
	return sb.String()
}

func (g *srcGen) regexLit() string {
	pieces := []string{"a", "b+", "[a-z]", "//", "\\d", "\\/", "é", " ", "*", "\"", "\\", "^x$", "|"}
	var sb strings.Builder
	sb.WriteString("/")
	first := vh.Pick(g.r, []string{"a", "^", "[", "\\", "x"})
	sb.WriteString(first)
	for k := g.r.Range(0, 4); k > 0; k-- {
		sb.WriteString(vh.Pick(g.r, pieces))
	}
	sb.WriteString("/")
	return sb.String()
}

func (g *srcGen) value(depth int) string {
	switch g.r.Intn(12) {
	case 0, 1, 2:
		return g.strLit()
	case 3:
		return g.regexLit()
	case 4:
		return vh.Pick(g.r, []string{"0", "1", "42", "007", "٣", "123456789012345678901234567890"})
	case 5:
		return vh.Pick(g.r, []string{"1.5", "0.0", "3.", "10.25"})
	case 6:
		return vh.Pick(g.r, []string{"true", "false"})
	case 7:
		return g.ref()
	case 8:
		return "/* " + vh.Pick(g.r, []string{"c", "multi\nline", "*", ""}) + " */"
	default:
		if depth >= 3 {
			return "[]"
		}
		n := g.r.Range(0, 4)
		parts := make([]string, n)
		for i := range parts {
			parts[i] = g.value(depth + 1)
		}
		sep := vh.Pick(g.r, []string{", ", ",", " , ", ",  "})
		return "[" + strings.Join(parts, sep) + "]"
	}
}

func (g *srcGen) ws() string {
	return vh.Pick(g.r, []string{" ", " ", " ", "  ", "\t", ""})
}

func (g *srcGen) sp() string { // mandatory separation
	return vh.Pick(g.r, []string{" ", " ", "  ", "\t"})
}

func (g *srcGen) trailer() string {
	switch g.r.Intn(6) {
	case 0:
		return g.ws() + "// " + vh.Pick(g.r, []string{"c", "comment  ", "é", ""})
	case 1:
		return g.ws()
	}
	return ""
}

func (g *srcGen) tag() string {
	mark := ""
	if g.r.Chance(15) {
		mark = vh.Pick(g.r, []string{"!", "?", "! ", "? "})
	}
	if g.r.Chance(30) {
		return mark + g.strLit()
	}
	return mark + g.ref()
}

func (g *srcGen) descLine() string {
	words := []string{"word", "a", "Description", "over", "multiple", "lines", "é", "tab\tin", "x  y", strings.Repeat("W", 40), strings.Repeat("V", 78), strings.Repeat("L", 85), strings.Repeat("K", 130)}
	var parts []string
	for k := g.r.Range(0, 14); k > 0; k-- {
		parts = append(parts, vh.Pick(g.r, words))
	}
	s := strings.Join(parts, vh.Pick(g.r, []string{" ", " ", "  "}))
	if g.r.Chance(15) {
		s += "   "
	}
	return "|" + g.ws() + s
}

func (g *srcGen) statement(indent string, depth int, sb *strings.Builder) {
	r := g.r
	switch r.Intn(14) {
	case 0, 1, 2, 3: // assignment
		op := vh.Pick(r, []string{"=", "=", "+=", " = ", " += ", "= ", " ="})
		sb.WriteString(indent + g.ref() + op + g.value(0) + g.trailer() + "\n")
	case 4, 5, 6: // block
		hdr := g.ref()
		for k := r.Intn(3); k > 0; k-- {
			hdr += g.sp() + g.tag()
		}
		for k := r.Intn(3) / 2; k > 0; k-- {
			hdr += g.ws() + ":" + g.ws() + g.tag()
		}
		switch r.Intn(6) {
		case 0: // declaration only
			sb.WriteString(indent + hdr + g.trailer() + "\n")
		case 1: // with description
			sb.WriteString(indent + hdr + g.ws() + g.descLine() + "\n")
		default:
			sb.WriteString(indent + hdr + g.ws() + "{" + g.trailer() + "\n")
			if depth < 3 {
				for k := r.Intn(4); k > 0; k-- {
					g.statement(indent+vh.Pick(r, []string{"\t", "  ", ""}), depth+1, sb)
				}
			}
			sb.WriteString(indent + "}" + vh.Pick(r, []string{"", "", "", " // c", " }"}) + "\n")
		}
	case 7, 8: // description block
		for k := r.Range(1, 4); k > 0; k-- {
			if r.Chance(20) {
				sb.WriteString(indent + "|\n")
			} else {
				sb.WriteString(indent + g.descLine() + "\n")
			}
		}
	case 9: // comments
		sb.WriteString(indent + vh.Pick(r, []string{"// standalone", "//", "/* block */", "/* multi\n line */", "/* a */ // b"}) + "\n")
	case 10, 11: // blank lines
		sb.WriteString(vh.Pick(r, []string{"\n", "\n\n", "  \n", "\t\n\n"}))
	case 12: // two statements on one line
		sb.WriteString(indent + "/* c */ " + g.ref() + " = " + g.value(1) + "\n")
	case 13:
		sb.WriteString(indent + g.ref() + " = " + g.value(0))
		if r.Chance(50) {
			sb.WriteString("\n")
		}
	}
}

func (g *srcGen) file(maxStatements int) string {
	var sb strings.Builder
	if g.r.Chance(15) {
		sb.WriteString(vh.Pick(g.r, []string{"\n", "\n\n", " \n"}))
	}
	for k := g.r.Range(0, maxStatements); k > 0; k-- {
		g.statement("", 0, &sb)
	}
	s := sb.String()
	if g.r.Chance(10) {
		s = strings.TrimRight(s, "\n")
	}
	if g.r.Chance(10) {
		s += vh.Pick(g.r, []string{"\n", "\n\n", "  ", "\n \n"})
	}
	return s
}

// ---- Coq terms ---------------------------------------------------------------------

func posTerm(p bcl.Point) string {
	return fmt.Sprintf("(%s,%s)", zlit(p.Line), zlit(p.Column))
}

func zlit(v int) string {
	if v < 0 {
		return fmt.Sprintf("(%d)%%Z", v)
	}
	return fmt.Sprintf("%d%%Z", v)
}

func tokTerm(t bcl.Tok) string {
	return fmt.Sprintf("(%d,%s,%s,%s)", t.Type, vh.RunesTerm(t.Lit), posTerm(t.Start), posTerm(t.End))
}

func listTerm(items []string) string { return "[" + strings.Join(items, ";") + "]" }

func diagsTerm(ds []bcl.Diag) string {
	items := make([]string, len(ds))
	for i, d := range ds {
		items[i] = fmt.Sprintf("(%s,%s,%s)", posTerm(d.Start), posTerm(d.End), vh.BytesTerm(d.Msg))
	}
	return listTerm(items)
}

type pnode struct {
	Kind       int
	Start, End bcl.Point
}

func nodesTerm(ns []pnode) string {
	items := make([]string, len(ns))
	for i, n := range ns {
		items[i] = fmt.Sprintf("(%d,%s,%s)", n.Kind, posTerm(n.Start), posTerm(n.End))
	}
	return listTerm(items)
}

// node dumps, in the order of coq/model/BclParser.v (ref_nodes, value_nodes, ...)
func refNodes(r bcl.Ref) []pnode {
	out := []pnode{{6, r.Start, r.End}}
	for _, id := range r.Idents {
		out = append(out, pnode{7, id.Start, id.End})
	}
	return out
}

func valueNodes(v bcl.Value) []pnode {
	if !v.IsArray {
		return []pnode{{9, v.Start, v.End}, {17, v.Tok.Start, v.Tok.End}} // the value and Value.token
	}
	out := []pnode{{10, v.Start, v.End}}
	for _, e := range v.Elems {
		out = append(out, valueNodes(e)...)
	}
	return out
}

func tagNodes(t bcl.Tag) []pnode {
	out := []pnode{{8, t.Start, t.End}}
	if t.Mark != 0 {
		out = append(out, pnode{15, t.MarkTok.Start, t.MarkTok.End}) // TagValue.MarkToken
	}
	if t.HasRef {
		out = append(out, refNodes(t.Ref)...)
	} else if t.HasValue {
		out = append(out, valueNodes(t.Value)...)
	}
	return out
}

func commentNodes(f bcl.Frag) []pnode {
	if f.HasComment {
		return []pnode{{11, f.Comment.Start, f.Comment.End}}
	}
	return nil
}

func headerNodes(f bcl.Frag) []pnode {
	out := []pnode{{1, f.Start, f.End}}
	out = append(out, refNodes(f.Type)...)
	for _, t := range f.Tags {
		out = append(out, tagNodes(t)...)
	}
	for _, t := range f.Quals {
		out = append(out, tagNodes(t)...)
	}
	if f.HasDesc {
		out = append(out, descNodes(12, *f.Desc)...)
	}
	return append(out, commentNodes(f)...)
}

// a description (3 as a statement, 12 in a header) and its Tokens
func descNodes(kind int, f bcl.Frag) []pnode {
	out := []pnode{{kind, f.Start, f.End}}
	for _, t := range f.DescToks {
		out = append(out, pnode{16, t.Start, t.End})
	}
	return out
}

func assignNodes(f bcl.Frag) []pnode {
	out := []pnode{{2, f.Start, f.End}}
	out = append(out, refNodes(f.Key)...)
	out = append(out, valueNodes(f.Value)...)
	return append(out, commentNodes(f)...)
}

func fragNodes(f bcl.Frag) []pnode {
	switch f.Kind {
	case "header":
		return headerNodes(f)
	case "assign":
		return assignNodes(f)
	case "desc":
		return descNodes(3, f)
	case "comment":
		return []pnode{{4, f.Start, f.End}}
	case "close":
		return []pnode{{5, f.Start, f.End}}
	}
	return []pnode{{99, f.Start, f.End}}
}

// stmtNodes flattens a tree node in the model's order (header nodes, 13, the body, 14) with an
// explicit stack: block nesting of any depth (10^6 in stream deepblocks) must not overflow the stack
// here, and appending the children into one slice keeps it linear.
func stmtNodes(f bcl.Frag) []pnode {
	var out []pnode
	type frame struct {
		body []bcl.Frag
		idx  int
	}
	stack := []frame{{body: []bcl.Frag{f}}}
	for len(stack) > 0 {
		top := &stack[len(stack)-1]
		if top.idx == len(top.body) {
			stack = stack[:len(stack)-1]
			if len(stack) > 0 {
				out = append(out, pnode{14, bcl.Point{}, bcl.Point{}})
			}
			continue
		}
		x := top.body[top.idx]
		top.idx++
		switch x.Kind {
		case "block":
			out = append(out, headerNodes(x)...)
			out = append(out, pnode{13, bcl.Point{}, bcl.Point{}})
			stack = append(stack, frame{body: x.Body})
		case "assign":
			out = append(out, assignNodes(x)...)
		case "desc":
			out = append(out, descNodes(3, x)...)
		default:
			out = append(out, pnode{99, x.Start, x.End})
		}
	}
	return out
}

// ---- running things under recover and a deadline ---------------------------------------

type guarded[T any] struct {
	Val     T
	Panic   any
	Timeout bool
}

func guard[T any](d time.Duration, f func() T) guarded[T] {
	ch := make(chan guarded[T], 1)
	go func() {
		var g guarded[T]
		defer func() {
			if r := recover(); r != nil {
				g.Panic = r
			}
			ch <- g
		}()
		g.Val = f()
	}()
	select {
	case g := <-ch:
		return g
	case <-time.After(d):
		return guarded[T]{Timeout: true}
	}
}

func clip(s string, n int) string {
	if len(s) > n {
		return s[:n] + "..."
	}
	return s
}

// utf8Corpus: a pinned corpus for the byte level of C09 / C11 / C19. Every literal kind and several
// grammatical positions hold valid multi-byte characters (2, 3, 4 bytes, U+FFFD itself, a BOM, the Unicode
// spaces NEL / NBSP / U+2028 that the lexer skips as white space, U+200B that it does not) and every kind of
// invalid UTF-8 ([]rune reads each bad byte as U+FFFD: lone continuation, 0xFF, truncated 2/3/4-byte
// sequences, overlong C0 80, a surrogate ED A0 80, beyond U+10FFFF), also at the end of a line and of the file.
func utf8Corpus() []string {
	pieces := []string{
		"\u00e9", "\u65e5\u672c", "\U0001F600", "\ufffd", "\ufeff", "\u0085", "\u00a0", "\u2028", "\u200b",
		"\xff", "\x80", "\xc3", "\xe2\x82", "\xf0\x9f\x98", "\xc0\x80", "\xed\xa0\x80", "\xf4\x90\x80\x80",
		"a\xffb\U0001F600\xc3",
	}
	var out []string
	for _, p := range pieces {
		out = append(out,
			"x = \""+p+"\"\n",
			"x = 1 // "+p+"\ny = 2\n",
			"/* "+p+" */\nx = 1\n",
			"| "+p+" word "+p+"\n| second\n",
			"x = /"+p+"/\n",
			"a \""+p+"\" {\n\tk = [\""+p+"\", 1]\n}",
			"x = 1 "+p+"\n",
			p+" = 1\n",
			"b {\n| "+p+"\n}\n"+p,
		)
	}
	return out
}

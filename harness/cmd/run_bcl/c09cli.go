package main

import (
	"context"
	"fmt"
	"os"
	"path/filepath"
	"sort"
	"strings"
	"time"

	"github.com/pentops/j5/cmd/j5/verifcli"
	"github.com/pentops/j5/lib/verifshim/bcl"
	"verifharness/vh"
)

// C09 stream "cli": the write decision of `j5 j5s fmt` (runJ5sFmt) against model/BclCli.v. Each scenario is a
// small file tree (names chosen so that fs.WalkDir order, string order and the model's component order can be
// told apart; a directory whose name ends in .j5s; names that only look like sources) holding sources the
// formatter accepts and one it rejects at a chosen position of the walk; the real command runs on it
// (--dir / --file / both, with and without --write) and the tree left on disk, with the exit status, is one
// correspondence case. The oracle side: a file the command did not report must be exactly Fmt's output
// (or untouched when it is not a visited source), nothing else may appear or disappear.
type cliFile struct{ path, data string }

var cliNames = []string{
	"a.j5s", "a/b.j5s", "a-/q.j5s", "a.j5s.bak", ".j5s", "sub/notes.txt", "sub/x.j5s", "sub/deeper/c.j5s",
	"b.J5S", "z.j5s", "dir.j5s/inner.j5s", "dir.j5s/readme", "sub/x.j5s~", "m.j5s", "sub.j5s",
}

func pathTerm(rel string) string {
	var cs []string
	for _, c := range strings.Split(rel, "/") {
		cs = append(cs, vh.BytesTerm(c))
	}
	return "[" + strings.Join(cs, "; ") + "]"
}

func treeTerm(fs []cliFile) string {
	var es []string
	for _, f := range fs {
		es = append(es, fmt.Sprintf("(%s, %s)", pathTerm(f.path), vh.BytesTerm(f.data)))
	}
	return "[" + strings.Join(es, "; ") + "]"
}

func readTree(root string) []cliFile {
	var out []cliFile
	_ = filepath.Walk(root, func(p string, info os.FileInfo, err error) error {
		if err != nil || info.IsDir() {
			return nil
		}
		rel, _ := filepath.Rel(root, p)
		b, _ := os.ReadFile(p)
		out = append(out, cliFile{filepath.ToSlash(rel), string(b)})
		return nil
	})
	sort.Slice(out, func(i, j int) bool { return out[i].path < out[j].path })
	return out
}

func runCliStream(cfg *vh.Config, res *vh.Result, cf *vh.CasesFile, caseNo *int, good []string) error {
	r := cfg.R.Fork("cli")
	tmp, err := os.MkdirTemp("", "c09cli")
	if err != nil {
		return err
	}
	defer os.RemoveAll(tmp)
	bad := []string{"x = = 1\n", "a = \"unterminated\n", "}\n{\n", "x = #\n"}
	var rejected []string
	for _, b := range bad {
		if _, err := bcl.FmtPublic(b); err != nil {
			rejected = append(rejected, b)
		}
	}
	if len(good) < 3 || len(rejected) == 0 {
		return nil
	}
	n := cfg.Scale(40, 400)
	for k := 0; k < n; k++ {
		// the tree: 4-9 files, distinct names, no name that is both a file and a directory
		names := append([]string(nil), cliNames...)
		for i := len(names) - 1; i > 0; i-- {
			j := r.Intn(i + 1)
			names[i], names[j] = names[j], names[i]
		}
		var files []cliFile
		want := r.Range(4, 9)
		isDir := map[string]bool{}
		isFile := map[string]bool{}
		for _, nm := range names {
			if len(files) >= want {
				break
			}
			ok := !isDir[nm]
			parts := strings.Split(nm, "/")
			for i := 1; i < len(parts); i++ {
				if isFile[strings.Join(parts[:i], "/")] {
					ok = false
				}
			}
			if !ok {
				continue
			}
			for i := 1; i < len(parts); i++ {
				isDir[strings.Join(parts[:i], "/")] = true
			}
			isFile[nm] = true
			data := vh.Pick(r, good)
			if r.Chance(25) {
				if o, err := bcl.FmtPublic(data); err == nil {
					data = o // already formatted
				}
			}
			files = append(files, cliFile{nm, data})
		}
		kind := k % 6 // 0,1: dir write; 2: dir write with a rejected file; 3: dir without write; 4: file; 5: both / missing
		if k%12 == 2 {
			// pinned: walk order is by path component ("a" < "a-" < "a.j5s" < "z.j5s"), not by path string
			// ("a-/q.j5s" < "a.j5s" < "a/b.j5s"): the rejected a.j5s comes third, z.j5s is never reached
			files = files[:0]
			for _, nm := range []string{"a.j5s", "a/b.j5s", "a-/q.j5s", "z.j5s", "sub/notes.txt"} {
				files = append(files, cliFile{nm, "x   =   1\n"})
			}
			files[0].data = rejected[0]
		} else if kind == 2 || (kind == 4 && r.Chance(30)) {
			files[r.Intn(len(files))].data = vh.Pick(r, rejected)
		}
		sort.Slice(files, func(i, j int) bool { return files[i].path < files[j].path })
		root := filepath.Join(tmp, fmt.Sprintf("t%d", k))
		for _, f := range files {
			p := filepath.Join(root, filepath.FromSlash(f.path))
			_ = os.MkdirAll(filepath.Dir(p), 0755)
			if err := os.WriteFile(p, []byte(f.data), 0644); err != nil {
				return err
			}
		}
		target, fpath, write := 0, "", true
		dirArg, fileArg := root, ""
		switch kind {
		case 3:
			write = false
		case 4:
			target, write = 1, r.Chance(80)
			fpath = files[r.Intn(len(files))].path
			dirArg, fileArg = "", filepath.Join(root, filepath.FromSlash(fpath))
		case 5:
			if r.Chance(50) {
				target, fpath = 2, files[0].path
				fileArg = filepath.Join(root, filepath.FromSlash(fpath))
			} else {
				target, fpath = 1, "missing.j5s"
				dirArg, fileArg = "", filepath.Join(root, "missing.j5s")
			}
		}
		inS := fmt.Sprintf("fmt target=%d file=%q write=%v on %v", target, fpath, write, files)
		// the command prints the formatted text without --write: keep the runner's stdout clean
		saved := os.Stdout
		if devnull, err := os.OpenFile(os.DevNull, os.O_WRONLY, 0); err == nil {
			os.Stdout = devnull
			defer devnull.Close()
		}
		g := guard(20*time.Second, func() error { return verifcli.J5sFmt(context.Background(), dirArg, fileArg, write) })
		os.Stdout = saved
		res.Count("cli_scenario")
		if g.Panic != nil || g.Timeout {
			res.Fail(vh.Failure{Case: *caseNo, Stream: "cli", Sig: "C09 fmt --write panic: " + panicClass(g.Panic), Clause: "fmt --write replaces the file content with the formatter's output", Input: inS, Got: fmt.Sprint(g.Panic)})
			*caseNo++
			_ = os.RemoveAll(root)
			continue
		}
		after := readTree(root)
		failed := g.Val != nil
		// oracle: same set of files; every file is untouched or exactly Fmt's output; on success with --write in
		// --dir mode every .j5s file is Fmt's output and every other file untouched
		if len(after) != len(files) {
			res.Fail(vh.Failure{Case: *caseNo, Stream: "cli", Sig: "C09 fmt changes the set of files", Clause: "fmt --write replaces the file content", Input: inS, Got: fmt.Sprint(after)})
		} else {
			for i, f := range files {
				a := after[i]
				want, ferr := bcl.FmtPublic(f.data)
				visited := write && ((target == 0 && filepath.Ext(f.path) == ".j5s") || (target == 1 && f.path == fpath))
				switch {
				case a.path != f.path:
					res.Fail(vh.Failure{Case: *caseNo, Stream: "cli", Sig: "C09 fmt changes the set of files", Clause: "fmt --write replaces the file content", Input: inS, Got: a.path})
				case !visited && a.data != f.data:
					res.Fail(vh.Failure{Case: *caseNo, Stream: "cli", Sig: "C09 fmt --write touched a file that is not a visited source", Clause: "fmt --write replaces the file content with the formatter's output", Input: inS, Got: fmt.Sprintf("%s: %q", a.path, a.data)})
				case visited && a.data != f.data && (ferr != nil || a.data != want):
					res.Fail(vh.Failure{Case: *caseNo, Stream: "cli", Sig: "C09 fmt --write leaves a file that is not the formatter's output", Clause: "the formatter's output (as fmt --write leaves it in the file) is accepted by the parser and denotes the same document", Input: inS, Got: fmt.Sprintf("%s: %q", a.path, a.data), Want: fmt.Sprintf("%q", want)})
				case visited && !failed && ferr == nil && a.data != want:
					res.Fail(vh.Failure{Case: *caseNo, Stream: "cli", Sig: "C09 fmt --write reports success but left a source unformatted", Clause: "fmt --write replaces the file content with the formatter's output", Input: inS, Got: fmt.Sprintf("%s: %q", a.path, a.data), Want: fmt.Sprintf("%q", want)})
				}
			}
		}
		cf.Terms = append(cf.Terms, fmt.Sprintf("CCli %d %s %s %s %s %s", target, pathTerm(fpath), vh.BoolTerm(write), treeTerm(files), treeTerm(after), vh.BoolTerm(failed)))
		res.Cases = append(res.Cases, vh.CaseRec{Case: *caseNo, Stream: "cli", Input: inS, Impl: map[string]any{"failed": failed, "after": fmt.Sprint(after)}})
		if failed {
			res.Count("cli_failed")
		}
		*caseNo++
		_ = os.RemoveAll(root)
	}
	return nil
}

package main

// Shared by C09 and C19: the stream of source texts for the formatter and the
// position-free "document" of a source (what C09 says must be preserved).

import (
	"fmt"
	"strings"
	"unicode"

	"github.com/pentops/j5/lib/verifshim/bcl"
	"verifharness/vh"
)

type fmtInput struct {
	src    string
	stream string
	emit   bool
}

// templates that matter to the formatter / the edit list in particular
var fmtTemplates = []string{
	"a b // c\n", "\n\n\na b // c\nx = 1\n", "a {\n} // c\n", "/* a */ x = 1\n", "a {\nb {\n} }\n", "x = 1\n  \ny = 2\n",
	"x = \"a\tb\"\n", "x = /a//b/\n", "x = \"a\\\nb\"\ny = 2\n", "| a   \n| " + strings.Repeat("W", 78) + "\n", "a {\nb // c",
	"|\na = 1\n", "|\n|\n| a\n", "x = \"é ​\U0001F600\"\n", "x = a.b\n", "a ! b ? \"s\":q:!r {\n}\n", "a | d  \n",
	"x = [1, [2, 3], \"s\", /r/, true]\n", "x = [\n", "x = /* v */ // c\n", "/* m\n\nl */ x = 1 // t\n\n\n\ny = 2", "\t\n \nx=1\n\t\n",
	"a {\n\t| " + strings.Repeat("word ", 30) + "\n}\n", "a {\n b {\n  c {\n   | " + strings.Repeat("xy ", 40) + "\n  }\n }\n}\n",
	"| a\n|\n|\n| b\n|\n", "| tab\tsep nbsp\n", "x = \"\xff\"\n", "x += 1 //\n", "}\n}\n", "a {\n", "x = | d\n", "x = // c\n",
	// strings whose only escape is an escaped newline; over-long words in the middle of a paragraph
	"x = \"only\\\nnewline\"\n", "k v \"l1\\\nl2\\\nl3\" {\n}\n", "x = [\"a\\\nb\", \"c\"]\n",
	"| aa bb " + strings.Repeat("L", 90) + " cc dd\n",
	"a {\n\t| one two " + strings.Repeat("M", 85) + " three\n\t| four " + strings.Repeat("N", 120) + "\n}\n",
	"| " + strings.Repeat("w ", 30) + strings.Repeat("X", 81) + " tail words here\n| next line " + strings.Repeat("Y", 100) + " end\n",
	// (round 3, classes of the second batch of seeded changes, pinned) empty array literals in every position
	"a = []\n", "a += []\n", "a = [] // c\n", "a = [[], 1]\n", "a = [1, [], [[]]]\nb = 2\n", "t \"s\" {\n\tk += []\n}\n",
	// runs of empty description lines between paragraphs and at the end of a description
	"| a\n|\n|\n|\n| b\n", "| a\n|\n|\n|\n|\n|\n| b\n|\n|\n", "| a\n|\n|\n", "b {\n\t| p\n\t|\n\t|   \n\t|\n\t| q\n\t|\n\t|\n\t|\n}\n", "|\n|\n|\n| a\n|\n|\n|\n",
	// two fragments sharing a line where the second runs on over more lines, followed directly by a statement / the end
	"a {\n} /* x\ny */\nz = 1\n", "a {\n} /* x\ny */", "/* c */ a = \"x\\\ny\"\nb = 1\n", "/* c */ a = \"x\\\ny\\\nz\"", "a {\n} | d1\n| d2\n| d3\nk = 1\n", "x = 1 /* p\nq\nr */\n",
	// a multi-line block comment as the last fragment of the file, with and without a final newline
	"x = 1\n/* a\nb\nc */\n", "x = 1\n/* a\nb\nc */", "/* only\ncomment */", "a {\n}\n\n/* commented out\nblock {\n}\n*/\n\n", "x = 1\n/* a\n\n\nb */   \n",
}

func fmtInputs(cfg *vh.Config, label string, nGen, nCorpus, nSeq int) []fmtInput {
	r := cfg.R.Fork(label)
	var out []fmtInput
	for _, t := range fmtTemplates {
		out = append(out, fmtInput{t, "template", true})
	}
	// deep nesting: the description re-flow width is 80 - 4*depth, so it shrinks to 0 and below; words longer
	// than the width, pending words before them, header descriptions followed by description lines, at every depth
	deepWords := []string{"a", "bb ccc", strings.Repeat("L", 30), "x " + strings.Repeat("M", 70) + " y", "p q r s t u v w x y z aa bb cc dd ee ff gg hh ii jj kk"}
	nDeep := 0
	for _, d := range []int{1, 4, 9, 15, 19, 20, 21, 26} {
		for wi, w := range deepWords {
			if cfg.Tier != "thorough" && (d*7+wi)%3 != int(cfg.Seed%3) {
				continue // a third of the family per quick run, chosen by the seed
			}
			var sb strings.Builder
			for k := 0; k < d; k++ {
				sb.WriteString(strings.Repeat(" ", k) + "b" + fmt.Sprint(k) + " {\n")
			}
			ind := strings.Repeat("\t", d)
			sb.WriteString(ind + "| " + w + "\n" + ind + "| " + w + " tail\n" + ind + "|\n" + ind + "| second " + w + "\n")
			sb.WriteString(ind + "h tag | " + w + "\n" + ind + "| " + w + "\n")
			sb.WriteString(ind + "k = \"" + w + "\" // " + w + "\n")
			for k := d; k > 0; k-- {
				sb.WriteString(strings.Repeat(" ", k-1) + "}\n")
			}
			out = append(out, fmtInput{sb.String(), "deep", nDeep < 12 || cfg.Tier == "thorough"})
			nDeep++
		}
	}
	// the byte level: valid multi-byte and every kind of invalid UTF-8 in every literal kind (pinned)
	for i, s := range utf8Corpus() {
		out = append(out, fmtInput{s, "utf8", cfg.Tier == "thorough" || i%3 == int(cfg.Seed%3)})
	}
	corpus := loadCorpus()
	for i, f := range corpus {
		out = append(out, fmtInput{f, "file", cfg.Tier == "thorough" || i < 3})
	}
	g := &srcGen{r: r.Fork("gen")}
	for i := 0; i < nGen; i++ {
		s := g.file(6)
		if i%5 == 4 {
			s = mutate(r, s)
		}
		out = append(out, fmtInput{s, "grammar", true})
	}
	for i := 0; i < nCorpus; i++ {
		w := window(r, vh.Pick(r, corpus), 12)
		if i%3 == 2 {
			w = mutate(r, w)
		}
		out = append(out, fmtInput{w, "corpus", true})
	}
	seq := sequences(3, " ")
	for i := 0; i < nSeq; i++ {
		out = append(out, fmtInput{vh.Pick(r, seq) + vh.Pick(r, []string{"", "\n", "\n\n"}), "seq3", true})
	}
	return out
}

// ---- the document a source denotes (position-free) ---------------------------------------

func tokDoc(t bcl.Tok) string { return fmt.Sprintf("%d:%q", t.Type, t.Lit) }

func refDoc(r bcl.Ref) string {
	parts := make([]string, len(r.Idents))
	for i, id := range r.Idents {
		parts[i] = id.Value
	}
	return strings.Join(parts, ".")
}

func valueDoc(v bcl.Value) string {
	if !v.IsArray {
		return tokDoc(v.Tok)
	}
	parts := make([]string, len(v.Elems))
	for i, e := range v.Elems {
		parts[i] = valueDoc(e)
	}
	return "[" + strings.Join(parts, ",") + "]"
}

func tagDoc(t bcl.Tag) string {
	s := fmt.Sprintf("mark%d ", t.Mark)
	if t.HasRef {
		s += "ref " + refDoc(t.Ref)
	}
	if t.HasValue {
		s += "val " + valueDoc(t.Value)
	}
	return s
}

// descDoc: paragraphs of words
func descDoc(value string) string {
	var paras [][]string
	var cur []string
	for _, line := range strings.Split(value, "\n") {
		w := strings.FieldsFunc(line, unicode.IsSpace)
		if len(w) == 0 {
			if len(cur) > 0 {
				paras = append(paras, cur)
				cur = nil
			}
			continue
		}
		cur = append(cur, w...)
	}
	if len(cur) > 0 {
		paras = append(paras, cur)
	}
	parts := make([]string, len(paras))
	for i, p := range paras {
		parts[i] = strings.Join(p, " ")
	}
	return strings.Join(parts, " ¶ ")
}

func fragDoc(f bcl.Frag) string {
	c := ""
	if f.HasComment {
		c = fmt.Sprintf(" //%q", f.Comment.Value)
	}
	switch f.Kind {
	case "header":
		var tags, quals []string
		for _, t := range f.Tags {
			tags = append(tags, tagDoc(t))
		}
		for _, t := range f.Quals {
			quals = append(quals, tagDoc(t))
		}
		d := ""
		if f.HasDesc {
			d = " | " + descDoc(f.Desc.DescValue)
		}
		return fmt.Sprintf("block %s tags[%s] quals[%s] open=%v%s%s", refDoc(f.Type), strings.Join(tags, "; "), strings.Join(quals, "; "), f.Open, d, c)
	case "assign":
		op := "="
		if f.Append {
			op = "+="
		}
		return fmt.Sprintf("assign %s %s %s%s", refDoc(f.Key), op, valueDoc(f.Value), c)
	case "desc":
		return "desc " + descDoc(f.DescValue)
	case "comment":
		return "comment " + tokDoc(f.Tok)
	case "close":
		return "close"
	}
	return "?" + f.Kind
}

// docOf: the fragment-level document of an accepted source, or ok=false.
func docOf(src string) ([]string, bool) {
	frags, diags, lexOK, err := bcl.Fragments(src, true)
	if !lexOK || err != nil || len(diags) > 0 {
		return nil, false
	}
	out := make([]string, len(frags))
	for i, f := range frags {
		out[i] = fragDoc(f)
	}
	return out, true
}

func applyEdits(src string, edits []bcl.FmtDiff) ([]string, string) {
	lines := strings.Split(src, "\n")
	out := []string{}
	cur := 0
	for _, e := range edits {
		if e.ToLine < e.FromLine {
			return nil, "inverted range"
		}
		if e.FromLine < cur {
			return nil, "overlapping or descending"
		}
		if e.ToLine > len(lines) {
			return nil, "beyond the last line"
		}
		out = append(out, lines[cur:e.FromLine]...)
		if e.NewText != "" {
			nt := strings.Split(e.NewText, "\n")
			out = append(out, nt[:len(nt)-1]...)
		}
		cur = e.ToLine
	}
	out = append(out, lines[cur:]...)
	return out, ""
}

func stripTrailingBlank(lines []string) []string {
	for len(lines) > 0 && strings.TrimFunc(lines[len(lines)-1], unicode.IsSpace) == "" {
		lines = lines[:len(lines)-1]
	}
	return lines
}

func editsTerm(es []bcl.FmtDiff) string {
	items := make([]string, len(es))
	for i, e := range es {
		items[i] = fmt.Sprintf("(%s,%s,%s)", zlit(e.FromLine), zlit(e.ToLine), vh.BytesTerm(e.NewText))
	}
	return listTerm(items)
}

func lspTerm(es []bcl.LspEdit) string {
	items := make([]string, len(es))
	for i, e := range es {
		items[i] = fmt.Sprintf("(%s,%s,%s,%s,%s)", zlit(int(e.StartLine)), zlit(int(e.StartChar)), zlit(int(e.EndLine)), zlit(int(e.EndChar)), vh.BytesTerm(e.NewText))
	}
	return listTerm(items)
}

func linesTerm(ls []string) string {
	items := make([]string, len(ls))
	for i, l := range ls {
		items[i] = vh.RunesTerm(l)
	}
	return listTerm(items)
}

package main

import (
	"fmt"
	"os"
	"os/exec"
	"regexp"
	"runtime/debug"
	"strings"
	"time"
	"unicode/utf8"

	"github.com/pentops/j5/lib/verifshim/bcl"
	"verifharness/vh"
)

func init() { vh.Register("C11", runC11) }

var digitsRe = regexp.MustCompile(`[0-9]+`)

func panicClass(p any) string {
	s := digitsRe.ReplaceAllString(fmt.Sprint(p), "N")
	return clip(s, 70)
}

type c11obs struct {
	lexToks  []bcl.Tok
	lexOK    bool
	lexDiags []bcl.Diag
	frags    []bcl.Frag
	wdiags   []bcl.Diag
	res      bcl.ParseResult
}

func observe(in string, ff bool) c11obs {
	var o c11obs
	o.lexToks, o.lexOK, o.lexDiags, _ = bcl.Lex(in, ff)
	if o.lexOK {
		o.frags, o.wdiags, _, _ = bcl.Fragments(in, ff)
	} else {
		o.wdiags = o.lexDiags
	}
	o.res = bcl.ParseFile(in, ff)
	return o
}

type lineInfo struct{ runes []int }

func lineLens(in string) []int {
	lines := strings.Split(in, "\n")
	out := make([]int, len(lines))
	for i, l := range lines {
		out[i] = utf8.RuneCountInString(l)
	}
	return out
}

func inside(ll []int, p bcl.Point) bool {
	return p.Line >= 0 && p.Line < len(ll) && p.Column >= 0 && p.Column <= ll[p.Line]
}

func notAfter(a, b bcl.Point) bool {
	return a.Line < b.Line || (a.Line == b.Line && a.Column <= b.Column)
}

// humanObs turns the rendering of ONE diagnostic with an empty message into the model's hres term.
func humanObs(out string) (string, bool) {
	lines := strings.Split(out, "\n")
	if len(lines) < 2 {
		return "", false
	}
	if strings.HasPrefix(lines[0], "<no position information>") {
		return "HNoStart", true
	}
	if !strings.HasPrefix(lines[0], "Position: ") {
		return "", false
	}
	if !strings.HasPrefix(lines[1], "LIT: ") {
		return "HNoStart", true
	}
	if strings.HasPrefix(lines[2], "<line ") && strings.HasSuffix(lines[2], "- a>") {
		return "HLineOutA", true
	}
	i := 2
	n := 0
	for i < len(lines) && strings.HasPrefix(lines[i], "  > ") {
		n++
		i++
	}
	if i >= len(lines) {
		return "", false
	}
	if strings.HasPrefix(lines[i], "<line ") && strings.HasSuffix(lines[i], "- b>") {
		return fmt.Sprintf("(HLineOutB %d)", n), true
	}
	// n counts the context lines plus the error line
	if n < 1 || !strings.HasPrefix(lines[i], ">") {
		return "", false
	}
	mark := strings.TrimLeft(lines[i], ">")
	if !strings.HasPrefix(mark, ": ") {
		return "", false
	}
	mark = mark[2:]
	if strings.HasPrefix(mark, "<column ") {
		return fmt.Sprintf("(HColOut %d)", n-1), true
	}
	if !strings.HasSuffix(mark, "^") || strings.Trim(mark[:len(mark)-1], " ") != "" {
		return "", false
	}
	return fmt.Sprintf("(HCaret %d %d)", n-1, len(mark)-1), true
}

// deepChild: the parse that used to end the process with "fatal error: stack overflow" runs in a
// child process, so that the parent can report it as a failing input.
func deepChild() {
	// quick tier: a 32 MB stack limit instead of Go's 1 GB, so that recursion proportional to the nesting
	// shows at 300,000 levels (a frame of a recursive walker is > 100 bytes) instead of needing millions;
	// the bounded recursion of popValue (maxValueDepth frames) must fit. Thorough tier: default limit, 10^6 blocks.
	nb := 1000000
	if os.Getenv("BCL_DEEP_TIER") != "thorough" {
		debug.SetMaxStack(32 << 20)
		nb = 300000
	}
	n := 2000000
	src := "a = " + strings.Repeat("[", n)
	for _, ff := range []bool{true, false} {
		r := bcl.ParseFile(src, ff)
		if r.ErrKind != "with-source" || len(r.Diags) == 0 {
			fmt.Println("no diagnostics for", n, "nested brackets")
			os.Exit(3)
		}
	}
	src = "a = " + strings.Repeat("[", n) + strings.Repeat("]", n) + "\n"
	if _, err := bcl.Fmt(src); err == nil {
		fmt.Println("formatter accepted", n, "nested brackets")
	}
	// block nesting: the walker and fragmentsToFile are loops, so any depth must parse; the property's
	// clauses are evaluated on the whole tree (iteratively), in both modes
	for i, c := range deepBlockInputs(nb) {
		if i == 0 || i == 5 {
			continue // subsumed at this depth by "balanced with statements innermost"
		}
		for _, ff := range []bool{true, false} {
			if msg := deepBlockOracle(c.src, ff, c.wantDepth, c.accepted); msg != "" {
				fmt.Printf("BLOCKS %s failFast=%v: %s\n", c.name, ff, msg)
				os.Exit(4)
			}
		}
	}
	os.Exit(0)
}

type deepBlockCase struct {
	name      string
	src       string
	wantDepth int  // nesting of the first-child chain of the returned tree
	accepted  bool // no diagnostics expected
}

func deepBlockInputs(n int) []deepBlockCase {
	open := strings.Repeat("a {\n", n)
	cl := strings.Repeat("}\n", n)
	return []deepBlockCase{
		{"balanced", open + cl, n, true},
		{"balanced with statements innermost", open + "x = 1\n| d\n" + cl, n, true},
		{"unclosed", open, n, false},
		{"one closer too many", open + cl + "}\n", n, false},
		{"syntax error innermost", open + "x = = 1\n" + cl, 0, false},
		{"tagged blocks on one line each", strings.Repeat("a b:c {\n", n) + cl, n, true},
	}
}

// deepBlockOracle evaluates C11's clauses on a deeply nested input without recursion; "" = fine.
func deepBlockOracle(src string, ff bool, wantDepth int, accepted bool) (msg string) {
	defer func() {
		if p := recover(); p != nil {
			msg = fmt.Sprint("panic: ", p)
		}
	}()
	ll := lineLens(src)
	r := bcl.ParseFile(src, ff)
	if accepted != (r.ErrKind == "") {
		return fmt.Sprintf("accepted=%v, ErrKind=%q diags=%d", accepted, r.ErrKind, len(r.Diags))
	}
	if r.ErrKind != "" && (r.ErrKind != "with-source" || len(r.Diags) == 0) {
		return fmt.Sprintf("error without diagnostics list (%s)", r.ErrKind)
	}
	if r.ErrKind == "" && r.TreeNil {
		return "nil tree without error"
	}
	for _, d := range r.Diags {
		if !d.HasPos || !inside(ll, d.Start) || !inside(ll, d.End) || !notAfter(d.Start, d.End) {
			return fmt.Sprintf("diagnostic position %v-%v outside the input or inverted", d.Start, d.End)
		}
	}
	depth := 0
	for b := r.Body; len(b) > 0 && b[0].Kind == "block"; b = b[0].Body {
		depth++
	}
	if depth != wantDepth {
		return fmt.Sprintf("tree nesting %d, want %d", depth, wantDepth)
	}
	for _, b := range r.Body {
		for _, nd := range stmtNodes(b) {
			if nd.Kind == 13 || nd.Kind == 14 {
				continue
			}
			if !inside(ll, nd.Start) || !inside(ll, nd.End) || !notAfter(nd.Start, nd.End) {
				return fmt.Sprintf("node kind %d position %v-%v outside the input or inverted", nd.Kind, nd.Start, nd.End)
			}
		}
	}
	if r.ErrKind == "with-source" {
		if _, ok := r.HumanString(2); !ok {
			return "HumanString returned nothing"
		}
	}
	return ""
}

func runC11(cfg *vh.Config) error {
	if os.Getenv("BCL_DEEP_CHILD") == "1" {
		deepChild()
	}
	res := vh.NewResult("C11", cfg.Seed)
	res.Rule = "inputs: every sequence of <=3 tokens over a 24-entry alphabet (all token types, a space, a character no token starts with, an unterminated string) rendered with single spaces, every sequence of <=2 rendered adjacent; windows of the repository's .j5s/.bcl/fixture files, unmutated and with 1-3 token deletions/insertions/swaps/duplications/truncations and multi-byte characters at line ends; grammar-generated files; every lexer sub-automaton (string, regex, block/line comment, description, number, stray character) x every continuation (valid escapes, invalid escape, lone backslash) x every ending (closed, newline, end of input without newline) in six grammatical positions; an unexpected token of every literal kind with a literal around the 20-byte cut of the message, ASCII and multi-byte, in ten error sites; every token-boundary prefix of generated statements (EOF in every grammatical position); array values nested 1500 (also in Coq) and maxValueDepth-1 / maxValueDepth / maxValueDepth+1 deep, the constant read from the code (in Coq in the thorough tier; the model's boundary at the generated constant is a compiled lemma), and 2,000,000 deep in a child process; blocks nested 1, 2, 3, 50, 200 (Coq), 10,000 and 300,000 / 1,000,000 (child process, 32 MB / default stack limit) deep: balanced, unclosed, one closer too many, syntax error innermost, with tags/qualifiers; random token soup incl. invalid UTF-8; both failFast values; non-trivial = distinct non-empty input"
	cf := &vh.CasesFile{
		Header: "From Coq Require Import String List NArith ZArith.\nFrom J5V.model Require Import BclErrpos BclCorr.",
		Type:   "c11case",
		Check:  "c11_check",
	}
	r := cfg.R
	distinct := vh.Distinct{}
	corpus := loadCorpus()
	if len(corpus) < 3 {
		return fmt.Errorf("corpus of repository BCL sources not found under %s", repoDir())
	}
	caseNo := 0
	const deadline = 5 * time.Second

	type input struct {
		src    string
		stream string
		emit   bool // emit a correspondence case (model evaluated in Coq)
	}
	var inputs []input

	// ---- stream 1: bounded-exhaustive token sequences
	seq3 := sequences(3, " ")
	emit3 := cfg.Scale(250, len(seq3))
	n1 := 1 + len(alphabet) + len(alphabet)*len(alphabet)
	for i, s := range seq3 {
		e := i < n1
		if !e && len(seq3)-n1 > 0 {
			e = r.Intn(len(seq3)-n1) < emit3
		}
		inputs = append(inputs, input{s, "seq3", e})
	}
	for _, s := range sequences(2, "") {
		inputs = append(inputs, input{s, "seq2adj", cfg.Tier == "thorough" || r.Chance(40)})
	}
	// ---- stream 2: corpus windows, unmutated and mutated
	nWin := cfg.Scale(250, 4500)
	for i := 0; i < nWin; i++ {
		w := window(r, vh.Pick(r, corpus), 10)
		if i%3 != 0 {
			w = mutate(r, w)
		}
		inputs = append(inputs, input{w, "corpus", true})
	}
	// whole files
	for i, f := range corpus {
		inputs = append(inputs, input{f, "file", cfg.Tier == "thorough" || i < 2})
		inputs = append(inputs, input{mutate(r, f), "file", cfg.Tier == "thorough"})
	}
	// ---- stream 3: grammar-generated
	g := &srcGen{r: r.Fork("gen")}
	nGen := cfg.Scale(200, 4500)
	for i := 0; i < nGen; i++ {
		s := g.file(5)
		if i%2 == 1 {
			s = mutate(r, s)
		}
		inputs = append(inputs, input{s, "grammar", true})
	}
	// ---- stream 4: soup and raw bytes
	nSoup := cfg.Scale(150, 3000)
	for i := 0; i < nSoup; i++ {
		if i%5 == 4 {
			inputs = append(inputs, input{string(r.Bytes(r.Range(0, 24))), "bytes", true})
		} else {
			inputs = append(inputs, input{randomSoup(r, 10), "soup", true})
		}
	}
	// ---- stream 4': coverage-guided corpus (c11cov.go): inputs that reached a new basic block of the parser packages
	for _, k := range covGuided(cfg, res, corpus) {
		inputs = append(inputs, input{k.src, "covguided", k.emit})
	}

	// ---- stream 4u: the byte level (pinned): valid multi-byte and invalid UTF-8 in every literal kind and position
	for i, s := range utf8Corpus() {
		inputs = append(inputs, input{s, "utf8", cfg.Tier == "thorough" || i%3 == int(cfg.Seed%3)})
	}

	// ---- stream 4m (pinned): a token-level syntax error together with a block-structure problem among the other
	// statements (stray closer, unclosed block, an error on a header line whose closer then is stray), in every order:
	// collect-all must still report the fail-fast diagnostic first
	for _, s := range []string{"a = \ngood Foo\n}\n", "}\nk = = 1\n", "k = = 1\n}\n", "a {\nx = = 1\n", "x = = 1\na {\n", "h = {\n}\n",
		"a b = {\n\tk = 1\n}\n", "}\n}\nx = #\n", "a {\n}\n}\nb = [1 2]\nc {\n", "a {\n\tb {\n\t\tk = = 2\n\t}\n", "| d\n}\na = \"x\n"} {
		inputs = append(inputs, input{s, "modes", true})
	}

	// ---- stream 4a: every lexer sub-automaton x every continuation x every ending (closed, newline, end of input),
	// in several grammatical positions; all through the oracle, a sample through the model
	{
		tails := lexTails()
		heads := []string{"", "a = ", "a ", "a {\n", "x = [1, ", "a.b: "}
		afters := []string{"", "\nb = 1\n", " c\n"}
		nEmit := cfg.Scale(200, 2500)
		total := len(tails) * len(heads) * len(afters)
		for _, h := range heads {
			for _, t := range tails {
				for _, a := range afters {
					inputs = append(inputs, input{h + t + a, "lextail", r.Intn(total) < nEmit})
				}
			}
		}
	}

	// ---- stream 4a': an unexpected token of every literal kind with a literal around the 20-byte cut of Token.String
	// (17 bytes + "..."), ASCII and multi-byte (the cut is in bytes and may split a character), in every error site
	{
		var lits []string
		for _, n := range []int{6, 7, 9, 10, 11, 19, 20, 21, 30} {
			a, m := strings.Repeat("x", n), strings.Repeat("é", n)
			lits = append(lits, a, "\""+a+"\"", "\""+m+"\"", "/"+a+"/", "/"+m+"/", "// "+a, "// "+m, "| "+m, "/* "+m+" */", strings.Repeat("7", n), "1."+strings.Repeat("5", n))
		}
		sites := []string{"a = 1 %s\n", "%s %s\n", "a = [1 %s]\n", "a = [%s %s]\n", "a.%s.1\n", "a ! %s =\n", "a += = %s\n", "a b : %s {\n", "} %s\n", "a {\n} %s\n"}
		k := 0
		for _, l := range lits {
			for _, st := range sites {
				src := strings.ReplaceAll(st, "%s", l)
				inputs = append(inputs, input{src, "longlit", cfg.Tier == "thorough" || k%9 == int(cfg.Seed%9)})
				k++
			}
		}
	}

	// ---- stream 4b: every prefix (at token boundaries) of valid statements: EOF in every grammatical position
	gp := &srcGen{r: r.Fork("prefix")}
	nPre := cfg.Scale(50, 600)
	for i := 0; i < nPre; i++ {
		var sb strings.Builder
		gp.statement("", 1, &sb)
		p := splitPieces(strings.TrimRight(sb.String(), "\n"))
		if len(p) > 40 {
			p = p[:40]
		}
		for k := 1; k <= len(p); k++ {
			inputs = append(inputs, input{strings.Join(p[:k], ""), "prefix", cfg.Tier == "thorough" || r.Chance(25)})
		}
	}

	// ---- stream 4c: array nesting around the bound of popValue; the bound is read from the code
	// (maxValueDepth through the shim), so the boundary corpus moves with the constant.
	// The model is evaluated in Coq on the 1500-deep case in the quick tier (its lexer recomputes the
	// remaining length per token: ~40 s per boundary case) and exactly at the bound in the thorough tier;
	// the boundary of the MODEL at the generated constant is also a compiled lemma
	// (BclDepthProofs.max_value_depth_boundary).
	mvd := bcl.MaxValueDepth()
	res.Distribution["max_value_depth"] = mvd
	inputs = append(inputs, input{"a = " + strings.Repeat("[", 1500) + strings.Repeat("]", 1500) + "\n", "deep", true})
	if mvd >= 2 && mvd <= 200000 {
		for _, n := range []int{mvd - 1, mvd, mvd + 1} {
			inputs = append(inputs, input{"a = " + strings.Repeat("[", n) + strings.Repeat("]", n) + "\n", "deep", false})
			if cfg.Tier == "thorough" {
				// the model exactly at the bound (about 15 s per case in Coq): projected result only, the input is built in Coq
				for _, ff := range []bool{true, false} {
					pr := bcl.ParseFile("a = "+strings.Repeat("[", n)+strings.Repeat("]", n)+"\n", ff)
					cf.Terms = append(cf.Terms, fmt.Sprintf("CDeep %d %d %s %s %d %s", n, n, vh.BoolTerm(ff), vh.BoolTerm(pr.TreeNil), len(pr.Body), diagsTerm(pr.Diags)))
					res.Cases = append(res.Cases, vh.CaseRec{Case: caseNo, Stream: "deep", Input: fmt.Sprintf("a = %d x [ %d x ] failFast=%v", n, n, ff), Impl: fmt.Sprint(pr.Diags)})
					caseNo++
				}
			}
			// the bound counts nesting, not brackets: siblings at the deepest level do not add depth
			inputs = append(inputs, input{"a = " + strings.Repeat("[", n-1) + "[1], [2, [3]]" + strings.Repeat("]", n-1) + "\n", "deep", false})
		}
		inputs = append(inputs, input{"a = " + strings.Repeat("[", mvd+3), "deep", false})
		inputs = append(inputs, input{"t " + "x:" + "y = " + strings.Repeat("[", mvd+1) + "\n", "deep", false})
	} else {
		res.Fail(vh.Failure{Case: caseNo, Stream: "deep", Sig: "C11 maxValueDepth outside the range the stack argument covers", Clause: "never panics (stack)", Input: fmt.Sprintf("maxValueDepth = %d", mvd), Got: "the nesting bound must stay between 2 and 200000 (goroutine stack)"})
	}
	// ---- stream 4d: block nesting (the walker and fragmentsToFile are loops; the tree dump is iterative):
	// shallow depths also through the model, 10^4 through the oracle here, 10^6 in the child process below
	for _, n := range []int{1, 2, 3, 50, 200} {
		for _, c := range deepBlockInputs(n) {
			inputs = append(inputs, input{c.src, "deepblocks", n <= 50 || cfg.Tier == "thorough"})
		}
	}
	for _, c := range deepBlockInputs(10000) {
		inputs = append(inputs, input{c.src, "deepblocks", false})
	}
	// 2,000,000 nested brackets and 1,000,000 nested blocks, in a child process (a stack overflow is fatal,
	// recover cannot catch it); it runs beside the main loop and is collected after it
	type childRes struct {
		err error
		out []byte
	}
	childDone := make(chan childRes, 1)
	childCmd := exec.Command(os.Args[0], "-prop", "C11", "-out", cfg.Out)
	childCmd.Env = append(os.Environ(), "BCL_DEEP_CHILD=1", "BCL_DEEP_TIER="+cfg.Tier)
	go func() { o, e := childCmd.CombinedOutput(); childDone <- childRes{e, o} }()
	collectChild := func() {
		select {
		case c := <-childDone:
			res.Count("deep_child")
			if c.err != nil {
				msg := string(c.out)
				sig := "C11 ParseFile ends the process on deeply nested arrays"
				if i := strings.Index(msg, "BLOCKS "); i >= 0 {
					sig = "C11 ParseFile fails on deeply nested blocks"
					msg = clip(msg[i:], 200)
				} else if i := strings.Index(msg, "fatal error"); i >= 0 {
					msg = clip(msg[i:], 120)
				} else {
					msg = clip(msg, 200)
				}
				res.Fail(vh.Failure{Case: caseNo, Stream: "deep", Sig: sig, Clause: "never panics and always terminates", Input: "\"a = \" + 2000000 x \"[\", then 300000 (quick) / 1000000 (thorough) nested blocks (balanced, unclosed, extra closer, inner syntax error)", Got: fmt.Sprintf("%v: %s", c.err, msg)})
			}
		case <-time.After(240 * time.Second):
			_ = childCmd.Process.Kill()
			res.Fail(vh.Failure{Case: caseNo, Stream: "deep", Sig: "C11 ParseFile does not terminate", Clause: "always terminates", Input: "\"a = \" + 2000000 x \"[\", then 1000000 nested blocks", Got: "no result after 240s"})
		}
		caseNo++
	}

	humanBudget := cfg.Scale(250, 4000)
	aborted := false
inputLoop:
	for _, in := range inputs {
		src := in.src
		if src != "" {
			distinct.Add(src)
		}
		ll := lineLens(src)
		var both [2]c11obs
		bad := false
		for k, ff := range []bool{true, false} {
			res.Count("parse_" + in.stream)
			g := guard(deadline, func() c11obs { return observe(src, ff) })
			inS := fmt.Sprintf("%q failFast=%v", src, ff)
			if g.Timeout {
				res.Fail(vh.Failure{Case: caseNo, Stream: in.stream, Sig: "C11 ParseFile does not terminate", Clause: "always terminates", Input: inS, Got: "no result after 5s"})
				caseNo++
				// the runaway goroutine keeps a CPU busy: stop generating, report what we have
				res.Notes = append(res.Notes, "run stopped at the first non-terminating input")
				aborted = true
				break inputLoop
			}
			if g.Panic != nil {
				res.Fail(vh.Failure{Case: caseNo, Stream: in.stream, Sig: "C11 ParseFile panic: " + panicClass(g.Panic), Clause: "never panics", Input: inS, Got: fmt.Sprint(g.Panic)})
				if in.emit {
					cf.Terms = append(cf.Terms, fmt.Sprintf("CFilePanic %s %s", vh.BytesTerm(src), vh.BoolTerm(ff)))
					res.Cases = append(res.Cases, vh.CaseRec{Case: caseNo, Stream: in.stream, Input: inS, Impl: "panic: " + fmt.Sprint(g.Panic)})
				}
				bad = true
				caseNo++
				continue
			}
			o := g.Val
			both[k] = o
			pr := o.res
			// tree or non-empty diagnostics
			switch pr.ErrKind {
			case "":
				res.Count("accepted")
				if pr.TreeNil {
					res.Fail(vh.Failure{Case: caseNo, Stream: in.stream, Sig: "C11 nil tree without error", Clause: "returns a syntax tree or a non-empty list of diagnostics", Input: inS, Got: "tree=nil err=nil"})
				}
			case "with-source":
				res.Count("diagnostics")
				if len(pr.Diags) == 0 {
					res.Fail(vh.Failure{Case: caseNo, Stream: in.stream, Sig: "C11 error with empty diagnostics list", Clause: "returns a syntax tree or a non-empty list of diagnostics", Input: inS, Got: pr.ErrText})
				}
			default:
				res.Fail(vh.Failure{Case: caseNo, Stream: in.stream, Sig: "C11 error that is not a diagnostics list (" + pr.ErrKind + ")", Clause: "returns a syntax tree or a non-empty list of diagnostics", Input: inS, Got: pr.ErrText})
			}
			// positions
			for _, d := range pr.Diags {
				if !d.HasPos {
					res.Fail(vh.Failure{Case: caseNo, Stream: in.stream, Sig: "C11 diagnostic without position", Clause: "every diagnostic carries start and end positions", Input: inS, Got: d.Msg})
					continue
				}
				if !inside(ll, d.Start) || !inside(ll, d.End) {
					res.Fail(vh.Failure{Case: caseNo, Stream: in.stream, Sig: "C11 diagnostic position outside the input", Clause: "positions lie within the input", Input: inS, Got: fmt.Sprintf("%v-%v %s", d.Start, d.End, d.Msg)})
				} else if !notAfter(d.Start, d.End) {
					res.Fail(vh.Failure{Case: caseNo, Stream: in.stream, Sig: "C11 diagnostic start after end", Clause: "start not after end", Input: inS, Got: fmt.Sprintf("%v-%v %s", d.Start, d.End, d.Msg)})
				}
			}
			var tnodes []pnode
			for _, b := range pr.Body {
				tnodes = append(tnodes, stmtNodes(b)...)
			}
			for _, n := range tnodes {
				if n.Kind == 13 || n.Kind == 14 {
					continue
				}
				if !inside(ll, n.Start) || !inside(ll, n.End) {
					res.Fail(vh.Failure{Case: caseNo, Stream: in.stream, Sig: fmt.Sprintf("C11 tree node position outside the input (node kind %d)", n.Kind), Clause: "positions lie within the input", Input: inS, Got: fmt.Sprintf("%v-%v", n.Start, n.End)})
				} else if !notAfter(n.Start, n.End) {
					res.Fail(vh.Failure{Case: caseNo, Stream: in.stream, Sig: fmt.Sprintf("C11 tree node start after end (node kind %d)", n.Kind), Clause: "start not after end", Input: inS, Got: fmt.Sprintf("%v-%v", n.Start, n.End)})
				}
			}
			prev := bcl.Point{Line: 0, Column: -1}
			for _, t := range o.lexToks {
				if !inside(ll, t.Start) || !inside(ll, t.End) || !notAfter(t.Start, t.End) || !notAfter(prev, t.Start) || prev == t.Start {
					res.Fail(vh.Failure{Case: caseNo, Stream: in.stream, Sig: "C11 token range malformed or out of order", Clause: "positions lie within the input", Input: inS, Got: fmt.Sprintf("%v-%v after %v", t.Start, t.End, prev)})
					break
				}
				prev = t.End
			}
			// rendering
			if pr.ErrKind == "with-source" {
				for ctx := 0; ctx <= 3; ctx++ {
					hg := guard(deadline, func() string { s, _ := pr.HumanString(ctx); return s })
					if hg.Panic != nil || hg.Timeout {
						res.Fail(vh.Failure{Case: caseNo, Stream: in.stream, Sig: "C11 HumanString panic: " + panicClass(hg.Panic), Clause: "rendering diagnostics against the source never fails", Input: inS, Got: fmt.Sprint(hg.Panic)})
						break
					}
				}
			}
			if in.emit {
				var fnodes []pnode
				for _, f := range o.frags {
					fnodes = append(fnodes, fragNodes(f)...)
				}
				toks := make([]string, len(o.lexToks))
				for i, t := range o.lexToks {
					toks[i] = tokTerm(t)
				}
				cf.Terms = append(cf.Terms, fmt.Sprintf("CFile %s %s %s %s %s %s %s %s %s", vh.BytesTerm(src), vh.BoolTerm(ff),
					vh.BoolTerm(o.lexOK), listTerm(toks), nodesTerm(fnodes), diagsTerm(o.wdiags),
					vh.BoolTerm(pr.TreeNil), nodesTerm(tnodes), diagsTerm(pr.Diags)))
				res.Cases = append(res.Cases, vh.CaseRec{Case: caseNo, Stream: in.stream, Input: inS,
					Impl: map[string]any{"lexok": o.lexOK, "tokens": len(o.lexToks), "treeNil": pr.TreeNil, "diags": fmt.Sprint(pr.Diags)}})
				if len(src) > 0 && len(src) < 60 {
					res.Sample(map[string]any{"stream": in.stream, "input": src, "failFast": ff, "accepted": pr.ErrKind == "", "diagnostics": len(pr.Diags)}, 10)
				}
			}
			caseNo++
		}
		if bad {
			continue
		}
		// collect-all reports the fail-fast diagnostic first
		f, c := both[0].res, both[1].res
		inS := fmt.Sprintf("%q", src)
		if (len(f.Diags) == 0) != (len(c.Diags) == 0) {
			res.Fail(vh.Failure{Case: caseNo, Stream: in.stream, Sig: "C11 fail-fast and collect-all disagree on acceptance", Clause: "collect-all mode reports the fail-fast diagnostic first", Input: inS, Got: fmt.Sprintf("failfast=%v collect=%v", f.Diags, c.Diags)})
		} else if len(f.Diags) > 0 {
			a, b := f.Diags[0], c.Diags[0]
			if a.Start != b.Start || a.End != b.End || a.Msg != b.Msg {
				res.Fail(vh.Failure{Case: caseNo, Stream: in.stream, Sig: "C11 collect-all first diagnostic differs from fail-fast", Clause: "collect-all mode reports the fail-fast diagnostic first", Input: inS, Got: fmt.Sprintf("failfast=%v collect=%v", a, b)})
			}
			if len(f.Diags) != 1 {
				res.Count("failfast_multi")
			}
		}
		// humanString correspondence on this input's own diagnostics
		if in.emit && len(c.Diags) > 0 && humanBudget > 0 {
			humanBudget--
			ctx := r.Intn(4)
			emitHuman(cf, res, &caseNo, in.stream, src, ctx, c.Diags)
		}
	}

	collectChild()

	// ---- stream 5: humanString on arbitrary (also nonsensical) positions
	nH := cfg.Scale(250, 3000)
	for i := 0; i < nH && !aborted; i++ {
		src := window(r, vh.Pick(r, corpus), 6)
		if i%2 == 0 {
			src = mutate(r, src)
		}
		if i%7 == 0 {
			src = randomSoup(r, 6)
		}
		lines := strings.Split(src, "\n")
		var ds []bcl.Diag
		for k := r.Range(1, 3); k > 0; k-- {
			li := r.Range(-2, len(lines)+1)
			width := 0
			if li >= 0 && li < len(lines) {
				width = len(lines[li])
			}
			d := bcl.Diag{HasPos: true, Start: bcl.Point{Line: li, Column: r.Range(-2, width+2)}}
			d.End = d.Start
			if r.Chance(30) {
				d.End = bcl.Point{Line: r.Range(-1, len(lines)), Column: r.Range(-1, 10)}
			}
			ds = append(ds, d)
		}
		res.Count("human_arbitrary")
		emitHuman(cf, res, &caseNo, "human", src, r.Intn(5), ds)
		// stream `humang`: diagnostics of other producers than the parser, as far as the hook reaches them: err.Pos == nil
		// mixed with positioned ones, with messages (model: BclErrposGen.human_text_g_bytes; file name, context path and a
		// nil Err are in the model and its theorems, the verif hook cannot construct them)
		if i%2 == 1 {
			gs := make([]bcl.Diag, 0, len(ds)+2)
			for k, d := range ds {
				if r.Chance(40) {
					gs = append(gs, bcl.Diag{HasPos: false, Msg: fmt.Sprintf("no position %d", k)})
				}
				d.Msg = vh.Pick(r, []string{"", "unexpected token", "m\tq", "two\nlines"})
				gs = append(gs, d)
			}
			if r.Chance(50) {
				gs = append(gs, bcl.Diag{HasPos: false, Msg: ""})
			}
			ctxN := r.Intn(5)
			gg := guard(5*time.Second, func() string { s, _ := bcl.HumanStringOf(src, gs, ctxN); return s })
			inG := fmt.Sprintf("%q context=%d diags=%v", src, ctxN, gs)
			if gg.Panic != nil || gg.Timeout {
				res.Fail(vh.Failure{Case: caseNo, Stream: "humang", Sig: "C11 HumanString panic: " + panicClass(gg.Panic), Clause: "rendering diagnostics against the source never fails", Input: inG, Got: fmt.Sprint(gg.Panic)})
			} else {
				items := make([]string, len(gs))
				for k, d := range gs {
					posT := "None"
					if d.HasPos {
						posT = fmt.Sprintf("(Some (None,%s,%s))", posTerm(d.Start), posTerm(d.End))
					}
					items[k] = fmt.Sprintf("(%s,None,Some %s)", posT, vh.BytesTerm(d.Msg))
				}
				res.Count("human_general")
				cf.Terms = append(cf.Terms, fmt.Sprintf("CHumanTextG %s %s %s %s", vh.BytesTerm(src), zlit(ctxN), listTerm(items), vh.BytesTerm(gg.Val)))
				res.Cases = append(res.Cases, vh.CaseRec{Case: caseNo, Stream: "humang", Input: inG, Impl: gg.Val})
			}
			caseNo++
		}
	}

	if !aborted {
		runHumanFile(cfg, cf, res, &caseNo, r)
	}

	res.Evaluations = caseNo
	res.Distinct = len(distinct)
	const per = 400
	shards, err := cf.WriteShards(cfg.Out, "cases", per)
	if err != nil {
		return err
	}
	for i := range res.Cases {
		res.Cases[i].Shard = fmt.Sprintf("cases_%d", i/per)
		res.Cases[i].Pos = i % per
	}
	res.Shards = shards
	return res.Write(cfg.Out)
}

func emitHuman(cf *vh.CasesFile, res *vh.Result, caseNo *int, stream, src string, ctx int, ds []bcl.Diag) {
	inS := fmt.Sprintf("%q context=%d diags=%v", src, ctx, ds)
	// all together, as callers do
	hg := guard(5*time.Second, func() string { s, _ := bcl.HumanStringOf(src, ds, ctx); return s })
	if hg.Panic != nil || hg.Timeout {
		res.Fail(vh.Failure{Case: *caseNo, Stream: stream, Sig: "C11 HumanString panic: " + panicClass(hg.Panic), Clause: "rendering diagnostics against the source never fails", Input: inS, Got: fmt.Sprint(hg.Panic)})
		cf.Terms = append(cf.Terms, fmt.Sprintf("CHumanPanic %s %s %s", vh.BytesTerm(src), zlit(ctx), diagsTerm(ds)))
		res.Cases = append(res.Cases, vh.CaseRec{Case: *caseNo, Stream: stream, Input: inS, Impl: "panic"})
		*caseNo++
		return
	}
	var obs []string
	for _, d := range ds {
		one := d
		one.Msg = ""
		s, _ := bcl.HumanStringOf(src, []bcl.Diag{one}, ctx)
		o, ok := humanObs(s)
		if !ok {
			res.Notes = append(res.Notes, fmt.Sprintf("could not read HumanString output for %s: %q", inS, s))
			return
		}
		obs = append(obs, o)
	}
	res.Count("human")
	cf.Terms = append(cf.Terms, fmt.Sprintf("CHuman %s %s %s %s", vh.BytesTerm(src), zlit(ctx), diagsTerm(ds), listTerm(obs)))
	res.Cases = append(res.Cases, vh.CaseRec{Case: *caseNo, Stream: stream, Input: inS, Impl: strings.Join(obs, " ")})
	*caseNo++
	// the whole rendered text, byte for byte (model: BclErrposText.human_text_bytes)
	res.Count("human_text")
	cf.Terms = append(cf.Terms, fmt.Sprintf("CHumanText %s %s %s %s", vh.BytesTerm(src), zlit(ctx), diagsTerm(ds), vh.BytesTerm(hg.Val)))
	res.Cases = append(res.Cases, vh.CaseRec{Case: *caseNo, Stream: stream, Input: inS, Impl: hg.Val})
	*caseNo++
}

package main

import (
	"fmt"
	"strings"
	"time"

	"github.com/pentops/j5/lib/verifshim/bcl"
	"verifharness/vh"
)

func init() { vh.Register("C19", runC19) }

type diffsObs struct {
	edits []bcl.FmtDiff
	err   error
}

func runC19(cfg *vh.Config) error {
	res := vh.NewResult("C19", cfg.Seed)
	res.Rule = "inputs: formatter templates (trailing comments, several statements per line, multi-line tokens, leading/trailing blank lines, whitespace-only gaps), the repository's .j5s/.bcl/fixture files, grammar-generated files (1/5 mutated), windows of repository files (1/3 mutated), random <=3-token sequences, a pinned byte-level corpus (valid multi-byte characters, Unicode spaces, every kind of invalid UTF-8 in every literal kind), pinned templates (two fragments sharing a line where the second runs on, a multi-line block comment as the last fragment, empty arrays, runs of empty description lines); the run also counts whether FmtDiffs of the formatter's own output is empty and emits up to 220 distinct formatted texts as Coq cases (stream formatted: same edit list from the model, and the hypothesis extent_ok of C19_formatted_no_edits_partial evaluated on the text); non-trivial = distinct input the formatter accepts with at least one statement"
	cf := &vh.CasesFile{
		Header: "From Coq Require Import String List NArith ZArith.\nFrom J5V.model Require Import BclFmtCorr.",
		Type:   "fmtcase",
		Check:  "fmt_check",
	}
	distinct := vh.Distinct{}
	caseNo := 0
	inputs := fmtInputs(cfg, "c19", cfg.Scale(750, 25000), cfg.Scale(400, 12000), cfg.Scale(250, 8000))
	// stream `formatted`: FmtDiffs on texts the real formatter returned, as Coq cases (CFormatted): the model must give
	// the same edit list and the hypothesis extent_ok of C19_formatted_no_edits_partial must hold for the text
	formattedSeen := map[string]bool{}
	formattedBudget := cfg.Scale(220, 6000)
	for _, in := range inputs {
		src := in.src
		inS := fmt.Sprintf("%q", src)
		var formattedEdits []bcl.FmtDiff
		formattedOK := false
		fg := guard(5*time.Second, func() diffsObs { o, err := bcl.Fmt(src); return diffsObs{[]bcl.FmtDiff{{NewText: o}}, err} })
		dg := guard(5*time.Second, func() diffsObs { e, err := bcl.FmtDiffs(src); return diffsObs{e, err} })
		res.Count("input_" + in.stream)
		fmtOK := fg.Panic == nil && !fg.Timeout && fg.Val.err == nil
		fmtOut := ""
		if fmtOK {
			fmtOut = fg.Val.edits[0].NewText
			res.Count("formatter_accepts")
			if strings.TrimSpace(fmtOut) != "" {
				distinct.Add(src)
			}
		} else {
			res.Count("formatter_rejects")
		}
		kind := 0
		switch {
		case dg.Panic != nil || dg.Timeout:
			kind = 2
		case dg.Val.err != nil:
			kind = 1
		}
		if fmtOK {
			// the property
			switch kind {
			case 2:
				res.Fail(vh.Failure{Case: caseNo, Stream: in.stream, Sig: "C19 FmtDiffs panic: " + panicClass(dg.Panic), Clause: "the list of line edits is computed without failure", Input: inS, Got: fmt.Sprint(dg.Panic)})
			case 1:
				res.Fail(vh.Failure{Case: caseNo, Stream: in.stream, Sig: "C19 FmtDiffs error on a file the formatter accepts", Clause: "the list of line edits is computed without failure", Input: inS, Got: dg.Val.err.Error()})
			default:
				edits := dg.Val.edits
				nLines := len(strings.Split(src, "\n"))
				bad := ""
				for i, e := range edits {
					if e.FromLine < 0 || e.FromLine > e.ToLine || e.ToLine > nLines {
						bad = fmt.Sprintf("edit %d has range %d..%d with %d lines", i, e.FromLine, e.ToLine, nLines)
						break
					}
					if i > 0 && e.FromLine < edits[i-1].ToLine {
						bad = fmt.Sprintf("edit %d (%d..%d) starts before edit %d ends (%d..%d)", i, e.FromLine, e.ToLine, i-1, edits[i-1].FromLine, edits[i-1].ToLine)
						break
					}
				}
				if bad != "" {
					sig := "C19 edit range malformed (start<=end<=#lines)"
					if strings.Contains(bad, "starts before") {
						sig = "C19 edits overlap or are not ascending"
					}
					res.Fail(vh.Failure{Case: caseNo, Stream: in.stream, Sig: sig, Clause: "edits are in ascending order, do not overlap, start <= end <= number of lines", Input: inS, Got: bad})
				} else {
					got, why := applyEdits(src, edits)
					a := strings.Join(stripTrailingBlank(got), "\n")
					b := strings.Join(stripTrailingBlank(strings.Split(fmtOut, "\n")), "\n")
					if why != "" || a != b {
						res.Fail(vh.Failure{Case: caseNo, Stream: in.stream, Sig: "C19 applying the edits does not give the formatter output", Clause: "applying them to the document produces the formatter's output up to trailing blank lines", Input: inS, Got: a, Want: b})
					}
				}
				// genlsp maps every diff to a TextEdit at character 0
				lg := guard(5*time.Second, func() []bcl.LspEdit { l, _ := bcl.LspFormat(src); return l })
				okL := lg.Panic == nil && len(lg.Val) == len(edits)
				for i := 0; okL && i < len(edits); i++ {
					l := lg.Val[i]
					okL = int(l.StartLine) == edits[i].FromLine && int(l.EndLine) == edits[i].ToLine && l.StartChar == 0 && l.EndChar == 0 && l.NewText == edits[i].NewText
				}
				if !okL {
					res.Fail(vh.Failure{Case: caseNo, Stream: in.stream, Sig: "C19 LSP TextEdits differ from FmtDiffs", Clause: "the list of line edits offered to editors", Input: inS, Got: fmt.Sprint(lg.Val)})
				}
				// the editor reaches a fixed point after one format: the formatted text has no edits left
				// (follows from C19 + C09 only up to no-op edits; observed, reported, not decisive)
				if sg := guard(5*time.Second, func() diffsObs { e, err := bcl.FmtDiffs(fmtOut); return diffsObs{e, err} }); sg.Panic == nil && !sg.Timeout && sg.Val.err == nil {
					formattedOK, formattedEdits = true, sg.Val.edits
					if len(sg.Val.edits) == 0 {
						res.Count("second_format_no_edits")
					} else {
						res.Count("second_format_has_edits")
						if len(res.Notes) < 5 {
							res.Notes = append(res.Notes, fmt.Sprintf("FmtDiffs(Fmt(x)) is not empty for %s: %v", inS, sg.Val.edits))
						}
					}
				} else {
					res.Fail(vh.Failure{Case: caseNo, Stream: in.stream, Sig: "C19 FmtDiffs fails on the formatter's own output", Clause: "the list of line edits is computed without failure", Input: fmt.Sprintf("Fmt(%s)", inS), Got: fmt.Sprint(sg.Panic, sg.Val.err)})
				}
			}
		}
		if in.emit {
			var edits []bcl.FmtDiff
			if kind == 0 {
				edits = dg.Val.edits
				res.Count(fmt.Sprintf("edits_%d", min(len(edits), 5)))
			}
			var lsp []bcl.LspEdit
			if kind == 0 {
				lg := guard(5*time.Second, func() []bcl.LspEdit { l, _ := bcl.LspFormat(src); return l })
				if lg.Panic == nil && !lg.Timeout {
					lsp = lg.Val
				}
			}
			cf.Terms = append(cf.Terms, fmt.Sprintf("CDiffs %s %d %s %s", vh.BytesTerm(src), kind, editsTerm(edits), lspTerm(lsp)))
			res.Cases = append(res.Cases, vh.CaseRec{Case: caseNo, Stream: in.stream, Input: inS, Impl: map[string]any{"kind": kind, "edits": fmt.Sprint(edits)}})
			if fmtOK && len(src) < 60 && len(edits) > 0 {
				res.Sample(map[string]any{"input": src, "edits": fmt.Sprint(edits)}, 8)
			}
			if formattedOK && strings.TrimSpace(fmtOut) != "" && !formattedSeen[fmtOut] && len(formattedSeen) < formattedBudget && len(fmtOut) < 4000 {
				formattedSeen[fmtOut] = true
				res.Count("formatted_cases")
				cf.Terms = append(cf.Terms, fmt.Sprintf("CFormatted %s %s", vh.BytesTerm(fmtOut), editsTerm(formattedEdits)))
				res.Cases = append(res.Cases, vh.CaseRec{Case: caseNo, Stream: "formatted", Input: fmt.Sprintf("%q", fmtOut), Impl: map[string]any{"edits": fmt.Sprint(formattedEdits)}})
			}
		}
		caseNo++
	}
	res.Evaluations = caseNo
	res.Distinct = len(distinct)
	const per = 400
	shards, err := cf.WriteShards(cfg.Out, "cases", per)
	if err != nil {
		return err
	}
	for i := range res.Cases {
		res.Cases[i].Shard = fmt.Sprintf("cases_%d", i/per)
		res.Cases[i].Pos = i % per
	}
	res.Shards = shards
	return res.Write(cfg.Out)
}

package main

import (
	"bytes"
	"fmt"
	"go/ast"
	"go/parser"
	"go/printer"
	"go/token"
	"go/types"
	"os"
	"path/filepath"
	"sort"
	"strings"

	"verifharness/gen"
)

func init() {
	gen.Register("MapRangeGen.v", cached("MapRangeGen.v", genMapRange))
	gen.Register("PanicGen.v", cached("PanicGen.v", genPanic))
}

// packages on the compile/print path (C14 anchors + the walker they call)
var orderDirs = []string{
	"internal/j5s/j5convert",
	"internal/j5s/protobuild",
	"internal/j5s/protoprint",
	"internal/j5s/protoprint/optionreflect",
	"internal/j5s/sourcewalk",
	// the front end on the compile path
	"internal/j5s/j5parse",
	"internal/bcl",
	"internal/bcl/internal/parser",
	"internal/bcl/internal/walker",
	"internal/bcl/internal/walker/schema",
	"lib/j5reflect",
}

func exprString(tp *typedPkg, e ast.Expr) string {
	var b bytes.Buffer
	printer.Fprint(&b, tp.fset, e)
	return strings.Join(strings.Fields(b.String()), " ")
}

type orderSite struct {
	Pkg, File, Func, Kind, Expr string
	Line                        int
	Body                        string // shape of the loop body / of the use of the key list
	Sorted                      bool   // a sort call follows in the same function
}

func genMapRange(repo string) (string, error) {
	var sites []orderSite
	for _, dir := range orderDirs {
		tp, err := loadTyped(repo, dir)
		if err != nil {
			return "", err
		}
		short := dir[strings.LastIndex(dir, "/")+1:]
		if dir == "internal/bcl/internal/walker/schema" {
			short = "walker/schema"
		}
		for fi, f := range tp.files {
			for _, d := range f.Decls {
				fd, ok := d.(*ast.FuncDecl)
				if !ok || fd.Body == nil {
					continue
				}
				fn := funcName(fd)
				first := len(sites)
				var nodes []ast.Node
				ast.Inspect(fd, func(n ast.Node) bool {
					before := len(sites)
					defer func() {
						for k := before; k < len(sites); k++ {
							nodes = append(nodes, n)
						}
					}()
					switch v := n.(type) {
					case *ast.RangeStmt:
						tv, ok := tp.info.Types[v.X]
						if ok && tv.Type != nil {
							if _, isMap := tv.Type.Underlying().(*types.Map); isMap {
								sites = append(sites, orderSite{short, tp.names[fi], fn, "range-map", exprString(tp, v.X), tp.fset.Position(v.Pos()).Line, "", false})
							}
						}
					case *ast.CallExpr:
						se, ok := v.Fun.(*ast.SelectorExpr)
						if !ok {
							return true
						}
						if x, ok := se.X.(*ast.Ident); ok {
							if x.Name == "maps" && (se.Sel.Name == "Keys" || se.Sel.Name == "Values") {
								arg := ""
								if len(v.Args) > 0 {
									arg = exprString(tp, v.Args[0])
								}
								sites = append(sites, orderSite{short, tp.names[fi], fn, "maps." + se.Sel.Name, arg, tp.fset.Position(v.Pos()).Line, "", false})
								return true
							}
							if x.Name == "proto" && se.Sel.Name == "RangeExtensions" {
								arg := ""
								if len(v.Args) > 0 {
									arg = exprString(tp, v.Args[0])
								}
								sites = append(sites, orderSite{short, tp.names[fi], fn, "proto.RangeExtensions", arg, tp.fset.Position(v.Pos()).Line, "", false})
								return true
							}
						}
						if se.Sel.Name == "Range" {
							// protoreflect.Message.Range / protoreflect.Map.Range: order unspecified
							tv, ok := tp.info.Types[se.X]
							if ok && tv.Type != nil {
								ts := types.TypeString(tv.Type, qualifier)
								if ts == "protoreflect.Message" || ts == "protoreflect.Map" {
									sites = append(sites, orderSite{short, tp.names[fi], fn, ts + ".Range", exprString(tp, se.X), tp.fset.Position(v.Pos()).Line, "", false})
								}
							}
						}
					}
					return true
				})
				for k, nd := range nodes {
					sites[first+k].Body, sites[first+k].Sorted = siteShape(tp, fd, nd)
				}
			}
		}
	}
	sort.SliceStable(sites, func(i, j int) bool {
		a, b := sites[i], sites[j]
		if a.Pkg != b.Pkg {
			return a.Pkg < b.Pkg
		}
		if a.File != b.File {
			return a.File < b.File
		}
		return a.Line < b.Line
	})
	var sb strings.Builder
	sb.WriteString("From Coq Require Import String List.\nImport ListNotations.\nLocal Open Scope string_scope.\n")
	sb.WriteString("(* Every iteration whose order the Go language / protobuf-go leaves unspecified, in the packages on the\n")
	sb.WriteString("   compile and print path (j5convert, protobuild, protoprint, optionreflect, sourcewalk, j5parse, internal/bcl/**, lib/j5reflect), by go/types:\n")
	sb.WriteString("   `range` over a map, maps.Keys/Values, protoreflect Message.Range / Map.Range, sync.Map.Range, reflect MapKeys/MapRange, proto.RangeExtensions.\n")
	sb.WriteString("   (package, file, function, kind, ranged expression) *)\n")
	sb.WriteString("Definition sites : list (string * string * string * string * string) := [\n")
	var rows []string
	for _, s := range sites {
		rows = append(rows, fmt.Sprintf("  (%s, %s, %s, %s, %s)", coqStr(s.Pkg), coqStr(s.File), coqStr(s.Func), coqStr(s.Kind), coqStr(s.Expr)))
	}
	sb.WriteString(strings.Join(rows, ";\n"))
	sb.WriteString("\n].\n")
	sb.WriteString("(* what each of them does with the elements: the shape of the loop body (statement kinds in order: mapset = assignment\n")
	sb.WriteString("   to a map element, append, assign, call:<callee>, if(<cond>){...}, return, continue, break, loop{...}; for a key-list call\n")
	sb.WriteString("   the expression it is an argument of; `dead:` = inside `if false`), and whether a sort call follows in the same function *)\n")
	sb.WriteString("Definition bodies : list ((string * string * string * string * string) * string * bool) := [\n")
	rows = nil
	for _, s := range sites {
		rows = append(rows, fmt.Sprintf("  ((%s, %s, %s, %s, %s), %s, %s)", coqStr(s.Pkg), coqStr(s.File), coqStr(s.Func), coqStr(s.Kind), coqStr(s.Expr), coqStr(s.Body), coqBool(s.Sorted)))
	}
	sb.WriteString(strings.Join(rows, ";\n"))
	sb.WriteString("\n].\n")
	mk, err := mapKeyTables(repo)
	if err != nil {
		return "", err
	}
	sb.WriteString(mk)
	return sb.String(), nil
}

// every kind a protobuf map key can have (language guide: any integral or string type, bool)
var mapKeyKinds = []string{"BoolKind", "Int32Kind", "Sint32Kind", "Sfixed32Kind", "Int64Kind", "Sint64Kind", "Sfixed64Kind",
	"Uint32Kind", "Fixed32Kind", "Uint64Kind", "Fixed64Kind", "StringKind"}

type kindSwitch struct {
	Func    string
	Kinds   []string
	Default bool
}

// kindSwitches: every `switch` of n all of whose case labels are protoreflect.<X>Kind selectors
func kindSwitches(fn string, n ast.Node) []kindSwitch {
	var out []kindSwitch
	ast.Inspect(n, func(x ast.Node) bool {
		sw, ok := x.(*ast.SwitchStmt)
		if !ok || sw.Body == nil {
			return true
		}
		ks := kindSwitch{Func: fn}
		all := true
		for _, st := range sw.Body.List {
			cc, ok := st.(*ast.CaseClause)
			if !ok {
				continue
			}
			if cc.List == nil {
				ks.Default = true
				continue
			}
			for _, e := range cc.List {
				se, ok := e.(*ast.SelectorExpr)
				if id, ok2 := func() (*ast.Ident, bool) {
					if !ok {
						return nil, false
					}
					id, ok2 := se.X.(*ast.Ident)
					return id, ok2
				}(); ok2 && id.Name == "protoreflect" && strings.HasSuffix(se.Sel.Name, "Kind") {
					ks.Kinds = append(ks.Kinds, se.Sel.Name)
				} else {
					all = false
				}
			}
		}
		if all && len(ks.Kinds) > 0 {
			sort.Strings(ks.Kinds)
			out = append(out, ks)
		}
		return true
	})
	return out
}

// calledFuncs: the package-level functions (by name) called inside n, transitively
func calledFuncs(funcs map[string]*ast.FuncDecl, n ast.Node, seen map[string]bool) {
	ast.Inspect(n, func(x ast.Node) bool {
		ce, ok := x.(*ast.CallExpr)
		if !ok {
			return true
		}
		if id, ok := ce.Fun.(*ast.Ident); ok {
			if fd, ok := funcs[id.Name]; ok && !seen[id.Name] {
				seen[id.Name] = true
				calledFuncs(funcs, fd, seen)
			}
		}
		return true
	})
}

// mapKeyTables: how optionreflect.walkOptionMap orders the entries of a map-valued option.  The comparator handed to the
// sort call that follows the Map.Range, with every package function it calls: its switches over protoreflect kinds (none =
// the comparator does not look at the key kind); and the kind switches of everything else walkOptionMap calls (the printed
// key comes from marshalSingular).  A key kind without an arm in one of them falls into `default` / past the switch.
func mapKeyTables(repo string) (string, error) {
	tp, err := loadTyped(repo, "internal/j5s/protoprint/optionreflect")
	if err != nil {
		return "", err
	}
	funcs := map[string]*ast.FuncDecl{}
	for _, f := range tp.files {
		for _, d := range f.Decls {
			if fd, ok := d.(*ast.FuncDecl); ok && fd.Body != nil && fd.Recv == nil {
				funcs[fd.Name.Name] = fd
			}
		}
	}
	wm, ok := funcs["walkOptionMap"]
	if !ok {
		return "", fmt.Errorf("optionreflect: func walkOptionMap not found")
	}
	sortFound, litCmp := false, true
	var cmpSw, otherSw []kindSwitch
	cmpSeen := map[string]bool{}
	var cmpNodes []ast.Node
	ast.Inspect(wm, func(x ast.Node) bool {
		ce, ok := x.(*ast.CallExpr)
		if !ok {
			return true
		}
		se, ok := ce.Fun.(*ast.SelectorExpr)
		if !ok {
			return true
		}
		id, ok := se.X.(*ast.Ident)
		if !ok || !(id.Name == "sort" || id.Name == "slices") || !(strings.HasPrefix(se.Sel.Name, "Slice") || strings.HasPrefix(se.Sel.Name, "Sort") || strings.HasPrefix(se.Sel.Name, "Stable")) {
			return true
		}
		sortFound = true
		hasLit := false
		for _, a := range ce.Args {
			if fl, ok := a.(*ast.FuncLit); ok {
				hasLit = true
				cmpNodes = append(cmpNodes, fl)
				cmpSw = append(cmpSw, kindSwitches("<comparator>", fl)...)
				calledFuncs(funcs, fl, cmpSeen)
			}
		}
		if !hasLit {
			litCmp = false // sort.Sort(x) / a named comparator: not analysed
		}
		return true
	})
	var names []string
	for n := range cmpSeen {
		names = append(names, n)
	}
	sort.Strings(names)
	for _, n := range names {
		cmpSw = append(cmpSw, kindSwitches(n, funcs[n])...)
	}
	// everything else walkOptionMap calls (outside the comparator)
	otherSeen := map[string]bool{}
	calledFuncs(funcs, wm, otherSeen)
	names = nil
	for n := range otherSeen {
		if !cmpSeen[n] {
			names = append(names, n)
		}
	}
	sort.Strings(names)
	for _, n := range names {
		otherSw = append(otherSw, kindSwitches(n, funcs[n])...)
	}
	row := func(ks []kindSwitch) string {
		var rows []string
		for _, k := range ks {
			rows = append(rows, fmt.Sprintf("  (%s, %s, %s)", coqStr(k.Func), coqStrList(k.Kinds), coqBool(k.Default)))
		}
		return "[\n" + strings.Join(rows, ";\n") + "\n]"
	}
	var sb strings.Builder
	sb.WriteString("(* optionreflect/walk.go walkOptionMap: the entries of a map-valued option are collected in Map.Range order and sorted.\n")
	sb.WriteString("   map_key_kinds: every kind a protobuf map key can have.  map_key_sort: a sort call is there, its comparator is a function\n")
	sb.WriteString("   literal.  map_key_cmp_switches: every switch over protoreflect kinds in the comparator and in the package functions it\n")
	sb.WriteString("   calls (function, kinds with an arm, has a default arm); empty = the comparator does not look at the key kind.\n")
	sb.WriteString("   map_key_print_switches: the same for everything else walkOptionMap calls (the printed key: marshalSingular) *)\n")
	sb.WriteString("Definition map_key_kinds : list string := " + coqStrList(mapKeyKinds) + ".\n")
	sb.WriteString("Definition map_key_sort : bool * bool := (" + coqBool(sortFound) + ", " + coqBool(litCmp) + ").\n")
	sb.WriteString("Definition map_key_cmp_switches : list (string * list string * bool) := " + row(cmpSw) + ".\n")
	sb.WriteString("Definition map_key_print_switches : list (string * list string * bool) := " + row(otherSw) + ".\n")
	return sb.String(), nil
}

// siteShape describes what an unordered iteration does with its elements.
func siteShape(tp *typedPkg, fd *ast.FuncDecl, site ast.Node) (string, bool) {
	var stack []ast.Node
	found := false
	walkWithStack(fd, func(n ast.Node, st []ast.Node) {
		if n == site && !found {
			found = true
			stack = append([]ast.Node{}, st...)
		}
	})
	dead := false
	for i, a := range stack {
		if is, ok := a.(*ast.IfStmt); ok {
			if id, ok := is.Cond.(*ast.Ident); ok && id.Name == "false" && i+1 < len(stack) && stack[i+1] == ast.Node(is.Body) {
				dead = true
			}
		}
	}
	var shape string
	switch v := site.(type) {
	case *ast.RangeStmt:
		shape = blockShape(tp, v.Body.List)
	case *ast.CallExpr:
		// X.Range(func...) / proto.RangeExtensions(x, func...): the callback; maps.Keys(x): its use
		var cb *ast.FuncLit
		for _, a := range v.Args {
			if fl, ok := a.(*ast.FuncLit); ok {
				cb = fl
			}
		}
		if cb != nil {
			shape = blockShape(tp, cb.Body.List)
		} else if len(stack) > 0 {
			switch p := stack[len(stack)-1].(type) {
			case *ast.CallExpr:
				shape = "arg of " + exprString(tp, p.Fun)
			case *ast.AssignStmt:
				shape = "assigned"
			case *ast.ReturnStmt:
				shape = "returned"
			default:
				shape = fmt.Sprintf("in %T", p)
			}
		}
	}
	if dead {
		shape = "dead:" + shape
	}
	sorted := false
	ast.Inspect(fd, func(n ast.Node) bool {
		c, ok := n.(*ast.CallExpr)
		if !ok || c.Pos() <= site.Pos() {
			return true
		}
		switch exprString(tp, c.Fun) {
		case "sort.Strings", "sort.Slice", "sort.SliceStable", "sort.Sort", "sort.Stable", "slices.Sort", "slices.SortFunc", "slices.SortStableFunc":
			sorted = true
		}
		return true
	})
	return shape, sorted
}

func blockShape(tp *typedPkg, stmts []ast.Stmt) string {
	var parts []string
	for _, st := range stmts {
		switch v := st.(type) {
		case *ast.AssignStmt:
			kind := "assign"
			for _, l := range v.Lhs {
				if ix, ok := l.(*ast.IndexExpr); ok {
					if tv, ok := tp.info.Types[ix.X]; ok && tv.Type != nil {
						if _, isMap := tv.Type.Underlying().(*types.Map); isMap {
							kind = "mapset"
						}
					}
				}
			}
			if len(v.Rhs) == 1 {
				if c, ok := v.Rhs[0].(*ast.CallExpr); ok {
					if id, ok := c.Fun.(*ast.Ident); ok && id.Name == "append" {
						kind = "append"
					}
				}
			}
			parts = append(parts, kind)
		case *ast.ExprStmt:
			if c, ok := v.X.(*ast.CallExpr); ok {
				parts = append(parts, "call:"+exprString(tp, c.Fun))
			} else {
				parts = append(parts, "expr")
			}
		case *ast.IfStmt:
			cond := "cond"
			if id, ok := v.Cond.(*ast.Ident); ok && id.Name == "false" {
				cond = "false"
			}
			s := "if(" + cond + "){" + blockShape(tp, v.Body.List) + "}"
			if v.Else != nil {
				if eb, ok := v.Else.(*ast.BlockStmt); ok {
					s += "else{" + blockShape(tp, eb.List) + "}"
				} else {
					s += "else{" + blockShape(tp, []ast.Stmt{v.Else}) + "}"
				}
			}
			parts = append(parts, s)
		case *ast.ReturnStmt:
			parts = append(parts, "return")
		case *ast.BranchStmt:
			parts = append(parts, strings.ToLower(v.Tok.String()))
		case *ast.RangeStmt:
			parts = append(parts, "loop{"+blockShape(tp, v.Body.List)+"}")
		case *ast.ForStmt:
			parts = append(parts, "loop{"+blockShape(tp, v.Body.List)+"}")
		case *ast.SwitchStmt, *ast.TypeSwitchStmt:
			parts = append(parts, "switch")
		case *ast.DeclStmt:
			parts = append(parts, "decl")
		case *ast.IncDecStmt:
			parts = append(parts, "assign")
		default:
			parts = append(parts, fmt.Sprintf("%T", v))
		}
	}
	return strings.Join(parts, ";")
}

// anchored files whose explicit panic( calls are listed (C07 + C14 anchors that this family models)
var panicDirs = []string{
	"internal/j5s/j5convert",
	"internal/j5s/protobuild",
	"internal/j5s/protoprint",
	"internal/j5s/protoprint/optionreflect",
	"internal/j5s/sourcewalk",
	"internal/j5s/j5parse",
}

var panicSyntaxDirs = []string{
	"internal/bcl", "internal/bcl/errpos", "internal/bcl/internal/parser", "internal/bcl/internal/walker",
	"internal/bcl/internal/walker/schema", "internal/bcl/internal/linter", "lib/j5reflect",
}

func genPanic(repo string) (string, error) {
	type ps struct {
		Pkg, File, Func, Arg string
		Line                 int
	}
	var sites []ps
	for _, dir := range panicDirs {
		tp, err := loadTyped(repo, dir)
		if err != nil {
			return "", err
		}
		short := dir[strings.LastIndex(dir, "/")+1:]
		for fi, f := range tp.files {
			for _, d := range f.Decls {
				fd, ok := d.(*ast.FuncDecl)
				if !ok || fd.Body == nil {
					continue
				}
				ast.Inspect(fd, func(n ast.Node) bool {
					call, ok := n.(*ast.CallExpr)
					if !ok {
						return true
					}
					id, ok := call.Fun.(*ast.Ident)
					if !ok || id.Name != "panic" {
						return true
					}
					if obj, ok := tp.info.Uses[id]; ok {
						if _, isBuiltin := obj.(*types.Builtin); !isBuiltin {
							return true
						}
					}
					arg := ""
					if len(call.Args) == 1 {
						arg = exprString(tp, call.Args[0])
					}
					sites = append(sites, ps{short, tp.names[fi], funcName(fd), arg, tp.fset.Position(call.Pos()).Line})
					return true
				})
			}
		}
	}
	// the front end (internal/bcl/**: parse.go, parser, walker, walker/schema, errpos, linter) and
	// lib/j5reflect (the walker writes through it; value_ast.go is an anchor) by syntax only
	for _, dir := range panicSyntaxDirs {
		ents, err := os.ReadDir(filepath.Join(repo, dir))
		if err != nil {
			return "", err
		}
		short := dir[strings.LastIndex(dir, "/")+1:]
		if dir == "internal/bcl" {
			short = "bcl"
		}
		for _, e := range ents {
			n := e.Name()
			if e.IsDir() || !strings.HasSuffix(n, ".go") || strings.HasSuffix(n, "_test.go") {
				continue
			}
			src, err := os.ReadFile(filepath.Join(repo, dir, n))
			if err != nil {
				return "", err
			}
			if strings.Contains(string(src), "//go:build verif") {
				continue
			}
			fset := token.NewFileSet()
			f, err := parser.ParseFile(fset, filepath.Join(repo, dir, n), src, 0)
			if err != nil {
				return "", err
			}
			for _, d := range f.Decls {
				fd, ok := d.(*ast.FuncDecl)
				if !ok || fd.Body == nil {
					continue
				}
				ast.Inspect(fd, func(nd ast.Node) bool {
					call, ok := nd.(*ast.CallExpr)
					if !ok {
						return true
					}
					if id, ok := call.Fun.(*ast.Ident); ok && id.Name == "panic" && id.Obj == nil {
						var b bytes.Buffer
						if len(call.Args) == 1 {
							printer.Fprint(&b, fset, call.Args[0])
						}
						sites = append(sites, ps{short, n, funcName(fd), strings.Join(strings.Fields(b.String()), " "), fset.Position(call.Pos()).Line})
					}
					return true
				})
			}
		}
	}
	sort.SliceStable(sites, func(i, j int) bool {
		a, b := sites[i], sites[j]
		if a.Pkg != b.Pkg {
			return a.Pkg < b.Pkg
		}
		if a.File != b.File {
			return a.File < b.File
		}
		return a.Line < b.Line
	})
	var sb strings.Builder
	sb.WriteString("From Coq Require Import String List.\nImport ListNotations.\nLocal Open Scope string_scope.\n")
	sb.WriteString("(* Every explicit panic( call in the compile/print path: j5convert, protobuild, protoprint, optionreflect, sourcewalk, j5parse (typed) and the front end internal/bcl/** plus lib/j5reflect (syntactic): (package, file, function, argument). *)\n")
	sb.WriteString("Definition sites : list (string * string * string * string) := [\n")
	var rows []string
	for _, s := range sites {
		rows = append(rows, fmt.Sprintf("  (%s, %s, %s, %s)", coqStr(s.Pkg), coqStr(s.File), coqStr(s.Func), coqStr(s.Arg)))
	}
	sb.WriteString(strings.Join(rows, ";\n"))
	sb.WriteString("\n].\n")
	return sb.String(), nil
}

package main

import (
	"crypto/sha256"
	"encoding/hex"
	"os"
	"path/filepath"
	"sort"
	"strings"
)

// The typed analyses take ~25 s of `go list` + type-checking. Their output is a function of
// the analysed sources (and of go.mod/go.sum, which pin every dependency), so it is cached
// under <bin>/../gencache/<sha256 of those inputs>/<file>. A changed input changes the key.
var cacheInputDirs = []string{
	"internal/j5s/j5convert",
	"internal/j5s/protobuild",
	"internal/j5s/protoprint",
	"internal/j5s/protoprint/optionreflect",
	"internal/j5s/sourcewalk",
	"internal/j5s/j5parse",
	"internal/bcl", "internal/bcl/errpos", "internal/bcl/internal/parser", "internal/bcl/internal/walker",
	"internal/bcl/internal/walker/schema", "internal/bcl/internal/linter", "lib/j5reflect",
	"gen/j5/ext/v1/ext_j5pb",
	"gen/j5/list/v1/list_j5pb",
	"gen/j5/messaging/v1/messaging_j5pb",
}
var cacheInputFiles = []string{"go.mod", "go.sum"}

func cacheKey(repo string) (string, error) {
	h := sha256.New()
	var files []string
	for _, d := range cacheInputDirs {
		ents, err := os.ReadDir(filepath.Join(repo, d))
		if err != nil {
			return "", err
		}
		for _, e := range ents {
			if !e.IsDir() && strings.HasSuffix(e.Name(), ".go") && !strings.HasSuffix(e.Name(), "_test.go") {
				files = append(files, filepath.Join(d, e.Name()))
			}
		}
	}
	files = append(files, cacheInputFiles...)
	sort.Strings(files)
	for _, f := range files {
		b, err := os.ReadFile(filepath.Join(repo, f))
		if err != nil {
			return "", err
		}
		h.Write([]byte(f))
		h.Write([]byte{0})
		h.Write(b)
		h.Write([]byte{0})
	}
	// the translator itself is part of the key
	if exe, err := os.Executable(); err == nil {
		if b, err := os.ReadFile(exe); err == nil {
			s := sha256.Sum256(b)
			h.Write(s[:])
		}
	}
	return hex.EncodeToString(h.Sum(nil))[:24], nil
}

func cacheDir() string {
	exe, err := os.Executable()
	if err != nil {
		return ""
	}
	return filepath.Join(filepath.Dir(exe), "..", "gencache")
}

// cached wraps a generator with the on-disk cache.
func cached(name string, g func(repo string) (string, error)) func(repo string) (string, error) {
	return func(repo string) (string, error) {
		if os.Getenv("VERIF_GEN_NOCACHE") != "" || cacheDir() == "" {
			return g(repo)
		}
		key, err := cacheKey(repo)
		if err != nil {
			return g(repo)
		}
		p := filepath.Join(cacheDir(), "cmpb-"+key, name)
		if b, err := os.ReadFile(p); err == nil && len(b) > 0 {
			return string(b), nil
		}
		out, err := g(repo)
		if err != nil {
			return out, err
		}
		if os.MkdirAll(filepath.Dir(p), 0o755) == nil {
			tmp := p + ".tmp"
			if os.WriteFile(tmp, []byte(out), 0o644) == nil {
				os.Rename(tmp, p)
			}
		}
		return out, nil
	}
}

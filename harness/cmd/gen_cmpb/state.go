package main

import (
	"fmt"
	"go/ast"
	"go/token"
	"go/types"
	"sort"
	"strings"

	"verifharness/gen"
)

// StateGen.v: process-level state on the compile / print path (C14: "independent of what else was compiled
// earlier in the same process"). Every package-level `var` of the packages of orderDirs whose type can hold
// mutable state (map, slice, chan, pointer, struct, interface, anything from package sync), with
//   - how it is initialised,
//   - whether any function of its package writes through it after initialisation: assignment to the variable
//     or to an element / field of it, append to it, delete from it, a call of a pointer-receiver or
//     sync-style method on it (Store, LoadOrStore, Delete, Do, Lock, Put, Add, ...), taking its address.
// Constants, basic-typed variables and `var _ Iface = ...` assertions are not state and are not listed.

func init() { gen.Register("StateGen.v", cached("StateGen.v", genState)) }

type stateVar struct {
	Pkg, File, Name, Kind, Type, Init string
	Writes                          []string
}

func typeKind(t types.Type) string {
	if n, ok := t.(*types.Named); ok {
		if n.Obj().Pkg() != nil && (n.Obj().Pkg().Path() == "sync" || n.Obj().Pkg().Path() == "sync/atomic") {
			return "sync"
		}
	}
	switch u := t.Underlying().(type) {
	case *types.Map:
		return "map"
	case *types.Slice:
		return "slice"
	case *types.Chan:
		return "chan"
	case *types.Pointer:
		if n, ok := u.Elem().(*types.Named); ok && n.Obj().Pkg() != nil && n.Obj().Pkg().Path() == "sync" {
			return "sync"
		}
		return "pointer"
	case *types.Struct:
		return "struct"
	case *types.Interface:
		return "interface"
	case *types.Signature:
		return "func"
	case *types.Array:
		return "array"
	}
	return "basic"
}

var mutatingMethods = map[string]bool{
	"Store": true, "LoadOrStore": true, "LoadAndDelete": true, "Delete": true, "Swap": true, "CompareAndSwap": true,
	"CompareAndDelete": true, "Range": false, "Do": true, "Lock": true, "Unlock": true, "RLock": true, "Put": true, "Get": true,
	"Add": true, "Set": true, "Register": true, "Reset": true, "Clear": true, "Write": true,
}

func genState(repo string) (string, error) {
	var vars []stateVar
	for _, dir := range orderDirs {
		tp, err := loadTyped(repo, dir)
		if err != nil {
			return "", err
		}
		short := dir[strings.LastIndex(dir, "/")+1:]
		if dir == "internal/bcl/internal/walker/schema" {
			short = "walker/schema"
		}
		if dir == "internal/bcl" {
			short = "bcl"
		}
		// package-level variables
		objs := map[types.Object]*stateVar{}
		var order []*stateVar
		for fi, f := range tp.files {
			for _, d := range f.Decls {
				gd, ok := d.(*ast.GenDecl)
				if !ok || gd.Tok != token.VAR {
					continue
				}
				for _, sp := range gd.Specs {
					vs := sp.(*ast.ValueSpec)
					for i, id := range vs.Names {
						if id.Name == "_" {
							continue
						}
						obj := tp.info.Defs[id]
						if obj == nil {
							continue
						}
						k := typeKind(obj.Type())
						if k == "basic" || k == "func" {
							continue
						}
						init := "none"
						if i < len(vs.Values) {
							switch v := vs.Values[i].(type) {
							case *ast.CompositeLit:
								init = "literal"
							case *ast.UnaryExpr:
								init = "literal"
								_ = v
							case *ast.CallExpr:
								init = "call " + exprString(tp, v.Fun)
							default:
								init = "expr"
							}
						}
						sv := &stateVar{Pkg: short, File: tp.names[fi], Name: id.Name, Kind: k,
							Type: types.TypeString(obj.Type(), qualifier), Init: init}
						objs[obj] = sv
						order = append(order, sv)
					}
				}
			}
		}
		if len(objs) == 0 {
			continue
		}
		// writes through them in function bodies
		rootIdent := func(e ast.Expr) *ast.Ident {
			for {
				switch v := e.(type) {
				case *ast.Ident:
					return v
				case *ast.IndexExpr:
					e = v.X
				case *ast.SelectorExpr:
					e = v.X
				case *ast.StarExpr:
					e = v.X
				case *ast.ParenExpr:
					e = v.X
				default:
					return nil
				}
			}
		}
		note := func(id *ast.Ident, what, fn string) {
			if id == nil {
				return
			}
			if sv, ok := objs[tp.info.Uses[id]]; ok {
				sv.Writes = append(sv.Writes, what+" in "+fn)
			}
		}
		for _, f := range tp.files {
			for _, d := range f.Decls {
				fd, ok := d.(*ast.FuncDecl)
				if !ok || fd.Body == nil {
					continue
				}
				fn := funcName(fd)
				ast.Inspect(fd.Body, func(n ast.Node) bool {
					switch v := n.(type) {
					case *ast.AssignStmt:
						for _, l := range v.Lhs {
							note(rootIdent(l), "assign", fn)
						}
					case *ast.IncDecStmt:
						note(rootIdent(v.X), "assign", fn)
					case *ast.UnaryExpr:
						if v.Op == token.AND {
							note(rootIdent(v.X), "address", fn)
						}
					case *ast.CallExpr:
						if id, ok := v.Fun.(*ast.Ident); ok && (id.Name == "delete" || id.Name == "clear") && len(v.Args) > 0 {
							note(rootIdent(v.Args[0]), id.Name, fn)
						}
						if se, ok := v.Fun.(*ast.SelectorExpr); ok && mutatingMethods[se.Sel.Name] {
							note(rootIdent(se.X), "call "+se.Sel.Name, fn)
						}
					}
					return true
				})
			}
		}
		for _, sv := range order {
			sort.Strings(sv.Writes)
			vars = append(vars, *sv)
		}
	}
	sort.SliceStable(vars, func(i, j int) bool {
		a, b := vars[i], vars[j]
		if a.Pkg != b.Pkg {
			return a.Pkg < b.Pkg
		}
		if a.File != b.File {
			return a.File < b.File
		}
		return a.Name < b.Name
	})
	var sb strings.Builder
	sb.WriteString("From Coq Require Import String List.\nImport ListNotations.\nLocal Open Scope string_scope.\n")
	sb.WriteString("(* Package-level variables that can hold mutable state, in the packages on the compile and print path (the\n")
	sb.WriteString("   directories of MapRangeGen), by go/types: (package, file, name, kind, type, initialiser, written).\n")
	sb.WriteString("   kind: map | slice | chan | pointer | struct | interface | array | sync.  written: some function of the package\n")
	sb.WriteString("   assigns to it / an element / a field, deletes from it, takes its address or calls a mutating method on it. *)\n")
	sb.WriteString("Definition vars : list (string * string * string * string * string * string * bool) := [\n")
	var rows []string
	for _, v := range vars {
		rows = append(rows, fmt.Sprintf("  (%s, %s, %s, %s, %s, %s, %s)", coqStr(v.Pkg), coqStr(v.File), coqStr(v.Name), coqStr(v.Kind), coqStr(v.Type), coqStr(v.Init), coqBool(len(v.Writes) > 0)))
	}
	sb.WriteString(strings.Join(rows, ";\n"))
	sb.WriteString("\n].\n")
	sb.WriteString("(* where the written ones are written *)\nDefinition writes : list (string * string * list string) := [\n")
	rows = nil
	for _, v := range vars {
		if len(v.Writes) > 0 {
			rows = append(rows, fmt.Sprintf("  (%s, %s, %s)", coqStr(v.Pkg), coqStr(v.Name), coqStrList(dedupeStrings(v.Writes))))
		}
	}
	sb.WriteString(strings.Join(rows, ";\n"))
	sb.WriteString("\n].\n")
	// ---- instance-level state: the fields of the struct types of these packages that are maps or sync primitives (caches
	// of a PackageSet / a parser / a resolver live here, not in package-level variables)
	var frows []string
	for _, dir := range orderDirs {
		tp, err := loadTyped(repo, dir)
		if err != nil {
			return "", err
		}
		short := dir[strings.LastIndex(dir, "/")+1:]
		if dir == "internal/bcl/internal/walker/schema" {
			short = "walker/schema"
		}
		if dir == "internal/bcl" {
			short = "bcl"
		}
		var prows []string
		for _, f := range tp.files {
			for _, d := range f.Decls {
				gd, ok := d.(*ast.GenDecl)
				if !ok || gd.Tok != token.TYPE {
					continue
				}
				for _, sp := range gd.Specs {
					ts, ok := sp.(*ast.TypeSpec)
					if !ok {
						continue
					}
					st, ok := ts.Type.(*ast.StructType)
					if !ok || st.Fields == nil {
						continue
					}
					for _, fl := range st.Fields.List {
						tv, ok := tp.info.Types[fl.Type]
						if !ok {
							continue
						}
						k := typeKind(tv.Type)
						if k != "map" && k != "sync" && k != "chan" {
							continue
						}
						names := fl.Names
						if len(names) == 0 {
							prows = append(prows, fmt.Sprintf("  (%s, %s, %s, %s)", coqStr(short), coqStr(ts.Name.Name), coqStr("<embedded>"), coqStr(k)))
						}
						for _, id := range names {
							prows = append(prows, fmt.Sprintf("  (%s, %s, %s, %s)", coqStr(short), coqStr(ts.Name.Name), coqStr(id.Name), coqStr(k)))
						}
					}
				}
			}
		}
		sort.Strings(prows)
		frows = append(frows, prows...)
	}
	sb.WriteString("(* instance-level state: every field of a struct type of these packages whose type is a map, a channel or a sync\n")
	sb.WriteString("   primitive: (package, struct type, field, kind) *)\n")
	sb.WriteString("Definition fields : list (string * string * string * string) := [\n")
	sb.WriteString(strings.Join(frows, ";\n"))
	sb.WriteString("\n].\n")
	return sb.String(), nil
}

func dedupeStrings(xs []string) []string {
	var out []string
	for i, x := range xs {
		if i == 0 || xs[i-1] != x {
			out = append(out, x)
		}
	}
	return out
}

package main

import (
	"fmt"
	"go/ast"
	"go/build"
	"go/parser"
	"go/token"
	"go/types"
	"os"
	"path/filepath"
	"sort"
	"strconv"
	"strings"

	"verifharness/gen"
)

func init() { gen.Register("SetExtGen.v", cached("SetExtGen.v", genSetExt)) }

// packages whose proto.SetExtension / ensureImport call sites are listed
var setExtDirs = []string{"internal/j5s/j5convert"}

type extInfo struct {
	Var      string // "ext_j5pb.E_Field"
	Name     string // "j5.ext.v1.field"
	Extendee string // "*descriptorpb.FieldOptions"
	GoType   string // "*ext_j5pb.FieldOptions"
	File     string // "j5/ext/v1/annotations.proto"
	Index    int    // position in the defining file's extension list
}

// extTable reads the generated *.pb.go of the package at importPath (resolved from repo)
// and returns its extension variables.
func extTable(repo, importPath, pkgName string) (map[string]extInfo, error) {
	old, _ := os.Getwd()
	os.Chdir(repo)
	bp, err := build.Default.Import(importPath, repo, build.FindOnly)
	os.Chdir(old)
	if err != nil {
		return nil, fmt.Errorf("locate %s: %w", importPath, err)
	}
	out := map[string]extInfo{}
	ents, err := os.ReadDir(bp.Dir)
	if err != nil {
		return nil, err
	}
	for _, e := range ents {
		if !strings.HasSuffix(e.Name(), ".pb.go") {
			continue
		}
		fset := token.NewFileSet()
		f, err := parser.ParseFile(fset, filepath.Join(bp.Dir, e.Name()), nil, 0)
		if err != nil {
			return nil, err
		}
		// slices of ExtensionInfo literals by variable name
		slices := map[string][]extInfo{}
		refs := map[string][2]string{} // E_X -> (slice var, index)
		ast.Inspect(f, func(n ast.Node) bool {
			switch v := n.(type) {
			case *ast.ValueSpec:
				for i, name := range v.Names {
					if i >= len(v.Values) {
						continue
					}
					cl, ok := v.Values[i].(*ast.CompositeLit)
					if !ok {
						continue
					}
					at, ok := cl.Type.(*ast.ArrayType)
					if !ok {
						continue
					}
					if se, ok := at.Elt.(*ast.SelectorExpr); !ok || se.Sel.Name != "ExtensionInfo" {
						continue
					}
					var list []extInfo
					for idx, el := range cl.Elts {
						ecl, ok := el.(*ast.CompositeLit)
						if !ok {
							continue
						}
						xi := extInfo{Index: idx}
						for _, kv := range ecl.Elts {
							kve, ok := kv.(*ast.KeyValueExpr)
							if !ok {
								continue
							}
							k := kve.Key.(*ast.Ident).Name
							switch k {
							case "ExtendedType", "ExtensionType":
								s := nilPtrType(kve.Value, pkgName)
								if k == "ExtendedType" {
									xi.Extendee = s
								} else {
									xi.GoType = s
								}
							case "Name", "Filename":
								if bl, ok := kve.Value.(*ast.BasicLit); ok {
									s, _ := strconv.Unquote(bl.Value)
									if k == "Name" {
										xi.Name = s
									} else {
										xi.File = s
									}
								}
							}
						}
						list = append(list, xi)
					}
					slices[name.Name] = list
				}
			case *ast.AssignStmt:
				// E_X = &file_xxx_extTypes[i]   (inside var ( ... ) these are ValueSpecs, handled below)
			}
			return true
		})
		ast.Inspect(f, func(n ast.Node) bool {
			v, ok := n.(*ast.ValueSpec)
			if !ok {
				return true
			}
			for i, name := range v.Names {
				if !strings.HasPrefix(name.Name, "E_") || i >= len(v.Values) {
					continue
				}
				ue, ok := v.Values[i].(*ast.UnaryExpr)
				if !ok {
					continue
				}
				ie, ok := ue.X.(*ast.IndexExpr)
				if !ok {
					continue
				}
				sv, ok := ie.X.(*ast.Ident)
				if !ok {
					continue
				}
				bl, ok := ie.Index.(*ast.BasicLit)
				if !ok {
					continue
				}
				refs[name.Name] = [2]string{sv.Name, bl.Value}
			}
			return true
		})
		for ev, r := range refs {
			list := slices[r[0]]
			idx, _ := strconv.Atoi(r[1])
			if idx < len(list) {
				xi := list[idx]
				xi.Var = pkgName + "." + ev
				out[xi.Var] = xi
			}
		}
	}
	return out, nil
}

// (*descriptorpb.MessageOptions)(nil) -> "*descriptorpb.MessageOptions"; (*PSMOptions)(nil) -> "*<pkg>.PSMOptions"
func nilPtrType(e ast.Expr, pkgName string) string {
	call, ok := e.(*ast.CallExpr)
	if !ok {
		return "?"
	}
	p, ok := call.Fun.(*ast.ParenExpr)
	if !ok {
		return "?"
	}
	st, ok := p.X.(*ast.StarExpr)
	if !ok {
		return "?"
	}
	switch t := st.X.(type) {
	case *ast.Ident:
		return "*" + pkgName + "." + t.Name
	case *ast.SelectorExpr:
		return "*" + t.X.(*ast.Ident).Name + "." + t.Sel.Name
	}
	return "?"
}

type extSite struct {
	File, Func, Arm string
	Line            int
	Op              string // "Set" or "Get"
	Ext             string
	VType           string
	Dest            string
	Ensured         []string // import paths ensured by direct statements of the enclosing blocks
	SetJ5Ext        bool     // an enclosing block calls setJ5Ext as a direct statement
}

type ensureSite struct {
	File, Func string
	Line       int
	Path       string // constant value or "<dynamic>"
}

// armLabel of the outermost enclosing type-switch case clause
func armLabel(tp *typedPkg, stack []ast.Node) string {
	for i, n := range stack {
		ts, ok := n.(*ast.TypeSwitchStmt)
		if !ok {
			continue
		}
		// next CaseClause below ts in the stack
		for _, m := range stack[i+1:] {
			if cc, ok := m.(*ast.CaseClause); ok {
				if cc.List == nil {
					return "default"
				}
				var ls []string
				for _, e := range cc.List {
					ls = append(ls, tp.typeString(e))
				}
				_ = ts
				return strings.Join(ls, ",")
			}
		}
	}
	return ""
}

// directCalls lists, for every enclosing statement list of the node (innermost block up to the
// function body), the calls made as direct statements: X.ensureImport(c) and X.setJ5Ext(...)
// (also as the right-hand side of an assignment).
func directCalls(tp *typedPkg, stack []ast.Node) (ensured []string, setj5 bool) {
	seen := map[string]bool{}
	consider := func(stmts []ast.Stmt) {
		for _, s := range stmts {
			var call *ast.CallExpr
			switch v := s.(type) {
			case *ast.ExprStmt:
				call, _ = v.X.(*ast.CallExpr)
			case *ast.AssignStmt:
				if len(v.Rhs) == 1 {
					call, _ = v.Rhs[0].(*ast.CallExpr)
				}
			}
			if call == nil {
				continue
			}
			se, ok := call.Fun.(*ast.SelectorExpr)
			if !ok {
				continue
			}
			switch se.Sel.Name {
			case "ensureImport":
				if len(call.Args) == 1 {
					p, ok := tp.constString(call.Args[0])
					if !ok {
						p = "<dynamic>"
					}
					if !seen[p] {
						seen[p] = true
						ensured = append(ensured, p)
					}
				}
			case "setJ5Ext":
				setj5 = true
			}
		}
	}
	for _, n := range stack {
		switch v := n.(type) {
		case *ast.BlockStmt:
			consider(v.List)
		case *ast.CaseClause:
			consider(v.Body)
		}
	}
	sort.Strings(ensured)
	return
}

func collectSites(repo string) ([]extSite, []ensureSite, map[string]string, error) {
	var sites []extSite
	var ens []ensureSite
	consts := map[string]string{}
	for _, dir := range setExtDirs {
		tp, err := loadTyped(repo, dir)
		if err != nil {
			return nil, nil, nil, err
		}
		// import path constants (…Import / pbTimestamp): every package-level string constant ending in ".proto"
		scope := tp.pkg.Scope()
		for _, n := range scope.Names() {
			if c, ok := scope.Lookup(n).(*types.Const); ok {
				s := c.Val().ExactString()
				if u, err := strconv.Unquote(s); err == nil && strings.HasSuffix(u, ".proto") {
					consts[n] = u
				}
			}
		}
		for fi, f := range tp.files {
			for _, d := range f.Decls {
				fd, ok := d.(*ast.FuncDecl)
				if !ok || fd.Body == nil {
					continue
				}
				walkWithStack(fd, func(n ast.Node, stack []ast.Node) {
					call, ok := n.(*ast.CallExpr)
					if !ok {
						return
					}
					se, ok := call.Fun.(*ast.SelectorExpr)
					if !ok {
						return
					}
					if se.Sel.Name == "ensureImport" && len(call.Args) == 1 {
						p, ok := tp.constString(call.Args[0])
						if !ok {
							p = "<dynamic>"
						}
						ens = append(ens, ensureSite{File: tp.names[fi], Func: funcName(fd), Line: tp.fset.Position(call.Pos()).Line, Path: p})
						return
					}
					x, ok := se.X.(*ast.Ident)
					if !ok || x.Name != "proto" || (se.Sel.Name != "SetExtension" && se.Sel.Name != "GetExtension") {
						return
					}
					st := extSite{File: tp.names[fi], Func: funcName(fd), Line: tp.fset.Position(call.Pos()).Line, Op: strings.TrimSuffix(se.Sel.Name, "Extension")}
					st.Arm = armLabel(tp, stack)
					st.Dest = tp.typeString(call.Args[0])
					if xs, ok := call.Args[1].(*ast.SelectorExpr); ok {
						if xp, ok := xs.X.(*ast.Ident); ok {
							st.Ext = xp.Name + "." + xs.Sel.Name
						}
					}
					if st.Op == "Set" && len(call.Args) == 3 {
						st.VType = tp.typeString(call.Args[2])
					}
					st.Ensured, st.SetJ5Ext = directCalls(tp, append(append([]ast.Node{}, stack...), n))
					sites = append(sites, st)
				})
			}
		}
	}
	sort.SliceStable(sites, func(i, j int) bool {
		if sites[i].File != sites[j].File {
			return sites[i].File < sites[j].File
		}
		return sites[i].Line < sites[j].Line
	})
	sort.SliceStable(ens, func(i, j int) bool {
		if ens[i].File != ens[j].File {
			return ens[i].File < ens[j].File
		}
		return ens[i].Line < ens[j].Line
	})
	return sites, ens, consts, nil
}

// import path of the package behind a qualified identifier used in j5convert
func importPathsOf(tp *typedPkg) map[string]string {
	out := map[string]string{}
	for _, f := range tp.files {
		for _, im := range f.Imports {
			p, _ := strconv.Unquote(im.Path.Value)
			name := ""
			if im.Name != nil {
				name = im.Name.Name
			} else if pk := tp.pkg; pk != nil {
				for _, ip := range pk.Imports() {
					if ip.Path() == p {
						name = ip.Name()
					}
				}
			}
			if name != "" {
				out[name] = p
			}
		}
	}
	return out
}

func genSetExt(repo string) (string, error) {
	sites, ens, consts, err := collectSites(repo)
	if err != nil {
		return "", err
	}
	tp, err := loadTyped(repo, setExtDirs[0])
	if err != nil {
		return "", err
	}
	paths := importPathsOf(tp)
	// extension table for every package that provides an E_ variable used at a site
	pkgs := map[string]bool{}
	for _, s := range sites {
		if i := strings.Index(s.Ext, "."); i > 0 {
			pkgs[s.Ext[:i]] = true
		}
	}
	exts := map[string]extInfo{}
	for _, pn := range sortedKeys(pkgs) {
		ip, ok := paths[pn]
		if !ok {
			return "", fmt.Errorf("no import path for package %s", pn)
		}
		t, err := extTable(repo, ip, pn)
		if err != nil {
			return "", err
		}
		for k, v := range t {
			exts[k] = v
		}
	}
	for _, s := range sites {
		if _, ok := exts[s.Ext]; !ok {
			return "", fmt.Errorf("%s:%d: extension %q not found in its package's generated code", s.File, s.Line, s.Ext)
		}
	}
	var sb strings.Builder
	sb.WriteString("From Coq Require Import String List.\nImport ListNotations.\nLocal Open Scope string_scope.\n")
	sb.WriteString("(* Extension variables of the packages used at the call sites below, read from their generated *.pb.go:\n")
	sb.WriteString("   (Go variable, proto full name, extendee Go type, value Go type, defining file, index in that file's extension list) *)\n")
	sb.WriteString("Definition exts : list (string * string * string * string * string * nat) := [\n")
	ek := sortedKeys(exts)
	for i, k := range ek {
		x := exts[k]
		sep := ";"
		if i == len(ek)-1 {
			sep = ""
		}
		fmt.Fprintf(&sb, "  (%s, %s, %s, %s, %s, %d)%s\n", coqStr(x.Var), coqStr(x.Name), coqStr(x.Extendee), coqStr(x.GoType), coqStr(x.File), x.Index, sep)
	}
	sb.WriteString("].\n")
	sb.WriteString("(* Package-level string constants of internal/j5s/j5convert naming .proto files (imports.go). *)\n")
	sb.WriteString("Definition import_consts : list (string * string) := [\n")
	ck := sortedKeys(consts)
	for i, k := range ck {
		sep := ";"
		if i == len(ck)-1 {
			sep = ""
		}
		fmt.Fprintf(&sb, "  (%s, %s)%s\n", coqStr(k), coqStr(consts[k]), sep)
	}
	sb.WriteString("].\n")
	sb.WriteString("(* Every proto.SetExtension call in internal/j5s/j5convert, in source order (go/types):\n")
	sb.WriteString("   (file, function, outermost type-switch arm, extension variable, static type of the value,\n")
	sb.WriteString("    static type of the destination, import paths passed to ensureImport by direct statements of the\n")
	sb.WriteString("    enclosing blocks, whether an enclosing block calls setJ5Ext directly) *)\n")
	sb.WriteString("Definition sites : list (string * string * string * string * string * string * list string * bool) := [\n")
	var rows []string
	for _, s := range sites {
		if s.Op != "Set" {
			continue
		}
		rows = append(rows, fmt.Sprintf("  (%s, %s, %s, %s, %s, %s, %s, %s)", coqStr(s.File), coqStr(s.Func), coqStr(s.Arm), coqStr(s.Ext), coqStr(s.VType), coqStr(s.Dest), coqStrList(s.Ensured), coqBool(s.SetJ5Ext)))
	}
	sb.WriteString(strings.Join(rows, ";\n"))
	sb.WriteString("\n].\n")
	sb.WriteString("(* Every proto.GetExtension call with a type assertion target (file, function, extension variable, destination type). *)\n")
	sb.WriteString("Definition get_sites : list (string * string * string * string) := [\n")
	rows = nil
	for _, s := range sites {
		if s.Op != "Get" {
			continue
		}
		rows = append(rows, fmt.Sprintf("  (%s, %s, %s, %s)", coqStr(s.File), coqStr(s.Func), coqStr(s.Ext), coqStr(s.Dest)))
	}
	sb.WriteString(strings.Join(rows, ";\n"))
	sb.WriteString("\n].\n")
	sb.WriteString("(* Every ensureImport call (file, function, constant path or <dynamic>). *)\n")
	sb.WriteString("Definition ensure_sites : list (string * string * string) := [\n")
	rows = nil
	for _, s := range ens {
		rows = append(rows, fmt.Sprintf("  (%s, %s, %s)", coqStr(s.File), coqStr(s.Func), coqStr(s.Path)))
	}
	sb.WriteString(strings.Join(rows, ";\n"))
	sb.WriteString("\n].\n")
	xf, err := genExtFields(repo)
	if err != nil {
		return "", err
	}
	sb.WriteString(xf)
	return sb.String(), nil
}

// gen_cmpb: translator for the compiler-b family (C07, C14):
// coq/gen/SetExtGen.v, coq/gen/MapRangeGen.v, coq/gen/PanicGen.v.
package main

import "verifharness/gen"

func main() { gen.Main() }

package main

import (
	"fmt"
	"os"
	"path/filepath"
	"regexp"
	"sort"
	"strings"

	"github.com/iancoleman/strcase"
	"github.com/pentops/j5/gen/j5/schema/v1/schema_j5pb"
	"github.com/pentops/j5/gen/j5/sourcedef/v1/sourcedef_j5pb"
	"github.com/pentops/j5/lib/j5schema"
	shim "github.com/pentops/j5/lib/verifshim/cmpb"

	"verifharness/gen"

	"google.golang.org/protobuf/reflect/protoreflect"
)

// WalkSchemaGen.v: the two tables that drive the schema-directed BCL walker on .j5s files, as DATA:
//   specs   = j5parse.J5SchemaSpec (block specs: name / type-select / qualifier tags, description field,
//             aliases, scalar split), through the verif hook lib/verifshim/cmpb.WalkerSpec;
//   schemas = the j5schema closure of j5.sourcedef.v1.SourceFile as lib/j5reflect sees it (ClientProperties:
//             JSON name, required, the JSON names of the proto fields on the way (ProtoPath), the field kind,
//             the alias internal/bcl/internal/walker/schema._buildSpec derives for arrays / maps).
// The translator links the code of the repo its go.mod points at (the sandbox's for a seeded run).

func init() { gen.Register("WalkSchemaGen.v", genWalkSchema) }

type wsProp struct {
	name   string
	req    bool
	path   []string
	kind   int
	ref    string // schema name (containers) or scalar type name
	prefix string
	opts   []string
	alias  string
}

func wsScalar(f *schema_j5pb.Field) string {
	switch t := f.Type.(type) {
	case *schema_j5pb.Field_String_:
		return "string"
	case *schema_j5pb.Field_Key:
		return "key"
	case *schema_j5pb.Field_Bool:
		return "bool"
	case *schema_j5pb.Field_Integer:
		switch t.Integer.Format {
		case schema_j5pb.IntegerField_FORMAT_INT32:
			return "int32"
		case schema_j5pb.IntegerField_FORMAT_INT64:
			return "int64"
		case schema_j5pb.IntegerField_FORMAT_UINT32:
			return "uint32"
		case schema_j5pb.IntegerField_FORMAT_UINT64:
			return "uint64"
		}
		return "badint"
	case *schema_j5pb.Field_Float:
		switch t.Float.Format {
		case schema_j5pb.FloatField_FORMAT_FLOAT32:
			return "float32"
		case schema_j5pb.FloatField_FORMAT_FLOAT64:
			return "float64"
		}
		return "badfloat"
	case *schema_j5pb.Field_Any:
		return "anyscalar"
	}
	return fmt.Sprintf("unsupported:%T", f.Type)
}

func genWalkSchema(repo string) (string, error) {
	sc := j5schema.NewSchemaCache()
	root, err := sc.Schema((&sourcedef_j5pb.SourceFile{}).ProtoReflect().Descriptor())
	if err != nil {
		return "", err
	}
	seen := map[string]bool{}
	type sdef struct {
		name  string
		oneof bool
		props []wsProp
	}
	var all []sdef
	var visit func(rs j5schema.RootSchema, md protoreflect.MessageDescriptor) error
	var classify func(fs j5schema.FieldSchema, p *wsProp, depth int, md protoreflect.MessageDescriptor) error
	classify = func(fs j5schema.FieldSchema, p *wsProp, depth int, md protoreflect.MessageDescriptor) error {
		switch t := fs.(type) {
		case *j5schema.ObjectField:
			p.kind, p.ref = 1+3*depth, t.Ref.FullName()
			if depth == 2 {
				p.kind = 8
			}
			return visit(t.Ref.To, md)
		case *j5schema.OneofField:
			p.kind, p.ref = 2+3*depth, t.Ref.FullName()
			if depth == 2 {
				p.kind = 8
			}
			return visit(t.Ref.To, md)
		case *j5schema.EnumField:
			es, ok := t.Ref.To.(*j5schema.EnumSchema)
			if !ok {
				return fmt.Errorf("enum ref %s is %T", t.Ref.FullName(), t.Ref.To)
			}
			p.ref, p.prefix, p.opts = "enum", es.NamePrefix, es.OptionsList()
			p.kind = []int{0, 3, 6}[depth]
		case *j5schema.ScalarSchema:
			p.ref = wsScalar(t.Proto)
			p.kind = []int{0, 3, 6}[depth]
		case *j5schema.AnyField:
			p.kind = 7
		case *j5schema.ArrayField:
			if depth != 0 {
				p.kind = 9
				return nil
			}
			if t.Ext != nil && t.Ext.SingleForm != nil {
				p.alias = *t.Ext.SingleForm
			} else if of, ok := t.Schema.(*j5schema.ObjectField); ok {
				p.alias = strcase.ToLowerCamel(of.Ref.Schema)
			}
			return classify(t.Schema, p, 1, md)
		case *j5schema.MapField:
			if depth != 0 {
				p.kind = 9
				return nil
			}
			if t.Ext != nil && t.Ext.SingleForm != nil {
				p.alias = *t.Ext.SingleForm
			}
			return classify(t.Schema, p, 2, md)
		default:
			p.kind = 9
		}
		return nil
	}
	visit = func(rs j5schema.RootSchema, msg protoreflect.MessageDescriptor) error {
		name := rs.FullName()
		if seen[name] {
			return nil
		}
		seen[name] = true
		var props []*j5schema.ObjectProperty
		d := sdef{name: name}
		switch t := rs.(type) {
		case *j5schema.ObjectSchema:
			props = t.ClientProperties()
		case *j5schema.OneofSchema:
			props = t.ClientProperties()
			d.oneof = true
		default:
			return nil
		}
		idx := len(all)
		all = append(all, d)
		for _, p := range props {
			wp := wsProp{name: p.JSONName, req: p.Required}
			// the JSON names of the proto fields on the way: what propertyContext.ProtoPath() returns
			walk := msg
			var last protoreflect.FieldDescriptor
			for i, num := range p.ProtoField {
				if walk == nil {
					return fmt.Errorf("%s.%s: no descriptor", name, p.JSONName)
				}
				fd := walk.Fields().ByNumber(num)
				if fd == nil {
					return fmt.Errorf("%s.%s: field %d not in %s", name, p.JSONName, num, walk.FullName())
				}
				wp.path = append(wp.path, fd.JSONName())
				last = fd
				if i < len(p.ProtoField)-1 {
					walk = fd.Message()
				}
			}
			var sub protoreflect.MessageDescriptor
			if last != nil {
				if last.IsMap() {
					sub = last.MapValue().Message()
				} else {
					sub = last.Message()
				}
			}
			if err := classify(p.Schema, &wp, 0, sub); err != nil {
				return err
			}
			all[idx].props = append(all[idx].props, wp)
		}
		return nil
	}
	if err := visit(root, (&sourcedef_j5pb.SourceFile{}).ProtoReflect().Descriptor()); err != nil {
		return "", err
	}
	sort.Slice(all, func(i, j int) bool { return all[i].name < all[j].name })

	q := gen.CoqString
	strs := func(l []string) string {
		qs := make([]string, len(l))
		for i, s := range l {
			qs[i] = q(s)
		}
		return "[" + strings.Join(qs, "; ") + "]"
	}
	ostr := func(s *string) string {
		if s == nil {
			return "None"
		}
		return "(Some " + q(*s) + ")"
	}
	var b strings.Builder
	b.WriteString("(* GENERATED by harness/cmd/gen_cmpb (walkschema.go) from /repo: j5parse.J5SchemaSpec and the j5schema\n   closure of j5.sourcedef.v1.SourceFile.  Tables only. *)\n")
	b.WriteString("From Coq Require Import String List NArith.\nImport ListNotations.\nLocal Open Scope string_scope.\nLocal Open Scope N_scope.\n\n")
	b.WriteString("(* property = (json name, required, proto path, (kind, ref / scalar type, enum prefix, enum options), derived alias)\n   kind: 0 scalar 1 object 2 oneof 3 array of scalar 4 array of object 5 array of oneof 6 map of scalar 7 any 8 map of container 9 other *)\n")
	b.WriteString("Definition schemas : list (string * bool * list (string * bool * list string * (N * string * string * list string) * string)) := [\n")
	for i, d := range all {
		b.WriteString(fmt.Sprintf("  (%s, %v, [", q(d.name), d.oneof))
		for j, p := range d.props {
			if j > 0 {
				b.WriteString(";")
			}
			b.WriteString(fmt.Sprintf("\n     (%s, %v, %s, (%d, %s, %s, %s), %s)", q(p.name), p.req, strs(p.path), p.kind, q(p.ref), q(p.prefix), strs(p.opts), q(p.alias)))
		}
		b.WriteString("])")
		if i < len(all)-1 {
			b.WriteString(";")
		}
		b.WriteString("\n")
	}
	b.WriteString("].\n\n")
	b.WriteString("Definition root_schema : string := " + q(root.FullName()) + ".\n\n")

	tag := func(t *shim.SpecTag) string {
		if t == nil {
			return "None"
		}
		return fmt.Sprintf("(Some (%s, %s, %s, %v, %v))", q(t.FieldName), ostr(t.Bang), ostr(t.Question), t.IsBlock, t.Optional)
	}
	paths := func(ps [][]string) string {
		o := make([]string, len(ps))
		for i, p := range ps {
			o[i] = strs(p)
		}
		return "[" + strings.Join(o, "; ") + "]"
	}
	b.WriteString("(* block spec = (schema name, name tag, type-select tag, qualifier tag, description field, only explicit, aliases, scalar split)\n   tag = (field name, bang field, question field, is block, optional); split = (delimiter, right to left, required, optional, remainder) *)\n")
	b.WriteString("Definition specs : list (string * option (string * option string * option string * bool * bool) * option (string * option string * option string * bool * bool)\n   * option (string * option string * option string * bool * bool) * option string * bool * list (string * list string)\n   * option (option string * bool * list (list string) * list (list string) * option (list string))) := [\n")
	sp := shim.WalkerSpec()
	for i, s := range sp {
		var al []string
		for _, a := range s.Aliases {
			al = append(al, fmt.Sprintf("(%s, %s)", q(a.Name), strs(a.Path)))
		}
		split := "None"
		if s.Split != nil {
			rem := "None"
			if s.Split.HasRemainer {
				rem = "(Some " + strs(s.Split.Remainder) + ")"
			}
			split = fmt.Sprintf("(Some (%s, %v, %s, %s, %s))", ostr(s.Split.Delimiter), s.Split.RightToLeft, paths(s.Split.Required), paths(s.Split.Optional), rem)
		}
		b.WriteString(fmt.Sprintf("  (%s, %s, %s, %s, %s, %v, [%s], %s)", q(s.SchemaName), tag(s.Name), tag(s.TypeSelect), tag(s.Qualifier), ostr(s.Description), s.OnlyExplicit, strings.Join(al, "; "), split))
		if i < len(sp)-1 {
			b.WriteString(";")
		}
		b.WriteString("\n")
	}
	b.WriteString("].\n\n")

	// every (buf.validate.*) annotation of the two proto files behind the SourceFile message: (file, field or
	// "oneof", the option text with white space collapsed), in file order. validateFile (protovalidate) enforces them
	// after the walk; the model's rule list is checked against this table.
	b.WriteString("Definition validate_annotations : list (string * string * string) := [\n")
	var rows []string
	for _, pf := range []string{"proto/j5build/j5/sourcedef/v1/file.proto", "proto/j5/j5/schema/v1/schema.proto"} {
		src, err := os.ReadFile(filepath.Join(repo, pf))
		if err != nil {
			return "", err
		}
		var clean []string
		for _, ln := range strings.Split(string(src), "\n") {
			if i := strings.Index(ln, "//"); i >= 0 {
				ln = ln[:i]
			}
			clean = append(clean, ln)
		}
		text := strings.Join(clean, "\n")
		for _, m := range reFieldOpts.FindAllStringSubmatch(text, -1) {
			if strings.Contains(m[2], "buf.validate") {
				rows = append(rows, fmt.Sprintf("  (%s, %s, %s)", q(filepath.Base(pf)), q(m[1]), q(strings.Join(strings.Fields(m[2]), " "))))
			}
		}
		for _, m := range reOneofOpt.FindAllStringSubmatch(text, -1) {
			rows = append(rows, fmt.Sprintf("  (%s, %s, %s)", q(filepath.Base(pf)), q("oneof"), q(strings.Join(strings.Fields(m[1]), " "))))
		}
	}
	b.WriteString(strings.Join(rows, ";\n"))
	b.WriteString("\n].\n")
	return b.String(), nil
}

var reFieldOpts = regexp.MustCompile(`(?s)\b(\w+)\s*=\s*\d+\s*\[(.*?)\];`)
var reOneofOpt = regexp.MustCompile(`option\s*(\(buf\.validate\.oneof\)[^;]*);`)

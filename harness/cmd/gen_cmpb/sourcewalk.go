package main

import (
	"fmt"
	"go/ast"
	"go/token"
	"sort"
	"strconv"
	"strings"

	"verifharness/gen"
)

// SourcewalkGen.v: every SourceNode.child(...) call of internal/j5s/sourcewalk with its arguments
// (string literals as written, the constant virtualPathNode as "-", anything else as "#"), in source order.
// The C07 front-end model computes error positions from SourceNode PATHS; the paths it is fed are built
// from these calls.

func init() { gen.Register("SourcewalkGen.v", cached("SourcewalkGen.v", genSourcewalk)) }

func genSourcewalk(repo string) (string, error) {
	tp, err := loadTyped(repo, "internal/j5s/sourcewalk")
	if err != nil {
		return "", err
	}
	type call struct {
		File, Func string
		Args       []string
		Line       int
	}
	var calls []call
	for fi, f := range tp.files {
		for _, d := range f.Decls {
			fd, ok := d.(*ast.FuncDecl)
			if !ok || fd.Body == nil {
				continue
			}
			fn := funcName(fd)
			ast.Inspect(fd, func(n ast.Node) bool {
				c, ok := n.(*ast.CallExpr)
				if !ok {
					return true
				}
				se, ok := c.Fun.(*ast.SelectorExpr)
				if !ok || se.Sel.Name != "child" {
					return true
				}
				var args []string
				for _, a := range c.Args {
					switch v := a.(type) {
					case *ast.BasicLit:
						if v.Kind == token.STRING {
							if s, err := strconv.Unquote(v.Value); err == nil {
								args = append(args, s)
								continue
							}
						}
						args = append(args, "#")
					case *ast.Ident:
						if v.Name == "virtualPathNode" {
							args = append(args, "-")
						} else {
							args = append(args, "#")
						}
					default:
						args = append(args, "#")
					}
				}
				if c.Ellipsis != token.NoPos {
					args = append(args, "...")
				}
				calls = append(calls, call{tp.names[fi], fn, args, tp.fset.Position(c.Pos()).Line})
				return true
			})
		}
	}
	sort.SliceStable(calls, func(i, j int) bool {
		if calls[i].File != calls[j].File {
			return calls[i].File < calls[j].File
		}
		return calls[i].Line < calls[j].Line
	})
	var sb strings.Builder
	sb.WriteString("From Coq Require Import String List.\nImport ListNotations.\nLocal Open Scope string_scope.\n")
	sb.WriteString("(* Every SourceNode.child(...) call of internal/j5s/sourcewalk, in source order: (file, function, arguments).\n")
	sb.WriteString("   A string literal is given as written, the constant virtualPathNode as \"-\", any other expression as \"#\". *)\n")
	sb.WriteString("Definition child_calls : list (string * string * list string) := [\n")
	var rows []string
	for _, c := range calls {
		rows = append(rows, fmt.Sprintf("  (%s, %s, %s)", coqStr(c.File), coqStr(c.Func), coqStrList(c.Args)))
	}
	sb.WriteString(strings.Join(rows, ";\n"))
	sb.WriteString("\n].\n")
	return sb.String(), nil
}

package main

import (
	"fmt"
	"go/ast"
	"go/importer"
	"go/parser"
	"go/token"
	"go/types"
	"os"
	"path/filepath"
	"sort"
	"strings"
	"sync"
)

// typedPkg is one type-checked package of /repo (non-test files, no build tags).
type typedPkg struct {
	dir   string // relative to repo
	fset  *token.FileSet
	files []*ast.File
	names []string // base file names, parallel to files
	info  *types.Info
	pkg   *types.Package
}

var (
	typedMu    sync.Mutex
	typedCache = map[string]*typedPkg{}
	sharedFset = token.NewFileSet()
	sharedImp  types.Importer // one source importer for all packages: dependencies are type-checked once
)

// loadTyped parses and type-checks the package in repo/dir with the standard
// library only (importer "source" resolves imports from source, offline).
func loadTyped(repo, dir string) (*typedPkg, error) {
	typedMu.Lock()
	defer typedMu.Unlock()
	key := repo + "|" + dir
	if p, ok := typedCache[key]; ok {
		return p, nil
	}
	abs := filepath.Join(repo, dir)
	ents, err := os.ReadDir(abs)
	if err != nil {
		return nil, err
	}
	fset := sharedFset
	tp := &typedPkg{dir: dir, fset: fset}
	for _, e := range ents {
		n := e.Name()
		if e.IsDir() || !strings.HasSuffix(n, ".go") || strings.HasSuffix(n, "_test.go") {
			continue
		}
		src, err := os.ReadFile(filepath.Join(abs, n))
		if err != nil {
			return nil, err
		}
		if strings.Contains(string(src), "//go:build verif") {
			continue
		}
		f, err := parser.ParseFile(fset, filepath.Join(abs, n), src, parser.ParseComments)
		if err != nil {
			return nil, err
		}
		tp.files = append(tp.files, f)
		tp.names = append(tp.names, n)
	}
	// the source importer resolves module imports relative to the working directory
	old, _ := os.Getwd()
	if err := os.Chdir(abs); err != nil {
		return nil, err
	}
	defer os.Chdir(old)
	if sharedImp == nil {
		sharedImp = importer.ForCompiler(fset, "source", nil)
	}
	conf := types.Config{Importer: sharedImp, Error: func(error) {}}
	tp.info = &types.Info{
		Types: map[ast.Expr]types.TypeAndValue{},
		Uses:  map[*ast.Ident]types.Object{},
		Defs:  map[*ast.Ident]types.Object{},
	}
	pkg, err := conf.Check(dir, fset, tp.files, tp.info)
	if err != nil && pkg == nil {
		return nil, fmt.Errorf("type-check %s: %w", dir, err)
	}
	tp.pkg = pkg
	typedCache[key] = tp
	return tp, nil
}

func qualifier(p *types.Package) string { return p.Name() }

func (tp *typedPkg) typeString(e ast.Expr) string {
	tv, ok := tp.info.Types[e]
	if !ok || tv.Type == nil {
		return "?"
	}
	return types.TypeString(tv.Type, qualifier)
}

// constString returns the string value of e when it is a constant expression.
func (tp *typedPkg) constString(e ast.Expr) (string, bool) {
	tv, ok := tp.info.Types[e]
	if !ok || tv.Value == nil {
		return "", false
	}
	s := tv.Value.ExactString()
	if len(s) >= 2 && s[0] == '"' {
		var out string
		if _, err := fmt.Sscanf(s, "%q", &out); err == nil {
			return out, true
		}
	}
	return "", false
}

// funcName renders the enclosing function of a node: "Recv.name" or "name".
func funcName(fd *ast.FuncDecl) string {
	if fd.Recv != nil && len(fd.Recv.List) == 1 {
		t := fd.Recv.List[0].Type
		if st, ok := t.(*ast.StarExpr); ok {
			t = st.X
		}
		if id, ok := t.(*ast.Ident); ok {
			return id.Name + "." + fd.Name.Name
		}
	}
	return fd.Name.Name
}

// walkWithStack calls f for every node with the stack of its ancestors (outermost first).
func walkWithStack(root ast.Node, f func(n ast.Node, stack []ast.Node)) {
	var stack []ast.Node
	ast.Inspect(root, func(n ast.Node) bool {
		if n == nil {
			stack = stack[:len(stack)-1]
			return true
		}
		f(n, stack)
		stack = append(stack, n)
		return true
	})
}

func sortedKeys[V any](m map[string]V) []string {
	var ks []string
	for k := range m {
		ks = append(ks, k)
	}
	sort.Strings(ks)
	return ks
}

func coqStr(s string) string { return `"` + strings.ReplaceAll(s, `"`, `""`) + `"` }

func coqStrList(xs []string) string {
	q := make([]string, len(xs))
	for i, x := range xs {
		q[i] = coqStr(x)
	}
	return "[" + strings.Join(q, "; ") + "]"
}

func coqBool(b bool) string {
	if b {
		return "true"
	}
	return "false"
}

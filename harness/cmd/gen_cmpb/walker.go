package main

import (
	"fmt"
	"go/ast"
	"go/token"
	"go/types"
	"sort"
	"strings"

	"verifharness/gen"
)

// WalkerGen.v: the census of the UNMODELLED part of the C07 front end, the schema-driven BCL walker
// (internal/bcl/parse.go, internal/bcl/internal/walker/**):
//   - every function with a body (the coverage universe of the walker crash stream);
//   - every syntactic source of a Go run-time panic in them that go/types can see: explicit panic(,
//     type assertion without ", ok", index / slice expression on a slice, array or string, explicit
//     pointer dereference *x, assignment into a map element (nil map), conversion slice -> array.
// Implicit nil dereferences through field selection / method calls are NOT enumerable syntactically and
// are not listed.

func init() { gen.Register("WalkerGen.v", cached("WalkerGen.v", genWalker)) }

var walkerDirs = []string{
	"internal/bcl",
	"internal/bcl/internal/walker",
	"internal/bcl/internal/walker/schema",
}

func walkerShort(dir string) string {
	switch dir {
	case "internal/bcl":
		return "bcl"
	case "internal/bcl/internal/walker":
		return "walker"
	default:
		return "walker/schema"
	}
}

type walkerSite struct {
	Pkg, File, Func, Kind, Expr string
	Line                        int
}

func genWalker(repo string) (string, error) {
	var sites []walkerSite
	type fn struct{ Pkg, File, Func string }
	var funcs []fn
	for _, dir := range walkerDirs {
		tp, err := loadTyped(repo, dir)
		if err != nil {
			return "", err
		}
		short := walkerShort(dir)
		for fi, f := range tp.files {
			for _, d := range f.Decls {
				fd, ok := d.(*ast.FuncDecl)
				if !ok || fd.Body == nil {
					continue
				}
				name := funcName(fd)
				funcs = append(funcs, fn{short, tp.names[fi], name})
				add := func(kind string, e ast.Node, text string) {
					sites = append(sites, walkerSite{short, tp.names[fi], name, kind, text, tp.fset.Position(e.Pos()).Line})
				}
				// type assertions that are the operand of a comma-ok assignment or of a type switch
				okAsserts := map[*ast.TypeAssertExpr]bool{}
				lhsIndex := map[*ast.IndexExpr]bool{}
				ast.Inspect(fd, func(n ast.Node) bool {
					switch v := n.(type) {
					case *ast.AssignStmt:
						if len(v.Lhs) == 2 && len(v.Rhs) == 1 {
							if ta, ok := v.Rhs[0].(*ast.TypeAssertExpr); ok {
								okAsserts[ta] = true
							}
						}
						for _, l := range v.Lhs {
							if ix, ok := l.(*ast.IndexExpr); ok {
								lhsIndex[ix] = true
							}
						}
					case *ast.ValueSpec:
						if len(v.Names) == 2 && len(v.Values) == 1 {
							if ta, ok := v.Values[0].(*ast.TypeAssertExpr); ok {
								okAsserts[ta] = true
							}
						}
					case *ast.TypeSwitchStmt:
						ast.Inspect(v.Assign, func(m ast.Node) bool {
							if ta, ok := m.(*ast.TypeAssertExpr); ok && ta.Type == nil {
								okAsserts[ta] = true
							}
							return true
						})
					}
					return true
				})
				ast.Inspect(fd, func(n ast.Node) bool {
					switch v := n.(type) {
					case *ast.CallExpr:
						if id, ok := v.Fun.(*ast.Ident); ok && id.Name == "panic" {
							if obj, ok := tp.info.Uses[id]; ok {
								if _, isBuiltin := obj.(*types.Builtin); isBuiltin {
									arg := ""
									if len(v.Args) == 1 {
										arg = exprString(tp, v.Args[0])
									}
									add("panic", v, arg)
								}
							}
						}
					case *ast.TypeAssertExpr:
						if v.Type != nil && !okAsserts[v] {
							add("assert", v, exprString(tp, v))
						}
					case *ast.IndexExpr:
						tv, ok := tp.info.Types[v.X]
						if !ok || tv.Type == nil || !tv.IsValue() {
							return true // generic instantiation or unknown
						}
						switch u := tv.Type.Underlying().(type) {
						case *types.Map:
							if lhsIndex[v] {
								add("mapwrite", v, exprString(tp, v))
							}
						case *types.Slice, *types.Array, *types.Basic:
							_ = u
							add("index", v, exprString(tp, v))
						case *types.Pointer:
							add("index", v, exprString(tp, v))
						}
					case *ast.SliceExpr:
						add("slice", v, exprString(tp, v))
					case *ast.StarExpr:
						if tv, ok := tp.info.Types[v]; ok && tv.IsValue() {
							add("deref", v, exprString(tp, v))
						}
					}
					return true
				})
			}
		}
	}
	sort.SliceStable(sites, func(i, j int) bool {
		a, b := sites[i], sites[j]
		if a.Pkg != b.Pkg {
			return a.Pkg < b.Pkg
		}
		if a.File != b.File {
			return a.File < b.File
		}
		if a.Line != b.Line {
			return a.Line < b.Line
		}
		return a.Expr < b.Expr
	})
	sort.SliceStable(funcs, func(i, j int) bool {
		a, b := funcs[i], funcs[j]
		if a.Pkg != b.Pkg {
			return a.Pkg < b.Pkg
		}
		if a.File != b.File {
			return a.File < b.File
		}
		return a.Func < b.Func
	})
	// repeated (function, kind, expression) rows get an ordinal so that adding or removing one occurrence is visible
	{
		count := map[string]int{}
		for _, s := range sites {
			count[s.Pkg+"|"+s.File+"|"+s.Func+"|"+s.Kind+"|"+s.Expr]++
		}
		seen := map[string]int{}
		for i := range sites {
			k := sites[i].Pkg + "|" + sites[i].File + "|" + sites[i].Func + "|" + sites[i].Kind + "|" + sites[i].Expr
			if count[k] > 1 {
				seen[k]++
				sites[i].Expr = fmt.Sprintf("%s #%d", sites[i].Expr, seen[k])
			}
		}
	}
	var sb strings.Builder
	sb.WriteString("From Coq Require Import String List.\nImport ListNotations.\nLocal Open Scope string_scope.\n")
	sb.WriteString("(* The unmodelled BCL walker (internal/bcl/parse.go, internal/bcl/internal/walker, .../walker/schema), by go/types.\n")
	sb.WriteString("   sites: every syntactic source of a run-time panic: (package, file, function, kind, expression), kind in\n")
	sb.WriteString("   panic | assert (x.(T) without ok) | index | slice | deref (explicit unary star) | mapwrite (m[k] = v).\n")
	sb.WriteString("   Nil dereferences through field selection or method calls cannot be enumerated syntactically and are not listed. *)\n")
	sb.WriteString("Definition sites : list (string * string * string * string * string) := [\n")
	var rows []string
	for _, s := range sites {
		rows = append(rows, fmt.Sprintf("  (%s, %s, %s, %s, %s)", coqStr(s.Pkg), coqStr(s.File), coqStr(s.Func), coqStr(s.Kind), coqStr(s.Expr)))
	}
	sb.WriteString(strings.Join(rows, ";\n"))
	sb.WriteString("\n].\n")
	sb.WriteString("(* every function or method with a body: (package, file, function) *)\n")
	sb.WriteString("Definition funcs : list (string * string * string) := [\n")
	rows = nil
	for _, f := range funcs {
		rows = append(rows, fmt.Sprintf("  (%s, %s, %s)", coqStr(f.Pkg), coqStr(f.File), coqStr(f.Func)))
	}
	sb.WriteString(strings.Join(rows, ";\n"))
	sb.WriteString("\n].\n")
	_ = token.NoPos
	return sb.String(), nil
}

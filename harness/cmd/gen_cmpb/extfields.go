package main

import (
	"fmt"
	"go/ast"
	"path/filepath"
	"reflect"
	"sort"
	"strconv"
	"strings"

	"github.com/pentops/j5/gen/j5/ext/v1/ext_j5pb"
	"github.com/pentops/j5/gen/j5/schema/v1/schema_j5pb"
	"google.golang.org/protobuf/reflect/protoreflect"
	"google.golang.org/protobuf/reflect/protoregistry"
	"verifharness/gen"
)

// keep the generated packages linked in (their descriptors are read below)
var _ = ext_j5pb.E_Field
var _ = schema_j5pb.File_j5_schema_v1_schema_proto

type j5extCall struct {
	Func, Arm, Name, SrcType string
	Line                     int
}

// setJ5ExtCalls lists every X.setJ5Ext(node, dest, "<name>", <j5Ext>) call with the literal name
// and the static type of the last argument.
func setJ5ExtCalls(repo string) ([]j5extCall, error) {
	tp, err := loadTyped(repo, setExtDirs[0])
	if err != nil {
		return nil, err
	}
	var out []j5extCall
	for _, f := range tp.files {
		for _, d := range f.Decls {
			fd, ok := d.(*ast.FuncDecl)
			if !ok || fd.Body == nil {
				continue
			}
			walkWithStack(fd, func(n ast.Node, stack []ast.Node) {
				call, ok := n.(*ast.CallExpr)
				if !ok {
					return
				}
				se, ok := call.Fun.(*ast.SelectorExpr)
				if !ok || se.Sel.Name != "setJ5Ext" || len(call.Args) != 4 {
					return
				}
				name := "<dynamic>"
				if s, ok := tp.constString(call.Args[2]); ok {
					name = s
				}
				out = append(out, j5extCall{Func: funcName(fd), Arm: armLabel(tp, stack), Name: name, SrcType: tp.typeString(call.Args[3]), Line: tp.fset.Position(call.Pos()).Line})
			})
		}
	}
	sort.SliceStable(out, func(i, j int) bool { return out[i].Line < out[j].Line })
	return out, nil
}

func cardString(fd protoreflect.FieldDescriptor) string {
	switch {
	case fd.IsMap():
		return "map"
	case fd.IsList():
		return "list"
	default:
		return "single"
	}
}

func fieldRows(md protoreflect.MessageDescriptor) string {
	var rows []string
	fs := md.Fields()
	for i := 0; i < fs.Len(); i++ {
		fd := fs.Get(i)
		mn := ""
		if fd.Message() != nil {
			mn = string(fd.Message().FullName())
		}
		rows = append(rows, fmt.Sprintf("(%s, %s, %s, %s)", coqStr(string(fd.Name())), coqStr(fd.Kind().String()), coqStr(cardString(fd)), coqStr(mn)))
	}
	return "[" + strings.Join(rows, "; ") + "]"
}

// genExtFields renders the descriptor facts setJ5Ext depends on (appended to SetExtGen.v).
func genExtFields(repo string) (string, error) {
	calls, err := setJ5ExtCalls(repo)
	if err != nil {
		return "", err
	}
	// Go pointer type string -> message descriptor, for every message of the two files
	byGo := map[string]protoreflect.MessageDescriptor{}
	protoregistry.GlobalTypes.RangeMessages(func(mt protoreflect.MessageType) bool {
		fn := string(mt.Descriptor().ParentFile().Path())
		if fn == "j5/schema/v1/schema.proto" || fn == "j5/ext/v1/annotations.proto" {
			byGo[reflect.TypeOf(mt.Zero().Interface()).String()] = mt.Descriptor()
		}
		return true
	})
	fo := (&ext_j5pb.FieldOptions{}).ProtoReflect().Descriptor()
	var sb strings.Builder
	sb.WriteString("(* j5.ext.v1.FieldOptions: (field name, kind, cardinality, message full name) *)\n")
	fmt.Fprintf(&sb, "Definition fieldoptions_fields : list (string * string * string * string) := %s.\n", fieldRows(fo))
	sb.WriteString("(* every setJ5Ext call: (function, type-switch arm, literal type name, static type of the j5Ext argument, its message full name) *)\n")
	sb.WriteString("Definition setj5ext_calls : list (string * string * string * string * string) := [\n")
	need := map[string]protoreflect.MessageDescriptor{}
	var rows []string
	for _, c := range calls {
		full := "?"
		if md, ok := byGo[c.SrcType]; ok {
			full = string(md.FullName())
			need[full] = md
		}
		rows = append(rows, fmt.Sprintf("  (%s, %s, %s, %s, %s)", coqStr(c.Func), coqStr(c.Arm), coqStr(c.Name), coqStr(c.SrcType), coqStr(full)))
	}
	sb.WriteString(strings.Join(rows, ";\n"))
	sb.WriteString("\n].\n")
	// destination messages: the message types of FieldOptions' fields
	fs := fo.Fields()
	for i := 0; i < fs.Len(); i++ {
		if m := fs.Get(i).Message(); m != nil {
			need[string(m.FullName())] = m
		}
	}
	sb.WriteString("(* fields of the messages involved: message full name -> (field name, kind, cardinality, message full name) *)\n")
	sb.WriteString("Definition msg_fields : list (string * list (string * string * string * string)) := [\n")
	rows = nil
	for _, k := range sortedKeys(need) {
		rows = append(rows, fmt.Sprintf("  (%s, %s)", coqStr(k), fieldRows(need[k])))
	}
	sb.WriteString(strings.Join(rows, ";\n"))
	sb.WriteString("\n].\n")
	// the alternatives of j5.schema.v1.Field (the documented field types) and, per alternative, which of
	// rules / list_rules / ext / format its message declares: "every rule kind on every field type"
	fld := (&schema_j5pb.Field{}).ProtoReflect().Descriptor()
	sb.WriteString("(* j5.schema.v1.Field.type alternatives: (name, message, has rules, has list_rules, has ext, has format) *)\n")
	sb.WriteString("Definition field_alternatives : list (string * string * bool * bool * bool * bool) := [\n")
	rows = nil
	ffs := fld.Fields()
	for i := 0; i < ffs.Len(); i++ {
		fd := ffs.Get(i)
		if fd.Message() == nil {
			continue
		}
		has := func(n string) bool { return fd.Message().Fields().ByName(protoreflect.Name(n)) != nil }
		rows = append(rows, fmt.Sprintf("  (%s, %s, %s, %s, %s, %s)", coqStr(string(fd.Name())), coqStr(string(fd.Message().FullName())),
			coqBool(has("rules")), coqBool(has("list_rules")), coqBool(has("ext")), coqBool(has("format"))))
	}
	sb.WriteString(strings.Join(rows, ";\n"))
	sb.WriteString("\n].\n")
	// the case labels of the type switches on the field schema in buildField and buildProperty
	arms, err := typeSwitchArms(repo)
	if err != nil {
		return "", err
	}
	sb.WriteString("(* case labels of the type switches over the field schema: (function, label) *)\n")
	sb.WriteString("Definition field_switch_arms : list (string * string) := [\n")
	rows = nil
	for _, a := range arms {
		rows = append(rows, fmt.Sprintf("  (%s, %s)", coqStr(a[0]), coqStr(a[1])))
	}
	sb.WriteString(strings.Join(rows, ";\n"))
	sb.WriteString("\n].\n")
	// how conversion errors get their position: conversionVisitor.addError guards errpos.AddPosition only by
	// `loc != nil`, and sourcewalk's SourceNode.GetPos returns the address of a composite literal (never nil)
	ap, err := addErrorShape(repo)
	if err != nil {
		return "", err
	}
	sb.WriteString("(* addError: calls errpos.AddPosition; its only guard is `loc != nil`; GetPos returns &errpos.Position{...} in its only return *)\n")
	fmt.Fprintf(&sb, "Definition adderror_adds_position : bool := %s.\n", coqBool(ap[0]))
	fmt.Fprintf(&sb, "Definition adderror_guard_is_nil_check : bool := %s.\n", coqBool(ap[1]))
	fmt.Fprintf(&sb, "Definition getpos_returns_literal_address : bool := %s.\n", coqBool(ap[2]))
	_ = strconv.Itoa
	return sb.String(), nil
}

// addErrorShape inspects conversionVisitor.addError (j5convert) and SourceNode.GetPos (sourcewalk) by syntax.
func addErrorShape(repo string) ([3]bool, error) {
	var out [3]bool
	_, f, err := gen.ParseFile(filepath.Join(repo, "internal/j5s/j5convert/conversion.go"))
	if err != nil {
		return out, err
	}
	for _, d := range f.Decls {
		fd, ok := d.(*ast.FuncDecl)
		if !ok || fd.Name.Name != "addError" || fd.Body == nil {
			continue
		}
		ast.Inspect(fd, func(n ast.Node) bool {
			ifs, ok := n.(*ast.IfStmt)
			if !ok {
				return true
			}
			calls := false
			ast.Inspect(ifs.Body, func(m ast.Node) bool {
				if c, ok := m.(*ast.CallExpr); ok {
					if se, ok := c.Fun.(*ast.SelectorExpr); ok && se.Sel.Name == "AddPosition" {
						calls = true
					}
				}
				return true
			})
			if calls {
				out[0] = true
				if be, ok := ifs.Cond.(*ast.BinaryExpr); ok && be.Op.String() == "!=" {
					if x, ok := be.X.(*ast.Ident); ok && x.Name == "loc" {
						if y, ok := be.Y.(*ast.Ident); ok && y.Name == "nil" {
							out[1] = true
						}
					}
				}
			}
			return true
		})
	}
	_, g, err := gen.ParseFile(filepath.Join(repo, "internal/j5s/sourcewalk/sourcewalk.go"))
	if err != nil {
		return out, err
	}
	for _, d := range g.Decls {
		fd, ok := d.(*ast.FuncDecl)
		if !ok || fd.Name.Name != "GetPos" || fd.Body == nil {
			continue
		}
		nret, good := 0, 0
		ast.Inspect(fd, func(n ast.Node) bool {
			if r, ok := n.(*ast.ReturnStmt); ok {
				nret++
				if len(r.Results) == 1 {
					if u, ok := r.Results[0].(*ast.UnaryExpr); ok && u.Op.String() == "&" {
						if _, ok := u.X.(*ast.CompositeLit); ok {
							good++
						}
					}
				}
			}
			return true
		})
		out[2] = nret == 1 && good == 1
	}
	return out, nil
}

// typeSwitchArms lists the case labels of the first type switch of buildField and buildProperty.
func typeSwitchArms(repo string) ([][2]string, error) {
	tp, err := loadTyped(repo, setExtDirs[0])
	if err != nil {
		return nil, err
	}
	var out [][2]string
	for _, f := range tp.files {
		for _, d := range f.Decls {
			fd, ok := d.(*ast.FuncDecl)
			if !ok || fd.Body == nil || (fd.Name.Name != "buildField" && fd.Name.Name != "buildProperty") {
				continue
			}
			done := false
			ast.Inspect(fd, func(n ast.Node) bool {
				ts, ok := n.(*ast.TypeSwitchStmt)
				if !ok || done {
					return !done
				}
				done = true
				for _, st := range ts.Body.List {
					cc := st.(*ast.CaseClause)
					if cc.List == nil {
						out = append(out, [2]string{fd.Name.Name, "default"})
					}
					for _, e := range cc.List {
						out = append(out, [2]string{fd.Name.Name, tp.typeString(e)})
					}
				}
				return false
			})
		}
	}
	sort.SliceStable(out, func(i, j int) bool {
		if out[i][0] != out[j][0] {
			return out[i][0] < out[j][0]
		}
		return out[i][1] < out[j][1]
	})
	return out, nil
}

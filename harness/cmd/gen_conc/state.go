package main

// ConcStateGen.v: a census, made with go/types, of ALL mutable state that a codec call
// can reach and of every function that writes it.
//
// Analysed packages: the roots lib/j5codec, internal/codec, lib/j5reflect, lib/j5schema
// and every hand-written package of the module they import (not under gen/; files
// *.pb.go are type-checked but not reported: generated protobuf code).  All of them are
// type-checked from source in one universe; everything else comes from export data
// (`go list -export`).
//
// Reported (data only, sorted):
//   state_pkgs        the analysed packages
//   state_vars        every package-level variable: (pkg.name, type, mutable-kind?)
//   shared_types      the named types reachable from a package-level variable or from
//                     codec.Codec through fields / pointers / slices / maps / interfaces
//                     (an interface stands for every analysed type that implements it)
//   shared_fields     every field of every shared struct type: (pkg.Type.field, type, mutable-kind?)
//   lockfree_fns      functions reachable from the exported methods of *codec.Codec and
//                     *j5reflect.Reflector WITHOUT entering SchemaCache.Schema
//   locked_fns        functions reachable from SchemaCache.Schema (they run with sc.mu held)
//   state_writes      EVERY write, in any function of the analysed packages, to a
//                     package-level variable, to a field of a shared type (whatever the
//                     base expression: receiver, parameter, local, call result), to an
//                     element of either, through a pointer to a shared type, or to an
//                     element of a map/slice that is not a fresh local:
//                     (function, target, kind)  kind = set | elem | delete | incdec | deref | addr | copy
//                     target = var:pkg.name | field:pkg.Type.f | extfield:T.f | extvar:pkg.name |
//                              deref:T | elem-of:T | elem-of-scalars:T
//   schema_prelude    what SchemaCache.Schema does before sc.mu.Lock() besides hook points (calls, field reads)
//   go_stmts          lock-free or locked functions that start a goroutine
//   lf_dyncalls       calls through function values made by lock-free functions
//   lf_ext_pkgs       packages outside the analysed set that lock-free functions call into
//   lk_written_lf_read  shared fields written by a locked function and read by a lock-free one
//   lk_field_writes     for those fields, per writing locked function: where the written object comes from
//                       (fresh | fresh-call | fresh-elem | param | var | other:...)
//   fresh_returning     the functions whose first result is always an object they (transitively) created
//
// Function names: pkg.Func, pkg.Type.Method; a function literal belongs to the function
// that contains it; package-level initialisers belong to pkg.<init>.

import (
	"bytes"
	"encoding/json"
	"fmt"
	"go/ast"
	"go/importer"
	"go/parser"
	"go/token"
	"go/types"
	"io"
	"os"
	"os/exec"
	"path/filepath"
	"sort"
	"strings"

	"verifharness/gen"
)

func init() { gen.Register("ConcStateGen.v", genConcState) }

const modPrefix = "github.com/pentops/j5/"

var stateRoots = []string{"./lib/j5codec", "./internal/codec", "./lib/j5reflect", "./lib/j5schema"}

type listPkg struct {
	ImportPath string
	Dir        string
	GoFiles    []string
	Export     string
	Imports    []string
	Standard   bool
}

type apkg struct {
	lp    *listPkg
	short string
	files []*ast.File
	names []string // file base names, parallel to files
	pkg   *types.Package
	info  *types.Info
}

type srcImporter struct {
	gc   types.Importer
	done map[string]*types.Package
}

func (s *srcImporter) Import(path string) (*types.Package, error) {
	if p, ok := s.done[path]; ok {
		return p, nil
	}
	return s.gc.Import(path)
}

func analysed(path string) bool {
	return strings.HasPrefix(path, modPrefix) && !strings.Contains(path, "/gen/") && !strings.Contains(path, "/verifshim/")
}

type census struct {
	fset  *token.FileSet
	pkgs  []*apkg
	byPkg map[*types.Package]*apkg

	fnKey   map[*types.Func]string // declared functions of the analysed packages
	fnDecl  map[string]*ast.FuncDecl
	fnPkg   map[string]*apkg
	fnOrder []string

	fieldName map[*types.Var]string // field object -> pkg.Type.field
	named     []*types.Named        // every named type of the analysed packages
	genVar    map[*types.Var]bool   // package-level variables declared in *.pb.go

	edges    map[string]map[string]bool
	dyn      map[string]map[string]bool
	ext      map[string]map[string]bool
	writes   map[[3]string]bool
	fwrites  map[string]map[string]bool // fn -> shared fields written
	freads   map[string]map[string]bool // fn -> fields read
	shared   map[string]bool            // shared named types (pkg.Type)
	extTypes map[string]bool
	goStmts  map[string]bool            // functions that start a goroutine
	fieldW   map[[3]string]bool         // (function, field, class of the object written to)
	freshFn  map[string]bool            // functions whose first result is always an object they created
}

func shortName(p *types.Package) string {
	if p == nil {
		return "?"
	}
	return p.Name()
}

func loadCensus(repo string) (*census, error) {
	args := append([]string{"list", "-export", "-deps", "-json=ImportPath,Dir,GoFiles,Export,Imports,Standard"}, stateRoots...)
	cmd := exec.Command("go", args...)
	cmd.Dir = repo
	var stderr bytes.Buffer
	cmd.Stderr = &stderr
	out, err := cmd.Output()
	if err != nil {
		return nil, fmt.Errorf("go list: %v: %s", err, stderr.String())
	}
	dec := json.NewDecoder(bytes.NewReader(out))
	exports := map[string]string{}
	var order []*listPkg
	for {
		var lp listPkg
		if err := dec.Decode(&lp); err == io.EOF {
			break
		} else if err != nil {
			return nil, err
		}
		p := lp
		exports[p.ImportPath] = p.Export
		if analysed(p.ImportPath) {
			order = append(order, &p)
		}
	}
	c := &census{fset: token.NewFileSet(), byPkg: map[*types.Package]*apkg{}, fnKey: map[*types.Func]string{},
		fnDecl: map[string]*ast.FuncDecl{}, fnPkg: map[string]*apkg{}, fieldName: map[*types.Var]string{}, genVar: map[*types.Var]bool{},
		edges: map[string]map[string]bool{}, dyn: map[string]map[string]bool{}, ext: map[string]map[string]bool{},
		writes: map[[3]string]bool{}, fwrites: map[string]map[string]bool{}, freads: map[string]map[string]bool{},
		shared: map[string]bool{}, extTypes: map[string]bool{}, goStmts: map[string]bool{}, fieldW: map[[3]string]bool{}, freshFn: map[string]bool{}}
	lookup := func(path string) (io.ReadCloser, error) {
		f, ok := exports[path]
		if !ok || f == "" {
			return nil, fmt.Errorf("no export data for %s", path)
		}
		return os.Open(f)
	}
	imp := &srcImporter{gc: importer.ForCompiler(c.fset, "gc", lookup), done: map[string]*types.Package{}}
	// go list -deps lists dependencies before dependents
	for _, lp := range order {
		a := &apkg{lp: lp}
		for _, name := range lp.GoFiles {
			f, err := parser.ParseFile(c.fset, filepath.Join(lp.Dir, name), nil, 0)
			if err != nil {
				return nil, err
			}
			a.files = append(a.files, f)
			a.names = append(a.names, name)
		}
		a.info = &types.Info{Defs: map[*ast.Ident]types.Object{}, Uses: map[*ast.Ident]types.Object{},
			Selections: map[*ast.SelectorExpr]*types.Selection{}, Types: map[ast.Expr]types.TypeAndValue{}}
		conf := types.Config{Importer: imp}
		pkg, err := conf.Check(lp.ImportPath, c.fset, a.files, a.info)
		if err != nil {
			return nil, fmt.Errorf("type-check %s: %v", lp.ImportPath, err)
		}
		a.pkg = pkg
		a.short = pkg.Name()
		imp.done[lp.ImportPath] = pkg
		c.pkgs = append(c.pkgs, a)
		c.byPkg[pkg] = a
	}
	return c, nil
}

func recvTypeName(fn *types.Func) string {
	sig := fn.Type().(*types.Signature)
	if sig.Recv() == nil {
		return ""
	}
	t := sig.Recv().Type()
	if p, ok := t.(*types.Pointer); ok {
		t = p.Elem()
	}
	if n, ok := t.(*types.Named); ok {
		return n.Obj().Name()
	}
	return "?"
}

func (c *census) keyOf(fn *types.Func) (string, bool) {
	fn = fn.Origin()
	if k, ok := c.fnKey[fn]; ok {
		return k, true
	}
	return "", false
}

func (c *census) index() {
	for _, a := range c.pkgs {
		sc := a.pkg.Scope()
		for _, name := range sc.Names() {
			if tn, ok := sc.Lookup(name).(*types.TypeName); ok && !tn.IsAlias() {
				if n, ok := tn.Type().(*types.Named); ok {
					c.named = append(c.named, n)
					if st, ok := n.Underlying().(*types.Struct); ok {
						for i := 0; i < st.NumFields(); i++ {
							c.fieldName[st.Field(i)] = a.short + "." + name + "." + st.Field(i).Name()
						}
					}
				}
			}
		}
		for i, f := range a.files {
			gen := strings.HasSuffix(a.names[i], ".pb.go")
			for _, d := range f.Decls {
				switch x := d.(type) {
				case *ast.FuncDecl:
					obj, _ := a.info.Defs[x.Name].(*types.Func)
					if obj == nil {
						continue
					}
					key := a.short + "." + x.Name.Name
					if r := recvTypeName(obj); r != "" {
						key = a.short + "." + r + "." + x.Name.Name
					}
					if x.Name.Name == "init" && x.Recv == nil {
						key = a.short + ".<init>"
					}
					c.fnKey[obj] = key
					if _, dup := c.fnDecl[key]; !dup {
						c.fnOrder = append(c.fnOrder, key)
					}
					c.fnDecl[key] = x
					c.fnPkg[key] = a
				case *ast.GenDecl:
					if x.Tok != token.VAR {
						continue
					}
					for _, sp := range x.Specs {
						for _, n := range sp.(*ast.ValueSpec).Names {
							if v, ok := a.info.Defs[n].(*types.Var); ok && gen {
								c.genVar[v] = true
							}
						}
					}
				}
			}
		}
	}
}

// mutableKind: can a value of this type be changed in place, or lead to something that can
// (anything but a scalar, a string, or a struct/array of those)
func mutableKind(t types.Type, seen map[types.Type]bool) bool {
	if seen[t] {
		return false
	}
	seen[t] = true
	switch u := t.Underlying().(type) {
	case *types.Basic:
		return false
	case *types.Struct:
		for i := 0; i < u.NumFields(); i++ {
			if mutableKind(u.Field(i).Type(), seen) {
				return true
			}
		}
		return false
	case *types.Array:
		return mutableKind(u.Elem(), seen)
	}
	return true // map, slice, pointer, chan, interface, func
}

func (c *census) typeStr(t types.Type) string {
	return types.TypeString(t, func(p *types.Package) string { return p.Name() })
}

func (c *census) namedKey(n *types.Named) string {
	o := n.Obj()
	return shortName(o.Pkg()) + "." + o.Name()
}

func (c *census) isAnalysedNamed(n *types.Named) bool {
	_, ok := c.byPkg[n.Obj().Pkg()]
	return ok
}

// implementers of an interface among the analysed named types
func (c *census) implementers(it *types.Interface) []*types.Named {
	var out []*types.Named
	if it.NumMethods() == 0 {
		return nil
	}
	for _, n := range c.named {
		if _, isIface := n.Underlying().(*types.Interface); isIface {
			continue
		}
		if n.TypeParams().Len() > 0 {
			continue
		}
		if types.Implements(n, it) || types.Implements(types.NewPointer(n), it) {
			out = append(out, n)
		}
	}
	return out
}

func (c *census) closeType(t types.Type, seen map[types.Type]bool) {
	if t == nil || seen[t] {
		return
	}
	seen[t] = true
	switch x := t.(type) {
	case *types.Named:
		if !c.isAnalysedNamed(x) {
			if x.Obj().Pkg() != nil {
				c.extTypes[c.namedKey(x)] = true
			}
			// an external interface may still be implemented by analysed types
			if it, ok := x.Underlying().(*types.Interface); ok {
				for _, n := range c.implementers(it) {
					c.closeType(n, seen)
				}
			}
			return
		}
		c.shared[c.namedKey(x)] = true
		for i := 0; i < x.TypeArgs().Len(); i++ {
			c.closeType(x.TypeArgs().At(i), seen)
		}
		c.closeType(x.Underlying(), seen)
	case *types.Pointer:
		c.closeType(x.Elem(), seen)
	case *types.Slice:
		c.closeType(x.Elem(), seen)
	case *types.Array:
		c.closeType(x.Elem(), seen)
	case *types.Chan:
		c.closeType(x.Elem(), seen)
	case *types.Map:
		c.closeType(x.Key(), seen)
		c.closeType(x.Elem(), seen)
	case *types.Struct:
		for i := 0; i < x.NumFields(); i++ {
			c.closeType(x.Field(i).Type(), seen)
		}
	case *types.Interface:
		for _, n := range c.implementers(x) {
			c.closeType(n, seen)
		}
	case *types.Alias:
		c.closeType(types.Unalias(x), seen)
	}
}

func add(m map[string]map[string]bool, k, v string) {
	if m[k] == nil {
		m[k] = map[string]bool{}
	}
	m[k][v] = true
}

// freshLocal: is v a local variable of the function whose every definition in body is a
// make / composite literal / new / nil / plain declaration (so that its elements are not shared yet)
func freshLocal(info *types.Info, body ast.Node, v *types.Var) bool {
	if v.IsField() || v.Parent() == nil || v.Parent() == v.Pkg().Scope() {
		return false
	}
	fresh, defs := true, 0
	isFresh := func(e ast.Expr) bool {
		for {
			p, ok := e.(*ast.ParenExpr)
			if !ok {
				break
			}
			e = p.X
		}
		switch x := e.(type) {
		case *ast.CompositeLit:
			return true
		case *ast.UnaryExpr:
			_, ok := x.X.(*ast.CompositeLit)
			return x.Op == token.AND && ok
		case *ast.Ident:
			return x.Name == "nil"
		case *ast.CallExpr:
			if id, ok := x.Fun.(*ast.Ident); ok {
				if _, b := info.Uses[id].(*types.Builtin); b && (id.Name == "make" || id.Name == "new" || id.Name == "append") {
					if id.Name == "append" && len(x.Args) > 0 {
						// append(v, ...) keeps freshness of v itself
						if a, ok := x.Args[0].(*ast.Ident); ok && info.Uses[a] == v {
							return true
						}
						return false
					}
					return true
				}
			}
		}
		return false
	}
	ast.Inspect(body, func(n ast.Node) bool {
		switch x := n.(type) {
		case *ast.AssignStmt:
			for i, l := range x.Lhs {
				id, ok := l.(*ast.Ident)
				if !ok {
					continue
				}
				obj := info.Defs[id]
				if obj == nil {
					obj = info.Uses[id]
				}
				if obj != v {
					continue
				}
				defs++
				if len(x.Rhs) == len(x.Lhs) {
					if !isFresh(x.Rhs[i]) {
						fresh = false
					}
				} else {
					fresh = false
				}
			}
		case *ast.ValueSpec:
			for i, id := range x.Names {
				if info.Defs[id] != v {
					continue
				}
				defs++
				if i < len(x.Values) && !isFresh(x.Values[i]) {
					fresh = false
				}
			}
		case *ast.RangeStmt:
			for _, e := range []ast.Expr{x.Key, x.Value} {
				if id, ok := e.(*ast.Ident); ok && (info.Defs[id] == v || info.Uses[id] == v) {
					fresh = false
					defs++
				}
			}
		}
		return true
	})
	return fresh && defs > 0
}

func (c *census) scanBody(a *apkg, fn string, body ast.Node) {
	info := a.info
	written := map[ast.Expr]bool{}
	var markWrite func(e ast.Expr, kind string)
	record := func(target, kind string) { c.writes[[3]string{fn, target, kind}] = true }
	// target of a written expression; elem = the write goes to an element of it
	markWrite = func(e ast.Expr, kind string) {
		switch x := e.(type) {
		case *ast.ParenExpr:
			markWrite(x.X, kind)
		case *ast.Ident:
			if x.Name == "_" {
				return
			}
			obj := info.Uses[x]
			if obj == nil {
				obj = info.Defs[x]
			}
			v, ok := obj.(*types.Var)
			if !ok {
				return
			}
			if _, isA := c.byPkg[v.Pkg()]; isA && v.Parent() == v.Pkg().Scope() {
				record("var:"+shortName(v.Pkg())+"."+v.Name(), kind)
				return
			}
			if kind == "elem" || kind == "delete" || kind == "copy" {
				// an element of a map/slice held in a local or a parameter
				if freshLocal(info, c.fnBody(fn, body), v) {
					return
				}
				t := c.elemTarget(v.Type())
				// "a caller's scalar buffer" only for a PARAMETER: a non-fresh local of scalar-slice type is
				// an alias of something (b := x.field; b[0] = 1) and is reported like any other container
				if strings.HasPrefix(t, "elem-of-scalars:") && !c.isParam(fn, body, v) {
					t = "elem-of:" + strings.TrimPrefix(t, "elem-of-scalars:")
				}
				record(t, kind)
			}
		case *ast.SelectorExpr:
			written[x] = true
			if sel, ok := info.Selections[x]; ok && sel.Kind() == types.FieldVal {
				fv := sel.Obj().(*types.Var)
				name, known := c.fieldName[fv.Origin()]
				if !known {
					// a field of a struct type declared outside the analysed packages (generated
					// protobuf messages under construction), or of an anonymous struct
					owner := info.TypeOf(x.X)
					if p, ok := owner.Underlying().(*types.Pointer); ok {
						owner = p.Elem()
					}
					record("extfield:"+c.typeStr(owner)+"."+fv.Name(), kind)
					return
				}
				add(c.fwrites, fn, name)
				record("field:"+name, kind)
				c.fieldW[[3]string{fn, name, c.baseClass(a, fn, body, x.X)}] = true
				return
			}
			// qualified identifier pkg.Var
			if v, ok := info.Uses[x.Sel].(*types.Var); ok && v.Parent() == v.Pkg().Scope() {
				if _, isA := c.byPkg[v.Pkg()]; isA {
					record("var:"+shortName(v.Pkg())+"."+v.Name(), kind)
				} else {
					record("extvar:"+shortName(v.Pkg())+"."+v.Name(), kind)
				}
			}
		case *ast.IndexExpr:
			k := "elem"
			if kind == "delete" || kind == "copy" {
				k = kind
			}
			// s[i][k] = v: the container written to is an ELEMENT of s; s being a fresh local says nothing
			// about what was stored in it (s[0] = x.sharedMap), so the inner container is reported by type
			if (kind == "elem" || kind == "delete" || kind == "copy") && isIndexOfIdent(x) {
				if tt := info.TypeOf(x); tt != nil {
					record(c.elemTarget(tt), kind)
					return
				}
			}
			markWrite(x.X, k)
		case *ast.StarExpr:
			t := info.TypeOf(x.X)
			if p, ok := t.Underlying().(*types.Pointer); ok {
				record("deref:"+c.typeStr(p.Elem()), "deref")
			}
		case *ast.SliceExpr:
			markWrite(x.X, "elem")
		case *ast.CallExpr, *ast.TypeAssertExpr, *ast.CompositeLit:
			// element of a call result etc.: report by type
			if kind == "elem" || kind == "delete" || kind == "copy" {
				record(c.elemTarget(info.TypeOf(e)), kind)
			}
		}
	}
	ast.Inspect(body, func(n ast.Node) bool {
		switch x := n.(type) {
		case *ast.AssignStmt:
			if x.Tok != token.DEFINE {
				for _, l := range x.Lhs {
					markWrite(l, "set")
				}
			} else {
				for _, l := range x.Lhs {
					if id, ok := l.(*ast.Ident); ok && info.Defs[id] == nil && id.Name != "_" {
						markWrite(l, "set") // redeclared in :=, really an assignment
					}
				}
			}
		case *ast.GoStmt:
			c.goStmts[fn] = true
		case *ast.IncDecStmt:
			markWrite(x.X, "incdec")
		case *ast.RangeStmt:
			if x.Tok == token.ASSIGN {
				if x.Key != nil {
					markWrite(x.Key, "set")
				}
				if x.Value != nil {
					markWrite(x.Value, "set")
				}
			}
		case *ast.UnaryExpr:
			if x.Op == token.AND {
				// the address of a field of a named struct / of a package-level variable escapes
				switch y := x.X.(type) {
				case *ast.SelectorExpr:
					if sel, ok := info.Selections[y]; ok && sel.Kind() == types.FieldVal {
						if name, known := c.fieldName[sel.Obj().(*types.Var).Origin()]; known {
							record("field:"+name, "addr")
						}
					}
				case *ast.Ident:
					if v, ok := info.Uses[y].(*types.Var); ok && v.Pkg() != nil && v.Parent() == v.Pkg().Scope() {
						if _, isA := c.byPkg[v.Pkg()]; isA {
							record("var:"+shortName(v.Pkg())+"."+v.Name(), "addr")
						}
					}
				}
			}
		case *ast.CallExpr:
			if tv, ok := info.Types[x.Fun]; ok && tv.IsType() {
				return true // conversion
			}
			if id, ok := x.Fun.(*ast.Ident); ok {
				if _, b := info.Uses[id].(*types.Builtin); b {
					switch id.Name {
					case "delete", "clear":
						if len(x.Args) > 0 {
							markWrite(&ast.IndexExpr{X: x.Args[0]}, "delete")
						}
					case "copy":
						if len(x.Args) > 0 {
							markWrite(&ast.IndexExpr{X: x.Args[0]}, "copy")
						}
					}
					return true
				}
			}
			// a method with a POINTER receiver, declared outside the analysed packages, called on a field of an
			// analysed struct type (c.depth.Add(1) on an atomic.Int32, x.pool.Put(v), x.m.Store(k, v), x.buf.Write(b)):
			// the callee is handed &x.f and may modify the field — per-call state kept on a shared object is a
			// write to it whether or not the operation is atomic. Lock operations on a mutex field are not
			// listed here (they are the lock tokens of ConcGen.v).
			if fsel, ok := x.Fun.(*ast.SelectorExpr); ok {
				if msel, ok := info.Selections[fsel]; ok && msel.Kind() == types.MethodVal {
					if m, ok := msel.Obj().(*types.Func); ok && m.Pkg() != nil {
						_, calleeAnalysed := c.byPkg[m.Pkg()]
						sig, _ := m.Type().(*types.Signature)
						ptrRecv := false
						if sig != nil && sig.Recv() != nil {
							_, ptrRecv = sig.Recv().Type().(*types.Pointer)
						}
						recvT := types.TypeString(msel.Recv(), nil)
						isLock := strings.HasSuffix(recvT, "sync.Mutex") || strings.HasSuffix(recvT, "sync.RWMutex") || strings.HasSuffix(recvT, "sync.Once")
						if !calleeAnalysed && ptrRecv && !isLock {
							base := fsel.X
							for {
								if p, ok := base.(*ast.ParenExpr); ok {
									base = p.X
									continue
								}
								break
							}
							if bsel, ok := base.(*ast.SelectorExpr); ok {
								if fs, ok := info.Selections[bsel]; ok && fs.Kind() == types.FieldVal {
									if _, isPtr := fs.Obj().Type().Underlying().(*types.Pointer); !isPtr {
										if name, known := c.fieldName[fs.Obj().(*types.Var).Origin()]; known {
											record("field:"+name, "extmethod:"+m.Name())
										}
									}
								}
							}
						}
					}
				}
			}
			// a call whose callee is not a declared function or method: through a function value
			var callee types.Object
			switch f := x.Fun.(type) {
			case *ast.Ident:
				callee = info.Uses[f]
			case *ast.SelectorExpr:
				callee = info.Uses[f.Sel]
			case *ast.IndexExpr: // generic instantiation f[T](...)
				switch g := f.X.(type) {
				case *ast.Ident:
					callee = info.Uses[g]
				case *ast.SelectorExpr:
					callee = info.Uses[g.Sel]
				}
			case *ast.IndexListExpr: // f[A, B](...)
				switch g := f.X.(type) {
				case *ast.Ident:
					callee = info.Uses[g]
				case *ast.SelectorExpr:
					callee = info.Uses[g.Sel]
				}
			case *ast.FuncLit:
				return true // called in place: its body belongs to this function anyway
			}
			if _, isFn := callee.(*types.Func); !isFn {
				// where does the function value come from: a parameter (a callback handed down by the
				// caller, whose body is scanned with the function that creates it), a field, a variable
				desc := "expr"
				if v, ok := callee.(*types.Var); ok {
					switch {
					case v.IsField():
						desc = "field:" + v.Name()
					case v.Pkg() != nil && v.Parent() == v.Pkg().Scope():
						desc = "var:" + v.Name()
					case c.isParam(fn, body, v):
						desc = "param:" + v.Name()
					default:
						desc = "local:" + v.Name()
					}
				}
				add(c.dyn, fn, fn+":"+desc)
			}
		case *ast.Ident:
			c.useFunc(a, fn, info.Uses[x])
		case *ast.SelectorExpr:
			if sel, ok := info.Selections[x]; ok {
				switch sel.Kind() {
				case types.FieldVal:
					if !written[x] {
						if name, known := c.fieldName[sel.Obj().(*types.Var).Origin()]; known {
							add(c.freads, fn, name)
						}
					}
				case types.MethodVal, types.MethodExpr:
					c.useMethod(fn, sel)
				}
			}
		}
		return true
	})
}

// isIndexOfIdent: e is v[i] (possibly parenthesised) for an identifier v
func isIndexOfIdent(e *ast.IndexExpr) bool {
	b := e.X
	for {
		p, ok := b.(*ast.ParenExpr)
		if !ok {
			break
		}
		b = p.X
	}
	_, ok := b.(*ast.Ident)
	return ok
}

// ---- where does the object whose field is written come from ------------------------------
// fresh        created in this function (composite literal, &composite literal, new)
// fresh-call   first result of a function that only ever returns objects it created (freshFn)
// fresh-elem   element of a map/slice that this function made and filled
// param / var / other:<what>   anything else: it may have been published before

func stripBase(e ast.Expr) ast.Expr {
	for {
		switch x := e.(type) {
		case *ast.ParenExpr:
			e = x.X
		case *ast.SelectorExpr:
			e = x.X
		case *ast.IndexExpr:
			e = x.X
		case *ast.StarExpr:
			e = x.X
		case *ast.TypeAssertExpr:
			e = x.X
		default:
			return e
		}
	}
}

func worse(a, b string) string {
	rank := func(s string) int {
		switch s {
		case "fresh":
			return 0
		case "fresh-call":
			return 1
		case "fresh-elem":
			return 2
		}
		return 3
	}
	if rank(b) > rank(a) {
		return b
	}
	return a
}

// exprClass classifies the value of an expression (no field/index stripping)
func (c *census) exprClass(a *apkg, fn string, body ast.Node, e ast.Expr, depth int) string {
	info := a.info
	for {
		p, ok := e.(*ast.ParenExpr)
		if !ok {
			break
		}
		e = p.X
	}
	switch x := e.(type) {
	case *ast.CompositeLit:
		return "fresh"
	case *ast.UnaryExpr:
		if _, ok := x.X.(*ast.CompositeLit); ok && x.Op == token.AND {
			return "fresh"
		}
	case *ast.CallExpr:
		if id, ok := x.Fun.(*ast.Ident); ok {
			if _, b := info.Uses[id].(*types.Builtin); b && (id.Name == "new" || id.Name == "make") {
				return "fresh"
			}
		}
		var callee types.Object
		switch f := x.Fun.(type) {
		case *ast.Ident:
			callee = info.Uses[f]
		case *ast.SelectorExpr:
			callee = info.Uses[f.Sel]
		}
		if cf, ok := callee.(*types.Func); ok {
			if k, ok := c.keyOf(cf); ok && c.freshFn[k] {
				return "fresh-call"
			}
			return "other:result of " + cf.Name()
		}
		return "other:call"
	case *ast.IndexExpr:
		// element of a container this function made
		if id, ok := x.X.(*ast.Ident); ok {
			if v, ok := info.Uses[id].(*types.Var); ok && freshLocal(info, c.fnBody(fn, body), v) {
				return "fresh-elem"
			}
		}
		return "other:element"
	case *ast.Ident:
		if x.Name == "nil" {
			return "fresh"
		}
		if v, ok := info.Uses[x].(*types.Var); ok {
			return c.varClass(a, fn, body, v, depth)
		}
	}
	return "other:expression"
}

// varClass classifies a variable by all its definitions in the function
func (c *census) varClass(a *apkg, fn string, body ast.Node, v *types.Var, depth int) string {
	info := a.info
	if v.IsField() {
		return "other:field"
	}
	if v.Pkg() != nil && v.Parent() == v.Pkg().Scope() {
		return "var"
	}
	if c.isParam(fn, body, v) {
		return "param"
	}
	if d, ok := c.fnDecl[fn]; ok && d.Recv != nil && d.Recv.Pos() <= v.Pos() && v.Pos() < d.Recv.End() {
		return "param"
	}
	if depth > 4 {
		return "other:deep"
	}
	cls, defs := "fresh", 0
	isSelf := func(e ast.Expr) bool {
		id, ok := e.(*ast.Ident)
		return ok && info.Uses[id] == v
	}
	// v = append(v, x...) keeps what v was and adds the x; v = v[i:j] keeps what v was
	rhsClass := func(e ast.Expr) string {
		switch x := e.(type) {
		case *ast.CallExpr:
			if id, ok := x.Fun.(*ast.Ident); ok && id.Name == "append" && len(x.Args) > 0 && isSelf(x.Args[0]) {
				if _, b := info.Uses[id].(*types.Builtin); b {
					out := "fresh"
					for _, arg := range x.Args[1:] {
						out = worse(out, c.exprClass(a, fn, body, arg, depth+1))
					}
					if out == "fresh" || out == "fresh-call" {
						return "fresh-elem"
					}
					return out
				}
			}
		case *ast.SliceExpr:
			if isSelf(x.X) {
				return "fresh"
			}
		}
		return c.exprClass(a, fn, body, e, depth+1)
	}
	ast.Inspect(c.fnBody(fn, body), func(n ast.Node) bool {
		switch x := n.(type) {
		case *ast.AssignStmt:
			for i, l := range x.Lhs {
				id, ok := l.(*ast.Ident)
				if !ok {
					continue
				}
				obj := info.Defs[id]
				if obj == nil {
					obj = info.Uses[id]
				}
				if obj != v {
					continue
				}
				defs++
				switch {
				case len(x.Rhs) == len(x.Lhs):
					cls = worse(cls, rhsClass(x.Rhs[i]))
				case len(x.Rhs) == 1 && i == 0:
					// v, ok := m[k]  /  v, err := f(...): the first value
					cls = worse(cls, c.exprClass(a, fn, body, x.Rhs[0], depth+1))
				default:
					cls = worse(cls, "other:multi-value")
				}
			}
		case *ast.ValueSpec:
			for i, id := range x.Names {
				if info.Defs[id] != v {
					continue
				}
				defs++
				if i < len(x.Values) {
					cls = worse(cls, c.exprClass(a, fn, body, x.Values[i], depth+1))
				}
			}
		case *ast.RangeStmt:
			for k, e := range []ast.Expr{x.Key, x.Value} {
				id, ok := e.(*ast.Ident)
				if !ok || (info.Defs[id] != v && info.Uses[id] != v) {
					continue
				}
				defs++
				if k == 1 {
					// the elements of a container this function made
					if cid, ok := x.X.(*ast.Ident); ok {
						if cv, ok := info.Uses[cid].(*types.Var); ok && freshLocal(info, c.fnBody(fn, body), cv) {
							cls = worse(cls, "fresh-elem")
							continue
						}
					}
					cls = worse(cls, "other:range")
				}
			}
		}
		return true
	})
	if defs == 0 {
		return "other:undefined"
	}
	return cls
}

func (c *census) baseClass(a *apkg, fn string, body ast.Node, e ast.Expr) string {
	root := stripBase(e)
	switch x := root.(type) {
	case *ast.Ident:
		if v, ok := a.info.Uses[x].(*types.Var); ok {
			return c.varClass(a, fn, body, v, 0)
		}
		return "other:ident"
	default:
		return c.exprClass(a, fn, body, root, 0)
	}
}

// computeFresh: the functions whose first result is, at every return, an object created by the
// function itself or by such a function (least fixed point)
func (c *census) computeFresh() {
	for changed := true; changed; {
		changed = false
		for _, key := range c.fnOrder {
			if c.freshFn[key] {
				continue
			}
			d := c.fnDecl[key]
			a := c.fnPkg[key]
			if d.Body == nil || d.Type.Results == nil || len(d.Type.Results.List) == 0 {
				continue
			}
			ok, nret := true, 0
			var walk func(n ast.Node) bool
			walk = func(n ast.Node) bool {
				switch x := n.(type) {
				case *ast.FuncLit:
					return false
				case *ast.ReturnStmt:
					nret++
					if len(x.Results) == 0 {
						ok = false
						return false
					}
					cl := c.exprClass(a, key, d.Body, x.Results[0], 0)
					if strings.HasPrefix(cl, "other") || cl == "param" || cl == "var" {
						ok = false
					}
				}
				return true
			}
			ast.Inspect(d.Body, walk)
			if ok && nret > 0 {
				c.freshFn[key] = true
				changed = true
			}
		}
	}
}

// isParam: is v declared in the parameter list of the function (or of a function literal inside it)
func (c *census) isParam(fn string, body ast.Node, v *types.Var) bool {
	in := func(fl *ast.FieldList) bool {
		return fl != nil && fl.Pos() <= v.Pos() && v.Pos() < fl.End()
	}
	if d, ok := c.fnDecl[fn]; ok && in(d.Type.Params) {
		return true
	}
	found := false
	ast.Inspect(c.fnBody(fn, body), func(n ast.Node) bool {
		if fl, ok := n.(*ast.FuncLit); ok && in(fl.Type.Params) {
			found = true
		}
		return !found
	})
	return found
}

// elemTarget: the element of a map / slice that is not a fresh local.  A slice or array of
// scalars (a byte buffer handed in by the caller) is told apart from the rest.
func (c *census) elemTarget(t types.Type) string {
	switch u := t.Underlying().(type) {
	case *types.Slice:
		if !mutableKind(u.Elem(), map[types.Type]bool{}) {
			return "elem-of-scalars:" + c.typeStr(t)
		}
	case *types.Array:
		if !mutableKind(u.Elem(), map[types.Type]bool{}) {
			return "elem-of-scalars:" + c.typeStr(t)
		}
	case *types.Pointer:
		if a, ok := u.Elem().Underlying().(*types.Array); ok && !mutableKind(a.Elem(), map[types.Type]bool{}) {
			return "elem-of-scalars:" + c.typeStr(t)
		}
	}
	return "elem-of:" + c.typeStr(t)
}

// fnBody: the whole declaration a (possibly nested) body belongs to, for freshLocal
func (c *census) fnBody(fn string, dflt ast.Node) ast.Node {
	if d, ok := c.fnDecl[fn]; ok && d.Body != nil {
		return d
	}
	return dflt
}

func (c *census) useFunc(a *apkg, fn string, obj types.Object) {
	f, ok := obj.(*types.Func)
	if !ok {
		return
	}
	if sig := f.Type().(*types.Signature); sig.Recv() != nil {
		return // methods are handled through their selection
	}
	if k, ok := c.keyOf(f); ok {
		add(c.edges, fn, k)
	} else if f.Pkg() != nil {
		if _, isA := c.byPkg[f.Pkg()]; !isA {
			add(c.ext, fn, f.Pkg().Path())
		}
	}
}

func (c *census) useMethod(fn string, sel *types.Selection) {
	m, ok := sel.Obj().(*types.Func)
	if !ok {
		return
	}
	recv := sel.Recv()
	if p, ok := recv.(*types.Pointer); ok {
		recv = p.Elem()
	}
	if it, ok := recv.Underlying().(*types.Interface); ok {
		// dynamic dispatch: every analysed type that implements the interface
		for _, n := range c.implementers(it) {
			obj, _, _ := types.LookupFieldOrMethod(types.NewPointer(n), true, m.Pkg(), m.Name())
			if mf, ok := obj.(*types.Func); ok {
				if k, ok := c.keyOf(mf); ok {
					add(c.edges, fn, k)
				}
			}
		}
		if m.Pkg() != nil {
			if _, isA := c.byPkg[m.Pkg()]; !isA {
				add(c.ext, fn, m.Pkg().Path())
			}
		}
		return
	}
	if k, ok := c.keyOf(m); ok {
		add(c.edges, fn, k)
	} else if m.Pkg() != nil {
		if _, isA := c.byPkg[m.Pkg()]; !isA {
			add(c.ext, fn, m.Pkg().Path())
		}
	}
}

func (c *census) scanAll() {
	for _, a := range c.pkgs {
		for i, f := range a.files {
			if strings.HasSuffix(a.names[i], ".pb.go") {
				continue
			}
			for _, d := range f.Decls {
				switch x := d.(type) {
				case *ast.FuncDecl:
					obj, _ := a.info.Defs[x.Name].(*types.Func)
					if obj == nil || x.Body == nil {
						continue
					}
					c.scanBody(a, c.fnKey[obj], x.Body)
				case *ast.GenDecl:
					if x.Tok != token.VAR {
						continue
					}
					for _, sp := range x.Specs {
						for _, v := range sp.(*ast.ValueSpec).Values {
							c.scanBody(a, a.short+".<init>", v)
						}
					}
				}
			}
		}
	}
}

func (c *census) reach(roots []string, stop map[string]bool) map[string]bool {
	seen := map[string]bool{}
	var walk func(k string)
	walk = func(k string) {
		if seen[k] || stop[k] {
			return
		}
		seen[k] = true
		for n := range c.edges[k] {
			walk(n)
		}
	}
	for _, r := range roots {
		walk(r)
	}
	return seen
}

func sortedKeys(m map[string]bool) []string {
	out := make([]string, 0, len(m))
	for k := range m {
		out = append(out, k)
	}
	sort.Strings(out)
	return out
}

func coqTriples(rows [][3]string, boolThird bool) string {
	var sb strings.Builder
	sb.WriteString("[")
	for i, r := range rows {
		if i > 0 {
			sb.WriteString(";")
		}
		third := gen.CoqString(r[2])
		if boolThird {
			third = r[2]
		}
		fmt.Fprintf(&sb, "\n  (%s, %s, %s)", gen.CoqString(r[0]), gen.CoqString(r[1]), third)
	}
	sb.WriteString("\n]")
	return sb.String()
}

const schemaFn = "j5schema.SchemaCache.Schema"

// schemaPrelude inspects the body of SchemaCache.Schema: the statements before the first
// <recv>.mu.Lock() may only be hook points; it returns everything else found there (calls,
// field reads) and whether the statement right after the Lock is `defer <recv>.mu.Unlock()`.
func (c *census) schemaPrelude() (prelude []string, lockThenDefer bool) {
	d, ok := c.fnDecl[schemaFn]
	if !ok || d.Body == nil {
		return []string{"<no Schema method>"}, false
	}
	a := c.fnPkg[schemaFn]
	isMu := func(call *ast.CallExpr, op string) bool {
		sel, ok := call.Fun.(*ast.SelectorExpr)
		if !ok || sel.Sel.Name != op {
			return false
		}
		inner, ok := sel.X.(*ast.SelectorExpr)
		return ok && inner.Sel.Name == "mu"
	}
	for i, st := range d.Body.List {
		if es, ok := st.(*ast.ExprStmt); ok {
			if call, ok := es.X.(*ast.CallExpr); ok {
				if isMu(call, "Lock") {
					if i+1 < len(d.Body.List) {
						if ds, ok := d.Body.List[i+1].(*ast.DeferStmt); ok && isMu(ds.Call, "Unlock") {
							lockThenDefer = true
						}
					}
					return prelude, lockThenDefer
				}
				if sel, ok := call.Fun.(*ast.SelectorExpr); ok && sel.Sel.Name == "At" {
					if id, ok := sel.X.(*ast.Ident); ok && id.Name == "verifhook" {
						continue
					}
				}
			}
		}
		// anything else before the lock: list what it calls and reads
		found := false
		ast.Inspect(st, func(n ast.Node) bool {
			switch x := n.(type) {
			case *ast.CallExpr:
				prelude = append(prelude, "call:"+c.typeStr(a.info.TypeOf(x.Fun)))
				found = true
			case *ast.SelectorExpr:
				if sel, ok := a.info.Selections[x]; ok && sel.Kind() == types.FieldVal {
					if name, known := c.fieldName[sel.Obj().(*types.Var).Origin()]; known {
						prelude = append(prelude, "field:"+name)
						found = true
					}
				}
			}
			return true
		})
		if !found {
			prelude = append(prelude, fmt.Sprintf("stmt:%T", st))
		}
	}
	return append(prelude, "<no Lock>"), false
}

func genConcState(repo string) (string, error) {
	c, err := loadCensus(repo)
	if err != nil {
		return "", err
	}
	c.index()
	c.computeFresh()
	c.scanAll()

	var sb strings.Builder
	sb.WriteString("From Coq Require Import String List.\nImport ListNotations.\nLocal Open Scope string_scope.\n")
	sb.WriteString("(* census of mutable state and its writers, by go/types — see harness/cmd/gen_conc/state.go *)\n")

	var pk []string
	for _, a := range c.pkgs {
		pk = append(pk, strings.TrimPrefix(a.lp.ImportPath, modPrefix))
	}
	sort.Strings(pk)
	fmt.Fprintf(&sb, "Definition state_pkgs : list string := %s.\n", coqList(pk))

	// package-level variables; roots of the shared-type closure
	seen := map[types.Type]bool{}
	var vars [][3]string
	for _, a := range c.pkgs {
		sc := a.pkg.Scope()
		for _, name := range sc.Names() {
			v, ok := sc.Lookup(name).(*types.Var)
			if !ok || c.genVar[v] {
				continue
			}
			b := "false"
			// a variable of the predeclared type error holds an immutable value (errors.New, fmt.Errorf);
			// that it is never assigned again is checked with all the others (vars_only_initialised)
			if mutableKind(v.Type(), map[types.Type]bool{}) && !types.Identical(v.Type(), types.Universe.Lookup("error").Type()) {
				b = "true"
			}
			vars = append(vars, [3]string{a.short + "." + name, c.typeStr(v.Type()), b})
			c.closeType(v.Type(), seen)
		}
		if a.short == "codec" {
			if tn, ok := sc.Lookup("Codec").(*types.TypeName); ok {
				c.closeType(tn.Type(), seen)
			}
		}
	}
	sort.Slice(vars, func(i, j int) bool { return vars[i][0] < vars[j][0] })
	fmt.Fprintf(&sb, "Definition state_vars : list (string * string * bool) := %s.\n", coqTriples(vars, true))
	fmt.Fprintf(&sb, "Definition shared_types : list string := %s.\n", coqList(sortedKeys(c.shared)))
	fmt.Fprintf(&sb, "Definition shared_ext_types : list string := %s.\n", coqList(sortedKeys(c.extTypes)))

	var fields [][3]string
	sharedField := map[string]bool{}
	for _, n := range c.named {
		if !c.shared[c.namedKey(n)] {
			continue
		}
		st, ok := n.Underlying().(*types.Struct)
		if !ok {
			continue
		}
		for i := 0; i < st.NumFields(); i++ {
			f := st.Field(i)
			b := "false"
			if mutableKind(f.Type(), map[types.Type]bool{}) {
				b = "true"
			}
			name := c.fieldName[f]
			sharedField[name] = true
			fields = append(fields, [3]string{name, c.typeStr(f.Type()), b})
		}
	}
	sort.Slice(fields, func(i, j int) bool { return fields[i][0] < fields[j][0] })
	fmt.Fprintf(&sb, "Definition shared_fields : list (string * string * bool) := %s.\n", coqTriples(fields, true))

	// lock-free and locked functions
	var roots []string
	for _, k := range c.fnOrder {
		d := c.fnDecl[k]
		if d.Recv == nil || !ast.IsExported(d.Name.Name) {
			continue
		}
		if strings.HasPrefix(k, "codec.Codec.") || strings.HasPrefix(k, "j5reflect.Reflector.") {
			roots = append(roots, k)
		}
	}
	sort.Strings(roots)
	lf := c.reach(roots, map[string]bool{schemaFn: true})
	lk := c.reach([]string{schemaFn}, nil)
	fmt.Fprintf(&sb, "Definition lockfree_roots : list string := %s.\n", coqList(roots))
	fmt.Fprintf(&sb, "Definition lockfree_fns : list string := %s.\n", coqList(sortedKeys(lf)))
	fmt.Fprintf(&sb, "Definition locked_fns : list string := %s.\n", coqList(sortedKeys(lk)))
	// does a lock-free function call Schema at all (the boundary is real)
	var callers []string
	for k := range lf {
		if c.edges[k][schemaFn] {
			callers = append(callers, k)
		}
	}
	sort.Strings(callers)
	fmt.Fprintf(&sb, "Definition schema_callers : list string := %s.\n", coqList(callers))
	prelude, ltd := c.schemaPrelude()
	fmt.Fprintf(&sb, "(* SchemaCache.Schema: what stands before sc.mu.Lock() besides hook points; is the Lock followed at once by defer Unlock *)\n")
	fmt.Fprintf(&sb, "Definition schema_prelude : list string := %s.\n", coqList(prelude))
	fmt.Fprintf(&sb, "Definition schema_lock_then_defer_unlock : bool := %v.\n", ltd)
	var gos []string
	for k := range c.goStmts {
		if lf[k] || lk[k] {
			gos = append(gos, k)
		}
	}
	sort.Strings(gos)
	fmt.Fprintf(&sb, "(* lock-free or locked functions that start a goroutine *)\nDefinition go_stmts : list string := %s.\n", coqList(gos))

	// writes: to package-level variables, to fields of shared types, through pointers, to elements of non-fresh maps/slices
	var ws [][3]string
	for w := range c.writes {
		t := w[1]
		keep := false
		switch {
		case strings.HasPrefix(t, "field:"):
			// fields of types that no package-level variable and no Codec can reach belong to
			// per-call objects (decoder, encoder, property sets): not reported
			keep = sharedField[strings.TrimPrefix(t, "field:")]
		default:
			keep = true
		}
		if keep {
			ws = append(ws, w)
		}
	}
	sort.Slice(ws, func(i, j int) bool {
		for k := 0; k < 3; k++ {
			if ws[i][k] != ws[j][k] {
				return ws[i][k] < ws[j][k]
			}
		}
		return false
	})
	fmt.Fprintf(&sb, "Definition state_writes : list (string * string * string) := %s.\n", coqTriples(ws, false))

	dyn, ext := map[string]bool{}, map[string]bool{}
	for k := range lf {
		for d := range c.dyn[k] {
			dyn[d] = true
		}
		for e := range c.ext[k] {
			ext[e] = true
		}
	}
	fmt.Fprintf(&sb, "Definition lf_dyncalls : list string := %s.\n", coqList(sortedKeys(dyn)))
	fmt.Fprintf(&sb, "Definition lf_ext_pkgs : list string := %s.\n", coqList(sortedKeys(ext)))

	lkW, lfR := map[string]bool{}, map[string]bool{}
	for k := range lk {
		for f := range c.fwrites[k] {
			if sharedField[f] {
				lkW[f] = true
			}
		}
	}
	for k := range lf {
		for f := range c.freads[k] {
			lfR[f] = true
		}
	}
	both := map[string]bool{}
	for f := range lkW {
		if lfR[f] {
			both[f] = true
		}
	}
	fmt.Fprintf(&sb, "Definition lk_written_lf_read : list string := %s.\n", coqList(sortedKeys(both)))
	// where the objects come from whose (lock-free readable) fields locked functions write
	var fw [][3]string
	for w := range c.fieldW {
		if lk[w[0]] && both[w[1]] {
			fw = append(fw, w)
		}
	}
	sort.Slice(fw, func(i, j int) bool {
		for k := 0; k < 3; k++ {
			if fw[i][k] != fw[j][k] {
				return fw[i][k] < fw[j][k]
			}
		}
		return false
	})
	fmt.Fprintf(&sb, "(* (locked function, field that lock-free functions read, origin of the object written to) *)\n")
	fmt.Fprintf(&sb, "Definition lk_field_writes : list (string * string * string) := %s.\n", coqTriples(fw, false))
	fmt.Fprintf(&sb, "Definition fresh_returning : list string := %s.\n", coqList(sortedKeys(c.freshFn)))
	// shared fields that lock-free functions read at all
	var lfReads []string
	for f := range lfR {
		if sharedField[f] {
			lfReads = append(lfReads, f)
		}
	}
	sort.Strings(lfReads)
	fmt.Fprintf(&sb, "Definition lf_read_fields : list string := %s.\n", coqList(lfReads))
	return sb.String(), nil
}

// gen_conc: translator for the concurrency family (coq/gen/ConcGen.v).
package main

import "verifharness/gen"

func main() { gen.Main() }

package main

import (
	"fmt"
	"go/ast"
	"go/token"
	"path/filepath"
	"sort"
	"strconv"
	"strings"

	"verifharness/gen"
)

func init() { gen.Register("ConcGen.v", genConc) }

// ConcGen.v: for every function on the path from a codec call to the schema
// cache, the sequence (in source order) of its shared-state touches, lock
// operations, hook points and calls into the cache. Data only.
//
// tokens:
//   hook:<site>                 verifhook.At("<site>")
//   lock / unlock / defer-unlock / rlock / runlock / defer-runlock     on <recv>.mu
//   read:<map> / write:<map>    index expression on a field named packages / Schemas / Packages
//   delete:<map>                delete(x.<map>, key)
//   read:To / write:To          the To field of a RefSchema
//   call:<name>                 call of another function of the table (method of the same receiver,
//                               refTo / referencePackage through the RootSet interface,
//                               newRefPlaceholder, schemaSet.Schema, refl.NewRoot)
//   setfield:<name>             assignment to a field of the receiver

type fn struct {
	file, recv, name string
	exported         bool
	toks             []string
}

func recvName(fd *ast.FuncDecl) (typ string, ident string) {
	if fd.Recv == nil || len(fd.Recv.List) == 0 {
		return "", ""
	}
	f := fd.Recv.List[0]
	t := f.Type
	if st, ok := t.(*ast.StarExpr); ok {
		t = st.X
	}
	if id, ok := t.(*ast.Ident); ok {
		typ = id.Name
	}
	if len(f.Names) > 0 {
		ident = f.Names[0].Name
	}
	return
}

func selChain(e ast.Expr) []string {
	switch x := e.(type) {
	case *ast.Ident:
		return []string{x.Name}
	case *ast.SelectorExpr:
		c := selChain(x.X)
		if c == nil {
			return nil
		}
		return append(c, x.Sel.Name)
	}
	return nil
}

var sharedMaps = map[string]bool{"packages": true, "Schemas": true, "Packages": true}

// package-level variables: the census of state.go reports them; nothing is registered here
var (
	pkgVars     = map[string]bool{}
	pkgVarSpecs = map[*ast.ValueSpec]bool{}
)

func typeString(e ast.Expr) string {
	switch t := e.(type) {
	case nil:
		return ""
	case *ast.MapType:
		return "map"
	case *ast.ArrayType:
		return "slice"
	case *ast.StarExpr:
		return "*" + typeString(t.X)
	case *ast.FuncType:
		return "func"
	case *ast.InterfaceType:
		return "interface"
	case *ast.CompositeLit:
		return typeString(t.Type)
	case *ast.CallExpr:
		return "call:" + strings.Join(selChain(t.Fun), ".")
	case *ast.UnaryExpr:
		return "&" + typeString(t.X)
	}
	return strings.Join(selChain(e), ".")
}

func structFields(f *ast.File, name string) []string {
	var fields []string
	for _, d := range f.Decls {
		gd, ok := d.(*ast.GenDecl)
		if !ok {
			continue
		}
		for _, sp := range gd.Specs {
			ts, ok := sp.(*ast.TypeSpec)
			if !ok || ts.Name.Name != name {
				continue
			}
			st, ok := ts.Type.(*ast.StructType)
			if !ok {
				continue
			}
			for _, fl := range st.Fields.List {
				for _, n := range fl.Names {
					fields = append(fields, n.Name+":"+typeString(fl.Type))
				}
			}
		}
	}
	return fields
}

func tokens(fd *ast.FuncDecl, methods map[string]bool) []string {
	_, recv := recvName(fd)
	var toks []string
	writes := map[ast.Expr]bool{}
	if fd.Body == nil {
		return nil
	}
	lockTok := func(call *ast.CallExpr, deferred bool) (string, bool) {
		c := selChain(call.Fun)
		if len(c) < 2 {
			return "", false
		}
		op := c[len(c)-1]
		holder := c[len(c)-2]
		if holder != "mu" && holder != "lock" && holder != "mutex" {
			return "", false
		}
		m := map[string]string{"Lock": "lock", "Unlock": "unlock", "RLock": "rlock", "RUnlock": "runlock", "TryLock": "trylock"}
		t, ok := m[op]
		if !ok {
			return "", false
		}
		if deferred {
			t = "defer-" + t
		}
		return t, true
	}
	var visit func(n ast.Node) bool
	visit = func(n ast.Node) bool {
		switch x := n.(type) {
		case *ast.AssignStmt:
			for _, l := range x.Lhs {
				writes[l] = true
			}
			// evaluate right-hand sides first, as Go does for the touches we list
			for _, r := range x.Rhs {
				ast.Inspect(r, visit)
			}
			for _, l := range x.Lhs {
				ast.Inspect(l, visit)
			}
			return false
		case *ast.DeferStmt:
			if t, ok := lockTok(x.Call, true); ok {
				toks = append(toks, t)
				return false
			}
		case *ast.CallExpr:
			if t, ok := lockTok(x, false); ok {
				toks = append(toks, t)
				return false
			}
			c := selChain(x.Fun)
			if len(c) == 1 && c[0] == "delete" && len(x.Args) == 2 {
				if m := selChain(x.Args[0]); len(m) >= 2 && sharedMaps[m[len(m)-1]] {
					toks = append(toks, "delete:"+m[len(m)-1])
				}
			}
			if len(c) == 2 && c[0] == "verifhook" && c[1] == "At" && len(x.Args) == 1 {
				if bl, ok := x.Args[0].(*ast.BasicLit); ok && bl.Kind == token.STRING {
					s, _ := strconv.Unquote(bl.Value)
					toks = append(toks, "hook:"+s)
					return false
				}
			}
			if len(c) > 0 {
				last := c[len(c)-1]
				switch {
				case len(c) == 2 && c[0] == recv && methods[last]:
					toks = append(toks, "call:"+last)
				case last == "refTo" || last == "referencePackage":
					toks = append(toks, "call:"+last)
				case len(c) == 1 && last == "newRefPlaceholder":
					toks = append(toks, "call:"+last)
				case len(c) == 2 && last == "claim":
					// RefSchema.claim(descriptor): the ref found or created is checked against the descriptor it was
					// registered for (ConcSites.code_hitpol)
					toks = append(toks, "call:claim")
				case len(c) >= 2 && c[len(c)-2] == "schemaSet" && last == "Schema":
					toks = append(toks, "call:schemaSet.Schema")
				case len(c) >= 2 && c[len(c)-2] == "refl" && last == "NewRoot":
					toks = append(toks, "call:refl.NewRoot")
				}
			}
		case *ast.IndexExpr:
			c := selChain(x.X)
			// a shared map by name, any indexed field of the receiver, or an indexed package-level variable
			if (len(c) >= 2 && sharedMaps[c[len(c)-1]]) || (len(c) == 2 && c[0] == recv && recv != "") || (len(c) == 1 && pkgVars[c[0]]) {
				if writes[x] {
					toks = append(toks, "write:"+c[len(c)-1])
				} else {
					toks = append(toks, "read:"+c[len(c)-1])
				}
			}
		case *ast.Ident:
			if writes[x] && pkgVars[x.Name] {
				// an identifier the parser could not resolve inside this file is package-level (declared in another file)
				if x.Obj == nil {
					toks = append(toks, "setvar:"+x.Name)
				} else if vs, ok := x.Obj.Decl.(*ast.ValueSpec); ok && pkgVarSpecs[vs] {
					toks = append(toks, "setvar:"+x.Name)
				}
			}
		case *ast.SelectorExpr:
			if x.Sel.Name == "To" {
				if writes[x] {
					toks = append(toks, "write:To")
				} else {
					toks = append(toks, "read:To")
				}
			} else if x.Sel.Name == "source" {
				// the descriptor a RefSchema was registered for (ConcSites.code_hitpol)
				if writes[x] {
					toks = append(toks, "write:source")
				} else {
					toks = append(toks, "read:source")
				}
			} else if writes[x] {
				if id, ok := x.X.(*ast.Ident); ok && id.Name == recv && recv != "" {
					toks = append(toks, "setfield:"+x.Sel.Name)
				}
			}
		}
		return true
	}
	ast.Inspect(fd.Body, visit)
	return toks
}

func coqList(xs []string) string {
	q := make([]string, len(xs))
	for i, x := range xs {
		q[i] = gen.CoqString(x)
	}
	return "[" + strings.Join(q, "; ") + "]"
}

func genConc(repo string) (string, error) {
	var sb strings.Builder
	sb.WriteString("From Coq Require Import String List.\nImport ListNotations.\nLocal Open Scope string_scope.\n")
	sb.WriteString("(* function tables: (name, exported, tokens in source order) — see harness/cmd/gen_conc/conc.go *)\n")

	// ---- lib/j5schema/schema_cache.go: the struct and every method of *SchemaCache
	_, f, err := gen.ParseFile(filepath.Join(repo, "lib/j5schema/schema_cache.go"))
	if err != nil {
		return "", err
	}
	fields := structFields(f, "SchemaCache")
	mutexField := ""
	for _, fl := range fields {
		if strings.HasSuffix(fl, ":sync.Mutex") || strings.HasSuffix(fl, ":sync.RWMutex") {
			mutexField = fl
		}
	}
	fmt.Fprintf(&sb, "Definition cache_fields : list string := %s.\n", coqList(fields))
	fmt.Fprintf(&sb, "Definition cache_mutex : string := %s.\n", gen.CoqString(mutexField))

	emit := func(def string, fns []fn) {
		sort.SliceStable(fns, func(i, j int) bool { return fns[i].name < fns[j].name })
		fmt.Fprintf(&sb, "Definition %s : list (string * bool * list string) := [\n", def)
		for i, x := range fns {
			if i > 0 {
				sb.WriteString(";\n")
			}
			b := "false"
			if x.exported {
				b = "true"
			}
			fmt.Fprintf(&sb, "  (%s, %s, %s)", gen.CoqString(x.name), b, coqList(x.toks))
		}
		sb.WriteString("\n].\n")
	}

	methodsOf := func(f *ast.File, typ string) map[string]bool {
		m := map[string]bool{}
		for _, d := range f.Decls {
			if fd, ok := d.(*ast.FuncDecl); ok {
				if t, _ := recvName(fd); t == typ {
					m[fd.Name.Name] = true
				}
			}
		}
		return m
	}

	ms := methodsOf(f, "SchemaCache")
	var cacheFns []fn
	for _, d := range f.Decls {
		fd, ok := d.(*ast.FuncDecl)
		if !ok {
			continue
		}
		if t, _ := recvName(fd); t != "SchemaCache" {
			continue
		}
		cacheFns = append(cacheFns, fn{name: fd.Name.Name, exported: ast.IsExported(fd.Name.Name), toks: tokens(fd, ms)})
	}
	sb.WriteString("(* lib/j5schema/schema_cache.go: methods of *SchemaCache *)\n")
	emit("cache_methods", cacheFns)

	// ---- lib/j5schema/schema_from_proto.go: functions that register placeholders in the RootSet
	_, g, err := gen.ParseFile(filepath.Join(repo, "lib/j5schema/schema_from_proto.go"))
	if err != nil {
		return "", err
	}
	var phFns []fn
	for _, d := range g.Decls {
		fd, ok := d.(*ast.FuncDecl)
		if !ok {
			continue
		}
		toks := tokens(fd, map[string]bool{})
		var keep []string
		uses := false
		for _, t := range toks {
			if t == "call:newRefPlaceholder" || t == "call:refTo" {
				uses = true
			}
			if strings.HasPrefix(t, "call:") || strings.HasSuffix(t, ":To") || strings.HasPrefix(t, "hook:") || strings.Contains(t, "lock") {
				keep = append(keep, t)
			}
		}
		if uses {
			phFns = append(phFns, fn{name: fd.Name.Name, exported: ast.IsExported(fd.Name.Name), toks: keep})
		}
	}
	sb.WriteString("(* lib/j5schema/schema_from_proto.go: functions that call newRefPlaceholder / refTo *)\n")
	emit("placeholder_functions", phFns)

	// ---- lib/j5schema/root_schema.go: RefSchema.claim, if there is one (the descriptor a ref was registered for)
	var claimToks []string
	if _, rs, err := gen.ParseFile(filepath.Join(repo, "lib/j5schema/root_schema.go")); err == nil {
		for _, d := range rs.Decls {
			if fd, ok := d.(*ast.FuncDecl); ok && fd.Name.Name == "claim" {
				if t, _ := recvName(fd); t == "RefSchema" {
					claimToks = tokens(fd, map[string]bool{})
				}
			}
		}
	}
	sb.WriteString("(* lib/j5schema/root_schema.go: func (ref *RefSchema) claim — empty when there is no such method *)\n")
	fmt.Fprintf(&sb, "Definition claim_method : list string := %s.\n", coqList(claimToks))

	// ---- lib/j5reflect/reflect.go, internal/codec/codec.go: how the cache is reached
	for _, src := range []struct{ def, path, typ string }{
		{"reflector_methods", "lib/j5reflect/reflect.go", "Reflector"},
		{"codec_methods", "internal/codec/codec.go", "Codec"},
	} {
		_, h, err := gen.ParseFile(filepath.Join(repo, src.path))
		if err != nil {
			return "", err
		}
		hm := methodsOf(h, src.typ)
		var fns []fn
		for _, d := range h.Decls {
			fd, ok := d.(*ast.FuncDecl)
			if !ok {
				continue
			}
			if t, _ := recvName(fd); t != src.typ {
				continue
			}
			fns = append(fns, fn{name: fd.Name.Name, exported: ast.IsExported(fd.Name.Name), toks: tokens(fd, hm)})
		}
		fmt.Fprintf(&sb, "(* %s: fields and methods of *%s *)\n", src.path, src.typ)
		emit(src.def, fns)
	}

	// ---- internal/codec: every function that obtains the root through the reflector
	var roots []string
	for _, name := range []string{"encoder.go", "decoder.go", "query.go"} {
		_, h, err := gen.ParseFile(filepath.Join(repo, "internal/codec", name))
		if err != nil {
			return "", err
		}
		for _, d := range h.Decls {
			fd, ok := d.(*ast.FuncDecl)
			if !ok {
				continue
			}
			for _, t := range tokens(fd, map[string]bool{}) {
				if t == "call:refl.NewRoot" {
					roots = append(roots, name+":"+fd.Name.Name)
				}
			}
		}
	}
	sort.Strings(roots)
	fmt.Fprintf(&sb, "(* internal/codec: functions that call c.refl.NewRoot *)\nDefinition codec_entry_points : list string := %s.\n", coqList(roots))
	return sb.String(), nil
}

// run_tool: implementation runner for the tool family (C16 downstream chain, C05 printer round trip).
// `run_tool worker` is the crash-isolated worker mode: jobs as JSON lines on stdin, results on stdout.
package main

import (
	"os"

	"verifharness/vh"
)

func main() {
	if len(os.Args) > 1 && os.Args[1] == "worker" {
		workerMain()
		return
	}
	if len(os.Args) > 3 && os.Args[1] == "try" {
		tryMain(os.Args[2], os.Args[3])
		return
	}
	vh.Main()
}

package main

// Scope shortening of type names (protoprint.contextRefName) against the real protocompile resolver.

import (
	"context"
	"fmt"
	"sort"
	"strings"

	"github.com/pentops/j5/lib/verifshim/tool"
	"google.golang.org/protobuf/reflect/protoreflect"
	"verifharness/vh"
)

type scopeNode struct {
	Name     string       `json:"name"`
	Enum     bool         `json:"enum,omitempty"`
	Children []*scopeNode `json:"children,omitempty"`
}

type scopeCase struct {
	Pkg      string       `json:"pkg"`       // package of the file holding the field
	OtherPkg string       `json:"other_pkg"` // package of the second file ("" = none)
	Tree     []*scopeNode `json:"tree"`
	Other    []*scopeNode `json:"other,omitempty"`
	Ctx      []string     `json:"ctx"`      // message path (in Pkg) holding the field
	Ref      []string     `json:"ref"`      // referenced type path
	RefOther bool         `json:"ref_other"` // the referenced type lives in OtherPkg
}

func (s *scopeCase) key() string { return fmt.Sprintf("%+v|%s|%s", *s, dumpTree(s.Tree), dumpTree(s.Other)) }

func dumpTree(ns []*scopeNode) string {
	var sb strings.Builder
	for _, n := range ns {
		sb.WriteString(n.Name)
		if n.Enum {
			sb.WriteString("!")
		}
		sb.WriteString("(" + dumpTree(n.Children) + ")")
	}
	return sb.String()
}

func genTree(r *vh.Rand, depth int, names []string) []*scopeNode {
	n := r.Range(1, 3)
	used := map[string]bool{}
	var out []*scopeNode
	for i := 0; i < n; i++ {
		nm := vh.Pick(r, names)
		if used[nm] {
			continue
		}
		used[nm] = true
		nd := &scopeNode{Name: nm}
		if depth < 3 && r.Chance(55) {
			nd.Children = genTree(r, depth+1, names)
		} else if r.Chance(25) {
			nd.Enum = true
		}
		out = append(out, nd)
	}
	return out
}

func allPaths(ns []*scopeNode, prefix []string, msgOnly bool, out *[][]string) {
	for _, n := range ns {
		p := append(append([]string{}, prefix...), n.Name)
		if !(msgOnly && n.Enum) {
			*out = append(*out, p)
		}
		allPaths(n.Children, p, msgOnly, out)
	}
}

func genScopeCase(r *vh.Rand) *scopeCase {
	names := []string{"A", "B", "C"}
	if r.Chance(15) {
		names = []string{"A", "option", "string", "B", "optional"}
	} else if r.Chance(30) {
		names = []string{"A", "B", "Sc", "V1", "Other"}
	}
	pk := vh.Pick(r, [][2]string{{"sc.v1", "other.v1"}, {"sc.v1.service", "sc.v1"}, {"service.v1.service", "service.v1"}, {"a.b", "a.c"}, {"topic.v1.topic", "topic.v1"}, {"sc.v1", "sc.v1.sub"}})
	sc := &scopeCase{Pkg: pk[0], OtherPkg: pk[1], Tree: genTree(r, 1, names), Other: genTree(r, 1, names)}
	var msgs, types, otherTypes [][]string
	allPaths(sc.Tree, nil, true, &msgs)
	for len(msgs) == 0 {
		sc.Tree = genTree(r, 1, names)
		allPaths(sc.Tree, nil, true, &msgs)
	}
	allPaths(sc.Tree, nil, false, &types)
	allPaths(sc.Other, nil, false, &otherTypes)
	sc.Ctx = vh.Pick(r, msgs)
	if r.Chance(20) {
		sc.RefOther = true
		sc.Ref = vh.Pick(r, otherTypes)
	} else {
		sc.Ref = vh.Pick(r, types)
	}
	return sc
}

func renderTree(sb *strings.Builder, ns []*scopeNode, ind string, path []string, ctx []string, fieldType string) {
	for _, n := range ns {
		p := append(append([]string{}, path...), n.Name)
		if n.Enum {
			fmt.Fprintf(sb, "%senum %s { %s_UNSPECIFIED = 0; }\n", ind, n.Name, strings.ToUpper(strings.Join(p, "_")))
			continue
		}
		fmt.Fprintf(sb, "%smessage %s {\n", ind, n.Name)
		if fieldType != "" && strings.Join(p, ".") == strings.Join(ctx, ".") {
			fmt.Fprintf(sb, "%s  %s the_field = 1;\n", ind, fieldType)
		}
		renderTree(sb, n.Children, ind+"  ", p, ctx, fieldType)
		fmt.Fprintf(sb, "%s}\n", ind)
	}
}

func (s *scopeCase) files(fieldType string) map[string]string {
	mainPath := strings.ReplaceAll(s.Pkg, ".", "/") + "/main.proto"
	otherPath := strings.ReplaceAll(s.OtherPkg, ".", "/") + "/other.proto"
	var a, b strings.Builder
	fmt.Fprintf(&a, "syntax = \"proto3\";\npackage %s;\nimport %q;\n", s.Pkg, otherPath)
	renderTree(&a, s.Tree, "", nil, s.Ctx, fieldType)
	fmt.Fprintf(&b, "syntax = \"proto3\";\npackage %s;\n", s.OtherPkg)
	renderTree(&b, s.Other, "", nil, nil, "")
	return map[string]string{mainPath: a.String(), otherPath: b.String()}
}

func (s *scopeCase) refFull() string {
	if s.RefOther {
		return s.OtherPkg + "." + strings.Join(s.Ref, ".")
	}
	return s.Pkg + "." + strings.Join(s.Ref, ".")
}

func findField(files []protoreflect.FileDescriptor, pkg string, ctx []string) protoreflect.FieldDescriptor {
	for _, f := range files {
		if string(f.Package()) != pkg {
			continue
		}
		msgs := f.Messages()
		var md protoreflect.MessageDescriptor
		for i, name := range ctx {
			md = msgs.ByName(protoreflect.Name(name))
			if md == nil {
				return nil
			}
			if i < len(ctx)-1 {
				msgs = md.Messages()
			}
		}
		if md != nil {
			return md.Fields().ByName("the_field")
		}
	}
	return nil
}

type scopeOut struct {
	term string
	impl any
}

func coqParts(s string) string { return coqStrs(strings.Split(s, ".")) }

func typeTable(s *scopeCase) string {
	var rows []string
	add := func(pkg string, tree []*scopeNode) {
		var ps [][]string
		allPaths(tree, nil, false, &ps)
		for _, p := range ps {
			rows = append(rows, coqStrs(append(strings.Split(pkg, "."), p...)))
		}
	}
	add(s.Pkg, s.Tree)
	add(s.OtherPkg, s.Other)
	sort.Strings(rows)
	return "[" + strings.Join(rows, ";") + "]"
}

// run computes the shortened name with the real contextRefName and resolves it with the real linker.
func (s *scopeCase) run(ctx context.Context) (out *scopeOut, fail string) {
	defer func() {
		if p := recover(); p != nil {
			fail = fmt.Sprintf("panic: %v", p)
		}
	}()
	mainPath := strings.ReplaceAll(s.Pkg, ".", "/") + "/main.proto"
	full := s.refFull()
	files, err := tool.ParseProto(ctx, s.files("."+full), []string{mainPath})
	if err != nil {
		return nil, "" // the generated nesting itself is not a valid file (e.g. name clash): not a case
	}
	fd := findField(files, s.Pkg, s.Ctx)
	if fd == nil {
		return nil, ""
	}
	var target protoreflect.Descriptor = fd.Message()
	if fd.Enum() != nil {
		target = fd.Enum()
	}
	short, err := tool.ContextRefName(fd.Parent(), target)
	if err != nil {
		return nil, "contextRefName error: " + err.Error()
	}
	resolved := ""
	ok := false
	files2, err := tool.ParseProto(ctx, s.files(short), []string{mainPath})
	if err == nil {
		if fd2 := findField(files2, s.Pkg, s.Ctx); fd2 != nil {
			ok = true
			if fd2.Message() != nil {
				resolved = string(fd2.Message().FullName())
			} else if fd2.Enum() != nil {
				resolved = string(fd2.Enum().FullName())
			}
		}
	}
	where := "same package"
	if s.RefOther {
		where = "other package"
	}
	switch {
	case !ok:
		fail = fmt.Sprintf("(%s) does not resolve|%q printed for %s inside %s.%s: %v", where, short, full, s.Pkg, strings.Join(s.Ctx, "."), err)
	case resolved != full:
		fail = fmt.Sprintf("(%s) resolves to a different type|%q printed for %s inside %s.%s resolves to %s", where, short, full, s.Pkg, strings.Join(s.Ctx, "."), resolved)
	}
	resTerm := "None"
	if ok {
		resTerm = "(Some " + coqParts(resolved) + ")"
	}
	refPkg := s.Pkg
	if s.RefOther {
		refPkg = s.OtherPkg
	}
	term := fmt.Sprintf("CScope %s %s %s %s %s %s %s %s", coqParts(s.Pkg), coqParts(s.OtherPkg), typeTable(s), coqStrs(s.Ctx), coqParts(refPkg), coqStrs(s.Ref), coqStr(short), resTerm)
	return &scopeOut{term: term, impl: map[string]any{"short": short, "resolved": resolved, "ok": ok}}, fail
}

package main

import (
	"fmt"
	"regexp"
	"sort"
	"strings"

	"verifharness/vh"
)

func init() { vh.Register("C16", runC16) }

var (
	reQuoted = regexp.MustCompile(`"[^"]*"|'[^']*'`)
	reDigits = regexp.MustCompile(`[0-9]+`)
	reFieldT = regexp.MustCompile(`schema_j5pb\.Field_[A-Za-z_]+`)
)

// failureClass turns an error/panic text into a short class (no names, no positions).
func failureClass(msg string) string {
	if m := reFieldT.FindString(msg); m != "" && strings.Contains(msg, "unknown schema type for swagger") {
		return "unknown schema type for swagger " + m
	}
	for _, known := range []string{"stack overflow", "goroutine stack exceeds", "nil pointer dereference", "syntax error", "unsupported service name",
		"path field", "invalid path part", "missing http rule", "input message must be", "output message must be", "no array found", "found multiple arrays",
		"unlinked ref", "index out of range", "not found", "timeout"} {
		if strings.Contains(msg, known) {
			return known
		}
	}
	s := reQuoted.ReplaceAllString(msg, "Q")
	s = reDigits.ReplaceAllString(s, "N")
	return trim(s, 70)
}

func setOf(xs []string) map[string]bool {
	m := map[string]bool{}
	for _, x := range xs {
		m[x] = true
	}
	return m
}

func eqStrs(a, b []string) bool {
	if len(a) != len(b) {
		return false
	}
	for i := range a {
		if a[i] != b[i] {
			return false
		}
	}
	return true
}

func runC16(cfg *vh.Config) error {
	res := vh.NewResult("C16", cfg.Seed)
	res.Rule = "generated valid j5s packages (2-6 objects/oneofs/enums with self and mutual recursion, every scalar/array/map/ref field type, 1-2 services x 1-4 methods over all five verbs with 0-2 path parameters of every scalar type, list methods over (recursive) item objects, methods without response, topics, entities) through the real chain compile -> PrintFile -> ReadFSImage -> APIFromImage -> APIFromSource -> J5 JSON -> BuildSwagger -> json.Marshal in crash-isolated workers; the same packages with a mutated service file (renamed service/request/response, removed or custom http rule, broken path); hand-built service names and method descriptors; hand-built source APIs with random cyclic schema graphs, odd paths and list responses. non-trivial = distinct generated input"
	cf := &vh.CasesFile{
		Header: "From Coq Require Import String List NArith.\nFrom J5V.lib Require Import Outcome.\nFrom J5V.model Require Import Pipeline PipelineEntity PipelineList PipelineCorr.",
		Type:   "c16case",
		Check:  "c16_check",
	}
	// the compiler side: compile_image(declaration) against the observed image (model/PipelineCompileCorr.v)
	type compileRec struct {
		term  string
		input any
	}
	var compileCases []compileRec
	distinct := vh.Distinct{}
	caseNo := 0
	addCase := func(stream, term string, input, impl any) {
		cf.Terms = append(cf.Terms, term)
		res.Cases = append(res.Cases, vh.CaseRec{Case: caseNo, Stream: stream, Input: input, Impl: impl})
	}

	// ------------------------------------------------------------ stream 1+2: generated packages, plain and mutated
	rp := cfg.R.Fork("packages")
	nPkg := cfg.Scale(70, 1200)
	nAwk := cfg.Scale(10, 150)
	type pk struct {
		p   *gPackage
		mut *Mutation
		why string
	}
	var pks []pk
	var jobs []*Job
	for i := 0; i < nPkg+nAwk; i++ {
		if i >= 5 && i < 10 {
			forcedClash = i - 5 // one package of each known-finding class in every run
		}
		p := genPackage(rp, i >= nPkg)
		pks = append(pks, pk{p: p})
		jobs = append(jobs, &Job{ID: len(jobs), Kind: "j5s", Pkg: p.Pkg, Files: map[string]string{strings.ReplaceAll(p.Pkg, ".", "/") + "/a.j5s": p.text()}})
	}
	nMut := cfg.Scale(45, 500)
	for i := 0; i < nMut; i++ {
		p := genPackage(rp, false)
		sv := p.Services[0]
		m0 := sv.Methods[0]
		var mu Mutation
		var why string
		mu.File = "/service/a.p.j5s.proto"
		switch rp.Intn(9) {
		case 0:
			suffix := vh.Pick(rp, []string{"Sandbox", "Events", "Topic", "Thing", "", "Services", "service"})
			mu.Re, mu.With, why = `service `+sv.Name+`Service \{`, "service "+sv.Name+suffix+" {", "service renamed to "+sv.Name+suffix
		case 1:
			mu.Re, mu.With, why = `\b`+m0.Name+`Request\b`, m0.Name+"Req", "request message renamed"
		case 2:
			mu.Re, mu.With, why = `\b`+m0.Name+`Response\b`, m0.Name+"Reply", "response message renamed"
		case 3:
			mu.Re, mu.With, why = `(?s)option \(google\.api\.http\) = \{.*?\};`, "", "all http rules removed"
		case 4:
			mu.Re, mu.With, why = `\{[a-z_0-9]+\}`, "{nope}", "path parameter renamed to a missing field"
		case 5:
			mu.Re, mu.With, why = `(get|post|put|delete|patch): "([^"]*)"`, `$1: "$2/*"`, "literal * part appended"
		case 6:
			mu.Re, mu.With, why = `get: "([^"]*)"`, `custom: {kind: "HEAD", path: "$1"}`, "get rules replaced by custom HEAD"
		case 7:
			mu.Re, mu.With, why = `\{([a-z_0-9]+)\}`, "{$1}x", "text after the closing brace"
		case 8:
			mu.Re, mu.With, why = `\) returns \(`+m0.Name+`Response\)`, ") returns (google.protobuf.Empty)", "response replaced by Empty"
		}
		pks = append(pks, pk{p: p, mut: &mu, why: why})
		jobs = append(jobs, &Job{ID: len(jobs), Kind: "j5s", Pkg: p.Pkg, Mutate: []Mutation{mu}, Files: map[string]string{strings.ReplaceAll(p.Pkg, ".", "/") + "/a.j5s": p.text()}})
	}
	results := runIsolated(jobs, 4)
	for i, r := range results {
		p := pks[i].p
		src := p.text()
		distinct.Add("pkg:" + src + pks[i].why)
		caseNo++
		stream := "chain"
		if pks[i].mut != nil {
			stream = "mutated"
		} else if p.Awkward {
			stream = "awkward-names"
		}
		res.Count(stream)
		if r == nil {
			continue
		}
		bad := r.firstBad()
		if bad != nil {
			res.Count(stream + ":" + bad.Name + "=" + bad.Status)
		} else {
			res.Count(stream + ":all stages ok")
		}
		input := map[string]any{"package": p.Pkg, "j5s": src}
		if pks[i].mut != nil {
			input["mutation"] = pks[i].why
		}
		if st := r.status("compile"); st != "err" && pks[i].mut == nil && (p.Clash == "case" || p.Clash == "badlist" || p.Clash == "enumdefault") {
			// classes the compiler has to reject itself (protoc's enum value rule, /repo 4fb405b; list method shape, /repo cec4e3a;
			// an enum default filter naming no option, /repo fb0e252)
			res.Fail(vh.Failure{Case: caseNo, Stream: stream, Sig: "C16 package of class " + p.Clash + " -> accepted by the compiler (enum options differing only in case / list method without exactly one array of objects / enum default filter naming no option must be a compile error)",
				Clause: "the compiled output can be turned into image, source API, client API, J5 JSON and OpenAPI without error or crash", Input: input, Got: r.firstBad()})
		} else if st == "err" && (p.Clash == "case" || p.Clash == "badlist" || p.Clash == "enumdefault") {
			res.Count(stream + ":class " + p.Clash + " rejected by the compiler (as it must be)")
		}
		if st := r.status("compile"); st == "err" {
			// the generator made a package the compiler rejects: not a case (counted above)
			if len(res.Notes) < 6 {
				res.Notes = append(res.Notes, "generated package rejected by the compiler: "+trim(r.stage("compile").Msg, 200))
			}
			continue
		}

		// ---- direct oracle (valid packages only)
		if pks[i].mut == nil {
			prefix := "C16 valid package"
			if p.Awkward {
				prefix = "C16 package with property names whose JSON name is not the protobuf default (fooID, a1b, HTTPServer)"
			}
			if bad != nil {
				sig := fmt.Sprintf("%s -> stage %s %s: %s", prefix, bad.Name, bad.Status, failureClass(bad.Msg))
				// two input classes the compiler accepts and a later stage cannot take (NOTICE-4): one signature each
				switch {
				case p.Clash == "case" && strings.Contains(bad.Msg, "camel-case name"):
					sig = "C16 valid package with enum options that differ only in case (Active, ACTIVE) -> stage image err: camel-case name conflict of enum values"
				case p.Clash == "enumdefault" && strings.Contains(bad.Msg, "unknown enum value"):
					sig = "C16 valid package with an enum field whose listRules.filtering.defaultFilters names no option -> stage " + bad.Name + " err: unknown enum value (buildListRequest)"
				case p.Clash == "split" && (strings.Contains(bad.Msg, "is used by an enum and by a message or oneof") ||
					strings.Contains(bad.Msg, "is used by both") || // root_schema.go since /repo 0e6056c

					strings.Contains(bad.Msg, "interface conversion") && strings.Contains(bad.Msg, "EnumSchema")):
					// since /repo 32db692 an error of the source stage; a revert brings the panic signature back (unlisted)
					sig = "C16 valid package with object SplitHost_Kind next to SplitHost's inline enum kind -> stage " + bad.Name + " " + bad.Status + ": split-name collision (buildEnumFieldSchema)"
				}
				res.Fail(vh.Failure{Case: caseNo, Stream: stream, Sig: sig,
					Clause: "the compiled output can be turned into image, source API, client API, J5 JSON and OpenAPI without error or crash", Input: input, Got: bad})
			} else {
				oracleClient(res, caseNo, stream, prefix, p, r, input)
			}
		}

		// ---- correspondence case
		if r.Img == nil || r.status("source") == "none" {
			continue
		}
		if p.Clash == "split" {
			// the split-name collision (an object named like an inline enum's generated name) is a name-resolution
			// defect below the model's schema keys: reported by the direct oracle only
			res.Count(stream + ":split-name collision package (direct oracle only)")
			continue
		}
		sk, ck, wk := stageKind(r.status("source")), stageKind(r.status("client")), stageKind(r.status("swagger"))
		term := fmt.Sprintf("CChainE %s %s\n    %s\n    %d %s\n    %d %s %s %s\n    %s %d", coqAnns(r.Img), coqImg(r.Img), coqRules(r.Img), sk, coqSrcObs(r.Src), ck, coqMethodObs(r.Methods), coqKeys(r.Schemas), coqEntObs(r.EntObs), coqListObs(r.Methods), wk)
		addCase(stream, term, input, map[string]any{"stages": r.Stages, "methods": r.Methods, "schemas": r.Schemas})
		if pks[i].mut == nil && r.status("source") == "ok" {
			decl, extra := coqDeclPackage(p, r.Img)
			compileCases = append(compileCases, compileRec{term: fmt.Sprintf("CCompile %s %s %s\n    %s", decl, vh.BoolTerm(extra), vh.BoolTerm(p.Awkward), coqImg(r.Img)), input: input})
		}
		if pks[i].mut == nil {
			res.Sample(map[string]any{"stream": stream, "package": p.Pkg, "services": len(p.Services), "schemas": len(p.Schemas), "entity": p.Entity != nil, "stages_ok": bad == nil}, 3)
		} else {
			res.Sample(map[string]any{"stream": stream, "mutation": pks[i].why, "source": r.status("source")}, 6)
		}
	}

	// ------------------------------------------------------------ stream 3: service name dispatch
	rc := cfg.R.Fork("classify")
	nCls := cfg.Scale(250, 3000)
	stems := []string{"Foo", "", "Service", "Topic", "Events", "Sandbox", "FooService", "FooTopic", "S", "Servic", "service", "TopicService", "ServiceTopic", "EventsTopic", "SandboxEvents", "X1", "A_b"}
	sufs := []string{"Service", "Sandbox", "Events", "Topic", "", "Services", "Topics", "Event", "service", "topic", "Servic", "ServiceX", "TopicEvents", "EventsService"}
	for i := 0; i < nCls; i++ {
		name := vh.Pick(rc, stems) + vh.Pick(rc, sufs)
		if name == "" || rc.Chance(15) {
			name += string(rune('A' + rc.Intn(26)))
		}
		r := handle(&Job{Kind: "classify", SvcName: name}, nil)
		caseNo++
		distinct.Add("cls:" + name)
		res.Count("classify")
		kind := 3
		switch {
		case r.status("source") == "panic":
			res.Fail(vh.Failure{Case: caseNo, Stream: "classify", Sig: "C16 addStructure panic on service name", Clause: "no crash", Input: name, Got: r.Stages})
			continue
		case r.status("source") == "err":
			kind = 3
		case len(r.Src) == 1:
			kind = 0
		case len(r.Topics) == 1:
			kind = 2
		default:
			kind = 1
		}
		res.Count(fmt.Sprintf("classify:kind%d", kind))
		addCase("classify", fmt.Sprintf("CClassify %s %d", coqStr(name), kind), name, kind)
	}

	// ------------------------------------------------------------ stream 4: buildMethod on hand-built descriptors
	rm := cfg.R.Fork("method")
	nMeth := cfg.Scale(300, 6000)
	for i := 0; i < nMeth; i++ {
		md := genMethDesc(rm)
		r := handle(&Job{Kind: "method", Meth: &md}, nil)
		caseNo++
		distinct.Add(fmt.Sprintf("meth:%+v", md))
		res.Count("method")
		st := r.status("source")
		if st == "panic" {
			res.Fail(vh.Failure{Case: caseNo, Stream: "method", Sig: "C16 buildMethod panic: " + failureClass(r.stage("source").Msg), Clause: "no crash", Input: md, Got: r.Stages})
			continue
		}
		kind, verb, pth := 1, 0, ""
		if st == "ok" && len(r.Src) == 1 && len(r.Src[0].Methods) == 1 {
			kind, verb, pth = 0, r.Src[0].Methods[0].Verb, r.Src[0].Methods[0].Path
		}
		res.Count(fmt.Sprintf("method:kind%d", kind))
		addCase("method", fmt.Sprintf("CMethod %s %d %d %s", coqMeth(md), kind, verb, coqStr(pth)), md, map[string]any{"status": st, "verb": verb, "path": pth})
		if kind == 0 {
			res.Sample(map[string]any{"stream": "method", "http_path": md.Path, "client_path": pth}, 9)
		}
	}

	// ------------------------------------------------------------ stream 5: hand-built source APIs (client stage)
	ra := cfg.R.Fork("api")
	nAPI := cfg.Scale(170, 3000)
	var apiJobs []*Job
	var hands []*HandAPI
	for i := 0; i < nAPI; i++ {
		h := genHandAPI(ra)
		hands = append(hands, h)
		apiJobs = append(apiJobs, &Job{ID: i, Kind: "api", API: h})
	}
	for i, r := range runIsolated(apiJobs, 4) {
		h := hands[i]
		caseNo++
		distinct.Add(fmt.Sprintf("api:%+v", *h))
		res.Count("api")
		if r == nil {
			continue
		}
		ck, wk := stageKind(r.status("client")), stageKind(r.status("swagger"))
		res.Count(fmt.Sprintf("api:client=%s swagger=%s", r.status("client"), r.status("swagger")))
		for _, st := range r.Stages {
			if st.Status == "panic" || st.Status == "fatal" {
				res.Fail(vh.Failure{Case: caseNo, Stream: "api", Sig: fmt.Sprintf("C16 source API -> stage %s %s: %s", st.Name, st.Status, failureClass(st.Msg)),
					Clause: "no crash, including for recursive schemas", Input: h, Got: st})
			}
		}
		oracleHandAPI(res, caseNo, h, r)
		im := &Img{Pkg: h.Pkg, Schemas: h.Schemas}
		ms := make([]string, len(h.Methods))
		for k, m := range h.Methods {
			ms[k] = fmt.Sprintf("{| sm_name := %s; sm_verb := %d; sm_path := %s; sm_req := %s; sm_resp := %s |}", coqStr(m.Name), m.Verb, coqStr(m.Path), coqStr(m.Req), coqStr(m.Resp))
		}
		api := fmt.Sprintf("{| sa_services := [{| ss_sub := %s; ss_name := %s; ss_methods := [%s] |}]; sa_topics := [] |}", coqStr("service"), coqStr("XService"), strings.Join(ms, ";"))
		term := fmt.Sprintf("CClient %s\n    %s\n    %d %s %s %d", coqImg(im), api, ck, coqMethodObs(r.Methods), coqKeys(r.Schemas), wk)
		addCase("api", term, h, map[string]any{"stages": r.Stages, "methods": r.Methods, "schemas": r.Schemas})
	}

	res.Evaluations = caseNo
	res.Distinct = len(distinct)
	const per = 120
	shards, err := cf.WriteShards(cfg.Out, "cases", per)
	if err != nil {
		return err
	}
	for i := range res.Cases {
		res.Cases[i].Shard = fmt.Sprintf("cases_%d", i/per)
		res.Cases[i].Pos = i % per
	}
	// compile stream: its own shards
	cc := &vh.CasesFile{
		Header: "From Coq Require Import String List NArith.\nFrom J5V.lib Require Import Outcome.\nFrom J5V.model Require J5sWalk.\nFrom J5V.model Require Import Pipeline PipelineCompile PipelineValid PipelineCompileCorr.",
		Type:   "c16compile",
		Check:  "c16_compile_check",
	}
	const perC = 20
	for i, c := range compileCases {
		caseNo++
		res.Count("compile-image")
		cc.Terms = append(cc.Terms, c.term)
		res.Cases = append(res.Cases, vh.CaseRec{Case: caseNo, Stream: "compile-image", Shard: fmt.Sprintf("compile_%d", i/perC), Pos: i % perC, Input: c.input, Impl: "observed image"})
	}
	cshards, err := cc.WriteShards(cfg.Out, "compile", perC)
	if err != nil {
		return err
	}
	res.Evaluations = caseNo
	res.Shards = append(shards, cshards...)
	return res.Write(cfg.Out)
}

// oracleClient states the second sentence of C16 on the real client API, against the declaration.
func oracleClient(res *vh.Result, caseNo int, stream, prefix string, p *gPackage, r *Result, input map[string]any) {
	decl := p.declared()
	if p.Awkward {
		// one signature for the root cause: a declared request property is not in the client request under its name
		for _, d := range decl {
			for _, m := range r.Methods {
				if m.Service != d.Service || m.Name != d.Name {
					continue
				}
				have := setOf(append(append(append([]string{}, m.PathP...), m.Query...), m.Body...))
				for _, n := range d.AllReq {
					if !have[n] {
						res.Fail(vh.Failure{Case: caseNo, Stream: stream, Sig: prefix + " -> declared request property renamed in the client API", Clause: "each path parameter names a request property; declared path", Input: input,
							Got: fmt.Sprintf("%s: %q missing, have path=%v query=%v body=%v, path %s", d.Name, n, m.PathP, m.Query, m.Body, m.Path)})
						return
					}
				}
			}
		}
	}
	got := map[string]MethodObs{}
	for _, m := range r.Methods {
		got[m.Service+"/"+m.Name] = m
	}
	entitySvc := ""
	if p.Entity != nil {
		// the query service the entity expands to; its exact casing (ToCamel of the snake form) is C17's matter
		entitySvc = strings.ToLower(strings.ReplaceAll(p.Entity.Name, "_", "")) + "queryservice"
	}
	for _, d := range decl {
		m, ok := got[d.Service+"/"+d.Name]
		if !ok {
			res.Fail(vh.Failure{Case: caseNo, Stream: stream, Sig: prefix + " -> declared method missing from client API", Clause: "the client API lists exactly the declared services and methods", Input: input, Got: d.Service + "/" + d.Name})
			continue
		}
		delete(got, d.Service+"/"+d.Name)
		if m.Verb != d.Verb || m.Path != d.Path {
			res.Fail(vh.Failure{Case: caseNo, Stream: stream, Sig: prefix + " -> client method verb/path differs from declared", Clause: "with the declared verb and path", Input: input,
				Got: fmt.Sprintf("%s: verb %d path %s", d.Name, m.Verb, m.Path), Want: fmt.Sprintf("verb %d path %s", d.Verb, d.Path)})
		}
		req := setOf(d.AllReq)
		for _, pp := range m.PathP {
			if !req[pp] {
				res.Fail(vh.Failure{Case: caseNo, Stream: stream, Sig: prefix + " -> path parameter does not name a request property", Clause: "each path parameter names a request property", Input: input, Got: d.Name + ": " + pp})
			}
		}
		if !eqStrs(m.PathP, d.PathP) {
			res.Fail(vh.Failure{Case: caseNo, Stream: stream, Sig: prefix + " -> path parameters differ from those named in the path", Clause: "request properties are split into path/query/body as the verb dictates", Input: input,
				Got: fmt.Sprintf("%s: %v", d.Name, m.PathP), Want: d.PathP})
		}
		if d.Verb == 1 {
			if m.HasBody || !eqStrs(m.Query, d.Rest) {
				res.Fail(vh.Failure{Case: caseNo, Stream: stream, Sig: prefix + " -> GET request split wrong", Clause: "request properties are split into path/query/body as the verb dictates", Input: input,
					Got: fmt.Sprintf("%s: body=%v query=%v", d.Name, m.HasBody, m.Query), Want: d.Rest})
			}
		} else if !m.HasBody || len(m.Query) != 0 || !eqStrs(m.Body, d.Rest) {
			res.Fail(vh.Failure{Case: caseNo, Stream: stream, Sig: prefix + " -> request with body split wrong", Clause: "request properties are split into path/query/body as the verb dictates", Input: input,
				Got: fmt.Sprintf("%s: body=%v %v query=%v", d.Name, m.HasBody, m.Body, m.Query), Want: d.Rest})
		}
		if m.HasResp != d.HasResp {
			res.Fail(vh.Failure{Case: caseNo, Stream: stream, Sig: prefix + " -> response body presence differs", Clause: "the client API lists exactly the declared methods", Input: input, Got: d.Name})
		}
		if d.List != m.HasList {
			res.Fail(vh.Failure{Case: caseNo, Stream: stream, Sig: prefix + " -> list request presence differs", Clause: "list methods", Input: input, Got: d.Name})
		}
	}
	// the same in the OpenAPI document: path parameters are exactly the names in the path template,
	// the other request properties are query parameters (GET) or body properties
	ops := map[string]SwaggerOp{}
	for _, op := range r.Swagger {
		ops[op.OpID] = op
	}
	for _, d := range decl {
		op, ok := ops["/"+p.Pkg+"."+d.Service+"/"+d.Name]
		if !ok {
			res.Fail(vh.Failure{Case: caseNo, Stream: stream, Sig: prefix + " -> declared method missing from the OpenAPI document", Clause: "an OpenAPI document", Input: input, Got: d.Service + "/" + d.Name})
			continue
		}
		var tmpl []string
		for _, seg := range strings.Split(op.Path, "/") {
			if strings.HasPrefix(seg, ":") {
				tmpl = append(tmpl, seg[1:])
			}
		}
		sortedEq := func(a, b []string) bool {
			x, y := append([]string{}, a...), append([]string{}, b...)
			sort.Strings(x)
			sort.Strings(y)
			return eqStrs(x, y)
		}
		if op.Path != d.Path || !sortedEq(op.PathP, tmpl) || !sortedEq(op.PathP, d.PathP) {
			res.Fail(vh.Failure{Case: caseNo, Stream: stream, Sig: prefix + " -> OpenAPI path parameters are not exactly the names in the path template", Clause: "each path parameter names a request property; declared path", Input: input,
				Got: fmt.Sprintf("%s: path %s in:path %v", d.Name, op.Path, op.PathP), Want: fmt.Sprintf("path %s params %v", d.Path, d.PathP)})
		}
		if d.Verb == 1 {
			if op.HasBody || !sortedEq(op.Query, d.Rest) {
				res.Fail(vh.Failure{Case: caseNo, Stream: stream, Sig: prefix + " -> OpenAPI GET operation: query parameters are not the remaining request properties", Clause: "request properties are split into path/query/body as the verb dictates", Input: input,
					Got: fmt.Sprintf("%s: body=%v query=%v", d.Name, op.HasBody, op.Query), Want: d.Rest})
			}
		} else if !op.HasBody || len(op.Query) != 0 || !sortedEq(op.Body, d.Rest) {
			res.Fail(vh.Failure{Case: caseNo, Stream: stream, Sig: prefix + " -> OpenAPI operation with body: body properties are not the remaining request properties", Clause: "request properties are split into path/query/body as the verb dictates", Input: input,
				Got: fmt.Sprintf("%s: body=%v %v query=%v", d.Name, op.HasBody, op.Body, op.Query), Want: d.Rest})
		}
	}
	for k, m := range got {
		if strings.ToLower(strings.ReplaceAll(m.Service, "_", "")) == entitySvc {
			continue
		}
		res.Fail(vh.Failure{Case: caseNo, Stream: stream, Sig: prefix + " -> undeclared method in client API", Clause: "the client API lists exactly the declared services and methods", Input: input, Got: k})
	}
	if p.Entity != nil {
		found := false
		for _, e := range r.Entities {
			if strings.EqualFold(strings.ReplaceAll(e, "_", ""), strings.ReplaceAll(p.Entity.Name, "_", "")) {
				found = true
			}
		}
		if !found {
			res.Fail(vh.Failure{Case: caseNo, Stream: stream, Sig: prefix + " -> declared entity missing from client API", Clause: "entities", Input: input, Got: r.Entities})
		}
	}
	if len(r.DanglingRefs) > 0 {
		res.Fail(vh.Failure{Case: caseNo, Stream: stream, Sig: prefix + " -> OpenAPI document has a $ref that names no schema of the document", Clause: "every schema reachable from a method or entity is present", Input: input, Got: r.DanglingRefs})
	}
	// the schemas of sub-packages (request / response objects and what is declared in place inside them) are filed in
	// the declared package too: the client API has no package for a sub-package of the declared one (other packages are
	// the imported ones whose schemas are referenced: j5.list.v1, j5.messaging.v1, ...)
	for _, cp := range r.ClientPkgs {
		if strings.HasPrefix(cp, p.Pkg+".") {
			res.Fail(vh.Failure{Case: caseNo, Stream: stream, Sig: prefix + " -> client API has a package for a sub-package of the declared one (schemas of request / response objects filed outside the declared package)", Clause: "every schema reachable from a method or entity is present", Input: input, Got: r.ClientPkgs, Want: []string{p.Pkg}})
			break
		}
	}
	have := map[string]bool{}
	for _, k := range r.Schemas {
		have[k[0]+"/"+k[1]] = true
	}
	var missing []string
	for _, name := range p.reachable() {
		if !have[p.Pkg+"/"+name] {
			missing = append(missing, name)
		}
	}
	if len(missing) > 0 {
		sort.Strings(missing)
		res.Fail(vh.Failure{Case: caseNo, Stream: stream, Sig: prefix + " -> reachable schema missing from client API", Clause: "every schema reachable from a method or entity is present", Input: input, Got: missing})
	}
}

func genMethDesc(r *vh.Rand) MethDesc {
	name := vh.Pick(r, []string{"Get", "DoIt", "X", "ListAll"})
	md := MethDesc{Name: name, InSamePkg: !r.Chance(8), InName: name + "Request", OutName: name + "Response", HasHTTP: !r.Chance(8), Arm: r.Range(1, 5)}
	if r.Chance(6) {
		md.Arm = 0
	}
	if r.Chance(10) {
		md.InName = vh.Pick(r, []string{name + "Req", "Request", name + "request", name + "RequestX"})
	}
	switch r.Intn(12) {
	case 0:
		md.OutName = vh.Pick(r, []string{name + "Reply", "Response", name + "Resp"})
	case 1:
		md.OutName, md.OutFull = "HttpBody", "google.api.HttpBody"
	}
	if md.OutFull == "" {
		md.OutFull = "p.v1.service." + md.OutName
	}
	fields := []FieldNames{{"foo_id", "fooId"}, {"bar", "bar"}, {"a_b_c", "aBC"}, {"odd", "Weird_Json"}, {"x1", "x1"}, {"id", "ID"}}
	n := r.Range(0, len(fields))
	md.InFields = append(md.InFields, fields[:n]...)
	parts := []string{"", "v1", "foo", "{foo_id}", "{bar}", "{a_b_c}", "{odd}", "{id}", "{x1}", "{nope}", "{}", "{", "}", "{foo_id", "foo_id}", "a{bar}", "{bar}b", "*", "a*b", ":x", "a:b", "{foo_id}{bar}", "{fooId}", "{{bar}}", "é", "a b", "{foo_id}/x"}
	k := r.Range(0, 5)
	var segs []string
	for i := 0; i < k; i++ {
		if r.Chance(60) {
			segs = append(segs, vh.Pick(r, parts[:9]))
		} else {
			segs = append(segs, vh.Pick(r, parts))
		}
	}
	md.Path = strings.Join(segs, "/")
	if r.Chance(80) {
		md.Path = "/" + md.Path
	}
	return md
}

func genHandAPI(r *vh.Rand) *HandAPI {
	const pkg = "g.v1"
	h := &HandAPI{Pkg: pkg, Bools: true}
	n := r.Range(1, 6)
	kinds := make([]string, n)
	for i := range kinds {
		kinds[i] = vh.Pick(r, []string{"object", "object", "object", "oneof", "enum"})
	}
	scal := []string{"string", "bool", "bool", "key", "bytes", "date", "decimal", "timestamp", "integer", "float", "any"}
	var refTo func(kind string) (FTy, bool)
	refTo = func(kind string) (FTy, bool) {
		var c []int
		for i, k := range kinds {
			if kind == "" || k == kind {
				c = append(c, i)
			}
		}
		if len(c) == 0 {
			return FTy{}, false
		}
		i := vh.Pick(r, c)
		return FTy{Alt: kinds[i], Pkg: pkg, Name: fmt.Sprintf("S%d", i)}, true
	}
	ty := func() FTy {
		switch r.Intn(10) {
		case 0, 1, 2, 3:
			if t, ok := refTo(""); ok {
				return t
			}
		case 4, 5:
			it := FTy{Alt: vh.Pick(r, scal)}
			if t, ok := refTo(""); ok && r.Chance(70) {
				it = t
			}
			return FTy{Alt: vh.Pick(r, []string{"array", "map"}), Item: &it}
		case 6:
			if r.Chance(8) {
				return FTy{Alt: "object", Pkg: vh.Pick(r, []string{pkg, "ext.v1"}), Name: "Missing"}
			}
		}
		return FTy{Alt: vh.Pick(r, scal)}
	}
	names := []string{"a", "b", "c", "d", "e", "f"}
	if r.Chance(50) { // names related by prefix / extension, as are the path segments below
		names = []string{"ab", "a", "abc", "b", "ba", "c"}
	}
	props := func(k int) []Prop {
		var out []Prop
		for i := 0; i < k && i < len(names); i++ {
			out = append(out, Prop{JSON: names[i], Ty: ty()})
		}
		return out
	}
	for i, k := range kinds {
		s := Schema{Pkg: pkg, Name: fmt.Sprintf("S%d", i), Kind: k}
		if k != "enum" {
			s.Props = props(r.Range(0, 4))
		}
		h.Schemas = append(h.Schemas, s)
	}
	nm := r.Range(1, 2)
	needQuery := false
	for k := 0; k < nm; k++ {
		name := fmt.Sprintf("M%d", k)
		req := Schema{Pkg: pkg + ".service", Name: name + "Request", Kind: "object", Props: props(r.Range(0, 5))}
		isList := r.Chance(45)
		if isList {
			needQuery = true
			req.Props = append(req.Props, Prop{JSON: "query", Ty: FTy{Alt: "object", Pkg: "j5.list.v1", Name: "QueryRequest"}})
		}
		m := SrcMethodObs{Name: name, Verb: r.Range(1, 5), Req: req.Name, Resp: name + "Response"}
		if r.Chance(5) {
			req.Kind = "oneof"
		}
		h.Schemas = append(h.Schemas, req)
		switch {
		case r.Chance(10):
			m.Resp = "HttpBody"
		case r.Chance(4):
			m.Resp = "Nope"
		default:
			resp := Schema{Pkg: pkg + ".service", Name: m.Resp, Kind: "object", Props: props(r.Range(0, 3))}
			if isList && r.Chance(85) {
				it := FTy{Alt: "string"}
				if t, ok := refTo("object"); ok && r.Chance(90) {
					it = t
				} else if t, ok := refTo(""); ok {
					it = t
				}
				resp.Props = append(resp.Props, Prop{JSON: "items", Ty: FTy{Alt: "array", Item: &it}})
				if r.Chance(8) {
					resp.Props = append(resp.Props, Prop{JSON: "more", Ty: FTy{Alt: "array", Item: &FTy{Alt: "string"}}})
				}
			}
			h.Schemas = append(h.Schemas, resp)
		}
		parts := []string{"", "x", "y1", ":a", ":b", ":c", ":zz", ":", "::a", "a:b", ":a:b", ":query", "é", ":ab", ":abc", ":ba", "ab", ":A"}
		np := r.Range(0, 4)
		var segs []string
		for i := 0; i < np; i++ {
			segs = append(segs, vh.Pick(r, parts))
		}
		m.Path = "/" + strings.Join(segs, "/")
		if r.Chance(10) {
			m.Path = strings.Join(segs, "/")
		}
		h.Methods = append(h.Methods, m)
	}
	if needQuery && !r.Chance(3) {
		h.Schemas = append(h.Schemas, Schema{Pkg: "j5.list.v1", Name: "QueryRequest", Kind: "object"})
	}
	return h
}

// oracleHandAPI states the request split on a hand-built source API, independently of the model:
// path parameters are exactly the request properties whose name is a ":name" segment of the path.
func oracleHandAPI(res *vh.Result, caseNo int, h *HandAPI, r *Result) {
	if r.status("client") != "ok" {
		return
	}
	props := map[string][]string{}
	for _, s := range h.Schemas {
		if s.Pkg == h.Pkg+".service" {
			var names []string
			for _, p := range s.Props {
				names = append(names, p.JSON)
			}
			props[s.Name] = names
		}
	}
	got := map[string]MethodObs{}
	for _, m := range r.Methods {
		got[m.Name] = m
	}
	for _, hm := range h.Methods {
		m, ok := got[hm.Name]
		if !ok {
			res.Fail(vh.Failure{Case: caseNo, Stream: "api", Sig: "C16 source API -> method missing from client API", Clause: "the client API lists exactly the declared methods", Input: h, Got: hm.Name})
			continue
		}
		seg := map[string]bool{}
		for _, s := range strings.Split(hm.Path, "/") {
			if strings.HasPrefix(s, ":") {
				seg[s[1:]] = true
			}
		}
		var wantPath, rest []string
		for _, n := range props[hm.Req] {
			if seg[n] {
				wantPath = append(wantPath, n)
			} else {
				rest = append(rest, n)
			}
		}
		if !eqStrs(m.PathP, wantPath) {
			res.Fail(vh.Failure{Case: caseNo, Stream: "api", Sig: "C16 source API -> path parameters are not exactly the request properties named by a :segment of the path", Clause: "each path parameter names a request property; split by verb", Input: h,
				Got: fmt.Sprintf("%s %s: %v", hm.Name, hm.Path, m.PathP), Want: wantPath})
		}
		if hm.Verb == 1 {
			if m.HasBody || !eqStrs(m.Query, rest) {
				res.Fail(vh.Failure{Case: caseNo, Stream: "api", Sig: "C16 source API -> GET request split wrong", Clause: "split by verb", Input: h, Got: fmt.Sprintf("%s %s: body=%v query=%v", hm.Name, hm.Path, m.HasBody, m.Query), Want: rest})
			}
		} else if !m.HasBody || len(m.Query) != 0 || !eqStrs(m.Body, rest) {
			res.Fail(vh.Failure{Case: caseNo, Stream: "api", Sig: "C16 source API -> request with body split wrong", Clause: "split by verb", Input: h, Got: fmt.Sprintf("%s %s: body=%v %v query=%v", hm.Name, hm.Path, m.HasBody, m.Body, m.Query), Want: rest})
		}
	}
	// and in the OpenAPI document
	for _, op := range r.Swagger {
		var tmpl []string
		for _, s := range strings.Split(op.Path, "/") {
			if strings.HasPrefix(s, ":") {
				tmpl = append(tmpl, s[1:])
			}
		}
		in := setOf(tmpl)
		for _, pp := range op.PathP {
			if !in[pp] {
				res.Fail(vh.Failure{Case: caseNo, Stream: "api", Sig: "C16 source API -> OpenAPI declares an in:path parameter that is not in the path template", Clause: "each path parameter names a request property", Input: h,
					Got: fmt.Sprintf("%s %s: in:path %v", op.OpID, op.Path, op.PathP)})
			}
		}
	}
}

package main

// Generator of valid j5s packages with services, topics, entities, recursive schemas and every
// field type in request / response / path position. The generator keeps what it declared, so that
// the oracle can state the property on the real chain without consulting the model.

import (
	"fmt"
	"path"
	"sort"
	"strings"

	"verifharness/vh"
)

type gTy struct {
	Kind   string // string bool bytes date decimal float integer key timestamp any | object oneof enum | array map
	Ref    string // schema name (own package) for object/oneof/enum
	Item   *gTy
	Spec   string   // j5s spelling of a scalar, e.g. float:FLOAT64
	Inline *gSchema // object / oneof / enum declared in place (becomes a nested message or enum)
}

func (t gTy) j5s() string {
	switch t.Kind {
	case "object", "oneof", "enum":
		return t.Kind + ":" + t.Ref
	case "array", "map":
		return t.Kind + ":" + t.Item.j5s()
	}
	if t.Spec != "" {
		return t.Spec
	}
	return t.Kind
}

// refName returns the schema a type leads to through arrays and maps.
func (t gTy) refName() string {
	if t.Inline != nil {
		return ""
	}
	switch t.Kind {
	case "object", "oneof", "enum":
		return t.Ref
	case "array", "map":
		return t.Item.refName()
	}
	return ""
}

type gProp struct {
	Name       string
	Ty         gTy
	Filterable bool
	Desc       string   // description line (printed as a leading comment)
	Attrs      []string // extra attribute lines, e.g. rules.pattern = "..."
	Mark       string   // "" | "?" (optional) | "!" (required)
	Flatten    bool     // object reference with flatten = true: the client merges the referenced object's properties
}

type gSchema struct {
	Name  string
	Kind  string // object oneof enum
	Props []gProp
	Desc  []string
}

type gMethod struct {
	Name   string
	Verb   string
	Path   string // as written, relative to the base path
	Req    []gProp
	Resp   []gProp
	NoResp bool
	List   bool
}

type gService struct {
	Name     string // without the Service suffix
	BasePath string
	Methods  []gMethod
}

type gTopic struct {
	Name     string
	Kind     string // publish upsert event reqres
	Messages []string
	Unnamed  bool // publish topic with a single `message { ... }` (named after the topic by the compiler)
}

// nameVariant draws a declaration name from the class the compiler accepts, beyond plain CamelCase: names that are
// not fixed points of strcase.ToCamel / ToSnake (lower-case start, underscore, a digit followed by a lower-case
// letter, acronyms). upperOnly: the name must match ^[A-Z][A-Za-z0-9]+$ (named topic messages).
func nameVariant(r *vh.Rand, base string, upperOnly bool) string {
	switch r.Intn(9) {
	case 0:
		return base + "2go" // digit followed by lower case: ToCamel gives ...2Go
	case 1:
		return "HTTP" + base // acronym
	case 2:
		return base + "3flush"
	case 3:
		if !upperOnly {
			return strings.ToLower(base[:1]) + base[1:] // lower-case start
		}
	case 4:
		if !upperOnly {
			return base + "_ext" // underscore
		}
	case 5:
		if !upperOnly {
			return "level2" + strings.ToLower(base)
		}
	}
	return base
}

type gEntity struct {
	Name string
	Data []gProp
}

type gPackage struct {
	Pkg      string
	Schemas  []gSchema
	Services []gService
	Topics   []gTopic
	Entity   *gEntity
	FlatHost string // a named object with a flattened object field whose children are referenced by nothing else
	Clash    string // "" | "case": enum options differing only in case | "split": Host_Inner collides with Host's inline Inner
	Awkward  bool   // uses property names whose JSON name is not the protobuf default of the snake name
}

var scalarSpecs = []gTy{
	{Kind: "string"}, {Kind: "bool"}, {Kind: "bytes"}, {Kind: "date"}, {Kind: "decimal"}, {Kind: "timestamp"}, {Kind: "any"},
	{Kind: "float", Spec: "float:FLOAT32"}, {Kind: "float", Spec: "float:FLOAT64"},
	{Kind: "integer", Spec: "integer:INT32"}, {Kind: "integer", Spec: "integer:INT64"}, {Kind: "integer", Spec: "integer:UINT32"}, {Kind: "integer", Spec: "integer:UINT64"},
	{Kind: "key", Spec: "key:id62"}, {Kind: "key", Spec: "key:uuid"}, {Kind: "key", Spec: "key"},
}

// types allowed as path parameters by the generator: every scalar except any/bytes (kept: the
// property text asks for every scalar type in path position, the compiler decides what is valid)
var pathSpecs = []gTy{
	{Kind: "string"}, {Kind: "bool"}, {Kind: "date"}, {Kind: "decimal"}, {Kind: "timestamp"}, {Kind: "bytes"},
	{Kind: "float", Spec: "float:FLOAT64"}, {Kind: "integer", Spec: "integer:INT64"}, {Kind: "integer", Spec: "integer:UINT32"},
	{Kind: "key", Spec: "key:id62"}, {Kind: "key", Spec: "key:uuid"}, {Kind: "key", Spec: "key"},
}

var safeWords = []string{"name", "title", "barId", "accountId", "count", "flag", "kind", "note", "amount", "when", "owner", "parentRef", "itemCode", "labelText", "weight", "extra", "tag", "memo", "score", "level"}

// single-word names with capitals (ID, URL, Label): the proto name has no underscore and the JSON name still differs (seeded C05-E)
var awkwardWords = []string{"fooID", "a1b", "HTTPServer", "x2", "userURL", "v2Id", "ID", "URL", "Label"}
var nouns = []string{"Thing", "Widget", "Order", "Invoice", "Gadget", "Parcel", "Ticket", "Ledger"}
var pkgNames = []string{"foo.v1", "bar.v2", "acme.billing.v1", "shop.v3", "zed.v10"}

type gctx struct {
	r        *vh.Rand
	schemas  []gSchema
	awkward  bool
	clash    string // set when a property was given an enum default filter that names no option
	decorate bool   // descriptions and validation rules with characters that need escaping (C05)
	inline   bool   // inline nested objects / oneofs / enums, optional and required marks
}

// ("service" is not in the list: object service collides with the sub-package <pkg>.service, a compile error)
var keywordNames = []string{"option", "optional", "repeated", "message", "enum", "oneof", "string", "bool", "int32", "bytes", "stream", "map",
	"group", "extend", "reserved", "required", "extensions", "double"}

var descPool = []string{"Plain words.", "With \"double quotes\" inside", "back\\slash and 'single'", "unicode é ü 漢字 😀", "slashes // and /* stars */", "colon: semi; brace { } [ ]",
	"ends with backslash \\", "percent %s %d and tab-free", "a = b, c <d> &e", "x"}
var patternPool = []string{`^[a-z]+$`, `^[a-z\"\\\\]+$`, `^é+$`, `^'x'$`, `a/b`, `^[0-9]{3}-[0-9]{4}$`, `^\\\\d+$`}

func (g *gctx) decorateProp(p *gProp) {
	if !g.decorate {
		return
	}
	if g.r.Chance(40) {
		p.Desc = vh.Pick(g.r, descPool)
	}
	switch p.Ty.Kind {
	case "string":
		if g.r.Chance(60) {
			p.Attrs = append(p.Attrs, fmt.Sprintf("rules.pattern = \"%s\"", vh.Pick(g.r, patternPool)))
		}
		if g.r.Chance(40) {
			p.Attrs = append(p.Attrs, fmt.Sprintf("rules.minLength = %d", g.r.Range(0, 5)))
		}
		if g.r.Chance(30) {
			p.Attrs = append(p.Attrs, fmt.Sprintf("rules.maxLength = %d", g.r.Range(5, 300)))
		}
	case "integer":
		if g.r.Chance(50) {
			p.Attrs = append(p.Attrs, fmt.Sprintf("rules.minimum = %d", g.r.Range(0, 100)))
		}
		if g.r.Chance(50) {
			p.Attrs = append(p.Attrs, fmt.Sprintf("rules.maximum = %s", vh.Pick(g.r, []string{"100", "2147483647", "65535"})))
		}
	case "array":
		if g.r.Chance(50) {
			p.Attrs = append(p.Attrs, fmt.Sprintf("rules.minItems = %d", g.r.Range(0, 3)))
		}
	case "enum":
		// repeated scalar option values (printed as a multi-line array)
		switch g.r.Intn(4) {
		case 0:
			p.Attrs = append(p.Attrs, `rules.in = ["ALPHA", "BETA"]`)
		case 1:
			p.Attrs = append(p.Attrs, "listRules.filtering.filterable = true", `listRules.filtering.defaultFilters = ["ALPHA", "BETA"]`)
		case 2:
			p.Attrs = append(p.Attrs, `rules.in = ["BETA"]`)
		}
	case "any":
		if g.r.Chance(60) {
			p.Attrs = append(p.Attrs, `types = ["foo.v1.Thing", "other.v2.Type", "x.y.Z"]`)
		}
	}
}

func (g *gctx) propNames(n int) []string {
	pool := append([]string{}, safeWords...)
	if g.awkward {
		pool = append(pool, awkwardWords...)
	}
	// shuffle
	for i := len(pool) - 1; i > 0; i-- {
		j := g.r.Intn(i + 1)
		pool[i], pool[j] = pool[j], pool[i]
	}
	if n > len(pool) {
		n = len(pool)
	}
	return pool[:n]
}

func (g *gctx) refTy(kinds ...string) (gTy, bool) {
	var cands []gSchema
	for _, s := range g.schemas {
		for _, k := range kinds {
			if s.Kind == k {
				cands = append(cands, s)
			}
		}
	}
	if len(cands) == 0 {
		return gTy{}, false
	}
	s := vh.Pick(g.r, cands)
	return gTy{Kind: s.Kind, Ref: s.Name}, true
}

func (g *gctx) inlineTy(depth int) gTy {
	r := g.r
	switch r.Intn(4) {
	case 0:
		return gTy{Kind: "enum", Inline: &gSchema{Kind: "enum"}}
	case 1:
		in := &gSchema{Kind: "oneof"}
		for _, nm := range g.propNames(r.Range(1, 2)) {
			t := vh.Pick(r, scalarSpecs[:2])
			if rt, ok := g.refTy("object"); ok && r.Chance(50) {
				t = rt
			}
			in.Props = append(in.Props, gProp{Name: nm, Ty: t, Filterable: t.Kind == "bool"})
		}
		return gTy{Kind: "oneof", Inline: in}
	}
	in := &gSchema{Kind: "object"}
	for _, nm := range g.propNames(r.Range(1, 3)) {
		var t gTy
		if depth < 2 && r.Chance(25) {
			t = g.inlineTy(depth + 1)
		} else {
			t = g.anyTy(1)
		}
		in.Props = append(in.Props, gProp{Name: nm, Ty: t, Filterable: t.Kind == "bool"})
	}
	return gTy{Kind: "object", Inline: in}
}

func (g *gctx) anyTy(depth int) gTy {
	if g.inline && depth == 0 && g.r.Chance(12) {
		return g.inlineTy(1)
	}
	switch g.r.Intn(10) {
	case 0, 1, 2:
		if t, ok := g.refTy("object", "oneof", "enum"); ok {
			return t
		}
	case 3:
		if t, ok := g.refTy("object"); ok {
			return t
		}
	case 4, 5:
		if depth == 0 {
			it := g.itemTy()
			return gTy{Kind: vh.Pick(g.r, []string{"array", "array", "map"}), Item: &it}
		}
	}
	return vh.Pick(g.r, scalarSpecs)
}

// item types of arrays and maps: scalars and refs (no nesting: proto has no repeated repeated)
func (g *gctx) itemTy() gTy {
	if g.r.Chance(55) {
		if t, ok := g.refTy("object", "object", "oneof", "enum"); ok {
			return t
		}
	}
	return vh.Pick(g.r, scalarSpecs)
}

func (g *gctx) props(n int) []gProp {
	names := g.propNames(n)
	out := make([]gProp, 0, len(names))
	for _, nm := range names {
		t := g.anyTy(0)
		pr := gProp{Name: nm, Ty: t, Filterable: t.Kind == "bool"}
		if t.Inline != nil && g.r.Chance(30) && len(g.schemas) > 0 {
			// an inline declaration named like a top-level schema: the nested type shadows it
			top := vh.Pick(g.r, g.schemas).Name
			pr.Name = strings.ToLower(top[:1]) + top[1:]
			for _, o := range out {
				if o.Name == pr.Name {
					pr.Name = nm
				}
			}
		}
		if g.inline && t.Inline == nil && t.Kind != "array" && t.Kind != "map" {
			switch g.r.Intn(8) {
			case 0:
				pr.Mark = "?"
			case 1:
				pr.Mark = "!"
			}
		} else if g.inline && t.Inline == nil && g.r.Chance(10) {
			pr.Mark = "?" // an optional array / map (NOTICE-4: proto3_optional on a repeated field)
		}
		g.decorateProp(&pr)
		g.listRules(&pr)
		out = append(out, pr)
	}
	return out
}

// listRules: filtering / sorting / searching constraints as buildListRequest reads them (the property's
// quantifier names list methods with filterable, sortable and searchable fields)
func (g *gctx) listRules(p *gProp) {
	if g.decorate || p.Ty.Inline != nil || !g.r.Chance(30) {
		return
	}
	has := func(prefix string) bool {
		for _, a := range p.Attrs {
			if strings.HasPrefix(a, prefix) {
				return true
			}
		}
		return false
	}
	if has("listRules.") {
		return
	}
	switch p.Ty.Kind {
	case "float", "integer", "timestamp":
		p.Attrs = append(p.Attrs, "listRules.sorting.sortable = true")
		if g.r.Chance(50) {
			p.Attrs = append(p.Attrs, "listRules.filtering.filterable = true")
		}
		if g.r.Chance(20) {
			p.Attrs = append(p.Attrs, "listRules.sorting.defaultSort = true")
		}
	case "string":
		p.Attrs = append(p.Attrs, "listRules.searching.searchable = true")
	case "key":
		p.Attrs = append(p.Attrs, "listRules.filtering.filterable = true")
	case "enum":
		if strings.HasPrefix(p.Ty.Ref, "Kind") {
			def := `["ALPHA"]`
			if g.clash == "" && g.r.Chance(4) {
				def = `["NOPE"]` // names no option: a compile error since /repo fb0e252 (before: accepted, buildListRequest failed)
				g.clash = "enumdefault"
			}
			p.Attrs = append(p.Attrs, "listRules.filtering.filterable = true", "listRules.filtering.defaultFilters = "+def)
		}
	}
}

// forcedClash: when >= 0, the next generated package takes this arm of the rare-class switch (0 case, 1 split, 2 enumdefault,
// 3 badlist). 0 and 3 are classes the compiler rejects since /repo 4fb405b / cec4e3a: a run checks that it does.
var forcedClash = -1

func genPackage(r *vh.Rand, awkward bool) *gPackage { return genPackageOpt(r, awkward, false) }

func genPackageOpt(r *vh.Rand, awkward, decorate bool) *gPackage {
	g := &gctx{r: r, awkward: awkward, decorate: decorate, inline: r.Chance(50)}
	p := &gPackage{Pkg: vh.Pick(r, pkgNames), Awkward: awkward}
	// declare schema names first so that references can be cyclic
	usedKeyword := map[string]bool{}
	n := r.Range(2, 6)
	for i := 0; i < n; i++ {
		kind := vh.Pick(r, []string{"object", "object", "object", "oneof", "enum"})
		if i == 0 {
			kind = "object"
		}
		name := fmt.Sprintf("%s%d", map[string]string{"object": "Obj", "oneof": "Choice", "enum": "Kind"}[kind], i)
		// now and then a schema whose name is a word of the proto grammar or a scalar type name: as a field
		// type it must not be printed as the first word of the declaration (fix 5e02f98)
		if i > 0 && r.Chance(6) {
			if kw := vh.Pick(r, keywordNames); !usedKeyword[kw] {
				usedKeyword[kw] = true
				name = kw
			}
		}
		g.schemas = append(g.schemas, gSchema{Name: name, Kind: kind})
	}
	for i := range g.schemas {
		s := &g.schemas[i]
		if decorate && r.Chance(50) {
			s.Desc = append(s.Desc, vh.Pick(r, descPool))
			if r.Chance(30) {
				s.Desc = append(s.Desc, vh.Pick(r, descPool))
			}
		}
		switch s.Kind {
		case "enum":
			for _, o := range []string{"ALPHA", "BETA"} {
				if r.Chance(25) {
					s.Props = append(s.Props, gProp{Name: o, Desc: vh.Pick(r, []string{"the first one", "second choice", "described option"})})
				}
			}
		case "object":
			s.Props = g.props(r.Range(1, 5))
			if r.Chance(35) { // direct self reference
				s.Props = append(s.Props, gProp{Name: "selfRef", Ty: gTy{Kind: "object", Ref: s.Name}})
			}
			if r.Chance(25) {
				s.Props = append(s.Props, gProp{Name: "selfList", Ty: gTy{Kind: "array", Item: &gTy{Kind: "object", Ref: s.Name}}})
			}
		case "oneof":
			names := g.propNames(r.Range(1, 3))
			for _, nm := range names {
				var t gTy
				if rt, ok := g.refTy("object"); ok && r.Chance(70) {
					t = rt
				} else {
					t = vh.Pick(r, scalarSpecs[:2])
				}
				s.Props = append(s.Props, gProp{Name: nm, Ty: t, Filterable: t.Kind == "bool"})
			}
		}
	}
	// a named object with a FLATTENED object field; the flattened object's properties refer to an enum and an
	// object that nothing else references (they are reachable through the flattened field only)
	if r.Chance(35) {
		var hosts []int
		for i, s := range g.schemas {
			if s.Kind == "object" && !usedKeyword[s.Name] {
				hosts = append(hosts, i)
			}
		}
		if len(hosts) > 0 {
			h := vh.Pick(r, hosts)
			k := len(g.schemas)
			base := gSchema{Name: fmt.Sprintf("Base%d", k), Kind: "object", Props: []gProp{
				{Name: "leafKind", Ty: gTy{Kind: "enum", Ref: fmt.Sprintf("LeafKind%d", k)}},
				{Name: "leafDims", Ty: gTy{Kind: "object", Ref: fmt.Sprintf("LeafDims%d", k)}},
				{Name: "leafNote", Ty: gTy{Kind: "string"}},
			}}
			if r.Chance(40) { // two levels of flatten
				base.Props = append(base.Props, gProp{Name: "inner", Ty: gTy{Kind: "object", Ref: fmt.Sprintf("Inner%d", k)}, Flatten: true})
				g.schemas = append(g.schemas, gSchema{Name: fmt.Sprintf("Inner%d", k), Kind: "object", Props: []gProp{
					{Name: "innerKind", Ty: gTy{Kind: "enum", Ref: fmt.Sprintf("InnerKind%d", k)}},
					{Name: "innerFlag", Ty: gTy{Kind: "bool"}, Filterable: true},
				}}, gSchema{Name: fmt.Sprintf("InnerKind%d", k), Kind: "enum"})
			}
			g.schemas = append(g.schemas, base,
				gSchema{Name: fmt.Sprintf("LeafKind%d", k), Kind: "enum"},
				gSchema{Name: fmt.Sprintf("LeafDims%d", k), Kind: "object", Props: []gProp{{Name: "width", Ty: gTy{Kind: "integer", Spec: "integer:INT32"}}}})
			g.schemas[h].Props = append(g.schemas[h].Props, gProp{Name: "flatBase", Ty: gTy{Kind: "object", Ref: base.Name}, Flatten: true})
			p.FlatHost = g.schemas[h].Name
		}
	}
	// rare: names the compiler accepts and a later stage cannot take (NOTICE-4; recorded as known findings)
	pickClash := r.Intn(50)
	if forcedClash >= 0 { // the chain stream forces each class once per run so that no class depends on luck
		pickClash, forcedClash = forcedClash, -1
	}
	defItem := false
	badList := false
	switch pickClash {
	case 60: // (forced only: outside the random range) identifiers with non-ASCII letters: the BCL lexer takes unicode
		// letters, the compiler builds descriptors with names protobuf does not allow
		g.schemas = append(g.schemas, gSchema{Name: "\u00c9lan", Kind: "object", Props: []gProp{{Name: "na\u00efve", Ty: gTy{Kind: "string"}}}})
		g.schemas[0].Props = append(g.schemas[0].Props, gProp{Name: "unicodeRef", Ty: gTy{Kind: "object", Ref: "\u00c9lan"}})
		p.Clash = "unicode"
	case 4: // topic / message names that are not fixed points of strcase.ToCamel (seeded C16-F), pinned
		p.Topics = append(p.Topics,
			gTopic{Name: "level2cache", Kind: "publish", Unnamed: true},
			gTopic{Name: "Mixed_feed", Kind: "publish", Messages: []string{"Level3flush", "HTTPDone"}},
			gTopic{Name: "snake_topic", Kind: "event", Messages: []string{"Unused"}},
			gTopic{Name: "Ack2me", Kind: "reqres", Messages: []string{"Do2it"}})
	case 3: // a list method whose response has two arrays / no array: rejected by the compiler since /repo cec4e3a
		badList = true
		p.Clash = "badlist"
	case 2: // an enum field whose default filter names no option, in the item object of a list method
		g.schemas = append(g.schemas,
			gSchema{Name: "DefKind", Kind: "enum"},
			gSchema{Name: "DefItem", Kind: "object", Props: []gProp{
				{Name: "state", Ty: gTy{Kind: "enum", Ref: "DefKind"}, Attrs: []string{"listRules.filtering.filterable = true", `listRules.filtering.defaultFilters = ["NOPE"]`}},
				{Name: "rank", Ty: gTy{Kind: "integer", Spec: "integer:INT32"}, Attrs: []string{"listRules.sorting.sortable = true"}},
			}})
		p.Clash = "enumdefault"
		defItem = true
	case 0: // enum options that differ only in case: protodesc / protocompile reject the camel-case conflict
		g.schemas = append(g.schemas, gSchema{Name: "CaseClash", Kind: "enum", Props: []gProp{{Name: "@Active"}, {Name: "@ACTIVE"}}})
		g.schemas[0].Props = append(g.schemas[0].Props, gProp{Name: "clashKind", Ty: gTy{Kind: "enum", Ref: "CaseClash"}})
		p.Clash = "case"
	case 1: // object SplitHost_Kind next to object SplitHost with an inline enum field kind: both become SplitHost_Kind
		g.schemas = append(g.schemas,
			gSchema{Name: "SplitHost_Kind", Kind: "object", Props: []gProp{{Name: "note", Ty: gTy{Kind: "string"}}}},
			gSchema{Name: "SplitHost", Kind: "object", Props: []gProp{{Name: "kind", Ty: gTy{Kind: "enum", Inline: &gSchema{Kind: "enum"}}, Attrs: []string{`rules.in = ["FAST"]`}}}})
		g.schemas[0].Props = append(g.schemas[0].Props, gProp{Name: "splitHost", Ty: gTy{Kind: "object", Ref: "SplitHost"}}, gProp{Name: "splitKind", Ty: gTy{Kind: "object", Ref: "SplitHost_Kind"}})
		p.Clash = "split"
	}
	p.Schemas = g.schemas

	nsvc := r.Range(1, 2)
	usedNoun := map[string]bool{}
	for i := 0; i < nsvc; i++ {
		noun := vh.Pick(r, nouns)
		for usedNoun[noun] {
			noun = vh.Pick(r, nouns)
		}
		usedNoun[noun] = true
		sv := gService{Name: nameVariant(r, noun, false), BasePath: "/" + strings.ReplaceAll(p.Pkg, ".", "/") + "/" + strings.ToLower(noun)}
		nm := r.Range(1, 4)
		for k := 0; k < nm; k++ {
			sv.Methods = append(sv.Methods, g.method(noun, k))
		}
		p.Services = append(p.Services, sv)
	}
	if defItem {
		item := gTy{Kind: "object", Ref: "DefItem"}
		sv := &p.Services[0]
		sv.Methods = append(sv.Methods, gMethod{Name: "Get" + sv.Name + "Defaults", Verb: "GET", List: true, Path: "/defaults",
			Req:  []gProp{{Name: "page", Ty: gTy{Kind: "object", Ref: "j5.list.v1.PageRequest"}}, {Name: "query", Ty: gTy{Kind: "object", Ref: "j5.list.v1.QueryRequest"}}},
			Resp: []gProp{{Name: "items", Ty: gTy{Kind: "array", Item: &item}}, {Name: "page", Ty: gTy{Kind: "object", Ref: "j5.list.v1.PageResponse"}}}})
	}
	if badList {
		item, haveObj := g.refTy("object")
		resp := []gProp{{Name: "items", Ty: gTy{Kind: "array", Item: &item}}, {Name: "more", Ty: gTy{Kind: "array", Item: &item}}}
		if !haveObj || r.Chance(50) {
			resp = []gProp{{Name: "page", Ty: gTy{Kind: "object", Ref: "j5.list.v1.PageResponse"}}}
		}
		sv := &p.Services[0]
		sv.Methods = append(sv.Methods, gMethod{Name: "Get" + nouns[0] + "BadList", Verb: "GET", List: true, Path: "/badlist",
			Req:  []gProp{{Name: "query", Ty: gTy{Kind: "object", Ref: "j5.list.v1.QueryRequest"}}},
			Resp: resp})
	}
	if p.FlatHost != "" {
		// the host is reached through a reference from a response (it is not itself a request / response root)
		done := false
		for i := range p.Services {
			for k := range p.Services[i].Methods {
				m := &p.Services[i].Methods[k]
				if !done && !m.NoResp && !m.List {
					m.Resp = append(m.Resp, gProp{Name: "flatHostRef", Ty: gTy{Kind: "object", Ref: p.FlatHost}})
					done = true
				}
			}
		}
		if !done {
			m := &p.Services[0].Methods[0]
			if m.List {
				m.Resp = append(m.Resp, gProp{Name: "flatHostRef", Ty: gTy{Kind: "object", Ref: p.FlatHost}})
			} else {
				m.NoResp = false
				m.Resp = append(m.Resp, gProp{Name: "flatHostRef", Ty: gTy{Kind: "object", Ref: p.FlatHost}})
			}
		}
	}
	if len(p.Topics) == 0 && r.Chance(30) {
		noun := vh.Pick(r, nouns)
		tp := gTopic{Name: nameVariant(r, noun+"Feed", false), Kind: vh.Pick(r, []string{"publish", "publish", "upsert", "event", "reqres"}),
			Messages: []string{nameVariant(r, "Do"+noun, true), "Undo" + noun}[:r.Range(1, 2)]}
		if tp.Kind == "publish" && r.Chance(35) {
			tp.Unnamed, tp.Messages = true, nil
		}
		p.Topics = append(p.Topics, tp)
	}
	if r.Chance(25) {
		// entity names beyond plain CamelCase: the generated service / topic names go through strcase.ToCamel
		noun := vh.Pick(r, []string{"Account", "Shipment", "Policy", "Account", "Shipment", "Policy", "Account2x", "HTTPPolicy"})
		p.Entity = &gEntity{Name: noun, Data: g.props(r.Range(1, 3))}
	}
	if p.Clash == "" && g.clash != "" {
		p.Clash = g.clash
	}
	// a method WITH a body whose PATH parameter refers to a named schema nothing else refers to (an enum declared
	// after everything else was generated, so no other property can pick it): the schema is reachable only through
	// the path parameter of a non-GET method (seeded C16-I: collectPackageRefs walked path / query parameters only for
	// methods without a body). A GET twin keeps the query-parameter side covered (its enum is reachable only through a
	// query parameter).
	if p.Clash == "" && len(p.Services) > 0 && r.Chance(60) {
		sv := &p.Services[0]
		verb := vh.Pick(r, []string{"POST", "PUT", "PATCH", "DELETE"})
		p.Schemas = append(p.Schemas, gSchema{Name: "PathOnlyKind", Kind: "enum"}, gSchema{Name: "QueryOnlyKind", Kind: "enum"})
		sv.Methods = append(sv.Methods,
			gMethod{Name: fmt.Sprintf("MarkByKind%d", len(sv.Methods)), Verb: verb, Path: "/mark/:pathKind/done",
				Req:  []gProp{{Name: "pathKind", Ty: gTy{Kind: "enum", Ref: "PathOnlyKind"}}, {Name: "note", Ty: gTy{Kind: "string"}}},
				Resp: []gProp{{Name: "ok", Ty: gTy{Kind: "bool"}}}},
			gMethod{Name: fmt.Sprintf("FindByKind%d", len(sv.Methods)+1), Verb: "GET", Path: "/find/:code",
				Req:  []gProp{{Name: "code", Ty: gTy{Kind: "string"}}, {Name: "queryKind", Ty: gTy{Kind: "enum", Ref: "QueryOnlyKind"}}},
				Resp: []gProp{{Name: "ok", Ty: gTy{Kind: "bool"}}}})
	}
	return p
}

func (g *gctx) method(noun string, k int) gMethod {
	r := g.r
	verb := vh.Pick(r, []string{"GET", "GET", "POST", "PUT", "DELETE", "PATCH"})
	m := gMethod{Name: fmt.Sprintf("%s%s%d", map[string]string{"GET": "Get", "POST": "Create", "PUT": "Replace", "DELETE": "Remove", "PATCH": "Update"}[verb], noun, k), Verb: verb}
	if r.Chance(30) {
		// method names are free-form for the compiler (they name the rpc and its Request / Response messages)
		switch r.Intn(4) {
		case 0:
			m.Name = strings.ToLower(m.Name[:1]) + m.Name[1:]
		case 1:
			m.Name = "HTTP" + m.Name
		case 2:
			m.Name += "x" // digit followed by lower case
		case 3:
			m.Name = strings.ToLower(m.Name[:3]) + "_" + m.Name[3:]
		}
	}
	if verb == "GET" && r.Chance(30) {
		if item, ok := g.refTy("object"); ok {
			m.List = true
			m.Path = "/list" + fmt.Sprint(k)
			m.Req = []gProp{
				{Name: "page", Ty: gTy{Kind: "object", Ref: "j5.list.v1.PageRequest"}},
				{Name: "query", Ty: gTy{Kind: "object", Ref: "j5.list.v1.QueryRequest"}},
			}
			m.Resp = []gProp{
				{Name: "items", Ty: gTy{Kind: "array", Item: &item}},
				{Name: "page", Ty: gTy{Kind: "object", Ref: "j5.list.v1.PageResponse"}},
			}
			return m
		}
	}
	names := g.propNames(r.Range(1, 5))
	npath := r.Intn(3)
	if npath > len(names) {
		npath = len(names)
	}
	segs := []string{fmt.Sprintf("m%d", k)}
	for i, nm := range names {
		if i < npath {
			t := vh.Pick(r, pathSpecs)
			m.Req = append(m.Req, gProp{Name: nm, Ty: t, Filterable: t.Kind == "bool"})
			segs = append(segs, ":"+nm)
			if r.Chance(30) {
				segs = append(segs, "sub")
			}
		} else {
			t := g.anyTy(0)
			m.Req = append(m.Req, gProp{Name: nm, Ty: t, Filterable: t.Kind == "bool"})
		}
	}
	// request properties whose names are related to a path parameter's name by prefix, suffix,
	// extension or letter case: they are NOT path parameters
	if npath > 0 && r.Chance(60) {
		used := map[string]bool{}
		for _, nm := range names {
			used[nm] = true
		}
		for k := r.Range(1, 3); k > 0; k-- {
			base := names[r.Intn(npath)]
			var rel string
			switch r.Intn(6) {
			case 0: // proper prefix
				rel = base[:r.Range(1, len(base)-1)]
			case 1: // proper suffix, lower-cased first letter
				suf := base[r.Range(1, len(base)-1):]
				rel = strings.ToLower(suf[:1]) + suf[1:]
			case 2: // extension
				rel = base + vh.Pick(r, []string{"x", "s", "Ref", "two"})
			case 3: // all lower case
				rel = strings.ToLower(base)
			case 4: // doubled
				rel = base + base[:1]
			case 5: // prefix up to the first capital ("account" of "accountId")
				cut := strings.IndexFunc(base[1:], func(c rune) bool { return c >= 'A' && c <= 'Z' })
				if cut > 0 {
					rel = base[:cut+1]
				}
			}
			if rel == "" || used[rel] || rel == "id" && false {
				continue
			}
			used[rel] = true
			t := vh.Pick(r, scalarSpecs)
			m.Req = append(m.Req, gProp{Name: rel, Ty: t, Filterable: t.Kind == "bool"})
		}
	}
	m.Path = "/" + strings.Join(segs, "/")
	switch r.Intn(12) {
	case 0:
		m.Path += "/"
	case 1:
		m.Path = "/" + m.Path
	}
	if r.Chance(12) {
		m.NoResp = true
	} else {
		m.Resp = g.props(r.Range(1, 4))
	}
	return m
}

// ---------------------------------------------------------------- text

func propLine(ind, kw string, p gProp) string {
	var body []string
	if p.Desc != "" {
		body = append(body, "| "+p.Desc)
	}
	if p.Filterable {
		body = append(body, "listRules.filtering.filterable = true")
	}
	body = append(body, p.Attrs...)
	if p.Flatten {
		body = append(body, "flatten = true")
	}
	mark := ""
	if p.Mark != "" {
		mark = p.Mark + " "
	}
	if in := p.Ty.Inline; in != nil {
		var sb strings.Builder
		fmt.Fprintf(&sb, "%s%s %s %s%s {\n", ind, kw, p.Name, mark, in.Kind)
		for _, b := range body {
			sb.WriteString(ind + "\t" + b + "\n")
		}
		switch in.Kind {
		case "enum":
			sb.WriteString(ind + "\toption FAST\n" + ind + "\toption SLOW\n")
		case "oneof":
			for _, q := range in.Props {
				sb.WriteString(propLine(ind+"\t", "option", q))
			}
		default:
			for _, q := range in.Props {
				sb.WriteString(propLine(ind+"\t", "field", q))
			}
		}
		sb.WriteString(ind + "}\n")
		return sb.String()
	}
	if len(body) > 0 {
		return fmt.Sprintf("%s%s %s %s%s {\n%s\t%s\n%s}\n", ind, kw, p.Name, mark, p.Ty.j5s(), ind, strings.Join(body, "\n"+ind+"\t"), ind)
	}
	return fmt.Sprintf("%s%s %s %s%s\n", ind, kw, p.Name, mark, p.Ty.j5s())
}

func descLines(ind string, desc []string) string {
	var sb strings.Builder
	for _, d := range desc {
		sb.WriteString(ind + "| " + d + "\n")
	}
	if len(desc) > 0 {
		sb.WriteString("\n")
	}
	return sb.String()
}

func (p *gPackage) text() string {
	var sb strings.Builder
	fmt.Fprintf(&sb, "package %s\n\n", p.Pkg)
	for _, s := range p.Schemas {
		switch s.Kind {
		case "object":
			fmt.Fprintf(&sb, "object %s {\n%s", s.Name, descLines("\t", s.Desc))
			for _, pr := range s.Props {
				sb.WriteString(propLine("\t", "field", pr))
			}
			sb.WriteString("}\n\n")
		case "oneof":
			fmt.Fprintf(&sb, "oneof %s {\n%s", s.Name, descLines("\t", s.Desc))
			for _, pr := range s.Props {
				sb.WriteString(propLine("\t", "option", pr))
			}
			sb.WriteString("}\n\n")
		case "enum":
			fmt.Fprintf(&sb, "enum %s {\n%s", s.Name, descLines("\t", s.Desc))
			// options ALPHA, BETA; s.Props carries a description for some of them (only described options get a
			// source location in the compiled descriptor: located and unlocated values mixed)
			descOf := map[string]string{}
			for _, o := range s.Props {
				descOf[o.Name] = o.Desc
			}
			opts := []string{"ALPHA", "BETA"}
			var custom []string
			for _, o := range s.Props {
				if strings.HasPrefix(o.Name, "@") {
					custom = append(custom, o.Name[1:])
				}
			}
			if len(custom) > 0 {
				opts = custom
			}
			for _, o := range opts {
				if d := descOf[o]; d != "" {
					fmt.Fprintf(&sb, "\toption %s | %s\n", o, d)
				} else {
					fmt.Fprintf(&sb, "\toption %s\n", o)
				}
			}
			sb.WriteString("}\n\n")
		}
	}
	for _, sv := range p.Services {
		fmt.Fprintf(&sb, "service %s {\n\tbasePath = %q\n\n", sv.Name, sv.BasePath)
		for _, m := range sv.Methods {
			fmt.Fprintf(&sb, "\tmethod %s {\n\t\thttpMethod = %q\n\t\thttpPath = %q\n\n\t\trequest {\n", m.Name, m.Verb, m.Path)
			for _, pr := range m.Req {
				sb.WriteString(propLine("\t\t\t", "field", pr))
			}
			sb.WriteString("\t\t}\n")
			if !m.NoResp {
				sb.WriteString("\n\t\tresponse {\n")
				for _, pr := range m.Resp {
					sb.WriteString(propLine("\t\t\t", "field", pr))
				}
				sb.WriteString("\t\t}\n")
			}
			sb.WriteString("\t}\n\n")
		}
		sb.WriteString("}\n\n")
	}
	for _, tp := range p.Topics {
		switch tp.Kind {
		case "upsert", "event":
			fmt.Fprintf(&sb, "topic %s %s {\n\tentityName = \"thing\"\n\tmessage {\n\t\tfield note string\n\t}\n}\n\n", tp.Name, tp.Kind)
		case "reqres":
			fmt.Fprintf(&sb, "topic %s reqres {\n\trequest %s {\n\t\tfield note string\n\t}\n\treply %sDone {\n\t\tfield note string\n\t}\n}\n\n", tp.Name, tp.Messages[0], tp.Messages[0])
		default:
			fmt.Fprintf(&sb, "topic %s publish {\n", tp.Name)
			if tp.Unnamed {
				sb.WriteString("\tmessage {\n\t\tfield note string\n\t}\n")
			}
			for _, m := range tp.Messages {
				fmt.Fprintf(&sb, "\tmessage %s {\n\t\tfield note string\n\t}\n", m)
			}
			sb.WriteString("}\n\n")
		}
	}
	if e := p.Entity; e != nil {
		lower := strings.ToLower(e.Name[:1]) + e.Name[1:]
		fmt.Fprintf(&sb, "entity %s {\n\tkey %sId key:id62 {\n\t\tprimary = true\n\t}\n\n", e.Name, lower)
		for _, pr := range e.Data {
			sb.WriteString(propLine("\t", "data", pr))
		}
		sb.WriteString("\n\tstatus ACTIVE\n\tstatus INACTIVE\n\n\tevent Create {\n\t\tfield note string\n\t}\n\n\tevent Archive {\n\t}\n}\n")
	}
	return sb.String()
}

// ---------------------------------------------------------------- what the package declares

type declMethod struct {
	Service string
	Name    string
	Verb    int
	Path    string
	PathP   []string
	Rest    []string // request properties that are not path parameters, in order
	AllReq  []string
	HasResp bool
	List    bool
}

func (p *gPackage) declared() []declMethod {
	var out []declMethod
	for _, sv := range p.Services {
		for _, m := range sv.Methods {
			d := declMethod{Service: sv.Name + "Service", Name: m.Name, Verb: verbArm[strings.ToLower(m.Verb)], Path: path.Join(sv.BasePath, m.Path), HasResp: !m.NoResp, List: m.List}
			inPath := map[string]bool{}
			for _, seg := range strings.Split(m.Path, "/") {
				if strings.HasPrefix(seg, ":") {
					inPath[seg[1:]] = true
				}
			}
			for _, pr := range m.Req {
				d.AllReq = append(d.AllReq, pr.Name)
				if inPath[pr.Name] {
					d.PathP = append(d.PathP, pr.Name)
				} else {
					d.Rest = append(d.Rest, pr.Name)
				}
			}
			out = append(out, d)
		}
	}
	return out
}

// reachable returns the names of the package's own schemas reachable from the methods' request and
// response properties (and the entity's data), computed on the declaration.
func (p *gPackage) reachable() []string {
	byName := map[string]gSchema{}
	for _, s := range p.Schemas {
		byName[s.Name] = s
	}
	seen := map[string]bool{}
	var visit func(name string)
	var visitTy func(t gTy)
	visit = func(name string) {
		s, ok := byName[name]
		if !ok || seen[name] {
			return
		}
		seen[name] = true
		for _, pr := range s.Props {
			visitTy(pr.Ty)
		}
	}
	visitTy = func(t gTy) {
		if t.Inline != nil {
			for _, q := range t.Inline.Props {
				visitTy(q.Ty)
			}
			return
		}
		visit(t.refName())
	}
	// the client merges a flattened object into the object that refers to it: the flattened object is not
	// listed itself (unless something else refers to it), what its properties refer to is
	var visitProps func(ps []gProp)
	visitProps = func(ps []gProp) {
		for _, pr := range ps {
			if pr.Flatten {
				if fs, ok := byName[pr.Ty.Ref]; ok {
					visitProps(fs.Props)
				}
				continue
			}
			visitTy(pr.Ty)
		}
	}
	visit = func(name string) {
		s, ok := byName[name]
		if !ok || seen[name] {
			return
		}
		seen[name] = true
		visitProps(s.Props)
	}
	for _, sv := range p.Services {
		for _, m := range sv.Methods {
			for _, pr := range m.Req {
				visitTy(pr.Ty)
			}
			for _, pr := range m.Resp {
				visitTy(pr.Ty)
			}
		}
	}
	if p.Entity != nil {
		for _, pr := range p.Entity.Data {
			visitTy(pr.Ty)
		}
	}
	var out []string
	for k := range seen {
		out = append(out, k)
	}
	sort.Strings(out)
	return out
}

package main

// Option values: the text the real option printer writes, tokenised, against the model's token
// printer / parser on the value tree the real printer walked.

import (
	"fmt"
	"strings"

	"github.com/pentops/j5/lib/verifshim/tool"
	"google.golang.org/protobuf/reflect/protoreflect"
	"verifharness/vh"
)

func leafToken(text string) string {
	if text != "" && (text[0] == '"' || text[0] == '-' || (text[0] >= '0' && text[0] <= '9')) {
		return "TLit " + bt(text)
	}
	return "TIdent " + bt(text)
}

// tokenise splits the value text of an option into the tokens of model/ProtoPrint.v.
func tokenise(s string) ([]string, error) {
	var out []string
	for i := 0; i < len(s); {
		c := s[i]
		switch {
		case c == ' ' || c == '\n' || c == '\t' || c == '\r':
			i++
		case c == '{':
			out = append(out, "TLBrace")
			i++
		case c == '}':
			out = append(out, "TRBrace")
			i++
		case c == '[':
			out = append(out, "TLBrack")
			i++
		case c == ']':
			out = append(out, "TRBrack")
			i++
		case c == ':':
			out = append(out, "TColon")
			i++
		case c == ',':
			out = append(out, "TComma")
			i++
		case c == '"':
			j := i + 1
			for j < len(s) && s[j] != '"' {
				if s[j] == '\\' {
					j++
				}
				j++
			}
			if j >= len(s) {
				return nil, fmt.Errorf("unterminated string literal")
			}
			out = append(out, leafToken(s[i:j+1]))
			i = j + 1
		default:
			j := i
			for j < len(s) && !strings.ContainsRune(" \n\t\r{}[]:,\"", rune(s[j])) {
				j++
			}
			out = append(out, leafToken(s[i:j]))
			i = j
		}
	}
	return out, nil
}

func rawTerm(f tool.OptionField) string {
	switch f.FieldType {
	case tool.OptionMessage:
		parts := make([]string, len(f.Children))
		for i, c := range f.Children {
			parts[i] = "(" + bt(c.Key) + ", " + rawTerm(c) + ")"
		}
		return "(RMsg [" + strings.Join(parts, ";") + "])"
	case tool.OptionArray:
		parts := make([]string, len(f.Children))
		for i, c := range f.Children {
			parts[i] = rawTerm(c)
		}
		return "(RList [" + strings.Join(parts, ";") + "])"
	}
	return "(RScalar (" + leafToken(f.ScalarValue) + "))"
}

// elementsOf lists every element of a file that can carry options.
func elementsOf(fd protoreflect.FileDescriptor) []protoreflect.Descriptor {
	var out []protoreflect.Descriptor
	var msgs func(ms protoreflect.MessageDescriptors)
	enums := func(es protoreflect.EnumDescriptors) {
		for i := 0; i < es.Len(); i++ {
			out = append(out, es.Get(i))
			vs := es.Get(i).Values()
			for k := 0; k < vs.Len(); k++ {
				out = append(out, vs.Get(k))
			}
		}
	}
	msgs = func(ms protoreflect.MessageDescriptors) {
		for i := 0; i < ms.Len(); i++ {
			m := ms.Get(i)
			if m.IsMapEntry() {
				continue
			}
			out = append(out, m)
			for k := 0; k < m.Fields().Len(); k++ {
				out = append(out, m.Fields().Get(k))
			}
			for k := 0; k < m.Oneofs().Len(); k++ {
				if !m.Oneofs().Get(k).IsSynthetic() {
					out = append(out, m.Oneofs().Get(k))
				}
			}
			enums(m.Enums())
			msgs(m.Messages())
		}
	}
	msgs(fd.Messages())
	enums(fd.Enums())
	for i := 0; i < fd.Services().Len(); i++ {
		sv := fd.Services().Get(i)
		out = append(out, sv)
		for k := 0; k < sv.Methods().Len(); k++ {
			out = append(out, sv.Methods().Get(k))
		}
	}
	return out
}

type optCase struct {
	term  string
	where string
	text  string
}

// optionCases runs the real option printer on every element of the file.
func optionCases(fd protoreflect.FileDescriptor, seen vh.Distinct) (cases []optCase, problems []string) {
	defer func() {
		if p := recover(); p != nil {
			problems = append(problems, fmt.Sprintf("panic in the option printer: %v", p))
		}
	}()
	for _, el := range elementsOf(fd) {
		opts, err := tool.PrintOptions(el)
		if err != nil {
			problems = append(problems, fmt.Sprintf("%s: %v", el.FullName(), err))
			continue
		}
		for _, o := range opts {
			txt := strings.TrimSpace(o.Text)
			eq := strings.Index(txt, " = ")
			if eq < 0 || !strings.HasSuffix(txt, ";") {
				problems = append(problems, fmt.Sprintf("%s: option text has no ' = ' / ';': %q", el.FullName(), txt))
				continue
			}
			val := txt[eq+3 : len(txt)-1]
			key := o.Name + "=" + val
			if _, dup := seen[key]; dup {
				continue
			}
			seen.Add(key)
			toks, err := tokenise(val)
			if err != nil {
				problems = append(problems, fmt.Sprintf("%s: %v in %q", el.FullName(), err, val))
				continue
			}
			cases = append(cases, optCase{term: fmt.Sprintf("COpt %s [%s]", rawTerm(o.Root), strings.Join(toks, ";")), where: string(el.FullName()) + " " + o.Name, text: val})
		}
	}
	return cases, problems
}

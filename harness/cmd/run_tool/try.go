package main

import (
	"encoding/json"
	"fmt"
	"os"
	"strings"
)

// tryMain: `run_tool try file.j5s pkg` pushes one j5s file through the chain and prints what happened
// (used to replay failing inputs by hand).
func tryMain(file, pkg string) {
	src, err := os.ReadFile(file)
	if err != nil {
		fmt.Println(err)
		os.Exit(2)
	}
	job := &Job{Kind: "j5s", Pkg: pkg, WantPrinted: true, Files: map[string]string{strings.ReplaceAll(pkg, ".", "/") + "/a.j5s": string(src)}}
	res := handle(job, nil)
	for name, txt := range res.Printed {
		fmt.Printf("===== %s\n%s\n", name, txt)
	}
	for _, st := range res.Stages {
		fmt.Printf("stage %-18s %-5s %s\n", st.Name, st.Status, st.Msg)
	}
	bb, _ := json.Marshal(res.Methods)
	fmt.Println("methods:", string(bb))
	fmt.Println("schemas:", res.Schemas)
}

package main

// Crash-isolated execution of the real toolchain. A job is handled either in-process (under recover)
// or by a worker subprocess; a worker that dies (fatal error: stack overflow is not recoverable) is
// attributed to the job in flight and restarted.

import (
	"bufio"
	"bytes"
	"context"
	"encoding/json"
	"fmt"
	"io"
	"os"
	"os/exec"
	"regexp"
	"runtime/debug"
	"sort"
	"strings"
	"sync"
	"time"

	"github.com/pentops/j5/gen/j5/client/v1/client_j5pb"
	"github.com/pentops/j5/gen/j5/schema/v1/schema_j5pb"
	"github.com/pentops/j5/gen/j5/source/v1/source_j5pb"
	"github.com/pentops/j5/lib/j5codec"
	"github.com/pentops/j5/lib/verifshim/compile"
	"github.com/pentops/j5/lib/verifshim/tool"
	"google.golang.org/genproto/googleapis/api/annotations"
	"google.golang.org/protobuf/proto"
	"google.golang.org/protobuf/reflect/protodesc"
	"google.golang.org/protobuf/reflect/protoreflect"
	"google.golang.org/protobuf/types/descriptorpb"
)

// ---------------------------------------------------------------- abstract image (mirrors coq/model/Pipeline.v)

type FTy struct {
	Alt  string `json:"alt"` // Field alternative; for refs object|oneof|enum; array; map
	Pkg  string `json:"pkg,omitempty"`
	Name string `json:"name,omitempty"`
	Item *FTy   `json:"item,omitempty"`
}

type Prop struct {
	JSON string `json:"json"`
	Ty   FTy    `json:"ty"`
}

type Schema struct {
	Pkg   string `json:"pkg"`
	Name  string `json:"name"`
	Kind  string `json:"kind"` // object oneof enum
	Props []Prop `json:"props"`
}

type FieldNames struct{ Proto, JSON string }

type MethDesc struct {
	Name      string       `json:"name"`
	InSamePkg bool         `json:"in_same_pkg"`
	InName    string       `json:"in_name"`
	OutName   string       `json:"out_name"`
	OutFull   string       `json:"out_full"`
	HasHTTP   bool         `json:"has_http"`
	Arm       int          `json:"arm"` // 1 get 2 post 3 put 4 delete 5 patch 0 other
	Path      string       `json:"path"`
	InFields  []FieldNames `json:"in_fields"`
}

type SvcDesc struct {
	Sub     string     `json:"sub"`
	Name    string     `json:"name"`
	Methods []MethDesc `json:"methods"`
}

type Img struct {
	Pkg      string     `json:"pkg"`
	Services []SvcDesc  `json:"services"`
	Schemas  []Schema   `json:"schemas"`
	Roots    [][2]string `json:"roots"`
	Anns     []EntAnn    `json:"anns,omitempty"` // entity annotations of the objects of the wanted package
	Rules    []ListRule  `json:"rules,omitempty"` // j5.list.v1 constraints of the properties that carry any
}

// ListRule: the list constraints of one property of a source API schema, as buildListRequest reads them
// (which constraint messages are present; for an enum reference the default filters and the enum's options).
type ListRule struct {
	Pkg, Name, JSON      string
	Filter, Sort, Search bool
	Defaults             []string
	Prefix               string
	Options              []string
}

// EntObs: what the client API says about one entity.
type EntObs struct {
	Name, Schema string
	Events       []string
}

// EntAnn: an object of the wanted package that carries an entity annotation (what walkSourceSchemas looks at).
type EntAnn struct {
	Pkg, Name, Entity string
	Part              int
}

// ---------------------------------------------------------------- jobs and results

type Job struct {
	ID   int    `json:"id"`
	Kind string `json:"kind"` // j5s | proto | classify | method | api | print
	// j5s: in-memory bundle; Pkg is compiled and pushed through the chain
	Files map[string]string `json:"files,omitempty"`
	Pkg   string            `json:"pkg,omitempty"`
	// text mutations applied to the printed service file before the image is read (malformed stream)
	Mutate []Mutation `json:"mutate,omitempty"`
	// classify / method: hand-built descriptors
	SvcName string    `json:"svc_name,omitempty"`
	Meth    *MethDesc `json:"meth,omitempty"`
	// api: a hand-built source API (schemas + one service) for the client stage
	API *HandAPI `json:"api,omitempty"`
	// keep the printed texts in the result (C05)
	WantPrinted bool `json:"want_printed,omitempty"`
	// stop before this stage (used to recover the partial result of a job that killed its worker)
	StopBefore string `json:"stop_before,omitempty"`
}

type Mutation struct {
	File string `json:"file"` // suffix of the file name
	Re   string `json:"re"`
	With string `json:"with"`
}

type Stage struct {
	Name   string `json:"name"`
	Status string `json:"status"` // ok err panic fatal
	Msg    string `json:"msg,omitempty"`
}

type SrcMethodObs struct {
	Name string `json:"name"`
	Verb int    `json:"verb"`
	Path string `json:"path"`
	Req  string `json:"req"`
	Resp string `json:"resp"`
}

type SrcSvcObs struct {
	Name    string         `json:"name"`
	Methods []SrcMethodObs `json:"methods"`
}

type MethodObs struct {
	Service string   `json:"service"`
	Name    string   `json:"name"`
	Verb    int      `json:"verb"`
	Path    string   `json:"path"`
	PathP   []string `json:"path_params"`
	Query   []string `json:"query"`
	HasBody bool     `json:"has_body"`
	Body    []string `json:"body"`
	HasResp bool     `json:"has_resp"`
	HasList bool     `json:"has_list"`
	Filter  []string `json:"filter"`
	Sort    []string `json:"sort"`
	Search  []string `json:"search"`
}

// SwaggerOp is one operation of the OpenAPI document as marshalled.
type SwaggerOp struct {
	Path    string   `json:"path"`
	Method  string   `json:"method"`
	PathP   []string `json:"path_params"`
	Query   []string `json:"query"`
	HasBody bool     `json:"has_body"`
	Body    []string `json:"body"`
	OpID    string   `json:"operation_id"`
}

type Result struct {
	ID       int               `json:"id"`
	Swagger  []SwaggerOp       `json:"swagger,omitempty"`
	DanglingRefs []string      `json:"dangling_refs,omitempty"` // $ref values of the OpenAPI document that name no schema of it
	Stages   []Stage           `json:"stages"`
	Img      *Img              `json:"img,omitempty"`
	Src      []SrcSvcObs       `json:"src,omitempty"`
	Topics   []string          `json:"topics,omitempty"`
	Methods  []MethodObs       `json:"methods,omitempty"`
	Schemas  [][2]string       `json:"schemas,omitempty"`
	Entities []string          `json:"entities,omitempty"`
	ClientPkgs []string `json:"client_pkgs,omitempty"` // names of the packages of the client API
	EntObs   []EntObs          `json:"ent_obs,omitempty"` // entities of the client API: state schema and event names
	Printed  map[string]string `json:"printed,omitempty"`
	Extra    map[string]string `json:"extra,omitempty"`

	stopBefore string
	marker     func(stage string)
}

func (r *Result) stage(name string) *Stage {
	for i := range r.Stages {
		if r.Stages[i].Name == name {
			return &r.Stages[i]
		}
	}
	return nil
}

func (r *Result) status(name string) string {
	if s := r.stage(name); s != nil {
		return s.Status
	}
	return "none"
}

// firstBad returns the first stage that is not ok.
func (r *Result) firstBad() *Stage {
	for i := range r.Stages {
		if r.Stages[i].Status != "ok" {
			return &r.Stages[i]
		}
	}
	return nil
}

// try runs f under recover and records the stage; returns false when the chain must stop.
func (r *Result) try(name string, f func() error) (ok bool) {
	if r.stopBefore != "" && r.stopBefore == name {
		return false
	}
	if r.marker != nil {
		r.marker(name)
	}
	st := Stage{Name: name, Status: "ok"}
	defer func() {
		if p := recover(); p != nil {
			st.Status = "panic"
			st.Msg = trim(fmt.Sprint(p), 300)
			ok = false
		}
		r.Stages = append(r.Stages, st)
	}()
	if err := f(); err != nil {
		st.Status = "err"
		st.Msg = trim(err.Error(), 400)
		return false
	}
	return true
}

func trim(s string, n int) string {
	if len(s) > n {
		return s[:n] + "..."
	}
	return s
}

// ---------------------------------------------------------------- the real chain

func handle(job *Job, marker func(string)) *Result {
	res := &Result{ID: job.ID, stopBefore: job.StopBefore, marker: marker}
	ctx := context.Background()
	switch job.Kind {
	case "j5s":
		handleJ5s(ctx, job, res)
	case "classify", "method":
		handleDesc(ctx, job, res)
	case "api":
		handleAPI(ctx, job, res)
	case "print":
		handlePrint(ctx, job, res)
	default:
		res.Stages = append(res.Stages, Stage{Name: "job", Status: "err", Msg: "unknown job kind " + job.Kind})
	}
	return res
}

func handleJ5s(ctx context.Context, job *Job, res *Result) {
	var files []protoreflect.FileDescriptor
	if !res.try("compile", func() error {
		var err error
		files, err = compile.Compile(ctx, job.Files, job.Pkg)
		return err
	}) {
		return
	}
	printed := map[string]string{}
	if !res.try("print", func() error {
		for _, f := range files {
			if !strings.HasSuffix(f.Path(), ".j5s.proto") {
				continue
			}
			txt, err := tool.PrintFile(ctx, f, "Generated by j5build verif. DO NOT EDIT")
			if err != nil {
				return err
			}
			printed[f.Path()] = txt
		}
		return nil
	}) {
		return
	}
	// hand-written .proto files of the bundle are part of the directory the image is read from
	for name, content := range job.Files {
		if strings.HasSuffix(name, ".proto") {
			printed[name] = content
		}
	}
	for _, m := range job.Mutate {
		re, err := regexp.Compile(m.Re)
		if err != nil {
			res.Stages = append(res.Stages, Stage{Name: "mutate", Status: "err", Msg: err.Error()})
			return
		}
		for name, txt := range printed {
			if strings.HasSuffix(name, m.File) {
				printed[name] = re.ReplaceAllString(txt, m.With)
			}
		}
	}
	if job.WantPrinted {
		res.Printed = printed
	}
	var img *source_j5pb.SourceImage
	if !res.try("image", func() error {
		var err error
		img, err = tool.ReadFSImage(ctx, printed, []string{job.Pkg})
		return err
	}) {
		return
	}
	chainFromImage(res, img, job.Pkg)
}

func chainFromImage(res *Result, img *source_j5pb.SourceImage, pkg string) {
	im := &Img{Pkg: pkg}
	if !res.try("abstract-services", func() error { return abstractServices(img, pkg, im) }) {
		return
	}
	res.Img = im
	var api *source_j5pb.API
	if !res.try("source", func() error {
		var err error
		api, err = tool.APIFromImage(img)
		return err
	}) {
		return
	}
	abstractSourceAPI(api, im, res)
	clientFromSource(res, api)
}

func clientFromSource(res *Result, api *source_j5pb.API) {
	var capi *client_j5pb.API
	if !res.try("client", func() error {
		var err error
		capi, err = tool.APIFromSource(api)
		return err
	}) {
		return
	}
	observeClient(capi, res)
	res.try("json", func() error {
		bb, err := j5codec.NewCodec().ProtoToJSON(capi.ProtoReflect())
		if err != nil {
			return err
		}
		if !json.Valid(bb) {
			return fmt.Errorf("J5 JSON rendering of the client API is not valid JSON")
		}
		return nil
	})
	var doc any
	if !res.try("swagger", func() error {
		var err error
		doc, err = tool.BuildSwagger(capi)
		return err
	}) {
		return
	}
	res.try("marshal", func() error {
		bb, err := tool.MarshalSwagger(doc)
		if err != nil {
			return err
		}
		if !json.Valid(bb) {
			return fmt.Errorf("OpenAPI document is not valid JSON")
		}
		res.Swagger = swaggerOps(bb)
		res.DanglingRefs = danglingRefs(bb)
		return nil
	})
}

// danglingRefs lists the "$ref" values of the marshalled OpenAPI document that do not name an entry of
// components.schemas ("#/components/schemas/<key>" / "#/definitions/<key>").
func danglingRefs(doc []byte) []string {
	var top map[string]any
	if err := json.Unmarshal(doc, &top); err != nil {
		return nil
	}
	schemas := map[string]bool{}
	if comps, ok := top["components"].(map[string]any); ok {
		if ss, ok := comps["schemas"].(map[string]any); ok {
			for k := range ss {
				schemas["#/components/schemas/"+k] = true
			}
		}
	}
	if defs, ok := top["definitions"].(map[string]any); ok {
		for k := range defs {
			schemas["#/definitions/"+k] = true
		}
	}
	seen := map[string]bool{}
	var out []string
	var walk func(v any)
	walk = func(v any) {
		switch t := v.(type) {
		case map[string]any:
			for k, x := range t {
				if s, ok := x.(string); ok && k == "$ref" {
					if !schemas[s] && !seen[s] {
						seen[s] = true
						out = append(out, s)
					}
					continue
				}
				walk(x)
			}
		case []any:
			for _, x := range t {
				walk(x)
			}
		}
	}
	walk(top)
	sort.Strings(out)
	return out
}

// swaggerOps reads the operations back from the marshalled document.
func swaggerOps(doc []byte) []SwaggerOp {
	var top struct {
		Paths map[string]map[string]struct {
			OperationID string `json:"operationId"`
			Parameters  []struct {
				Name string `json:"name"`
				In   string `json:"in"`
			} `json:"parameters"`
			RequestBody *struct {
				Content map[string]struct {
					Schema struct {
						Properties map[string]json.RawMessage `json:"properties"`
					} `json:"schema"`
				} `json:"content"`
			} `json:"requestBody"`
		} `json:"paths"`
	}
	if err := json.Unmarshal(doc, &top); err != nil {
		return nil
	}
	var out []SwaggerOp
	for p, ops := range top.Paths {
		for method, op := range ops {
			so := SwaggerOp{Path: p, Method: method, OpID: op.OperationID}
			for _, prm := range op.Parameters {
				switch prm.In {
				case "path":
					so.PathP = append(so.PathP, prm.Name)
				case "query":
					so.Query = append(so.Query, prm.Name)
				}
			}
			if op.RequestBody != nil {
				so.HasBody = true
				for name := range op.RequestBody.Content["application/json"].Schema.Properties {
					so.Body = append(so.Body, name)
				}
				sort.Strings(so.Body)
			}
			out = append(out, so)
		}
	}
	sort.Slice(out, func(i, j int) bool { return out[i].OpID < out[j].OpID })
	return out
}

var verbArm = map[string]int{"get": 1, "post": 2, "put": 3, "delete": 4, "patch": 5}

func abstractServices(img *source_j5pb.SourceImage, pkg string, im *Img) error {
	files, err := protodesc.NewFiles(&descriptorpb.FileDescriptorSet{File: img.File})
	if err != nil {
		return err
	}
	var fds []protoreflect.FileDescriptor
	files.RangeFiles(func(fd protoreflect.FileDescriptor) bool {
		fds = append(fds, fd)
		return true
	})
	sort.Slice(fds, func(i, j int) bool { return fds[i].Path() < fds[j].Path() })
	for _, fd := range fds {
		fp := string(fd.Package())
		if !strings.HasPrefix(fp, pkg+".") {
			continue
		}
		sub := strings.TrimPrefix(fp, pkg+".")
		if strings.Contains(sub, ".") {
			continue
		}
		svcs := fd.Services()
		for i := 0; i < svcs.Len(); i++ {
			sv := svcs.Get(i)
			sd := SvcDesc{Sub: sub, Name: string(sv.Name())}
			ms := sv.Methods()
			for k := 0; k < ms.Len(); k++ {
				sd.Methods = append(sd.Methods, abstractMethod(ms.Get(k)))
			}
			im.Services = append(im.Services, sd)
		}
	}
	return nil
}

func abstractMethod(m protoreflect.MethodDescriptor) MethDesc {
	in, out := m.Input(), m.Output()
	md := MethDesc{
		Name:      string(m.Name()),
		InSamePkg: in.ParentFile().Package() == m.ParentFile().Package(),
		InName:    string(in.Name()),
		OutName:   string(out.Name()),
		OutFull:   string(out.FullName()),
	}
	fs := in.Fields()
	for i := 0; i < fs.Len(); i++ {
		md.InFields = append(md.InFields, FieldNames{Proto: string(fs.Get(i).Name()), JSON: fs.Get(i).JSONName()})
	}
	if rule, _ := proto.GetExtension(m.Options(), annotations.E_Http).(*annotations.HttpRule); rule != nil {
		md.HasHTTP = true
		switch pt := rule.Pattern.(type) {
		case *annotations.HttpRule_Get:
			md.Arm, md.Path = 1, pt.Get
		case *annotations.HttpRule_Post:
			md.Arm, md.Path = 2, pt.Post
		case *annotations.HttpRule_Put:
			md.Arm, md.Path = 3, pt.Put
		case *annotations.HttpRule_Delete:
			md.Arm, md.Path = 4, pt.Delete
		case *annotations.HttpRule_Patch:
			md.Arm, md.Path = 5, pt.Patch
		default:
			md.Arm = 0
		}
	}
	return md
}

func fieldAlt(f *schema_j5pb.Field) FTy {
	if f == nil {
		return FTy{Alt: "nil"}
	}
	refl := f.ProtoReflect()
	od := refl.Descriptor().Oneofs().ByName("type")
	which := refl.WhichOneof(od)
	if which == nil {
		return FTy{Alt: "unset"}
	}
	alt := string(which.Name())
	switch t := f.Type.(type) {
	case *schema_j5pb.Field_Object:
		if r := t.Object.GetRef(); r != nil {
			if t.Object.Flatten {
				// a flattened object reference: the client merges the referenced object's properties (model: TRef "flatten")
				return FTy{Alt: "flatten", Pkg: r.Package, Name: r.Schema}
			}
			return FTy{Alt: alt, Pkg: r.Package, Name: r.Schema}
		}
		return FTy{Alt: "inline-object"}
	case *schema_j5pb.Field_Oneof:
		if r := t.Oneof.GetRef(); r != nil {
			return FTy{Alt: alt, Pkg: r.Package, Name: r.Schema}
		}
		return FTy{Alt: "inline-oneof"}
	case *schema_j5pb.Field_Enum:
		if r := t.Enum.GetRef(); r != nil {
			return FTy{Alt: alt, Pkg: r.Package, Name: r.Schema}
		}
		return FTy{Alt: "inline-enum"}
	case *schema_j5pb.Field_Array:
		it := fieldAlt(t.Array.Items)
		return FTy{Alt: alt, Item: &it}
	case *schema_j5pb.Field_Map:
		it := fieldAlt(t.Map.ItemSchema)
		return FTy{Alt: alt, Item: &it}
	}
	return FTy{Alt: alt}
}

func propsOf(ps []*schema_j5pb.ObjectProperty) []Prop {
	out := make([]Prop, 0, len(ps))
	for _, p := range ps {
		out = append(out, Prop{JSON: p.Name, Ty: fieldAlt(p.Schema)})
	}
	return out
}

func abstractSchemas(pkg string, schemas map[string]*schema_j5pb.RootSchema, im *Img, isRoot bool) {
	names := make([]string, 0, len(schemas))
	for k := range schemas {
		names = append(names, k)
	}
	sort.Strings(names)
	for _, name := range names {
		s := Schema{Pkg: pkg, Name: name}
		switch t := schemas[name].Type.(type) {
		case *schema_j5pb.RootSchema_Object:
			s.Kind, s.Props = "object", propsOf(t.Object.Properties)
			if e := t.Object.Entity; e != nil && isRoot {
				// the grouping into entities and the walk roots are the model's (model/PipelineEntity.v)
				im.Anns = append(im.Anns, EntAnn{Pkg: pkg, Name: name, Entity: e.Entity, Part: int(e.Part)})
			}
		case *schema_j5pb.RootSchema_Oneof:
			s.Kind, s.Props = "oneof", propsOf(t.Oneof.Properties)
		case *schema_j5pb.RootSchema_Enum:
			s.Kind = "enum"
		}
		im.Schemas = append(im.Schemas, s)
	}
}

// listRuleOf: the constraint messages on a property's field that buildListRequest looks at.
func listRuleOf(f *schema_j5pb.Field, enums map[[2]string]*schema_j5pb.Enum) (ListRule, bool) {
	var r ListRule
	switch t := f.GetType().(type) {
	case *schema_j5pb.Field_Enum:
		if lr := t.Enum.ListRules; lr != nil && lr.Filtering != nil {
			r.Filter = true
			r.Defaults = append([]string{}, lr.Filtering.DefaultFilters...)
			if ref := t.Enum.GetRef(); ref != nil {
				if e := enums[[2]string{ref.Package, ref.Schema}]; e != nil {
					r.Prefix = e.Prefix
					for _, o := range e.Options {
						r.Options = append(r.Options, o.Name)
					}
				}
			}
		}
	case *schema_j5pb.Field_Bool:
		if lr := t.Bool.ListRules; lr != nil {
			r.Filter = lr.Filtering != nil
		}
	case *schema_j5pb.Field_Float:
		if lr := t.Float.ListRules; lr != nil {
			r.Filter, r.Sort = lr.Filtering != nil, lr.Sorting != nil
		}
	case *schema_j5pb.Field_Integer:
		if lr := t.Integer.ListRules; lr != nil {
			r.Filter, r.Sort = lr.Filtering != nil, lr.Sorting != nil
		}
	case *schema_j5pb.Field_Key:
		if lr := t.Key.ListRules; lr != nil {
			r.Filter = lr.Filtering != nil
		}
	case *schema_j5pb.Field_Timestamp:
		if lr := t.Timestamp.ListRules; lr != nil {
			r.Filter, r.Sort = lr.Filtering != nil, lr.Sorting != nil
		}
	case *schema_j5pb.Field_String_:
		if lr := t.String_.ListRules; lr != nil {
			r.Search = lr.Searching != nil
		}
	case *schema_j5pb.Field_Date:
		// present in the schema, not read by buildListRequest; passed on so that the model decides
		if lr := t.Date.ListRules; lr != nil {
			r.Filter = lr.Filtering != nil
		}
	}
	return r, r.Filter || r.Sort || r.Search
}

func abstractRules(pkg string, schemas map[string]*schema_j5pb.RootSchema, enums map[[2]string]*schema_j5pb.Enum, im *Img) {
	names := make([]string, 0, len(schemas))
	for k := range schemas {
		names = append(names, k)
	}
	sort.Strings(names)
	for _, name := range names {
		var ps []*schema_j5pb.ObjectProperty
		switch t := schemas[name].Type.(type) {
		case *schema_j5pb.RootSchema_Object:
			ps = t.Object.Properties
		case *schema_j5pb.RootSchema_Oneof:
			ps = t.Oneof.Properties
		}
		for _, p := range ps {
			if r, ok := listRuleOf(p.Schema, enums); ok {
				r.Pkg, r.Name, r.JSON = pkg, name, p.Name
				im.Rules = append(im.Rules, r)
			}
		}
	}
}

func abstractSourceAPI(api *source_j5pb.API, im *Img, res *Result) {
	enums := map[[2]string]*schema_j5pb.Enum{}
	addEnums := func(pkg string, schemas map[string]*schema_j5pb.RootSchema) {
		for name, s := range schemas {
			if e := s.GetEnum(); e != nil {
				enums[[2]string{pkg, name}] = e
			}
		}
	}
	for _, p := range api.Packages {
		addEnums(p.Name, p.Schemas)
		for _, sp := range p.SubPackages {
			addEnums(p.Name+"."+sp.Name, sp.Schemas)
		}
	}
	for _, p := range api.Packages {
		abstractRules(p.Name, p.Schemas, enums, im)
		for _, sp := range p.SubPackages {
			abstractRules(p.Name+"."+sp.Name, sp.Schemas, enums, im)
		}
	}
	for _, p := range api.Packages {
		abstractSchemas(p.Name, p.Schemas, im, p.Name == im.Pkg)
		for _, sp := range p.SubPackages {
			abstractSchemas(p.Name+"."+sp.Name, sp.Schemas, im, false)
			for _, sv := range sp.Services {
				so := SrcSvcObs{Name: sv.Name}
				for _, m := range sv.Methods {
					so.Methods = append(so.Methods, SrcMethodObs{Name: m.Name, Verb: int(m.HttpMethod), Path: m.HttpPath, Req: m.RequestSchema, Resp: m.ResponseSchema})
				}
				res.Src = append(res.Src, so)
			}
			for _, tp := range sp.Topics {
				res.Topics = append(res.Topics, tp.Name)
			}
		}
	}
	sort.Slice(res.Src, func(i, j int) bool { return res.Src[i].Name < res.Src[j].Name })
	sort.Strings(res.Topics)
}

func propNames(ps []*schema_j5pb.ObjectProperty) []string {
	out := make([]string, 0, len(ps))
	for _, p := range ps {
		out = append(out, p.Name)
	}
	return out
}

func observeClient(capi *client_j5pb.API, res *Result) {
	addSvc := func(sv *client_j5pb.Service) {
		if sv == nil {
			return
		}
		for _, m := range sv.Methods {
			mo := MethodObs{Service: sv.Name, Name: m.Name, Verb: int(m.HttpMethod), Path: m.HttpPath}
			if rq := m.Request; rq != nil {
				mo.PathP = propNames(rq.PathParameters)
				mo.Query = propNames(rq.QueryParameters)
				if rq.Body != nil {
					mo.HasBody = true
					mo.Body = propNames(rq.Body.Properties)
				}
				if rq.List != nil {
					mo.HasList = true
					for _, f := range rq.List.FilterableFields {
						mo.Filter = append(mo.Filter, f.Name)
					}
					for _, f := range rq.List.SortableFields {
						mo.Sort = append(mo.Sort, f.Name)
					}
					for _, f := range rq.List.SearchableFields {
						mo.Search = append(mo.Search, f.Name)
					}
				}
			}
			mo.HasResp = m.ResponseBody != nil
			res.Methods = append(res.Methods, mo)
		}
	}
	for _, p := range capi.Packages {
		res.ClientPkgs = append(res.ClientPkgs, p.Name)
		for _, sv := range p.Services {
			addSvc(sv)
		}
		for _, e := range p.StateEntities {
			res.Entities = append(res.Entities, e.Name)
			eo := EntObs{Name: e.Name, Schema: e.SchemaName}
			for _, ev := range e.Events {
				eo.Events = append(eo.Events, ev.Name)
			}
			res.EntObs = append(res.EntObs, eo)
			if e.QueryService != nil && e.QueryService.Name != "" {
				addSvc(e.QueryService)
			}
			for _, c := range e.CommandServices {
				addSvc(c)
			}
		}
		for key := range p.Schemas {
			pk, name := p.Name, key
			if i := strings.LastIndex(key, "."); i >= 0 {
				pk, name = p.Name+"."+key[:i], key[i+1:]
			}
			res.Schemas = append(res.Schemas, [2]string{pk, name})
		}
	}
	sort.Slice(res.Schemas, func(i, j int) bool {
		if res.Schemas[i][0] != res.Schemas[j][0] {
			return res.Schemas[i][0] < res.Schemas[j][0]
		}
		return res.Schemas[i][1] < res.Schemas[j][1]
	})
}

// ---------------------------------------------------------------- hand-built descriptors (classify / method)

func depFiles(paths ...string) []*descriptorpb.FileDescriptorProto {
	return globalDeps(paths)
}

func handleDesc(ctx context.Context, job *Job, res *Result) {
	const pkg = "p.v1"
	fd := &descriptorpb.FileDescriptorProto{
		Name:    proto.String("p/v1/service/x.proto"),
		Package: proto.String(pkg + ".service"),
		Syntax:  proto.String("proto3"),
	}
	var deps []*descriptorpb.FileDescriptorProto
	if job.Kind == "classify" {
		fd.Service = []*descriptorpb.ServiceDescriptorProto{{Name: proto.String(job.SvcName)}}
	} else {
		m := job.Meth
		deps = depFiles("google/api/annotations.proto", "google/api/httpbody.proto")
		fd.Dependency = []string{"google/api/annotations.proto", "google/api/httpbody.proto"}
		in := &descriptorpb.DescriptorProto{Name: proto.String(m.InName)}
		for i, f := range m.InFields {
			in.Field = append(in.Field, &descriptorpb.FieldDescriptorProto{
				Name: proto.String(f.Proto), JsonName: proto.String(f.JSON), Number: proto.Int32(int32(i + 1)),
				Type: descriptorpb.FieldDescriptorProto_TYPE_STRING.Enum(), Label: descriptorpb.FieldDescriptorProto_LABEL_OPTIONAL.Enum(),
			})
		}
		inType := "." + pkg + ".service." + m.InName
		if !m.InSamePkg {
			other := &descriptorpb.FileDescriptorProto{
				Name: proto.String("p/v1/other.proto"), Package: proto.String(pkg), Syntax: proto.String("proto3"),
				MessageType: []*descriptorpb.DescriptorProto{in},
			}
			deps = append(deps, other)
			fd.Dependency = append(fd.Dependency, "p/v1/other.proto")
			inType = "." + pkg + "." + m.InName
		} else {
			fd.MessageType = append(fd.MessageType, in)
		}
		outType := "." + m.OutFull
		if m.OutFull != "google.api.HttpBody" {
			if m.OutName != m.InName || !m.InSamePkg {
				fd.MessageType = append(fd.MessageType, &descriptorpb.DescriptorProto{Name: proto.String(m.OutName)})
			}
			outType = "." + pkg + ".service." + m.OutName
		}
		md := &descriptorpb.MethodDescriptorProto{Name: proto.String(m.Name), InputType: proto.String(inType), OutputType: proto.String(outType), Options: &descriptorpb.MethodOptions{}}
		if m.HasHTTP {
			rule := &annotations.HttpRule{}
			switch m.Arm {
			case 1:
				rule.Pattern = &annotations.HttpRule_Get{Get: m.Path}
			case 2:
				rule.Pattern = &annotations.HttpRule_Post{Post: m.Path}
			case 3:
				rule.Pattern = &annotations.HttpRule_Put{Put: m.Path}
			case 4:
				rule.Pattern = &annotations.HttpRule_Delete{Delete: m.Path}
			case 5:
				rule.Pattern = &annotations.HttpRule_Patch{Patch: m.Path}
			default:
				rule.Pattern = &annotations.HttpRule_Custom{Custom: &annotations.CustomHttpPattern{Kind: "HEAD", Path: m.Path}}
			}
			proto.SetExtension(md.Options, annotations.E_Http, rule)
		}
		fd.Service = []*descriptorpb.ServiceDescriptorProto{{Name: proto.String("XService"), Method: []*descriptorpb.MethodDescriptorProto{md}}}
	}
	img := &source_j5pb.SourceImage{File: append(deps, fd), Packages: []*source_j5pb.PackageInfo{{Name: pkg}}}
	var api *source_j5pb.API
	if !res.try("source", func() error {
		var err error
		api, err = tool.APIFromImage(img)
		return err
	}) {
		return
	}
	abstractSourceAPI(api, &Img{Pkg: pkg}, res)
}

// ---------------------------------------------------------------- hand-built source API (client stage)

type HandAPI struct {
	Pkg     string         `json:"pkg"`
	Schemas []Schema       `json:"schemas"` // Pkg is the full proto package (pkg or pkg.service)
	Bools   bool           `json:"bools"`   // bool properties carry a filtering list rule
	Methods []SrcMethodObs `json:"methods"`
}

func toField(t FTy, bools bool) *schema_j5pb.Field {
	ref := &schema_j5pb.Ref{Package: t.Pkg, Schema: t.Name}
	switch t.Alt {
	case "object":
		return &schema_j5pb.Field{Type: &schema_j5pb.Field_Object{Object: &schema_j5pb.ObjectField{Schema: &schema_j5pb.ObjectField_Ref{Ref: ref}}}}
	case "oneof":
		return &schema_j5pb.Field{Type: &schema_j5pb.Field_Oneof{Oneof: &schema_j5pb.OneofField{Schema: &schema_j5pb.OneofField_Ref{Ref: ref}}}}
	case "enum":
		return &schema_j5pb.Field{Type: &schema_j5pb.Field_Enum{Enum: &schema_j5pb.EnumField{Schema: &schema_j5pb.EnumField_Ref{Ref: ref}}}}
	case "array":
		return &schema_j5pb.Field{Type: &schema_j5pb.Field_Array{Array: &schema_j5pb.ArrayField{Items: toField(*t.Item, bools)}}}
	case "map":
		return &schema_j5pb.Field{Type: &schema_j5pb.Field_Map{Map: &schema_j5pb.MapField{ItemSchema: toField(*t.Item, bools), KeySchema: &schema_j5pb.Field{Type: &schema_j5pb.Field_String_{String_: &schema_j5pb.StringField{}}}}}}
	case "bool":
		f := &schema_j5pb.BoolField{}
		if bools {
			setBoolFilter(f)
		}
		return &schema_j5pb.Field{Type: &schema_j5pb.Field_Bool{Bool: f}}
	case "key":
		return &schema_j5pb.Field{Type: &schema_j5pb.Field_Key{Key: &schema_j5pb.KeyField{}}}
	case "bytes":
		return &schema_j5pb.Field{Type: &schema_j5pb.Field_Bytes{Bytes: &schema_j5pb.BytesField{}}}
	case "date":
		return &schema_j5pb.Field{Type: &schema_j5pb.Field_Date{Date: &schema_j5pb.DateField{}}}
	case "decimal":
		return &schema_j5pb.Field{Type: &schema_j5pb.Field_Decimal{Decimal: &schema_j5pb.DecimalField{}}}
	case "timestamp":
		return &schema_j5pb.Field{Type: &schema_j5pb.Field_Timestamp{Timestamp: &schema_j5pb.TimestampField{}}}
	case "integer":
		return &schema_j5pb.Field{Type: &schema_j5pb.Field_Integer{Integer: &schema_j5pb.IntegerField{Format: schema_j5pb.IntegerField_FORMAT_INT32}}}
	case "float":
		return &schema_j5pb.Field{Type: &schema_j5pb.Field_Float{Float: &schema_j5pb.FloatField{Format: schema_j5pb.FloatField_FORMAT_FLOAT64}}}
	case "any":
		return &schema_j5pb.Field{Type: &schema_j5pb.Field_Any{Any: &schema_j5pb.AnyField{}}}
	}
	return &schema_j5pb.Field{Type: &schema_j5pb.Field_String_{String_: &schema_j5pb.StringField{}}}
}

func handleAPI(ctx context.Context, job *Job, res *Result) {
	h := job.API
	root := &source_j5pb.Package{Name: h.Pkg, Schemas: map[string]*schema_j5pb.RootSchema{}}
	subs := map[string]*source_j5pb.SubPackage{}
	other := map[string]*source_j5pb.Package{}
	var others []*source_j5pb.Package
	for _, s := range h.Schemas {
		var rs *schema_j5pb.RootSchema
		props := make([]*schema_j5pb.ObjectProperty, 0, len(s.Props))
		for i, p := range s.Props {
			props = append(props, &schema_j5pb.ObjectProperty{Name: p.JSON, Schema: toField(p.Ty, h.Bools), ProtoField: []int32{int32(i + 1)}})
		}
		switch s.Kind {
		case "object":
			rs = &schema_j5pb.RootSchema{Type: &schema_j5pb.RootSchema_Object{Object: &schema_j5pb.Object{Name: s.Name, Properties: props}}}
		case "oneof":
			rs = &schema_j5pb.RootSchema{Type: &schema_j5pb.RootSchema_Oneof{Oneof: &schema_j5pb.Oneof{Name: s.Name, Properties: props}}}
		default:
			rs = &schema_j5pb.RootSchema{Type: &schema_j5pb.RootSchema_Enum{Enum: &schema_j5pb.Enum{Name: s.Name, Prefix: "X_", Options: []*schema_j5pb.Enum_Option{{Name: "UNSPECIFIED"}, {Name: "A", Number: 1}}}}}
		}
		switch {
		case s.Pkg == h.Pkg:
			root.Schemas[s.Name] = rs
		case strings.HasPrefix(s.Pkg, h.Pkg+"."):
			sub := strings.TrimPrefix(s.Pkg, h.Pkg+".")
			if subs[sub] == nil {
				subs[sub] = &source_j5pb.SubPackage{Name: sub, Schemas: map[string]*schema_j5pb.RootSchema{}}
				root.SubPackages = append(root.SubPackages, subs[sub])
			}
			subs[sub].Schemas[s.Name] = rs
		default:
			if other[s.Pkg] == nil {
				other[s.Pkg] = &source_j5pb.Package{Name: s.Pkg, Indirect: true, Schemas: map[string]*schema_j5pb.RootSchema{}}
				others = append(others, other[s.Pkg])
			}
			other[s.Pkg].Schemas[s.Name] = rs
		}
	}
	if subs["service"] == nil {
		subs["service"] = &source_j5pb.SubPackage{Name: "service", Schemas: map[string]*schema_j5pb.RootSchema{}}
		root.SubPackages = append(root.SubPackages, subs["service"])
	}
	svc := &source_j5pb.Service{Name: "XService"}
	for _, m := range h.Methods {
		svc.Methods = append(svc.Methods, &source_j5pb.Method{Name: m.Name, HttpMethod: client_j5pb.HTTPMethod(m.Verb), HttpPath: m.Path, RequestSchema: m.Req, ResponseSchema: m.Resp,
			FullGrpcName: "/" + h.Pkg + ".service.XService/" + m.Name})
	}
	subs["service"].Services = []*source_j5pb.Service{svc}
	api := &source_j5pb.API{Packages: append([]*source_j5pb.Package{root}, others...)}
	res.Stages = append(res.Stages, Stage{Name: "source", Status: "ok"})
	clientFromSource(res, api)
}

// ---------------------------------------------------------------- worker mode and pool

func workerMain() {
	debug.SetMaxStack(48 << 20)
	in := bufio.NewReaderSize(os.Stdin, 1<<20)
	out := bufio.NewWriter(os.Stdout)
	for {
		line, err := in.ReadBytes('\n')
		if len(line) > 0 {
			var job Job
			if jerr := json.Unmarshal(line, &job); jerr != nil {
				fmt.Fprintf(os.Stderr, "worker: bad job: %v\n", jerr)
				os.Exit(4)
			}
			res := handle(&job, func(stage string) {
				out.WriteString("#stage " + stage + "\n")
				out.Flush()
			})
			bb, _ := json.Marshal(res)
			out.Write(bb)
			out.WriteByte('\n')
			out.Flush()
		}
		if err != nil {
			return
		}
	}
}

type worker struct {
	cmd    *exec.Cmd
	in     io.WriteCloser
	out    *bufio.Reader
	stderr *bytes.Buffer
}

func startWorker() (*worker, error) {
	cmd := exec.Command(os.Args[0], "worker")
	in, err := cmd.StdinPipe()
	if err != nil {
		return nil, err
	}
	outp, err := cmd.StdoutPipe()
	if err != nil {
		return nil, err
	}
	w := &worker{cmd: cmd, in: in, out: bufio.NewReaderSize(outp, 1<<20), stderr: &bytes.Buffer{}}
	cmd.Stderr = w.stderr
	if err := cmd.Start(); err != nil {
		return nil, err
	}
	return w, nil
}

func (w *worker) stop() {
	w.in.Close()
	done := make(chan struct{})
	go func() { w.cmd.Wait(); close(done) }()
	select {
	case <-done:
	case <-time.After(2 * time.Second):
		w.cmd.Process.Kill()
		<-done
	}
}

var fatalClass = regexp.MustCompile(`(?m)^(fatal error: [^\n]*|runtime: goroutine stack exceeds[^\n]*|panic: [^\n]*)`)

// runIsolated runs the jobs on n worker subprocesses; results are indexed like jobs.
func runIsolated(jobs []*Job, n int) []*Result {
	results := make([]*Result, len(jobs))
	idx := make(chan int)
	var wg sync.WaitGroup
	for k := 0; k < n; k++ {
		wg.Add(1)
		go func() {
			defer wg.Done()
			var w *worker
			defer func() {
				if w != nil {
					w.stop()
				}
			}()
			for i := range idx {
				job := jobs[i]
				if w == nil {
					var err error
					if w, err = startWorker(); err != nil {
						results[i] = &Result{ID: job.ID, Stages: []Stage{{Name: "worker", Status: "err", Msg: err.Error()}}}
						w = nil
						continue
					}
				}
				bb, _ := json.Marshal(job)
				type rd struct {
					line []byte
					err  error
				}
				ch := make(chan rd, 1)
				ww := w
				lastStage := ""
				go func() {
					if _, err := ww.in.Write(append(bb, '\n')); err != nil {
						ch <- rd{nil, err}
						return
					}
					for {
						line, err := ww.out.ReadBytes('\n')
						if err == nil && bytes.HasPrefix(line, []byte("#stage ")) {
							lastStage = strings.TrimSpace(string(line[7:]))
							continue
						}
						ch <- rd{line, err}
						return
					}
				}()
				var got rd
				timedOut := false
				select {
				case got = <-ch:
				case <-time.After(60 * time.Second):
					timedOut = true
					w.cmd.Process.Kill()
					got = <-ch
				}
				var r Result
				if got.err == nil && json.Unmarshal(got.line, &r) == nil {
					results[i] = &r
					continue
				}
				// the worker died while handling this job
				w.cmd.Wait()
				class := "worker died"
				if timedOut {
					class = "timeout after 60s"
				} else if m := fatalClass.FindString(w.stderr.String()); m != "" {
					class = m
				}
				w = nil
				fatal := Stage{Name: lastStage, Status: "fatal", Msg: trim(class, 200)}
				if lastStage == "" {
					fatal.Name = "process"
				}
				// recover what the job produced before the stage that killed the worker
				partial := &Result{ID: job.ID}
				if lastStage != "" && job.StopBefore == "" {
					j2 := *job
					j2.StopBefore = lastStage
					if pr := runIsolated([]*Job{&j2}, 1)[0]; pr != nil && pr.status("process") == "none" {
						partial = pr
					}
				}
				partial.Stages = append(partial.Stages, fatal)
				results[i] = partial
			}
		}()
	}
	for i := range jobs {
		idx <- i
	}
	close(idx)
	wg.Wait()
	return results
}

package main

import (
	"context"
	"fmt"
	"os"
	"strings"

	"github.com/pentops/j5/gen/j5/list/v1/list_j5pb"
	"github.com/pentops/j5/gen/j5/schema/v1/schema_j5pb"
	"google.golang.org/protobuf/reflect/protodesc"
	"google.golang.org/protobuf/reflect/protoreflect"
	"google.golang.org/protobuf/reflect/protoregistry"
	"google.golang.org/protobuf/types/descriptorpb"
	"verifharness/vh"
)

func setBoolFilter(f *schema_j5pb.BoolField) {
	f.ListRules = &list_j5pb.BoolRules{Filtering: &list_j5pb.FilteringConstraint{Filterable: true}}
}

// globalDeps returns the named registered files with their transitive imports, dependencies first.
func globalDeps(paths []string) []*descriptorpb.FileDescriptorProto {
	seen := map[string]bool{}
	var out []*descriptorpb.FileDescriptorProto
	var visit func(fd protoreflect.FileDescriptor)
	visit = func(fd protoreflect.FileDescriptor) {
		if seen[fd.Path()] {
			return
		}
		seen[fd.Path()] = true
		imps := fd.Imports()
		for i := 0; i < imps.Len(); i++ {
			visit(imps.Get(i).FileDescriptor)
		}
		out = append(out, protodesc.ToFileDescriptorProto(fd))
	}
	for _, p := range paths {
		fd, err := protoregistry.GlobalFiles.FindFileByPath(p)
		if err != nil {
			panic(fmt.Sprintf("registered file %s: %v", p, err))
		}
		visit(fd)
	}
	return out
}

func handlePrint(ctx context.Context, job *Job, res *Result) {
	res.Stages = append(res.Stages, Stage{Name: "print", Status: "err", Msg: "not used"})
}

// ---------------------------------------------------------------- Coq term emitters

func coqStr(s string) string { return vh.BytesTerm(s) }

func coqStrs(xs []string) string {
	q := make([]string, len(xs))
	for i, x := range xs {
		q[i] = coqStr(x)
	}
	return "[" + strings.Join(q, ";") + "]"
}

func coqKey(pkg, name string) string { return "(" + coqStr(pkg) + "," + coqStr(name) + ")" }

func coqFTy(t FTy) string {
	switch t.Alt {
	case "object", "oneof", "enum", "flatten":
		return fmt.Sprintf("(TRef %s %s)", vh.CoqString(t.Alt), coqKey(t.Pkg, t.Name))
	case "array":
		return "(TArray " + coqFTy(*t.Item) + ")"
	case "map":
		return "(TMap " + coqFTy(*t.Item) + ")"
	}
	return "(TScalar " + vh.CoqString(t.Alt) + ")"
}

func coqProps(ps []Prop) string {
	q := make([]string, len(ps))
	for i, p := range ps {
		q[i] = fmt.Sprintf("{| p_json := %s; p_ty := %s |}", coqStr(p.JSON), coqFTy(p.Ty))
	}
	return "[" + strings.Join(q, ";") + "]"
}

func coqSchema(s Schema) string {
	var body string
	switch s.Kind {
	case "object":
		body = "SObject " + coqProps(s.Props)
	case "oneof":
		body = "SOneof " + coqProps(s.Props)
	default:
		body = "SEnum"
	}
	return "(" + coqKey(s.Pkg, s.Name) + ", " + body + ")"
}

func coqMeth(m MethDesc) string {
	fs := make([]string, len(m.InFields))
	for i, f := range m.InFields {
		fs[i] = fmt.Sprintf("{| f_proto := %s; f_json := %s |}", coqStr(f.Proto), coqStr(f.JSON))
	}
	http := "None"
	if m.HasHTTP {
		http = fmt.Sprintf("(Some (%d, %s))", m.Arm, coqStr(m.Path))
	}
	return fmt.Sprintf("{| md_name := %s; md_in_same_pkg := %s; md_in_name := %s; md_out_name := %s; md_out_full := %s; md_http := %s; md_in_fields := [%s] |}",
		coqStr(m.Name), vh.BoolTerm(m.InSamePkg), coqStr(m.InName), coqStr(m.OutName), coqStr(m.OutFull), http, strings.Join(fs, ";"))
}

func coqAnns(im *Img) string {
	q := make([]string, len(im.Anns))
	for i, a := range im.Anns {
		q[i] = fmt.Sprintf("(%s, (%s, %d))", coqKey(a.Pkg, a.Name), coqStr(a.Entity), a.Part)
	}
	return "[" + strings.Join(q, ";") + "]"
}

// coqRules: the list constraints of the source API's properties (model/PipelineList.v rules_table).
func coqRules(im *Img) string {
	q := make([]string, len(im.Rules))
	for i, r := range im.Rules {
		q[i] = fmt.Sprintf("(%s, %s, {| lr_filter := %s; lr_sort := %s; lr_search := %s; lr_defaults := %s; lr_prefix := %s; lr_options := %s |})",
			coqKey(r.Pkg, r.Name), coqStr(r.JSON), vh.BoolTerm(r.Filter), vh.BoolTerm(r.Sort), vh.BoolTerm(r.Search),
			coqStrs(r.Defaults), coqStr(r.Prefix), coqStrs(r.Options))
	}
	return "[" + strings.Join(q, ";\n    ") + "]"
}

// coqListObs: the list request of every client method that has one: filterable, sortable, searchable names.
func coqListObs(ms []MethodObs) string {
	var q []string
	for _, m := range ms {
		if m.HasList {
			q = append(q, fmt.Sprintf("(%s, %s, (%s, (%s, %s)))", coqStr(m.Service), coqStr(m.Name), coqStrs(m.Filter), coqStrs(m.Sort), coqStrs(m.Search)))
		}
	}
	return "[" + strings.Join(q, ";\n    ") + "]"
}

func coqEntObs(es []EntObs) string {
	q := make([]string, len(es))
	for i, e := range es {
		q[i] = fmt.Sprintf("(%s, %s, %s)", coqStr(e.Name), coqStr(e.Schema), coqStrs(e.Events))
	}
	return "[" + strings.Join(q, ";") + "]"
}

func coqImg(im *Img) string {
	svcs := make([]string, len(im.Services))
	for i, s := range im.Services {
		ms := make([]string, len(s.Methods))
		for k, m := range s.Methods {
			ms[k] = coqMeth(m)
		}
		svcs[i] = fmt.Sprintf("{| sd_sub := %s; sd_name := %s; sd_methods := [%s] |}", coqStr(s.Sub), coqStr(s.Name), strings.Join(ms, ";"))
	}
	schemas := make([]string, len(im.Schemas))
	for i, s := range im.Schemas {
		schemas[i] = coqSchema(s)
	}
	roots := make([]string, len(im.Roots))
	for i, r := range im.Roots {
		roots[i] = coqKey(r[0], r[1])
	}
	return fmt.Sprintf("{| im_pkg := %s; im_services := [%s]; im_schemas := [%s]; im_roots := [%s] |}",
		coqStr(im.Pkg), strings.Join(svcs, ";"), strings.Join(schemas, ";\n    "), strings.Join(roots, ";"))
}

func coqSrcObs(src []SrcSvcObs) string {
	q := make([]string, len(src))
	for i, s := range src {
		ms := make([]string, len(s.Methods))
		for k, m := range s.Methods {
			ms[k] = fmt.Sprintf("{| sm_name := %s; sm_verb := %d; sm_path := %s; sm_req := %s; sm_resp := %s |}", coqStr(m.Name), m.Verb, coqStr(m.Path), coqStr(m.Req), coqStr(m.Resp))
		}
		q[i] = "(" + coqStr(s.Name) + ", [" + strings.Join(ms, ";") + "])"
	}
	return "[" + strings.Join(q, ";") + "]"
}

func coqOptStrs(has bool, xs []string) string {
	if !has {
		return "None"
	}
	return "(Some " + coqStrs(xs) + ")"
}

func coqMethodObs(ms []MethodObs) string {
	q := make([]string, len(ms))
	for i, m := range ms {
		q[i] = fmt.Sprintf("{| o_svc := %s; o_name := %s; o_verb := %d; o_path := %s; o_pathp := %s; o_query := %s; o_body := %s; o_resp := %s; o_list := %s |}",
			coqStr(m.Service), coqStr(m.Name), m.Verb, coqStr(m.Path), coqStrs(m.PathP), coqStrs(m.Query), coqOptStrs(m.HasBody, m.Body), vh.BoolTerm(m.HasResp), coqOptStrs(m.HasList, m.Filter))
	}
	return "[" + strings.Join(q, ";\n    ") + "]"
}

func coqKeys(ks [][2]string) string {
	q := make([]string, len(ks))
	for i, k := range ks {
		q[i] = coqKey(k[0], k[1])
	}
	return "[" + strings.Join(q, ";") + "]"
}

// stageKind maps a stage status to the kind numbers of PipelineCorr.v (9 = not reached).
func stageKind(status string) int {
	switch status {
	case "ok":
		return 0
	case "err":
		return 1
	case "panic":
		return 2
	case "fatal":
		return 3
	}
	return 9
}

// ---------------------------------------------------------------- the declaration as a decl_package term

// coqDeclPackage renders what the generator wrote as j5s: services, methods (verb, full path split at '/',
// request and response property names) and publish topics. The property TYPES and the other schemas of the
// package (dp_schemas) are taken from the observed source API (the declaration model does not translate j5s
// types), so that the hypotheses of C16_full can be evaluated on the package (valid_package_b).
// extra reports declarations that add services of their own (entities, non-publish topics).
// declFTy translates the declared type of a property (j5s source) to the model's field type. ok = false for types
// declared in place (inline object / oneof / enum), whose schema gets a generated nested name.
func declFTy(pkg string, pr gProp) (FTy, bool) {
	var tr func(t gTy) (FTy, bool)
	tr = func(t gTy) (FTy, bool) {
		if t.Inline != nil {
			return FTy{}, false
		}
		switch t.Kind {
		case "object", "oneof", "enum":
			rp, name := pkg, t.Ref
			if k := strings.LastIndex(t.Ref, "."); k >= 0 {
				rp, name = t.Ref[:k], t.Ref[k+1:]
			}
			return FTy{Alt: t.Kind, Pkg: rp, Name: name}, true
		case "array", "map":
			if t.Item == nil {
				return FTy{}, false
			}
			it, ok := tr(*t.Item)
			if !ok {
				return FTy{}, false
			}
			if t.Item.Kind == "key" && (t.Item.Spec == "" || t.Item.Spec == "key") {
				// a key without format as array item / map value reads back as string: the array annotation replaces the
				// item's (j5.ext.v1.field).key, the map entry's value options are not printed (known: property=C04 lines
				// "array of key without format", "options on the value field of a map entry")
				it = FTy{Alt: "string"}
			}
			return FTy{Alt: t.Kind, Item: &it}, true
		}
		return FTy{Alt: t.Kind}, true
	}
	out, ok := tr(pr.Ty)
	if ok && pr.Flatten && out.Alt == "object" {
		out.Alt = "flatten"
	}
	return out, ok
}

// declSchema translates a declared top-level schema; ok = false when a property type does not translate.
func declSchema(pkg string, gs gSchema) (Schema, bool) {
	out := Schema{Pkg: pkg, Name: gs.Name, Kind: gs.Kind}
	if gs.Kind == "enum" {
		return out, true
	}
	for _, pr := range gs.Props {
		t, ok := declFTy(pkg, pr)
		if !ok {
			return Schema{}, false
		}
		out.Props = append(out.Props, Prop{JSON: pr.Name, Ty: t})
	}
	return out, true
}

func coqDeclPackage(p *gPackage, im *Img) (term string, extra bool) {
	byKey := map[[2]string]Schema{}
	for _, s := range im.Schemas {
		byKey[[2]string{s.Pkg, s.Name}] = s
	}
	method := map[[2]string]bool{}
	props := func(ps []gProp, key [2]string) string {
		method[key] = true
		obs := map[string]FTy{}
		for _, q := range byKey[key].Props {
			obs[q.JSON] = q.Ty
		}
		q := make([]string, len(ps))
		for i, pr := range ps {
			ty := "TScalar \"any\""
			if t, ok := declFTy(p.Pkg, pr); ok {
				// the type as the j5s source declares it (translated here, not read from the compiler's output)
				ty = coqFTy(t)
				if o, ok2 := obs[pr.Name]; ok2 && coqFTy(o) != ty && os.Getenv("VERIF_DEBUG_TYPES") != "" {
					fmt.Fprintf(os.Stderr, "TYPEDIFF %s.%s %s: declared %+v j5s=%s observed %s\n", key[0], key[1], pr.Name, t, pr.Ty.j5s(), coqFTy(o))
				}
			} else if t, ok := obs[pr.Name]; ok {
				// inline object / oneof / enum: the nested schema's generated name is taken from the observed source API
				ty = coqFTy(t)
			}
			q[i] = fmt.Sprintf("{| p_json := %s; p_ty := %s |}", coqStr(pr.Name), ty)
		}
		return "[" + strings.Join(q, ";") + "]"
	}
	svcs := make([]string, len(p.Services))
	for i, sv := range p.Services {
		ms := make([]string, len(sv.Methods))
		for k, m := range sv.Methods {
			resp := "None"
			if !m.NoResp {
				resp = "(Some " + props(m.Resp, [2]string{p.Pkg + ".service", m.Name + "Response"}) + ")"
			}
			ms[k] = fmt.Sprintf("{| df_name := %s; df_verb := %d; df_parts := %s; df_req := %s; df_resp := %s |}",
				coqStr(m.Name), verbArm[strings.ToLower(m.Verb)],
				// the full path is computed by the model of Go's path.Join (cmpa's model/J5sWalk.v path_join, tied to the
				// compiler by C02's streams) from the declared basePath and httpPath: sourcewalk/service.go resolvedPath
				fmt.Sprintf("(split_on SLASH (J5sWalk.path_join %s %s))", coqStr(sv.BasePath), coqStr(m.Path)),
				props(m.Req, [2]string{p.Pkg + ".service", m.Name + "Request"}), resp)
		}
		svcs[i] = fmt.Sprintf("(%s, [%s])", coqStr(sv.Name), strings.Join(ms, ";"))
	}
	var tops []string
	for _, tp := range p.Topics {
		if tp.Kind == "publish" || tp.Kind == "" {
			// the source-level declaration: the model derives the service name (ToCamel) and the name of an unnamed message
			tops = append(tops, fmt.Sprintf("{| st_name := %s; st_named := %s |}", coqStr(tp.Name), coqStrs(tp.Messages)))
		} else {
			extra = true
		}
	}
	if p.Entity != nil {
		extra = true
	}
	// the declared objects / oneofs / enums: built from the j5s declaration when all their property types translate
	// (declFTy), else (a property declared in place, schemas an entity or a topic expands to) copied from the observed API
	declared := map[string]gSchema{}
	for _, gs := range p.Schemas {
		declared[gs.Name] = gs
	}
	var others []string
	for _, s := range im.Schemas {
		if method[[2]string{s.Pkg, s.Name}] {
			continue
		}
		if gs, ok := declared[s.Name]; ok && s.Pkg == p.Pkg {
			if src, ok := declSchema(p.Pkg, gs); ok {
				others = append(others, coqSchema(src))
				continue
			}
		}
		others = append(others, coqSchema(s))
	}
	term = fmt.Sprintf("{| dp_pkg := %s; dp_services := [%s]; dp_topics := map (topic_of_source Strcase.to_camel) [%s]; dp_schemas := [%s] |}",
		coqStr(p.Pkg), strings.Join(svcs, ";"), strings.Join(tops, ";"), strings.Join(others, ";\n    "))
	return term, extra
}

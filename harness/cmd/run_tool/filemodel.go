package main

// File layer of C05: the descriptor as the printer walks it (model/ProtoPrintFile.v dfile), and the
// printed text tokenised by the real protocompile lexer, as Coq terms. No printing decision is taken
// here: elements are listed in the order printFile / printMessage add them, with the keys the real
// code sorts by; options come with their sort keys in a scrambled order.

import (
	"fmt"
	"sort"
	"strings"

	"github.com/bufbuild/protocompile/ast"
	"github.com/bufbuild/protocompile/parser"
	"github.com/bufbuild/protocompile/reporter"
	"github.com/pentops/j5/lib/verifshim/tool"
	"google.golang.org/protobuf/reflect/protodesc"
	"google.golang.org/protobuf/reflect/protoreflect"
	"google.golang.org/protobuf/reflect/protoregistry"
	"google.golang.org/protobuf/types/descriptorpb"
	"verifharness/vh"
)

// ---------------------------------------------------------------- the real lexer

type lexTok struct {
	Text      string
	Line, Col int // 0-based, as in SourceCodeInfo spans
}

func lexProto(name, text string) ([]lexTok, error) {
	fn, err := parser.Parse(name, strings.NewReader(text), reporter.NewHandler(nil))
	if err != nil {
		return nil, err
	}
	var out []lexTok
	seq := fn.Tokens()
	for tok, ok := seq.First(); ok; tok, ok = seq.Next(tok) {
		info := fn.TokenInfo(tok)
		raw := info.RawText()
		if raw == "" { // EOF
			continue
		}
		pos := info.Start()
		out = append(out, lexTok{Text: raw, Line: pos.Line - 1, Col: pos.Col - 1})
	}
	_ = ast.Token(0)
	return out, nil
}

// bt renders a byte string for the file and option cases: runs of printable ASCII and newlines as Coq string
// literals under ProtoPrintCorr.sb (one lexer token each; a list of N numerals of a printed file costs the Coq parser
// seconds), other bytes as a list of N.
func bt(s string) string {
	if s == "" {
		return "[]"
	}
	safe := func(c byte) bool { return c == '\n' || (c >= 32 && c < 127) }
	var segs []string
	b := []byte(s)
	for i := 0; i < len(b); {
		j := i
		for j < len(b) && safe(b[j]) == safe(b[i]) {
			j++
		}
		if safe(b[i]) {
			segs = append(segs, `(sb "`+strings.ReplaceAll(string(b[i:j]), `"`, `""`)+`")`)
		} else {
			segs = append(segs, vh.NList(b[i:j]))
		}
		i = j
	}
	out := segs[len(segs)-1]
	for k := len(segs) - 2; k >= 0; k-- {
		out = "(app " + segs[k] + " " + out + ")"
	}
	return out
}

func rtokTerm(t string) string {
	c := t[0]
	switch {
	case c == '_' || (c >= 'a' && c <= 'z') || (c >= 'A' && c <= 'Z'):
		return "RId " + bt(t)
	case c >= '0' && c <= '9', c == '.' && len(t) > 1:
		return "RNum " + bt(t)
	case c == '"' || c == '\'':
		return "RStr " + bt(t)
	}
	return fmt.Sprintf("RSym %d", c)
}

// declarations of a file that carry comments in the model
func declarations(fd protoreflect.FileDescriptor) []protoreflect.Descriptor {
	var out []protoreflect.Descriptor
	var msgs func(ms protoreflect.MessageDescriptors)
	enums := func(es protoreflect.EnumDescriptors) {
		for i := 0; i < es.Len(); i++ {
			out = append(out, es.Get(i))
			vs := es.Get(i).Values()
			for k := 0; k < vs.Len(); k++ {
				out = append(out, vs.Get(k))
			}
		}
	}
	msgs = func(ms protoreflect.MessageDescriptors) {
		for i := 0; i < ms.Len(); i++ {
			m := ms.Get(i)
			if m.IsMapEntry() {
				continue
			}
			out = append(out, m)
			for k := 0; k < m.Fields().Len(); k++ {
				out = append(out, m.Fields().Get(k))
			}
			for k := 0; k < m.Oneofs().Len(); k++ {
				if !m.Oneofs().Get(k).IsSynthetic() {
					out = append(out, m.Oneofs().Get(k))
				}
			}
			enums(m.Enums())
			msgs(m.Messages())
		}
	}
	msgs(fd.Messages())
	enums(fd.Enums())
	for i := 0; i < fd.Services().Len(); i++ {
		sv := fd.Services().Get(i)
		out = append(out, sv)
		for k := 0; k < sv.Methods().Len(); k++ {
			out = append(out, sv.Methods().Get(k))
		}
	}
	for i := 0; i < fd.Extensions().Len(); i++ {
		out = append(out, fd.Extensions().Get(i))
	}
	return out
}

// tokensTerm: the tokens of text, with the leading comments the descriptor parsed from that text
// attributes to its declarations inserted in front of the declaration's first token.
func tokensTerm(name, text string, parsed protoreflect.FileDescriptor) (string, int, error) {
	toks, err := lexProto(name, text)
	if err != nil {
		return "", 0, err
	}
	at := map[[2]int]int{}
	for i, t := range toks {
		at[[2]int{t.Line, t.Col}] = i
	}
	before := map[int][]string{}
	for _, d := range declarations(parsed) {
		loc := parsed.SourceLocations().ByDescriptor(d)
		if loc.LeadingComments == "" && len(loc.LeadingDetachedComments) == 0 {
			continue
		}
		idx, ok := at[[2]int{loc.StartLine, loc.StartColumn}]
		if !ok {
			return "", 0, fmt.Errorf("no token at the start of %s (%d:%d)", d.FullName(), loc.StartLine, loc.StartColumn)
		}
		for _, c := range loc.LeadingDetachedComments {
			before[idx] = append(before[idx], "RDet "+bt(c))
		}
		if loc.LeadingComments != "" {
			before[idx] = append(before[idx], "RLead "+bt(loc.LeadingComments))
		}
	}
	parts := make([]string, 0, len(toks))
	for i, t := range toks {
		parts = append(parts, before[i]...)
		parts = append(parts, rtokTerm(t.Text))
	}
	return "[" + strings.Join(parts, ";") + "]", len(toks), nil
}

// ---------------------------------------------------------------- descriptor -> dfile term

func qnameTerm(s string) string {
	if s == "" {
		return "[]"
	}
	parts := strings.Split(s, ".")
	q := make([]string, len(parts))
	for i, p := range parts {
		q[i] = bt(p)
	}
	return "[" + strings.Join(q, ";") + "]"
}

func pnTerm(s string) string {
	abs := "false"
	if strings.HasPrefix(s, ".") {
		abs = "true"
		s = s[1:]
	}
	return fmt.Sprintf("(Build_printed_name %s %s)", abs, qnameTerm(s))
}

type fileModel struct {
	unsupported string
	// options on the key / value fields of synthetic map entries (model/ProtoPrintFileX.v entry_opts), one
	// record per map field that has any
	entries []string
}

func (fm *fileModel) skip(format string, a ...any) {
	if fm.unsupported == "" {
		fm.unsupported = fmt.Sprintf(format, a...)
	}
}

// orderDetermined: sort.Sort uses insertion sort (the model's isort) up to 12 elements; above that pdqsort, whose
// result the model only predicts when sourceElements.Less is a strict total order on the body: all elements
// located on pairwise different lines, or none located and (typeOrder, index) pairwise different.
func (fm *fileModel) orderDetermined(what string, ds []protoreflect.Descriptor) {
	if len(ds) <= 12 {
		return
	}
	lines := map[int]bool{}
	keys := map[[2]int]bool{}
	zero, nonzero := 0, 0
	for _, d := range ds {
		l := d.ParentFile().SourceLocations().ByDescriptor(d).StartLine
		to := 0
		switch d.(type) {
		case protoreflect.MessageDescriptor:
			to = 1
		case protoreflect.EnumDescriptor:
			to = 2
		}
		if l == 0 {
			zero++
			k := [2]int{to, d.Index()}
			if keys[k] {
				fm.skip("element order of %s: more than 12 elements with tied sort keys (pdqsort)", what)
			}
			keys[k] = true
		} else {
			nonzero++
			if lines[l] {
				fm.skip("element order of %s: more than 12 elements, two on one line (pdqsort)", what)
			}
			lines[l] = true
		}
	}
	if zero > 0 && nonzero > 0 {
		fm.skip("element order of %s: more than 12 elements, located and unlocated mixed (Less is not transitive; pdqsort)", what)
	}
}

func keyTerm(d protoreflect.Descriptor) string {
	loc := d.ParentFile().SourceLocations().ByDescriptor(d)
	return fmt.Sprintf("(Build_key %d %d)", loc.StartLine, d.Index())
}

func cmtTerm(d protoreflect.Descriptor) string {
	loc := d.ParentFile().SourceLocations().ByDescriptor(d)
	det := make([]string, len(loc.LeadingDetachedComments))
	for i, c := range loc.LeadingDetachedComments {
		det[i] = bt(c)
	}
	return fmt.Sprintf("(Build_cmt [%s] %s)", strings.Join(det, ";"), bt(loc.LeadingComments))
}

func (fm *fileModel) optsTerm(d protoreflect.Descriptor) string {
	trees, err := tool.OptionTrees(d)
	if err != nil {
		fm.skip("options of %s: %v", d.FullName(), err)
		return "[]"
	}
	// not the order the printer wants: the model has to sort them itself
	sort.SliceStable(trees, func(i, j int) bool { return trees[i].FullName > trees[j].FullName })
	parts := make([]string, len(trees))
	for i, t := range trees {
		line := int32(0)
		if t.HasLine {
			line = t.Line
		}
		if line < 0 {
			fm.skip("negative option line")
		}
		parts[i] = fmt.Sprintf("(Build_dopt (Build_key %d %d) %s %s %s)",
			line, t.Index, qnameTerm(t.FullName), pnTerm(t.RefName), rawTerm(t.Root))
	}
	return "[" + strings.Join(parts, ";") + "]"
}

func splitRef(d protoreflect.Descriptor) (pkg, path string) {
	pkg = string(d.ParentFile().Package())
	full := string(d.FullName())
	if pkg == "" {
		return "", full
	}
	return pkg, strings.TrimPrefix(full, pkg+".")
}

func (fm *fileModel) vtTerm(f protoreflect.FieldDescriptor) string {
	switch f.Kind() {
	case protoreflect.MessageKind:
		pkg, path := splitRef(f.Message())
		return fmt.Sprintf("(DRef %s %s)", qnameTerm(pkg), qnameTerm(path))
	case protoreflect.EnumKind:
		pkg, path := splitRef(f.Enum())
		return fmt.Sprintf("(DRef %s %s)", qnameTerm(pkg), qnameTerm(path))
	case protoreflect.GroupKind:
		fm.skip("group field %s", f.FullName())
	}
	return "(DScalar " + bt(f.Kind().String()) + ")"
}

func (fm *fileModel) fieldTerm(f protoreflect.FieldDescriptor) string {
	label := "LNone"
	var ty string
	if f.IsMap() {
		ty = fmt.Sprintf("(DMapT %s %s %s)", bt(f.MapKey().Kind().String()), bt(string(f.Message().Name())), fm.vtTerm(f.MapValue()))
	} else {
		ty = "(DSingle " + fm.vtTerm(f) + ")"
		if f.IsList() {
			label = "LRepeated"
		} else if f.HasOptionalKeyword() {
			label = "LOptional"
		}
	}
	json := f.JSONName()
	if f.IsExtension() {
		json = jsonCamel(string(f.Name()))
	}
	if f.Number() < 0 {
		fm.skip("negative field number")
	}
	return fmt.Sprintf("(Build_dfield %s %s %s %s %s %d %s %s)",
		keyTerm(f), cmtTerm(f), label, ty, bt(string(f.Name())), f.Number(), bt(json), fm.optsTerm(f))
}

func (fm *fileModel) enumTerm(e protoreflect.EnumDescriptor) string {
	if e.ReservedNames().Len() > 0 || e.ReservedRanges().Len() > 0 {
		fm.skip("reserved in enum %s", e.FullName())
	}
	vs := make([]string, e.Values().Len())
	var evs []protoreflect.Descriptor
	for i := 0; i < e.Values().Len(); i++ {
		evs = append(evs, e.Values().Get(i))
	}
	fm.orderDetermined(string(e.FullName()), evs)
	for i := range vs {
		v := e.Values().Get(i)
		vs[i] = fmt.Sprintf("(Build_dvalue %s %s %s %s %s)",
			keyTerm(v), cmtTerm(v), bt(string(v.Name())), vh.ZTerm(int64(v.Number())), fm.optsTerm(v))
	}
	return fmt.Sprintf("(DEnum %s %s %s %s [%s])", keyTerm(e), cmtTerm(e), bt(string(e.Name())), fm.optsTerm(e), strings.Join(vs, ";"))
}

func (fm *fileModel) msgTerm(m protoreflect.MessageDescriptor) string {
	if m.ReservedNames().Len() > 0 || m.ReservedRanges().Len() > 0 || m.ExtensionRanges().Len() > 0 || m.Extensions().Len() > 0 {
		fm.skip("reserved / extension ranges / nested extensions in %s", m.FullName())
	}
	var body []string
	var els []protoreflect.Descriptor
	for i := 0; i < m.Fields().Len(); i++ {
		f := m.Fields().Get(i)
		if o := f.ContainingOneof(); o != nil && !o.IsSynthetic() {
			continue
		}
		els = append(els, f)
		body = append(body, "DField "+fm.fieldTerm(f))
		if f.IsMap() {
			ko, vo := fm.optsTerm(f.MapKey()), fm.optsTerm(f.MapValue())
			if ko != "[]" || vo != "[]" {
				_, path := splitRef(m)
				fm.entries = append(fm.entries, fmt.Sprintf("(Build_entry_opts %s %s %s %s)",
					qnameTerm(path), bt(string(f.Name())), ko, vo))
			}
		}
	}
	for i := 0; i < m.Oneofs().Len(); i++ {
		o := m.Oneofs().Get(i)
		if o.IsSynthetic() {
			continue
		}
		fs := make([]string, o.Fields().Len())
		var ofs []protoreflect.Descriptor
		for k := range fs {
			fs[k] = fm.fieldTerm(o.Fields().Get(k))
			ofs = append(ofs, o.Fields().Get(k))
		}
		fm.orderDetermined(string(o.FullName()), ofs)
		els = append(els, o)
		body = append(body, fmt.Sprintf("DOneof %s %s %s %s [%s]", keyTerm(o), cmtTerm(o), bt(string(o.Name())), fm.optsTerm(o), strings.Join(fs, ";")))
	}
	for i := 0; i < m.Messages().Len(); i++ {
		n := m.Messages().Get(i)
		if n.IsMapEntry() {
			continue
		}
		els = append(els, n)
		body = append(body, strings.TrimSuffix(strings.TrimPrefix(fm.msgTerm(n), "("), ")"))
	}
	for i := 0; i < m.Enums().Len(); i++ {
		els = append(els, m.Enums().Get(i))
		body = append(body, strings.TrimSuffix(strings.TrimPrefix(fm.enumTerm(m.Enums().Get(i)), "("), ")"))
	}
	fm.orderDetermined(string(m.FullName()), els)
	return fmt.Sprintf("(DMsg %s %s %s %s [%s])", keyTerm(m), cmtTerm(m), bt(string(m.Name())), fm.optsTerm(m), strings.Join(body, ";"))
}

func refTerm(d protoreflect.Descriptor) string {
	pkg, path := splitRef(d)
	return fmt.Sprintf("(%s, %s)", qnameTerm(pkg), qnameTerm(path))
}

func (fm *fileModel) serviceTerm(s protoreflect.ServiceDescriptor) string {
	ms := make([]string, s.Methods().Len())
	var mds []protoreflect.Descriptor
	for i := 0; i < s.Methods().Len(); i++ {
		mds = append(mds, s.Methods().Get(i))
	}
	fm.orderDetermined(string(s.FullName()), mds)
	for i := range ms {
		m := s.Methods().Get(i)
		if m.IsStreamingClient() || m.IsStreamingServer() {
			fm.skip("streaming method %s", m.FullName())
		}
		ms[i] = fmt.Sprintf("(Build_dmethod %s %s %s %s %s %s)",
			keyTerm(m), cmtTerm(m), bt(string(m.Name())), refTerm(m.Input()), refTerm(m.Output()), fm.optsTerm(m))
	}
	return fmt.Sprintf("(DService %s %s %s %s [%s])", keyTerm(s), cmtTerm(s), bt(string(s.Name())), fm.optsTerm(s), strings.Join(ms, ";"))
}

// dfileTerm renders fd as a dfile; unsupported != "" when the file uses a construct outside the model.
func dfileTerm(fd protoreflect.FileDescriptor) (term string, unsupported string) {
	term, _, unsupported = dfilexTerm(fd)
	return term, unsupported
}

// dfilexTerm: the dfile term and the table of map entry field options (a Coq list of entry_opts).
func dfilexTerm(fd protoreflect.FileDescriptor) (term string, entries string, unsupported string) {
	fm := &fileModel{}
	if fd.Syntax() != protoreflect.Proto3 {
		fm.skip("not proto3")
	}
	imports := make([]string, fd.Imports().Len())
	for i := range imports {
		imp := fd.Imports().Get(i)
		if imp.IsPublic || imp.IsWeak {
			fm.skip("public / weak import")
		}
		imports[i] = bt(imp.Path())
	}
	// file options: the loop of printFile (known bool and string fields, in descriptor order)
	var fopts []string
	refl := fd.Options().ProtoReflect()
	if fo, ok := fd.Options().(*descriptorpb.FileOptions); ok && fo != nil {
		fields := refl.Descriptor().Fields()
		for i := 0; i < fields.Len(); i++ {
			f := fields.Get(i)
			if !refl.Has(f) {
				continue
			}
			switch f.Kind() {
			case protoreflect.BoolKind:
				fopts = append(fopts, fmt.Sprintf("fopt_of (%s, FBool %v)", bt(string(f.Name())), refl.Get(f).Bool()))
			case protoreflect.StringKind:
				// the typed value: the model writes the literal (fopt_token), the tie compares it with the real tokens
				fopts = append(fopts, fmt.Sprintf("fopt_of (%s, FStr %s)", bt(string(f.Name())), bt(refl.Get(f).String())))
			default:
				fm.skip("file option %s is not printed", f.Name())
			}
		}
		if len(refl.GetUnknown()) > 0 {
			fm.skip("unknown file options are not printed")
		}
		refl.Range(func(f protoreflect.FieldDescriptor, _ protoreflect.Value) bool {
			if f.IsExtension() {
				fm.skip("file option (%s) is not printed", f.FullName())
			}
			return true
		})
	}
	exts := make([]string, fd.Extensions().Len())
	for i := range exts {
		x := fd.Extensions().Get(i)
		exts[i] = fmt.Sprintf("(%s, %s)", qnameTerm(string(x.ContainingMessage().FullName())), fm.fieldTerm(x))
	}
	var body []string
	var tops []protoreflect.Descriptor
	for i := 0; i < fd.Messages().Len(); i++ {
		tops = append(tops, fd.Messages().Get(i))
		body = append(body, strings.TrimSuffix(strings.TrimPrefix(fm.msgTerm(fd.Messages().Get(i)), "("), ")"))
	}
	for i := 0; i < fd.Services().Len(); i++ {
		tops = append(tops, fd.Services().Get(i))
		body = append(body, strings.TrimSuffix(strings.TrimPrefix(fm.serviceTerm(fd.Services().Get(i)), "("), ")"))
	}
	for i := 0; i < fd.Enums().Len(); i++ {
		tops = append(tops, fd.Enums().Get(i))
		body = append(body, strings.TrimSuffix(strings.TrimPrefix(fm.enumTerm(fd.Enums().Get(i)), "("), ")"))
	}
	fm.orderDetermined("the file", tops)
	term = fmt.Sprintf("(Build_dfile %s [%s] [%s] [%s] [%s])",
		qnameTerm(string(fd.Package())), strings.Join(imports, ";"), strings.Join(fopts, ";"), strings.Join(exts, ";"), strings.Join(body, ";"))
	return term, "[" + strings.Join(fm.entries, ";") + "]", fm.unsupported
}

// impTerm: the types and packages of the files fd imports.
func impTerm(fd protoreflect.FileDescriptor) string {
	var types []string
	pkgs := map[string]bool{}
	var walk func(pkg string, ms protoreflect.MessageDescriptors, es protoreflect.EnumDescriptors)
	walk = func(pkg string, ms protoreflect.MessageDescriptors, es protoreflect.EnumDescriptors) {
		for i := 0; i < ms.Len(); i++ {
			types = append(types, refTerm(ms.Get(i)))
			walk(pkg, ms.Get(i).Messages(), ms.Get(i).Enums())
		}
		for i := 0; i < es.Len(); i++ {
			types = append(types, refTerm(es.Get(i)))
		}
	}
	for i := 0; i < fd.Imports().Len(); i++ {
		imp := fd.Imports().Get(i).FileDescriptor
		if imp == nil {
			continue
		}
		pkgs[string(imp.Package())] = true
		walk(string(imp.Package()), imp.Messages(), imp.Enums())
	}
	names := make([]string, 0, len(pkgs))
	for p := range pkgs {
		names = append(names, p)
	}
	sort.Strings(names)
	q := make([]string, len(names))
	for i, p := range names {
		q[i] = qnameTerm(p)
	}
	return fmt.Sprintf("(Build_xsymtab [%s] [%s])", strings.Join(types, ";"), strings.Join(q, ";"))
}

// fileCase builds the c05file term of one printed file (fd printed as txt1, parsed as fd2, printed as txt2).
// lost: the round-trip oracle reported that options on map entry fields were not printed for this file.
func fileCase(fd protoreflect.FileDescriptor, txt1 string, fd2 protoreflect.FileDescriptor, txt2 string, lost bool) (term string, size int, skip string, err error) {
	d1, e1, un1 := dfilexTerm(fd)
	if un1 != "" {
		return "", 0, un1, nil
	}
	d2, e2, un2 := dfilexTerm(fd2)
	if un2 != "" {
		return "", 0, un2, nil
	}
	t1, n1, err := tokensTerm(fd.Path(), txt1, fd2)
	if err != nil {
		return "", 0, "", err
	}
	// the comments of the second text are those of its own parse; printing is deterministic and the
	// oracle compares the texts, so the descriptor parsed from txt1 serves when the texts are equal
	if txt2 != txt1 {
		return "", 0, "second print differs (reported by the oracle)", nil
	}
	return fmt.Sprintf("CFile %s %s %s\n %s\n %s %s %s %v", impTerm(fd), d1, e1, bt(txt1), t1, d2, e2, lost), n1 + len(txt1)/4, "", nil
}

// strippedDescriptor rebuilds fd without its source code info: no element and no option has a source location, there
// are no comments. That is the input class of the byte-level model (model/ProtoPrintBytes.v): the printer's blank-line
// rule of printElements and the inline / block decision of parseOption read nothing but the descriptor then.
func strippedDescriptor(fd protoreflect.FileDescriptor) (out protoreflect.FileDescriptor, err error) {
	defer func() {
		if p := recover(); p != nil {
			err = fmt.Errorf("panic: %v", p)
		}
	}()
	reg := &protoregistry.Files{}
	var add func(f protoreflect.FileDescriptor) error
	add = func(f protoreflect.FileDescriptor) error {
		if _, e := reg.FindFileByPath(f.Path()); e == nil {
			return nil
		}
		for i := 0; i < f.Imports().Len(); i++ {
			if d := f.Imports().Get(i).FileDescriptor; d != nil && !d.IsPlaceholder() {
				if e := add(d); e != nil {
					return e
				}
			}
		}
		return reg.RegisterFile(f)
	}
	for i := 0; i < fd.Imports().Len(); i++ {
		if d := fd.Imports().Get(i).FileDescriptor; d != nil && !d.IsPlaceholder() {
			if e := add(d); e != nil {
				return nil, e
			}
		}
	}
	fdp := protodesc.ToFileDescriptorProto(fd)
	fdp.SourceCodeInfo = nil
	return protodesc.NewFile(fdp, reg)
}

package main

import (
	"context"
	"fmt"
	"math"
	"os"
	"path/filepath"
	"sort"
	"strings"
	"unicode/utf8"

	"github.com/pentops/j5/lib/verifshim/compile"
	"github.com/pentops/j5/lib/verifshim/tool"
	"google.golang.org/protobuf/encoding/prototext"
	"google.golang.org/protobuf/proto"
	"google.golang.org/protobuf/reflect/protodesc"
	"google.golang.org/protobuf/reflect/protoreflect"
	"google.golang.org/protobuf/reflect/protoregistry"
	"google.golang.org/protobuf/types/descriptorpb"
	"verifharness/vh"
)

func init() { vh.Register("C05", runC05) }

// ---------------------------------------------------------------- descriptor comparison

// normalise re-reads the descriptor through the wire format, so that option values have the same Go
// representation on both sides (typed when the extension is registered, unknown bytes otherwise).
func normalise(fd protoreflect.FileDescriptor) (*descriptorpb.FileDescriptorProto, error) {
	p := protodesc.ToFileDescriptorProto(fd)
	p.SourceCodeInfo = nil
	bb, err := proto.MarshalOptions{Deterministic: true}.Marshal(p)
	if err != nil {
		return nil, err
	}
	out := &descriptorpb.FileDescriptorProto{}
	if err := (proto.UnmarshalOptions{Resolver: protoregistry.GlobalTypes}).Unmarshal(bb, out); err != nil {
		return nil, err
	}
	sort.Strings(out.Dependency)
	out.PublicDependency, out.WeakDependency = nil, nil
	// the order of extension declarations is not part of the descriptor's meaning (the printer groups them by extendee)
	sort.SliceStable(out.Extension, func(i, j int) bool {
		if out.Extension[i].GetExtendee() != out.Extension[j].GetExtendee() {
			return out.Extension[i].GetExtendee() < out.Extension[j].GetExtendee()
		}
		return out.Extension[i].GetNumber() < out.Extension[j].GetNumber()
	})
	// the order in which messages, enums and services are declared is not part of the descriptor's meaning: the
	// printer orders them by source line / type / index (sourceElements.Less is not transitive when located and
	// unlocated elements are mixed), the re-parsed descriptor has them in printed order
	var byName func(ms []*descriptorpb.DescriptorProto)
	byName = func(ms []*descriptorpb.DescriptorProto) {
		sort.SliceStable(ms, func(i, j int) bool { return ms[i].GetName() < ms[j].GetName() })
		for _, m := range ms {
			sort.SliceStable(m.EnumType, func(i, j int) bool { return m.EnumType[i].GetName() < m.EnumType[j].GetName() })
			byName(m.NestedType)
		}
	}
	byName(out.MessageType)
	sort.SliceStable(out.EnumType, func(i, j int) bool { return out.EnumType[i].GetName() < out.EnumType[j].GetName() })
	sort.SliceStable(out.Service, func(i, j int) bool { return out.Service[i].GetName() < out.Service[j].GetName() })
	// json_name: absent means the default derived from the field name (synthetic map entries of compiled files have none)
	var fill func(ms []*descriptorpb.DescriptorProto)
	fill = func(ms []*descriptorpb.DescriptorProto) {
		for _, m := range ms {
			for _, f := range m.Field {
				if f.JsonName == nil {
					f.JsonName = proto.String(jsonCamel(f.GetName()))
				}
			}
			fill(m.NestedType)
		}
	}
	fill(out.MessageType)
	for _, f := range out.Extension {
		f.JsonName = nil
	}
	return out, nil
}

func mapEntryOptions(ms []*descriptorpb.DescriptorProto, prefix string) []string {
	var out []string
	for _, m := range ms {
		name := prefix + m.GetName()
		if m.GetOptions().GetMapEntry() {
			for _, f := range m.Field {
				if f.Options != nil && !emptyMsg(f.Options.ProtoReflect()) {
					out = append(out, fmt.Sprintf("%s.%s: %s", name, f.GetName(), trim(fmt.Sprint(f.Options), 160)))
				}
			}
		}
		out = append(out, mapEntryOptions(m.NestedType, name+".")...)
	}
	return out
}

func clearMapEntryOptions(ms []*descriptorpb.DescriptorProto) {
	for _, m := range ms {
		if m.GetOptions().GetMapEntry() {
			for _, f := range m.Field {
				f.Options = nil
			}
		}
		clearMapEntryOptions(m.NestedType)
	}
}

// jsonCamel is protoc's default JSON name of a field name.
func jsonCamel(s string) string {
	var b []byte
	up := false
	for i := 0; i < len(s); i++ {
		c := s[i]
		if c != '_' {
			if up && c >= 'a' && c <= 'z' {
				c -= 'a' - 'A'
			}
			b = append(b, c)
		}
		up = c == '_'
	}
	return string(b)
}

// firstDiff returns a description of the first difference between two messages of the same type ("" = equal).
func firstDiff(a, b protoreflect.Message, path string) string {
	fields := a.Descriptor().Fields()
	for i := 0; i < fields.Len(); i++ {
		fd := fields.Get(i)
		p := path + "." + string(fd.Name())
		ha, hb := a.Has(fd), b.Has(fd)
		// an options message with nothing in it is the same as no options message
		if ha && fd.Message() != nil && !fd.IsList() && !fd.IsMap() && emptyMsg(a.Get(fd).Message()) {
			ha = false
		}
		if hb && fd.Message() != nil && !fd.IsList() && !fd.IsMap() && emptyMsg(b.Get(fd).Message()) {
			hb = false
		}
		if ha != hb {
			return fmt.Sprintf("%s: present %v vs %v", p, ha, hb)
		}
		if !ha {
			continue
		}
		va, vb := a.Get(fd), b.Get(fd)
		switch {
		case fd.IsList():
			la, lb := va.List(), vb.List()
			if la.Len() != lb.Len() {
				return fmt.Sprintf("%s: %d vs %d elements", p, la.Len(), lb.Len())
			}
			for k := 0; k < la.Len(); k++ {
				if d := diffValue(fd, la.Get(k), lb.Get(k), fmt.Sprintf("%s[%d]", p, k)); d != "" {
					return d
				}
			}
		case fd.IsMap():
			if !proto.Equal(a.Interface(), b.Interface()) && va.Map().Len() != vb.Map().Len() {
				return fmt.Sprintf("%s: map sizes differ", p)
			}
		default:
			if d := diffValue(fd, va, vb, p); d != "" {
				return d
			}
		}
	}
	if string(a.GetUnknown()) != string(b.GetUnknown()) {
		return fmt.Sprintf("%s: unknown fields (unregistered extensions) differ: %x vs %x", path, trimBytes(a.GetUnknown()), trimBytes(b.GetUnknown()))
	}
	// registered extensions
	exts := map[string][2]protoreflect.Value{}
	a.Range(func(fd protoreflect.FieldDescriptor, v protoreflect.Value) bool {
		if fd.IsExtension() {
			e := exts[string(fd.FullName())]
			e[0] = v
			exts[string(fd.FullName())] = e
		}
		return true
	})
	b.Range(func(fd protoreflect.FieldDescriptor, v protoreflect.Value) bool {
		if fd.IsExtension() {
			e := exts[string(fd.FullName())]
			e[1] = v
			exts[string(fd.FullName())] = e
		}
		return true
	})
	names := make([]string, 0, len(exts))
	for k := range exts {
		names = append(names, k)
	}
	sort.Strings(names)
	for _, n := range names {
		e := exts[n]
		if !e[0].IsValid() || !e[1].IsValid() {
			return fmt.Sprintf("%s.(%s): present %v vs %v", path, n, e[0].IsValid(), e[1].IsValid())
		}
		if !e[0].Equal(e[1]) {
			if m0, ok := e[0].Interface().(protoreflect.Message); ok {
				if m1, ok := e[1].Interface().(protoreflect.Message); ok {
					if d := firstDiff(m0, m1, path+".("+n+")"); d != "" {
						return d
					}
				}
			}
			return fmt.Sprintf("%s.(%s): values differ", path, n)
		}
	}
	return ""
}

func emptyMsg(m protoreflect.Message) bool {
	if len(m.GetUnknown()) > 0 {
		return false
	}
	empty := true
	m.Range(func(protoreflect.FieldDescriptor, protoreflect.Value) bool { empty = false; return false })
	return empty
}

func trimBytes(b []byte) []byte {
	if len(b) > 24 {
		return b[:24]
	}
	return b
}

func diffValue(fd protoreflect.FieldDescriptor, va, vb protoreflect.Value, p string) string {
	if fd.Message() != nil {
		ma, mb := va.Message(), vb.Message()
		label := p
		if nf := ma.Descriptor().Fields().ByName("name"); nf != nil && nf.Kind() == protoreflect.StringKind && ma.Has(nf) {
			label = p + "<" + ma.Get(nf).String() + ">"
		}
		return firstDiff(ma, mb, label)
	}
	if !va.Equal(vb) {
		return fmt.Sprintf("%s: %v vs %v", p, trim(fmt.Sprint(va.Interface()), 60), trim(fmt.Sprint(vb.Interface()), 60))
	}
	return ""
}

// pathKey turns a source-info path into a key by NAMES (the declaration order of messages / enums / services
// may change across print + parse, see normalise): indices of declarations are replaced by their names.
func pathKey(fdp *descriptorpb.FileDescriptorProto, path []int32) string {
	var sb strings.Builder
	rest := path
	var msg *descriptorpb.DescriptorProto
	var enum *descriptorpb.EnumDescriptorProto
	var svc *descriptorpb.ServiceDescriptorProto
	take := func(kind, name string) { fmt.Fprintf(&sb, "/%s:%s", kind, name); rest = rest[2:] }
	for len(rest) >= 2 {
		f, i := rest[0], int(rest[1])
		switch {
		case msg == nil && enum == nil && svc == nil && f == 4 && i < len(fdp.MessageType):
			msg = fdp.MessageType[i]
			take("message", msg.GetName())
		case msg == nil && enum == nil && svc == nil && f == 5 && i < len(fdp.EnumType):
			enum = fdp.EnumType[i]
			take("enum", enum.GetName())
		case msg == nil && enum == nil && svc == nil && f == 6 && i < len(fdp.Service):
			svc = fdp.Service[i]
			take("service", svc.GetName())
		case msg == nil && enum == nil && svc == nil && f == 7 && i < len(fdp.Extension):
			take("extension", fdp.Extension[i].GetName())
			return sb.String() + fmt.Sprint(rest)
		case msg != nil && enum == nil && f == 3 && i < len(msg.NestedType):
			msg = msg.NestedType[i]
			take("message", msg.GetName())
		case msg != nil && enum == nil && f == 4 && i < len(msg.EnumType):
			enum = msg.EnumType[i]
			take("enum", enum.GetName())
		case msg != nil && enum == nil && f == 2 && i < len(msg.Field):
			take("field", msg.Field[i].GetName())
			return sb.String() + fmt.Sprint(rest)
		case msg != nil && enum == nil && f == 8 && i < len(msg.OneofDecl):
			take("oneof", msg.OneofDecl[i].GetName())
			return sb.String() + fmt.Sprint(rest)
		case enum != nil && f == 2 && i < len(enum.Value):
			take("value", enum.Value[i].GetName())
			return sb.String() + fmt.Sprint(rest)
		case svc != nil && f == 2 && i < len(svc.Method):
			take("method", svc.Method[i].GetName())
			return sb.String() + fmt.Sprint(rest)
		default:
			return sb.String() + fmt.Sprint(rest)
		}
	}
	return sb.String() + fmt.Sprint(rest)
}

// comments by declaration (leading / detached), from the source info, keyed by names.
func commentMap(fd protoreflect.FileDescriptor) map[string]string {
	out := map[string]string{}
	fdp := protodesc.ToFileDescriptorProto(fd)
	sci := fdp.SourceCodeInfo
	if sci == nil {
		return out
	}
	for _, loc := range sci.Location {
		// the property names the leading comments (attached and detached)
		if loc.GetLeadingComments() == "" && len(loc.LeadingDetachedComments) == 0 {
			continue
		}
		key := pathKey(fdp, loc.Path)
		out[key] = fmt.Sprintf("L%q D%q", loc.GetLeadingComments(), loc.LeadingDetachedComments)
	}
	return out
}

type rtFailure struct {
	Sig, Clause, Got string
}

// diffClass strips indices and names from a diff so that it can serve as a signature.
func diffClass(d string) string {
	d = reDigits.ReplaceAllString(d, "N")
	if i := strings.Index(d, ": "); i > 0 {
		head := d[:i]
		// drop the <name> labels
		for {
			a := strings.Index(head, "<")
			b := strings.Index(head, ">")
			if a < 0 || b < a {
				break
			}
			head = head[:a] + head[b+1:]
		}
		rest := d[i+2:]
		switch {
		case strings.Contains(rest, "present"):
			rest = "presence differs"
		case strings.Contains(rest, "elements"):
			rest = "element count differs"
		case strings.Contains(rest, "unknown fields"):
			rest = "unregistered extension bytes differ"
		default:
			rest = "value differs"
		}
		return head + ": " + rest
	}
	return trim(d, 80)
}

// roundTrip evaluates C05 on one file: print, parse+link the text, compare, print again.
// siblings holds the texts the import resolver may need (the file's own text is replaced).
// rtOut: what the round trip produced, for the file-layer correspondence (model/ProtoPrintFileCorr.v)
type rtOut struct {
	Txt1, Txt2 string
	Fd2        protoreflect.FileDescriptor
}

func roundTrip(ctx context.Context, fd protoreflect.FileDescriptor, siblings map[string]string, ignoreGenComment bool) (txt1 string, fails []rtFailure) {
	out, fails := roundTripOut(ctx, fd, siblings)
	return out.Txt1, fails
}

func roundTripOut(ctx context.Context, fd protoreflect.FileDescriptor, siblings map[string]string) (out rtOut, fails []rtFailure) {
	txt1, fd2, txt2, fails := roundTripAll(ctx, fd, siblings)
	return rtOut{Txt1: txt1, Txt2: txt2, Fd2: fd2}, fails
}

func roundTripAll(ctx context.Context, fd protoreflect.FileDescriptor, siblings map[string]string) (txt1 string, fd2 protoreflect.FileDescriptor, txt2 string, fails []rtFailure) {
	defer func() {
		if p := recover(); p != nil {
			fails = append(fails, rtFailure{Sig: "printer or parser panic: " + failureClass(fmt.Sprint(p)), Clause: "no crash", Got: trim(fmt.Sprint(p), 300)})
		}
	}()
	txt1, err := tool.PrintFile(ctx, fd, "verif")
	if err != nil {
		return "", nil, "", []rtFailure{{Sig: "PrintFile error: " + failureClass(err.Error()), Clause: "the toolchain prints the file", Got: err.Error()}}
	}
	files := map[string]string{}
	for k, v := range siblings {
		files[k] = v
	}
	files[fd.Path()] = txt1
	parsed, err := tool.ParseProto(ctx, files, []string{fd.Path()})
	if err != nil {
		class := failureClass(err.Error())
		if strings.Contains(err.Error(), "invalid character") {
			// identifiers with non-ASCII letters: the BCL lexer and the compiler accept them, protobuf does not
			class = "invalid character (identifier with a non-ASCII letter)"
		}
		if strings.Contains(err.Error(), "camel-case name") {
			// enum options that differ only in case: the compiler accepts them, no proto parser does (NOTICE-4)
			class = "camel-case name conflict of enum values (options that differ only in case)"
		}
		return txt1, nil, "", []rtFailure{{Sig: "printed text does not parse/link: " + class, Clause: "parsing and linking the printed text yields a descriptor", Got: trim(err.Error(), 300)}}
	}
	for _, f := range parsed {
		if f.Path() == fd.Path() {
			fd2 = f
		}
	}
	if fd2 == nil {
		return txt1, nil, "", []rtFailure{{Sig: "reparsed file missing", Clause: "parse", Got: fd.Path()}}
	}
	d1, err1 := normalise(fd)
	d2, err2 := normalise(fd2)
	if err1 != nil || err2 != nil {
		return txt1, fd2, "", []rtFailure{{Sig: "descriptor normalisation failed", Clause: "compare", Got: fmt.Sprint(err1, err2)}}
	}
	// options on the key/value fields of a synthetic map entry cannot be written in map<K, V> syntax
	if lost := mapEntryOptions(d1.MessageType, ""); len(lost) > 0 {
		fails = append(fails, rtFailure{Sig: "options on the value field of a map entry are not printed (map<K, V> syntax has no place for them)", Clause: "every option and extension value", Got: strings.Join(lost, "; ")})
		clearMapEntryOptions(d1.MessageType)
		clearMapEntryOptions(d2.MessageType)
	}
	if d := firstDiff(d1.ProtoReflect(), d2.ProtoReflect(), "file"); d != "" {
		fails = append(fails, rtFailure{Sig: "descriptor differs after print+parse at " + diffClass(d), Clause: "equivalent descriptor: package, imports, messages, fields, enums, services, every option", Got: d})
	}
	c1, c2 := commentMap(fd), commentMap(fd2)
	for k, v := range c1 {
		if k == "[]" || k == "[12]" || k == "[2]" || k == "[2 0]" { // file-level / syntax / package comments: the generated-by line lives here
			continue
		}
		if c2[k] != v {
			fails = append(fails, rtFailure{Sig: "comment differs after print+parse", Clause: "the same leading comments", Got: fmt.Sprintf("path %s: %s vs %s", k, trim(v, 120), trim(c2[k], 120))})
			break
		}
	}
	txt2, err = tool.PrintFile(ctx, fd2, "verif")
	if err != nil {
		fails = append(fails, rtFailure{Sig: "second PrintFile error: " + failureClass(err.Error()), Clause: "printing that result again", Got: err.Error()})
		return txt1, fd2, "", fails
	}
	if txt2 != txt1 {
		l1, l2 := strings.Split(txt1, "\n"), strings.Split(txt2, "\n")
		at := 0
		for at < len(l1) && at < len(l2) && l1[at] == l2[at] {
			at++
		}
		g1, g2 := "<eof>", "<eof>"
		if at < len(l1) {
			g1 = l1[at]
		}
		if at < len(l2) {
			g2 = l2[at]
		}
		class := "other line differs"
		switch {
		case strings.Contains(g1, "//") && strings.TrimRight(g1[:strings.Index(g1, "//")], " ") == g2:
			class = "trailing comment printed after a closing brace is not read back"
		case strings.HasPrefix(strings.TrimSpace(g1), "//") != strings.HasPrefix(strings.TrimSpace(g2), "//"):
			class = "a comment line appears or disappears"
		case strings.TrimSpace(g1) == "" || strings.TrimSpace(g2) == "":
			class = "blank line placement differs"
		}
		fails = append(fails, rtFailure{Sig: "printing the reparsed descriptor does not reproduce the text (" + class + ")", Clause: "printing that result again reproduces the same text", Got: fmt.Sprintf("line %d: %q vs %q", at+1, g1, g2)})
	}
	return txt1, fd2, txt2, fails
}

// ---------------------------------------------------------------- repository protos

type protoRoot struct {
	Dir   string
	Files map[string]string
}

func readProtoRoots(repo string) ([]protoRoot, error) {
	var roots []protoRoot
	for _, dir := range []string{"proto/j5", "proto/j5build", "proto/bcl", "proto/test", "proto/buildtest", "proto/bcltest", "j5stest/proto"} {
		root := protoRoot{Dir: dir, Files: map[string]string{}}
		base := filepath.Join(repo, dir)
		err := filepath.Walk(base, func(p string, info os.FileInfo, err error) error {
			if err != nil || info.IsDir() || !strings.HasSuffix(p, ".proto") {
				return err
			}
			rel, _ := filepath.Rel(base, p)
			bb, err := os.ReadFile(p)
			if err != nil {
				return err
			}
			root.Files[filepath.ToSlash(rel)] = string(bb)
			return nil
		})
		if err != nil {
			return nil, err
		}
		roots = append(roots, root)
	}
	return roots, nil
}

func runC05(cfg *vh.Config) error {
	res := vh.NewResult("C05", cfg.Seed)
	res.Rule = "every .proto under /repo/proto and /repo/j5stest/proto (parsed with protocompile, printed with PrintFile, the text parsed and linked again with the same resolver, descriptors compared field by field incl. every option and extension value, comments compared by path, printed again and compared byte for byte); the files compiled from generated j5s packages (services, topics, entities, recursive and nested schemas, descriptions and validation rules with quotes, backslashes and non-ASCII text); literal layer: byte strings (all 256 byte values, invalid UTF-8, surrogates, non-BMP), integers at the int32/int64/uint64 boundaries, type references in nested scopes vs the model printer and the model parser, and the printed literal read back by the real protocompile lexer. non-trivial = distinct input"
	ctx := context.Background()
	cf := &vh.CasesFile{
		Header: "From Coq Require Import String List NArith ZArith.\nFrom J5V.model Require Import ProtoPrintLit ProtoPrint ProtoPrintCorr.",
		Type:   "c05case",
		Check:  "c05_check",
	}
	distinct := vh.Distinct{}
	optSeen := vh.Distinct{}
	var optCases []optCase
	maxOpt := cfg.Scale(700, 12000)
	addOpts := func(fd protoreflect.FileDescriptor, stream string, input any) {
		cs, problems := optionCases(fd, optSeen)
		for _, pr := range problems {
			res.Fail(vh.Failure{Case: 0, Stream: stream, Sig: "C05 option printer fails on an element: " + failureClass(pr), Clause: "every option and extension value", Input: input, Got: pr})
		}
		for _, c := range cs {
			if len(optCases) < maxOpt {
				optCases = append(optCases, c)
			}
		}
	}
	// the printer's two order decisions on every printed file (original and re-parsed descriptor), no budget
	orders := &orderCollector{seen: vh.Distinct{}, max: cfg.Scale(2000, 20000)}
	// file layer: descriptor + real tokens of its printed text, for model/ProtoPrintFileCorr.v
	type fileCaseRec struct {
		term, where string
		toks        int
	}
	var fileCases []fileCaseRec
	fileSeen := vh.Distinct{}
	fileToks := map[string]int{}
	maxFileToks := map[string]int{"repo-proto": cfg.Scale(24000, 400000), "compiled": cfg.Scale(30000, 600000), "hand-built": 100000}
	pendingFiles := map[string][]func(){}
	var emitFile func(stream string, fd protoreflect.FileDescriptor, out rtOut, lost bool, where string, input any)
	// byte level: the same descriptor WITHOUT source code info (no locations, no comments: the sub-class of
	// model/ProtoPrintBytes.v), printed by the real printer; the model's render_bytes must give these bytes
	type bytesCaseRec struct {
		term, where string
		size        int
	}
	var bytesCases []bytesCaseRec
	var pendingBytes []func()
	bytesBudget := cfg.Scale(420000, 6000000)
	bytesUsed := 0
	addBytes := func(stream string, fd protoreflect.FileDescriptor, siblings map[string]string, where string, input any) {
		sfd, err := strippedDescriptor(fd)
		if err != nil {
			res.Count("bytes:descriptor not rebuilt without source info")
			return
		}
		rt, fails := roundTripOut(ctx, sfd, siblings)
		res.Count("bytes:" + stream + " printed without source info")
		// A descriptor without source info is not something the toolchain prints (compiled j5s files and parsed
		// .proto files carry locations): it is the carrier of the byte-level tie. Reported here: the printer fails or
		// panics, or its text does not parse / link. Observed and counted, not judged (outside the quantifier of
		// the property): (a) printElements adds the blank line at a change of element type only when the previous
		// element has a location, so the re-parsed (located) descriptor prints with more blank lines than the
		// unlocated one; (b) without locations fields and oneofs sort by index alone, so a oneof moves in front of
		// plain fields with a higher index and the re-parsed descriptor lists the fields in that order.
		for _, f := range fails {
			switch {
			case strings.HasPrefix(f.Sig, "options on the value field of a map entry are not printed"):
				// reported for the located descriptor of the same file
			case strings.HasPrefix(f.Sig, "printing the reparsed descriptor does not reproduce the text"):
				res.Count("bytes:unlocated descriptor, second print differs in blank lines (observed, not judged)")
			case strings.HasPrefix(f.Sig, "descriptor differs after print+parse") && strings.Contains(f.Sig, "field["):
				res.Count("bytes:unlocated descriptor, field order after re-parse differs (observed, not judged)")
			default:
				res.Fail(vh.Failure{Case: 0, Stream: "bytes", Sig: "C05 descriptor without source info (" + stream + ") -> " + f.Sig, Clause: f.Clause, Input: input, Got: f.Got})
			}
		}
		if rt.Txt1 == "" {
			return
		}
		pendingBytes = append(pendingBytes, func() {
			dterm, _, un := dfilexTerm(sfd)
			if un != "" {
				res.Count("bytes:outside the model (" + failureClass(un) + ")")
				return
			}
			term := fmt.Sprintf("CBytes %s %s %s\n %s", bt("verif"), impTerm(sfd), dterm, bt(rt.Txt1))
			if bytesUsed+len(term) > bytesBudget {
				res.Count("bytes:over the budget of this tier")
				return
			}
			bytesUsed += len(term)
			bytesCases = append(bytesCases, bytesCaseRec{term: term, where: where, size: len(rt.Txt1)})
		})
	}
	addFile := func(stream string, fd protoreflect.FileDescriptor, out rtOut, fails []rtFailure, where string, input any, siblings map[string]string) {
		lost := false
		for _, f := range fails {
			if strings.HasPrefix(f.Sig, "options on the value field of a map entry are not printed") {
				lost = true
			}
		}
		if out.Fd2 == nil || out.Txt1 == "" {
			return
		}
		if _, dup := fileSeen[out.Txt1]; dup {
			return
		}
		fileSeen.Add(out.Txt1)
		addBytes(stream, fd, siblings, where, input)
		orders.file(fd)
		orders.file(out.Fd2)
		// which files get the full check within the token budget is drawn per run (pendingFiles, below), so that over
		// the seeds every printed file is covered; the pinned hand-built cases always are
		pendingFiles[stream] = append(pendingFiles[stream], func() {
			emitFile(stream, fd, out, lost, where, input)
		})
	}
	emitFile = func(stream string, fd protoreflect.FileDescriptor, out rtOut, lost bool, where string, input any) {
		if fileToks[stream] >= maxFileToks[stream] {
			res.Count("file-layer:over the token budget of this tier")
			return
		}
		term, n, skip, err := fileCase(fd, out.Txt1, out.Fd2, out.Txt2, lost)
		switch {
		case err != nil:
			res.Count("file-layer:lexer error")
			res.Fail(vh.Failure{Case: 0, Stream: stream, Sig: "C05 printed text is not tokenised by the protocompile lexer / comment position not found", Clause: "parsing the printed text", Input: input, Got: err.Error()})
		case skip != "":
			res.Count("file-layer:outside the model (" + failureClass(skip) + ")")
		default:
			fileToks[stream] += n
			fileCases = append(fileCases, fileCaseRec{term: term, where: where, toks: n})
			res.Count("file-layer:" + stream)
		}
	}
	caseNo := 0
	repo := os.Getenv("VERIF_REPO")
	if repo == "" {
		repo = "/repo"
	}

	report := func(stream, prefix string, input any, fails []rtFailure) {
		for _, f := range fails {
			res.Fail(vh.Failure{Case: caseNo, Stream: stream, Sig: prefix + " -> " + f.Sig, Clause: f.Clause, Input: input, Got: f.Got})
		}
	}

	// ------------------------------------------------------------ stream 1: hand-written protos of the repository
	roots, err := readProtoRoots(repo)
	if err != nil {
		return err
	}
	for _, root := range roots {
		names := make([]string, 0, len(root.Files))
		for k := range root.Files {
			names = append(names, k)
		}
		sort.Strings(names)
		for _, name := range names {
			caseNo++
			res.Count("repo-proto")
			distinct.Add("repo:" + root.Dir + "/" + name)
			input := map[string]any{"file": root.Dir + "/" + name}
			parsed, err := tool.ParseProto(ctx, root.Files, []string{name})
			if err != nil {
				res.Count("repo-proto:does not parse")
				res.Notes = append(res.Notes, fmt.Sprintf("%s/%s does not parse on its own: %s", root.Dir, name, trim(err.Error(), 120)))
				continue
			}
			var fd protoreflect.FileDescriptor
			for _, f := range parsed {
				if f.Path() == name {
					fd = f
				}
			}
			if fd == nil {
				continue
			}
			addOpts(fd, "repo-proto", input)
			rt, fails := roundTripOut(ctx, fd, root.Files)
			addFile("repo-proto", fd, rt, fails, root.Dir+"/"+name, input, root.Files)
			if len(fails) == 0 {
				res.Count("repo-proto:round trip ok")
			} else {
				res.Count("repo-proto:round trip fails")
			}
			report("repo-proto", "C05 repository proto file", input, fails)
			res.Sample(map[string]any{"stream": "repo-proto", "file": root.Dir + "/" + name, "failures": len(fails)}, 4)
		}
	}

	// ------------------------------------------------------------ stream 1b: hand-built descriptors (pinned classes)
	// file-level string options whose value needs escaping (printFile wrote them raw before /repo b69d449)
	for i, val := range []string{"plain/pkg;name", "a\"b", "back\\slash", "line\nbreak\ttab", "quote'single", "caf\u00e9 \U0001F600", "\"\\\n\r\x01\x7f", "nul\x000 digit", "end\x00", "\x00f\x00"} {
		caseNo++
		res.Count("hand-built")
		distinct.Add("hand:" + val)
		name := fmt.Sprintf("hand/v1/opt%d.proto", i)
		fdp := &descriptorpb.FileDescriptorProto{
			Name:    proto.String(name),
			Syntax:  proto.String("proto3"),
			Package: proto.String("hand.v1"),
			Options: &descriptorpb.FileOptions{
				GoPackage:          proto.String(val),
				JavaPackage:        proto.String("x" + val),
				JavaMultipleFiles:  proto.Bool(i%2 == 0),
				ObjcClassPrefix:    proto.String(val + "y"),
				CcEnableArenas:     proto.Bool(i%2 == 1),
				JavaOuterClassname: proto.String("Outer"),
			},
			MessageType: []*descriptorpb.DescriptorProto{{
				Name: proto.String("Hand"),
				Field: []*descriptorpb.FieldDescriptorProto{{
					Name: proto.String("f1"), Number: proto.Int32(1), Type: descriptorpb.FieldDescriptorProto_TYPE_STRING.Enum(), JsonName: proto.String("f1"),
				}},
			}},
		}
		input := map[string]any{"file": name, "file option value": fmt.Sprintf("%q", val)}
		fd, err := protodesc.NewFile(fdp, protoregistry.GlobalFiles)
		if err != nil {
			res.Notes = append(res.Notes, "hand-built descriptor rejected by protodesc: "+trim(err.Error(), 120))
			continue
		}
		rt, fails := roundTripOut(ctx, fd, map[string]string{})
		addFile("hand-built", fd, rt, fails, name, input, map[string]string{})
		if len(fails) == 0 {
			res.Count("hand-built:round trip ok")
		} else {
			res.Count("hand-built:round trip fails")
		}
		report("hand-built", "C05 hand-built descriptor with file string options", input, fails)
		res.Sample(map[string]any{"stream": "hand-built", "file": name, "value": fmt.Sprintf("%q", val), "failures": len(fails)}, 3)
	}

	// an option statement whose value is an empty message written over two lines (`= {` newline `};`): parseOption does
	// not inline it (the source is not single-line), printOption's empty-message branch
	for _, root := range roots {
		if _, ok := root.Files["j5/ext/v1/annotations.proto"]; !ok {
			continue
		}
		files := map[string]string{}
		for k, v := range root.Files {
			files[k] = v
		}
		name := "hand/v1/multiline.proto"
		files[name] = "syntax = \"proto3\";\n\npackage hand.v1;\n\nimport \"j5/ext/v1/annotations.proto\";\n\nmessage Multi {\n  option (j5.ext.v1.message).object = {\n  };\n\n  string a = 1;\n}\n"
		parsed, err := tool.ParseProto(ctx, files, []string{name})
		if err != nil {
			res.Notes = append(res.Notes, "hand-built multi-line option file does not parse: "+trim(err.Error(), 160))
			break
		}
		for _, fd := range parsed {
			if fd.Path() != name {
				continue
			}
			caseNo++
			res.Count("hand-built")
			distinct.Add("hand-multiline")
			input := map[string]any{"file": name, "source": files[name]}
			rt, fails := roundTripOut(ctx, fd, files)
			addFile("hand-built", fd, rt, fails, name, input, files)
			if len(fails) == 0 {
				res.Count("hand-built:round trip ok")
			} else {
				res.Count("hand-built:round trip fails")
			}
			report("hand-built", "C05 hand-written file with an empty message option over two lines", input, fails)
		}
		break
	}

	// two files of ONE package printed by one process, the second with a sub-package in scope that captures the first
	// part of a foreign package name the first file also refers to (seeded C05-G: a per-package memo of the capture
	// decision): a.proto prints common.v1.Money, b.proto must print .common.v1.Money
	{
		pair := map[string]string{
			"common/v1/money.proto":  "syntax = \"proto3\";\npackage common.v1;\nmessage Money { string amount = 1; }\n",
			"hand/v1/common/x.proto": "syntax = \"proto3\";\npackage hand.v1.common;\nmessage Local { string note = 1; }\n",
			"hand/v1/a.proto":        "syntax = \"proto3\";\npackage hand.v1;\nimport \"common/v1/money.proto\";\nmessage First { common.v1.Money price = 1; }\n",
			"hand/v1/b.proto":        "syntax = \"proto3\";\npackage hand.v1;\nimport \"common/v1/money.proto\";\nimport \"hand/v1/common/x.proto\";\nmessage Second { .common.v1.Money price = 1; hand.v1.common.Local local = 2; }\n",
		}
		parsed, err := tool.ParseProto(ctx, pair, []string{"hand/v1/a.proto", "hand/v1/b.proto"})
		if err != nil {
			res.Notes = append(res.Notes, "hand-built same-package pair does not parse: "+trim(err.Error(), 160))
		}
		for _, name := range []string{"hand/v1/a.proto", "hand/v1/b.proto"} { // this order: the non-capturing file first
			for _, fd := range parsed {
				if fd.Path() != name {
					continue
				}
				caseNo++
				res.Count("hand-built")
				distinct.Add("hand-pair:" + name)
				input := map[string]any{"file": name, "files of the package, printed in this order": []string{"hand/v1/a.proto", "hand/v1/b.proto"}, "source": pair[name]}
				rt, fails := roundTripOut(ctx, fd, pair)
				addFile("hand-built", fd, rt, fails, name, input, pair)
				if len(fails) == 0 {
					res.Count("hand-built:round trip ok")
				} else {
					res.Count("hand-built:round trip fails")
				}
				report("hand-built", "C05 two files of one package printed by one process", input, fails)
			}
		}
	}

	// ONE file referring to the SAME foreign type from scopes that differ in whether the first segment of the foreign
	// package is shadowed by a nested message / enum of an enclosing message (there the printer must write
	// `.bar.v1.Thing`), in both orders: unshadowed first (hold/v1/a.proto) and shadowed first (hold/v1/b.proto), and a
	// deeper nesting where only the outer message declares the capturing name (seeded C05-J: a per-file memo of the
	// cross-package name that ignores the scope)
	{
		set := map[string]string{
			"bar/v1/thing.proto": "syntax = \"proto3\";\npackage bar.v1;\nmessage Thing { string x = 1; }\nenum Shade { SHADE_UNSPECIFIED = 0; }\n",
			"hold/v1/a.proto": "syntax = \"proto3\";\npackage hold.v1;\nimport \"bar/v1/thing.proto\";\n" +
				"message Plain { bar.v1.Thing t = 1; bar.v1.Shade s = 2; }\n" +
				"message Holder {\n  message bar { string n = 1; }\n  .bar.v1.Thing t = 1;\n  bar inner = 2;\n  .bar.v1.Shade s = 3;\n}\n" +
				"message HolderE {\n  enum bar { bar_UNSPECIFIED = 0; }\n  .bar.v1.Thing t = 1;\n  message Deep { .bar.v1.Thing t = 1; }\n}\n" +
				"message After { bar.v1.Thing t = 1; }\n",
			"hold/v1/b.proto": "syntax = \"proto3\";\npackage hold.v1;\nimport \"bar/v1/thing.proto\";\n" +
				"message Holder2 {\n  message bar { string n = 1; }\n  .bar.v1.Thing t = 1;\n  repeated .bar.v1.Thing many = 2;\n  map<string, .bar.v1.Thing> by_name = 3;\n}\n" +
				"message Plain2 { bar.v1.Thing t = 1; repeated bar.v1.Thing many = 2; }\n" +
				"service Svc { rpc Get(bar.v1.Thing) returns (bar.v1.Thing) {} }\n",
		}
		names := []string{"hold/v1/a.proto", "hold/v1/b.proto"}
		parsed, err := tool.ParseProto(ctx, set, names)
		if err != nil {
			res.Notes = append(res.Notes, "hand-built shadowed / unshadowed reference file does not parse: "+trim(err.Error(), 160))
		}
		for _, name := range names {
			for _, fd := range parsed {
				if fd.Path() != name {
					continue
				}
				caseNo++
				res.Count("hand-built")
				distinct.Add("hand-shadow:" + name)
				input := map[string]any{"file": name, "source": set[name], "imported": set["bar/v1/thing.proto"]}
				rt, fails := roundTripOut(ctx, fd, set)
				addFile("hand-built", fd, rt, fails, name, input, set)
				if len(fails) == 0 {
					res.Count("hand-built:round trip ok")
				} else {
					res.Count("hand-built:round trip fails")
				}
				report("hand-built", "C05 one file referring to a foreign type from a shadowed and an unshadowed scope", input, fails)
			}
		}
	}

	// the same constellation in the other order (capturing file first), with other names so that a state kept per
	// (package, name) by the printer is fresh: r.proto must print .shared.v1.Coin, q.proto shared.v1.Coin (the model says
	// so; a state leaking from r to q shows as a tie mismatch on q's tokens)
	{
		pair := map[string]string{
			"shared/v1/coin.proto":    "syntax = \"proto3\";\npackage shared.v1;\nmessage Coin { string amount = 1; }\n",
			"other/v1/shared/x.proto": "syntax = \"proto3\";\npackage other.v1.shared;\nmessage Local { string note = 1; }\n",
			"other/v1/q.proto":        "syntax = \"proto3\";\npackage other.v1;\nimport \"shared/v1/coin.proto\";\nmessage Plain { shared.v1.Coin price = 1; }\n",
			"other/v1/r.proto":        "syntax = \"proto3\";\npackage other.v1;\nimport \"shared/v1/coin.proto\";\nimport \"other/v1/shared/x.proto\";\nmessage Capturing { .shared.v1.Coin price = 1; other.v1.shared.Local local = 2; }\n",
		}
		parsed, err := tool.ParseProto(ctx, pair, []string{"other/v1/q.proto", "other/v1/r.proto"})
		if err != nil {
			res.Notes = append(res.Notes, "hand-built same-package pair (reverse) does not parse: "+trim(err.Error(), 160))
		}
		for _, name := range []string{"other/v1/r.proto", "other/v1/q.proto"} { // the capturing file first
			for _, fd := range parsed {
				if fd.Path() != name {
					continue
				}
				caseNo++
				res.Count("hand-built")
				distinct.Add("hand-pair:" + name)
				input := map[string]any{"file": name, "files of the package, printed in this order": []string{"other/v1/r.proto", "other/v1/q.proto"}, "source": pair[name]}
				rt, fails := roundTripOut(ctx, fd, pair)
				addFile("hand-built", fd, rt, fails, name, input, pair)
				if len(fails) == 0 {
					res.Count("hand-built:round trip ok")
				} else {
					res.Count("hand-built:round trip fails")
				}
				report("hand-built", "C05 two files of one package printed by one process", input, fails)
			}
		}
	}

	// ------------------------------------------------------------ stream 2: compiled j5s packages
	rp := cfg.R.Fork("c05-packages")
	nPkg := cfg.Scale(70, 1200)
	for i := -1; i < nPkg; i++ {
		var p *gPackage
		var src string
		if i < 0 {
			// pinned: a schema and a property name with non-ASCII letters (known finding, shared with C16)
			p = &gPackage{Pkg: "uni.v1"}
			src = "package uni.v1\n\nobject \u00c9lan {\n\tfield na\u00efve string\n}\n\nobject Plain {\n\tfield ref object:\u00c9lan\n}\n"
		} else {
			p = genPackageOpt(rp, i%5 == 4, true)
			src = p.text()
		}
		caseNo++
		distinct.Add("pkg:" + src)
		res.Count("compiled")
		input := map[string]any{"package": p.Pkg, "j5s": src}
		var files []protoreflect.FileDescriptor
		var cerr error
		func() {
			defer func() {
				if pv := recover(); pv != nil {
					cerr = fmt.Errorf("panic: %v", pv)
				}
			}()
			files, cerr = compile.Compile(ctx, map[string]string{strings.ReplaceAll(p.Pkg, ".", "/") + "/a.j5s": src}, p.Pkg)
		}()
		if i < 0 && cerr == nil {
			res.Fail(vh.Failure{Case: caseNo, Stream: "compiled", Sig: "C05 package with non-ASCII identifiers -> accepted by the compiler (names that are not protobuf identifiers must be a compile error, /repo c71d8d9)", Clause: "parsing and linking the printed text yields a descriptor", Input: input, Got: "compiled"})
		}
		if cerr != nil {
			res.Count("compiled:rejected by the compiler")
			if len(res.Notes) < 12 {
				res.Notes = append(res.Notes, "generated package rejected by the compiler: "+trim(cerr.Error(), 160))
			}
			continue
		}
		// first print everything, so that the resolver sees the printed siblings (as ReadFSImage does)
		siblings := map[string]string{}
		for _, f := range files {
			if txt, err := tool.PrintFile(ctx, f, "verif"); err == nil {
				siblings[f.Path()] = txt
			}
		}
		ok := true
		for _, f := range files {
			res.Count("compiled-file")
			addOpts(f, "compiled", map[string]any{"package": p.Pkg, "file": f.Path(), "j5s": src})
			rt, fails := roundTripOut(ctx, f, siblings)
			addFile("compiled", f, rt, fails, p.Pkg+" "+f.Path(), map[string]any{"package": p.Pkg, "file": f.Path(), "j5s": src}, siblings)
			if len(fails) > 0 {
				ok = false
				in2 := map[string]any{"package": p.Pkg, "file": f.Path(), "j5s": src}
				report("compiled", "C05 file compiled from j5s", in2, fails)
			}
		}
		if ok {
			res.Count("compiled:round trip ok")
		} else {
			res.Count("compiled:round trip fails")
		}
		res.Sample(map[string]any{"stream": "compiled", "package": p.Pkg, "files": len(files), "ok": ok}, 7)
		_ = input
	}

	// ------------------------------------------------------------ stream 3: literal layer vs the model
	rl := cfg.R.Fork("c05-literals")
	nLit := cfg.Scale(500, 8000)
	var strs []string
	all := make([]byte, 256)
	for i := range all {
		all[i] = byte(i)
	}
	strs = append(strs, "", string(all), "plain", "\"", "\\", "'", "\x00", "\x7f", "\x80", "\xff", "é", "€", "😀", "\xed\xa0\x80", "\xf4\x90\x80\x80", "\xc0\x80", "\xe2\x82", "a\xffb", " \u009f", "�", " ", "tab\there", "nl\nhere", "cr\rhere", "^[a-z\"\\\\]+$",
		// NUL followed by a digit / hex digit and NUL at the end (a \x escape that is not exactly two digits swallows or
		// leaves a digit)
		"\x000", "\x00f", "\x00A", "a\x00", "\x00\x00", "\x009z", "0\x000\x00")
	pieces := []string{"a", "Z", "0", " ", "\"", "\\", "'", "\n", "\t", "\r", "\x01", "\x1f", "\x7f", "\x80", "\xbf", "\xc2", "\xc3\xa9", "\xe2\x82\xac", "\xf0\x9f\x98\x80", "\xed\xa0\x80", "\xff", "\xfe", "\u0080", "߿", "ࠀ", "￿", "\U00010000", "\U0010ffff", "x1", "\\n", "\\x", "?", "\x00", "\x000", "\x00f", "\x00B", "7", "c"}
	for len(strs) < nLit {
		switch rl.Intn(3) {
		case 0:
			strs = append(strs, string(rl.Bytes(rl.Range(0, 12))))
		default:
			var sb strings.Builder
			for k := rl.Range(1, 8); k > 0; k-- {
				sb.WriteString(vh.Pick(rl, pieces))
			}
			strs = append(strs, sb.String())
		}
	}
	for _, s := range strs {
		caseNo++
		distinct.Add("str:" + s)
		res.Count("literal:string")
		lit := tool.PrototextString(s)
		// the real protocompile lexer on the printed literal (file option java_package; bytes round trip
		// needs valid UTF-8 for a string field, so invalid inputs are only checked against the model)
		lexOK, lexVal := lexWithProtocompile(ctx, lit)
		validUTF8 := utf8.ValidString(s)
		// the printed literal read back by the real text-format unescaper (google.golang.org/protobuf/encoding/prototext,
		// a bytes field as carrier: every byte string incl. NUL and invalid UTF-8 is a legal value): the bytes the
		// literal denotes must be the bytes it was printed from
		if back, err := prototextUnescape(lit); err != nil || back != s {
			res.Fail(vh.Failure{Case: caseNo, Stream: "literal", Sig: "C05 string literal printed by prototextString is not read back as the same bytes by the prototext unescaper", Clause: "every option and extension value", Input: fmt.Sprintf("%q", s), Got: fmt.Sprintf("literal %s read back as %q (err %v)", lit, back, err)})
		}
		if validUTF8 && (!lexOK || lexVal != s) {
			res.Fail(vh.Failure{Case: caseNo, Stream: "literal", Sig: "C05 string literal printed by prototextString is not read back by the protocompile lexer", Clause: "every option and extension value", Input: fmt.Sprintf("%q", s), Got: fmt.Sprintf("literal %s lexed ok=%v %q", lit, lexOK, lexVal)})
		}
		cf.Terms = append(cf.Terms, fmt.Sprintf("CStr %s %s", vh.BytesTerm(s), vh.BytesTerm(lit)))
		res.Cases = append(res.Cases, vh.CaseRec{Case: caseNo, Stream: "literal", Input: fmt.Sprintf("%q", s), Impl: lit})
		if len(s) > 0 && len(s) < 12 {
			res.Sample(map[string]any{"stream": "literal", "bytes": fmt.Sprintf("%q", s), "printed": lit}, 10)
		}
	}
	// integers through marshalSingular (field kinds of descriptor.proto messages serve as carriers)
	ints := []int64{0, 1, -1, 9, 10, -10, 99, 100, math.MaxInt32, math.MinInt32, math.MaxInt32 + 1, math.MinInt32 - 1, math.MaxInt64, math.MinInt64, math.MaxInt64 - 1, math.MinInt64 + 1}
	for len(ints) < cfg.Scale(200, 3000) {
		v := int64(rl.U64())
		if rl.Chance(50) {
			v >>= uint(rl.Intn(63))
		}
		ints = append(ints, v)
	}
	i64fd := (&descriptorpb.UninterpretedOption{}).ProtoReflect().Descriptor().Fields().ByName("negative_int_value")
	u64fd := (&descriptorpb.UninterpretedOption{}).ProtoReflect().Descriptor().Fields().ByName("positive_int_value")
	for _, v := range ints {
		caseNo++
		distinct.Add(fmt.Sprint("int:", v))
		res.Count("literal:int")
		s, ok := tool.MarshalSingular(i64fd, protoreflect.ValueOfInt64(v))
		if !ok {
			continue
		}
		cf.Terms = append(cf.Terms, fmt.Sprintf("CInt (%d)%%Z %s", v, vh.BytesTerm(s)))
		res.Cases = append(res.Cases, vh.CaseRec{Case: caseNo, Stream: "literal", Input: v, Impl: s})
		u := uint64(v)
		su, ok := tool.MarshalSingular(u64fd, protoreflect.ValueOfUint64(u))
		if !ok {
			continue
		}
		caseNo++
		res.Count("literal:uint")
		cf.Terms = append(cf.Terms, fmt.Sprintf("CUint %d %s", u, vh.BytesTerm(su)))
		res.Cases = append(res.Cases, vh.CaseRec{Case: caseNo, Stream: "literal", Input: u, Impl: su})
	}
	// scope shortening: random nestings, real contextRefName vs model, and the real resolver on the result
	rs := cfg.R.Fork("c05-scopes")
	nSc := cfg.Scale(250, 4000)
	for i := 0; i < nSc; i++ {
		caseNo++
		res.Count("scope")
		sc := genScopeCase(rs)
		distinct.Add("scope:" + sc.key())
		out, fail := sc.run(ctx)
		if fail != "" {
			class := fail
			if k := strings.Index(fail, "|"); k > 0 {
				class = fail[:k]
			}
			res.Count("scope:" + class)
			res.Fail(vh.Failure{Case: caseNo, Stream: "scope", Sig: "C05 type name printed by contextRefName " + class, Clause: "same fields (type)", Input: sc, Got: fail})
		}
		if out != nil {
			cf.Terms = append(cf.Terms, out.term)
			res.Cases = append(res.Cases, vh.CaseRec{Case: caseNo, Stream: "scope", Input: sc, Impl: out.impl})
		}
	}

	const per = 400
	shards, err := cf.WriteShards(cfg.Out, "cases", per)
	if err != nil {
		return err
	}
	for i := range res.Cases {
		res.Cases[i].Shard = fmt.Sprintf("cases_%d", i/per)
		res.Cases[i].Pos = i % per
	}
	// option values: a second family of shards with its own case type
	of := &vh.CasesFile{
		Header: "From Coq Require Import String List NArith ZArith.\nFrom J5V.model Require Import ProtoPrintLit ProtoPrint ProtoPrintCorr.",
		Type:   "c05opt",
		Check:  "c05_opt_check",
	}
	for i, c := range optCases {
		caseNo++
		res.Count("option-value")
		distinct.Add("opt:" + c.where + c.text)
		of.Terms = append(of.Terms, c.term)
		res.Cases = append(res.Cases, vh.CaseRec{Case: caseNo, Stream: "option-value", Shard: fmt.Sprintf("opts_%d", i/per), Pos: i % per, Input: c.where, Impl: c.text})
		if len(c.text) > 12 && len(c.text) < 90 {
			res.Sample(map[string]any{"stream": "option-value", "element": c.where, "printed": c.text}, 14)
		}
	}
	oshards, err := of.WriteShards(cfg.Out, "opts", per)
	if err != nil {
		return err
	}
	// file layer: a third family of shards (few, large cases)
	ff := &vh.CasesFile{
		Header: "From Coq Require Import String List NArith ZArith.\nFrom J5V.model Require Import ProtoPrintLit ProtoPrint ProtoLex ProtoPrintCorr ProtoPrintFile ProtoParseFile ProtoPrintFileX ProtoPrintFileCorr.",
		Type:   "c05file",
		Check:  "c05_file_check",
	}
	const perFile = 6
	pick := cfg.R.Fork("c05-file-pick")
	for _, stream := range []string{"hand-built", "repo-proto", "compiled"} {
		pend := pendingFiles[stream]
		for i := len(pend) - 1; i > 0; i-- { // Fisher-Yates with the run's PRNG
			j := pick.Intn(i + 1)
			pend[i], pend[j] = pend[j], pend[i]
		}
		for _, f := range pend {
			f()
		}
	}
	for i, c := range fileCases {
		caseNo++
		res.Count("file")
		distinct.Add("file:" + c.where + fmt.Sprint(c.toks, len(c.term)))
		ff.Terms = append(ff.Terms, c.term)
		res.Cases = append(res.Cases, vh.CaseRec{Case: caseNo, Stream: "file", Shard: fmt.Sprintf("files_%d", i/perFile), Pos: i % perFile, Input: c.where, Impl: fmt.Sprintf("%d tokens", c.toks)})
		res.Sample(map[string]any{"stream": "file", "file": c.where, "tokens": c.toks}, 18)
	}
	fshards, err := ff.WriteShards(cfg.Out, "files", perFile)
	if err != nil {
		return err
	}
	// byte level: a fifth family of shards
	bf := &vh.CasesFile{
		Header: "From Coq Require Import String List NArith ZArith.\nFrom J5V.model Require Import ProtoPrintLit ProtoPrint ProtoLex ProtoPrintCorr ProtoPrintFile ProtoPrintFileX ProtoPrintBytes ProtoPrintBytesCorr.",
		Type:   "c05bytes",
		Check:  "c05_bytes_check",
	}
	const perBytes = 5
	bpick := cfg.R.Fork("c05-bytes-pick")
	for i := len(pendingBytes) - 1; i > 0; i-- {
		j := bpick.Intn(i + 1)
		pendingBytes[i], pendingBytes[j] = pendingBytes[j], pendingBytes[i]
	}
	for _, f := range pendingBytes {
		f()
	}
	for i, c := range bytesCases {
		caseNo++
		res.Count("bytes")
		distinct.Add("bytes:" + c.where + fmt.Sprint(c.size, len(c.term)))
		bf.Terms = append(bf.Terms, c.term)
		res.Cases = append(res.Cases, vh.CaseRec{Case: caseNo, Stream: "bytes", Shard: fmt.Sprintf("bytes_%d", i/perBytes), Pos: i % perBytes, Input: c.where, Impl: fmt.Sprintf("%d bytes printed", c.size)})
		res.Sample(map[string]any{"stream": "bytes", "file": c.where, "bytes": c.size}, 6)
	}
	bshards, err := bf.WriteShards(cfg.Out, "bytes", perBytes)
	if err != nil {
		return err
	}
	// order decisions: a fourth family of shards
	od := &vh.CasesFile{
		Header: "From Coq Require Import String List NArith ZArith.\nFrom J5V.model Require Import ProtoPrintLit ProtoPrint ProtoPrintCorr ProtoPrintFile ProtoPrintFileCorr.",
		Type:   "c05order",
		Check:  "c05_order_check",
	}
	for i, t := range orders.terms {
		caseNo++
		res.Count("order-decision")
		od.Terms = append(od.Terms, t)
		res.Cases = append(res.Cases, vh.CaseRec{Case: caseNo, Stream: "order-decision", Shard: fmt.Sprintf("order_%d", i/per), Pos: i % per, Input: orders.where[i], Impl: t})
	}
	for _, f := range orders.fails {
		res.Notes = append(res.Notes, "order-decision: OptionsFor failed: "+trim(f, 120))
	}
	res.Distribution["order-decision:descriptors contributing new pairs"] = orders.files
	odshards, err := od.WriteShards(cfg.Out, "order", per)
	if err != nil {
		return err
	}
	res.Evaluations = caseNo
	res.Distinct = len(distinct)
	res.Shards = append(append(append(append(shards, oshards...), fshards...), odshards...), bshards...)
	return res.Write(cfg.Out)
}

// lexWithProtocompile parses a one-line file carrying the literal as a string file option and returns the value.
func lexWithProtocompile(ctx context.Context, lit string) (ok bool, val string) {
	defer func() {
		if recover() != nil {
			ok = false
		}
	}()
	src := "syntax = \"proto3\";\npackage lx.v1;\noption java_package = " + lit + ";\n"
	files, err := tool.ParseProto(ctx, map[string]string{"lx/v1/x.proto": src}, []string{"lx/v1/x.proto"})
	if err != nil || len(files) == 0 {
		return false, ""
	}
	opts, _ := files[0].Options().(*descriptorpb.FileOptions)
	return true, opts.GetJavaPackage()
}

// prototextUnescape reads a printed string literal with the real text-format parser of google.golang.org/protobuf
// (UninterpretedOption.string_value, a bytes field, is the carrier) and returns the bytes it denotes.
func prototextUnescape(lit string) (val string, err error) {
	defer func() {
		if p := recover(); p != nil {
			err = fmt.Errorf("panic: %v", p)
		}
	}()
	var m descriptorpb.UninterpretedOption
	if err := prototext.Unmarshal([]byte("string_value: "+lit), &m); err != nil {
		return "", err
	}
	return string(m.GetStringValue()), nil
}

package main

import (
	"fmt"

	"github.com/pentops/j5/lib/verifshim/tool"
	"google.golang.org/protobuf/reflect/protoreflect"
	"verifharness/vh"
)

// Order decisions of the printer, pair by pair (model/ProtoPrintFileCorr.v c05order): for every body of a printed
// file (the file's top-level elements, the body of a message in the order printMessage adds it, the fields of a
// real oneof, enum values, methods) the real sourceElements.Less on ordered pairs, and for every element the real
// optionsByLocation.Less on ordered pairs of its options. No token budget: every printed file contributes.

func elemKind(d protoreflect.Descriptor) int {
	switch d.(type) {
	case protoreflect.OneofDescriptor:
		return 1
	case protoreflect.MessageDescriptor:
		return 2
	case protoreflect.EnumDescriptor:
		return 3
	case protoreflect.ServiceDescriptor:
		return 4
	}
	return 0
}

type orderCollector struct {
	seen  vh.Distinct
	terms []string
	where []string
	max   int
	fails []string
	// per-file budget, so that every printed file of a run contributes pairs
	fileLeft int
	files    int
}

func (oc *orderCollector) body(where string, ds []protoreflect.Descriptor) {
	if len(ds) < 2 {
		return
	}
	for i := range ds {
		for j := range ds {
			if i == j || len(oc.terms) >= oc.max || oc.fileLeft <= 0 {
				continue
			}
			li := ds[i].ParentFile().SourceLocations().ByDescriptor(ds[i]).StartLine
			lj := ds[j].ParentFile().SourceLocations().ByDescriptor(ds[j]).StartLine
			if li < 0 || lj < 0 {
				continue
			}
			key := fmt.Sprintf("L %d %d %d %d %d %d", elemKind(ds[i]), li, ds[i].Index(), elemKind(ds[j]), lj, ds[j].Index())
			if _, dup := oc.seen[key]; dup {
				continue
			}
			oc.seen.Add(key)
			oc.fileLeft--
			obs := tool.ElementsLess(ds, i, j)
			oc.terms = append(oc.terms, fmt.Sprintf("CLess %d %d %d %d %d %d %v", elemKind(ds[i]), li, ds[i].Index(), elemKind(ds[j]), lj, ds[j].Index(), obs))
			oc.where = append(oc.where, where)
		}
	}
}

func (oc *orderCollector) options(d protoreflect.Descriptor) {
	trees, err := tool.OptionTrees(d)
	if err != nil || len(trees) < 2 {
		return
	}
	for i := range trees {
		for j := range trees {
			if i == j || len(oc.terms) >= oc.max || oc.fileLeft <= 0 {
				continue
			}
			a, b := trees[i], trees[j]
			la, lb := int32(0), int32(0)
			if a.HasLine {
				la = a.Line
			}
			if b.HasLine {
				lb = b.Line
			}
			if la < 0 || lb < 0 {
				continue
			}
			key := fmt.Sprintf("O %d %d %s %d %d %s", la, a.Index, a.FullName, lb, b.Index, b.FullName)
			if _, dup := oc.seen[key]; dup {
				continue
			}
			oc.seen.Add(key)
			oc.fileLeft--
			obs, err := tool.OptionsLess(d, i, j)
			if err != nil {
				oc.fails = append(oc.fails, err.Error())
				continue
			}
			oc.terms = append(oc.terms, fmt.Sprintf("COptLess %d %d %s %d %d %s %v", la, a.Index, qnameTerm(a.FullName), lb, b.Index, qnameTerm(b.FullName), obs))
			oc.where = append(oc.where, string(d.FullName()))
		}
	}
}

func (oc *orderCollector) message(m protoreflect.MessageDescriptor) {
	oc.options(m)
	var els []protoreflect.Descriptor
	for i := 0; i < m.Fields().Len(); i++ {
		f := m.Fields().Get(i)
		oc.options(f)
		if o := f.ContainingOneof(); o != nil && !o.IsSynthetic() {
			continue
		}
		els = append(els, f)
	}
	for i := 0; i < m.Oneofs().Len(); i++ {
		o := m.Oneofs().Get(i)
		if o.IsSynthetic() {
			continue
		}
		oc.options(o)
		var ofs []protoreflect.Descriptor
		for k := 0; k < o.Fields().Len(); k++ {
			ofs = append(ofs, o.Fields().Get(k))
		}
		oc.body(string(o.FullName()), ofs)
		els = append(els, o)
	}
	for i := 0; i < m.Messages().Len(); i++ {
		n := m.Messages().Get(i)
		if n.IsMapEntry() {
			continue
		}
		els = append(els, n)
		oc.message(n)
	}
	for i := 0; i < m.Enums().Len(); i++ {
		els = append(els, m.Enums().Get(i))
		oc.enum(m.Enums().Get(i))
	}
	oc.body(string(m.FullName()), els)
}

func (oc *orderCollector) enum(e protoreflect.EnumDescriptor) {
	oc.options(e)
	var vs []protoreflect.Descriptor
	for i := 0; i < e.Values().Len(); i++ {
		vs = append(vs, e.Values().Get(i))
		oc.options(e.Values().Get(i))
	}
	oc.body(string(e.FullName()), vs)
}

func (oc *orderCollector) file(fd protoreflect.FileDescriptor) {
	oc.fileLeft = 12
	before := len(oc.terms)
	defer func() {
		if len(oc.terms) > before {
			oc.files++
		}
	}()
	var tops []protoreflect.Descriptor
	for i := 0; i < fd.Messages().Len(); i++ {
		tops = append(tops, fd.Messages().Get(i))
		oc.message(fd.Messages().Get(i))
	}
	for i := 0; i < fd.Services().Len(); i++ {
		s := fd.Services().Get(i)
		tops = append(tops, s)
		oc.options(s)
		var ms []protoreflect.Descriptor
		for k := 0; k < s.Methods().Len(); k++ {
			ms = append(ms, s.Methods().Get(k))
			oc.options(s.Methods().Get(k))
		}
		oc.body(string(s.FullName()), ms)
	}
	for i := 0; i < fd.Enums().Len(); i++ {
		tops = append(tops, fd.Enums().Get(i))
		oc.enum(fd.Enums().Get(i))
	}
	oc.body(fd.Path(), tops)
}

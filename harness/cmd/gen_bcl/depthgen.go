package main

import (
	"fmt"
	"go/ast"
	"go/token"
	"go/types"
	"path/filepath"
	"strings"

	"verifharness/gen"
)

func init() { gen.Register("BclDepthGen.v", genDepth) }

// BclDepthGen.v: the recursion bound of popValue as data: the constant maxValueDepth, the guard
// condition (the if statement that mentions it) as a lib/GoExpr term, whether the guard's body
// returns and stands before the first recursive call, and the statements that change ww.depth.
func genDepth(repo string) (string, error) {
	path := filepath.Join(repo, "internal/bcl/internal/parser/parser.go")
	_, f, err := gen.ParseFile(path)
	if err != nil {
		return "", err
	}
	konst := ""
	for _, d := range f.Decls {
		gd, ok := d.(*ast.GenDecl)
		if !ok || gd.Tok != token.CONST {
			continue
		}
		for _, sp := range gd.Specs {
			vs := sp.(*ast.ValueSpec)
			for i, n := range vs.Names {
				if n.Name == "maxValueDepth" && i < len(vs.Values) {
					if bl, ok := vs.Values[i].(*ast.BasicLit); ok && bl.Kind == token.INT {
						konst = bl.Value
					}
				}
			}
		}
	}
	if konst == "" {
		return "", fmt.Errorf("parser.go: const maxValueDepth (integer literal) not found")
	}
	var guard ast.Expr
	guardReturns := false
	var guardPos, recPos token.Pos
	var steps []string
	for _, d := range f.Decls {
		fd, ok := d.(*ast.FuncDecl)
		if !ok || fd.Name.Name != "popValue" {
			continue
		}
		ast.Inspect(fd.Body, func(n ast.Node) bool {
			switch x := n.(type) {
			case *ast.IfStmt:
				mentions := false
				ast.Inspect(x.Cond, func(m ast.Node) bool {
					if id, ok := m.(*ast.Ident); ok && id.Name == "maxValueDepth" {
						mentions = true
					}
					return true
				})
				if mentions {
					if guard != nil {
						guard = &ast.BadExpr{} // more than one: the lemma fails on the shape
					} else {
						guard = x.Cond
						guardPos = x.Pos()
						for _, st := range x.Body.List {
							if _, ok := st.(*ast.ReturnStmt); ok {
								guardReturns = true
							}
						}
					}
				}
			case *ast.CallExpr:
				if se, ok := x.Fun.(*ast.SelectorExpr); ok && se.Sel.Name == "popValue" && recPos == token.NoPos {
					recPos = x.Pos()
				}
			case *ast.IncDecStmt:
				steps = append(steps, fmt.Sprintf("(%s, %s)", gen.CoqString(types.ExprString(x.X)), gen.CoqString(x.Tok.String())))
			case *ast.AssignStmt:
				for _, l := range x.Lhs {
					if types.ExprString(l) == "ww.depth" {
						steps = append(steps, fmt.Sprintf("(%s, %s)", gen.CoqString("ww.depth"), gen.CoqString(x.Tok.String())))
					}
				}
			}
			return true
		})
	}
	if guard == nil {
		return "", fmt.Errorf("parser.go: popValue has no condition on maxValueDepth")
	}
	var sb strings.Builder
	sb.WriteString("From Coq Require Import String List NArith ZArith.\nFrom J5V.lib Require Import GoExpr.\nImport ListNotations.\nLocal Open Scope string_scope.\n\n")
	fmt.Fprintf(&sb, "(* parser.go: const maxValueDepth *)\nDefinition max_value_depth : Z := %s%%Z.\n", konst)
	fmt.Fprintf(&sb, "(* popValue: the condition of the if statement that mentions maxValueDepth *)\nDefinition pop_value_guard : gexpr := %s.\n", gexpr(guard))
	fmt.Fprintf(&sb, "(* its body returns; it stands before the first recursive call of popValue *)\nDefinition pop_value_guard_returns : bool := %v.\nDefinition pop_value_guard_before_recursion : bool := %v.\n", guardReturns, recPos != token.NoPos && guardPos < recPos)
	fmt.Fprintf(&sb, "(* statements of popValue that change a counter, in source order (the second is inside the deferred function) *)\nDefinition pop_value_depth_steps : list (string * string) := [%s].\n", strings.Join(steps, "; "))
	return sb.String(), nil
}

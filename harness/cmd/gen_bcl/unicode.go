package main

import (
	"fmt"
	"strings"
	"unicode"

	"verifharness/gen"
)

func init() { gen.Register("UnicodeGen.v", genUnicode) }

func ranges(p func(rune) bool) string {
	var sb strings.Builder
	sb.WriteString("[")
	first := true
	n := 0
	for r := rune(0); r <= unicode.MaxRune+1; r++ {
		if r <= unicode.MaxRune && p(r) {
			lo := r
			for r+1 <= unicode.MaxRune && p(r+1) {
				r++
			}
			if !first {
				sb.WriteString(";")
				if n%6 == 0 {
					sb.WriteString("\n ")
				}
			}
			first = false
			n++
			fmt.Fprintf(&sb, "(%d,%d)", lo, r)
		}
	}
	sb.WriteString("]")
	return sb.String()
}

// UnicodeGen.v: the unicode predicates the lexer and the formatter call, as sorted
// disjoint range tables computed from the Go toolchain's unicode package (the
// toolchain that builds /repo builds this translator).
func genUnicode(repo string) (string, error) {
	var sb strings.Builder
	sb.WriteString("From Coq Require Import List NArith.\nImport ListNotations.\nLocal Open Scope N_scope.\n")
	fmt.Fprintf(&sb, "(* unicode.Version = %s *)\n", unicode.Version)
	fmt.Fprintf(&sb, "Definition space_ranges : list (N * N) :=\n %s.\n", ranges(unicode.IsSpace))
	fmt.Fprintf(&sb, "Definition digit_ranges : list (N * N) :=\n %s.\n", ranges(unicode.IsDigit))
	fmt.Fprintf(&sb, "Definition letter_ranges : list (N * N) :=\n %s.\n", ranges(unicode.IsLetter))
	fmt.Fprintf(&sb, "Definition max_rune : N := %d.\n", unicode.MaxRune)
	return sb.String(), nil
}

package main

import (
	"fmt"
	"go/ast"
	"go/token"
	"go/types"
	"path/filepath"
	"strconv"
	"strings"

	"verifharness/gen"
)

func init() { gen.Register("BclFmtGen.v", genFmt) }

// BclFmtGen.v: the decisions of the formatter as data. For every function of
// internal/bcl/internal/parser/fmt.go and description.go, in source order: the conditions of its
// if statements, its return expressions, its assignments, the fields of every FmtDiff{...} literal,
// its newToken(TYPE, "lit") calls and the arguments of the library / helper calls it makes, each Go
// expression translated structurally into lib/GoExpr.gexpr (operands and callees by their printed
// source text); the arms of tokenSource's switch; the pairs of stringEscaper.
// proofs/BclFmtGenProofs.v evaluates these against the model functions of model/BclFmt.v.
func genFmt(repo string) (string, error) {
	dir := filepath.Join(repo, "internal/bcl/internal/parser")
	code, err := tokenCodes(dir)
	if err != nil {
		return "", err
	}
	var sb strings.Builder
	sb.WriteString("From Coq Require Import String List NArith ZArith.\nFrom J5V.lib Require Import GoExpr.\nImport ListNotations.\nLocal Open Scope string_scope.\n\n")

	type fn struct {
		key     string
		conds   []string
		rets    []string
		assigns []string
		diffs   []string
		toks    []string
		calls   []string
	}
	var fns []fn
	var arms []string
	var pairs []string
	watched := map[string]bool{"reformatDescription": true, "p.multiLineToken": true, "p.singleLineTokens": true,
		"strings.TrimRight": true, "strings.Repeat": true, "strings.Join": true, "strings.Split": true,
		"strings.TrimSpace": true, "strings.Fields": true, "lines.rangeLines": true, "fmt.Sprintf": true,
		"strings.ReplaceAll": true, "stringEscaper.Replace": true, "tokenSource": true, "inlineComment": true}

	for _, file := range []string{"fmt.go", "description.go"} {
		_, f, err := gen.ParseFile(filepath.Join(dir, file))
		if err != nil {
			return "", err
		}
		// var stringEscaper = strings.NewReplacer(k, v, ...)
		for _, d := range f.Decls {
			gd, ok := d.(*ast.GenDecl)
			if !ok || gd.Tok != token.VAR {
				continue
			}
			for _, sp := range gd.Specs {
				vs := sp.(*ast.ValueSpec)
				for i, n := range vs.Names {
					if n.Name != "stringEscaper" || i >= len(vs.Values) {
						continue
					}
					ce, ok := vs.Values[i].(*ast.CallExpr)
					if !ok || types.ExprString(ce.Fun) != "strings.NewReplacer" || len(ce.Args)%2 != 0 {
						return "", fmt.Errorf("fmt.go: stringEscaper is not strings.NewReplacer(pairs...)")
					}
					for k := 0; k < len(ce.Args); k += 2 {
						a, ok1 := strLit(ce.Args[k])
						b, ok2 := strLit(ce.Args[k+1])
						if !ok1 || !ok2 {
							return "", fmt.Errorf("fmt.go: stringEscaper argument is not a string literal")
						}
						pairs = append(pairs, fmt.Sprintf("(%s%%N, %s%%N)", gen.NList([]byte(a)), gen.NList([]byte(b))))
					}
				}
			}
		}
		for _, d := range f.Decls {
			fd, ok := d.(*ast.FuncDecl)
			if !ok || fd.Body == nil {
				continue
			}
			x := fn{key: file + ":" + fd.Name.Name}
			var bad error
			ast.Inspect(fd.Body, func(n ast.Node) bool {
				switch s := n.(type) {
				case *ast.IfStmt:
					x.conds = append(x.conds, gexpr(s.Cond))
				case *ast.ForStmt:
					if s.Cond != nil {
						x.conds = append(x.conds, gexpr(s.Cond))
					}
				case *ast.ReturnStmt:
					if len(s.Results) > 0 {
						x.rets = append(x.rets, gexpr(s.Results[0]))
					}
				case *ast.IncDecStmt:
					x.assigns = append(x.assigns, fmt.Sprintf("(%s, %s, GInt 1%%Z)", gen.CoqString(types.ExprString(s.X)), gen.CoqString(s.Tok.String())))
				case *ast.AssignStmt:
					if len(s.Lhs) == 1 && len(s.Rhs) == 1 {
						x.assigns = append(x.assigns, fmt.Sprintf("(%s, %s, %s)", gen.CoqString(types.ExprString(s.Lhs[0])), gen.CoqString(s.Tok.String()), gexpr(s.Rhs[0])))
					}
				case *ast.CompositeLit:
					if id, ok := s.Type.(*ast.Ident); ok && id.Name == "FmtDiff" {
						var fs []string
						for _, el := range s.Elts {
							kv, ok := el.(*ast.KeyValueExpr)
							if !ok {
								bad = fmt.Errorf("%s: FmtDiff literal without field names", x.key)
								return false
							}
							fs = append(fs, fmt.Sprintf("(%s, %s)", gen.CoqString(types.ExprString(kv.Key)), gexpr(kv.Value)))
						}
						x.diffs = append(x.diffs, "["+strings.Join(fs, "; ")+"]")
					}
				case *ast.CallExpr:
					name := types.ExprString(s.Fun)
					if name == "newToken" && len(s.Args) == 2 {
						id, ok := s.Args[0].(*ast.Ident)
						lit, ok2 := strLit(s.Args[1])
						if ok && ok2 {
							if c, known := code[id.Name]; known {
								x.toks = append(x.toks, fmt.Sprintf("(%d%%N, %s%%N)", c, gen.NList([]byte(lit))))
							} else {
								bad = fmt.Errorf("%s: newToken with unknown token type %s", x.key, id.Name)
							}
						}
					}
					if watched[name] {
						var as []string
						for _, a := range s.Args {
							as = append(as, gexpr(a))
						}
						x.calls = append(x.calls, fmt.Sprintf("(%s, [%s])", gen.CoqString(name), strings.Join(as, "; ")))
					}
				}
				return true
			})
			if bad != nil {
				return "", bad
			}
			// the arms of tokenSource's switch: (case labels, returned expression)
			if fd.Name.Name == "tokenSource" {
				for _, st := range fd.Body.List {
					sw, ok := st.(*ast.SwitchStmt)
					if !ok {
						continue
					}
					if types.ExprString(sw.Tag) != "tok.Type" {
						return "", fmt.Errorf("fmt.go: tokenSource does not switch on tok.Type")
					}
					for _, c := range sw.Body.List {
						cc := c.(*ast.CaseClause)
						var labels []string
						for _, e := range cc.List {
							id, ok := e.(*ast.Ident)
							if !ok {
								return "", fmt.Errorf("fmt.go: tokenSource case label is not an identifier")
							}
							v, known := code[id.Name]
							if !known {
								return "", fmt.Errorf("fmt.go: tokenSource case label %s is not a TokenType", id.Name)
							}
							labels = append(labels, strconv.Itoa(v))
						}
						if len(cc.Body) != 1 {
							return "", fmt.Errorf("fmt.go: tokenSource arm is not a single return")
						}
						rs, ok := cc.Body[0].(*ast.ReturnStmt)
						if !ok || len(rs.Results) != 1 {
							return "", fmt.Errorf("fmt.go: tokenSource arm is not a single return")
						}
						arms = append(arms, fmt.Sprintf("([%s]%%N, %s)", strings.Join(labels, "; "), gexpr(rs.Results[0])))
					}
				}
			}
			fns = append(fns, x)
		}
	}
	if len(pairs) == 0 {
		return "", fmt.Errorf("fmt.go: var stringEscaper not found")
	}
	if len(arms) == 0 {
		return "", fmt.Errorf("fmt.go: tokenSource switch not found")
	}
	table := func(name, typ string, get func(fn) []string) {
		fmt.Fprintf(&sb, "Definition %s : list (string * list %s) := [\n", name, typ)
		first := true
		for _, x := range fns {
			l := get(x)
			if len(l) == 0 {
				continue
			}
			if !first {
				sb.WriteString(";\n")
			}
			first = false
			fmt.Fprintf(&sb, "  (%s, [%s])", gen.CoqString(x.key), strings.Join(l, ";\n     "))
		}
		sb.WriteString("\n].\n\n")
	}
	sb.WriteString("(* conditions of the if / for statements per function, in source order *)\n")
	table("fmt_conds", "gexpr", func(x fn) []string { return x.conds })
	sb.WriteString("(* first result of every return statement per function, in source order *)\n")
	table("fmt_returns", "gexpr", func(x fn) []string { return x.rets })
	sb.WriteString("(* single assignments and ++ / -- per function: (left side, operator, right side) *)\n")
	table("fmt_assigns", "(string * string * gexpr)", func(x fn) []string { return x.assigns })
	sb.WriteString("(* fields of every FmtDiff{...} literal per function *)\n")
	table("fmt_diff_literals", "(list (string * gexpr))", func(x fn) []string { return x.diffs })
	sb.WriteString("(* newToken(TYPE, literal) calls per function: (token type value, literal bytes) *)\n")
	table("fmt_new_tokens", "(N * list N)", func(x fn) []string { return x.toks })
	sb.WriteString("(* arguments of the library / helper calls per function: (callee, arguments) *)\n")
	table("fmt_calls", "(string * list gexpr)", func(x fn) []string { return x.calls })
	sb.WriteString("(* tokenSource: (case labels as TokenType values, returned expression); the final return is in fmt_returns *)\n")
	fmt.Fprintf(&sb, "Definition token_source_arms : list (list N * gexpr) := [\n  %s\n].\n\n", strings.Join(arms, ";\n  "))
	sb.WriteString("(* var stringEscaper = strings.NewReplacer(old, new, ...) *)\n")
	fmt.Fprintf(&sb, "Definition string_escaper_pairs : list (list N * list N) := [%s].\n", strings.Join(pairs, "; "))
	return sb.String(), nil
}

func strLit(e ast.Expr) (string, bool) {
	bl, ok := e.(*ast.BasicLit)
	if !ok || bl.Kind != token.STRING {
		return "", false
	}
	s, err := strconv.Unquote(bl.Value)
	return s, err == nil
}

// gexpr translates a Go expression structurally into a lib/GoExpr.gexpr term.
func gexpr(e ast.Expr) string {
	switch x := e.(type) {
	case *ast.ParenExpr:
		return gexpr(x.X)
	case *ast.BasicLit:
		switch x.Kind {
		case token.INT:
			return fmt.Sprintf("GInt %s%%Z", x.Value)
		case token.STRING:
			s, err := strconv.Unquote(x.Value)
			if err == nil {
				return "GStr " + gen.NList([]byte(s)) + "%N"
			}
		case token.CHAR:
			s, err := strconv.Unquote(x.Value)
			if err == nil {
				return "GStr " + gen.NList([]byte(s)) + "%N"
			}
		}
	case *ast.UnaryExpr:
		if x.Op == token.SUB {
			if bl, ok := x.X.(*ast.BasicLit); ok && bl.Kind == token.INT {
				return fmt.Sprintf("GInt (-%s)%%Z", bl.Value)
			}
			return fmt.Sprintf("GBin \"-\" (GInt 0%%Z) (%s)", gexpr(x.X))
		}
		if x.Op == token.NOT {
			return fmt.Sprintf("GNot (%s)", gexpr(x.X))
		}
	case *ast.BinaryExpr:
		return fmt.Sprintf("GBin %s (%s) (%s)", gen.CoqString(x.Op.String()), gexpr(x.X), gexpr(x.Y))
	case *ast.Ident, *ast.SelectorExpr, *ast.IndexExpr, *ast.StarExpr:
		return "GVar " + gen.CoqString(types.ExprString(e))
	case *ast.SliceExpr:
		if x.Low != nil && x.High != nil && !x.Slice3 {
			return fmt.Sprintf("GCall \"slice\" [%s; %s; %s]", gexpr(x.X), gexpr(x.Low), gexpr(x.High))
		}
	case *ast.CallExpr:
		var as []string
		for _, a := range x.Args {
			as = append(as, gexpr(a))
		}
		return fmt.Sprintf("GCall %s [%s]", gen.CoqString(types.ExprString(x.Fun)), strings.Join(as, "; "))
	}
	return fmt.Sprintf("GCall %s []", gen.CoqString("?"+types.ExprString(e)))
}

// tokenCodes reads the TokenType iota block of token.go: identifier -> value.
func tokenCodes(dir string) (map[string]int, error) {
	_, f, err := gen.ParseFile(filepath.Join(dir, "token.go"))
	if err != nil {
		return nil, err
	}
	code := map[string]int{}
	for _, d := range f.Decls {
		gd, ok := d.(*ast.GenDecl)
		if !ok || gd.Tok != token.CONST || len(gd.Specs) == 0 {
			continue
		}
		vs0 := gd.Specs[0].(*ast.ValueSpec)
		if len(vs0.Values) != 1 {
			continue
		}
		if id, ok := vs0.Values[0].(*ast.Ident); !ok || id.Name != "iota" {
			continue
		}
		if t, ok := vs0.Type.(*ast.Ident); !ok || t.Name != "TokenType" {
			continue
		}
		n := 0
		for i, sp := range gd.Specs {
			vs := sp.(*ast.ValueSpec)
			if i > 0 && len(vs.Values) != 0 {
				return nil, fmt.Errorf("token.go: const %s has an explicit value", vs.Names[0].Name)
			}
			for _, nm := range vs.Names {
				code[nm.Name] = n
				n++
			}
		}
	}
	if len(code) == 0 {
		return nil, fmt.Errorf("token.go: TokenType iota block not found")
	}
	return code, nil
}

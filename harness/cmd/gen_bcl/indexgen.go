package main

import (
	"fmt"
	"go/ast"
	"go/token"
	"go/types"
	"path/filepath"
	"strings"

	"verifharness/gen"
)

func init() { gen.Register("BclIndexGen.v", genIndexSites) }

// BclIndexGen.v: every expression of the anchored files that can panic at run time by itself — index
// expressions, slice expressions, single-value type assertions, integer division / remainder, explicit
// panic( calls — as (file, enclosing function, kind, printed expression), in source order. Map reads
// cannot be told from slice indexing without type information: they are listed too and reviewed as such.
// proofs/BclPanicSitesProofs.v holds the reviewed list with, for each site, the way the model covers it.
func genIndexSites(repo string) (string, error) {
	files := []string{"internal/bcl/internal/parser/lexer.go", "internal/bcl/internal/parser/token.go",
		"internal/bcl/internal/parser/parser.go", "internal/bcl/internal/parser/errors.go",
		"internal/bcl/internal/parser/expressions.go", "internal/bcl/internal/parser/fmt.go",
		"internal/bcl/internal/parser/description.go", "internal/bcl/errpos/print.go", "internal/bcl/errpos/errors.go"}
	var rows []string
	for _, fn := range files {
		_, pf, err := gen.ParseFile(filepath.Join(repo, fn))
		if err != nil {
			return "", err
		}
		base := filepath.Base(filepath.Dir(fn)) + "/" + filepath.Base(fn)
		for _, d := range pf.Decls {
			fd, ok := d.(*ast.FuncDecl)
			if !ok || fd.Body == nil {
				continue
			}
			name := fd.Name.Name
			if fd.Recv != nil && len(fd.Recv.List) == 1 {
				name = strings.TrimPrefix(types.ExprString(fd.Recv.List[0].Type), "*") + "." + name
			}
			// type assertions with the comma-ok form or inside a type switch do not panic
			safe := map[ast.Node]bool{}
			ast.Inspect(fd.Body, func(n ast.Node) bool {
				switch x := n.(type) {
				case *ast.AssignStmt:
					if len(x.Lhs) == 2 && len(x.Rhs) == 1 {
						if ta, ok := x.Rhs[0].(*ast.TypeAssertExpr); ok {
							safe[ta] = true
						}
					}
				case *ast.ValueSpec:
					if len(x.Names) == 2 && len(x.Values) == 1 {
						if ta, ok := x.Values[0].(*ast.TypeAssertExpr); ok {
							safe[ta] = true
						}
					}
				case *ast.TypeSwitchStmt:
					ast.Inspect(x.Assign, func(m ast.Node) bool {
						if ta, ok := m.(*ast.TypeAssertExpr); ok {
							safe[ta] = true
						}
						return true
					})
				}
				return true
			})
			add := func(kind string, e ast.Node) {
				var txt string
				if ex, ok := e.(ast.Expr); ok {
					txt = types.ExprString(ex)
				}
				rows = append(rows, fmt.Sprintf("(%s, %s, %s, %s)", gen.CoqString(base), gen.CoqString(name), gen.CoqString(kind), gen.CoqString(txt)))
			}
			ast.Inspect(fd.Body, func(n ast.Node) bool {
				switch x := n.(type) {
				case *ast.IndexExpr:
					add("index", x)
				case *ast.SliceExpr:
					add("slice", x)
				case *ast.TypeAssertExpr:
					if !safe[x] && x.Type != nil {
						add("assert", x)
					}
				case *ast.BinaryExpr:
					if x.Op == token.QUO || x.Op == token.REM {
						add("div", x)
					}
				case *ast.CallExpr:
					if id, ok := x.Fun.(*ast.Ident); ok && id.Name == "panic" {
						add("panic", x.Fun)
					}
				}
				return true
			})
		}
	}
	var sb strings.Builder
	sb.WriteString("From Coq Require Import String List.\nImport ListNotations.\nLocal Open Scope string_scope.\n\n")
	sb.WriteString("(* (file, function, kind, expression): index / slice / assert / div / panic, in source order *)\n")
	fmt.Fprintf(&sb, "Definition panic_capable_sites : list (string * string * string * string) := [\n  %s\n].\n", strings.Join(rows, ";\n  "))
	return sb.String(), nil
}

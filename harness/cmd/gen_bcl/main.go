// gen_bcl: translator for the bcl family (coq/gen/TokensGen.v, coq/gen/UnicodeGen.v).
package main

import "verifharness/gen"

func main() { gen.Main() }

package main

import (
	"fmt"
	"go/ast"
	"go/token"
	"path/filepath"
	"sort"
	"strconv"
	"strings"

	"github.com/pentops/j5/lib/verifshim/bcl"
	"verifharness/gen"
)

func init() { gen.Register("TokensGen.v", genTokens) }

// TokensGen.v: the token enumeration of internal/bcl/internal/parser/token.go
// (const block order = iota values), the `tokens` name table, the operator table
// derived from it exactly as init() does, the sets tested by CanStartTag /
// IsLiteral / IsKeyword, the walker's switch arms of nextFragment, and the
// explicit panic( sites of the anchored files.
func genTokens(repo string) (string, error) {
	dir := filepath.Join(repo, "internal/bcl/internal/parser")
	_, f, err := gen.ParseFile(filepath.Join(dir, "token.go"))
	if err != nil {
		return "", err
	}
	// const block with iota
	var names []string
	for _, d := range f.Decls {
		gd, ok := d.(*ast.GenDecl)
		if !ok || gd.Tok != token.CONST {
			continue
		}
		isEnum := false
		for i, sp := range gd.Specs {
			vs := sp.(*ast.ValueSpec)
			if i == 0 {
				if len(vs.Values) == 1 {
					if id, ok := vs.Values[0].(*ast.Ident); ok && id.Name == "iota" {
						if t, ok := vs.Type.(*ast.Ident); ok && t.Name == "TokenType" {
							isEnum = true
						}
					}
				}
				if !isEnum {
					break
				}
			} else if len(vs.Values) != 0 {
				return "", fmt.Errorf("token.go: const %s has an explicit value", vs.Names[0].Name)
			}
			for _, n := range vs.Names {
				names = append(names, n.Name)
			}
		}
	}
	if len(names) == 0 {
		return "", fmt.Errorf("token.go: TokenType iota block not found")
	}
	code := map[string]int{}
	for i, n := range names {
		code[n] = i
	}
	// tokens array
	text := map[int]string{}
	for _, d := range f.Decls {
		gd, ok := d.(*ast.GenDecl)
		if !ok || gd.Tok != token.VAR {
			continue
		}
		for _, sp := range gd.Specs {
			vs := sp.(*ast.ValueSpec)
			if len(vs.Names) != 1 || vs.Names[0].Name != "tokens" || len(vs.Values) != 1 {
				continue
			}
			cl, ok := vs.Values[0].(*ast.CompositeLit)
			if !ok {
				return "", fmt.Errorf("token.go: tokens is not a composite literal")
			}
			for _, el := range cl.Elts {
				kv, ok := el.(*ast.KeyValueExpr)
				if !ok {
					return "", fmt.Errorf("token.go: tokens has a positional element")
				}
				k, ok := kv.Key.(*ast.Ident)
				bl, ok2 := kv.Value.(*ast.BasicLit)
				if !ok || !ok2 {
					return "", fmt.Errorf("token.go: tokens element not IDENT: \"lit\"")
				}
				c, known := code[k.Name]
				if !known {
					return "", fmt.Errorf("token.go: tokens key %s is not a TokenType constant", k.Name)
				}
				s, err := strconv.Unquote(bl.Value)
				if err != nil {
					return "", err
				}
				text[c] = s
			}
		}
	}
	between := func(a, b string) []int {
		var out []int
		for i := code[a] + 1; i < code[b]; i++ {
			out = append(out, i)
		}
		return out
	}
	// CanStartTag: tok == A || tok == B ...
	var canStart []int
	var funcsSeen []string
	for _, d := range f.Decls {
		fd, ok := d.(*ast.FuncDecl)
		if !ok {
			continue
		}
		funcsSeen = append(funcsSeen, fd.Name.Name)
		if fd.Name.Name != "CanStartTag" {
			continue
		}
		ast.Inspect(fd.Body, func(n ast.Node) bool {
			be, ok := n.(*ast.BinaryExpr)
			if ok && be.Op == token.EQL {
				if id, ok := be.Y.(*ast.Ident); ok {
					if c, known := code[id.Name]; known {
						canStart = append(canStart, c)
					}
				}
			}
			return true
		})
	}
	sort.Ints(canStart)
	if len(canStart) == 0 {
		return "", fmt.Errorf("token.go: CanStartTag set not found")
	}

	var sb strings.Builder
	sb.WriteString("From Coq Require Import List NArith String.\nImport ListNotations.\nLocal Open Scope N_scope.\nLocal Open Scope string_scope.\n")
	sb.WriteString("(* internal/bcl/internal/parser/token.go: TokenType constants in iota order *)\n")
	sb.WriteString("Definition token_names : list (N * string) := [\n")
	for i, n := range names {
		sep := ";"
		if i == len(names)-1 {
			sep = ""
		}
		fmt.Fprintf(&sb, "  (%d, %s)%s\n", i, gen.CoqString(n), sep)
	}
	sb.WriteString("].\n")
	sb.WriteString("(* the `tokens` array: TokenType value -> printed text (bytes) *)\n")
	sb.WriteString("Definition token_text : list (N * list N) := [\n")
	var keys []int
	for k := range text {
		keys = append(keys, k)
	}
	sort.Ints(keys)
	for i, k := range keys {
		sep := ";"
		if i == len(keys)-1 {
			sep = ""
		}
		fmt.Fprintf(&sb, "  (%d, %s)%s (* %s *)\n", k, gen.NList([]byte(text[k])), sep, names[k])
	}
	sb.WriteString("].\n")
	ilist := func(xs []int) string {
		var p []string
		for _, x := range xs {
			p = append(p, strconv.Itoa(x))
		}
		return "[" + strings.Join(p, ";") + "]"
	}
	sb.WriteString("(* operators[rune(tokens[i][0])] = i for operator_beg < i < operator_end (init()) *)\n")
	sb.WriteString("Definition operators : list (N * N) := [")
	ops := between("operator_beg", "operator_end")
	type op struct{ r, c int }
	var opl []op
	for _, c := range ops {
		if text[c] == "" {
			return "", fmt.Errorf("token.go: operator %s has no text", names[c])
		}
		opl = append(opl, op{int(text[c][0]), c})
	}
	sort.Slice(opl, func(i, j int) bool { return opl[i].r < opl[j].r })
	for i, o := range opl {
		if i > 0 {
			sb.WriteString(";")
		}
		fmt.Fprintf(&sb, "(%d,%d)", o.r, o.c)
	}
	sb.WriteString("].\n")
	// the same table as the running program has it
	rt := bcl.Operators()
	var rtl []op
	for r, c := range rt {
		rtl = append(rtl, op{int(r), c})
	}
	sort.Slice(rtl, func(i, j int) bool { return rtl[i].r < rtl[j].r })
	sb.WriteString("(* the operators map of the built package (via the verif shim) *)\nDefinition operators_runtime : list (N * N) := [")
	for i, o := range rtl {
		if i > 0 {
			sb.WriteString(";")
		}
		fmt.Fprintf(&sb, "(%d,%d)", o.r, o.c)
	}
	sb.WriteString("].\n")
	fmt.Fprintf(&sb, "Definition literals : list N := %s. (* literal_beg < t < literal_end *)\n", ilist(between("literal_beg", "literal_end")))
	fmt.Fprintf(&sb, "Definition keywords : list N := %s. (* keyword_beg < t < keyword_end *)\n", ilist(between("keyword_beg", "keyword_end")))
	fmt.Fprintf(&sb, "Definition can_start_tag : list N := %s.\n", ilist(canStart))

	// nextFragment switch arms and explicit panics in the anchored files
	arms, err := switchArms(filepath.Join(dir, "parser.go"), "nextFragment", code)
	if err != nil {
		return "", err
	}
	sb.WriteString("(* parser.go nextFragment: case labels of its switch, one list per arm, in source order *)\n")
	sb.WriteString("Definition next_fragment_arms : list (list N) := [")
	for i, a := range arms {
		if i > 0 {
			sb.WriteString("; ")
		}
		sb.WriteString(ilist(a))
	}
	sb.WriteString("].\n")
	arms, err = switchArms(filepath.Join(dir, "parser.go"), "walkStatement", code)
	if err != nil {
		return "", err
	}
	sb.WriteString("(* parser.go walkStatement: case labels of its final switch *)\n")
	sb.WriteString("Definition walk_statement_arms : list (list N) := [")
	for i, a := range arms {
		if i > 0 {
			sb.WriteString("; ")
		}
		sb.WriteString(ilist(a))
	}
	sb.WriteString("].\n")

	// maxValueDepth in parser.go
	_, pf0, err := gen.ParseFile(filepath.Join(dir, "parser.go"))
	if err != nil {
		return "", err
	}
	depth := ""
	for _, d := range pf0.Decls {
		gd, ok := d.(*ast.GenDecl)
		if !ok || gd.Tok != token.CONST {
			continue
		}
		for _, sp := range gd.Specs {
			vs := sp.(*ast.ValueSpec)
			for i, n := range vs.Names {
				if n.Name == "maxValueDepth" && i < len(vs.Values) {
					if bl, ok := vs.Values[i].(*ast.BasicLit); ok && bl.Kind == token.INT {
						depth = bl.Value
					}
				}
			}
		}
	}
	if depth == "" {
		return "", fmt.Errorf("parser.go: const maxValueDepth (integer literal) not found")
	}
	fmt.Fprintf(&sb, "(* parser.go: const maxValueDepth *)\nDefinition max_value_depth : N := %s.\n", depth)
	// every call of popValue inside popValue must be guarded by the depth check: count recursive calls and depth tests
	rec, guard := 0, 0
	for _, d := range pf0.Decls {
		fd, ok := d.(*ast.FuncDecl)
		if !ok || fd.Name.Name != "popValue" {
			continue
		}
		ast.Inspect(fd.Body, func(n ast.Node) bool {
			switch x := n.(type) {
			case *ast.CallExpr:
				if se, ok := x.Fun.(*ast.SelectorExpr); ok && se.Sel.Name == "popValue" {
					rec++
				}
			case *ast.BinaryExpr:
				if id, ok := x.Y.(*ast.Ident); ok && id.Name == "maxValueDepth" {
					guard++
				}
			}
			return true
		})
	}
	fmt.Fprintf(&sb, "(* popValue: recursive calls, comparisons against maxValueDepth *)\nDefinition pop_value_recursive_calls : N := %d.\nDefinition pop_value_depth_guards : N := %d.\n", rec, guard)

	// string literals of the functions that build diagnostics, in source order: the model formats
	// its messages from these, so a reworded message follows the code
	sb.WriteString("(* string literals per function, in source order: (file:function, literals as bytes) *)\n")
	sb.WriteString("Definition func_strings : list (string * list (list N)) := [\n")
	firstS := true
	for _, ff := range [][2]string{
		{"lexer.go", "unexpectedEOF"}, {"lexer.go", "NextToken"}, {"lexer.go", "lexNumber"}, {"lexer.go", "lexString"},
		{"lexer.go", "lexRegex"}, {"lexer.go", "lexEscape"},
		{"errors.go", "msg"}, {"token.go", "String"}, {"parser.go", "popValue"}, {"parser.go", "fragmentsToFile"},
	} {
		_, pf, err := gen.ParseFile(filepath.Join(dir, ff[0]))
		if err != nil {
			return "", err
		}
		var lits []string
		seen := false
		for _, d := range pf.Decls {
			fd, ok := d.(*ast.FuncDecl)
			if !ok || fd.Body == nil || fd.Name.Name != ff[1] {
				continue
			}
			// token.go has two String methods: take the one on Token (receiver type Token)
			if ff[1] == "String" {
				if fd.Recv == nil || len(fd.Recv.List) != 1 {
					continue
				}
				if id, ok := fd.Recv.List[0].Type.(*ast.Ident); !ok || id.Name != "Token" {
					continue
				}
			}
			seen = true
			ast.Inspect(fd.Body, func(n ast.Node) bool {
				if ff[1] == "String" {
					// every literal of Token.String (the "..." of the cut is not a call argument)
					if bl, ok := n.(*ast.BasicLit); ok && bl.Kind == token.STRING {
						if v, err := strconv.Unquote(bl.Value); err == nil {
							lits = append(lits, v)
						}
					}
					return true
				}
				// elsewhere: only literals passed directly to errf / Sprintf / errors.New / strings.Join
				ce, ok := n.(*ast.CallExpr)
				if !ok {
					return true
				}
				name := ""
				switch f := ce.Fun.(type) {
				case *ast.Ident:
					name = f.Name
				case *ast.SelectorExpr:
					name = f.Sel.Name
				}
				if name != "errf" && name != "Sprintf" && name != "New" && name != "Join" {
					return true
				}
				for _, a := range ce.Args {
					if bl, ok := a.(*ast.BasicLit); ok && bl.Kind == token.STRING {
						if v, err := strconv.Unquote(bl.Value); err == nil {
							lits = append(lits, v)
						}
					}
				}
				return true
			})
		}
		if !seen {
			return "", fmt.Errorf("%s: function %s not found", ff[0], ff[1])
		}
		if !firstS {
			sb.WriteString(";\n")
		}
		firstS = false
		fmt.Fprintf(&sb, "  (%s, [", gen.CoqString(ff[0]+":"+ff[1]))
		for i, l := range lits {
			if i > 0 {
				sb.WriteString("; ")
			}
			sb.WriteString(gen.NList([]byte(l)))
		}
		sb.WriteString("])")
	}
	sb.WriteString("\n].\n")
	// integer literals of Token.String (the length at which a literal is cut, and the cut), in source order
	{
		_, tf, err := gen.ParseFile(filepath.Join(dir, "token.go"))
		if err != nil {
			return "", err
		}
		var ints []string
		for _, d := range tf.Decls {
			fd, ok := d.(*ast.FuncDecl)
			if !ok || fd.Body == nil || fd.Name.Name != "String" || fd.Recv == nil || len(fd.Recv.List) != 1 {
				continue
			}
			if id, ok := fd.Recv.List[0].Type.(*ast.Ident); !ok || id.Name != "Token" {
				continue
			}
			ast.Inspect(fd.Body, func(n ast.Node) bool {
				if bl, ok := n.(*ast.BasicLit); ok && bl.Kind == token.INT {
					ints = append(ints, bl.Value)
				}
				return true
			})
		}
		fmt.Fprintf(&sb, "(* token.go Token.String: integer literals in source order (cut threshold, kept bytes) *)\nDefinition token_string_ints : list N := [%s].\n", strings.Join(ints, "; "))
	}
	// the expected token types of every unexpectedToken(...) / popType(...) call, per function, in source order
	sb.WriteString("(* expected token types of the unexpectedToken / popType calls per function, in source order *)\n")
	sb.WriteString("Definition walker_expected : list (string * list (list N)) := [\n")
	firstE := true
	for _, d := range pf0.Decls {
		fd, ok := d.(*ast.FuncDecl)
		if !ok || fd.Body == nil {
			continue
		}
		var sets [][]int
		bad := ""
		ast.Inspect(fd.Body, func(n ast.Node) bool {
			ce, ok := n.(*ast.CallExpr)
			if !ok {
				return true
			}
			name := ""
			switch f := ce.Fun.(type) {
			case *ast.Ident:
				name = f.Name
			case *ast.SelectorExpr:
				name = f.Sel.Name
			}
			var args []ast.Expr
			switch name {
			case "unexpectedToken":
				if len(ce.Args) >= 1 {
					args = ce.Args[1:]
				}
			case "popType":
				args = ce.Args
			default:
				return true
			}
			set := []int{}
			for _, a := range args {
				id, ok := a.(*ast.Ident)
				if !ok {
					bad = fd.Name.Name
					return true
				}
				v, known := code[id.Name]
				if !known {
					// popType's own body passes its parameter on: not a site
					return true
				}
				set = append(set, v)
			}
			if len(set) > 0 {
				sets = append(sets, set)
			}
			return true
		})
		if bad != "" {
			return "", fmt.Errorf("parser.go: %s passes a non-identifier as expected token type", bad)
		}
		if len(sets) == 0 {
			continue
		}
		if !firstE {
			sb.WriteString(";\n")
		}
		firstE = false
		fmt.Fprintf(&sb, "  (%s, [", gen.CoqString(fd.Name.Name))
		for i, st := range sets {
			if i > 0 {
				sb.WriteString("; ")
			}
			sb.WriteString(ilist(st))
		}
		sb.WriteString("])")
	}
	sb.WriteString("\n].\n")

	sb.WriteString("(* explicit panic( calls per anchored file: (file, enclosing function) *)\n")
	sb.WriteString("Definition panic_sites : list (string * string) := [")
	firstP := true
	for _, fn := range []string{"internal/bcl/internal/parser/lexer.go", "internal/bcl/internal/parser/parser.go", "internal/bcl/internal/parser/fmt.go", "internal/bcl/internal/parser/description.go", "internal/bcl/internal/parser/expressions.go", "internal/bcl/internal/parser/token.go", "internal/bcl/internal/parser/errors.go", "internal/bcl/errpos/print.go", "internal/bcl/errpos/errors.go"} {
		_, pf, err := gen.ParseFile(filepath.Join(repo, fn))
		if err != nil {
			return "", err
		}
		for _, d := range pf.Decls {
			fd, ok := d.(*ast.FuncDecl)
			if !ok || fd.Body == nil {
				continue
			}
			ast.Inspect(fd.Body, func(n ast.Node) bool {
				if ce, ok := n.(*ast.CallExpr); ok {
					if id, ok := ce.Fun.(*ast.Ident); ok && id.Name == "panic" {
						if !firstP {
							sb.WriteString("; ")
						}
						firstP = false
						fmt.Fprintf(&sb, "(%s, %s)", gen.CoqString(filepath.Base(fn)), gen.CoqString(fd.Name.Name))
					}
				}
				return true
			})
		}
	}
	sb.WriteString("].\n")
	return sb.String(), nil
}

// switchArms returns the case-label lists of the last `switch ww.nextType()` in the named function.
func switchArms(path, fn string, code map[string]int) ([][]int, error) {
	_, f, err := gen.ParseFile(path)
	if err != nil {
		return nil, err
	}
	var out [][]int
	found := false
	for _, d := range f.Decls {
		fd, ok := d.(*ast.FuncDecl)
		if !ok || fd.Name.Name != fn {
			continue
		}
		for _, st := range fd.Body.List {
			sw, ok := st.(*ast.SwitchStmt)
			if !ok {
				continue
			}
			found = true
			out = nil
			for _, c := range sw.Body.List {
				cc := c.(*ast.CaseClause)
				arm := []int{}
				for _, e := range cc.List {
					id, ok := e.(*ast.Ident)
					if !ok {
						return nil, fmt.Errorf("%s: non-identifier case label in %s", path, fn)
					}
					v, known := code[id.Name]
					if !known {
						return nil, fmt.Errorf("%s: case label %s is not a TokenType", path, id.Name)
					}
					arm = append(arm, v)
				}
				out = append(out, arm) // default = empty list
			}
		}
	}
	if !found {
		return nil, fmt.Errorf("%s: no switch found in %s", path, fn)
	}
	return out, nil
}

// gen_schb: translator for the schema-reader family (coq/gen/ReflectGen.v).
package main

import "verifharness/gen"

func main() { gen.Main() }

package main

import (
	"fmt"
	"go/ast"
	"go/token"
	"path/filepath"
	"sort"
	"strconv"
	"strings"

	"verifharness/gen"
)

func init() { gen.Register("ReflectGen.v", genReflect) }

func funcDecl(f *ast.File, recv, name string) *ast.FuncDecl {
	for _, d := range f.Decls {
		fd, ok := d.(*ast.FuncDecl)
		if !ok || fd.Name.Name != name {
			continue
		}
		r := ""
		if fd.Recv != nil && len(fd.Recv.List) == 1 {
			r = typeName(fd.Recv.List[0].Type)
		}
		if r == recv {
			return fd
		}
	}
	return nil
}

// typeName: last identifier of a (pointer to a) possibly qualified type expression
func typeName(e ast.Expr) string {
	switch t := e.(type) {
	case *ast.StarExpr:
		return typeName(t.X)
	case *ast.UnaryExpr:
		return typeName(t.X)
	case *ast.SelectorExpr:
		return t.Sel.Name
	case *ast.Ident:
		return t.Name
	case *ast.IndexExpr:
		return typeName(t.X)
	case *ast.IndexListExpr:
		return typeName(t.X)
	case *ast.CompositeLit:
		return typeName(t.Type)
	}
	return ""
}

func exprString(e ast.Expr) string {
	switch t := e.(type) {
	case *ast.Ident:
		return t.Name
	case *ast.SelectorExpr:
		return exprString(t.X) + "." + t.Sel.Name
	case *ast.CallExpr:
		var args []string
		for _, a := range t.Args {
			args = append(args, exprString(a))
		}
		return exprString(t.Fun) + "(" + strings.Join(args, ",") + ")"
	case *ast.IndexExpr:
		return exprString(t.X)
	case *ast.IndexListExpr:
		return exprString(t.X)
	case *ast.UnaryExpr:
		return t.Op.String() + exprString(t.X)
	case *ast.CompositeLit:
		return typeName(t.Type) + "{}"
	case *ast.StarExpr:
		return "*" + exprString(t.X)
	case *ast.BasicLit:
		return t.Value
	}
	return "?"
}

// switchArms returns the case labels of the first switch in fn whose tag prints as tag.
func switchArms(fn *ast.FuncDecl, tag string) ([][]string, bool) {
	var arms [][]string
	found := false
	ast.Inspect(fn.Body, func(n ast.Node) bool {
		if found {
			return false
		}
		sw, ok := n.(*ast.SwitchStmt)
		if !ok || sw.Tag == nil || exprString(sw.Tag) != tag {
			return true
		}
		found = true
		for _, st := range sw.Body.List {
			cc := st.(*ast.CaseClause)
			if cc.List == nil {
				continue // default
			}
			var labels []string
			for _, e := range cc.List {
				if bl, ok := e.(*ast.BasicLit); ok && bl.Kind == token.STRING {
					s, _ := strconv.Unquote(bl.Value)
					labels = append(labels, s)
				} else {
					labels = append(labels, typeName(e))
				}
			}
			arms = append(arms, labels)
		}
		return false
	})
	return arms, found
}

type site struct {
	label string
	typ   string
	keys  []string
	rhs   []string // source text of the value of each key (selector chains, calls with arguments)
}

// literalSites lists, in source order, every keyed composite literal of fn with
// the case labels enclosing it, and every `x.K = ...` assignment as ("assign", [K]).
func literalSites(fn *ast.FuncDecl, prefix string) []site {
	var out []site
	var walk func(n ast.Node, labels []string)
	walk = func(n ast.Node, labels []string) {
		if n == nil {
			return
		}
		switch t := n.(type) {
		case *ast.CaseClause:
			var ls []string
			for _, e := range t.List {
				ls = append(ls, typeName(e))
			}
			l := strings.Join(ls, ",")
			if t.List == nil {
				l = "default"
			}
			for _, s := range t.Body {
				walk(s, append(append([]string{}, labels...), l))
			}
			return
		case *ast.CompositeLit:
			var keys, rhs []string
			keyed := false
			for _, e := range t.Elts {
				if kv, ok := e.(*ast.KeyValueExpr); ok {
					keyed = true
					keys = append(keys, exprString(kv.Key))
					rhs = append(rhs, exprString(kv.Value))
				}
			}
			if keyed && typeName(t.Type) != "" {
				out = append(out, site{label: strings.Join(labels, "/"), typ: typeName(t.Type), keys: keys, rhs: rhs})
			}
			for _, e := range t.Elts {
				if kv, ok := e.(*ast.KeyValueExpr); ok {
					walk(kv.Value, labels)
				} else {
					walk(e, labels)
				}
			}
			return
		case *ast.AssignStmt:
			if t.Tok == token.ASSIGN {
				for _, l := range t.Lhs {
					if se, ok := l.(*ast.SelectorExpr); ok {
						r := "?"
						if len(t.Rhs) == len(t.Lhs) {
							for i := range t.Lhs {
								if t.Lhs[i] == l {
									r = exprString(t.Rhs[i])
								}
							}
						}
						out = append(out, site{label: strings.Join(labels, "/"), typ: "assign", keys: []string{se.Sel.Name}, rhs: []string{r}})
					}
				}
			}
			for _, r := range t.Rhs {
				walk(r, labels)
			}
			return
		}
		// generic descent
		ast.Inspect(n, func(c ast.Node) bool {
			if c == n || c == nil {
				return true
			}
			switch c.(type) {
			case *ast.CaseClause, *ast.CompositeLit, *ast.AssignStmt:
				walk(c, labels)
				return false
			}
			return true
		})
	}
	walk(fn.Body, []string{prefix})
	return out
}

func coqStrList(xs []string) string {
	var it []string
	for _, x := range xs {
		it = append(it, gen.CoqString(x))
	}
	return "[" + strings.Join(it, "; ") + "]"
}

func sitesTerm(name string, sites []site) string {
	var sb strings.Builder
	fmt.Fprintf(&sb, "Definition %s : list (string * string * list string) := [\n", name)
	for i, s := range sites {
		if i > 0 {
			sb.WriteString(";\n")
		}
		fmt.Fprintf(&sb, "  (%s, %s, %s)", gen.CoqString(s.label), gen.CoqString(s.typ), coqStrList(s.keys))
	}
	sb.WriteString("\n].\n")
	return sb.String()
}

func rhsTerm(name string, sites []site) string {
	var sb strings.Builder
	fmt.Fprintf(&sb, "Definition %s : list (string * string * list (string * string)) := [\n", name)
	for i, s := range sites {
		if i > 0 {
			sb.WriteString(";\n")
		}
		var kv []string
		for k := range s.keys {
			kv = append(kv, fmt.Sprintf("(%s, %s)", gen.CoqString(s.keys[k]), gen.CoqString(s.rhs[k])))
		}
		fmt.Fprintf(&sb, "  (%s, %s, [%s])", gen.CoqString(s.label), gen.CoqString(s.typ), strings.Join(kv, "; "))
	}
	sb.WriteString("\n].\n")
	return sb.String()
}

func genReflect(repo string) (string, error) {
	parse := func(rel string) (*ast.File, error) {
		_, f, err := gen.ParseFile(filepath.Join(repo, rel))
		return f, err
	}
	fp, err := parse("lib/j5schema/schema_from_proto.go")
	if err != nil {
		return "", err
	}
	fd, err := parse("lib/j5schema/schema_from_desc.go")
	if err != nil {
		return "", err
	}
	fr, err := parse("lib/j5schema/root_schema.go")
	if err != nil {
		return "", err
	}
	ff, err := parse("lib/j5schema/field_schema.go")
	if err != nil {
		return "", err
	}
	fps, err := parse("lib/j5reflect/property_set.go")
	if err != nil {
		return "", err
	}
	var sb strings.Builder
	sb.WriteString("From Coq Require Import String List.\nImport ListNotations.\nLocal Open Scope string_scope.\n")

	arms := func(file *ast.File, recv, fn, tag, name, comment string) error {
		d := funcDecl(file, recv, fn)
		if d == nil {
			return fmt.Errorf("%s: function not found", fn)
		}
		a, ok := switchArms(d, tag)
		if !ok {
			return fmt.Errorf("%s: switch on %s not found", fn, tag)
		}
		var flat []string
		for _, ls := range a {
			flat = append(flat, ls...)
		}
		fmt.Fprintf(&sb, "(* %s *)\nDefinition %s : list string := %s.\n", comment, name, coqStrList(flat))
		return nil
	}
	if err := arms(fp, "Package", "buildSchema", "src.Kind()", "build_schema_arms", "lib/j5schema/schema_from_proto.go buildSchema: switch src.Kind() (non-default arms; everything else goes to buildScalarType)"); err != nil {
		return "", err
	}
	if err := arms(fp, "", "buildScalarType", "src.Kind()", "scalar_kind_arms", "buildScalarType: switch src.Kind(); kinds without an arm reach the default arm, which returns an error"); err != nil {
		return "", err
	}
	if err := arms(fp, "", "wktSchema", "string()", "wkt_arms", "wktSchema: switch string(fullName)"); err != nil {
		// the tag is string(fullName): a call with an argument
		d := funcDecl(fp, "", "wktSchema")
		var flat []string
		ok := false
		if d != nil {
			ast.Inspect(d.Body, func(n ast.Node) bool {
				sw, is := n.(*ast.SwitchStmt)
				if !is || ok {
					return true
				}
				ok = true
				for _, st := range sw.Body.List {
					for _, e := range st.(*ast.CaseClause).List {
						if bl, is := e.(*ast.BasicLit); is {
							s, _ := strconv.Unquote(bl.Value)
							flat = append(flat, s)
						}
					}
				}
				return false
			})
		}
		if !ok {
			return "", fmt.Errorf("wktSchema: switch not found")
		}
		fmt.Fprintf(&sb, "(* wktSchema: switch string(fullName) *)\nDefinition wkt_arms : list string := %s.\n", coqStrList(flat))
	}

	// newFieldFactory / newMessageFieldFactory type-switch arms (the rest panics)
	for _, fn := range []string{"newFieldFactory", "newMessageFieldFactory"} {
		d := funcDecl(fps, "", fn)
		if d == nil {
			return "", fmt.Errorf("%s not found", fn)
		}
		var flat []string
		done := false
		ast.Inspect(d.Body, func(n ast.Node) bool {
			ts, is := n.(*ast.TypeSwitchStmt)
			if !is || done {
				return true
			}
			done = true
			for _, st := range ts.Body.List {
				for _, e := range st.(*ast.CaseClause).List {
					flat = append(flat, typeName(e))
				}
			}
			return false
		})
		fmt.Fprintf(&sb, "(* lib/j5reflect/property_set.go %s: type switch arms; any other schema type panics *)\nDefinition %s_arms : list string := %s.\n", fn, fn, coqStrList(flat))
	}

	// ---- C15: what the export writes and what the import copies
	var exportSites, importSites []site
	type fnRef struct {
		file *ast.File
		recv string
		name string
	}
	for _, r := range []fnRef{
		{ff, "AnyField", "ToJ5Field"}, {ff, "EnumField", "ToJ5Field"}, {ff, "ObjectField", "ToJ5Field"}, {ff, "OneofField", "ToJ5Field"},
		{ff, "MapField", "ToJ5Field"}, {ff, "ArrayField", "ToJ5Field"},
		{fr, "EnumOption", "ToJ5EnumValue"}, {fr, "EnumSchema", "ToJ5Root"}, {fr, "ObjectSchema", "ToJ5Object"}, {fr, "ObjectSchema", "ToJ5Root"}, {fr, "OneofSchema", "ToJ5Root"},
		{fr, "ObjectProperty", "ToJ5Proto"},
	} {
		d := funcDecl(r.file, r.recv, r.name)
		if d == nil {
			return "", fmt.Errorf("%s.%s not found", r.recv, r.name)
		}
		exportSites = append(exportSites, literalSites(d, r.recv+"."+r.name)...)
	}
	for _, r := range []fnRef{
		{fd, "Package", "schemaFromDesc"}, {fd, "Package", "objectSchemaFromDesc"}, {fd, "Package", "oneofSchemaFromDesc"},
		{fd, "Package", "enumSchemaFromDesc"}, {fd, "Package", "objectPropertyFromDesc"},
	} {
		d := funcDecl(r.file, r.recv, r.name)
		if d == nil {
			return "", fmt.Errorf("%s.%s not found", r.recv, r.name)
		}
		importSites = append(importSites, literalSites(d, r.name)...)
	}
	// every field selection x.A.B (source text) and every type-switch / getter in the bodies of the import
	// functions (schemaFromDesc ... plus buildRoot / buildSchemas, which read Ref and the root alternatives):
	// what the import READS of the source form, wherever it reads it
	importReads := map[string]bool{}
	for _, r := range []fnRef{
		{fd, "Package", "schemaFromDesc"}, {fd, "Package", "objectSchemaFromDesc"}, {fd, "Package", "oneofSchemaFromDesc"},
		{fd, "Package", "enumSchemaFromDesc"}, {fd, "Package", "objectPropertyFromDesc"}, {fd, "Package", "buildRoot"},
	} {
		d := funcDecl(r.file, r.recv, r.name)
		if d == nil {
			return "", fmt.Errorf("%s.%s not found", r.recv, r.name)
		}
		ast.Inspect(d.Body, func(n ast.Node) bool {
			if se, ok := n.(*ast.SelectorExpr); ok {
				importReads[r.name+": "+exprString(se)] = true
			}
			return true
		})
	}
	var reads []string
	for k := range importReads {
		reads = append(reads, k)
	}
	sort.Strings(reads)
	sb.WriteString("(* keyed composite literals (enclosing case labels, literal type, keys) of the export functions\n   ToJ5Field / ToJ5Root / ToJ5Object / ToJ5EnumValue / ToJ5Proto, lib/j5schema/{field,root}_schema.go *)\n")
	sb.WriteString(sitesTerm("export_sites", exportSites))
	sb.WriteString("(* the same for the import: schemaFromDesc, objectSchemaFromDesc, oneofSchemaFromDesc, enumSchemaFromDesc,\n   objectPropertyFromDesc, lib/j5schema/schema_from_desc.go (\"assign\" = a later `x.K = ...`) *)\n")
	sb.WriteString(sitesTerm("import_sites", importSites))
	sb.WriteString("(* the same sites with the source text of each value *)\n")
	sb.WriteString(rhsTerm("export_rhs", exportSites))
	sb.WriteString(rhsTerm("import_rhs", importSites))
	fmt.Fprintf(&sb, "(* every selector expression in the bodies of the import functions, as \"function: x.A.B\" *)\nDefinition import_reads : list string := %s.\n", coqStrList(reads))

	// intKinds / floatKinds map keys
	for _, vn := range []string{"intKinds", "floatKinds"} {
		var keys []string
		for _, dcl := range fd.Decls {
			gd, ok := dcl.(*ast.GenDecl)
			if !ok {
				continue
			}
			for _, sp := range gd.Specs {
				vs, ok := sp.(*ast.ValueSpec)
				if !ok || len(vs.Names) != 1 || vs.Names[0].Name != vn || len(vs.Values) != 1 {
					continue
				}
				if cl, ok := vs.Values[0].(*ast.CompositeLit); ok {
					for _, e := range cl.Elts {
						if kv, ok := e.(*ast.KeyValueExpr); ok {
							keys = append(keys, typeName(kv.Key)+"=>"+typeName(kv.Value))
						}
					}
				}
			}
		}
		sort.Strings(keys)
		fmt.Fprintf(&sb, "(* schema_from_desc.go var %s *)\nDefinition %s : list string := %s.\n", vn, vn, coqStrList(keys))
	}
	// every message of j5/schema/v1/schema.proto as protoc-gen-go renders it: struct name and the
	// members that carry a proto field (tag protobuf) or a oneof (tag protobuf_oneof), in declaration
	// order; the oneof wrapper structs (Field_Object, ObjectField_Ref ...) are structs of the file too
	fpb, err := parse("gen/j5/schema/v1/schema_j5pb/schema.pb.go")
	if err != nil {
		return "", err
	}
	type pbStruct struct {
		name    string
		members []string
	}
	var structs []pbStruct
	for _, dcl := range fpb.Decls {
		gd, ok := dcl.(*ast.GenDecl)
		if !ok || gd.Tok != token.TYPE {
			continue
		}
		for _, sp := range gd.Specs {
			ts, ok := sp.(*ast.TypeSpec)
			if !ok {
				continue
			}
			st, ok := ts.Type.(*ast.StructType)
			if !ok {
				continue
			}
			var ms []string
			for _, f := range st.Fields.List {
				if f.Tag == nil || len(f.Names) != 1 {
					continue
				}
				tag, _ := strconv.Unquote(f.Tag.Value)
				if strings.Contains(tag, "protobuf:\"") || strings.Contains(tag, "protobuf_oneof:\"") {
					ms = append(ms, f.Names[0].Name)
				}
			}
			if len(ms) > 0 {
				structs = append(structs, pbStruct{ts.Name.Name, ms})
			}
		}
	}
	sort.Slice(structs, func(i, j int) bool { return structs[i].name < structs[j].name })
	sb.WriteString("(* gen/j5/schema/v1/schema_j5pb/schema.pb.go: every struct that carries proto fields (the messages of\n   schema.proto and their oneof wrappers) with its proto-field members in declaration order *)\n")
	sb.WriteString("Definition schema_structs : list (string * list string) := [\n")
	for i, st := range structs {
		if i > 0 {
			sb.WriteString(";\n")
		}
		fmt.Fprintf(&sb, "  (%s, %s)", strconv.Quote(st.name), coqStrList(st.members))
	}
	sb.WriteString("\n].\n")
	return sb.String(), nil
}

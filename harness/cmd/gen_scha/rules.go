package main

import (
	"bytes"
	"fmt"
	"go/ast"
	"go/printer"
	"go/token"
	"os"
	"path/filepath"
	"regexp"
	"sort"
	"strconv"
	"strings"

	"verifharness/gen"
)

func init() { gen.Register("RulesGen.v", genRules) }

func src(fset *token.FileSet, n ast.Node) string {
	var b bytes.Buffer
	_ = printer.Fprint(&b, fset, n)
	return strings.Join(strings.Fields(b.String()), " ")
}

func findFunc(f *ast.File, name string) *ast.FuncDecl {
	for _, d := range f.Decls {
		if fd, ok := d.(*ast.FuncDecl); ok && fd.Name.Name == name {
			return fd
		}
	}
	return nil
}

var kindOfFormat = map[string]string{"IntegerField_FORMAT_INT32": "I32", "IntegerField_FORMAT_INT64": "I64", "IntegerField_FORMAT_UINT32": "U32", "IntegerField_FORMAT_UINT64": "U64"}

// classify the condition on the exclusive flag
func classifyCond(c, flag string) string {
	p := "st.Integer.Rules." + flag
	switch c {
	case p + " == nil || !*" + p:
		return "CondNotExclusive"
	case p + " != nil && *" + p:
		return "CondExclusive"
	case p + " != nil":
		return "CondFlagPresent"
	case p + " == nil":
		return "CondFlagAbsent"
	}
	return "CondOther"
}

// the validate rule field a branch assigns: ..._Lt / _Lte / _Gt / _Gte
func assignedRule(fset *token.FileSet, b *ast.BlockStmt) string {
	found := "ROtherField"
	n := 0
	ast.Inspect(b, func(nd ast.Node) bool {
		if cl, ok := nd.(*ast.CompositeLit); ok {
			t := src(fset, cl.Type)
			for _, suf := range []string{"Rules_Lte", "Rules_Lt", "Rules_Gte", "Rules_Gt"} {
				if strings.HasSuffix(t, suf) {
					found = "R" + strings.TrimPrefix(suf, "Rules_")
					n++
					break
				}
			}
		}
		return true
	})
	if n != 1 {
		return "ROtherField"
	}
	return found
}

type arm struct{ kind, bound, cond, thenR, elseR string }

func writerIntArms(fset *token.FileSet, fn *ast.FuncDecl) []arm {
	var arms []arm
	ast.Inspect(fn, func(nd ast.Node) bool {
		cc, ok := nd.(*ast.CaseClause)
		if !ok || len(cc.List) != 1 {
			return true
		}
		kind, ok := kindOfFormat[strings.TrimPrefix(src(fset, cc.List[0]), "schema_j5pb.")]
		if !ok {
			return true
		}
		for _, st := range cc.Body {
			outer, ok := st.(*ast.IfStmt)
			if !ok {
				continue
			}
			oc := src(fset, outer.Cond)
			var bound, flag string
			switch oc {
			case "st.Integer.Rules.Maximum != nil":
				bound, flag = "true", "ExclusiveMaximum"
			case "st.Integer.Rules.Minimum != nil":
				bound, flag = "false", "ExclusiveMinimum"
			default:
				continue
			}
			for _, is := range outer.Body.List {
				inner, ok := is.(*ast.IfStmt)
				if !ok {
					continue
				}
				a := arm{kind: kind, bound: bound, cond: classifyCond(src(fset, inner.Cond), flag), thenR: assignedRule(fset, inner.Body), elseR: "ROtherField"}
				if eb, ok := inner.Else.(*ast.BlockStmt); ok {
					a.elseR = assignedRule(fset, eb)
				}
				arms = append(arms, a)
			}
		}
		return true
	})
	sort.Slice(arms, func(i, j int) bool {
		if arms[i].kind != arms[j].kind {
			return arms[i].kind < arms[j].kind
		}
		return arms[i].bound < arms[j].bound
	})
	return arms
}

// reader: for each `case *validate.<K>Rules_<R>:` inside buildScalarType, which
// of Maximum/Minimum/ExclusiveMaximum/ExclusiveMinimum the arm assigns.
type rarm struct {
	kind, rule   string
	setsMax      bool
	setsMin      bool
	setsXMax     bool
	setsXMin     bool
	exclusiveLit string
}

var kindOfRules = map[string]string{"Int32Rules": "I32", "Int64Rules": "I64", "UInt32Rules": "U32", "UInt64Rules": "U64"}

func readerIntArms(fset *token.FileSet, fn *ast.FuncDecl) []rarm {
	var arms []rarm
	ast.Inspect(fn, func(nd ast.Node) bool {
		cc, ok := nd.(*ast.CaseClause)
		if !ok || len(cc.List) != 1 {
			return true
		}
		t := src(fset, cc.List[0]) // *validate.Int32Rules_Lt
		if !strings.HasPrefix(t, "*validate.") {
			return true
		}
		parts := strings.SplitN(strings.TrimPrefix(t, "*validate."), "_", 2)
		kind, ok := kindOfRules[parts[0]]
		if !ok || len(parts) != 2 {
			return true
		}
		a := rarm{kind: kind, rule: "R" + parts[1]}
		for _, st := range cc.Body {
			as, ok := st.(*ast.AssignStmt)
			if !ok || len(as.Lhs) != 1 {
				continue
			}
			lhs := src(fset, as.Lhs[0])
			switch {
			case strings.HasSuffix(lhs, ".ExclusiveMaximum"):
				a.setsXMax = src(fset, as.Rhs[0]) == "Ptr(true)"
			case strings.HasSuffix(lhs, ".ExclusiveMinimum"):
				a.setsXMin = src(fset, as.Rhs[0]) == "Ptr(true)"
			case strings.HasSuffix(lhs, ".Maximum"):
				a.setsMax = true
			case strings.HasSuffix(lhs, ".Minimum"):
				a.setsMin = true
			}
		}
		arms = append(arms, a)
		return true
	})
	sort.Slice(arms, func(i, j int) bool {
		if arms[i].kind != arms[j].kind {
			return arms[i].kind < arms[j].kind
		}
		return arms[i].rule < arms[j].rule
	})
	return arms
}

// list-rule arms. writer: FieldConstraint_<Arm> used inside the case for an
// integer format; reader: ext.list.Get<Arm>() in the ListRules of each kind.
func writerListArms(fset *token.FileSet, fn *ast.FuncDecl) [][2]string {
	var out [][2]string
	ast.Inspect(fn, func(nd ast.Node) bool {
		ifs, ok := nd.(*ast.IfStmt)
		if !ok || src(fset, ifs.Cond) != "st.Integer.ListRules != nil" {
			return true
		}
		ast.Inspect(ifs.Body, func(n2 ast.Node) bool {
			cc, ok := n2.(*ast.CaseClause)
			if !ok || len(cc.List) != 1 {
				return true
			}
			kind, ok := kindOfFormat[strings.TrimPrefix(src(fset, cc.List[0]), "schema_j5pb.")]
			if !ok {
				return true
			}
			armName := "LOtherArm"
			ast.Inspect(cc, func(n3 ast.Node) bool {
				if cl, ok := n3.(*ast.CompositeLit); ok {
					t := src(fset, cl.Type)
					if strings.HasPrefix(t, "list_j5pb.FieldConstraint_") {
						armName = "L" + strings.TrimPrefix(t, "list_j5pb.FieldConstraint_")
					}
				}
				return true
			})
			out = append(out, [2]string{kind, armName})
			return true
		})
		return false
	})
	sort.Slice(out, func(i, j int) bool { return out[i][0] < out[j][0] })
	return out
}

var formatOfReader = map[string]string{"IntegerField_FORMAT_INT32": "I32", "IntegerField_FORMAT_INT64": "I64", "IntegerField_FORMAT_UINT32": "U32", "IntegerField_FORMAT_UINT64": "U64"}

func readerListArms(fset *token.FileSet, fn *ast.FuncDecl) [][2]string {
	var out [][2]string
	ast.Inspect(fn, func(nd ast.Node) bool {
		cl, ok := nd.(*ast.CompositeLit)
		if !ok || src(fset, cl.Type) != "schema_j5pb.IntegerField" {
			return true
		}
		var kind, armName string
		for _, e := range cl.Elts {
			kv, ok := e.(*ast.KeyValueExpr)
			if !ok {
				continue
			}
			switch src(fset, kv.Key) {
			case "Format":
				kind = formatOfReader[strings.TrimPrefix(src(fset, kv.Value), "schema_j5pb.")]
			case "ListRules":
				v := src(fset, kv.Value)
				if strings.HasPrefix(v, "ext.list.Get") && strings.HasSuffix(v, "()") {
					armName = "L" + strings.TrimSuffix(strings.TrimPrefix(v, "ext.list.Get"), "()")
				} else {
					armName = "LOtherArm"
				}
			}
		}
		if kind != "" {
			out = append(out, [2]string{kind, armName})
		}
		return true
	})
	sort.Slice(out, func(i, j int) bool { return out[i][0] < out[j][0] })
	return out
}

func genRules(repo string) (string, error) {
	fsetW, w, err := gen.ParseFile(filepath.Join(repo, "internal/j5s/j5convert/fields.go"))
	if err != nil {
		return "", err
	}
	fsetR, r, err := gen.ParseFile(filepath.Join(repo, "lib/j5schema/schema_from_proto.go"))
	if err != nil {
		return "", err
	}
	bf := findFunc(w, "buildField")
	bp := findFunc(w, "buildProperty")
	bs := findFunc(r, "buildScalarType")
	if bf == nil || bp == nil || bs == nil {
		return "", fmt.Errorf("buildField / buildProperty / buildScalarType not found")
	}
	var sb strings.Builder
	sb.WriteString("From Coq Require Import String List NArith ZArith.\nFrom J5V.model Require Import RulesDecl.\nImport ListNotations.\n")
	sb.WriteString("Inductive cond := CondNotExclusive | CondExclusive | CondFlagPresent | CondFlagAbsent | CondOther.\n")
	sb.WriteString("Inductive rfield := RLt | RLte | RGt | RGte | ROtherField.\n")
	sb.WriteString("(* fields.go buildField, integer rules: (format, is the maximum, condition on the exclusive flag,\n   rule assigned when it holds, rule assigned otherwise) *)\n")
	sb.WriteString("Definition writer_int_arms : list (ikind * bool * cond * rfield * rfield) := [\n")
	wa := writerIntArms(fsetW, bf)
	for i, a := range wa {
		sep := ";"
		if i == len(wa)-1 {
			sep = ""
		}
		fmt.Fprintf(&sb, "  (%s, %s, %s, %s, %s)%s\n", a.kind, a.bound, a.cond, a.thenR, a.elseR, sep)
	}
	sb.WriteString("].\n")
	sb.WriteString("(* schema_from_proto.go buildScalarType: (format, rule arm, sets maximum, sets minimum,\n   sets exclusiveMaximum = true, sets exclusiveMinimum = true) *)\n")
	sb.WriteString("Definition reader_int_arms : list (ikind * rfield * bool * bool * bool * bool) := [\n")
	ra := readerIntArms(fsetR, bs)
	for i, a := range ra {
		sep := ";"
		if i == len(ra)-1 {
			sep = ""
		}
		fmt.Fprintf(&sb, "  (%s, %s, %v, %v, %v, %v)%s\n", a.kind, a.rule, a.setsMax, a.setsMin, a.setsXMax, a.setsXMin, sep)
	}
	sb.WriteString("].\n")
	emit := func(name, comment string, xs [][2]string) {
		fmt.Fprintf(&sb, "(* %s *)\nDefinition %s : list (ikind * larm) := [", comment, name)
		for i, x := range xs {
			if i > 0 {
				sb.WriteString("; ")
			}
			fmt.Fprintf(&sb, "(%s, %s)", x[0], x[1])
		}
		sb.WriteString("].\n")
	}
	emit("writer_int_list_arms", "fields.go: arm of (j5.list.v1.field) the integer list rules are written to, per format", writerListArms(fsetW, bf))
	emit("reader_int_list_arms", "schema_from_proto.go: arm of (j5.list.v1.field) the integer list rules are read from, per format", readerListArms(fsetR, bs))
	// the array branch of buildProperty: condition under which repeated rules are emitted
	arrCond := "?"
	ast.Inspect(bp, func(nd ast.Node) bool {
		ifs, ok := nd.(*ast.IfStmt)
		if !ok {
			return true
		}
		c := src(fsetW, ifs.Cond)
		if strings.Contains(c, "validateExt != nil") {
			arrCond = c
			return false
		}
		return true
	})
	cls := "ArrCondOther"
	switch arrCond {
	case "validateExt != nil || st.Array.Rules != nil", "st.Array.Rules != nil || validateExt != nil":
		cls = "ArrItemsOrRules"
	case "validateExt != nil":
		cls = "ArrItemsOnly"
	}
	sb.WriteString("(* fields.go buildProperty, array branch: when (buf.validate.field).repeated is emitted *)\n")
	sb.WriteString("Inductive arr_cond := ArrItemsOrRules | ArrItemsOnly | ArrCondOther.\n")
	fmt.Fprintf(&sb, "Definition writer_array_cond : arr_cond := %s. (* %s *)\n", cls, arrCond)
	// id62: the key:id62 arm of the writer assigns the published pattern; the reader's table maps it back
	idArm := false
	ast.Inspect(bf, func(nd ast.Node) bool {
		cc, ok := nd.(*ast.CaseClause)
		if !ok || len(cc.List) != 1 || src(fsetW, cc.List[0]) != "*schema_j5pb.KeyFormat_Id62" {
			return true
		}
		for _, st := range cc.Body {
			if as, ok := st.(*ast.AssignStmt); ok && len(as.Lhs) == 1 && src(fsetW, as.Lhs[0]) == "stringRules.Pattern" && src(fsetW, as.Rhs[0]) == "gl.Ptr(id62.PatternString)" {
				idArm = true
			}
		}
		return true
	})
	idRead := false
	ast.Inspect(r, func(nd ast.Node) bool {
		kv, ok := nd.(*ast.KeyValueExpr)
		if ok && src(fsetR, kv.Key) == "id62.PatternString" && src(fsetR, kv.Value) == "id62Format" {
			idRead = true
		}
		return true
	})
	// ---- the map branch of buildProperty: condition under which (buf.validate.field).map is emitted
	mapCond := "?"
	ast.Inspect(bp, func(nd ast.Node) bool {
		ifs, ok := nd.(*ast.IfStmt)
		if !ok {
			return true
		}
		c := src(fsetW, ifs.Cond)
		if strings.Contains(c, "valueValidate != nil") {
			mapCond = c
			return false
		}
		return true
	})
	mcls := "ArrCondOther"
	switch mapCond {
	case "valueValidate != nil || st.Map.Rules != nil", "st.Map.Rules != nil || valueValidate != nil":
		mcls = "ArrItemsOrRules"
	case "valueValidate != nil":
		mcls = "ArrItemsOnly"
	}
	fmt.Fprintf(&sb, "(* fields.go buildProperty, map branch: when (buf.validate.field).map is emitted *)\nDefinition writer_map_cond : arr_cond := %s. (* %s *)\n", mcls, mapCond)

	// ---- checkIntegerBounds: the range per format and the minimum > maximum check
	cib := findFunc(w, "checkIntegerBounds")
	if cib == nil {
		return "", fmt.Errorf("checkIntegerBounds not found")
	}
	consts := map[string]string{"math.MinInt32": "(-2147483648)", "math.MaxInt32": "2147483647", "math.MinInt64": "(-9223372036854775808)",
		"math.MaxInt64": "9223372036854775807", "math.MaxUint32": "4294967295", "0": "0"}
	type brange struct{ kind, lo, hi string }
	var ranges []brange
	ast.Inspect(cib, func(nd ast.Node) bool {
		cc, ok := nd.(*ast.CaseClause)
		if !ok || len(cc.List) != 1 {
			return true
		}
		kind, ok := kindOfFormat[strings.TrimPrefix(src(fsetW, cc.List[0]), "schema_j5pb.")]
		if !ok {
			return true
		}
		for _, st := range cc.Body {
			if as, ok := st.(*ast.AssignStmt); ok && len(as.Lhs) == 2 && len(as.Rhs) == 2 && src(fsetW, as.Lhs[0]) == "lo" && src(fsetW, as.Lhs[1]) == "hi" {
				lo, ok1 := consts[src(fsetW, as.Rhs[0])]
				hi, ok2 := consts[src(fsetW, as.Rhs[1])]
				if !ok1 {
					lo = "0 (* unrecognised: " + src(fsetW, as.Rhs[0]) + " *)"
					kind = "I32 (* unrecognised bound *)"
				}
				if !ok2 {
					hi = "0 (* unrecognised: " + src(fsetW, as.Rhs[1]) + " *)"
				}
				ranges = append(ranges, brange{kind, lo, hi})
			}
		}
		return true
	})
	sort.Slice(ranges, func(i, j int) bool { return ranges[i].kind < ranges[j].kind })
	sb.WriteString("(* fields.go checkIntegerBounds: (format, lowest, highest bound a rule may carry) *)\nDefinition writer_int_ranges : list (ikind * Z * Z) := [")
	for i, b := range ranges {
		if i > 0 {
			sb.WriteString("; ")
		}
		fmt.Fprintf(&sb, "(%s, %s, %s)", b.kind, b.lo, b.hi)
	}
	sb.WriteString("]%Z.\n")
	// which comparisons reject: bound < lo, bound > hi (for minimum and maximum), minimum > maximum
	var rejects []string
	ast.Inspect(cib, func(nd ast.Node) bool {
		if ifs, ok := nd.(*ast.IfStmt); ok {
			rejects = append(rejects, src(fsetW, ifs.Cond))
		}
		return true
	})
	sort.Strings(rejects)
	has := func(c string) bool {
		for _, r := range rejects {
			if r == c {
				return true
			}
		}
		return false
	}
	fmt.Fprintf(&sb, "(* ... and its three checks as written *)\nDefinition writer_checks_minimum_range : bool := %v.\nDefinition writer_checks_maximum_range : bool := %v.\nDefinition writer_checks_order : bool := %v.\n",
		has("rules.Minimum != nil && (*rules.Minimum < lo || *rules.Minimum > hi)"),
		has("rules.Maximum != nil && (*rules.Maximum < lo || *rules.Maximum > hi)"),
		has("rules.Minimum != nil && rules.Maximum != nil && *rules.Minimum > *rules.Maximum"))
	// is checkIntegerBounds called from buildField before the rules are built?
	called := false
	ast.Inspect(bf, func(nd ast.Node) bool {
		if ce, ok := nd.(*ast.CallExpr); ok && src(fsetW, ce.Fun) == "checkIntegerBounds" {
			called = true
		}
		return true
	})
	fmt.Fprintf(&sb, "Definition writer_calls_check_integer_bounds : bool := %v.\n", called)

	// ---- rules the writer reduces to nothing: float (refused), object / oneof (empty constraint), timestamp (empty TimestampRules)
	floatRefused, objEmpty, oneofEmpty, tsEmpty := false, false, false, false
	emptyLit := func(body *ast.BlockStmt, typ string) bool {
		found := false
		ast.Inspect(body, func(nd ast.Node) bool {
			if cl, ok := nd.(*ast.CompositeLit); ok && src(fsetW, cl.Type) == typ && len(cl.Elts) == 0 {
				found = true
			}
			return true
		})
		return found
	}
	ast.Inspect(bf, func(nd ast.Node) bool {
		ifs, ok := nd.(*ast.IfStmt)
		if !ok {
			return true
		}
		switch src(fsetW, ifs.Cond) {
		case "st.Float.Rules != nil":
			if len(ifs.Body.List) == 1 {
				if rs, ok := ifs.Body.List[0].(*ast.ReturnStmt); ok && len(rs.Results) == 2 && src(fsetW, rs.Results[0]) == "nil" {
					floatRefused = true
				}
			}
		case "st.Object.Rules != nil":
			objEmpty = emptyLit(ifs.Body, "validate.FieldConstraints")
		case "st.Oneof.Rules != nil":
			oneofEmpty = emptyLit(ifs.Body, "validate.FieldConstraints")
		case "st.Timestamp.Rules != nil":
			tsEmpty = emptyLit(ifs.Body, "validate.TimestampRules")
		}
		return true
	})
	fmt.Fprintf(&sb, "(* fields.go: float rules are refused; object / oneof rules become an empty FieldConstraints; timestamp rules an empty TimestampRules *)\nDefinition writer_float_rules_refused : bool := %v.\nDefinition writer_object_rules_empty : bool := %v.\nDefinition writer_oneof_rules_empty : bool := %v.\nDefinition writer_timestamp_rules_empty : bool := %v.\n",
		floatRefused, objEmpty, oneofEmpty, tsEmpty)

	// ---- the reader's wellKnownStringPatterns: literal pattern -> format name; id62.PatternString -> ?
	var wk [][2]string
	wkID := ""
	ast.Inspect(r, func(nd ast.Node) bool {
		vs, ok := nd.(*ast.ValueSpec)
		if !ok || len(vs.Names) != 1 || vs.Names[0].Name != "wellKnownStringPatterns" || len(vs.Values) != 1 {
			return true
		}
		cl, ok := vs.Values[0].(*ast.CompositeLit)
		if !ok {
			return true
		}
		consts := map[string]string{}
		ast.Inspect(r, func(n2 ast.Node) bool {
			if v2, ok := n2.(*ast.ValueSpec); ok && len(v2.Names) == len(v2.Values) {
				for i, nm := range v2.Names {
					if bl, ok := v2.Values[i].(*ast.BasicLit); ok && bl.Kind == token.STRING {
						if u, err := strconv.Unquote(bl.Value); err == nil {
							consts[nm.Name] = u
						}
					}
				}
			}
			return true
		})
		for _, e := range cl.Elts {
			kv, ok := e.(*ast.KeyValueExpr)
			if !ok {
				continue
			}
			val := consts[src(fsetR, kv.Value)]
			if bl, ok := kv.Key.(*ast.BasicLit); ok && bl.Kind == token.STRING {
				if u, err := strconv.Unquote(bl.Value); err == nil {
					wk = append(wk, [2]string{u, val})
				}
			} else if src(fsetR, kv.Key) == "id62.PatternString" {
				wkID = val
			}
		}
		return false
	})
	sort.Slice(wk, func(i, j int) bool { return wk[i][0] < wk[j][0] })
	bytesTerm := func(s string) string {
		parts := make([]string, len(s))
		for i := 0; i < len(s); i++ {
			parts[i] = fmt.Sprint(s[i])
		}
		return "[" + strings.Join(parts, ";") + "]%N"
	}
	sb.WriteString("(* schema_from_proto.go wellKnownStringPatterns: literal pattern -> format; and the format of id62.PatternString *)\nDefinition reader_wellknown_literals : list (list N * list N) := [")
	for i, x := range wk {
		if i > 0 {
			sb.WriteString("; ")
		}
		fmt.Fprintf(&sb, "(%s, %s)", bytesTerm(x[0]), bytesTerm(x[1]))
	}
	sb.WriteString("].\n")
	fmt.Fprintf(&sb, "Definition reader_wellknown_id62_format : list N := %s.\n", bytesTerm(wkID))

	vt, err := vocabularyTerm(repo)
	if err != nil {
		return "", err
	}
	sb.WriteString(vt)
	fmt.Fprintf(&sb, "(* the key:id62 arm of the writer assigns stringRules.Pattern = id62.PatternString; the reader's\n   wellKnownStringPatterns maps id62.PatternString to the id62 format *)\nDefinition writer_id62_published : bool := %v.\nDefinition reader_id62_published : bool := %v.\n", idArm, idRead)
	return sb.String(), nil
}

// ---- the vocabulary of schema.proto: every message of a field type, its Rules and Ext,
// ObjectProperty, KeyFormat, EntityKey, with its field names in declaration order. The Coq side
// (proofs/RulesGenProofs.v schema_vocabulary_covered) lists for every field where it lives in
// the declaration language of the models, or that it is outside: a field added to schema.proto
// breaks that lemma until it is given a place.
var vocabFieldRe = regexp.MustCompile(`^\s*(?:optional\s+|repeated\s+)?(?:map<[^>]+>|[\w.]+)\s+(\w+)\s*=\s*\d+`)
var vocabOpenRe = regexp.MustCompile(`^\s*(message|enum|oneof)\s+(\w+)\s*\{`)

func schemaVocabulary(src string) map[string][]string {
	out := map[string][]string{}
	type frame struct{ kind, name string }
	var stack []frame
	path := func() string {
		var p []string
		for _, f := range stack {
			if f.kind == "message" {
				p = append(p, f.name)
			}
		}
		return strings.Join(p, ".")
	}
	inEnum := func() bool {
		for _, f := range stack {
			if f.kind == "enum" {
				return true
			}
		}
		return false
	}
	depthOther := 0 // braces of option blocks
	for _, line := range strings.Split(src, "\n") {
		if i := strings.Index(line, "//"); i >= 0 {
			line = line[:i]
		}
		if depthOther > 0 {
			depthOther += strings.Count(line, "{") - strings.Count(line, "}")
			continue
		}
		if m := vocabOpenRe.FindStringSubmatch(line); m != nil {
			stack = append(stack, frame{m[1], m[2]})
			if m[1] == "message" {
				if _, ok := out[path()]; !ok {
					out[path()] = nil
				}
			}
			if strings.Contains(line, "}") { // message Ext {}
				stack = stack[:len(stack)-1]
			}
			continue
		}
		if m := vocabFieldRe.FindStringSubmatch(line); m != nil && len(stack) > 0 && !inEnum() {
			out[path()] = append(out[path()], m[1])
			if d := strings.Count(line, "{") - strings.Count(line, "}"); d > 0 {
				depthOther = d
			}
			continue
		}
		o, c := strings.Count(line, "{"), strings.Count(line, "}")
		if o > c {
			depthOther += o - c
			continue
		}
		for i := 0; i < c-o && len(stack) > 0; i++ {
			stack = stack[:len(stack)-1]
		}
	}
	return out
}

func vocabularyTerm(repo string) (string, error) {
	b, err := os.ReadFile(filepath.Join(repo, "proto/j5/j5/schema/v1/schema.proto"))
	if err != nil {
		return "", err
	}
	v := schemaVocabulary(string(b))
	var ks []string
	for k := range v {
		if (strings.HasSuffix(k, "Field") && k != "Field" && !strings.Contains(k, ".")) || strings.Contains(k, "Field.") || k == "ObjectProperty" || k == "KeyFormat" || k == "KeyFormat.Custom" || k == "EntityKey" {
			ks = append(ks, k)
		}
	}
	sort.Strings(ks)
	var sb strings.Builder
	sb.WriteString("(* proto/j5/j5/schema/v1/schema.proto: the field-type messages, their Rules and Ext, ObjectProperty,\n   KeyFormat, EntityKey: (message, field names in declaration order) *)\nDefinition schema_vocabulary : list (String.string * list String.string) := [\n")
	for i, k := range ks {
		var fs []string
		for _, f := range v[k] {
			fs = append(fs, fmt.Sprintf("%q%%string", f))
		}
		sep := ";"
		if i == len(ks)-1 {
			sep = ""
		}
		fmt.Fprintf(&sb, "  (%q%%string, [%s])%s\n", k, strings.Join(fs, "; "), sep)
	}
	sb.WriteString("].\n")
	return sb.String(), nil
}

// gen_scha: translator for the schema-rules family (coq/gen/RulesGen.v).
package main

import "verifharness/gen"

func main() { gen.Main() }

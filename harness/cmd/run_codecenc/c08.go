package main

import (
	"encoding/base64"
	"encoding/json"
	"fmt"
	"math"
	"strconv"
	"strings"
	"time"
	"unicode/utf8"

	"github.com/pentops/j5/gen/test/schema/v1/schema_testpb"
	"github.com/pentops/j5/j5types/any_j5t"
	"github.com/pentops/j5/j5types/date_j5t"
	"google.golang.org/protobuf/reflect/protoreflect"

	"verifharness/codecgen"
	"verifharness/vh"
)

func init() { vh.Register("C08", runC08) }

// inputClass summarises what a message contains that matters for failure signatures.
func inputClass(f *msgFacts, m protoreflect.Message, wc *wireChecker) string {
	var parts []string
	if wc != nil {
		if wc.nonFinite > 0 {
			parts = append(parts, "non-finite float")
		}
		if wc.dateOutOfRange > 0 {
			parts = append(parts, "out-of-range date")
		}
		if wc.tsOutOfRange > 0 {
			parts = append(parts, "out-of-range timestamp")
		}
	}
	if f.kinds["any"] > 0 {
		parts = append(parts, "any")
	}
	if len(parts) == 0 {
		return "representable message"
	}
	return strings.Join(parts, "+")
}

// scanWide looks for the wide-domain values without needing a parsed document
func scanWide(m protoreflect.Message, out map[string]int) {
	switch m.Descriptor().FullName() {
	case "j5.types.date.v1.Date":
		fs := m.Descriptor().Fields()
		y, mo, d := m.Get(fs.ByName("year")).Int(), m.Get(fs.ByName("month")).Int(), m.Get(fs.ByName("day")).Int()
		if y < 1 || y > 9999 || mo < 1 || mo > 12 || d < 1 || d > 31 {
			out["out-of-range date"]++
		}
		return
	case "google.protobuf.Timestamp":
		fs := m.Descriptor().Fields()
		sec, ns := m.Get(fs.ByName("seconds")).Int(), m.Get(fs.ByName("nanos")).Int()
		if sec < minTS || sec > maxTS || ns < 0 || ns > 999999999 {
			out["out-of-range timestamp"]++
		}
		return
	case "google.protobuf.Any":
		out["any"]++
		return
	case "j5.types.any.v1.Any":
		out["any"]++
		if jf := m.Descriptor().Fields().ByName("j5_json"); m.Has(jf) {
			if _, err := parseStrict(m.Get(jf).Bytes()); err != nil {
				out["ill-formed j5_json"]++
			}
		}
		return
	}
	m.Range(func(fd protoreflect.FieldDescriptor, v protoreflect.Value) bool {
		one := func(fd protoreflect.FieldDescriptor, v protoreflect.Value) {
			switch fd.Kind() {
			case protoreflect.FloatKind, protoreflect.DoubleKind:
				if math.IsNaN(v.Float()) || math.IsInf(v.Float(), 0) {
					out["non-finite float"]++
				}
			case protoreflect.MessageKind:
				scanWide(v.Message(), out)
			}
		}
		switch {
		case fd.IsList():
			for i := 0; i < v.List().Len(); i++ {
				one(fd, v.List().Get(i))
			}
		case fd.IsMap():
			v.Map().Range(func(_ protoreflect.MapKey, mv protoreflect.Value) bool { one(fd.MapValue(), mv); return true })
		default:
			one(fd, v)
		}
		return true
	})
}

func wideClass(m protoreflect.Message) string {
	w := map[string]int{}
	scanWide(m, w)
	var parts []string
	for _, k := range []string{"non-finite float", "out-of-range date", "out-of-range timestamp", "any", "ill-formed j5_json"} {
		if w[k] > 0 {
			parts = append(parts, k)
		}
	}
	if len(parts) == 0 {
		return "representable message"
	}
	return strings.Join(parts, "+")
}

type encRun struct {
	cfg      *vh.Config
	res      *vh.Result
	em       *emitter
	distinct vh.Distinct
	ring     []keptDoc // documents returned by earlier encodes, re-validated after later ones
}

// keptDoc: the slice ProtoToJSON returned (not a copy) and a copy taken at once.
type keptDoc struct {
	orig   []byte
	copy   string
	in     map[string]any
	caseNo int
	stream string
	later  int // encodes made since
}

// keepDoc / recheckDocs: "every successful encoding is a document" must stay true of the bytes the
// caller was handed: a document returned by encode k is looked at again after encodes k+1..k+3 of
// other messages — it must still be the same bytes (and hence the same well-formed document).
func (er *encRun) keepDoc(o encObs, in map[string]any, caseNo int, stream string) {
	for i := range er.ring {
		er.ring[i].later++
	}
	er.recheckDocs(3)
	if o.Kind == "ok" {
		er.ring = append(er.ring, keptDoc{orig: o.Out, copy: string(o.Out), in: in, caseNo: caseNo, stream: stream})
	}
}

func (er *encRun) recheckDocs(minLater int) {
	kept := er.ring[:0]
	for _, d := range er.ring {
		if d.later < minLater {
			kept = append(kept, d)
			continue
		}
		if string(d.orig) != d.copy {
			er.res.Fail(vh.Failure{Case: d.caseNo, Stream: d.stream, Sig: "C08 returned document changes after a later encode",
				Clause: "every successful encoding is one well-formed JSON document", Input: d.in,
				Got: fmt.Sprintf("returned %s, after %d later encodes the same bytes read %s", short([]byte(d.copy)), d.later, short(d.orig))})
		} else {
			er.res.Count("returned_document_unchanged_after_later_encodes")
		}
	}
	er.ring = kept
}

// encodeCase runs one message through the real encoder, the C08 oracle and emits the model case.
func (er *encRun) encodeCase(stream string, t *target, m protoreflect.Message, model bool) (encObs, *msgFacts) {
	res := er.res
	o := encodeMsg(theCodec, m)
	er.keepDoc(o, map[string]any{"type": t.Env.Root, "message": shortMsg(m)}, er.em.caseNo, stream)
	if o.Kind == "ok" {
		o.Out = []byte(string(o.Out)) // everything below looks at the document as it was returned
	}
	facts := factsOf(m)
	term := msgTerm(m)
	er.distinct.Add(t.Name + term)
	res.Count(stream)
	res.Count("encode_" + o.Kind)
	cls := wideClass(m)
	in := map[string]any{"type": t.Env.Root, "message": shortMsg(m)}
	caseNo := er.em.caseNo
	valid := false
	switch o.Kind {
	case "panic":
		res.Fail(vh.Failure{Case: caseNo, Stream: stream, Sig: "C08 encoder panic (" + cls + ")", Clause: "encoding fails or yields a JSON document", Input: in, Got: o.Panic})
	case "err":
		if strings.Contains(cls, "ill-formed j5_json") {
			res.Count("refused_illformed_stored_j5json")
		}
	case "ok":
		root, perr := parseStrict(o.Out)
		valid = json.Valid(o.Out)
		if (perr == nil) != valid {
			res.Fail(vh.Failure{Case: caseNo, Stream: stream, Sig: "harness: strict reader and encoding/json.Valid disagree", Clause: "harness self-check", Input: in, Got: short(o.Out)})
		}
		if perr != nil {
			// no exemption: a j5 Any whose stored j5_json is not a JSON document must make the encoding
			// fail (encodeAny checks json.Valid && utf8.Valid since the /repo fix), never be copied out
			res.Fail(vh.Failure{Case: caseNo, Stream: stream, Sig: "C08 output is not well-formed JSON (" + cls + ")", Clause: "every successful encoding is one well-formed JSON document", Input: in, Got: short(o.Out) + ": " + perr.Error()})
		} else {
			wc := checkWire(t.Env, m, root)
			for _, v := range wc.viols {
				res.Fail(vh.Failure{Case: caseNo, Stream: stream, Sig: v.sig, Clause: v.clause, Input: in, Got: v.path + ": " + v.got + " in " + short(o.Out)})
			}
			if wc.nonFinite > 0 {
				res.Count("msgs_with_nonfinite_float")
			}
			if wc.dateOutOfRange > 0 {
				res.Count("msgs_with_out_of_range_date")
			}
			if wc.tsOutOfRange > 0 {
				res.Count("msgs_with_out_of_range_timestamp")
			}
		}
	}
	for k, n := range facts.kinds {
		res.Distribution["field_"+k] += n
	}
	if model && len(o.Out) > maxModelOut {
		res.Count("model_skipped_large_document")
		model = false
	}
	if model {
		strict := facts.maxMap <= 1
		er.em.add(fmt.Sprintf("CEnc %s %s %s %s %s %s %s %s %s", t.Name, codecgen.BytesTerm(t.Env.Root), term,
			facts.floatsTerm(), facts.innersTerm(), vh.BoolTerm(strict), vh.BoolTerm(o.Kind == "ok"), codecgen.BytesTerm(string(o.Out)), vh.BoolTerm(valid)),
			stream, in, map[string]any{"kind": o.Kind, "out": short(o.Out), "err": o.Err})
		if !strict {
			res.Count("compared_modulo_map_order")
		}
	}
	er.em.caseNo++
	if len(o.Out) > 2 && len(o.Out) < 200 {
		res.Sample(map[string]any{"stream": stream, "type": t.Env.Root, "json": string(o.Out)}, 10)
	}
	return o, facts
}

// storedTextCorpus: stored j5_json texts of a j5 Any — not JSON in every way the strict reader
// distinguishes, and JSON in unusual spellings (these are copied verbatim).
func storedTextCorpus() []string {
	return []string{
		"{not json", "1 2", "{\"a\":1}}", "{\"a\":1", "[1,]", "{\"a\":1,}", "{,}", "nul", "tru", "+1", "01", "1.", ".5", "1e", "-",
		"\"abc", "\"a\nb\"", "\"\\x\"", "\"\\u12\"", "\"\xff\"", "\"\xed\xa0\x80\"", "{\"a\" 1}", "{1:2}", "[1 2]", " ", "}", "]", "{\"a\":}", "\x00",
		"{}", "[]", "null", "true", "0", "-0", "1e5", "1E+5", "\"\"", " { \"a\" : [ 1 , 2 ] } ", "\"\\u0041\\/\"", "{\"a\":1,\"a\":2}", "\"\\ud83d\\ude00\"", "\t[\r\n]\n",
	}
}

func handMessages() []*schema_testpb.FullSchema {
	f32 := func(f float64) float32 { return float32(f) }
	s := func(x string) *string { return &x }
	return []*schema_testpb.FullSchema{
		{},
		{SString: "a"}, {OString: s("")}, {RString: []string{"", "a\"b"}},
		{SFloat: f32(math.Copysign(0, -1))}, {SFloat: 1e21}, {SFloat: 1e20}, {SFloat: 1e-7}, {SFloat: 0.1}, {RFloat: []float32{0, 1.5, -2}},
		{SBool: true}, {RBool: []bool{false, true}},
		{SInt32: math.MinInt32}, {SInt32: math.MaxInt32}, {SUint32: math.MaxUint32}, {SSint32: -1}, {SInt64: math.MinInt64}, {SInt64: math.MaxInt64}, {SUint64: math.MaxUint64},
		{SBar: &schema_testpb.Bar{}}, {SBar: &schema_testpb.Bar{BarId: "x"}}, {RBars: []*schema_testpb.Bar{{}, {BarField: "y"}}},
		{Enum: 1}, {Enum: 2}, {REnum: []schema_testpb.Enum{0, 1, 2}},
		{SBytes: []byte{0}}, {SBytes: []byte{0xfb, 0xff}}, {SBytes: []byte{0xfb, 0xff, 0xfe}}, {RBytes: [][]byte{{}, {1}, {1, 2}, {1, 2, 3}, {1, 2, 3, 4}}},
		{MapStringString: map[string]string{"": ""}}, {MapStringString: map[string]string{"a\"\n": "b"}}, {MapStringBar: map[string]*schema_testpb.Bar{"k": {}}},
		{AnonOneof: &schema_testpb.FullSchema_AOneofString{AOneofString: ""}}, {AnonOneof: &schema_testpb.FullSchema_AOneofFloat{AOneofFloat: 0}}, {AnonOneof: &schema_testpb.FullSchema_AOneofBar{AOneofBar: &schema_testpb.Bar{}}}, {AnonOneof: &schema_testpb.FullSchema_AOneofEnum{AOneofEnum: 0}},
		{ExposedOneof: &schema_testpb.FullSchema_ExposedString{ExposedString: ""}}, {ExposedOneof: &schema_testpb.FullSchema_ExposedString{ExposedString: "x"}},
		{WrappedOneof: &schema_testpb.WrappedOneof{}}, {WrappedOneof: &schema_testpb.WrappedOneof{Type: &schema_testpb.WrappedOneof_WOneofFloat{WOneofFloat: 0}}},
		{WrappedOneofs: []*schema_testpb.WrappedOneof{{}, {Type: &schema_testpb.WrappedOneof_WOneofEnum{WOneofEnum: 1}}}},
		{Flattened: &schema_testpb.FlattenedMessage{}}, {Flattened: &schema_testpb.FlattenedMessage{FieldFromFlattened: "a"}}, {Flattened: &schema_testpb.FlattenedMessage{Field_2FromFlattened: "b"}},
		{NestedExposedOneof: &schema_testpb.NestedExposed{}}, {NestedExposedOneof: &schema_testpb.NestedExposed{Type: &schema_testpb.NestedExposed_De3{De3: &schema_testpb.NestedExposed{Type: &schema_testpb.NestedExposed_De1{De1: ""}}}}},
		{SImplicitOneof: &schema_testpb.ImplicitOneof{Type: &schema_testpb.ImplicitOneof_IoBaz{IoBaz: &schema_testpb.Baz{}}}}, {RImplicitOneofs: []*schema_testpb.ImplicitOneof{{}}},
		{Date: &date_j5t.Date{Year: 2024, Month: 2, Day: 29}}, {Date: &date_j5t.Date{Year: 5, Month: 1, Day: 2}}, {Date: &date_j5t.Date{Year: 999, Month: 12, Day: 31}}, {Date: &date_j5t.Date{Year: 1000, Month: 1, Day: 1}},
		{KeyString: "k"},
	}
}

func runC08(cfg *vh.Config) error {
	res := vh.NewResult("C08", cfg.Seed)
	res.Rule = "messages of test.schema.v1.FullSchema (and its oneof/nested types as roots) and of generated dynamic descriptors, filled through protoreflect: hand-written one-field messages for every field class; random messages with integer boundaries, escapes / controls / non-BMP text, every oneof arm, maps, arrays, nesting depth 1-5, optional-with-zero, both Any flavours; a wide stream with NaN/Inf, years < 1 and > 9999, months/days out of range, timestamps outside 0001-9999 and with denormal nanos; a malformed stream (invalid UTF-8, undefined enum numbers, unknown Any types); library streams for appendString, FormatInt, base64, time.Format, DateString, JSON validity. non-trivial = distinct (type, message) other than the empty message"
	targets, nFixed, err := loadTargets(cfg, res)
	if err != nil {
		return err
	}
	em := &emitter{cf: &vh.CasesFile{Header: envHeader(targets), Type: "enc_case", Check: "enc_check"}, res: res, perShd: 200}
	er := &encRun{cfg: cfg, res: res, em: em, distinct: vh.Distinct{}}
	r := cfg.R
	full := targets[0]

	// the reflector's derivation steps (enum short names, flatten hoisting), recomputed in Coq from the
	// raw environment of every root type of the run
	for _, t := range targets {
		raw, err := codecgen.BuildRawEnv(t.New().Descriptor())
		if err != nil {
			res.Count("raw_env_error")
			res.Notes = append(res.Notes, "raw environment of "+t.Env.Root+": "+err.Error())
			continue
		}
		nFlat, nEnum := 0, 0
		for _, s := range raw.Schemas {
			for _, p := range s.Props {
				if p.Flatten {
					nFlat++
				}
				// "member names are the schema's JSON names": the reflector's name of an own property is
				// the proto descriptor's JSON name of its field
				if p.Field != nil && len(p.Path) == 1 {
					res.Distribution["derivation_json_names_checked"]++
					if string(p.Field.JSONName()) != p.JSON {
						res.Fail(vh.Failure{Case: em.caseNo, Stream: "reflector-derivation", Sig: "C08 member name is not the descriptor's JSON name", Clause: "member names are the schema's JSON names",
							Input: map[string]any{"type": s.Name, "field": string(p.Field.FullName())}, Got: p.JSON + " vs " + string(p.Field.JSONName())})
					}
				}
			}
			if s.Class == "enum" {
				nEnum++
			}
		}
		res.Distribution["derivation_flattened_properties"] += nFlat
		res.Distribution["derivation_enums"] += nEnum
		res.Count("reflector-derivation")
		em.add(fmt.Sprintf("CEnv %s %s", raw.RawCoq(), t.Name), "reflector-derivation", map[string]any{"type": t.Env.Root}, map[string]any{"schemas": len(t.Env.Schemas), "raw_schemas": len(raw.Schemas)})
		em.caseNo++
	}

	for _, m := range handMessages() {
		er.encodeCase("hand-written", full, m.ProtoReflect(), true)
	}
	// pinned: j5 Any values whose stored j5_json is not one JSON value in valid UTF-8 (every way the
	// strict reader refuses a text), beside texts it accepts in unusual spellings
	for _, stored := range storedTextCorpus() {
		a := &any_j5t.Any{TypeName: "test.schema.v1.Bar", J5Json: []byte(stored)}
		er.encodeCase("any-stored-text", full, (&schema_testpb.FullSchema{J5Any: a}).ProtoReflect(), true)
		er.encodeCase("any-stored-text", full, (&schema_testpb.FullSchema{SBar: &schema_testpb.Bar{BarId: "b"}, J5Any: a, SString: "after"}).ProtoReflect(), true)
	}

	pick := func() *target {
		if r.Chance(70) {
			return full
		}
		return vh.Pick(r, targets)
	}
	for _, t := range targets {
		for _, m := range emptySubMessages(t.New) {
			er.encodeCase("empty-submessage", t, m, true)
		}
	}
	nBig := cfg.Scale(40, 1500)
	for i := 0; i < nBig; i++ {
		t := pick()
		g := &msgGen{r: r, maxDepth: r.Range(1, 3), fieldPct: vh.Pick(r, []int{4, 10, 25}), maxEntries: 2, big: true, emptySubs: 20}
		m := t.New()
		g.fill(m, 1)
		er.encodeCase("big", t, m, true)
	}
	nSparse := cfg.Scale(300, 6000)
	for i := 0; i < nSparse; i++ {
		t := pick()
		g := &msgGen{r: r, maxDepth: 2, fieldPct: vh.Pick(r, []int{3, 6}), maxEntries: 2, emptySubs: 30}
		m := t.New()
		g.fill(m, 1)
		er.encodeCase("sparse", t, m, true)
	}
	nMsg := cfg.Scale(350, 8000)
	for i := 0; i < nMsg; i++ {
		t := pick()
		g := &msgGen{r: r, maxDepth: r.Range(1, 5), fieldPct: vh.Pick(r, []int{10, 20, 35, 60}), maxEntries: r.Range(1, 3), emptySubs: vh.Pick(r, []int{0, 10, 30})}
		m := t.New()
		g.fill(m, 1)
		er.encodeCase("message", t, m, true)
	}
	// messages of the schemas generated for this run (compiled j5s packages, raw descriptors)
	if gen := targets[nFixed:]; len(gen) > 0 {
		for i := 0; i < cfg.Scale(400, 4000); i++ {
			t := vh.Pick(r, gen)
			g := &msgGen{r: r, maxDepth: r.Range(1, 4), fieldPct: vh.Pick(r, []int{20, 40, 70}), maxEntries: r.Range(1, 3), emptySubs: vh.Pick(r, []int{0, 10, 30}), wide: r.Chance(15)}
			m := t.New()
			g.fill(m, 1)
			er.encodeCase("generated-schema", t, m, true)
		}
	}
	nWide := cfg.Scale(250, 6000)
	for i := 0; i < nWide; i++ {
		t := pick()
		g := &msgGen{r: r, maxDepth: r.Range(1, 3), fieldPct: vh.Pick(r, []int{5, 15, 30}), maxEntries: 2, wide: true}
		m := t.New()
		g.fill(m, 1)
		er.encodeCase("wide", t, m, true)
	}
	nBad := cfg.Scale(150, 3000)
	for i := 0; i < nBad; i++ {
		t := pick()
		g := &msgGen{r: r, maxDepth: r.Range(1, 3), fieldPct: vh.Pick(r, []int{5, 15, 30}), maxEntries: 2, malformed: true, wide: r.Bool()}
		m := t.New()
		g.fill(m, 1)
		er.encodeCase("malformed", t, m, true)
	}

	// ---- Codec.EncodeAny -> store in a parent's j5 Any field -> encode the parent with the same codec:
	// the value embedded in the parent is the payload's own encoding
	for i := 0; i < cfg.Scale(60, 1200); i++ {
		g := &msgGen{r: r}
		p := g.anyPayload()
		if !validUTF8Payload(p) {
			continue
		}
		in := map[string]any{"type": "test.schema.v1.FullSchema", "message": "j5any = EncodeAny(" + shortMsg(p.ProtoReflect()) + ")"}
		caseNo := em.caseNo
		em.caseNo++
		res.Count("any-sequence")
		a, err := theCodec.EncodeAny(p.ProtoReflect())
		if err != nil {
			continue
		}
		payload := string(a.J5Json) // copy at once
		parent := &schema_testpb.FullSchema{SString: "padding-" + g.text(), J5Any: a}
		o := encodeMsg(theCodec, parent.ProtoReflect())
		if o.Kind != "ok" {
			continue
		}
		doc := []byte(string(o.Out))
		root, perr := parseStrict(doc)
		if perr != nil {
			res.Fail(vh.Failure{Case: caseNo, Stream: "any-sequence", Sig: "C08 returned document changes after a later encode", Clause: "every successful encoding is one well-formed JSON document", Input: in,
				Got: "parent of an EncodeAny result is not JSON: " + short(doc) + " (payload was " + short([]byte(payload)) + ")"})
			continue
		}
		if jn, c := root.member("j5any"); c == 1 && jn.kind == 'o' {
			if vn, vc := jn.member("value"); vc == 1 {
				var got []byte
				printNode(&got, vn)
				if string(got) != string(canonPrint([]byte(payload))) {
					res.Fail(vh.Failure{Case: caseNo, Stream: "any-sequence", Sig: "C08 returned document changes after a later encode", Clause: "Any values are {!type, value}", Input: in,
						Got: "EncodeAny returned " + short([]byte(payload)) + ", the parent embeds " + short(got)})
					continue
				}
			}
		}
		if string(a.J5Json) != payload {
			res.Fail(vh.Failure{Case: caseNo, Stream: "any-sequence", Sig: "C08 returned document changes after a later encode", Clause: "every successful encoding is one well-formed JSON document", Input: in,
				Got: "EncodeAny returned " + short([]byte(payload)) + ", after encoding the parent the same bytes read " + short(a.J5Json)})
		}
	}
	er.recheckDocs(1)

	// ---- library streams: the printers, each against the real Go function
	libPrinters(cfg, er)

	res.Evaluations = em.caseNo
	res.Distinct = len(er.distinct) - 1
	return em.finish(cfg)
}

func libPrinters(cfg *vh.Config, er *encRun) {
	r := cfg.R
	res := er.res
	em := er.em
	g := &msgGen{r: r, malformed: true}
	// appendString, observed through the string field of FullSchema
	nEsc := cfg.Scale(250, 5000)
	for i := 0; i < nEsc; i++ {
		s := g.text()
		if i < 160 { // every byte value once, alone and between letters
			s = string([]byte{byte(i)})
			if i >= 128 {
				s = "a" + string(rune(i)) + "b"
			}
		} else if r.Chance(20) {
			s = string(r.Bytes(r.Range(1, 6)))
		}
		if s == "" {
			continue
		}
		o := encodeMsg(theCodec, (&schema_testpb.FullSchema{SString: s}).ProtoReflect())
		var out []byte
		if o.Kind == "ok" {
			out = o.Out[len(`{"sString":`) : len(o.Out)-1]
			var back string
			if err := json.Unmarshal(out, &back); err != nil || back != s {
				res.Fail(vh.Failure{Case: em.caseNo, Stream: "escape", Sig: "C08 string literal does not read back", Clause: "well-formed JSON string", Input: fmt.Sprintf("%q", s), Got: short(out)})
			}
		}
		em.add(fmt.Sprintf("CEscape %s %s %s", codecgen.BytesTerm(s), vh.BoolTerm(o.Kind == "ok"), codecgen.BytesTerm(string(out))), "escape", fmt.Sprintf("%q", s), o.Kind)
		er.distinct.Add("esc" + s)
		res.Count("lib_escape")
		em.caseNo++
	}
	// integers
	for i := 0; i < cfg.Scale(150, 3000); i++ {
		v := g.int64In(math.MinInt64, math.MaxInt64)
		em.add(fmt.Sprintf("CFmtInt (%d)%%Z %s", v, codecgen.BytesTerm(strconv.FormatInt(v, 10))), "fmtint", v, nil)
		res.Count("lib_fmtint")
		em.caseNo++
		if i%3 == 0 {
			u := g.uint64Val()
			em.add(fmt.Sprintf("CFmtInt (%d)%%Z %s", u, codecgen.BytesTerm(strconv.FormatUint(u, 10))), "fmtint", u, nil)
			res.Count("lib_fmtint")
			em.caseNo++
		}
	}
	// base64
	for i := 0; i < cfg.Scale(120, 3000); i++ {
		n := i % 40
		if i >= 80 {
			n = r.Range(0, 100)
		}
		if i >= 110 { // around the 1 KiB chunk boundary (longer values: direct oracle of the big stream)
			n = 1020 + i%10
		}
		b := r.Bytes(n)
		em.add(fmt.Sprintf("CB64Enc %s %s", codecgen.BytesTerm(string(b)), codecgen.BytesTerm(base64.StdEncoding.EncodeToString(b))), "b64enc", fmt.Sprintf("%x", b), nil)
		res.Count("lib_b64enc")
		em.caseNo++
	}
	// time.Format
	tsg := &msgGen{r: r, wide: true}
	for i := 0; i < cfg.Scale(200, 5000); i++ {
		tsg.wide = i%2 == 0
		m := (&schema_testpb.FullSchema{}).ProtoReflect()
		tm := m.NewField(m.Descriptor().Fields().ByName("ts")).Message()
		tsg.timestamp(tm)
		sec := tm.Get(tm.Descriptor().Fields().ByName("seconds")).Int()
		ns := tm.Get(tm.Descriptor().Fields().ByName("nanos")).Int()
		out := time.Unix(sec, ns).In(time.UTC).Format(time.RFC3339Nano)
		em.add(fmt.Sprintf("CTimeFmt (%d)%%Z (%d)%%Z %s", sec, ns, codecgen.BytesTerm(out)), "timefmt", []int64{sec, ns}, out)
		res.Count("lib_timefmt")
		em.caseNo++
	}
	// DateString
	for i := 0; i < cfg.Scale(150, 3000); i++ {
		tsg.wide = i%2 == 0
		d := &date_j5t.Date{}
		tsg.date(d.ProtoReflect())
		out := d.DateString()
		em.add(fmt.Sprintf("CDateFmt (%d)%%Z (%d)%%Z (%d)%%Z %s", d.Year, d.Month, d.Day, codecgen.BytesTerm(out)), "datefmt", []int32{d.Year, d.Month, d.Day}, out)
		res.Count("lib_datefmt")
		em.caseNo++
	}
	// JSON validity of arbitrary texts: the strict reader of the model against encoding/json
	docs := []string{``, ` `, `{}`, `[]`, `null`, `true`, `false`, `0`, `-0`, `1.5e+3`, `01`, `1.`, `.5`, `-`, `+1`, `1e`, `"a"`, `"é"`, `"😀"`, `"\ud800"`, `"\x"`, "\"\x01\"", "\"\xff\"", `{"a":1,"a":2}`, `{"a":}`, `{"a" 1}`, `{,}`, `[1,]`, `[,1]`, `{} {}`, `{}x`, ` { "a" : [ 1 , 2 ] } `, `NaN`, `+Inf`, `{"v":NaN}`, `{"v":"NaN"}`, `nul`, `tru`, `[`, `{`, `"`, `{"!type":"x","value":}`, "\t[\n]\r", `1 2`, `"a" "b"`, `[1 2]`, `{"a":1 "b":2}`, `-01`, `0.0`, `0e0`, `1E+2`, `1e+`, `"\/"`, `"\a"`, `{"a":{"b":[{}]}}`}
	for i := 0; i < cfg.Scale(60, 1500); i++ {
		t := vh.Pick(r, loadedFull)
		gg := codecgen.NewGen(r, t.Env)
		gg.MaxDepth = r.Range(1, 3)
		gg.PropChance = 30
		doc := gg.Root().Print(&codecgen.Style{R: r, Spaces: r.Bool(), Unicode: r.Bool()})
		docs = append(docs, doc)
		if r.Chance(60) {
			docs = append(docs, codecgen.ByteMutation(doc, r))
		}
	}
	for _, d := range docs {
		v := json.Valid([]byte(d)) && utf8.ValidString(d) // encoding/json does not check UTF-8; RFC 8259 text is UTF-8
		em.add(fmt.Sprintf("CValid %s %s", codecgen.BytesTerm(d), vh.BoolTerm(v)), "valid", short([]byte(d)), v)
		res.Count("lib_valid")
		em.caseNo++
	}
}

var loadedFull []*target

func init() {
	// the FullSchema target for document generation in libPrinters
	ts, err := loadFixedOnly()
	if err == nil {
		loadedFull = ts
	}
}

func loadFixedOnly() ([]*target, error) {
	t := &target{Name: "env_full", New: func() protoreflect.Message { return (&schema_testpb.FullSchema{}).ProtoReflect().New() }}
	env, err := codecgen.BuildEnv(t.New().Descriptor())
	if err != nil {
		return nil, err
	}
	t.Env = env
	return []*target{t}, nil
}

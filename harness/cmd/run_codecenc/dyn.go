package main

// dynamicTargets builds message types from generated raw descriptors (filled in by dyn_gen.go).
var dynamicTargets = func() ([]*target, error) { return nil, nil }

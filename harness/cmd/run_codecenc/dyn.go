package main

import (
	"google.golang.org/protobuf/reflect/protoreflect"
	"google.golang.org/protobuf/types/dynamicpb"

	"verifharness/codecgen"
)

// dynamicTargets: message types built from raw descriptors (dynamicpb), no generated Go code:
// verif.wide.v1 of harness/codecgen (every scalar kind x singular/optional/repeated/map, enum /
// object / oneof arrays and maps, recursion, two-level flatten, exposed and plain proto oneofs, both Any flavours).
var dynamicTargets = func() ([]*target, error) {
	fd, err := codecgen.WideFile()
	if err != nil {
		return nil, err
	}
	mk := func(name, msg string) *target {
		md := fd.Messages().ByName(protoreflect.Name(msg))
		return &target{Name: name, New: func() protoreflect.Message { return dynamicpb.NewMessage(md) }}
	}
	return []*target{mk("env_wide", "Wide"), mk("env_choice", "Choice"), mk("env_leaf", "Leaf")}, nil
}

package main

import (
	"fmt"
	"math"
	"strings"

	"github.com/pentops/j5/gen/test/schema/v1/schema_testpb"
	"google.golang.org/protobuf/proto"
	"google.golang.org/protobuf/reflect/protoreflect"

	"verifharness/vh"
)

// msgGen fills messages through protoreflect, so it works for generated and dynamic types alike.
type msgGen struct {
	r          *vh.Rand
	maxDepth   int
	fieldPct   int  // chance that a singular field is populated
	wide       bool // also draw values outside the documented wire format: NaN/Inf, out-of-range dates and timestamps
	nonFinite  bool // draw NaN / +Inf / -Inf for float fields (only that part of wide)
	malformed  bool // also draw invalid UTF-8, undefined enum numbers, Any with unknown types / broken payloads
	maxEntries int  // list / map sizes
	big        bool // also draw long strings / byte strings and collections with more than 64 entries
	emptySubs  int  // chance (percent) that a message-typed value is left present but empty
}

// sizes around the chunk boundaries of buffered writers and base64 groups
var bigSizes = []int{1023, 1024, 1025, 2047, 2048, 2049, 3071, 3072, 3073, 4095, 4096, 4097, 5000, 6145}

var textPool = []string{
	"", "a", "hello world", "with \"quotes\" and \\backslash\\", "tab\there", "nl\nnl", "cr\rcr", "\b\f", "\x00\x01\x1f", "\x7f", "</script>", "/slash/",
	"é", "ü–—", "日本語", "😀", "a😀b𝄞", "  ", "�", "!type", "value", "null", "true", "123", "-1.5e3", "{}", "[]", " leading", "trailing ",
}

func (g *msgGen) text() string {
	r := g.r
	if g.big && r.Chance(12) {
		n := vh.Pick(r, bigSizes)
		var sb strings.Builder
		for sb.Len() < n {
			sb.WriteString(vh.Pick(r, textPool))
			sb.WriteString("x")
		}
		t := sb.String()[:n-3] + "end" // may cut a multi-byte rune
		if !g.malformed {
			t = strings.ToValidUTF8(t, "?")
		}
		return t
	}
	switch r.Intn(10) {
	case 0, 1, 2, 3:
		return vh.Pick(r, textPool)
	case 4:
		return vh.Pick(r, textPool) + vh.Pick(r, textPool)
	case 5: // random printable ASCII
		n := r.Range(0, 20)
		b := make([]byte, n)
		for i := range b {
			b[i] = byte(r.Range(32, 126))
		}
		return string(b)
	case 6: // random runes over the planes, surrogates excluded
		n := r.Range(1, 8)
		var sb strings.Builder
		for i := 0; i < n; i++ {
			var c rune
			switch r.Intn(5) {
			case 0:
				c = rune(r.Range(0, 0x7f))
			case 1:
				c = rune(r.Range(0x80, 0x7ff))
			case 2:
				c = rune(r.Range(0x800, 0xd7ff))
			case 3:
				c = rune(r.Range(0xe000, 0xffff))
			default:
				c = rune(r.Range(0x10000, 0x10ffff))
			}
			sb.WriteRune(c)
		}
		return sb.String()
	case 7: // every control character once in a while
		return "c" + string(rune(r.Range(0, 31))) + "c"
	default:
		if g.malformed && r.Chance(40) {
			bad := []string{"\xff", "\xc0\x80", "\xed\xa0\x80", "\xf4\x90\x80\x80", "\xe2\x82", "ok\x80", "\xf0\x9f\x98"}
			return vh.Pick(r, textPool) + vh.Pick(r, bad) + vh.Pick(r, textPool)
		}
		return fmt.Sprintf("id-%d", r.Intn(1000))
	}
}

func (g *msgGen) int64In(lo, hi int64) int64 {
	r := g.r
	switch r.Intn(6) {
	case 0:
		return vh.Pick(r, []int64{lo, hi, lo + 1, hi - 1})
	case 1:
		return clamp(vh.Pick(r, []int64{0, 1, -1, 9, 10, 99, 100, 127, 128, 255, 256, 999, 1000, 65535, 65536}), lo, hi)
	case 2:
		return clamp(int64(r.Intn(2000))-1000, lo, hi)
	case 3: // powers of ten and two, either side
		k := r.Intn(63)
		v := int64(1) << uint(k)
		if r.Bool() {
			v = int64(math.Pow10(r.Intn(19)))
		}
		v += int64(r.Intn(3)) - 1
		if r.Bool() {
			v = -v
		}
		return clamp(v, lo, hi)
	default:
		v := int64(r.U64())
		return clamp(v>>uint(r.Intn(64)), lo, hi)
	}
}

func clamp(v, lo, hi int64) int64 {
	if v < lo {
		return lo
	}
	if v > hi {
		return hi
	}
	return v
}

func (g *msgGen) uint64Val() uint64 {
	r := g.r
	switch r.Intn(5) {
	case 0:
		return vh.Pick(r, []uint64{0, 1, math.MaxUint64, math.MaxUint64 - 1, math.MaxInt64, math.MaxInt64 + 1, math.MaxUint32, math.MaxUint32 + 1})
	case 1:
		return uint64(r.Intn(1000))
	default:
		return r.U64() >> uint(r.Intn(64))
	}
}

func (g *msgGen) float64Val() float64 {
	r := g.r
	switch r.Intn(8) {
	case 0:
		return vh.Pick(r, []float64{0, 1, -1, 0.5, 1.5, -2.25, 100, 1e21, 1e20, 123456789012345680000, 1e-7, 1e-6, 0.000001, 0.0000001, math.MaxFloat64, math.SmallestNonzeroFloat64, -math.MaxFloat64, math.MaxFloat32, 0.1, 0.2, 0.30000000000000004, 1.0 / 3, math.Pi, 9007199254740993, 4.35, 5e-324, 2.2250738585072014e-308})
	case 1:
		return math.Copysign(0, -1)
	case 2:
		if g.wide || g.nonFinite {
			return vh.Pick(r, []float64{math.NaN(), math.Inf(1), math.Inf(-1), math.Float64frombits(0x7ff8000000000001), math.Float64frombits(0xfff0000000000001)})
		}
		return float64(r.Intn(100000)) / 100
	case 3:
		return float64(int64(r.U64()>>uint(r.Intn(64)))) * math.Pow10(r.Range(-30, 30))
	case 4:
		return float64(r.Intn(2000)-1000) / 8
	default:
		f := math.Float64frombits(r.U64())
		if math.IsNaN(f) || math.IsInf(f, 0) {
			if g.wide || g.nonFinite {
				return f
			}
			return 42.5
		}
		return f
	}
}

func (g *msgGen) float32Val() float32 {
	r := g.r
	switch r.Intn(6) {
	case 0:
		return vh.Pick(r, []float32{0, 1, -1, 0.5, 0.1, 0.2, 16777216, 16777217, 3.4028235e38, 1e-45, 1.1754944e-38, 1e21, 1e20, 1e-7, 123456.79, 4.35})
	case 1:
		return float32(math.Copysign(0, -1))
	case 2:
		if g.wide || g.nonFinite {
			return vh.Pick(r, []float32{float32(math.NaN()), float32(math.Inf(1)), float32(math.Inf(-1)), math.Float32frombits(0x7fc00001), math.Float32frombits(0xff800001)})
		}
		return float32(r.Intn(100000)) / 100
	case 3:
		return float32(r.Intn(2000)-1000) / 8
	default:
		f := math.Float32frombits(uint32(r.U64()))
		if f != f || math.IsInf(float64(f), 0) {
			if g.wide || g.nonFinite {
				return f
			}
			return 42.5
		}
		return f
	}
}

var decimalPool = []string{"0", "1", "-1", "1.5", "1.50", "0.1", "-0.001", "123456789012345678901234567890.123456789", "1e3", "1E-3", "+5", "-0", "0.0", "00012.500", ".5", "5.", "1e+2", "100", "1000000", "-99.99", "1.0e0", "0e10"}

func (g *msgGen) decimalText() string {
	r := g.r
	switch r.Intn(4) {
	case 0, 1:
		return vh.Pick(r, decimalPool)
	case 2:
		s := fmt.Sprintf("%d", r.Intn(100000))
		if r.Bool() {
			s += fmt.Sprintf(".%0*d", r.Range(1, 6), r.Intn(1000))
		}
		if r.Chance(30) {
			s = "-" + s
		}
		return s
	default:
		if g.wide && r.Chance(50) {
			return vh.Pick(r, []string{"", "abc", "1.2.3", "1e", "--1", "NaN", "1,5", " 1"})
		}
		return fmt.Sprintf("%d.%d", g.int64In(-1e15, 1e15), r.Intn(1e9))
	}
}

// Unix seconds of 0001-01-01T00:00:00Z and 9999-12-31T23:59:59Z
const minTS, maxTS = -62135596800, 253402300799

func (g *msgGen) timestamp(m protoreflect.Message) {
	r := g.r
	fs := m.Descriptor().Fields()
	var sec int64
	var ns int32
	switch r.Intn(6) {
	case 0:
		sec = vh.Pick(r, []int64{minTS, maxTS, 0, -1, 1, 951782400, 951868800, 4107542400, 1709164800, 1709251199, -2208988800, 253402300799 - 86400})
	case 1:
		sec = g.int64In(minTS, maxTS)
	default:
		sec = minTS + int64(r.U64()%uint64(maxTS-minTS+1))
	}
	switch r.Intn(5) {
	case 0:
		ns = 0
	case 1:
		ns = vh.Pick(r, []int32{1, 10, 100, 1000, 999999999, 500000000, 123000000, 120000000, 100000000, 123456789, 999999990})
	case 2:
		ns = int32(r.Intn(1000)) * 1000000
	default:
		ns = int32(r.Intn(1000000000))
	}
	if g.wide && r.Chance(50) {
		switch r.Intn(4) {
		case 0:
			sec = vh.Pick(r, []int64{maxTS + 1, minTS - 1, math.MaxInt64, math.MinInt64, math.MaxInt64 - 1, -9223372028741760000, -9223372028741760001, -9223372028741760000 + 86400, 1 << 40, -(1 << 40), 253402300800 + 86400*366})
		case 1:
			sec = int64(r.U64())
		case 2:
			ns = vh.Pick(r, []int32{-1, 1000000000, math.MaxInt32, math.MinInt32, -999999999, 1999999999, -1000000000})
		case 3:
			sec = int64(r.U64())
			ns = int32(r.U64())
		}
	}
	if sec != 0 {
		m.Set(fs.ByName("seconds"), protoreflect.ValueOfInt64(sec))
	}
	if ns != 0 {
		m.Set(fs.ByName("nanos"), protoreflect.ValueOfInt32(ns))
	}
}

func daysIn(y, mo int32) int32 {
	switch mo {
	case 2:
		if y%4 == 0 && (y%100 != 0 || y%400 == 0) {
			return 29
		}
		return 28
	case 4, 6, 9, 11:
		return 30
	}
	return 31
}

func (g *msgGen) date(m protoreflect.Message) {
	r := g.r
	fs := m.Descriptor().Fields()
	var y, mo, d int32
	switch r.Intn(5) {
	case 0:
		y = vh.Pick(r, []int32{1, 9, 10, 99, 100, 999, 1000, 1970, 2000, 2024, 9999})
	case 1:
		y = int32(r.Range(1, 999))
	default:
		y = int32(r.Range(1, 9999))
	}
	mo = int32(r.Range(1, 12))
	d = int32(r.Range(1, int(daysIn(y, mo))))
	if r.Chance(20) {
		d = daysIn(y, mo)
	}
	if g.wide && r.Chance(60) {
		switch r.Intn(5) {
		case 0:
			y = vh.Pick(r, []int32{0, -1, -999, 10000, 99999, math.MaxInt32, math.MinInt32, -5})
		case 1:
			mo = vh.Pick(r, []int32{0, 13, -1, 100, math.MaxInt32, math.MinInt32})
		case 2:
			d = vh.Pick(r, []int32{0, 32, -1, 100, math.MaxInt32, math.MinInt32})
		case 3:
			y, mo, d = 0, 0, 0
		case 4:
			y, mo, d = int32(r.U64()), int32(r.U64()), int32(r.U64())
		}
	}
	if y != 0 {
		m.Set(fs.ByName("year"), protoreflect.ValueOfInt32(y))
	}
	if mo != 0 {
		m.Set(fs.ByName("month"), protoreflect.ValueOfInt32(mo))
	}
	if d != 0 {
		m.Set(fs.ByName("day"), protoreflect.ValueOfInt32(d))
	}
}

// payload messages for Any fields: the generated test types, known to protoregistry.GlobalTypes
func (g *msgGen) anyPayload() proto.Message {
	r := g.r
	switch r.Intn(4) {
	case 0:
		return &schema_testpb.Bar{}
	case 1:
		// both members non-empty half of the time: the payload object then has two members, written
		// in schema order (barId before barField), which is not byte order
		if r.Bool() {
			return &schema_testpb.Bar{BarId: "i" + g.text(), BarField: "f" + g.text()}
		}
		return &schema_testpb.Bar{BarId: g.text(), BarField: g.text()}
	case 2:
		return &schema_testpb.Baz{BazId: g.text()}
	default:
		w := &schema_testpb.WrappedOneof{}
		switch r.Intn(4) {
		case 0:
			w.Type = &schema_testpb.WrappedOneof_WOneofString{WOneofString: g.text()}
		case 1:
			w.Type = &schema_testpb.WrappedOneof_WOneofBar{WOneofBar: &schema_testpb.Bar{BarId: g.text()}}
		case 2:
			// nested object with two members whose JSON names are not in byte order (barId, barField)
			w.Type = &schema_testpb.WrappedOneof_WOneofBar{WOneofBar: &schema_testpb.Bar{BarId: "id-" + g.text(), BarField: "f" + g.text()}}
		}
		return w
	}
}

func validUTF8Payload(m proto.Message) bool {
	_, err := proto.Marshal(m)
	return err == nil
}

func (g *msgGen) pbAny(m protoreflect.Message) {
	r := g.r
	fs := m.Descriptor().Fields()
	p := g.anyPayload()
	b, err := proto.MarshalOptions{AllowPartial: true}.Marshal(p)
	if err != nil { // invalid UTF-8 drawn for the payload (malformed stream): use a plain payload instead
		p = &schema_testpb.Bar{BarId: "x"}
		b, _ = proto.Marshal(p)
	}
	tn := string(p.ProtoReflect().Descriptor().FullName())
	if g.malformed && r.Chance(30) {
		switch r.Intn(3) {
		case 0:
			tn = "no.such.Type"
		case 1:
			b = []byte{0xff, 0xff, 0xff}
		case 2:
			tn = ""
		}
	}
	m.Set(fs.ByName("type_url"), protoreflect.ValueOfString("type.googleapis.com/"+tn))
	if len(b) > 0 {
		m.Set(fs.ByName("value"), protoreflect.ValueOfBytes(b))
	}
}

func (g *msgGen) j5Any(m protoreflect.Message) {
	r := g.r
	fs := m.Descriptor().Fields()
	p := g.anyPayload()
	b, err := proto.Marshal(p)
	if err != nil { // invalid UTF-8 drawn for the payload (malformed stream): use a plain payload instead
		p = &schema_testpb.Bar{BarId: "x"}
		b, _ = proto.Marshal(p)
	}
	tn := string(p.ProtoReflect().Descriptor().FullName())
	m.Set(fs.ByName("type_name"), protoreflect.ValueOfString(tn))
	mode := r.Intn(3)
	if mode == 0 || mode == 2 {
		if len(b) > 0 {
			m.Set(fs.ByName("proto"), protoreflect.ValueOfBytes(b))
		}
	}
	if mode == 1 || mode == 2 {
		o := encodeMsg(theCodec, p.ProtoReflect())
		js := o.Out
		if o.Kind != "ok" {
			js = []byte(`{}`)
		}
		if r.Chance(25) { // the stored JSON text is embedded as is: whitespace and member order survive
			js = []byte(strings.Replace(string(js), "{", "{ ", 1))
		}
		if !g.malformed && r.Chance(20) && (tn == "test.schema.v1.Bar" || tn == "test.schema.v1.WrappedOneof") {
			m.Clear(fs.ByName("proto")) // the text below is the only payload
			// spellings the codec itself would not write but that are valid payload texts for the type:
			// members in reverse / arbitrary order, \u escapes, a solidus escape, white space, nesting
			switch tn {
			case "test.schema.v1.Bar":
				js = vh.Pick(r, [][]byte{
					[]byte(`{"barId":"z","barField":"a"}`), []byte(`{"barField":"a","barId":"z"}`),
					[]byte(`{"barId":"\u0041\u2028","barField":"x\/y"}`), []byte("{\n \"barId\" : \"b\",\t\"barField\":\"\"}"),
				})
			case "test.schema.v1.WrappedOneof":
				js = vh.Pick(r, [][]byte{
					[]byte(`{"!type":"wOneofBar","wOneofBar":{"barId":"z","barField":"a"}}`),
					[]byte(`{"wOneofBar":{"barId":"z","barField":"a"},"!type":"wOneofBar"}`),
					[]byte(`{"wOneofBar": {"barField":"a", "barId":"z"}}`),
				})
			}
		}
		if g.malformed && r.Chance(25) {
			js = vh.Pick(r, [][]byte{[]byte(`{"barId":`), []byte(`nope`), []byte(`{} {}`), []byte("{\"a\":\"\x01\"}")})
		}
		m.Set(fs.ByName("j5_json"), protoreflect.ValueOfBytes(js))
	}
	if g.malformed && r.Chance(15) {
		m.Set(fs.ByName("type_name"), protoreflect.ValueOfString("no.such.Type"))
	}
}

func (g *msgGen) single(fd protoreflect.FieldDescriptor, newMsg func() protoreflect.Message, depth int) protoreflect.Value {
	r := g.r
	switch fd.Kind() {
	case protoreflect.BoolKind:
		return protoreflect.ValueOfBool(r.Bool())
	case protoreflect.Int32Kind, protoreflect.Sint32Kind, protoreflect.Sfixed32Kind:
		return protoreflect.ValueOfInt32(int32(g.int64In(math.MinInt32, math.MaxInt32)))
	case protoreflect.Int64Kind, protoreflect.Sint64Kind, protoreflect.Sfixed64Kind:
		return protoreflect.ValueOfInt64(g.int64In(math.MinInt64, math.MaxInt64))
	case protoreflect.Uint32Kind, protoreflect.Fixed32Kind:
		return protoreflect.ValueOfUint32(uint32(g.int64In(0, math.MaxUint32)))
	case protoreflect.Uint64Kind, protoreflect.Fixed64Kind:
		return protoreflect.ValueOfUint64(g.uint64Val())
	case protoreflect.FloatKind:
		return protoreflect.ValueOfFloat32(g.float32Val())
	case protoreflect.DoubleKind:
		return protoreflect.ValueOfFloat64(g.float64Val())
	case protoreflect.StringKind:
		t := g.text()
		if g.big && !g.malformed {
			t = strings.ToValidUTF8(t, "?")
		}
		return protoreflect.ValueOfString(t)
	case protoreflect.BytesKind:
		n := r.Range(0, 12)
		if r.Chance(10) {
			n = r.Range(13, 70)
		}
		if g.big && r.Chance(25) {
			n = vh.Pick(r, bigSizes)
		}
		return protoreflect.ValueOfBytes(r.Bytes(n))
	case protoreflect.EnumKind:
		vals := fd.Enum().Values()
		if g.malformed && r.Chance(15) {
			return protoreflect.ValueOfEnum(protoreflect.EnumNumber(vals.Len() + r.Intn(5)))
		}
		return protoreflect.ValueOfEnum(vals.Get(r.Intn(vals.Len())).Number())
	case protoreflect.MessageKind:
		m := newMsg()
		if g.emptySubs > 0 && r.Chance(g.emptySubs) && !isWKT(fd.Message().FullName()) {
			return protoreflect.ValueOfMessage(m) // present, nothing inside
		}
		g.fill(m, depth+1)
		return protoreflect.ValueOfMessage(m)
	}
	panic("kind " + fd.Kind().String())
}

// fill populates m in place.
func (g *msgGen) fill(m protoreflect.Message, depth int) {
	r := g.r
	md := m.Descriptor()
	switch md.FullName() {
	case "google.protobuf.Timestamp":
		g.timestamp(m)
		return
	case "j5.types.date.v1.Date":
		g.date(m)
		return
	case "j5.types.decimal.v1.Decimal":
		if s := g.decimalText(); s != "" {
			m.Set(md.Fields().ByName("value"), protoreflect.ValueOfString(s))
		}
		return
	case "google.protobuf.Any":
		g.pbAny(m)
		return
	case "j5.types.any.v1.Any":
		g.j5Any(m)
		return
	}
	// one member per real oneof at most
	chosen := map[protoreflect.FullName]protoreflect.FieldNumber{}
	for i := 0; i < md.Oneofs().Len(); i++ {
		oo := md.Oneofs().Get(i)
		if oo.IsSynthetic() {
			continue
		}
		if r.Chance(g.fieldPct + 20) {
			chosen[oo.FullName()] = oo.Fields().Get(r.Intn(oo.Fields().Len())).Number()
		} else {
			chosen[oo.FullName()] = 0
		}
	}
	for i := 0; i < md.Fields().Len(); i++ {
		fd := md.Fields().Get(i)
		if oo := fd.ContainingOneof(); oo != nil && !oo.IsSynthetic() {
			if chosen[oo.FullName()] != fd.Number() {
				continue
			}
		} else if !r.Chance(g.fieldPct) {
			continue
		}
		vfd := fd
		if fd.IsMap() {
			vfd = fd.MapValue()
		}
		if vfd.Kind() == protoreflect.MessageKind && vfd.Message().FullName() == "google.protobuf.Duration" {
			// not a J5 type: the reflector lists the field (string/format duration) but the codec has no
			// conversion for it (KNOWN_FINDINGS: recorded under C18/C06); outside C01/C08's quantifier
			continue
		}
		if vfd.Kind() == protoreflect.MessageKind && depth >= g.maxDepth {
			// leaves only at the depth limit: well-known scalars and small payloads,
			// or (sometimes) a present-but-empty sub-message
			if !isWKT(vfd.Message().FullName()) {
				if g.emptySubs > 0 && r.Chance(g.emptySubs) && !fd.IsList() && !fd.IsMap() {
					m.Set(fd, protoreflect.ValueOfMessage(m.NewField(fd).Message()))
				}
				continue
			}
		}
		switch {
		case fd.IsList():
			l := m.Mutable(fd).List()
			n := r.Range(0, g.maxEntries)
			if g.big && r.Chance(8) {
				n = vh.Pick(r, []int{63, 64, 65, 100, 129})
			}
			for k := 0; k < n; k++ {
				l.Append(g.single(fd, func() protoreflect.Message { return l.NewElement().Message() }, depth))
			}
		case fd.IsMap():
			mp := m.Mutable(fd).Map()
			n := r.Range(0, g.maxEntries)
			if g.big && r.Chance(8) {
				n = vh.Pick(r, []int{63, 64, 65, 100, 129})
			}
			for k := 0; k < n; k++ {
				key := g.text()
				if r.Chance(50) {
					key = fmt.Sprintf("k%d", r.Intn(6))
				}
				if n > 8 {
					key = fmt.Sprintf("key-%d", k)
				}
				if r.Chance(12) { // long keys (size-triggered paths), distinct by construction
					key = fmt.Sprintf("%d-", k) + strings.Repeat(vh.Pick(r, []string{"k", "é", "-", "x y"}), vh.Pick(r, []int{20, 41, 64, 100, 255, 256, 300}))
				}
				if g.big && !g.malformed {
					key = strings.ToValidUTF8(key, "?")
				}
				mp.Set(protoreflect.ValueOfString(key).MapKey(), g.single(fd.MapValue(), func() protoreflect.Message { return mp.NewValue().Message() }, depth))
			}
		default:
			m.Set(fd, g.single(fd, func() protoreflect.Message { return m.NewField(fd).Message() }, depth))
		}
	}
}

func isWKT(n protoreflect.FullName) bool {
	return strings.HasPrefix(string(n), "google.protobuf.") || strings.HasPrefix(string(n), "j5.types.")
}

// emptySubMessages enumerates, for a root type, one message per message-typed field (at depth one
// and two) in which that field is present and holds nothing: singular, as the only list element,
// as the only map value.
func emptySubMessages(newRoot func() protoreflect.Message) []protoreflect.Message {
	var out []protoreflect.Message
	var rec func(build func(inner func(m protoreflect.Message)) protoreflect.Message, md protoreflect.MessageDescriptor, depth int)
	rec = func(build func(inner func(m protoreflect.Message)) protoreflect.Message, md protoreflect.MessageDescriptor, depth int) {
		for i := 0; i < md.Fields().Len(); i++ {
			fd := md.Fields().Get(i)
			vfd := fd
			if fd.IsMap() {
				vfd = fd.MapValue()
			}
			if vfd.Kind() != protoreflect.MessageKind || isWKT(vfd.Message().FullName()) {
				continue
			}
			set := func(m protoreflect.Message, inner func(protoreflect.Message)) {
				switch {
				case fd.IsList():
					e := m.Mutable(fd).List().AppendMutable().Message()
					inner(e)
				case fd.IsMap():
					mp := m.Mutable(fd).Map()
					e := mp.NewValue()
					inner(e.Message())
					mp.Set(protoreflect.ValueOfString("k").MapKey(), e)
				default:
					e := m.Mutable(fd).Message()
					inner(e)
				}
			}
			out = append(out, build(func(m protoreflect.Message) { set(m, func(protoreflect.Message) {}) }))
			if depth < 2 {
				rec(func(inner func(m protoreflect.Message)) protoreflect.Message {
					return build(func(m protoreflect.Message) { set(m, inner) })
				}, vfd.Message(), depth+1)
			}
		}
	}
	rec(func(inner func(m protoreflect.Message)) protoreflect.Message {
		m := newRoot()
		inner(m)
		return m
	}, newRoot().Descriptor(), 1)
	return out
}

package main

import (
	"encoding/base64"
	"fmt"
	"math"
	"regexp"
	"strconv"
	"strings"
	"time"

	"google.golang.org/protobuf/reflect/protoreflect"

	"verifharness/codecgen"
)

// The direct oracle of C08: the documented wire format, evaluated on the real
// output (read by the strict reader of common.go) against the message that was
// encoded.  It does not use the Coq model or j5reflect: presence is protoreflect
// Has along the proto path, values come from protoreflect, the schema (JSON names,
// flattening, oneof exposure, enum prefixes) from the reflected environment.

type viol struct {
	sig    string
	clause string
	path   string
	got    string
}

type wireChecker struct {
	env   *codecgen.Env
	viols []viol
	// which parts of the wide domain the message touches (no format demand there, only validity)
	nonFinite, dateOutOfRange, tsOutOfRange int
}

func (c *wireChecker) fail(sig, clause, path, got string) {
	if len(got) > 200 {
		got = got[:200] + "..."
	}
	c.viols = append(c.viols, viol{sig, clause, path, got})
}

var (
	reInt   = regexp.MustCompile(`^-?(0|[1-9][0-9]*)$`)
	reUint  = regexp.MustCompile(`^(0|[1-9][0-9]*)$`)
	reB64   = regexp.MustCompile(`^(?:[A-Za-z0-9+/]{4})*(?:[A-Za-z0-9+/]{2}==|[A-Za-z0-9+/]{3}=)?$`)
	reTS    = regexp.MustCompile(`^[0-9]{4}-[0-9]{2}-[0-9]{2}T[0-9]{2}:[0-9]{2}:[0-9]{2}(\.[0-9]{1,9})?Z$`)
	reDate  = regexp.MustCompile(`^[0-9]{4}-[0-9]{2}-[0-9]{2}$`)
	reFloat = regexp.MustCompile(`^-?(0|[1-9][0-9]*)(\.[0-9]+)?([eE][+-]?[0-9]+)?$`)
)

func jkind(j *jnode) string {
	switch j.kind {
	case 'n':
		return "null"
	case 'b':
		return "bool"
	case 'N':
		return "bare number " + j.s
	case 's':
		return fmt.Sprintf("string %q", j.s)
	case 'a':
		return "array"
	case 'o':
		return "object"
	}
	return "?"
}

// has walks the proto path of a property with Has at every step.
func propValue(p *codecgen.Prop, m protoreflect.Message) (protoreflect.FieldDescriptor, protoreflect.Value, bool) {
	walk := m
	for i, num := range p.Path {
		fd := walk.Descriptor().Fields().ByNumber(protoreflect.FieldNumber(num))
		if fd == nil || !walk.Has(fd) {
			return nil, protoreflect.Value{}, false
		}
		if i == len(p.Path)-1 {
			return fd, walk.Get(fd), true
		}
		walk = walk.Get(fd).Message()
	}
	return nil, protoreflect.Value{}, false
}

// members of a oneof schema that are populated in m
func (c *wireChecker) oneofSet(s *codecgen.Schema, m protoreflect.Message) []*codecgen.Prop {
	var set []*codecgen.Prop
	for _, p := range s.Props {
		if len(p.Path) == 0 {
			if len(c.oneofSet(c.env.Lookup(p.Ty.Ref), m)) == 1 {
				set = append(set, p)
			}
			continue
		}
		if _, _, ok := propValue(p, m); ok {
			set = append(set, p)
		}
	}
	return set
}

func (c *wireChecker) object(s *codecgen.Schema, m protoreflect.Message, j *jnode, path string) {
	if j.kind != 'o' {
		c.fail("C08 object not encoded as a JSON object", "objects are JSON objects", path, jkind(j))
		return
	}
	want := map[string]bool{}
	for _, p := range s.Props {
		var fd protoreflect.FieldDescriptor
		var v protoreflect.Value
		ok := false
		if len(p.Path) == 0 { // exposed oneof: lives in m itself
			ok = len(c.oneofSet(c.env.Lookup(p.Ty.Ref), m)) == 1
			v = protoreflect.ValueOfMessage(m)
		} else {
			fd, v, ok = propValue(p, m)
		}
		jm, cnt := j.member(p.JSON)
		cls := "plain"
		if len(p.Path) > 1 {
			cls = "flattened"
		} else if len(p.Path) == 0 {
			cls = "exposed oneof"
		}
		if !ok {
			if cnt > 0 {
				c.fail("C08 unset "+cls+" property emitted", "unset members are omitted", path+"."+p.JSON, jkind(jm))
			}
			continue
		}
		want[p.JSON] = true
		if cnt == 0 {
			c.fail("C08 set "+cls+" property missing from the object", "member names are the schema's JSON names / flattened objects are inlined", path+"."+p.JSON, fmt.Sprint(j.keys))
			continue
		}
		if cnt > 1 {
			c.fail("C08 duplicate member", "single well-formed document", path+"."+p.JSON, fmt.Sprint(j.keys))
		}
		c.value(p.Ty, fd, v, jm, path+"."+p.JSON)
	}
	for _, k := range j.keys {
		if !want[k] {
			// already reported if it is a known-but-unset property
			known := false
			for _, p := range s.Props {
				if p.JSON == k {
					known = true
				}
			}
			if !known {
				c.fail("C08 member name not in the schema", "member names are the schema's JSON names", path+"."+k, fmt.Sprint(j.keys))
			}
		}
	}
}

func (c *wireChecker) oneof(s *codecgen.Schema, m protoreflect.Message, j *jnode, path string) {
	if j.kind != 'o' {
		c.fail("C08 oneof not encoded as a JSON object", "oneofs are objects", path, jkind(j))
		return
	}
	set := c.oneofSet(s, m)
	if len(set) == 0 {
		if len(j.keys) != 0 {
			c.fail("C08 empty oneof with members", "oneofs are objects with !type plus exactly the key it names", path, fmt.Sprint(j.keys))
		}
		return
	}
	if len(set) > 1 {
		c.fail("C08 oneof with several members set was encoded", "oneofs are objects with !type plus exactly the key it names", path, fmt.Sprint(j.keys))
		return
	}
	p := set[0]
	t, tc := j.member("!type")
	if len(j.keys) != 2 || tc != 1 || t.kind != 's' || t.s != p.JSON {
		c.fail("C08 oneof framing", "oneofs are objects with !type plus exactly the key it names", path, fmt.Sprint(j.keys))
		return
	}
	jm, cnt := j.member(p.JSON)
	if cnt != 1 {
		c.fail("C08 oneof framing", "oneofs are objects with !type plus exactly the key it names", path, fmt.Sprint(j.keys))
		return
	}
	if len(p.Path) == 0 {
		c.value(p.Ty, nil, protoreflect.ValueOfMessage(m), jm, path+"."+p.JSON)
		return
	}
	fd, v, _ := propValue(p, m)
	c.value(p.Ty, fd, v, jm, path+"."+p.JSON)
}

func (c *wireChecker) value(ty *codecgen.Ty, fd protoreflect.FieldDescriptor, v protoreflect.Value, j *jnode, path string) {
	switch ty.Class {
	case "scalar":
		c.scalar(ty.Kind, v, j, path)
	case "enum":
		s := c.env.Lookup(ty.Ref)
		name := ""
		for _, o := range s.Options {
			if o.Number == int32(v.Enum()) {
				name = o.Name
				break
			}
		}
		// independent reading of "short option name": the proto value name without the enum's prefix
		if fd != nil {
			efd := fd
			if fd.IsMap() {
				efd = fd.MapValue()
			}
			if ev := efd.Enum().Values().ByNumber(v.Enum()); ev != nil {
				name = strings.TrimPrefix(string(ev.Name()), s.Prefix)
			}
		}
		if j.kind != 's' || j.s != name {
			c.fail("C08 enum not its short option name", "enums as the short option name", path, jkind(j)+" want "+name)
		}
	case "object":
		c.object(c.env.Lookup(ty.Ref), v.Message(), j, path)
	case "oneof":
		c.oneof(c.env.Lookup(ty.Ref), v.Message(), j, path)
	case "array":
		if j.kind != 'a' {
			c.fail("C08 array not encoded as a JSON array", "arrays", path, jkind(j))
			return
		}
		l := v.List()
		if len(j.items) != l.Len() {
			c.fail("C08 array length", "arrays", path, fmt.Sprintf("%d items for %d elements", len(j.items), l.Len()))
			return
		}
		for i := 0; i < l.Len(); i++ {
			c.value(ty.Item, fd, l.Get(i), j.items[i], fmt.Sprintf("%s[%d]", path, i))
		}
	case "map":
		if j.kind != 'o' {
			c.fail("C08 map not encoded as a JSON object", "maps", path, jkind(j))
			return
		}
		mp := v.Map()
		if len(j.keys) != mp.Len() {
			c.fail("C08 map size", "maps", path, fmt.Sprintf("%d members for %d entries", len(j.keys), mp.Len()))
			return
		}
		mp.Range(func(k protoreflect.MapKey, mv protoreflect.Value) bool {
			jm, cnt := j.member(k.String())
			if cnt != 1 {
				c.fail("C08 map key", "maps", path, fmt.Sprintf("key %q occurs %d times", k.String(), cnt))
				return true
			}
			c.value(ty.Item, fd, mv, jm, path+"{"+k.String()+"}")
			return true
		})
	case "any":
		if j.kind != 'o' {
			c.fail("C08 any not encoded as a JSON object", "Any values are {!type, value}", path, jkind(j))
			return
		}
		m := v.Message()
		var tn string
		if ty.PB {
			tn = strings.TrimPrefix(m.Get(m.Descriptor().Fields().ByName("type_url")).String(), "type.googleapis.com/")
		} else {
			tn = m.Get(m.Descriptor().Fields().ByName("type_name")).String()
		}
		t, tc := j.member("!type")
		vn, vc := j.member("value")
		if len(j.keys) != 2 || tc != 1 || vc != 1 || t.kind != 's' || t.s != tn {
			c.fail("C08 any framing", "Any values are {!type, value}", path, fmt.Sprint(j.keys))
			return
		}
		// the value member is the payload's J5 JSON: the stored j5_json text of a j5 Any, otherwise the
		// encoding of the message the proto bytes hold (compared as JSON values)
		var want []byte
		fs := m.Descriptor().Fields()
		if !ty.PB && m.Has(fs.ByName("j5_json")) {
			want = m.Get(fs.ByName("j5_json")).Bytes()
		} else if _, payload, err := anyPayloadMsg(m); err == nil {
			if o := encodeMsg(theCodec, payload); o.Kind == "ok" {
				want = o.Out
			}
		}
		if want != nil {
			if wn, err := parseStrict(want); err == nil {
				var a, b []byte
				printNode(&a, wn)
				printNode(&b, vn)
				if string(a) != string(b) {
					c.fail("C08 any value is not the payload's J5 JSON", "Any values are {!type, value}", path, fmt.Sprintf("%s vs %s", short(b), short(a)))
				}
			}
		}
	}
}

func (c *wireChecker) scalar(k codecgen.Kind, v protoreflect.Value, j *jnode, path string) {
	switch k {
	case "KInt32":
		if j.kind != 'N' || !reInt.MatchString(j.s) || j.s != strconv.FormatInt(v.Int(), 10) {
			c.fail("C08 int32 not a bare integer literal", "32-bit integers as bare literals", path, jkind(j))
		}
	case "KUint32":
		if j.kind != 'N' || !reUint.MatchString(j.s) || j.s != strconv.FormatUint(v.Uint(), 10) {
			c.fail("C08 uint32 not a bare integer literal", "32-bit integers as bare literals", path, jkind(j))
		}
	case "KInt64":
		if j.kind != 's' || !reInt.MatchString(j.s) || j.s != strconv.FormatInt(v.Int(), 10) {
			c.fail("C08 int64 not a quoted decimal string", "64-bit integers as quoted strings", path, jkind(j))
		}
	case "KUint64":
		if j.kind != 's' || !reUint.MatchString(j.s) || j.s != strconv.FormatUint(v.Uint(), 10) {
			c.fail("C08 uint64 not a quoted decimal string", "64-bit integers as quoted strings", path, jkind(j))
		}
	case "KFloat32", "KFloat64":
		f := v.Float()
		if math.IsNaN(f) || math.IsInf(f, 0) {
			c.nonFinite++
			return // only validity is demanded, and the document was read by the strict reader
		}
		bits := 64
		if k == "KFloat32" {
			bits = 32
		}
		if j.kind != 'N' || !reFloat.MatchString(j.s) {
			c.fail("C08 finite float not a bare number literal", "floats as bare literals", path, jkind(j))
			return
		}
		back, err := strconv.ParseFloat(j.s, bits)
		if err != nil || math.Float64bits(back) != math.Float64bits(f) {
			c.fail("C08 float literal does not denote the value", "floats as bare literals", path, fmt.Sprintf("%s for %v", j.s, f))
		}
	case "KBool":
		if j.kind != 'b' || j.b != v.Bool() {
			c.fail("C08 bool not a bare literal", "booleans as bare literals", path, jkind(j))
		}
	case "KString", "KKey":
		if j.kind != 's' || j.s != v.String() {
			c.fail("C08 string value differs", "strings", path, jkind(j))
		}
	case "KBytes":
		if j.kind != 's' || !reB64.MatchString(j.s) {
			c.fail("C08 bytes not padded standard base64", "bytes as padded standard base64", path, jkind(j))
			return
		}
		b, err := base64.StdEncoding.Strict().DecodeString(j.s)
		if err != nil || string(b) != string(v.Bytes()) {
			c.fail("C08 base64 text does not denote the bytes", "bytes as padded standard base64", path, jkind(j))
		}
	case "KDecimal":
		m := v.Message()
		want := m.Get(m.Descriptor().Fields().ByName("value")).String()
		if j.kind != 's' || j.s != want {
			c.fail("C08 decimal not a quoted string", "decimals as quoted strings", path, jkind(j))
		}
	case "KDate":
		m := v.Message()
		fs := m.Descriptor().Fields()
		y, mo, d := m.Get(fs.ByName("year")).Int(), m.Get(fs.ByName("month")).Int(), m.Get(fs.ByName("day")).Int()
		if j.kind != 's' {
			c.fail("C08 date not a string", "dates as zero-padded YYYY-MM-DD", path, jkind(j))
			return
		}
		if y < 1 || y > 9999 || mo < 1 || mo > 12 || d < 1 || d > 31 {
			c.dateOutOfRange++
			return
		}
		want := fmt.Sprintf("%s-%s-%s", pad(y, 4), pad(mo, 2), pad(d, 2))
		if !reDate.MatchString(j.s) || j.s != want {
			c.fail("C08 date not zero-padded YYYY-MM-DD", "dates as zero-padded YYYY-MM-DD", path, jkind(j)+" want "+want)
		}
	case "KTimestamp":
		m := v.Message()
		fs := m.Descriptor().Fields()
		sec, ns := m.Get(fs.ByName("seconds")).Int(), m.Get(fs.ByName("nanos")).Int()
		if j.kind != 's' {
			c.fail("C08 timestamp not a string", "timestamps as RFC3339 in UTC", path, jkind(j))
			return
		}
		if sec < minTS || sec > maxTS || ns < 0 || ns > 999999999 {
			c.tsOutOfRange++
			return
		}
		if !reTS.MatchString(j.s) {
			c.fail("C08 timestamp not RFC3339 UTC", "timestamps as RFC3339 in UTC", path, jkind(j))
			return
		}
		t, err := time.Parse(time.RFC3339Nano, j.s)
		if err != nil || t.Unix() != sec || int64(t.Nanosecond()) != ns {
			c.fail("C08 timestamp text does not denote the instant", "timestamps as RFC3339 in UTC", path, fmt.Sprintf("%s for (%d,%d)", j.s, sec, ns))
		}
	}
}

func pad(v int64, w int) string {
	s := strconv.FormatInt(v, 10)
	for len(s) < w {
		s = "0" + s
	}
	return s
}

func checkWire(env *codecgen.Env, m protoreflect.Message, root *jnode) *wireChecker {
	c := &wireChecker{env: env}
	s := env.Lookup(env.Root)
	if s.Class == "oneof" {
		c.oneof(s, m, root, "$")
	} else {
		c.object(s, m, root, "$")
	}
	return c
}

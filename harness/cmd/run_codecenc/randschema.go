package main

// Randomly generated schemas (the quantifier of C01/C08 asks for schemas "both from compiling
// generated j5s and from generated raw proto descriptors"):
//   - randJ5sFile: a random j5s package (enums, objects, oneofs; every scalar spelling; arrays and maps of
//     scalars / enums / objects / oneofs; flattened object fields; optional marks) compiled in memory
//     with the real j5s compiler (lib/verifshim/compile);
//   - randDescFile: a random FileDescriptorProto written field by field (proto kinds incl. sint32/64,
//     proto3 optional, repeated, map<string, V>, enums with gaps, plain and exposed proto oneofs, oneof
//     wrapper messages, flatten annotations, key annotation, date / decimal / timestamp / both Any
//     flavours, recursion) linked with protodesc.
// Every message type of a generated file that the reflector accepts becomes a root target; the
// ones it refuses are counted (never silently dropped).

import (
	"context"
	"fmt"
	"strings"

	"github.com/pentops/j5/gen/j5/ext/v1/ext_j5pb"
	"github.com/pentops/j5/lib/verifshim/compile"
	"google.golang.org/protobuf/proto"
	"google.golang.org/protobuf/reflect/protodesc"
	"google.golang.org/protobuf/reflect/protoreflect"
	"google.golang.org/protobuf/reflect/protoregistry"
	"google.golang.org/protobuf/types/descriptorpb"
	"google.golang.org/protobuf/types/dynamicpb"

	"verifharness/codecgen"
	"verifharness/vh"
)

// ---------------------------------------------------------------- j5s source

var j5sScalars = []string{
	"string", "bool", "bytes", "date", "decimal", "timestamp", "any",
	"float:FLOAT32", "float:FLOAT64",
	"integer:INT32", "integer:INT64", "integer:UINT32", "integer:UINT64",
	"key", "key:uuid", "key:id62",
}

var j5sWords = []string{"name", "title", "barId", "accountId", "count", "flag", "kind", "note", "amount", "when", "owner",
	"parentRef", "itemCode", "labelText", "weight", "extra", "tag", "memo", "score", "level", "fooID", "a1b", "x2", "userURL"}

type j5sDecl struct {
	kind string // enum object oneof
	name string
}

func randJ5sSource(r *vh.Rand, pkg string, force bool) string {
	var decls []j5sDecl
	nEnum := r.Range(1, 2)
	for i := 0; i < nEnum; i++ {
		decls = append(decls, j5sDecl{"enum", fmt.Sprintf("Mode%d", i)})
	}
	nObj := r.Range(2, 4)
	if force {
		nObj = 4
	}
	for i := 0; i < nObj; i++ {
		decls = append(decls, j5sDecl{"object", fmt.Sprintf("Obj%d", i)})
	}
	nOne := r.Range(0, 2)
	if force {
		nOne = 2
	}
	for i := 0; i < nOne; i++ {
		decls = append(decls, j5sDecl{"oneof", fmt.Sprintf("Pick%d", i)})
	}
	pickDecl := func(kinds ...string) (j5sDecl, bool) {
		var c []j5sDecl
		for _, d := range decls {
			for _, k := range kinds {
				if d.kind == k {
					c = append(c, d)
				}
			}
		}
		if len(c) == 0 {
			return j5sDecl{}, false
		}
		return vh.Pick(r, c), true
	}
	var item func(depth int) string
	item = func(depth int) string {
		switch r.Intn(10) {
		case 0, 1:
			if d, ok := pickDecl("object", "oneof"); ok {
				return d.kind + ":" + d.name
			}
		case 2:
			if d, ok := pickDecl("enum"); ok {
				return "enum:" + d.name
			}
		}
		s := vh.Pick(r, j5sScalars)
		if s == "any" { // arrays and maps of any are not built by the reflector
			s = "string"
		}
		return s
	}
	flattened := map[string]bool{}
	if force {
		// the forced chain flattens Obj1 and Obj2: no random field may flatten them a second time
		flattened["Obj1"], flattened["Obj2"] = true, true
	}
	fieldTy := func(self string) (ty string, attrs []string) {
		switch r.Intn(12) {
		case 0, 1:
			return "array:" + item(0), nil
		case 2, 3:
			return "map:" + item(0), nil
		case 4:
			if d, ok := pickDecl("object"); ok {
				if d.name > self && !flattened[d.name] && r.Chance(40) {
					flattened[d.name] = true
					return "object:" + d.name, []string{"flatten = true"}
				}
				return "object:" + d.name, nil
			}
		case 5:
			if d, ok := pickDecl("oneof"); ok {
				return "oneof:" + d.name, nil
			}
		case 6:
			if d, ok := pickDecl("enum"); ok {
				return "enum:" + d.name, nil
			}
		}
		return vh.Pick(r, j5sScalars), nil
	}
	// names are unique in the whole package and an object is flattened at most once: members of a
	// flattened child are inlined, so equal names (or the same child reached along two flatten
	// paths) would give one JSON object two equal member names — the reflector accepts such
	// schemas, the codec then drops data (C18's "names unique" clause, not this family's)
	used := map[string]int{}
	names := func(n int) []string {
		var out []string
		for i := 0; i < n; i++ {
			w := vh.Pick(r, j5sWords)
			used[w]++
			if used[w] > 1 {
				w = fmt.Sprintf("%s%c", w, 'A'+rune(used[w]-2)%26) + strings.Repeat("x", (used[w]-2)/26)
			}
			out = append(out, w)
		}
		return out
	}
	var sb strings.Builder
	fmt.Fprintf(&sb, "package %s\n\n", pkg)
	for _, d := range decls {
		switch d.kind {
		case "enum":
			fmt.Fprintf(&sb, "enum %s {\n", d.name)
			opts := []string{"ALPHA", "BETA", "GAMMA_RAY"}[:r.Range(1, 3)]
			if force {
				// an option whose name is the enum prefix + an earlier option's name
				opts = []string{"ALPHA", strings.ToUpper(d.name) + "_ALPHA", "BETA"}
			}
			for _, o := range opts {
				fmt.Fprintf(&sb, "\toption %s\n", o)
			}
			sb.WriteString("}\n\n")
		case "object":
			fmt.Fprintf(&sb, "object %s {\n", d.name)
			if force {
				// the first package of every run: a flatten chain Obj0 > Obj1 > Obj2, every scalar spelling
				// (spread over the objects), arrays and maps of objects / oneofs / enums
				var forced []string
				switch d.name {
				case "Obj0":
					forced = []string{"object:Obj1|flatten", "array:object:Obj3", "map:oneof:Pick0", "oneof:Pick1", "enum:Mode0"}
				case "Obj1":
					forced = []string{"object:Obj2|flatten", "array:enum:Mode0", "map:object:Obj3", "array:oneof:Pick1"}
				case "Obj2":
					forced = append(forced, j5sScalars[:8]...)
				case "Obj3":
					forced = append(forced, j5sScalars[8:]...)
				}
				for i, f := range forced {
					nm := names(1)[0]
					if strings.HasSuffix(f, "|flatten") {
						flattened[strings.TrimPrefix(strings.TrimSuffix(f, "|flatten"), "object:")] = true
						fmt.Fprintf(&sb, "\tfield %s %s {\n\t\tflatten = true\n\t}\n", nm, strings.TrimSuffix(f, "|flatten"))
						continue
					}
					mark := ""
					if i%3 == 1 && !strings.Contains(f, "object") && !strings.Contains(f, "oneof") && !strings.HasPrefix(f, "array") && !strings.HasPrefix(f, "map") && f != "any" {
						mark = "? "
					}
					fmt.Fprintf(&sb, "\tfield %s %s%s\n", nm, mark, f)
				}
			}
			for _, n := range names(r.Range(1, 7)) {
				ty, attrs := fieldTy(d.name)
				mark := ""
				if !strings.Contains(ty, ":") || strings.HasPrefix(ty, "integer") || strings.HasPrefix(ty, "float") || strings.HasPrefix(ty, "key") {
					if r.Chance(25) {
						mark = "? "
					}
				}
				if len(attrs) > 0 {
					fmt.Fprintf(&sb, "\tfield %s %s%s {\n\t\t%s\n\t}\n", n, mark, ty, strings.Join(attrs, "\n\t\t"))
				} else {
					fmt.Fprintf(&sb, "\tfield %s %s%s\n", n, mark, ty)
				}
			}
			sb.WriteString("}\n\n")
		case "oneof":
			fmt.Fprintf(&sb, "oneof %s {\n", d.name)
			for _, n := range names(r.Range(1, 4)) {
				ty, _ := fieldTy("")
				if strings.HasPrefix(ty, "array:") || strings.HasPrefix(ty, "map:") {
					ty = "string"
				}
				fmt.Fprintf(&sb, "\toption %s %s\n", n, ty)
			}
			sb.WriteString("}\n\n")
		}
	}
	return sb.String()
}

func randJ5sFile(r *vh.Rand, idx int) (files []protoreflect.FileDescriptor, src string, err error) {
	pkg := fmt.Sprintf("rndj%d.v1", idx)
	src = randJ5sSource(r, pkg, idx == 0)
	defer func() {
		if rec := recover(); rec != nil {
			err = fmt.Errorf("compiler panic: %v", rec)
		}
	}()
	files, err = compile.Compile(context.Background(), map[string]string{strings.ReplaceAll(pkg, ".", "/") + "/a.j5s": src}, pkg)
	return files, src, err
}

// ---------------------------------------------------------------- raw descriptors

type rdField struct {
	name     string
	typ      descriptorpb.FieldDescriptorProto_Type
	typeName string
	opts     *ext_j5pb.FieldOptions
	msgLike  bool // message-typed: no proto3 optional variant
}

func randDescFile(r *vh.Rand, idx int) (protoreflect.FileDescriptor, error) {
	pkg := fmt.Sprintf("verif.rndd%d.v1", idx)
	q := func(n string) string { return "." + pkg + "." + n }
	T := func(t descriptorpb.FieldDescriptorProto_Type) descriptorpb.FieldDescriptorProto_Type { return t }
	scalars := []rdField{
		{typ: T(descriptorpb.FieldDescriptorProto_TYPE_INT32)}, {typ: T(descriptorpb.FieldDescriptorProto_TYPE_INT64)},
		{typ: T(descriptorpb.FieldDescriptorProto_TYPE_UINT32)}, {typ: T(descriptorpb.FieldDescriptorProto_TYPE_UINT64)},
		{typ: T(descriptorpb.FieldDescriptorProto_TYPE_SINT32)}, {typ: T(descriptorpb.FieldDescriptorProto_TYPE_SINT64)},
		{typ: T(descriptorpb.FieldDescriptorProto_TYPE_FLOAT)}, {typ: T(descriptorpb.FieldDescriptorProto_TYPE_DOUBLE)},
		{typ: T(descriptorpb.FieldDescriptorProto_TYPE_BOOL)}, {typ: T(descriptorpb.FieldDescriptorProto_TYPE_STRING)},
		{typ: T(descriptorpb.FieldDescriptorProto_TYPE_BYTES)},
		{typ: T(descriptorpb.FieldDescriptorProto_TYPE_STRING), opts: &ext_j5pb.FieldOptions{Type: &ext_j5pb.FieldOptions_Key{Key: &ext_j5pb.KeyField{}}}},
		{typ: T(descriptorpb.FieldDescriptorProto_TYPE_MESSAGE), typeName: ".j5.types.date.v1.Date", msgLike: true},
		{typ: T(descriptorpb.FieldDescriptorProto_TYPE_MESSAGE), typeName: ".j5.types.decimal.v1.Decimal", msgLike: true},
		{typ: T(descriptorpb.FieldDescriptorProto_TYPE_MESSAGE), typeName: ".google.protobuf.Timestamp", msgLike: true},
	}
	force := idx == 0
	nEnum := r.Range(1, 2)
	var enums []*descriptorpb.EnumDescriptorProto
	for i := 0; i < nEnum; i++ {
		name := fmt.Sprintf("Kind%d", i)
		up := strings.ToUpper(name)
		e := &descriptorpb.EnumDescriptorProto{Name: proto.String(name)}
		e.Value = append(e.Value, &descriptorpb.EnumValueDescriptorProto{Name: proto.String(up + "_UNSPECIFIED"), Number: proto.Int32(0)})
		num := int32(0)
		// "X" before "<PREFIX>X": the second one's short name is the prefix + the first one's short name
		// (OptionByName must look for the name as written before trimming the prefix)
		vals := []string{"X", up + "_X", "ONE", "LAST_ONE"}
		nv := r.Range(1, 4)
		if force && i == 0 {
			nv = 4
		}
		for _, v := range vals[:nv] {
			num += int32(r.Range(1, 3))
			e.Value = append(e.Value, &descriptorpb.EnumValueDescriptorProto{Name: proto.String(up + "_" + v), Number: proto.Int32(num)})
		}
		enums = append(enums, e)
	}
	// the first file of every run always has the shapes that random draws may miss: three nested levels
	// of flatten (Obj0 > Obj1 > Obj2 > Obj3) with an exposed oneof and at least three members in each
	// flattened child, proto3 optional members innermost
	nObj := r.Range(2, 5)
	if force {
		nObj = r.Range(4, 5)
	}
	nWrap := r.Range(0, 2)
	var objNames, wrapNames []string
	for i := 0; i < nObj; i++ {
		objNames = append(objNames, fmt.Sprintf("Obj%d", i))
	}
	for i := 0; i < nWrap; i++ {
		wrapNames = append(wrapNames, fmt.Sprintf("Pick%d", i))
	}
	elem := func(allowAny bool) rdField {
		switch r.Intn(12) {
		case 0, 1:
			return rdField{typ: descriptorpb.FieldDescriptorProto_TYPE_MESSAGE, typeName: q(vh.Pick(r, objNames)), msgLike: true}
		case 2:
			if len(wrapNames) > 0 {
				return rdField{typ: descriptorpb.FieldDescriptorProto_TYPE_MESSAGE, typeName: q(vh.Pick(r, wrapNames)), msgLike: true}
			}
		case 3:
			return rdField{typ: descriptorpb.FieldDescriptorProto_TYPE_ENUM, typeName: q(enums[r.Intn(len(enums))].GetName())}
		case 4:
			if allowAny {
				if r.Bool() {
					return rdField{typ: descriptorpb.FieldDescriptorProto_TYPE_MESSAGE, typeName: ".j5.types.any.v1.Any", msgLike: true}
				}
				return rdField{typ: descriptorpb.FieldDescriptorProto_TYPE_MESSAGE, typeName: ".google.protobuf.Any", msgLike: true}
			}
		}
		return vh.Pick(r, scalars)
	}
	words := []string{"name", "title", "bar_id", "count", "flag", "kind", "note", "amount", "when", "owner", "parent_ref",
		"item_code", "label_text", "weight", "extra", "tag", "memo", "score", "level", "a1_b", "x_url", "v2_id", "foo_bar_baz"}
	build := func(name string, num int32, f rdField) *descriptorpb.FieldDescriptorProto {
		fd := &descriptorpb.FieldDescriptorProto{Name: proto.String(name), Number: proto.Int32(num), Type: f.typ.Enum(),
			Label: descriptorpb.FieldDescriptorProto_LABEL_OPTIONAL.Enum()}
		if f.typeName != "" {
			fd.TypeName = proto.String(f.typeName)
		}
		if f.opts != nil {
			o := &descriptorpb.FieldOptions{}
			proto.SetExtension(o, ext_j5pb.E_Field, f.opts)
			fd.Options = o
		}
		return fd
	}
	camel := func(s string) string {
		out, up := "", true
		for _, c := range s {
			if c == '_' {
				up = true
				continue
			}
			if up && c >= 'a' && c <= 'z' {
				c = c - 'a' + 'A'
			}
			up = false
			out += string(c)
		}
		return out
	}
	var msgs []*descriptorpb.DescriptorProto
	// field names are unique in the whole file: a flattened child's members are inlined into the
	// parent object, so equal names in parent and child would give one JSON object two equal members
	// (the reflector does not refuse that; it is C18's clause, not this family's)
	flattened := map[string]bool{}
	used := map[string]int{}
	takeName := func() string {
		w := vh.Pick(r, words)
		used[w]++
		if used[w] == 1 {
			return w
		}
		return fmt.Sprintf("%s_%c", w, 'a'+rune(used[w]-2)%26) + strings.Repeat("x", (used[w]-2)/26)
	}
	for oi, on := range objNames {
		m := &descriptorpb.DescriptorProto{Name: proto.String(on)}
		take := takeName
		num := int32(0)
		nextNum := func() int32 {
			if r.Chance(10) {
				num += int32(r.Range(10, 400))
			} else {
				num += int32(r.Range(1, 3))
			}
			if num >= 19000 && num <= 19999 {
				num = 20000
			}
			return num
		}
		// real oneofs first (synthetic ones of proto3 optional fields follow)
		type oo struct {
			expose bool
			n      int
		}
		var oneofs []oo
		if r.Chance(35) {
			oneofs = append(oneofs, oo{false, r.Range(2, 3)})
		}
		if r.Chance(35) || (force && oi >= 1 && oi <= 3) {
			oneofs = append(oneofs, oo{true, r.Range(1, 3)})
		}
		for i, o := range oneofs {
			// unique in the file as well: an exposed oneof of a flattened child is hoisted into the parent
			od := &descriptorpb.OneofDescriptorProto{Name: proto.String(fmt.Sprintf("grp%d_%d", oi, i))}
			if o.expose {
				od.Options = &descriptorpb.OneofOptions{}
				proto.SetExtension(od.Options, ext_j5pb.E_Oneof, &ext_j5pb.OneofOptions{Expose: true})
			}
			m.OneofDecl = append(m.OneofDecl, od)
		}
		var optionals []*descriptorpb.FieldDescriptorProto
		nf := r.Range(1, 7)
		if force && nf < 3 {
			nf = 3
		}
		for i := 0; i < nf; i++ {
			name := take()
			choice := r.Intn(10)
			if force && i == 0 && oi+1 < len(objNames) && oi < 3 {
				choice = 4 // flatten the next object
			}
			if force && i == 1 && oi == 3 {
				choice = 9 // a plain member, made optional below when it is a scalar
			}
			switch choice {
			case 0, 1: // repeated
				fd := build(name, nextNum(), elem(false))
				fd.Label = descriptorpb.FieldDescriptorProto_LABEL_REPEATED.Enum()
				m.Field = append(m.Field, fd)
			case 2, 3: // map<string, V>
				v := elem(false)
				entry := &descriptorpb.DescriptorProto{Name: proto.String(camel(name) + "Entry"),
					Field: []*descriptorpb.FieldDescriptorProto{
						build("key", 1, rdField{typ: descriptorpb.FieldDescriptorProto_TYPE_STRING}),
						build("value", 2, rdField{typ: v.typ, typeName: v.typeName}),
					},
					Options: &descriptorpb.MessageOptions{MapEntry: proto.Bool(true)}}
				m.NestedType = append(m.NestedType, entry)
				fd := build(name, nextNum(), rdField{typ: descriptorpb.FieldDescriptorProto_TYPE_MESSAGE, typeName: q(on + "." + entry.GetName())})
				fd.Label = descriptorpb.FieldDescriptorProto_LABEL_REPEATED.Enum()
				m.Field = append(m.Field, fd)
			case 4: // flattened object (never itself: the reflector refuses flatten cycles)
				var cands []string
				for oj := oi + 1; oj < len(objNames); oj++ {
					if !flattened[objNames[oj]] {
						cands = append(cands, objNames[oj])
					}
				}
				if force && i == 0 && oi+1 < len(objNames) && !flattened[objNames[oi+1]] {
					cands = []string{objNames[oi+1]}
				}
				if len(cands) > 0 {
					c := vh.Pick(r, cands)
					flattened[c] = true
					m.Field = append(m.Field, build(name, nextNum(), rdField{typ: descriptorpb.FieldDescriptorProto_TYPE_MESSAGE, typeName: q(c),
						opts: &ext_j5pb.FieldOptions{Type: &ext_j5pb.FieldOptions_Message{Message: &ext_j5pb.MessageFieldOptions{Flatten: true}}}}))
					continue
				}
				fallthrough
			default:
				f := elem(true)
				fd := build(name, nextNum(), f)
				if !f.msgLike && (r.Chance(30) || (force && oi == 3 && i == 1)) {
					fd.Proto3Optional = proto.Bool(true)
					optionals = append(optionals, fd)
				}
				m.Field = append(m.Field, fd)
			}
		}
		for i, o := range oneofs {
			for k := 0; k < o.n; k++ {
				fd := build(take(), nextNum(), elem(false))
				fd.OneofIndex = proto.Int32(int32(i))
				m.Field = append(m.Field, fd)
			}
		}
		for _, fd := range optionals {
			idx := int32(len(m.OneofDecl))
			m.OneofDecl = append(m.OneofDecl, &descriptorpb.OneofDescriptorProto{Name: proto.String("_" + fd.GetName())})
			fd.OneofIndex = proto.Int32(idx)
		}
		msgs = append(msgs, m)
	}
	for _, wn := range wrapNames {
		m := &descriptorpb.DescriptorProto{Name: proto.String(wn), Options: &descriptorpb.MessageOptions{}}
		proto.SetExtension(m.Options, ext_j5pb.E_Message, &ext_j5pb.MessageOptions{IsOneofWrapper: true})
		m.OneofDecl = append(m.OneofDecl, &descriptorpb.OneofDescriptorProto{Name: proto.String("type")})
		n := r.Range(1, 5)
		num := int32(0)
		for k := 0; k < n; k++ {
			num += int32(r.Range(1, 4))
			fd := build(takeName(), num, elem(false))
			fd.OneofIndex = proto.Int32(0)
			m.Field = append(m.Field, fd)
		}
		msgs = append(msgs, m)
	}
	fdp := &descriptorpb.FileDescriptorProto{
		Name:    proto.String(strings.ReplaceAll(pkg, ".", "/") + "/r.proto"),
		Package: proto.String(pkg),
		Syntax:  proto.String("proto3"),
		Dependency: []string{
			"google/protobuf/any.proto", "google/protobuf/timestamp.proto", "j5/ext/v1/annotations.proto",
			"j5/types/any/v1/any.proto", "j5/types/date/v1/date.proto", "j5/types/decimal/v1/decimal.proto",
		},
		MessageType: msgs,
		EnumType:    enums,
	}
	return protodesc.NewFile(fdp, protoregistry.GlobalFiles)
}

// ---------------------------------------------------------------- targets

type genSchemaStats struct {
	j5sFiles, j5sCompileErr, descFiles, descLinkErr, roots, refused int
	firstErr                                                        []string
}

// randomTargets: nJ5s compiled j5s packages and nDesc raw descriptor files; every top-level message
// the reflector accepts is a root.
func randomTargets(r *vh.Rand, nJ5s, nDesc int, st *genSchemaStats) []*target {
	var out []*target
	note := func(s string) {
		if len(st.firstErr) < 6 {
			st.firstErr = append(st.firstErr, s)
		}
	}
	addRoots := func(prefix string, fd protoreflect.FileDescriptor) {
		ms := fd.Messages()
		for i := 0; i < ms.Len(); i++ {
			md := ms.Get(i)
			env, err := buildEnvSafe(md)
			if err != nil || len(env.Problems) > 0 {
				st.refused++
				if err != nil {
					note(fmt.Sprintf("%s.%s: %v", prefix, md.Name(), err))
				} else {
					note(fmt.Sprintf("%s.%s: %v", prefix, md.Name(), env.Problems))
				}
				continue
			}
			md2 := md
			st.roots++
			out = append(out, &target{Name: fmt.Sprintf("env_%s_%s", prefix, strings.ToLower(string(md.Name()))),
				New: func() protoreflect.Message { return dynamicpb.NewMessage(md2) }, Env: env})
		}
	}
	for i := 0; i < nJ5s; i++ {
		st.j5sFiles++
		files, src, err := randJ5sFile(r.Fork(fmt.Sprintf("j5s%d", i)), i)
		if err != nil {
			st.j5sCompileErr++
			note(fmt.Sprintf("j5s %d: %v\n%s", i, err, src))
			continue
		}
		for _, f := range files {
			addRoots(fmt.Sprintf("rj%d", i), f)
		}
	}
	for i := 0; i < nDesc; i++ {
		st.descFiles++
		fd, err := randDescFile(r.Fork(fmt.Sprintf("desc%d", i)), i)
		if err != nil {
			st.descLinkErr++
			note(fmt.Sprintf("desc %d: %v", i, err))
			continue
		}
		addRoots(fmt.Sprintf("rd%d", i), fd)
	}
	return out
}

func buildEnvSafe(md protoreflect.MessageDescriptor) (env *codecgen.Env, err error) {
	defer func() {
		if rec := recover(); rec != nil {
			err = fmt.Errorf("reflector panic: %v", rec)
		}
	}()
	return codecgen.BuildEnv(md)
}

package main

import (
	"bytes"
	"encoding/json"
	"fmt"
	"math"
	"strconv"
	"strings"
	"time"

	"github.com/pentops/j5/gen/j5/ext/v1/ext_j5pb"
	"github.com/pentops/j5/gen/test/schema/v1/schema_testpb"
	"github.com/shopspring/decimal"
	"google.golang.org/protobuf/proto"
	"google.golang.org/protobuf/reflect/protoreflect"

	"verifharness/codecgen"
	"verifharness/vh"
)

func init() { vh.Register("C01", runC01) }

// flattenFields lists (message full name, field number) of message fields the schema flattens:
// the intermediate steps of every property path longer than one.
func flattenFields(env *codecgen.Env) map[string]bool {
	out := map[string]bool{}
	for _, s := range env.Schemas {
		if s.Desc == nil {
			continue
		}
		for _, p := range s.Props {
			walk := s.Desc
			for i, num := range p.Path {
				fd := walk.Fields().ByNumber(protoreflect.FieldNumber(num))
				if fd == nil {
					break
				}
				if i < len(p.Path)-1 {
					out[fmt.Sprintf("%s#%d", walk.FullName(), num)] = true
					walk = fd.Message()
				}
			}
		}
	}
	return out
}

// dropEmptyFlattened clears flattened sub-messages that hold nothing (allowance of the property).
func dropEmptyFlattened(m protoreflect.Message, flat map[string]bool) {
	var clear []protoreflect.FieldDescriptor
	m.Range(func(fd protoreflect.FieldDescriptor, v protoreflect.Value) bool {
		switch {
		case fd.IsList() && fd.Kind() == protoreflect.MessageKind:
			for i := 0; i < v.List().Len(); i++ {
				dropEmptyFlattened(v.List().Get(i).Message(), flat)
			}
		case fd.IsMap() && fd.MapValue().Kind() == protoreflect.MessageKind:
			v.Map().Range(func(_ protoreflect.MapKey, mv protoreflect.Value) bool {
				dropEmptyFlattened(mv.Message(), flat)
				return true
			})
		case fd.Kind() == protoreflect.MessageKind && !fd.IsMap() && !fd.IsList():
			dropEmptyFlattened(v.Message(), flat)
			if flat[fmt.Sprintf("%s#%d", m.Descriptor().FullName(), fd.Number())] {
				empty := true
				v.Message().Range(func(protoreflect.FieldDescriptor, protoreflect.Value) bool { empty = false; return false })
				if empty {
					clear = append(clear, fd)
				}
			}
		}
		return true
	})
	for _, fd := range clear {
		m.Clear(fd)
	}
}

func anyPayloadMsg(m protoreflect.Message) (tn string, payload protoreflect.Message, err error) {
	fs := m.Descriptor().Fields()
	var pb, js []byte
	if m.Descriptor().FullName() == "google.protobuf.Any" {
		tn = strings.TrimPrefix(m.Get(fs.ByName("type_url")).String(), "type.googleapis.com/")
		pb = m.Get(fs.ByName("value")).Bytes()
	} else {
		tn = m.Get(fs.ByName("type_name")).String()
		pb = m.Get(fs.ByName("proto")).Bytes()
		if m.Has(fs.ByName("j5_json")) {
			js = m.Get(fs.ByName("j5_json")).Bytes()
		}
	}
	mt, err := resolver.FindMessageByName(protoreflect.FullName(tn))
	if err != nil {
		return tn, nil, err
	}
	dst := mt.New()
	if js != nil && (m.Descriptor().FullName() != "google.protobuf.Any") && !m.Has(fs.ByName("proto")) {
		if e, p := decodeMsg(theCodec, js, dst); e != nil || p != nil {
			return tn, nil, fmt.Errorf("payload json: %v %v", e, p)
		}
		return tn, dst, nil
	}
	if err := proto.Unmarshal(pb, dst.Interface()); err != nil {
		return tn, nil, err
	}
	return tn, dst, nil
}

// equalModulo compares two messages of the same type: decimals numerically, Any values by
// type name and payload message, everything else exactly.
func equalModulo(a, b protoreflect.Message, path string) string {
	switch a.Descriptor().FullName() {
	case "j5.types.decimal.v1.Decimal":
		f := a.Descriptor().Fields().ByName("value")
		da, ea := decimal.NewFromString(a.Get(f).String())
		db, eb := decimal.NewFromString(b.Get(f).String())
		if ea != nil || eb != nil || !da.Equal(db) {
			return fmt.Sprintf("%s: decimal %q vs %q", path, a.Get(f).String(), b.Get(f).String())
		}
		return ""
	case "google.protobuf.Any", "j5.types.any.v1.Any":
		ta, pa, ea := anyPayloadMsg(a)
		tb, pb, eb := anyPayloadMsg(b)
		if ea != nil || eb != nil {
			return fmt.Sprintf("%s: any payload unreadable: %v / %v", path, ea, eb)
		}
		if ta != tb {
			return fmt.Sprintf("%s: any type %q vs %q", path, ta, tb)
		}
		if d := equalModulo(pa, pb, path+".(payload)"); d != "" {
			return d
		}
		// a j5 Any keeps the JSON text of its payload: the encoder embeds the stored j5_json verbatim
		// (or the inner encoding when only proto bytes are stored) and the decoder keeps json.Compact
		// of what it read, so the decoded j5_json is that text byte for byte, insignificant white
		// space aside (member order, escapes and number spellings survive)
		if a.Descriptor().FullName() == "j5.types.any.v1.Any" {
			fs := a.Descriptor().Fields()
			var embedded []byte
			if a.Has(fs.ByName("j5_json")) {
				embedded = a.Get(fs.ByName("j5_json")).Bytes()
			} else {
				o := encodeMsg(theCodec, pa)
				if o.Kind != "ok" {
					return fmt.Sprintf("%s: any payload does not encode: %s%s", path, o.Err, o.Panic)
				}
				embedded = o.Out
			}
			var want bytes.Buffer
			if err := json.Compact(&want, embedded); err != nil {
				return fmt.Sprintf("%s: any j5_json of the original is not JSON: %v", path, err)
			}
			got := b.Get(fs.ByName("j5_json")).Bytes()
			if !bytes.Equal(want.Bytes(), got) {
				return fmt.Sprintf("%s: any j5_json text %q vs %q", path, want.String(), string(got))
			}
		}
		return ""
	}
	var diff string
	fields := a.Descriptor().Fields()
	for i := 0; i < fields.Len() && diff == ""; i++ {
		fd := fields.Get(i)
		p := path + "." + string(fd.Name())
		if a.Has(fd) != b.Has(fd) {
			return fmt.Sprintf("%s: presence %v vs %v", p, a.Has(fd), b.Has(fd))
		}
		if !a.Has(fd) {
			continue
		}
		va, vb := a.Get(fd), b.Get(fd)
		switch {
		case fd.IsList():
			if va.List().Len() != vb.List().Len() {
				return fmt.Sprintf("%s: length %d vs %d", p, va.List().Len(), vb.List().Len())
			}
			for k := 0; k < va.List().Len() && diff == ""; k++ {
				diff = equalSingle(fd, va.List().Get(k), vb.List().Get(k), fmt.Sprintf("%s[%d]", p, k))
			}
		case fd.IsMap():
			if va.Map().Len() != vb.Map().Len() {
				return fmt.Sprintf("%s: size %d vs %d", p, va.Map().Len(), vb.Map().Len())
			}
			va.Map().Range(func(k protoreflect.MapKey, x protoreflect.Value) bool {
				if !vb.Map().Has(k) {
					diff = fmt.Sprintf("%s: key %q lost", p, k.String())
					return false
				}
				diff = equalSingle(fd.MapValue(), x, vb.Map().Get(k), fmt.Sprintf("%s{%s}", p, k.String()))
				return diff == ""
			})
		default:
			diff = equalSingle(fd, va, vb, p)
		}
	}
	return diff
}

func equalSingle(fd protoreflect.FieldDescriptor, a, b protoreflect.Value, path string) string {
	switch fd.Kind() {
	case protoreflect.MessageKind, protoreflect.GroupKind:
		return equalModulo(a.Message(), b.Message(), path)
	case protoreflect.FloatKind, protoreflect.DoubleKind:
		if math.IsNaN(a.Float()) && math.IsNaN(b.Float()) {
			return "" // every NaN is written as "NaN" and read back as the canonical NaN
		}
		if math.Float64bits(a.Float()) != math.Float64bits(b.Float()) {
			return fmt.Sprintf("%s: float %v vs %v", path, a.Float(), b.Float())
		}
	case protoreflect.BytesKind:
		if !bytes.Equal(a.Bytes(), b.Bytes()) {
			return fmt.Sprintf("%s: bytes %x vs %x", path, a.Bytes(), b.Bytes())
		}
	default:
		if a.Interface() != b.Interface() {
			return fmt.Sprintf("%s: %v vs %v", path, a.Interface(), b.Interface())
		}
	}
	return ""
}

// representable reports why a message lies outside C01's domain ("" when inside).
// enumOptionDefined: the number is a declared value and, for an enum annotated no_default (no
// UNSPECIFIED option in the J5 schema), not the zero value.
func enumOptionDefined(ed protoreflect.EnumDescriptor, n protoreflect.EnumNumber) bool {
	if ed.Values().ByNumber(n) == nil {
		return false
	}
	if n == 0 {
		if o, ok := proto.GetExtension(ed.Options(), ext_j5pb.E_Enum).(*ext_j5pb.EnumOptions); ok && o != nil && o.NoDefault {
			return false
		}
	}
	return true
}

func notRepresentable(m protoreflect.Message) string { return notRepresentableBut(m, false) }

// notRepresentableBut: with allowNonFinite, NaN / +Inf / -Inf in float fields do not count (the extended
// round-trip clause: since /repo 5e4d94d both directions use the strings of the protobuf JSON mapping)
func notRepresentableBut(m protoreflect.Message, allowNonFinite bool) string {
	w := map[string]int{}
	scanWide(m, w)
	for _, k := range []string{"non-finite float", "out-of-range date", "out-of-range timestamp", "ill-formed j5_json"} {
		if k == "non-finite float" && allowNonFinite {
			continue
		}
		if w[k] > 0 {
			return k
		}
	}
	var why string
	var walk func(m protoreflect.Message)
	walk = func(m protoreflect.Message) {
		switch m.Descriptor().FullName() {
		case "j5.types.decimal.v1.Decimal":
			if _, err := safeDecimalParse(m.Get(m.Descriptor().Fields().ByName("value")).String()); err != nil {
				why = "ill-formed decimal"
			}
			return
		case "j5.types.date.v1.Date":
			fs := m.Descriptor().Fields()
			y, mo, d := int32(m.Get(fs.ByName("year")).Int()), int32(m.Get(fs.ByName("month")).Int()), int32(m.Get(fs.ByName("day")).Int())
			if mo >= 1 && mo <= 12 && d > daysIn(y, mo) {
				why = "day beyond the month"
			}
			return
		case "google.protobuf.Any", "j5.types.any.v1.Any":
			if _, _, err := anyPayloadMsg(m); err != nil {
				why = "any with unknown type or unreadable payload"
			}
			return
		}
		m.Range(func(fd protoreflect.FieldDescriptor, v protoreflect.Value) bool {
			one := func(fd protoreflect.FieldDescriptor, v protoreflect.Value) {
				if fd.Kind() == protoreflect.MessageKind {
					walk(v.Message())
				}
				if fd.Kind() == protoreflect.EnumKind && !enumOptionDefined(fd.Enum(), v.Enum()) {
					why = "enum number without a J5 option"
				}
			}
			switch {
			case fd.IsList():
				for i := 0; i < v.List().Len(); i++ {
					one(fd, v.List().Get(i))
				}
			case fd.IsMap():
				v.Map().Range(func(_ protoreflect.MapKey, mv protoreflect.Value) bool { one(fd.MapValue(), mv); return true })
			default:
				one(fd, v)
			}
			return true
		})
	}
	walk(m)
	return why
}

func safeDecimalParse(s string) (d decimal.Decimal, err error) {
	defer func() {
		if r := recover(); r != nil {
			err = fmt.Errorf("panic: %v", r)
		}
	}()
	return decimal.NewFromString(s)
}

// anyBackTerm: what the decoder's WithProtoToAny conversion answers for every Any of the message:
// (type name, payload JSON in the model's canonical print, proto bytes | None).
func anyBackTerm(m protoreflect.Message) string {
	var parts []string
	var walk func(m protoreflect.Message)
	walk = func(m protoreflect.Message) {
		name := m.Descriptor().FullName()
		if name == "google.protobuf.Any" || name == "j5.types.any.v1.Any" {
			fs := m.Descriptor().Fields()
			var tn string
			var embedded []byte
			if name == "google.protobuf.Any" {
				tn = strings.TrimPrefix(m.Get(fs.ByName("type_url")).String(), "type.googleapis.com/")
			} else {
				tn = m.Get(fs.ByName("type_name")).String()
				if m.Has(fs.ByName("j5_json")) {
					embedded = m.Get(fs.ByName("j5_json")).Bytes()
				}
			}
			if embedded == nil {
				if _, payload, err := anyPayloadMsg(m); err == nil {
					if o := encodeMsg(theCodec, payload); o.Kind == "ok" {
						embedded = o.Out
					}
				}
			}
			if embedded == nil {
				return
			}
			out := "None"
			if mt, err := resolver.FindMessageByName(protoreflect.FullName(tn)); err == nil {
				dst := mt.New()
				if e, p := decodeMsg(anyCodec, embedded, dst); e == nil && p == nil {
					if b, err := proto.Marshal(dst.Interface()); err == nil {
						out = "(Some " + codecgen.BytesTerm(string(b)) + ")"
					}
				}
			}
			parts = append(parts, fmt.Sprintf("(%s, %s, %s)", codecgen.BytesTerm(tn), codecgen.BytesTerm(string(canonPrint(embedded))), out))
			return
		}
		m.Range(func(fd protoreflect.FieldDescriptor, v protoreflect.Value) bool {
			if fd.IsMap() {
				if fd.MapValue().Kind() != protoreflect.MessageKind {
					return true
				}
			} else if fd.Kind() != protoreflect.MessageKind {
				return true
			}
			switch {
			case fd.IsList():
				for i := 0; i < v.List().Len(); i++ {
					walk(v.List().Get(i).Message())
				}
			case fd.IsMap():
				v.Map().Range(func(_ protoreflect.MapKey, mv protoreflect.Value) bool { walk(mv.Message()); return true })
			default:
				walk(v.Message())
			}
			return true
		})
	}
	walk(m)
	return "[" + strings.Join(parts, "; ") + "]"
}

// outsideRepRoot names why a message the oracle judges (notRepresentable == "") is nevertheless
// outside the precondition rep_root of the theorems ("" when inside). The Coq side evaluates the
// decider rep_root_b on the same message and the two must agree case by case, so the number of
// generated messages the theorem speaks about is a measured, machine-checked count.
func outsideRepRoot(m protoreflect.Message) string {
	why := ""
	if w := (map[string]int{}); true {
		scanWide(m, w)
		if w["non-finite float"] > 0 {
			return "non_finite_float"
		}
	}
	var walk func(m protoreflect.Message)
	walk = func(m protoreflect.Message) {
		name := m.Descriptor().FullName()
		if name == "j5.types.any.v1.Any" {
			fs := m.Descriptor().Fields()
			if m.Has(fs.ByName("j5_json")) {
				j := m.Get(fs.ByName("j5_json")).Bytes()
				if !bytes.Equal(canonPrint(j), j) {
					why = "j5_any_stored_text_not_the_canonical_compact_print"
				}
			}
			return
		}
		if name == "google.protobuf.Any" {
			return
		}
		m.Range(func(fd protoreflect.FieldDescriptor, v protoreflect.Value) bool {
			if fd.IsMap() {
				if fd.MapValue().Kind() != protoreflect.MessageKind {
					return true
				}
			} else if fd.Kind() != protoreflect.MessageKind {
				return true
			}
			switch {
			case fd.IsList():
				for i := 0; i < v.List().Len(); i++ {
					walk(v.List().Get(i).Message())
				}
			case fd.IsMap():
				v.Map().Range(func(_ protoreflect.MapKey, mv protoreflect.Value) bool { walk(mv.Message()); return true })
			default:
				walk(v.Message())
			}
			return true
		})
	}
	walk(m)
	return why
}

func hasPBAny(m protoreflect.Message) bool {
	w := false
	var walk func(m protoreflect.Message)
	walk = func(m protoreflect.Message) {
		if m.Descriptor().FullName() == "google.protobuf.Any" {
			w = true
			return
		}
		m.Range(func(fd protoreflect.FieldDescriptor, v protoreflect.Value) bool {
			if fd.IsMap() {
				if fd.MapValue().Kind() != protoreflect.MessageKind {
					return true
				}
			} else if fd.Kind() != protoreflect.MessageKind {
				return true
			}
			switch {
			case fd.IsList():
				for i := 0; i < v.List().Len(); i++ {
					walk(v.List().Get(i).Message())
				}
			case fd.IsMap():
				v.Map().Range(func(_ protoreflect.MapKey, mv protoreflect.Value) bool { walk(mv.Message()); return true })
			default:
				walk(v.Message())
			}
			return true
		})
	}
	walk(m)
	return w
}

// firstDiffClass names the field class of a difference for the failure signature
func diffClass(d string) string {
	switch {
	case strings.Contains(d, "decimal"):
		return "decimal"
	case strings.Contains(d, "any "):
		return "any"
	case strings.Contains(d, "presence"):
		return "presence"
	case strings.Contains(d, "float"):
		return "float"
	case strings.Contains(d, "bytes"):
		return "bytes"
	case strings.Contains(d, "length"), strings.Contains(d, "size"), strings.Contains(d, "key"):
		return "collection"
	}
	return "value"
}

func (er *encRun) roundTrip(stream string, t *target, m protoreflect.Message, flat map[string]bool) {
	res0 := er.res
	why := notRepresentable(m)
	ext := ""
	if why == "non-finite float" && notRepresentableBut(m, true) == "" {
		// outside the property's quantifier (finite floats), inside the codec's contract since /repo 5e4d94d:
		// NaN / Infinity / -Infinity are written as strings that the decoder's string arm reads back, at both
		// widths. Judged under its own signatures (suffix), never counted as a theorem case (rep = false)
		ext = " [non-finite float]"
		res0.Count("extended_domain_non_finite_float")
	} else if why != "" {
		res0.Count("skipped_not_representable")
		res0.Count("skipped_" + strings.ReplaceAll(why, " ", "_"))
		return
	}
	res := &sigSuffix{Result: res0, suffix: ext}
	caseNo := er.em.caseNo
	er.em.caseNo++
	res.Count(stream)
	in := map[string]any{"type": t.Env.Root, "message": shortMsg(m)}
	er.distinct.Add(t.Name + msgTerm(m))
	o := encodeMsg(theCodec, m)
	// sequence shape: the document returned for the PREVIOUS case (the slice itself, never copied) must
	// still decode to its message now that another message has been encoded (a pooled / reused output
	// buffer breaks this while every immediate encode-decode pair still passes)
	er.recheckPrevRT()
	rawOut := o.Out
	o.Out = append([]byte(nil), o.Out...) // this case works on a copy taken at once
	switch o.Kind {
	case "panic":
		res.Fail(vh.Failure{Case: caseNo, Stream: stream, Sig: "C01 encoder panic on a representable message", Clause: "encoding a representable message succeeds", Input: in, Got: o.Panic})
		return
	case "err":
		res.Fail(vh.Failure{Case: caseNo, Stream: stream, Sig: "C01 encoding a representable message fails", Clause: "encoding a representable message succeeds", Input: in, Got: o.Err})
		return
	}
	// model case: the default codec both ways; a message holding a google.protobuf.Any is decoded with
	// WithProtoToAny on both sides (the model gets the table of the payload conversions)
	{
		facts := factsOf(m)
		mb := t.New()
		mc, abackTerm := theCodec, "None"
		if hasPBAny(m) {
			mc, abackTerm = anyCodec, "(Some "+anyBackTerm(m)+")"
		}
		derr, dpan := decodeMsg(mc, o.Out, mb)
		backTerm := "None"
		if dpan == nil && derr == nil {
			backTerm = "(Some " + msgTermCanon(mb) + ")"
		}
		if dpan == nil && len(o.Out) > maxModelOut {
			res.Count("model_skipped_large_document") // a list literal of that length overflows coqc's stack; the oracle still runs
		} else if dpan == nil {
			pf, pt := literalTables(o.Out)
			if !inTheoremShape(t.Env) {
				res.Count("env_outside_theorem_hypotheses_exposed_oneof_in_flattened_object")
			}
			rep := inTheoremShape(t.Env)
			res.Count("theorem_precondition_cases")
			if why := outsideRepRoot(m); why != "" {
				rep = false
				res.Count("outside_rep_root_" + why)
			}
			if rep {
				res.Count("theorem_precondition_rep_root_holds")
			}
			// the shared-holder oneof shape: the case is inside the theorem's preconditions for the
			// hoisted view of its environment (CodecSharedHolder.hoist_env; Coq evaluates the deciders
			// on it and runs the models on it against this document and this decoded message)
			hoist := false
			if !inTheoremShape(t.Env) {
				res.Count("shared_holder_shape_cases")
				switch {
				case outsideRepRoot(m) != "":
					res.Count("shared_holder_outside_rep_root")
				case dpan != nil || derr != nil:
					res.Count("shared_holder_decode_failed")
				case holderWithoutMember(t.Env, t.Env.Root, m):
					res.Count("shared_holder_holder_without_member")
				default:
					hoist = true
					res.Count("shared_holder_inside_hoisted_theorem")
				}
			}
			if rep || hoist {
				res.Count("theorem_side_condition_holds_direct_or_hoisted")
			}
			er.em.cf.Terms = append(er.em.cf.Terms, fmt.Sprintf("CRound %s %s %s %s %s %s %s %s %s %s %s %s %s %s %s", t.Name, vh.BoolTerm(inTheoremShape(t.Env)), codecgen.BytesTerm(t.Env.Root), msgTerm(m),
				facts.floatsTerm(), facts.innersTerm(), pf, pt, vh.BoolTerm(facts.maxMap <= 1), codecgen.BytesTerm(string(o.Out)), backTerm,
				vh.BoolTerm(facts.kinds["any"] == 0), // messages are compared with dec's model unless an Any is inside (its j5_json is stored in another canonical spelling)
				abackTerm, vh.BoolTerm(rep), vh.BoolTerm(hoist)))
			res.Cases = append(res.Cases, vh.CaseRec{Case: caseNo, Stream: stream, Input: in, Impl: map[string]any{"out": short(o.Out), "decode_err": fmt.Sprint(derr)}})
		}
	}
	c := theCodec
	if hasPBAny(m) {
		c = anyCodec
		res.Count("decoded_with_proto_to_any")
	}
	back := t.New()
	err, pan := decodeMsg(c, o.Out, back)
	if pan != nil {
		res.Fail(vh.Failure{Case: caseNo, Stream: stream, Sig: "C01 decoder panic on encoder output", Clause: "decoding the encoding succeeds", Input: in, Got: fmt.Sprintf("%v on %s", pan, short(o.Out))})
		return
	}
	if err != nil {
		cls := "other"
		for _, k := range []string{"date", "decimal", "enum", "ts", "Ts", "any", "Any", "oneof", "Oneof", "float", "Float", "bytes", "Bytes", "int", "Int"} {
			if strings.Contains(err.Error(), k) {
				cls = strings.ToLower(k)
				break
			}
		}
		res.Fail(vh.Failure{Case: caseNo, Stream: stream, Sig: "C01 decoder rejects encoder output (" + cls + ")", Clause: "decoding the encoding succeeds", Input: in, Got: err.Error() + " on " + short(o.Out)})
		return
	}
	a := cloneMsg(m)
	b := cloneMsg(back)
	dropEmptyFlattened(a, flat)
	dropEmptyFlattened(b, flat)
	if d := equalModulo(a, b, "$"); d != "" {
		res.Fail(vh.Failure{Case: caseNo, Stream: stream, Sig: "C01 round trip changes the message (" + diffClass(d) + ")", Clause: "decode(encode m) equals m", Input: in, Got: d + " via " + short(o.Out)})
		return
	}
	if !proto.Equal(m.Interface(), back.Interface()) {
		res.Count("equal_only_modulo_allowances")
	}
	res.Count("roundtrip_ok")
	er.prevRT = &keptRT{raw: rawOut, m: cloneMsg(m), t: t, flat: flat, in: in, caseNo: caseNo, stream: stream, suffix: ext}
	if len(o.Out) > 2 && len(o.Out) < 160 {
		res.Sample(map[string]any{"stream": stream, "type": t.Env.Root, "json": string(o.Out)}, 8)
	}
}

// documents longer than this are checked by the direct oracle only
const maxModelOut = 20000

func runC01(cfg *vh.Config) error {
	res := vh.NewResult("C01", cfg.Seed)
	res.Rule = "representable messages (valid UTF-8, finite floats, defined enum numbers, years 0001-9999 with real calendar days, timestamps 0001-9999 with nanos in range, well-formed decimals, Any with known types) of test.schema.v1.FullSchema and related roots and of generated dynamic descriptors; integer boundaries, escapes / controls / non-BMP text, every oneof arm, maps, arrays, nesting depth 1-5, optional-with-zero; encoded with the real codec, decoded into a fresh message, compared with the two allowances (decimals numerically, empty flattened sub-object = absent; Any by type and payload). Library streams: ParseInt, byteValueFromString, time.Parse, DateFromString, the float round-trip law of strconv. non-trivial = distinct (type, message) other than the empty message"
	targets, nFixed, err := loadTargets(cfg, res)
	if err != nil {
		return err
	}
	em := &emitter{cf: &vh.CasesFile{Header: envHeader(targets), Type: "enc_case", Check: "enc_check"}, res: res, perShd: 200}
	er := &encRun{cfg: cfg, res: res, em: em, distinct: vh.Distinct{}}
	r := cfg.R
	full := targets[0]
	flats := map[*target]map[string]bool{}
	for _, t := range targets {
		flats[t] = flattenFields(t.Env)
	}
	for _, m := range handMessages() {
		er.roundTrip("hand-written", full, m.ProtoReflect(), flats[full])
	}
	// every message-typed field present but empty (singular, list element, map value; two levels)
	for _, t := range targets {
		for _, m := range emptySubMessages(t.New) {
			er.roundTrip("empty-submessage", t, m, flats[t])
		}
	}
	pick := func() *target {
		if r.Chance(65) {
			return full
		}
		return vh.Pick(r, targets)
	}
	for i := 0; i < cfg.Scale(40, 1500); i++ {
		t := pick()
		g := &msgGen{r: r, maxDepth: r.Range(1, 3), fieldPct: vh.Pick(r, []int{4, 10, 25}), maxEntries: 2, big: true, emptySubs: 20}
		m := t.New()
		g.fill(m, 1)
		er.roundTrip("big", t, m, flats[t])
	}
	for i := 0; i < cfg.Scale(480, 12000); i++ {
		t := pick()
		g := &msgGen{r: r, maxDepth: 2, fieldPct: vh.Pick(r, []int{3, 6}), maxEntries: 2, emptySubs: 30}
		m := t.New()
		g.fill(m, 1)
		er.roundTrip("sparse", t, m, flats[t])
	}
	for i := 0; i < cfg.Scale(680, 16000); i++ {
		t := pick()
		g := &msgGen{r: r, maxDepth: r.Range(1, 5), fieldPct: vh.Pick(r, []int{10, 20, 35, 60}), maxEntries: r.Range(1, 3), emptySubs: vh.Pick(r, []int{0, 10, 30})}
		m := t.New()
		g.fill(m, 1)
		er.roundTrip("message", t, m, flats[t])
	}
	// extended domain: NaN / +Inf / -Inf in float fields of both widths (single, optional, repeated, oneof
	// member, map value), pinned by hand and drawn
	inf32, ninf32, nan32 := float32(math.Inf(1)), float32(math.Inf(-1)), float32(math.NaN())
	for _, m := range []*schema_testpb.FullSchema{
		{SFloat: inf32}, {SFloat: ninf32}, {SFloat: nan32}, {OFloat: &inf32}, {OFloat: &ninf32}, {OFloat: &nan32},
		{RFloat: []float32{inf32, 1.5, ninf32, nan32}},
		{AnonOneof: &schema_testpb.FullSchema_AOneofFloat{AOneofFloat: inf32}}, {AnonOneof: &schema_testpb.FullSchema_AOneofFloat{AOneofFloat: ninf32}},
		{WrappedOneof: &schema_testpb.WrappedOneof{Type: &schema_testpb.WrappedOneof_WOneofFloat{WOneofFloat: ninf32}}},
		{SFloat: math.MaxFloat32}, {SFloat: -math.MaxFloat32},
	} {
		er.roundTrip("non-finite-float", full, m.ProtoReflect(), flats[full])
	}
	for i := 0; i < cfg.Scale(100, 1500); i++ {
		t := pick()
		g := &msgGen{r: r, maxDepth: r.Range(1, 3), fieldPct: vh.Pick(r, []int{10, 30, 60}), maxEntries: r.Range(1, 3), nonFinite: true}
		m := t.New()
		g.fill(m, 1)
		er.roundTrip("non-finite-float", t, m, flats[t])
	}
	// messages of the schemas generated for this run (compiled j5s packages, raw descriptors)
	if gen := targets[nFixed:]; len(gen) > 0 {
		for i := 0; i < cfg.Scale(400, 6000); i++ {
			t := vh.Pick(r, gen)
			g := &msgGen{r: r, maxDepth: r.Range(1, 4), fieldPct: vh.Pick(r, []int{20, 40, 70}), maxEntries: r.Range(1, 3), emptySubs: vh.Pick(r, []int{0, 10, 30})}
			m := t.New()
			g.fill(m, 1)
			er.roundTrip("generated-schema", t, m, flats[t])
		}
	}
	libParsers(cfg, er)
	// share of the round-trip cases that satisfy the side conditions of C01_full_statement_decided, directly
	// or for the hoisted view of a shared-holder environment (each flag is re-computed by Coq per case)
	if n := res.Distribution["theorem_precondition_cases"]; n > 0 {
		res.Distribution["theorem_side_condition_share_permille_direct"] = res.Distribution["theorem_precondition_rep_root_holds"] * 1000 / n
		res.Distribution["theorem_side_condition_share_permille_direct_or_hoisted"] = res.Distribution["theorem_side_condition_holds_direct_or_hoisted"] * 1000 / n
	}
	if n := res.Distribution["shared_holder_shape_cases"]; n > 0 {
		res.Distribution["shared_holder_share_permille_inside_hoisted_theorem"] = res.Distribution["shared_holder_inside_hoisted_theorem"] * 1000 / n
	}
	res.Evaluations = em.caseNo
	res.Distinct = len(er.distinct) - 1
	_ = json.Valid
	return em.finish(cfg)
}

// msgTermCanon: like msgTerm, with the j5_json of a j5 Any re-printed canonically (the decoder
// stores json.Compact of the value text; the model stores the compact print of the value tree)
func msgTermCanon(m protoreflect.Message) string {
	c := cloneMsg(m)
	canonAny(c)
	return msgTerm(c)
}

// cloneMsg copies field by field (proto.Clone / Merge drop a negative zero held by an
// implicit-presence float field)
func cloneMsg(m protoreflect.Message) protoreflect.Message {
	c := m.New()
	m.Range(func(fd protoreflect.FieldDescriptor, v protoreflect.Value) bool {
		switch {
		case fd.IsList():
			l := c.Mutable(fd).List()
			for i := 0; i < v.List().Len(); i++ {
				if fd.Kind() == protoreflect.MessageKind {
					l.Append(protoreflect.ValueOfMessage(cloneMsg(v.List().Get(i).Message())))
				} else {
					l.Append(cloneScalar(fd, v.List().Get(i)))
				}
			}
		case fd.IsMap():
			mp := c.Mutable(fd).Map()
			v.Map().Range(func(k protoreflect.MapKey, mv protoreflect.Value) bool {
				if fd.MapValue().Kind() == protoreflect.MessageKind {
					mp.Set(k, protoreflect.ValueOfMessage(cloneMsg(mv.Message())))
				} else {
					mp.Set(k, cloneScalar(fd.MapValue(), mv))
				}
				return true
			})
		case fd.Kind() == protoreflect.MessageKind:
			c.Set(fd, protoreflect.ValueOfMessage(cloneMsg(v.Message())))
		default:
			c.Set(fd, cloneScalar(fd, v))
		}
		return true
	})
	return c
}

func cloneScalar(fd protoreflect.FieldDescriptor, v protoreflect.Value) protoreflect.Value {
	if fd.Kind() == protoreflect.BytesKind {
		return protoreflect.ValueOfBytes(append([]byte{}, v.Bytes()...))
	}
	return v
}

func canonAny(m protoreflect.Message) {
	if m.Descriptor().FullName() == "j5.types.any.v1.Any" {
		f := m.Descriptor().Fields().ByName("j5_json")
		if m.Has(f) {
			m.Set(f, protoreflect.ValueOfBytes(canonPrint(m.Get(f).Bytes())))
		}
		return
	}
	m.Range(func(fd protoreflect.FieldDescriptor, v protoreflect.Value) bool {
		switch {
		case fd.IsList():
			if fd.Kind() == protoreflect.MessageKind {
				for i := 0; i < v.List().Len(); i++ {
					canonAny(v.List().Get(i).Message())
				}
			}
		case fd.IsMap():
			if fd.MapValue().Kind() == protoreflect.MessageKind {
				v.Map().Range(func(_ protoreflect.MapKey, mv protoreflect.Value) bool { canonAny(mv.Message()); return true })
			}
		default:
			if fd.Kind() == protoreflect.MessageKind {
				canonAny(v.Message())
			}
		}
		return true
	})
}

// literalTables: what strconv.ParseFloat(s, 64) and time.Parse(time.RFC3339, s) answer for every
// number and string literal of a document (the model takes both functions as parameters).
func literalTables(doc []byte) (string, string) {
	root, err := parseStrict(doc)
	if err != nil {
		return "[]", "[]"
	}
	seenF := map[string]bool{}
	seenT := map[string]bool{}
	var fs, ts []string
	var walk func(n *jnode)
	add := func(s string) {
		if len(s) > 64 {
			return
		}
		if !seenF[s] {
			seenF[s] = true
			opt := func(f float64, err error, is32 bool) string {
				if err != nil {
					return "None"
				}
				if is32 {
					return fmt.Sprintf("(Some %d)", math.Float32bits(float32(f)))
				}
				return fmt.Sprintf("(Some %d)", math.Float64bits(f))
			}
			f64, e64 := strconv.ParseFloat(s, 64)
			f32, e32 := strconv.ParseFloat(s, 32)
			if e64 == nil || e32 == nil {
				fs = append(fs, fmt.Sprintf("(%s, (%s, %s))", codecgen.BytesTerm(s), opt(f64, e64, false), opt(f32, e32, true)))
			}
		}
		if !seenT[s] {
			seenT[s] = true
			if tm, err := time.Parse(time.RFC3339, s); err == nil {
				ts = append(ts, fmt.Sprintf("(%s, ((%d)%%Z, (%d)%%Z))", codecgen.BytesTerm(s), tm.Unix(), tm.Nanosecond()))
			}
		}
	}
	walk = func(n *jnode) {
		switch n.kind {
		case 'N', 's':
			add(n.s)
		case 'a':
			for _, it := range n.items {
				walk(it)
			}
		case 'o':
			for _, v := range n.vals {
				walk(v)
			}
		}
	}
	walk(root)
	return "[" + strings.Join(fs, "; ") + "]", "[" + strings.Join(ts, "; ") + "]"
}

// canonPrint re-prints a JSON text the way the model's printer does (JsonPrint.print: no white
// space, escapes as appendString writes them, number literals as written); a text the strict
// reader rejects is returned unchanged.
func canonPrint(doc []byte) []byte {
	n, err := parseStrict(doc)
	if err != nil {
		return doc
	}
	var out []byte
	printNode(&out, n)
	return out
}

func printStr(out *[]byte, s string) {
	*out = append(*out, '"')
	for i := 0; i < len(s); i++ {
		c := s[i]
		switch {
		case c == '"':
			*out = append(*out, '\\', '"')
		case c == '\\':
			*out = append(*out, '\\', '\\')
		case c == '\b':
			*out = append(*out, '\\', 'b')
		case c == '\f':
			*out = append(*out, '\\', 'f')
		case c == '\n':
			*out = append(*out, '\\', 'n')
		case c == '\r':
			*out = append(*out, '\\', 'r')
		case c == '\t':
			*out = append(*out, '\\', 't')
		case c < 0x20:
			*out = append(*out, []byte(fmt.Sprintf("\\u%04x", c))...)
		default:
			*out = append(*out, c)
		}
	}
	*out = append(*out, '"')
}

func printNode(out *[]byte, n *jnode) {
	switch n.kind {
	case 'n':
		*out = append(*out, "null"...)
	case 'b':
		if n.b {
			*out = append(*out, "true"...)
		} else {
			*out = append(*out, "false"...)
		}
	case 'N':
		*out = append(*out, n.s...)
	case 's':
		printStr(out, n.s)
	case 'a':
		*out = append(*out, '[')
		for i, it := range n.items {
			if i > 0 {
				*out = append(*out, ',')
			}
			printNode(out, it)
		}
		*out = append(*out, ']')
	case 'o':
		*out = append(*out, '{')
		for i, k := range n.keys {
			if i > 0 {
				*out = append(*out, ',')
			}
			printStr(out, k)
			*out = append(*out, ':')
			printNode(out, n.vals[i])
		}
		*out = append(*out, '}')
	}
}

// sigSuffix marks every failure of an extended-domain case with a suffix of its own
type sigSuffix struct {
	*vh.Result
	suffix string
}

func (s *sigSuffix) Fail(f vh.Failure) {
	f.Sig += s.suffix
	s.Result.Fail(f)
}

// recheckPrevRT decodes the un-copied document of the previous round-trip case after a later encode.
func (er *encRun) recheckPrevRT() {
	p := er.prevRT
	er.prevRT = nil
	if p == nil {
		return
	}
	er.res.Count("sequence_rechecked_after_later_encode")
	c := theCodec
	if hasPBAny(p.m) {
		c = anyCodec
	}
	back := p.t.New()
	err, pan := decodeMsg(c, p.raw, back)
	got := ""
	switch {
	case pan != nil:
		got = fmt.Sprintf("panic %v", pan)
	case err != nil:
		got = err.Error()
	default:
		a, b := cloneMsg(p.m), cloneMsg(back)
		dropEmptyFlattened(a, p.flat)
		dropEmptyFlattened(b, p.flat)
		got = equalModulo(a, b, "$")
	}
	if got != "" {
		er.res.Fail(vh.Failure{Case: p.caseNo, Stream: p.stream, Sig: "C01 document returned by an earlier encode no longer decodes to its message after a later encode" + p.suffix,
			Clause: "decode(encode m) equals m (the document is the caller's: a later encode must not change it)", Input: p.in, Got: got + " via " + short(p.raw)})
	}
}

package main

import (
	"fmt"
	"math"
	"sort"
	"strconv"
	"strings"
	"time"
	"unicode/utf8"

	"github.com/pentops/j5/gen/test/schema/v1/schema_testpb"
	"github.com/pentops/j5/lib/j5codec"
	"google.golang.org/protobuf/proto"
	"google.golang.org/protobuf/reflect/protoreflect"
	"google.golang.org/protobuf/reflect/protoregistry"

	"verifharness/codecgen"
	"verifharness/vh"
)

// target is one root message type with the environment the real reflector derives for it.
type target struct {
	Name string // Coq identifier of its env
	New  func() protoreflect.Message
	Env  *codecgen.Env
}

// inTheoremShape: the static hypotheses of the round-trip theorem (CodecEncDecProofs.props_ok) hold
// for every environment the reflector builds EXCEPT when a oneof property that lives in a sub-message
// (non-empty proto path: the exposed oneof of a flattened object) shares that sub-message with other
// hoisted leaves, i.e. its path is a proper prefix of another property's path. The Go side states the
// expectation from this one shape; the Coq side evaluates the full decider env_static_ok and the two
// must agree (so any other way of falling outside the hypotheses alarms).
func inTheoremShape(env *codecgen.Env) bool {
	for _, s := range env.Schemas {
		for _, p := range s.Props {
			if p.Ty == nil || p.Ty.Class != "oneof" || len(p.Path) == 0 {
				continue
			}
			for _, q := range s.Props {
				if q == p || len(q.Path) <= len(p.Path) {
					continue
				}
				pre := true
				for i := range p.Path {
					if q.Path[i] != p.Path[i] {
						pre = false
					}
				}
				if pre {
					return false
				}
			}
		}
	}
	return true
}

// sharedHolder: p is a oneof property living in a sub-message (non-empty proto path) that other
// properties of the same list live in too (its path is a proper prefix of theirs): the exposed oneof of
// a flattened object. Mirrors CodecSharedHolder.shared_holder_b.
func sharedHolder(s *codecgen.Schema, p *codecgen.Prop) bool {
	if p.Ty == nil || p.Ty.Class != "oneof" || len(p.Path) == 0 {
		return false
	}
	for _, q := range s.Props {
		if q == p || len(q.Path) <= len(p.Path) {
			continue
		}
		pre := true
		for i := range p.Path {
			if q.Path[i] != p.Path[i] {
				pre = false
			}
		}
		if pre {
			return true
		}
	}
	return false
}

// holderWithoutMember reports whether somewhere in m (walked along env from schema name) a
// shared-holder oneof has its holder message present while none of its members is populated: the codec
// writes "x":{} there, which the hoisted view of the schema (an exposed oneof of the parent, omitted
// when no member is set) does not describe. Any payloads are not entered (another environment).
func holderWithoutMember(env *codecgen.Env, name string, m protoreflect.Message) bool {
	s := env.Lookup(name)
	if s == nil {
		return false
	}
	var inTy func(t *codecgen.Ty, fd protoreflect.FieldDescriptor, v protoreflect.Value) bool
	single := func(t *codecgen.Ty, v protoreflect.Value) bool {
		if t == nil || (t.Class != "object" && t.Class != "oneof") {
			return false
		}
		return holderWithoutMember(env, t.Ref, v.Message())
	}
	inTy = func(t *codecgen.Ty, fd protoreflect.FieldDescriptor, v protoreflect.Value) bool {
		if t == nil {
			return false
		}
		switch t.Class {
		case "object", "oneof":
			return single(t, v)
		case "array":
			for i := 0; i < v.List().Len(); i++ {
				if single(t.Item, v.List().Get(i)) {
					return true
				}
			}
		case "map":
			found := false
			v.Map().Range(func(_ protoreflect.MapKey, mv protoreflect.Value) bool {
				if single(t.Item, mv) {
					found = true
				}
				return !found
			})
			return found
		}
		return false
	}
	for _, p := range s.Props {
		if len(p.Path) == 0 { // exposed oneof of this message: members live in m itself
			if p.Ty != nil && p.Ty.Class == "oneof" && holderWithoutMember(env, p.Ty.Ref, m) {
				return true
			}
			continue
		}
		fd, v, ok := propValue(p, m)
		if !ok {
			continue
		}
		if sharedHolder(s, p) {
			any := false
			if os := env.Lookup(p.Ty.Ref); os != nil {
				for _, q := range os.Props {
					if _, _, set := propValue(q, v.Message()); set {
						any = true
					}
				}
			}
			if !any {
				return true
			}
		}
		if inTy(p.Ty, fd, v) {
			return true
		}
	}
	return false
}

// loadTargets: the fixed roots, then the randomly generated schemas of this run (generated = the
// targets from index nFixed on).
func loadTargets(cfg *vh.Config, res *vh.Result) (ts []*target, nFixed int, err error) {
	fixed, err := loadFixedTargets()
	if err != nil {
		return nil, 0, err
	}
	st := &genSchemaStats{}
	gen := randomTargets(cfg.R.Fork("schemas"), cfg.Scale(3, 14), cfg.Scale(3, 14), st)
	res.Distribution["gen_j5s_packages"] = st.j5sFiles
	res.Distribution["gen_j5s_compile_errors"] = st.j5sCompileErr
	res.Distribution["gen_descriptor_files"] = st.descFiles
	res.Distribution["gen_descriptor_link_errors"] = st.descLinkErr
	res.Distribution["gen_schema_roots"] = st.roots
	res.Distribution["gen_schema_roots_refused_by_reflector"] = st.refused
	for _, e := range st.firstErr {
		res.Notes = append(res.Notes, "generated schema not usable: "+e)
	}
	return append(fixed, gen...), len(fixed), nil
}

func loadFixedTargets() ([]*target, error) {
	mk := func(name string, m proto.Message) *target {
		return &target{Name: name, New: func() protoreflect.Message { return m.ProtoReflect().New() }}
	}
	ts := []*target{
		mk("env_full", &schema_testpb.FullSchema{}),
		mk("env_wrapped", &schema_testpb.WrappedOneof{}),
		mk("env_nested", &schema_testpb.NestedExposed{}),
		mk("env_implicit", &schema_testpb.ImplicitOneof{}),
		mk("env_bar", &schema_testpb.Bar{}),
	}
	dyn, err := dynamicTargets()
	if err != nil {
		return nil, err
	}
	ts = append(ts, dyn...)
	for _, t := range ts {
		env, err := codecgen.BuildEnv(t.New().Descriptor())
		if err != nil {
			return nil, fmt.Errorf("%s: %w", t.Name, err)
		}
		if len(env.Problems) > 0 {
			return nil, fmt.Errorf("%s: %v", t.Name, env.Problems)
		}
		t.Env = env
	}
	return ts, nil
}

// byte strings of the cases files are written packed (lib/Pack.v): Coq reads them several times faster
// and long documents no longer overflow coqc's stack
func init() {
	codecgen.Packed = true
	// the process's local time zone is not UTC: "timestamps as RFC3339 in UTC" must hold whatever
	// time.Local is (time.Unix returns local times)
	time.Local = time.FixedZone("VERIF+1030", 10*3600+1800)
}

func envHeader(ts []*target) string {
	var sb strings.Builder
	sb.WriteString("From Coq Require Import String List NArith ZArith.\nFrom Coq Require Import Uint63.\nFrom J5V.lib Require Import Json Pack.\nFrom J5V.model Require Import CodecTypes CodecEnc CodecEnvDerive CodecEncCorr.\nImport ListNotations.\nLocal Open Scope N_scope.\n")
	for _, t := range ts {
		fmt.Fprintf(&sb, "Definition %s : env := %s.\n", t.Name, t.Env.Coq())
	}
	return sb.String()
}

// the resolver sees the generated test types and the dynamic ones
var resolver = func() *protoregistry.Types { return protoregistry.GlobalTypes }()

var theCodec = j5codec.NewCodec()
var anyCodec = j5codec.NewCodec(j5codec.WithProtoToAny())

type encObs struct {
	Kind  string // ok err panic
	Out   []byte
	Err   string
	Panic string
}

func encodeMsg(c *j5codec.Codec, m protoreflect.Message) (o encObs) {
	defer func() {
		if r := recover(); r != nil {
			o = encObs{Kind: "panic", Panic: fmt.Sprint(r)}
		}
	}()
	out, err := c.ProtoToJSON(m)
	if err != nil {
		return encObs{Kind: "err", Err: err.Error()}
	}
	return encObs{Kind: "ok", Out: out}
}

func decodeMsg(c *j5codec.Codec, doc []byte, into protoreflect.Message) (err error, panicked any) {
	defer func() {
		if r := recover(); r != nil {
			panicked = r
		}
	}()
	return c.JSONToProto(doc, into), nil
}

// ---------------------------------------------------------------- message -> Coq term (raw: j5_json kept byte for byte)

func msgTerm(m protoreflect.Message) string {
	type fv struct {
		fd protoreflect.FieldDescriptor
		v  protoreflect.Value
	}
	var fs []fv
	m.Range(func(fd protoreflect.FieldDescriptor, v protoreflect.Value) bool {
		fs = append(fs, fv{fd, v})
		return true
	})
	sort.Slice(fs, func(i, j int) bool { return fs[i].fd.Number() < fs[j].fd.Number() })
	var parts []string
	for _, f := range fs {
		parts = append(parts, fmt.Sprintf("(%d, %s)", f.fd.Number(), fieldTerm(f.fd, f.v)))
	}
	return "[" + strings.Join(parts, "; ") + "]"
}

func fieldTerm(fd protoreflect.FieldDescriptor, v protoreflect.Value) string {
	switch {
	case fd.IsList():
		l := v.List()
		var parts []string
		for i := 0; i < l.Len(); i++ {
			parts = append(parts, singleTerm(fd, l.Get(i)))
		}
		return "VList [" + strings.Join(parts, "; ") + "]"
	case fd.IsMap():
		type kv struct {
			k string
			v protoreflect.Value
		}
		var kvs []kv
		v.Map().Range(func(k protoreflect.MapKey, v protoreflect.Value) bool {
			kvs = append(kvs, kv{k.String(), v})
			return true
		})
		sort.Slice(kvs, func(i, j int) bool { return kvs[i].k < kvs[j].k })
		var parts []string
		for _, e := range kvs {
			parts = append(parts, fmt.Sprintf("(%s, %s)", codecgen.BytesTerm(e.k), singleTerm(fd.MapValue(), e.v)))
		}
		return "VMap [" + strings.Join(parts, "; ") + "]"
	}
	return singleTerm(fd, v)
}

func singleTerm(fd protoreflect.FieldDescriptor, v protoreflect.Value) string {
	switch fd.Kind() {
	case protoreflect.BoolKind:
		return "VBool " + vh.BoolTerm(v.Bool())
	case protoreflect.Int32Kind, protoreflect.Sint32Kind, protoreflect.Sfixed32Kind,
		protoreflect.Int64Kind, protoreflect.Sint64Kind, protoreflect.Sfixed64Kind:
		return fmt.Sprintf("VInt (%d)%%Z", v.Int())
	case protoreflect.Uint32Kind, protoreflect.Fixed32Kind, protoreflect.Uint64Kind, protoreflect.Fixed64Kind:
		return fmt.Sprintf("VInt (%d)%%Z", v.Uint())
	case protoreflect.FloatKind:
		return fmt.Sprintf("VFloat %d", math.Float32bits(float32(v.Float())))
	case protoreflect.DoubleKind:
		return fmt.Sprintf("VFloat %d", math.Float64bits(v.Float()))
	case protoreflect.StringKind:
		return "VStr " + codecgen.BytesTerm(v.String())
	case protoreflect.BytesKind:
		return "VBytes " + codecgen.BytesTerm(string(v.Bytes()))
	case protoreflect.EnumKind:
		return fmt.Sprintf("VEnum (%d)%%Z", v.Enum())
	case protoreflect.MessageKind, protoreflect.GroupKind:
		return "VMsg " + msgTerm(v.Message())
	}
	return "?"
}

// ---------------------------------------------------------------- facts about a message the model needs as tables

type msgFacts struct {
	floats  map[string]string // "32:<bits>" / "64:<bits>" -> strconv text (finite only)
	inners  []innerRec
	maxMap  int // largest number of entries in any map
	nFields int
	depth   int
	kinds   map[string]int
}

type innerRec struct {
	tn, pb string
	out    []byte
	ok     bool
}

func collectFacts(m protoreflect.Message, f *msgFacts, depth int) {
	if depth > f.depth {
		f.depth = depth
	}
	name := m.Descriptor().FullName()
	switch name {
	case "google.protobuf.Any", "j5.types.any.v1.Any":
		var tn, pb string
		hasJSON := false
		if name == "google.protobuf.Any" {
			tn = strings.TrimPrefix(m.Get(m.Descriptor().Fields().ByName("type_url")).String(), "type.googleapis.com/")
			pb = string(m.Get(m.Descriptor().Fields().ByName("value")).Bytes())
		} else {
			tn = m.Get(m.Descriptor().Fields().ByName("type_name")).String()
			pb = string(m.Get(m.Descriptor().Fields().ByName("proto")).Bytes())
			hasJSON = m.Has(m.Descriptor().Fields().ByName("j5_json"))
		}
		if !hasJSON {
			rec := innerRec{tn: tn, pb: pb}
			if mt, err := resolver.FindMessageByName(protoreflect.FullName(tn)); err == nil {
				dst := mt.New()
				if err := proto.Unmarshal([]byte(pb), dst.Interface()); err == nil {
					o := encodeMsg(theCodec, dst)
					if o.Kind == "ok" {
						rec.ok, rec.out = true, o.Out
					}
				}
			}
			f.inners = append(f.inners, rec)
		}
		f.kinds["any"]++
		return
	}
	m.Range(func(fd protoreflect.FieldDescriptor, v protoreflect.Value) bool {
		f.nFields++
		one := func(fd protoreflect.FieldDescriptor, v protoreflect.Value) {
			switch fd.Kind() {
			case protoreflect.FloatKind:
				x := float32(v.Float())
				if !math.IsNaN(float64(x)) && !math.IsInf(float64(x), 0) {
					f.floats[fmt.Sprintf("true, %d", math.Float32bits(x))] = strconv.FormatFloat(float64(x), 'g', -1, 32)
				}
				f.kinds["float32"]++
			case protoreflect.DoubleKind:
				x := v.Float()
				if !math.IsNaN(x) && !math.IsInf(x, 0) {
					f.floats[fmt.Sprintf("false, %d", math.Float64bits(x))] = strconv.FormatFloat(x, 'g', -1, 64)
				}
				f.kinds["float64"]++
			case protoreflect.MessageKind:
				f.kinds[string(fd.Message().FullName())]++
				collectFacts(v.Message(), f, depth+1)
			default:
				f.kinds[fd.Kind().String()]++
			}
		}
		switch {
		case fd.IsList():
			f.kinds["list"]++
			for i := 0; i < v.List().Len(); i++ {
				one(fd, v.List().Get(i))
			}
		case fd.IsMap():
			f.kinds["map"]++
			if v.Map().Len() > f.maxMap {
				f.maxMap = v.Map().Len()
			}
			v.Map().Range(func(_ protoreflect.MapKey, mv protoreflect.Value) bool {
				one(fd.MapValue(), mv)
				return true
			})
		default:
			one(fd, v)
		}
		return true
	})
}

func (f *msgFacts) floatsTerm() string {
	keys := make([]string, 0, len(f.floats))
	for k := range f.floats {
		keys = append(keys, k)
	}
	sort.Strings(keys)
	var parts []string
	for _, k := range keys {
		parts = append(parts, fmt.Sprintf("(%s, %s)", k, codecgen.BytesTerm(f.floats[k])))
	}
	return "[" + strings.Join(parts, "; ") + "]"
}

func (f *msgFacts) innersTerm() string {
	var parts []string
	for _, r := range f.inners {
		o := "None"
		if r.ok {
			o = "(Some " + codecgen.BytesTerm(string(r.out)) + ")"
		}
		parts = append(parts, fmt.Sprintf("(%s, %s, %s)", codecgen.BytesTerm(r.tn), codecgen.BytesTerm(r.pb), o))
	}
	return "[" + strings.Join(parts, "; ") + "]"
}

func factsOf(m protoreflect.Message) *msgFacts {
	f := &msgFacts{floats: map[string]string{}, kinds: map[string]int{}}
	collectFacts(m, f, 1)
	return f
}

// ---------------------------------------------------------------- strict JSON reader (RFC 8259), independent of encoding/json

type jnode struct {
	kind  byte // n b N s a o
	b     bool
	s     string // number literal / decoded string
	items []*jnode
	keys  []string
	vals  []*jnode
}

type jparser struct {
	b   []byte
	pos int
}

func parseStrict(b []byte) (*jnode, error) {
	p := &jparser{b: b}
	p.ws()
	n, err := p.value(0)
	if err != nil {
		return nil, err
	}
	p.ws()
	if p.pos != len(p.b) {
		return nil, fmt.Errorf("trailing data at %d", p.pos)
	}
	return n, nil
}

func (p *jparser) ws() {
	for p.pos < len(p.b) && (p.b[p.pos] == ' ' || p.b[p.pos] == '\t' || p.b[p.pos] == '\n' || p.b[p.pos] == '\r') {
		p.pos++
	}
}

func (p *jparser) lit(s string) bool {
	if strings.HasPrefix(string(p.b[p.pos:]), s) {
		p.pos += len(s)
		return true
	}
	return false
}

func (p *jparser) value(depth int) (*jnode, error) {
	if depth > 10000 {
		return nil, fmt.Errorf("too deep")
	}
	if p.pos >= len(p.b) {
		return nil, fmt.Errorf("unexpected end")
	}
	switch c := p.b[p.pos]; {
	case c == '{':
		p.pos++
		n := &jnode{kind: 'o'}
		p.ws()
		if p.pos < len(p.b) && p.b[p.pos] == '}' {
			p.pos++
			return n, nil
		}
		for {
			p.ws()
			if p.pos >= len(p.b) || p.b[p.pos] != '"' {
				return nil, fmt.Errorf("expected member name at %d", p.pos)
			}
			k, err := p.str()
			if err != nil {
				return nil, err
			}
			p.ws()
			if p.pos >= len(p.b) || p.b[p.pos] != ':' {
				return nil, fmt.Errorf("expected ':' at %d", p.pos)
			}
			p.pos++
			p.ws()
			v, err := p.value(depth + 1)
			if err != nil {
				return nil, err
			}
			n.keys = append(n.keys, k)
			n.vals = append(n.vals, v)
			p.ws()
			if p.pos < len(p.b) && p.b[p.pos] == ',' {
				p.pos++
				continue
			}
			if p.pos < len(p.b) && p.b[p.pos] == '}' {
				p.pos++
				return n, nil
			}
			return nil, fmt.Errorf("expected ',' or '}' at %d", p.pos)
		}
	case c == '[':
		p.pos++
		n := &jnode{kind: 'a'}
		p.ws()
		if p.pos < len(p.b) && p.b[p.pos] == ']' {
			p.pos++
			return n, nil
		}
		for {
			p.ws()
			v, err := p.value(depth + 1)
			if err != nil {
				return nil, err
			}
			n.items = append(n.items, v)
			p.ws()
			if p.pos < len(p.b) && p.b[p.pos] == ',' {
				p.pos++
				continue
			}
			if p.pos < len(p.b) && p.b[p.pos] == ']' {
				p.pos++
				return n, nil
			}
			return nil, fmt.Errorf("expected ',' or ']' at %d", p.pos)
		}
	case c == '"':
		s, err := p.str()
		if err != nil {
			return nil, err
		}
		return &jnode{kind: 's', s: s}, nil
	case c == 't':
		if p.lit("true") {
			return &jnode{kind: 'b', b: true}, nil
		}
	case c == 'f':
		if p.lit("false") {
			return &jnode{kind: 'b'}, nil
		}
	case c == 'n':
		if p.lit("null") {
			return &jnode{kind: 'n'}, nil
		}
	case c == '-' || (c >= '0' && c <= '9'):
		start := p.pos
		if p.b[p.pos] == '-' {
			p.pos++
		}
		digits := func() int {
			n := 0
			for p.pos < len(p.b) && p.b[p.pos] >= '0' && p.b[p.pos] <= '9' {
				p.pos++
				n++
			}
			return n
		}
		if p.pos < len(p.b) && p.b[p.pos] == '0' {
			p.pos++
		} else if digits() == 0 {
			return nil, fmt.Errorf("bad number at %d", start)
		}
		if p.pos < len(p.b) && p.b[p.pos] == '.' {
			p.pos++
			if digits() == 0 {
				return nil, fmt.Errorf("bad fraction at %d", start)
			}
		}
		if p.pos < len(p.b) && (p.b[p.pos] == 'e' || p.b[p.pos] == 'E') {
			p.pos++
			if p.pos < len(p.b) && (p.b[p.pos] == '+' || p.b[p.pos] == '-') {
				p.pos++
			}
			if digits() == 0 {
				return nil, fmt.Errorf("bad exponent at %d", start)
			}
		}
		return &jnode{kind: 'N', s: string(p.b[start:p.pos])}, nil
	}
	return nil, fmt.Errorf("unexpected byte %q at %d", p.b[p.pos], p.pos)
}

func (p *jparser) str() (string, error) {
	p.pos++ // opening quote
	var out []byte
	for {
		if p.pos >= len(p.b) {
			return "", fmt.Errorf("unterminated string")
		}
		c := p.b[p.pos]
		switch {
		case c == '"':
			p.pos++
			return string(out), nil
		case c < 0x20:
			return "", fmt.Errorf("raw control character in string at %d", p.pos)
		case c == '\\':
			if p.pos+1 >= len(p.b) {
				return "", fmt.Errorf("bad escape")
			}
			e := p.b[p.pos+1]
			p.pos += 2
			switch e {
			case '"', '\\', '/':
				out = append(out, e)
			case 'b':
				out = append(out, 8)
			case 'f':
				out = append(out, 12)
			case 'n':
				out = append(out, 10)
			case 'r':
				out = append(out, 13)
			case 't':
				out = append(out, 9)
			case 'u':
				if p.pos+4 > len(p.b) {
					return "", fmt.Errorf("bad \\u escape")
				}
				u, err := strconv.ParseUint(string(p.b[p.pos:p.pos+4]), 16, 32)
				if err != nil {
					return "", fmt.Errorf("bad \\u escape")
				}
				p.pos += 4
				r := rune(u)
				if r >= 0xD800 && r < 0xDC00 && p.pos+6 <= len(p.b) && p.b[p.pos] == '\\' && p.b[p.pos+1] == 'u' {
					if u2, err := strconv.ParseUint(string(p.b[p.pos+2:p.pos+6]), 16, 32); err == nil && u2 >= 0xDC00 && u2 < 0xE000 {
						r = 0x10000 + (r-0xD800)<<10 + (rune(u2) - 0xDC00)
						p.pos += 6
					}
				}
				if r >= 0xD800 && r < 0xE000 {
					r = utf8.RuneError
				}
				out = utf8.AppendRune(out, r)
			default:
				return "", fmt.Errorf("bad escape \\%c", e)
			}
		case c < 0x80:
			out = append(out, c)
			p.pos++
		default:
			r, n := utf8.DecodeRune(p.b[p.pos:])
			if r == utf8.RuneError && n == 1 {
				return "", fmt.Errorf("invalid UTF-8 in string at %d", p.pos)
			}
			out = append(out, p.b[p.pos:p.pos+n]...)
			p.pos += n
		}
	}
}

func (n *jnode) member(k string) (*jnode, int) {
	var found *jnode
	cnt := 0
	for i, kk := range n.keys {
		if kk == k {
			cnt++
			if found == nil {
				found = n.vals[i]
			}
		}
	}
	return found, cnt
}

func short(b []byte) string {
	if len(b) > 300 {
		return fmt.Sprintf("%q...(%d bytes)", b[:300], len(b))
	}
	return fmt.Sprintf("%q", b)
}

func shortMsg(m protoreflect.Message) string {
	s := fmt.Sprint(m.Interface())
	if len(s) > 400 {
		s = s[:400] + "..."
	}
	return string(m.Descriptor().FullName()) + "{" + s + "}"
}

type emitter struct {
	cf     *vh.CasesFile
	res    *vh.Result
	caseNo int
	perShd int
}

func (e *emitter) add(term, stream string, input any, impl any) {
	e.cf.Terms = append(e.cf.Terms, term)
	e.res.Cases = append(e.res.Cases, vh.CaseRec{Case: e.caseNo, Stream: stream, Input: input, Impl: impl})
}

func (e *emitter) finish(cfg *vh.Config) error {
	shards, err := e.cf.WriteShards(cfg.Out, "cases", e.perShd)
	if err != nil {
		return err
	}
	for i := range e.res.Cases {
		e.res.Cases[i].Shard = fmt.Sprintf("cases_%d", i/e.perShd)
		e.res.Cases[i].Pos = i % e.perShd
	}
	e.res.Shards = shards
	return e.res.Write(cfg.Out)
}

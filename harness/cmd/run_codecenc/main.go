// run_codecenc: implementation runner for the encoder family (C08, C01).
package main

import "verifharness/vh"

func main() { vh.Main() }

package main

import (
	"verifharness/vh"
)

// libParsers: the reading halves of the scalar printers, each against the real Go function
// (filled in c01lib2.go once the Coq side is in place).
func libParsers(cfg *vh.Config, er *encRun) {}

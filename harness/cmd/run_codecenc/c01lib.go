package main

import (
	"encoding/base64"
	"encoding/json"
	"fmt"
	"math"
	"strconv"
	"strings"
	"time"

	"github.com/pentops/j5/gen/test/schema/v1/schema_testpb"
	"github.com/pentops/j5/j5types/date_j5t"

	"verifharness/codecgen"
	"verifharness/vh"
)

func optBytes(ok bool, b string) string {
	if !ok {
		return "None"
	}
	return "(Some " + codecgen.BytesTerm(b) + ")"
}

// decodeField decodes {"<name>": <json string of s>} into FullSchema with the real codec.
func decodeField(name, s string) (*schema_testpb.FullSchema, bool) {
	js, _ := json.Marshal(s)
	doc := fmt.Sprintf(`{"%s":%s}`, name, js)
	m := &schema_testpb.FullSchema{}
	err, pan := decodeMsg(theCodec, []byte(doc), m.ProtoReflect())
	return m, err == nil && pan == nil
}

// libParsers: the reading halves of the scalar printers, each against the real Go function,
// and the float round-trip law of strconv that the theorems assume.
func libParsers(cfg *vh.Config, er *encRun) {
	r := cfg.R
	res := er.res
	em := er.em
	g := &msgGen{r: r}
	add := func(term, stream string, in any) {
		em.cf.Terms = append(em.cf.Terms, term)
		res.Cases = append(res.Cases, vh.CaseRec{Case: em.caseNo, Stream: stream, Input: in})
		res.Count("lib_" + stream)
		em.caseNo++
	}
	// strconv.ParseInt(s, 10, 64)
	ints := []string{"", "+", "-", "0", "-0", "+0", "00", "007", "-007", "+5", "1_0", " 1", "1 ", "0x10", "1e3", "1.0", "9223372036854775807", "9223372036854775808", "-9223372036854775808", "-9223372036854775809", "99999999999999999999999", "١٢", "--1", "+-1", "12a"}
	for i := 0; i < cfg.Scale(120, 3000); i++ {
		v := g.int64In(math.MinInt64, math.MaxInt64)
		s := strconv.FormatInt(v, 10)
		switch r.Intn(6) {
		case 0:
			s = "+" + strings.TrimPrefix(s, "-")
		case 1:
			s = "000" + s
		case 2:
			s = s + string(rune('0'+r.Intn(10)))
		}
		ints = append(ints, s)
	}
	for _, s := range ints {
		v, err := strconv.ParseInt(s, 10, 64)
		t := "None"
		if err == nil {
			t = fmt.Sprintf("(Some (%d)%%Z)", v)
		}
		add(fmt.Sprintf("CParseInt %s %s", codecgen.BytesTerm(s), t), "parseint", s)
	}
	// byteValueFromString, through the bytes field
	var b64s []string
	for i := 0; i < cfg.Scale(60, 1500); i++ {
		b := r.Bytes(i % 23)
		if i > 46 {
			b = r.Bytes(r.Range(0, 60))
		}
		std := base64.StdEncoding.EncodeToString(b)
		b64s = append(b64s, std, base64.URLEncoding.EncodeToString(b), base64.RawStdEncoding.EncodeToString(b), base64.RawURLEncoding.EncodeToString(b))
		if len(std) > 2 {
			k := r.Intn(len(std))
			b64s = append(b64s, std[:k]+"\n"+std[k:], std[:k]+"\r\n"+std[k:], std[:k]+"*"+std[k:], std[:k]+"="+std[k:], std[:k], std+"=", std+"A", std+"\n", strings.TrimRight(std, "=")+"=")
		}
	}
	b64s = append(b64s, "", "=", "==", "===", "====", "A", "AA", "AAA", "A=", "A==", "AA=", "AA==", "AAA=", "AA=A", "AA==AA==", "-_-_", "+/+/", "\n", "AA\n==", "AA=\n=", "AA==\n\n", "AR==", "AAB=")
	for _, s := range b64s {
		m, ok := decodeField("sBytes", s)
		add(fmt.Sprintf("CB64Dec %s %s", codecgen.BytesTerm(s), optBytes(ok, string(m.SBytes))), "b64dec", s)
	}
	// time.Parse(time.RFC3339, s)
	tsg := &msgGen{r: r}
	var times []string
	for i := 0; i < cfg.Scale(150, 4000); i++ {
		m := (&schema_testpb.FullSchema{}).ProtoReflect()
		tm := m.NewField(m.Descriptor().Fields().ByName("ts")).Message()
		tsg.timestamp(tm)
		sec := tm.Get(tm.Descriptor().Fields().ByName("seconds")).Int()
		ns := tm.Get(tm.Descriptor().Fields().ByName("nanos")).Int()
		t := time.Unix(sec, ns).In(time.UTC)
		times = append(times, t.Format(time.RFC3339Nano))
		switch r.Intn(6) {
		case 0:
			times = append(times, t.In(time.FixedZone("", r.Range(-14*60, 14*60)*60)).Format(time.RFC3339Nano))
		case 1:
			times = append(times, t.Format("2006-01-02T15:04:05.000000000000Z07:00"))
		case 2:
			times = append(times, strings.Replace(t.Format(time.RFC3339Nano), "T", vh.Pick(r, []string{" ", "t", "_"}), 1))
		case 3:
			s := t.Format(time.RFC3339Nano)
			k := r.Intn(len(s))
			times = append(times, s[:k]+vh.Pick(r, []string{"", "0", "9", ":", "-", "Z", "+"})+s[k+1:])
		}
	}
	times = append(times, "", "2020-01-01T00:00:00Z", "2020-02-30T00:00:00Z", "2020-01-01T24:00:00Z", "2020-01-01T00:00:60Z", "2020-01-01T00:00:00", "2020-01-01T00:00:00,5Z", "0000-01-01T00:00:00Z", "10000-01-01T00:00:00Z", "2020-01-01T00:00:00.Z", "2020-01-01T00:00:00z", "2021-02-29T00:00:00Z", "2020-01-01T00:00:00+24:00", "2020-01-01T00:00:00+23:60", "2020-01-01T00:00:00+0000", "2020-13-01T00:00:00Z", "2020-00-10T00:00:00Z")
	for _, s := range times {
		t, err := time.Parse(time.RFC3339, s)
		term := "None"
		if err == nil {
			term = fmt.Sprintf("(Some ((%d)%%Z, (%d)%%Z))", t.Unix(), t.Nanosecond())
		}
		add(fmt.Sprintf("CTimeParse %s %s", codecgen.BytesTerm(s), term), "timeparse", s)
	}
	// DateFromString
	dates := []string{"", "2024-01-02", "2024-13-45", "2024-1-2", "+2024-+1-+2", "-2024-01-02", "2024-01", "2024-01-02-03", "0000-01-01", "0-1-1", "9999-12-31", "10000-01-01", "2023-02-29", "2024-02-29", "1900-02-29", "2000-02-29", "2024-04-31", "2024-00-10", "2024-01-00", "a-b-c", " 999-01-01", "0999-01-01", "99999999999999999999-1-1", "4294967297-1-1"}
	for i := 0; i < cfg.Scale(100, 3000); i++ {
		tsg.wide = i%3 == 0
		d := &date_j5t.Date{}
		tsg.date(d.ProtoReflect())
		dates = append(dates, d.DateString(), fmt.Sprintf("%d-%d-%d", d.Year, d.Month, d.Day))
	}
	for _, s := range dates {
		d, err := date_j5t.DateFromString(s)
		term := "None"
		if err == nil {
			term = fmt.Sprintf("(Some ((%d)%%Z, (%d)%%Z, (%d)%%Z))", d.Year, d.Month, d.Day)
		}
		add(fmt.Sprintf("CDateParse %s %s", codecgen.BytesTerm(s), term), "dateparse", s)
	}
	// decimalFromString, through the decimal field
	decs := append([]string{}, decimalPool...)
	decs = append(decs, "", "abc", "1.2.3", "1e", "e5", "--1", "NaN", "1,5", " 1", "1e1000", "1e1001", "1e-1000", "1e-1001", "0.000e5", "-", "+", ".", "-.5", "1e+", "1E5E5", "1e99999999999", "١", "0x10", "1_000", "123456789012345678", "1234567890123456789", "12345678901234567890123", "-0.0", "-0e5", "000", "1.e3", ".e3")
	tsg.wide = true
	for i := 0; i < cfg.Scale(100, 3000); i++ {
		decs = append(decs, tsg.decimalText())
		if r.Chance(30) {
			decs = append(decs, fmt.Sprintf("%de%d", g.int64In(-1e9, 1e9), r.Range(-30, 30)))
		}
	}
	for _, s := range decs {
		m, ok := decodeField("decimal", s)
		val := ""
		if ok && m.Decimal != nil {
			val = m.Decimal.Value
		}
		add(fmt.Sprintf("CDecimal %s %s", codecgen.BytesTerm(s), optBytes(ok && m.Decimal != nil, val)), "decimal", s)
	}
	// strconv on the sub-domain where the float laws are PROVED of a model (model/CodecFloatInt.v):
	// integer-valued floats of magnitude < 10^5, both widths, both signs; plus neighbours outside the
	// sub-domain (non-integers, 10^5 and above), on which the model must answer None
	smallInts := []int64{0, 1, 2, 9, 10, 99, 100, 255, 256, 1023, 1024, 4095, 4096, 65535, 65536, 99999}
	for i := 0; i < cfg.Scale(50, 3000); i++ {
		smallInts = append(smallInts, int64(r.Intn(100000)))
	}
	for _, n := range smallInts {
		for _, neg := range []bool{false, true} {
			v := float64(n)
			if neg {
				v = math.Copysign(v, -1)
			}
			for _, is32 := range []bool{true, false} {
				var bits uint64
				bitSize := 64
				if is32 {
					bits, bitSize = uint64(math.Float32bits(float32(v))), 32
				} else {
					bits = math.Float64bits(v)
				}
				txt := strconv.FormatFloat(v, 'g', -1, bitSize)
				back, err := strconv.ParseFloat(txt, bitSize)
				backTerm := "None"
				if err == nil {
					if is32 {
						backTerm = fmt.Sprintf("(Some %d)", math.Float32bits(float32(back)))
					} else {
						backTerm = fmt.Sprintf("(Some %d)", math.Float64bits(back))
					}
				}
				add(fmt.Sprintf("CFloatInt %s %d %s %s", vh.BoolTerm(is32), bits, codecgen.BytesTerm(txt), backTerm), "floatint", txt)
			}
		}
	}
	for _, v := range []float64{0.5, 1.5, -2.25, 100000, 100001, 999999, 1e6, 1e21, 123456.5, 5e-324, math.MaxFloat32, math.MaxFloat64} {
		for _, is32 := range []bool{true, false} {
			var bits uint64
			fv := v
			if is32 {
				fv = float64(float32(v))
				bits = uint64(math.Float32bits(float32(v)))
			} else {
				bits = math.Float64bits(v)
			}
			if fv == math.Trunc(fv) && math.Abs(fv) < 100000 {
				continue // rounds into the sub-domain at this width (5e-324 is 0 as a float32)
			}
			add(fmt.Sprintf("CFloatOut %s %d", vh.BoolTerm(is32), bits), "floatint", fmt.Sprint(v))
		}
	}
	// the float law the theorems assume: the text strconv prints reads back to the same float
	// (float32: read at 32 bits, as the decoder does), and it is a JSON number
	nf := cfg.Scale(20000, 2000000)
	for i := 0; i < nf; i++ {
		f := g.float64Val()
		if math.IsNaN(f) || math.IsInf(f, 0) {
			continue
		}
		s := strconv.FormatFloat(f, 'g', -1, 64)
		back, err := strconv.ParseFloat(s, 64)
		if err != nil || math.Float64bits(back) != math.Float64bits(f) || !reFloat.MatchString(s) {
			res.Fail(vh.Failure{Case: em.caseNo, Stream: "floatlaw", Sig: "C01 float64 text does not read back (strconv)", Clause: "assumed law parse_float (fmt_float f) = f", Input: fmt.Sprintf("%x", math.Float64bits(f)), Got: s})
		}
		f32 := g.float32Val()
		if f32 != f32 || math.IsInf(float64(f32), 0) {
			continue
		}
		s32 := strconv.FormatFloat(float64(f32), 'g', -1, 32)
		b32, err := strconv.ParseFloat(s32, 32)
		if err != nil || math.Float32bits(float32(b32)) != math.Float32bits(f32) || !reFloat.MatchString(s32) {
			res.Fail(vh.Failure{Case: em.caseNo, Stream: "floatlaw", Sig: "C01 float32 text does not read back (strconv)", Clause: "assumed law parse_float (fmt_float f) = f", Input: fmt.Sprintf("%x", math.Float32bits(f32)), Got: s32})
		}
		res.Count("floatlaw_checked")
	}
}

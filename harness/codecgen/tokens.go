package codecgen

import (
	"bytes"
	"encoding/json"
	"fmt"
	"math"
	"sort"
	"strconv"
	"strings"
	"time"

	"github.com/shopspring/decimal"
)

func Float32Bits(f float32) uint32 { return math.Float32bits(f) }
func Float64Bits(f float64) uint64 { return math.Float64bits(f) }

// Tok is one encoding/json token as Decoder.Token (UseNumber) returns it.
type Tok struct {
	Kind string // null bool num str { } [ ]
	Bool bool
	Text string // num literal / unquoted string
}

func (t Tok) Coq() string {
	switch t.Kind {
	case "null":
		return "TNull"
	case "bool":
		return "TBool " + boolTerm(t.Bool)
	case "num":
		return "TNum " + BytesTerm(t.Text)
	case "str":
		return "TStr " + BytesTerm(t.Text)
	case "{":
		return "TOpenObj"
	case "}":
		return "TCloseObj"
	case "[":
		return "TOpenArr"
	case "]":
		return "TCloseArr"
	}
	return "?"
}

func TokensTerm(ts []Tok) string {
	parts := make([]string, len(ts))
	for i, t := range ts {
		parts[i] = t.Coq()
	}
	return "[" + strings.Join(parts, "; ") + "]"
}

// Tokens runs the real tokenizer to its first failure. more is what More()
// answered immediately before the Token() call that failed.
func Tokens(doc []byte) (toks []Tok, more bool) {
	dec := json.NewDecoder(bytes.NewReader(doc))
	dec.UseNumber()
	for {
		m := dec.More()
		tok, err := dec.Token()
		if err != nil {
			return toks, m
		}
		switch v := tok.(type) {
		case nil:
			toks = append(toks, Tok{Kind: "null"})
		case bool:
			toks = append(toks, Tok{Kind: "bool", Bool: v})
		case json.Number:
			toks = append(toks, Tok{Kind: "num", Text: string(v)})
		case string:
			toks = append(toks, Tok{Kind: "str", Text: v})
		case json.Delim:
			toks = append(toks, Tok{Kind: string(rune(v))})
		default:
			panic(fmt.Sprintf("unexpected token %T", tok))
		}
	}
}

// Oracles are the results of the library functions the Coq model leaves
// uninterpreted, for every literal of a document on which they succeed.
type Oracles struct {
	Float   map[string][2]*uint64 // literal -> Float64bits(ParseFloat(s,64)), Float32bits(ParseFloat(s,32)); nil where ParseFloat fails
	Time    map[string][2]int64   // literal -> Unix seconds, nanosecond
	Decimal map[string]DecRes     // literal -> canonical String() and exponent
}

func NewOracles() *Oracles {
	return &Oracles{Float: map[string][2]*uint64{}, Time: map[string][2]int64{}, Decimal: map[string]DecRes{}}
}

// Add records what strconv.ParseFloat / time.Parse / decimal.NewFromString say about s.
func (o *Oracles) Add(s string, isString bool) {
	var fr [2]*uint64
	if f, err := strconv.ParseFloat(s, 64); err == nil {
		b := math.Float64bits(f)
		fr[0] = &b
	}
	if f, err := strconv.ParseFloat(s, 32); err == nil {
		b := uint64(math.Float32bits(float32(f)))
		fr[1] = &b
	}
	if fr[0] != nil || fr[1] != nil {
		o.Float[s] = fr
	}
	if d, err := safeDecimal(s); err == nil {
		o.Decimal[s] = d
	}
	if !isString {
		return
	}
	if t, err := time.Parse(time.RFC3339, s); err == nil {
		o.Time[s] = [2]int64{t.Unix(), int64(t.Nanosecond())}
	}
}

// DecRes is what decimal.NewFromString says: the exponent, and the canonical
// text when writing it out is affordable (String() expands the exponent).
type DecRes struct {
	Canon string
	Exp   int32
}

func safeDecimal(s string) (out DecRes, err error) {
	defer func() {
		if r := recover(); r != nil {
			err = fmt.Errorf("panic: %v", r)
		}
	}()
	d, err := decimal.NewFromString(s)
	if err != nil {
		return DecRes{}, err
	}
	out.Exp = d.Exponent()
	if out.Exp <= 5000 && out.Exp >= -5000 {
		out.Canon = d.String()
	}
	return out, nil
}

func (o *Oracles) AddTokens(ts []Tok) {
	for _, t := range ts {
		switch t.Kind {
		case "num":
			o.Add(t.Text, false)
		case "str":
			o.Add(t.Text, true)
		}
	}
}

func sortedKeys[V any](m map[string]V) []string {
	ks := make([]string, 0, len(m))
	for k := range m {
		ks = append(ks, k)
	}
	sort.Strings(ks)
	return ks
}

// Coq renders the three tables as terms: list (bytes * (N * N)), list (bytes * (Z * Z)), list (bytes * (bytes * Z)).
func (o *Oracles) Coq() (string, string, string) {
	var f, t, d []string
	for _, k := range sortedKeys(o.Float) {
		opt := func(p *uint64) string {
			if p == nil {
				return "None"
			}
			return fmt.Sprintf("Some %d", *p)
		}
		f = append(f, fmt.Sprintf("(%s, (%s, %s))", BytesTerm(k), opt(o.Float[k][0]), opt(o.Float[k][1])))
	}
	for _, k := range sortedKeys(o.Time) {
		t = append(t, fmt.Sprintf("(%s, ((%d)%%Z, (%d)%%Z))", BytesTerm(k), o.Time[k][0], o.Time[k][1]))
	}
	for _, k := range sortedKeys(o.Decimal) {
		d = append(d, fmt.Sprintf("(%s, (%s, (%d)%%Z))", BytesTerm(k), BytesTerm(o.Decimal[k].Canon), o.Decimal[k].Exp))
	}
	return "[" + strings.Join(f, "; ") + "]", "[" + strings.Join(t, "; ") + "]", "[" + strings.Join(d, "; ") + "]"
}

// CanonJSON re-prints a JSON text token by token in the form model/CodecDec.canon_json
// uses (no whitespace, minimal escapes, number literals as written).
func CanonJSON(doc []byte) string {
	toks, _ := Tokens(doc)
	var sb strings.Builder
	type frame struct{ obj bool }
	var stack []frame
	keyNext := false
	needSep := false
	for _, t := range toks {
		sep := ""
		if needSep {
			sep = ","
		}
		switch t.Kind {
		case "{":
			sb.WriteString(sep + "{")
			stack = append(stack, frame{true})
			keyNext, needSep = true, false
		case "[":
			sb.WriteString(sep + "[")
			stack = append(stack, frame{false})
			keyNext, needSep = false, false
		case "}", "]":
			sb.WriteString(t.Kind)
			if len(stack) > 0 {
				stack = stack[:len(stack)-1]
			}
			keyNext = len(stack) > 0 && stack[len(stack)-1].obj
			needSep = true
		default:
			var body string
			switch t.Kind {
			case "null":
				body = "null"
			case "bool":
				body = strconv.FormatBool(t.Bool)
			case "num":
				body = t.Text
			case "str":
				body = `"` + escapeCanon(t.Text) + `"`
			}
			if len(stack) > 0 && stack[len(stack)-1].obj {
				if keyNext {
					sb.WriteString(sep + body + ":")
					keyNext, needSep = false, false
				} else {
					sb.WriteString(body)
					keyNext, needSep = true, true
				}
			} else {
				sb.WriteString(sep + body)
				keyNext, needSep = false, true
			}
		}
	}
	return sb.String()
}

func escapeCanon(s string) string {
	var sb strings.Builder
	for i := 0; i < len(s); i++ {
		c := s[i]
		switch {
		case c == '"':
			sb.WriteString(`\"`)
		case c == '\\':
			sb.WriteString(`\\`)
		case c < 32:
			fmt.Fprintf(&sb, `\u00%x%x`, c/16, c%16)
		default:
			sb.WriteByte(c)
		}
	}
	return sb.String()
}

package codecgen

import (
	"encoding/base64"
	"fmt"
	"math"
	"math/big"
	"regexp"
	"sort"
	"strconv"
	"strings"
	"time"

	"google.golang.org/protobuf/reflect/protoreflect"
)

// An independent reading of what a document denotes for a schema: the property
// oracle of C03 ("every non-null member is stored with exactly the value it
// denotes ... or the document is rejected"). It shares no code with pentops/j5.
//
// For every scalar the reading is one of
//   must-accept  a documented spelling of a representable value
//   must-reject  not representable in the target field
//   either       outside the documented spellings; if the decoder accepts it,
//                the stored value must still be the denoted one
// and a document's verdict is the worst of its parts.

type Verdict int

const (
	MustAccept Verdict = iota
	Either
	MustReject
)

func (v Verdict) String() string { return [...]string{"must-accept", "either", "must-reject"}[v] }

// Exp is the expected message tree (same shape as CodecTypes.msg).
type Exp struct {
	Kind   string // int bool str bytes f32 f64 enum msg list map decimal
	Int    *big.Int
	Bool   bool
	Str    string
	Bits   uint64
	Fields map[int32]*Exp
	Items  []*Exp
	Keys   map[string]*Exp
	Dec    *big.Rat // decimal: compared numerically
}

// Reading is the outcome of interpreting a document.
type Reading struct {
	// Incomparable: some value could not be read independently (any values,
	// undocumented timestamp spellings): the message comparison is skipped
	Incomparable bool
	Verdict      Verdict
	Why          string // first reason for a non-accept verdict: fault class
	Where        string
	Msg          *Exp
}

type reader struct {
	incomparable bool
	env          *Env
	verdict      Verdict
	why          string
	where        string
}

func (r *reader) flag(v Verdict, where, why string) {
	if v > r.verdict {
		r.verdict, r.why, r.where = v, why, where
	}
}

// Read interprets tree j as a document for the root schema of env.
func Read(env *Env, j *J) Reading {
	r := &reader{env: env}
	root := env.Lookup(env.Root)
	m := &Exp{Kind: "msg", Fields: map[int32]*Exp{}}
	if j.K != "obj" {
		r.flag(MustReject, "root", "wrong JSON type")
	} else {
		r.container(root, j, m, "")
	}
	return Reading{r.incomparable, r.verdict, r.why, r.where, m}
}

func (r *reader) container(s *Schema, j *J, m *Exp, path string) {
	if s.Class == "oneof" {
		r.oneof(s, j, m, path)
		return
	}
	r.object(s, j, m, path)
}

func findProp(s *Schema, key string) *Prop {
	for _, p := range s.Props {
		if p.JSON == key {
			return p
		}
	}
	return nil
}

// holder walks the proto path creating intermediate messages; returns the message holding the final field.
func holder(m *Exp, path []int32) (*Exp, int32) {
	for _, n := range path[:len(path)-1] {
		sub := m.Fields[n]
		if sub == nil {
			sub = &Exp{Kind: "msg", Fields: map[int32]*Exp{}}
			m.Fields[n] = sub
		}
		m = sub
	}
	return m, path[len(path)-1]
}

func (r *reader) object(s *Schema, j *J, m *Exp, path string) {
	seen := map[string]bool{}
	for _, mem := range j.Members {
		where := path + "." + mem.Key
		p := findProp(s, mem.Key)
		if p == nil {
			r.flag(MustReject, where, "unknown key")
			continue
		}
		if mem.Val.K == "null" {
			continue
		}
		if seen[mem.Key] {
			r.flag(MustReject, where, "duplicate member")
			continue
		}
		seen[mem.Key] = true
		r.member(p, mem.Val, m, where)
	}
}

func (r *reader) member(p *Prop, v *J, m *Exp, where string) {
	if len(p.Path) == 0 {
		// exposed oneof: same message
		if v.K != "obj" {
			r.flag(MustReject, where, "wrong JSON type")
			return
		}
		r.oneof(r.env.Lookup(p.Ty.Ref), v, m, where)
		return
	}
	h, n := holder(m, p.Path)
	// members of one proto oneof exclude each other
	for _, sib := range p.Siblings {
		if _, ok := h.Fields[sib]; ok {
			r.flag(MustReject, where, "two members of one proto oneof")
		}
	}
	val := r.value(p.Ty, v, where)
	if val == nil {
		return
	}
	if !p.Explicit && isZero(val) {
		delete(h.Fields, n)
		return
	}
	if (val.Kind == "list" && len(val.Items) == 0) || (val.Kind == "map" && len(val.Keys) == 0) {
		return
	}
	h.Fields[n] = val
}

func isZero(e *Exp) bool {
	switch e.Kind {
	case "int", "enum":
		return e.Int.Sign() == 0
	case "bool":
		return !e.Bool
	case "str", "bytes":
		return e.Str == ""
	case "f32", "f64":
		return e.Bits == 0
	}
	return false
}

func (r *reader) oneof(s *Schema, j *J, m *Exp, path string) {
	var keys []*Member
	var typ *string
	for _, mem := range j.Members {
		if mem.Key == "!type" {
			if mem.Val.K != "str" {
				r.flag(MustReject, path+".!type", "wrong JSON type")
				continue
			}
			t := mem.Val.S
			typ = &t
			continue
		}
		keys = append(keys, mem)
	}
	for _, mem := range keys {
		if findProp(s, mem.Key) == nil {
			r.flag(MustReject, path+"."+mem.Key, "unknown key")
		}
	}
	if len(keys) > 1 {
		r.flag(MustReject, path, "more than one key in a oneof")
		return
	}
	if len(keys) == 0 {
		if typ != nil {
			p := findProp(s, *typ)
			if p == nil {
				r.flag(MustReject, path+".!type", "unknown key")
				return
			}
			// the type-only form selects the arm with an empty value where the arm is a message
			if len(p.Path) > 0 {
				switch p.Ty.Class {
				case "object", "oneof", "any":
					h, n := holder(m, p.Path)
					if h.Fields[n] == nil {
						h.Fields[n] = &Exp{Kind: "msg", Fields: map[int32]*Exp{}}
					}
				}
			}
		}
		return
	}
	mem := keys[0]
	p := findProp(s, mem.Key)
	if p == nil {
		return
	}
	if typ != nil && *typ != mem.Key {
		r.flag(MustReject, path, `"!type" contradicts the key present`)
	}
	if mem.Val.K == "null" {
		return
	}
	r.member(p, mem.Val, m, path+"."+mem.Key)
}

func (r *reader) value(t *Ty, v *J, where string) *Exp {
	switch t.Class {
	case "scalar":
		return r.scalar(t.Kind, v, where)
	case "enum":
		if t.Unsupported != "" {
			r.flag(MustReject, where, "type without codec support")
			return nil
		}
		if v.K != "str" {
			r.flag(MustReject, where, "wrong JSON type")
			return nil
		}
		s := r.env.Lookup(t.Ref)
		// the short name as written takes precedence over a prefixed reading (a short name may itself begin
		// with the prefix), whatever the declaration order
		for _, o := range s.Options {
			if v.S == o.Name {
				return &Exp{Kind: "enum", Int: big.NewInt(int64(o.Number))}
			}
		}
		for _, o := range s.Options {
			if v.S == s.Prefix+o.Name {
				return &Exp{Kind: "enum", Int: big.NewInt(int64(o.Number))}
			}
		}
		r.flag(MustReject, where, "unknown enum name")
		return nil
	case "object", "oneof":
		if v.K != "obj" {
			r.flag(MustReject, where, "wrong JSON type")
			return nil
		}
		m := &Exp{Kind: "msg", Fields: map[int32]*Exp{}}
		r.container(r.env.Lookup(t.Ref), v, m, where)
		return m
	case "array":
		if v.K != "arr" {
			r.flag(MustReject, where, "wrong JSON type")
			return nil
		}
		l := &Exp{Kind: "list"}
		for i, it := range v.Items {
			w := fmt.Sprintf("%s[%d]", where, i)
			if it.K == "null" {
				r.flag(MustReject, w, "wrong JSON type")
				continue
			}
			if e := r.value(t.Item, it, w); e != nil {
				l.Items = append(l.Items, e)
			}
		}
		return l
	case "map":
		if v.K != "obj" {
			r.flag(MustReject, where, "wrong JSON type")
			return nil
		}
		mp := &Exp{Kind: "map", Keys: map[string]*Exp{}}
		for _, mem := range v.Members {
			w := where + "{" + mem.Key + "}"
			if mem.Val.K == "null" {
				r.flag(MustReject, w, "wrong JSON type")
				continue
			}
			if _, dup := mp.Keys[mem.Key]; dup {
				r.flag(MustReject, w, "duplicate map key")
				continue
			}
			if e := r.value(t.Item, mem.Val, w); e != nil {
				mp.Keys[mem.Key] = e
			}
		}
		return mp
	case "any":
		// any values are outside this reading: whatever happens is accepted
		r.flag(Either, where, "any value")
		r.incomparable = true
		return nil
	}
	return nil
}

var intRe = regexp.MustCompile(`^-?(0|[1-9][0-9]*)$`)
var numRe = regexp.MustCompile(`^-?(0|[1-9][0-9]*)(\.[0-9]+)?([eE][+-]?[0-9]+)?$`)
var decimalRe = regexp.MustCompile(`^-?[0-9]+(\.[0-9]+)?$`)
var dateRe = regexp.MustCompile(`^([0-9]{4})-([0-9]{2})-([0-9]{2})$`)
var rfc3339Re = regexp.MustCompile(`^([0-9]{4})-([0-9]{2})-([0-9]{2})T([0-9]{2}):([0-9]{2}):([0-9]{2})(\.[0-9]+)?(Z|[+-][0-9]{2}:[0-9]{2})$`)

// ratOf reads a JSON number literal exactly; ok=false when the exponent is absurd.
func ratOf(lit string) (*big.Rat, bool) {
	if i := strings.IndexAny(lit, "eE"); i >= 0 {
		e, err := strconv.Atoi(lit[i+1:])
		if err != nil || e > 5000 || e < -5000 {
			return nil, false
		}
	}
	x, ok := new(big.Rat).SetString(lit)
	return x, ok
}

var intBounds = map[Kind][2]*big.Int{
	"KInt32":  {big.NewInt(math.MinInt32), big.NewInt(math.MaxInt32)},
	"KInt64":  {big.NewInt(math.MinInt64), big.NewInt(math.MaxInt64)},
	"KUint32": {big.NewInt(0), big.NewInt(math.MaxUint32)},
	"KUint64": {big.NewInt(0), new(big.Int).SetUint64(math.MaxUint64)},
}

func (r *reader) scalar(k Kind, v *J, where string) *Exp {
	wrong := func() *Exp { r.flag(MustReject, where, "wrong JSON type"); return nil }
	switch k {
	case "KString", "KKey":
		if v.K != "str" {
			return wrong()
		}
		return &Exp{Kind: "str", Str: v.S}
	case "KBool":
		if v.K != "bool" {
			return wrong()
		}
		return &Exp{Kind: "bool", Bool: v.B}
	case "KInt32", "KInt64", "KUint32", "KUint64":
		if v.K != "num" && v.K != "str" {
			return wrong()
		}
		lit := v.S
		if !numRe.MatchString(lit) {
			// not a number at all; a leading '+' or spaces are outside the documented spellings
			t := strings.TrimSpace(strings.TrimPrefix(strings.TrimSpace(lit), "+"))
			if regexp.MustCompile(`^-?[0-9]+$`).MatchString(t) {
				// leading zeros, a sign, surrounding blanks: digits that denote an integer, undocumented
				t = regexp.MustCompile(`^(-?)0+([0-9])`).ReplaceAllString(t, "$1$2")
			}
			if intRe.MatchString(t) && t != "" {
				n, _ := new(big.Int).SetString(t, 10)
				if n.Cmp(intBounds[k][0]) >= 0 && n.Cmp(intBounds[k][1]) <= 0 {
					r.flag(Either, where, "undocumented integer spelling")
					return &Exp{Kind: "int", Int: n}
				}
			}
			r.flag(MustReject, where, "unparsable number")
			return nil
		}
		x, ok := ratOf(lit)
		if !ok {
			r.flag(MustReject, where, "out-of-range number")
			return nil
		}
		if !x.IsInt() {
			r.flag(MustReject, where, "unparsable number")
			return nil
		}
		n := new(big.Int).Set(x.Num())
		if n.Cmp(intBounds[k][0]) < 0 || n.Cmp(intBounds[k][1]) > 0 {
			r.flag(MustReject, where, "out-of-range number")
			return nil
		}
		if !intRe.MatchString(lit) {
			r.flag(Either, where, "integer written with fraction or exponent")
		}
		if strings.HasPrefix(lit, "-") && n.Sign() == 0 && (k == "KUint32" || k == "KUint64") {
			r.flag(Either, where, "negative zero for an unsigned field")
		}
		return &Exp{Kind: "int", Int: n}
	case "KFloat32", "KFloat64":
		if v.K != "num" && v.K != "str" {
			return wrong()
		}
		if !numRe.MatchString(v.S) {
			if _, err := strconv.ParseFloat(v.S, 64); err == nil {
				r.flag(Either, where, "undocumented float spelling")
				// value check skipped for Inf/NaN/hex spellings
				return r.floatOf(k, v.S, where)
			}
			r.flag(MustReject, where, "unparsable number")
			return nil
		}
		return r.floatOf(k, v.S, where)
	case "KBytes":
		if v.K != "str" {
			return wrong()
		}
		var got []byte
		okAny := false
		for _, enc := range []*base64.Encoding{base64.StdEncoding, base64.RawStdEncoding, base64.URLEncoding, base64.RawURLEncoding} {
			if b, err := enc.Strict().DecodeString(v.S); err == nil && !strings.ContainsAny(v.S, "\r\n") {
				got, okAny = b, true
				break
			}
		}
		if okAny {
			return &Exp{Kind: "bytes", Str: string(got)}
		}
		// lenient reading: both alphabets mixed, non-canonical trailing bits, newlines
		clean := strings.NewReplacer("-", "+", "_", "/", "\r", "", "\n", "").Replace(v.S)
		clean = strings.TrimRight(clean, "=")
		if b, err := base64.RawStdEncoding.DecodeString(clean); err == nil {
			r.flag(Either, where, "undocumented base64 spelling")
			return &Exp{Kind: "bytes", Str: string(b)}
		}
		r.flag(MustReject, where, "invalid base64")
		return nil
	case "KDate":
		if v.K != "str" {
			return wrong()
		}
		mm := dateRe.FindStringSubmatch(v.S)
		var y, mo, d int
		if mm != nil {
			y, _ = strconv.Atoi(mm[1])
			mo, _ = strconv.Atoi(mm[2])
			d, _ = strconv.Atoi(mm[3])
		} else {
			parts := strings.Split(v.S, "-")
			if len(parts) != 3 {
				r.flag(MustReject, where, "invalid date")
				return nil
			}
			var errs [3]error
			y, errs[0] = strconv.Atoi(parts[0])
			mo, errs[1] = strconv.Atoi(parts[1])
			d, errs[2] = strconv.Atoi(parts[2])
			if errs[0] != nil || errs[1] != nil || errs[2] != nil || y < 0 || y > 9999 {
				r.flag(MustReject, where, "invalid date")
				return nil
			}
			r.flag(Either, where, "undocumented date spelling")
		}
		t := time.Date(y, time.Month(mo), d, 0, 0, 0, 0, time.UTC)
		if t.Year() != y || int(t.Month()) != mo || t.Day() != d {
			r.flag(MustReject, where, "invalid date")
			return nil
		}
		return wkt(map[int32]int64{1: int64(y), 2: int64(mo), 3: int64(d)})
	case "KDecimal":
		if v.K != "num" && v.K != "str" {
			return wrong()
		}
		if decimalRe.MatchString(v.S) {
			x, _ := new(big.Rat).SetString(v.S)
			return &Exp{Kind: "decimal", Dec: x}
		}
		if numRe.MatchString(v.S) || regexp.MustCompile(`^[+-]?([0-9]+\.?[0-9]*|\.[0-9]+)([eE][+-]?[0-9]+)?$`).MatchString(v.S) {
			if x, ok := ratOf(strings.TrimPrefix(v.S, "+")); ok {
				r.flag(Either, where, "undocumented decimal spelling")
				return &Exp{Kind: "decimal", Dec: x}
			}
			r.flag(Either, where, "decimal with a huge exponent")
			r.incomparable = true
			return nil
		}
		r.flag(MustReject, where, "invalid decimal")
		return nil
	case "KTimestamp":
		if v.K != "str" {
			return wrong()
		}
		mm := rfc3339Re.FindStringSubmatch(v.S)
		if mm == nil {
			if _, err := time.Parse(time.RFC3339, v.S); err == nil {
				r.flag(Either, where, "undocumented timestamp spelling")
				r.incomparable = true
				return nil
			}
			if regexp.MustCompile(`^[0-9]{4}-[0-9]{2}-[0-9]{2}[Tt ][0-9]{2}:[0-9]{2}:[0-9]{2}(\.[0-9]+)?([Zz]|[+-][0-9]{2}:[0-9]{2})$`).MatchString(v.S) {
				r.flag(Either, where, "RFC3339 with lower-case or space separator")
				r.incomparable = true
				return nil
			}
			r.flag(MustReject, where, "invalid timestamp")
			return nil
		}
		n := func(i int) int { x, _ := strconv.Atoi(mm[i]); return x }
		y, mo, d, h, mi, s := n(1), n(2), n(3), n(4), n(5), n(6)
		off := 0
		if mm[8] != "Z" {
			oh, _ := strconv.Atoi(mm[8][1:3])
			om, _ := strconv.Atoi(mm[8][4:6])
			if oh > 23 || om > 59 {
				r.flag(MustReject, where, "invalid timestamp")
				return nil
			}
			off = oh*3600 + om*60
			if mm[8][0] == '-' {
				off = -off
			}
		}
		t := time.Date(y, time.Month(mo), d, h, mi, s, 0, time.UTC)
		if t.Year() != y || int(t.Month()) != mo || t.Day() != d || h > 23 || mi > 59 || s > 59 {
			if s == 60 {
				r.flag(Either, where, "leap second")
				r.incomparable = true
				return nil
			}
			r.flag(MustReject, where, "invalid timestamp")
			return nil
		}
		nanos := int64(0)
		if mm[7] != "" {
			frac := mm[7][1:]
			if len(frac) > 9 {
				r.flag(Either, where, "more than nine fractional digits")
				frac = frac[:9]
			}
			for len(frac) < 9 {
				frac += "0"
			}
			nanos, _ = strconv.ParseInt(frac, 10, 64)
		}
		secs := t.Unix() - int64(off)
		return wkt(map[int32]int64{1: secs, 2: nanos})
	}
	return nil
}

func wkt(fs map[int32]int64) *Exp {
	m := &Exp{Kind: "msg", Fields: map[int32]*Exp{}}
	for k, v := range fs {
		if v != 0 {
			m.Fields[k] = &Exp{Kind: "int", Int: big.NewInt(v)}
		}
	}
	return m
}

func (r *reader) floatOf(k Kind, lit string, where string) *Exp {
	if k == "KFloat64" {
		f, err := strconv.ParseFloat(lit, 64)
		if err != nil {
			r.flag(MustReject, where, "out-of-range number")
			return nil
		}
		return &Exp{Kind: "f64", Bits: math.Float64bits(f)}
	}
	f, err := strconv.ParseFloat(lit, 32)
	if err != nil {
		r.flag(MustReject, where, "out-of-range number")
		return nil
	}
	return &Exp{Kind: "f32", Bits: uint64(math.Float32bits(float32(f)))}
}

// Term renders the expectation in the format of MsgTerm.
func (e *Exp) Term() string {
	switch e.Kind {
	case "int":
		return fmt.Sprintf("VInt (%s)%%Z", e.Int.String())
	case "enum":
		return fmt.Sprintf("VEnum (%s)%%Z", e.Int.String())
	case "bool":
		return "VBool " + boolTerm(e.Bool)
	case "str":
		return "VStr " + BytesTerm(e.Str)
	case "bytes":
		return "VBytes " + BytesTerm(e.Str)
	case "f32", "f64":
		return fmt.Sprintf("VFloat %d", e.Bits)
	case "decimal":
		return "VMsg [(1, VStr <decimal " + e.Dec.RatString() + ">)]"
	case "msg":
		return "VMsg " + e.FieldsTerm()
	case "list":
		parts := make([]string, len(e.Items))
		for i, it := range e.Items {
			parts[i] = it.Term()
		}
		return "VList [" + strings.Join(parts, "; ") + "]"
	case "map":
		ks := sortedKeys(e.Keys)
		parts := make([]string, len(ks))
		for i, k := range ks {
			parts[i] = fmt.Sprintf("(%s, %s)", BytesTerm(k), e.Keys[k].Term())
		}
		return "VMap [" + strings.Join(parts, "; ") + "]"
	}
	return "?"
}

func (e *Exp) FieldsTerm() string {
	var nums []int
	for n := range e.Fields {
		nums = append(nums, int(n))
	}
	sort.Ints(nums)
	parts := make([]string, len(nums))
	for i, n := range nums {
		parts[i] = fmt.Sprintf("(%d, %s)", n, e.Fields[int32(n)].Term())
	}
	return "[" + strings.Join(parts, "; ") + "]"
}

// Diff compares the expectation with a decoded message; "" when they agree,
// otherwise the path and nature of the first difference (ascending field numbers).
func Diff(e *Exp, m protoreflect.Message) string { return diffMsg(e, m, "") }

func diffMsg(e *Exp, m protoreflect.Message, path string) string {
	seen := map[int32]bool{}
	var nums []int
	for n := range e.Fields {
		nums = append(nums, int(n))
		seen[n] = true
	}
	m.Range(func(fd protoreflect.FieldDescriptor, v protoreflect.Value) bool {
		if !seen[int32(fd.Number())] {
			nums = append(nums, int(fd.Number()))
		}
		return true
	})
	sort.Ints(nums)
	fields := m.Descriptor().Fields()
	for _, n := range nums {
		fd := fields.ByNumber(protoreflect.FieldNumber(n))
		if fd == nil {
			return fmt.Sprintf("%s.%d: expected field does not exist in %s", path, n, m.Descriptor().FullName())
		}
		p := path + "." + string(fd.Name())
		ex := e.Fields[int32(n)]
		if ex == nil {
			return fmt.Sprintf("%s (%s): stored although the document does not denote it", p, kindOf(fd))
		}
		if !m.Has(fd) {
			return fmt.Sprintf("%s (%s): denoted by the document but not stored", p, kindOf(fd))
		}
		if d := diffField(ex, fd, m.Get(fd), p); d != "" {
			return d
		}
	}
	return ""
}

func kindOf(fd protoreflect.FieldDescriptor) string {
	k := fd.Kind().String()
	if fd.Message() != nil {
		k = string(fd.Message().FullName())
	}
	switch {
	case fd.IsList():
		return "repeated " + k
	case fd.IsMap():
		return "map of " + kindOfSingle(fd.MapValue())
	}
	return k
}

func kindOfSingle(fd protoreflect.FieldDescriptor) string {
	if fd.Message() != nil {
		return string(fd.Message().FullName())
	}
	return fd.Kind().String()
}

func diffField(e *Exp, fd protoreflect.FieldDescriptor, v protoreflect.Value, p string) string {
	switch {
	case fd.IsList():
		if e.Kind != "list" {
			return p + ": list stored, " + e.Kind + " denoted"
		}
		l := v.List()
		if l.Len() != len(e.Items) {
			return fmt.Sprintf("%s (%s): %d elements stored, %d denoted", p, kindOf(fd), l.Len(), len(e.Items))
		}
		for i, it := range e.Items {
			if d := diffSingle(it, fd, l.Get(i), fmt.Sprintf("%s[%d]", p, i)); d != "" {
				return d
			}
		}
		return ""
	case fd.IsMap():
		if e.Kind != "map" {
			return p + ": map stored, " + e.Kind + " denoted"
		}
		mp := v.Map()
		if mp.Len() != len(e.Keys) {
			return fmt.Sprintf("%s (%s): %d entries stored, %d denoted", p, kindOf(fd), mp.Len(), len(e.Keys))
		}
		for _, k := range sortedKeys(e.Keys) {
			mk := protoreflect.ValueOfString(k).MapKey()
			if !mp.Has(mk) {
				return fmt.Sprintf("%s{%q} (%s): denoted but not stored", p, k, kindOf(fd))
			}
			if d := diffSingle(e.Keys[k], fd.MapValue(), mp.Get(mk), fmt.Sprintf("%s{%q}", p, k)); d != "" {
				return d
			}
		}
		return ""
	}
	return diffSingle(e, fd, v, p)
}

func diffSingle(e *Exp, fd protoreflect.FieldDescriptor, v protoreflect.Value, p string) string {
	bad := func(got any) string {
		return fmt.Sprintf("%s (%s): stored %v, denoted %s", p, kindOfSingle(fd), got, e.Term())
	}
	switch fd.Kind() {
	case protoreflect.BoolKind:
		if e.Kind != "bool" || e.Bool != v.Bool() {
			return bad(v.Bool())
		}
	case protoreflect.Int32Kind, protoreflect.Sint32Kind, protoreflect.Sfixed32Kind, protoreflect.Int64Kind, protoreflect.Sint64Kind, protoreflect.Sfixed64Kind:
		if e.Kind != "int" || e.Int.Cmp(big.NewInt(v.Int())) != 0 {
			return bad(v.Int())
		}
	case protoreflect.Uint32Kind, protoreflect.Fixed32Kind, protoreflect.Uint64Kind, protoreflect.Fixed64Kind:
		if e.Kind != "int" || e.Int.Cmp(new(big.Int).SetUint64(v.Uint())) != 0 {
			return bad(v.Uint())
		}
	case protoreflect.FloatKind:
		if e.Kind != "f32" || e.Bits != uint64(math.Float32bits(float32(v.Float()))) {
			return bad(fmt.Sprintf("%v (bits %#x)", v.Float(), math.Float32bits(float32(v.Float()))))
		}
	case protoreflect.DoubleKind:
		if e.Kind != "f64" || e.Bits != math.Float64bits(v.Float()) {
			return bad(v.Float())
		}
	case protoreflect.StringKind:
		if e.Kind != "str" || e.Str != v.String() {
			return bad(fmt.Sprintf("%q", v.String()))
		}
	case protoreflect.BytesKind:
		if e.Kind != "bytes" || e.Str != string(v.Bytes()) {
			return bad(fmt.Sprintf("%x", v.Bytes()))
		}
	case protoreflect.EnumKind:
		if e.Kind != "enum" || e.Int.Cmp(big.NewInt(int64(v.Enum()))) != 0 {
			return bad(v.Enum())
		}
	case protoreflect.MessageKind, protoreflect.GroupKind:
		sub := v.Message()
		if e.Kind == "decimal" {
			s := sub.Get(sub.Descriptor().Fields().ByNumber(1)).String()
			x, ok := new(big.Rat).SetString(s)
			if !ok || x.Cmp(e.Dec) != 0 {
				return bad(fmt.Sprintf("%q", s))
			}
			return ""
		}
		if e.Kind != "msg" {
			return bad("a message")
		}
		return diffMsg(e, sub, p)
	}
	return ""
}
